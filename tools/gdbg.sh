#!/bin/bash
# usage: tools/gdbg.sh <ID> <rundir> <i>   -- replay record i (field "i") of <rundir>/obs.jsonl, print implementation obs and model outcome
ID=$1; RD=$2; I=$3
lc=$(echo $ID | tr A-Z a-z)
D=/tmp/gdbg-$lc-$$; mkdir -p $D
python3 - "$RD" "$I" "$D" <<'PY'
import json,sys
rd,i,d=sys.argv[1],int(sys.argv[2]),sys.argv[3]
for l in open(rd+'/obs.jsonl'):
    r=json.loads(l)
    if r['i']==i:
        json.dump({'case':r['case']},open(d+'/replay.json','w'))
        print('CASE',json.dumps(r['case']))
        print('OBS',json.dumps(r['obs']))
PY
/verif/bin/$lc --replay $D/replay.json --out $D --shards 1 >/dev/null
f=$D/cases_${ID}_0.v
sed -i 's/^Definition M := .*$/Definition R := Eval vm_compute in (map model_run cases)./; s/^Print M\.$/Print R./' $f
(cd $D && coqc -R /verif/coq Eino cases_${ID}_0.v 2>&1 | tail -${4:-40})
rm -rf $D
