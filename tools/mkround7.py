#!/usr/bin/env python3
"""Write notes/round7/<ID>.txt (prompts of the round-7 builders; only for properties with open seeded changes) from the seeded / refactoring results."""
import json, os, glob
ROOT = os.path.dirname(os.path.dirname(os.path.abspath(__file__)))
ids = [json.loads(l)["id"] for l in open(ROOT + "/properties.jsonl")]
extra = {}
for pid in ids:
    srows = []
    for d in sorted(glob.glob(ROOT + "/seeded/%s-*/" % pid)):
        n = os.path.basename(d.rstrip("/"))
        rp = d + "result.json"
        o = json.load(open(rp))["outcome"] if os.path.exists(rp) else "not run"
        if o != "caught":
            srows.append("%s: %s" % (n, o))
    rrows = []
    for d in sorted(glob.glob(ROOT + "/refac/*/")):
        n = os.path.basename(d.rstrip("/"))
        rp = d + "refac_result.json"
        if not os.path.exists(rp):
            continue
        r = json.load(open(rp)).get(pid)
        if r and r["outcome"] != "ok":
            rrows.append("%s: %s%s" % (n, r["outcome"], (" — " + r["what"][:160].replace("\n", " ")) if r.get("what") else ""))
    txt = f"""You are a builder agent for property {pid} of the formal-verification framework in /verif (Coq 8.16.1 machine-checked proofs over hand-written executable Gallina models of the Go repository /repo = cloudwego/eino, tied to the code on every run by a differential correspondence check and by go/ast translator ties whose output is proved equal to the model). You are CONTINUING existing work (round 7, a short closing round): your predecessor finished round 6 a short while ago; its final report is /verif/notes/round6/reports/{pid}.md.

Read, in this order and completely, before doing anything else:
1. /verif/notes/AGENT_BRIEF.md, AGENT_BRIEF2.md, AGENT_BRIEF3.md, AGENT_BRIEF4.md, AGENT_BRIEF5.md, AGENT_BRIEF6.md, /verif/notes/AGENT_BRIEF7.md (this round: what to do and the time budget — read it twice), /verif/ENGINE_GUIDE.md
2. your property's record in /verif/properties.jsonl (id {pid}) — the property text is fixed and decides what "full strength" means
3. /verif/notes/round6/reports/{pid}.md, /verif/notes/{pid}.md, /verif/props/{pid}.json, /verif/coq/Props/{pid}.v, /verif/coq/Corr/{pid}.v and the Model/Proofs files they import, your files under /verif/tools/go2v/, /verif/harness/cmd/{pid.lower()}/, /verif/corpus/{pid}/, the {pid} entries of /verif/known_findings.json, `git -C /repo log --oneline | head -40`

Seeded changes of {pid} that are NOT plainly caught after the fifth wave of independent mutators (all other seeded changes of the property are caught): {'; '.join(srows) or 'none'}. (seeded/{pid}-*/result.json have the details: `tail` is the end of the check's output, `replay_what` the reported failure.)

All 51 behaviour-preserving refactorings are plainly green for every property (refac/RESULTS.md); nothing to do there.

{extra.get(pid, '')}

The environment is set up (Coq .vo files and harness binaries exist). Every shell call needs `export GOFLAGS=-mod=mod GOPROXY=off GOSUMDB=off GOTOOLCHAIN=local` for Go commands. No network. About 25 other agents share the 16 cores / 62 GB: at most 4 heavy processes of your own; `( ulimit -v 8000000; timeout 600 coqc … )`. Timing-sensitive observations must tolerate a loaded machine without raising false alarms.

Work autonomously following AGENT_BRIEF7.md (70 minutes of work plus 15 minutes of verification; harness-only changes preferred; no fix: commits; leave everything consistent and green). Never leave Props/{pid}.v or Corr/{pid}.v (or anything they import, or tools/go2v) not compiling. Do not edit MANIFEST.json, DESIGN.md, check, harness/lib, tools/*.py, tools/go2v/main.go, or other properties' files; do not `git add -A` or commit in /verif (the coordinator commits the working tree at arbitrary moments); commits in /repo only as the briefs allow (run the whole suite before a `fix:`; never leave /repo dirty).

Finish with the final report described in AGENT_BRIEF7.md (≤ 12 lines)."""
    open(ROOT + "/notes/round7/%s.txt" % pid, "w").write(txt)
# summary table of the refactoring runs
rows = []
for d in sorted(glob.glob(ROOT + "/refac/*/")):
    rp = d + "refac_result.json"
    if os.path.exists(rp):
        r = json.load(open(rp))
        m = json.load(open(d + "meta.json")) if os.path.exists(d + "meta.json") else {}
        bad = ["%s:%s" % (k, v["outcome"]) for k, v in sorted(r.items()) if v["outcome"] != "ok"]
        rows.append("| %s | %s | %s | %d ok | %s |" % (os.path.basename(d.rstrip("/")), str(m.get("title", ""))[:140].replace("|", "/"), ", ".join(m.get("files", []))[:80], sum(1 for v in r.values() if v["outcome"] == "ok"), ", ".join(bad) or "-"))
open(ROOT + "/refac/RESULTS.md", "w").write("# Behaviour-preserving refactorings vs. every quick check (tools/run_refac.py)\n\n| refactoring | what | files | plainly green | not plainly green |\n|---|---|---|---|---|\n" + "\n".join(rows) + "\n")
print("ok", len(rows), "refactorings")
