package main

// Extractor "concat" (property C14): the registry of chunk-concatenation functions.
//
//   internal/concat.go   var concatFuncs = map[reflect.Type]any{ generic.TypeOf[T](): concatStrings | useLast[T], ... }
//                        func useLast / func concatStrings: what the two functions do (recognised shapes only)
//   schema/message.go    func init() { internal.RegisterStreamChunkConcatFunc(F) ... }  and the parameter type of each F
//
// Output: coq/Gen/ConcatTable.v with
//   table                 : list (string * cfun)      Go type name -> FConcatStrings | FUseLast | FUseFirst, sorted by name
//   schema_registrations  : list (string * string)    chunk type -> registered function, sorted
// (constructors from Model/ConcatTable.v; Proofs/GenAgreeConcat.v proves both equal to the model's tables).

import (
	"fmt"
	"go/ast"
	"go/parser"
	"go/token"
	"go/types"
	"path/filepath"
	"sort"
	"strings"
)

func init() {
	register("concat", extractConcat)
	registerFallback("concat", "ConcatTable.v", "(* Gen/ConcatTable.v — translator tie UNAVAILABLE: tools/go2v (extractor \"concat\") did not recognise the\n"+
		"   shape of internal/concat.go / schema/message.go; the model's own tables are re-exported. *)\n"+
		"From Eino Require Import Base.Util Model.ConcatTable.\n\n"+
		"Definition table : list (string * cfun) := Model.ConcatTable.table.\n\n"+
		"Definition schema_registrations : list (string * string) := Model.ConcatTable.schema_registrations.\n")
}

func coqStr(s string) string { return `"` + strings.ReplaceAll(s, `"`, `""`) + `"%string` }

// typeArgOfTypeOf matches generic.TypeOf[T]() and returns the printed T.
func typeArgOfTypeOf(e ast.Expr) (string, bool) {
	call, ok := e.(*ast.CallExpr)
	if !ok || len(call.Args) != 0 {
		return "", false
	}
	ix, ok := call.Fun.(*ast.IndexExpr)
	if !ok {
		return "", false
	}
	sel, ok := ix.X.(*ast.SelectorExpr)
	if !ok || sel.Sel.Name != "TypeOf" {
		return "", false
	}
	if pkg, ok := sel.X.(*ast.Ident); !ok || pkg.Name != "generic" {
		return "", false
	}
	return types.ExprString(ix.Index), true
}

// what a registry function does, from the shape of its body
func classifyUseLast(fn *ast.FuncDecl) (string, error) {
	if fn.Body == nil || len(fn.Body.List) != 1 {
		return "", fmt.Errorf("useLast: body is not a single statement")
	}
	ret, ok := fn.Body.List[0].(*ast.ReturnStmt)
	if !ok || len(ret.Results) != 2 {
		return "", fmt.Errorf("useLast: not a two-value return")
	}
	if id, ok := ret.Results[1].(*ast.Ident); !ok || id.Name != "nil" {
		return "", fmt.Errorf("useLast: error result is not nil")
	}
	switch strings.ReplaceAll(types.ExprString(ret.Results[0]), " ", "") {
	case "s[len(s)-1]":
		return "FUseLast", nil
	case "s[0]":
		return "FUseFirst", nil
	}
	return "", fmt.Errorf("useLast returns %s", types.ExprString(ret.Results[0]))
}

// concatStrings: a strings.Builder filled by one range loop over the argument, in order
func classifyConcatStrings(fn *ast.FuncDecl) (string, error) {
	if fn.Body == nil {
		return "", fmt.Errorf("concatStrings: no body")
	}
	param := ""
	if fn.Type.Params != nil && len(fn.Type.Params.List) == 1 && len(fn.Type.Params.List[0].Names) == 1 {
		param = fn.Type.Params.List[0].Names[0].Name
	}
	writes, forward, final := 0, true, false
	ast.Inspect(fn.Body, func(n ast.Node) bool {
		switch x := n.(type) {
		case *ast.RangeStmt:
			if types.ExprString(x.X) != param {
				forward = false
			}
		case *ast.ForStmt:
			forward = false // an index loop: direction not recognised
		case *ast.CallExpr:
			if sel, ok := x.Fun.(*ast.SelectorExpr); ok && sel.Sel.Name == "WriteString" {
				writes++
			}
		case *ast.ReturnStmt:
			if len(x.Results) == 2 && types.ExprString(x.Results[0]) == "b.String()" {
				final = true
			}
		}
		return true
	})
	if param == "" || writes != 1 || !forward || !final {
		return "", fmt.Errorf("concatStrings: not the recognised builder loop (writes=%d forward=%v final=%v)", writes, forward, final)
	}
	return "FConcatStrings", nil
}

func extractConcat(repo string) (string, string, error) {
	fset := token.NewFileSet()
	f, err := parser.ParseFile(fset, filepath.Join(repo, "internal", "concat.go"), nil, 0)
	if err != nil {
		return "", "", err
	}
	funcs := map[string]*ast.FuncDecl{}
	var lit *ast.CompositeLit
	for _, d := range f.Decls {
		switch x := d.(type) {
		case *ast.FuncDecl:
			if x.Recv == nil {
				funcs[x.Name.Name] = x
			}
		case *ast.GenDecl:
			for _, sp := range x.Specs {
				vs, ok := sp.(*ast.ValueSpec)
				if !ok {
					continue
				}
				for i, n := range vs.Names {
					if n.Name == "concatFuncs" && i < len(vs.Values) {
						lit, _ = vs.Values[i].(*ast.CompositeLit)
					}
				}
			}
		}
	}
	if lit == nil {
		return "", "", fmt.Errorf("var concatFuncs = map[...]...{...} not found")
	}
	if _, ok := lit.Type.(*ast.MapType); !ok {
		return "", "", fmt.Errorf("concatFuncs is not a map literal")
	}
	kinds := map[string]string{}
	for name, classify := range map[string]func(*ast.FuncDecl) (string, error){"useLast": classifyUseLast, "concatStrings": classifyConcatStrings} {
		fn, ok := funcs[name]
		if !ok {
			return "", "", fmt.Errorf("func %s not found", name)
		}
		k, err := classify(fn)
		if err != nil {
			return "", "", err
		}
		kinds[name] = k
	}
	type row struct{ ty, fn string }
	var rows []row
	seen := map[string]bool{}
	for _, el := range lit.Elts {
		kv, ok := el.(*ast.KeyValueExpr)
		if !ok {
			return "", "", fmt.Errorf("concatFuncs: element is not key: value")
		}
		ty, ok := typeArgOfTypeOf(kv.Key)
		if !ok {
			return "", "", fmt.Errorf("concatFuncs: key %s is not generic.TypeOf[T]()", types.ExprString(kv.Key))
		}
		if seen[ty] {
			return "", "", fmt.Errorf("concatFuncs: duplicate key %s", ty)
		}
		seen[ty] = true
		switch v := kv.Value.(type) {
		case *ast.Ident:
			k, ok := kinds[v.Name]
			if !ok {
				return "", "", fmt.Errorf("concatFuncs[%s]: unknown function %s", ty, v.Name)
			}
			rows = append(rows, row{ty, k})
		case *ast.IndexExpr:
			id, ok := v.X.(*ast.Ident)
			if !ok || kinds[id.Name] == "" {
				return "", "", fmt.Errorf("concatFuncs[%s]: unknown function %s", ty, types.ExprString(v.X))
			}
			if types.ExprString(v.Index) != ty {
				return "", "", fmt.Errorf("concatFuncs[%s]: instantiated at %s", ty, types.ExprString(v.Index))
			}
			rows = append(rows, row{ty, kinds[id.Name]})
		default:
			return "", "", fmt.Errorf("concatFuncs[%s]: value %s not recognised", ty, types.ExprString(kv.Value))
		}
	}
	sort.Slice(rows, func(i, j int) bool { return rows[i].ty < rows[j].ty })

	// registrations made by package schema at init
	g, err := parser.ParseFile(fset, filepath.Join(repo, "schema", "message.go"), nil, 0)
	if err != nil {
		return "", "", err
	}
	sfuncs := map[string]*ast.FuncDecl{}
	var inits []*ast.FuncDecl
	for _, d := range g.Decls {
		if fn, ok := d.(*ast.FuncDecl); ok && fn.Recv == nil {
			if fn.Name.Name == "init" {
				inits = append(inits, fn)
			} else {
				sfuncs[fn.Name.Name] = fn
			}
		}
	}
	var regs []row
	for _, in := range inits {
		var ierr error
		ast.Inspect(in.Body, func(n ast.Node) bool {
			call, ok := n.(*ast.CallExpr)
			if !ok {
				return true
			}
			sel, ok := call.Fun.(*ast.SelectorExpr)
			if !ok || sel.Sel.Name != "RegisterStreamChunkConcatFunc" {
				return true
			}
			if len(call.Args) != 1 {
				ierr = fmt.Errorf("RegisterStreamChunkConcatFunc: %d arguments", len(call.Args))
				return false
			}
			id, ok := call.Args[0].(*ast.Ident)
			if !ok || sfuncs[id.Name] == nil {
				ierr = fmt.Errorf("RegisterStreamChunkConcatFunc(%s): not a top-level function of message.go", types.ExprString(call.Args[0]))
				return false
			}
			fn := sfuncs[id.Name]
			if fn.Type.Params == nil || len(fn.Type.Params.List) != 1 {
				ierr = fmt.Errorf("%s: not a one-parameter function", id.Name)
				return false
			}
			at, ok := fn.Type.Params.List[0].Type.(*ast.ArrayType)
			if !ok || at.Len != nil {
				ierr = fmt.Errorf("%s: parameter is not a slice", id.Name)
				return false
			}
			regs = append(regs, row{types.ExprString(at.Elt), id.Name})
			return true
		})
		if ierr != nil {
			return "", "", ierr
		}
	}
	sort.Slice(regs, func(i, j int) bool { return regs[i].ty < regs[j].ty })

	var b strings.Builder
	b.WriteString("(* Gen/ConcatTable.v — GENERATED by tools/go2v (extractor \"concat\") from\n")
	b.WriteString("   internal/concat.go (concatFuncs, useLast, concatStrings) and schema/message.go (init). Do not edit. *)\n")
	b.WriteString("From Eino Require Import Base.Util Model.ConcatTable.\n\n")
	b.WriteString("Definition table : list (string * cfun) :=\n  [ ")
	for i, r := range rows {
		if i > 0 {
			b.WriteString(";\n    ")
		}
		fmt.Fprintf(&b, "(%s, %s)", coqStr(r.ty), r.fn)
	}
	b.WriteString(" ].\n\nDefinition schema_registrations : list (string * string) :=\n  [ ")
	for i, r := range regs {
		if i > 0 {
			b.WriteString(";\n    ")
		}
		fmt.Fprintf(&b, "(%s, %s)", coqStr(r.ty), coqStr(r.fn))
	}
	b.WriteString(" ].\n")
	return "ConcatTable.v", b.String(), nil
}
