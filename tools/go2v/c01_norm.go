package main

// c01_norm.go — property C01: normalisation of a Go function body before the statement-by-statement
// translation of c01_imp.go, so that behaviour-preserving rewrites of the translated functions yield the SAME
// Gallina text as before (and the agreement proofs keep compiling) instead of "tie unavailable" or a broken
// obligation.  Every rule is a source-to-source rewrite that holds for Go in general:
//
//   switch tag { case a, b: A  default: D }     if tag == a || tag == b { A } else { D }        (no fallthrough / break)
//   for … { if c { continue }; rest }           for … { if !c { rest } }                        (rest non-empty)
//   h(args)                                     the body of h, parameters replaced by the arguments, locals renamed
//                                               apart (h: a function / a method of the same receiver declared in the
//                                               same file, without result and without return, arguments free of
//                                               side effects; maps are references, so writes land in the argument)
//   v…, ok := h(args); if !ok { EXIT }          the body of h where `return …, false` becomes EXIT and a
//   v…, err := h(args); if err != nil { EXIT }  `return e…, true` / `return e…, nil` in tail position becomes v… = e…
//                                               (ok / err must not be used afterwards; EXIT leaves the block)
//   if [!]h(args) { A }   x := h(args)          h = `for … { if c { return B1 } }; return B2` with boolean
//                                               literals: r := B2; for … { if c { r = B1; break } }; if [!]r { A }
//
// A call that fits none of the rules is left alone (the translator then reports the shape as not recognised).
// Nothing here is specific to one refactoring: the rules invert "extract a helper", "early continue" and
// "if-chain to switch" wherever they were applied.

import (
	"bytes"
	"fmt"
	"go/ast"
	"go/parser"
	"go/printer"
	"go/token"
	"strconv"
	"strings"
)

type c01Inl struct {
	fset     *token.FileSet
	file     *ast.File
	recvType string                        // base type name of the host's receiver ("" for plain functions)
	recvName string                        // name of the host's receiver variable
	known    func(call *ast.CallExpr) bool // calls the translator has an entry for: never inlined
	names    map[string]bool               // identifiers in use in the host function
	n        int
	budget   int
}

func c01NewInl(repo string, rel []string, recvType, recvName string, host *ast.FuncDecl, known func(*ast.CallExpr) bool) (*c01Inl, error) {
	fset := token.NewFileSet()
	f, err := parser.ParseFile(fset, c01JoinPath(repo, rel), nil, 0)
	if err != nil {
		return nil, err
	}
	in := &c01Inl{fset: fset, file: f, recvType: recvType, recvName: recvName, known: known, names: map[string]bool{}, budget: 12}
	ast.Inspect(host, func(n ast.Node) bool {
		if id, ok := n.(*ast.Ident); ok {
			in.names[id.Name] = true
		}
		return true
	})
	return in, nil
}

func c01JoinPath(repo string, rel []string) string {
	return strings.Join(append([]string{repo}, rel...), "/")
}

// normalise the body of the host function
func (in *c01Inl) body(list []ast.Stmt) []ast.Stmt { return in.stmts(list, false) }

func (in *c01Inl) fresh(base string) string {
	for {
		in.n++
		nm := base + "_i" + strconv.Itoa(in.n)
		if !in.names[nm] {
			in.names[nm] = true
			return nm
		}
	}
}

// ---------------------------------------------------------------- helpers of the same file

func c01RecvBase(fd *ast.FuncDecl) (typ, name string) {
	if fd.Recv == nil || len(fd.Recv.List) != 1 {
		return "", ""
	}
	var e ast.Expr = fd.Recv.List[0].Type
	if st, ok := e.(*ast.StarExpr); ok {
		e = st.X
	}
	switch x := e.(type) {
	case *ast.IndexListExpr:
		e = x.X
	case *ast.IndexExpr:
		e = x.X
	}
	id, ok := e.(*ast.Ident)
	if !ok {
		return "", ""
	}
	if len(fd.Recv.List[0].Names) == 1 {
		name = fd.Recv.List[0].Names[0].Name
	}
	return id.Name, name
}

// the declaration of the function / method a call refers to, when it may be inlined
func (in *c01Inl) helper(call *ast.CallExpr) *ast.FuncDecl {
	if in.budget <= 0 || call.Ellipsis.IsValid() || (in.known != nil && in.known(call)) {
		return nil
	}
	var name string
	method := false
	switch f := call.Fun.(type) {
	case *ast.Ident:
		name = f.Name
	case *ast.SelectorExpr:
		id, ok := f.X.(*ast.Ident)
		if !ok || in.recvName == "" || id.Name != in.recvName {
			return nil
		}
		name, method = f.Sel.Name, true
	default:
		return nil
	}
	for _, d := range in.file.Decls {
		fd, ok := d.(*ast.FuncDecl)
		if !ok || fd.Name.Name != name || fd.Body == nil || fd.Type.TypeParams != nil {
			continue
		}
		if method {
			if ty, _ := c01RecvBase(fd); ty != in.recvType || ty == "" {
				continue
			}
		} else if fd.Recv != nil {
			continue
		}
		bad := false
		ast.Inspect(fd.Body, func(n ast.Node) bool {
			switch n.(type) {
			case *ast.DeferStmt, *ast.GoStmt, *ast.LabeledStmt, *ast.SelectStmt, *ast.FuncLit, *ast.TypeSwitchStmt:
				bad = true
			}
			return !bad
		})
		np := 0
		for _, fl := range fd.Type.Params.List {
			if len(fl.Names) == 0 {
				bad = true
			}
			if _, ok := fl.Type.(*ast.Ellipsis); ok {
				bad = true
			}
			np += len(fl.Names)
		}
		if bad || np != len(call.Args) {
			return nil
		}
		return fd
	}
	return nil
}

// an argument expression that can be evaluated any number of times
func c01PureArg(e ast.Expr) bool {
	switch x := e.(type) {
	case *ast.Ident, *ast.BasicLit:
		return true
	case *ast.SelectorExpr:
		return c01PureArg(x.X)
	case *ast.IndexExpr:
		return c01PureArg(x.X) && c01PureArg(x.Index)
	case *ast.ParenExpr:
		return c01PureArg(x.X)
	case *ast.StarExpr:
		return c01PureArg(x.X)
	case *ast.CallExpr:
		if id, ok := x.Fun.(*ast.Ident); ok && id.Name == "len" && len(x.Args) == 1 {
			return c01PureArg(x.Args[0])
		}
	}
	return false
}

func (in *c01Inl) text(n ast.Node) string {
	var b bytes.Buffer
	_ = printer.Fprint(&b, in.fset, n)
	return b.String()
}

// names a function body declares (:=, var, range)
func c01DeclaredIn(body *ast.BlockStmt) []string {
	var out []string
	seen := map[string]bool{}
	add := func(e ast.Expr) {
		if id, ok := e.(*ast.Ident); ok && id.Name != "_" && !seen[id.Name] {
			seen[id.Name] = true
			out = append(out, id.Name)
		}
	}
	ast.Inspect(body, func(n ast.Node) bool {
		switch x := n.(type) {
		case *ast.AssignStmt:
			if x.Tok == token.DEFINE {
				for _, l := range x.Lhs {
					add(l)
				}
			}
		case *ast.RangeStmt:
			if x.Tok == token.DEFINE {
				if x.Key != nil {
					add(x.Key)
				}
				if x.Value != nil {
					add(x.Value)
				}
			}
		case *ast.ValueSpec:
			for _, nm := range x.Names {
				add(nm)
			}
		}
		return true
	})
	return out
}

// the variables a body assigns as a whole (x = …, x := …, x++), not through an index
func c01AssignedWhole(body *ast.BlockStmt) map[string]bool {
	set := map[string]bool{}
	ast.Inspect(body, func(n ast.Node) bool {
		switch x := n.(type) {
		case *ast.AssignStmt:
			for _, l := range x.Lhs {
				if id, ok := l.(*ast.Ident); ok {
					set[id.Name] = true
				}
			}
		case *ast.IncDecStmt:
			if id, ok := x.X.(*ast.Ident); ok {
				set[id.Name] = true
			}
		case *ast.RangeStmt:
			for _, e := range []ast.Expr{x.Key, x.Value} {
				if id, ok := e.(*ast.Ident); ok {
					set[id.Name] = true
				}
			}
		}
		return true
	})
	return set
}

// a fresh copy of the helper's body with the parameters replaced by the call's arguments, the receiver by the
// host's, and the declared names renamed as `rename` says or, when they collide with a name of the host, apart
func (in *c01Inl) instantiate(fd *ast.FuncDecl, call *ast.CallExpr, rename map[string]string) ([]ast.Stmt, error) {
	subst := map[string]string{}
	i := 0
	assigned := c01AssignedWhole(fd.Body)
	for _, fl := range fd.Type.Params.List {
		for _, nm := range fl.Names {
			a := call.Args[i]
			i++
			if nm.Name == "_" {
				continue
			}
			if !c01PureArg(a) {
				return nil, fmt.Errorf("argument %s of %s is not a plain expression", c01Squash(a), fd.Name.Name)
			}
			if assigned[nm.Name] {
				return nil, fmt.Errorf("%s assigns its parameter %s", fd.Name.Name, nm.Name)
			}
			s := in.text(a)
			switch a.(type) {
			case *ast.Ident, *ast.BasicLit, *ast.SelectorExpr, *ast.IndexExpr, *ast.ParenExpr, *ast.CallExpr:
			default:
				s = "(" + s + ")"
			}
			subst[nm.Name] = s
		}
	}
	if _, rn := c01RecvBase(fd); rn != "" && rn != "_" && rn != in.recvName {
		if assigned[rn] {
			return nil, fmt.Errorf("%s assigns its receiver", fd.Name.Name)
		}
		subst[rn] = in.recvName
	}
	for _, d := range c01DeclaredIn(fd.Body) {
		if _, isParam := subst[d]; isParam {
			return nil, fmt.Errorf("%s redeclares its parameter %s", fd.Name.Name, d)
		}
		if to, ok := rename[d]; ok {
			subst[d] = to
			in.names[to] = true
			continue
		}
		if in.names[d] && d != "err" && d != "ok" {
			subst[d] = in.fresh(d)
		} else {
			in.names[d] = true
		}
	}
	// a fresh copy: print and parse again
	src := "package p\nfunc _() " + in.text(fd.Body) + "\n"
	fset := token.NewFileSet()
	f, err := parser.ParseFile(fset, "", src, 0)
	if err != nil {
		return nil, err
	}
	body := f.Decls[0].(*ast.FuncDecl).Body
	c01RenameIdents(body, subst)
	var b bytes.Buffer
	if err := printer.Fprint(&b, fset, body); err != nil {
		return nil, err
	}
	f2, err := parser.ParseFile(token.NewFileSet(), "", "package p\nfunc _() "+b.String()+"\n", 0)
	if err != nil {
		return nil, fmt.Errorf("inlined body of %s does not parse: %v", fd.Name.Name, err)
	}
	return f2.Decls[0].(*ast.FuncDecl).Body.List, nil
}

// rename the identifiers that are variables (not field / method names of a selector, not keys of a literal)
func c01RenameIdents(n ast.Node, subst map[string]string) {
	var walk func(n ast.Node)
	walk = func(n ast.Node) {
		ast.Inspect(n, func(m ast.Node) bool {
			switch x := m.(type) {
			case *ast.SelectorExpr:
				walk(x.X)
				return false
			case *ast.KeyValueExpr:
				if _, isIdent := x.Key.(*ast.Ident); !isIdent {
					walk(x.Key)
				}
				walk(x.Value)
				return false
			case *ast.Ident:
				if to, ok := subst[x.Name]; ok {
					x.Name = to
				}
			}
			return true
		})
	}
	walk(n)
}

// ---------------------------------------------------------------- statement lists

func (in *c01Inl) block(b *ast.BlockStmt, inLoop bool) *ast.BlockStmt {
	if b == nil {
		return nil
	}
	return &ast.BlockStmt{List: in.stmts(b.List, inLoop)}
}

func (in *c01Inl) stmts(list []ast.Stmt, loopBody bool) []ast.Stmt {
	var out []ast.Stmt
	for i := 0; i < len(list); i++ {
		s := list[i]
		switch x := s.(type) {
		case *ast.SwitchStmt:
			if is := c01SwitchToIf(x); is != nil {
				s = is
			}
		}
		switch x := s.(type) {
		case *ast.BlockStmt:
			s = in.block(x, false)
		case *ast.IfStmt:
			// if [!]h(args) { … }
			if x.Init == nil {
				if pre, cond, ok := in.searchCall(x.Cond); ok {
					rest := append([]ast.Stmt{&ast.IfStmt{Cond: cond, Body: x.Body, Else: x.Else}}, list[i+1:]...)
					return append(out, in.stmts(append(pre, rest...), loopBody)...)
				}
			}
			s = in.ifStmt(x)
			// for … { if c { continue }; rest }  ->  for … { if !c { rest } }
			if loopBody && i+1 < len(list) {
				is := s.(*ast.IfStmt)
				if is.Else == nil && len(is.Body.List) == 1 {
					if br, ok := is.Body.List[0].(*ast.BranchStmt); ok && br.Tok == token.CONTINUE && br.Label == nil {
						rest := in.stmts(list[i+1:], false)
						return append(out, &ast.IfStmt{Init: is.Init, Cond: c01Negate(is.Cond), Body: &ast.BlockStmt{List: rest}})
					}
				}
			}
		case *ast.RangeStmt:
			s = &ast.RangeStmt{Key: x.Key, Value: x.Value, Tok: x.Tok, X: x.X, Body: &ast.BlockStmt{List: in.stmts(x.Body.List, true)}}
		case *ast.ForStmt:
			s = &ast.ForStmt{Init: x.Init, Cond: x.Cond, Post: x.Post, Body: &ast.BlockStmt{List: in.stmts(x.Body.List, true)}}
		case *ast.ExprStmt:
			// h(args): a helper without result
			if call, ok := x.X.(*ast.CallExpr); ok {
				if fd := in.helper(call); fd != nil && fd.Type.Results == nil && !c01HasReturn(c01DropTrailingReturn(fd.Body.List)) {
					if body, err := in.instantiate(fd, call, nil); err == nil {
						in.budget--
						out = append(out, in.stmts(c01DropTrailingReturn(body), false)...)
						continue
					}
				}
			}
		case *ast.AssignStmt:
			if len(x.Rhs) == 1 {
				if call, ok := x.Rhs[0].(*ast.CallExpr); ok {
					// v…, ok := h(args); if !ok { EXIT }
					if i+1 < len(list) {
						if repl, ok := in.fused(x, call, list[i+1], list[i+2:]); ok {
							in.budget--
							return append(out, in.stmts(append(repl, list[i+2:]...), loopBody)...)
						}
					}
					// x := h(args), h a search loop
					if len(x.Lhs) == 1 && x.Tok == token.DEFINE {
						if id, ok := x.Lhs[0].(*ast.Ident); ok && id.Name != "_" {
							if pre, ok := in.searchInto(call, id.Name); ok {
								in.budget--
								return append(out, in.stmts(append(pre, list[i+1:]...), loopBody)...)
							}
						}
					}
				}
			}
		}
		out = append(out, s)
	}
	return out
}

func c01DropTrailingReturn(l []ast.Stmt) []ast.Stmt {
	if len(l) > 0 {
		if r, ok := l[len(l)-1].(*ast.ReturnStmt); ok && len(r.Results) == 0 {
			return l[:len(l)-1]
		}
	}
	return l
}

func (in *c01Inl) ifStmt(x *ast.IfStmt) *ast.IfStmt {
	r := &ast.IfStmt{Init: x.Init, Cond: x.Cond, Body: in.block(x.Body, false)}
	switch e := x.Else.(type) {
	case *ast.BlockStmt:
		r.Else = in.block(e, false)
	case *ast.IfStmt:
		r.Else = in.ifStmt(e)
	}
	return r
}

func c01Negate(e ast.Expr) ast.Expr {
	switch x := e.(type) {
	case *ast.ParenExpr:
		return c01Negate(x.X)
	case *ast.UnaryExpr:
		if x.Op == token.NOT {
			if p, ok := x.X.(*ast.ParenExpr); ok {
				return p.X
			}
			return x.X
		}
	case *ast.BinaryExpr:
		flip := map[token.Token]token.Token{token.EQL: token.NEQ, token.NEQ: token.EQL, token.LSS: token.GEQ, token.GEQ: token.LSS, token.GTR: token.LEQ, token.LEQ: token.GTR}
		if op, ok := flip[x.Op]; ok {
			return &ast.BinaryExpr{X: x.X, Op: op, Y: x.Y}
		}
		return &ast.UnaryExpr{Op: token.NOT, X: &ast.ParenExpr{X: x}}
	}
	return &ast.UnaryExpr{Op: token.NOT, X: e}
}

// switch [tag] { case …: … default: … } without fallthrough / break -> if / else if / else
func c01SwitchToIf(sw *ast.SwitchStmt) *ast.IfStmt {
	if sw.Init != nil || (sw.Tag != nil && !c01PureArg(sw.Tag)) {
		return nil
	}
	var clauses []*ast.CaseClause
	var def *ast.CaseClause
	for _, s := range sw.Body.List {
		cc, ok := s.(*ast.CaseClause)
		if !ok {
			return nil
		}
		if c01HasJump(cc.Body, token.BREAK) || c01HasJump(cc.Body, token.FALLTHROUGH) {
			return nil
		}
		// a break nested in an if of the clause also belongs to the switch
		bad := false
		for _, b := range cc.Body {
			ast.Inspect(b, func(n ast.Node) bool {
				switch y := n.(type) {
				case *ast.FuncLit, *ast.RangeStmt, *ast.ForStmt, *ast.SwitchStmt, *ast.SelectStmt:
					return false
				case *ast.BranchStmt:
					if y.Tok == token.BREAK || y.Tok == token.FALLTHROUGH {
						bad = true
					}
				}
				return !bad
			})
		}
		if bad {
			return nil
		}
		if cc.List == nil {
			if def != nil {
				return nil
			}
			def = cc
			continue
		}
		clauses = append(clauses, cc)
	}
	if len(clauses) == 0 {
		return nil
	}
	var first, last *ast.IfStmt
	for _, cc := range clauses {
		var cond ast.Expr
		for _, e := range cc.List {
			var c ast.Expr = e
			if sw.Tag != nil {
				c = &ast.BinaryExpr{X: sw.Tag, Op: token.EQL, Y: e}
			}
			if cond == nil {
				cond = c
			} else {
				cond = &ast.BinaryExpr{X: cond, Op: token.LOR, Y: c}
			}
		}
		is := &ast.IfStmt{Cond: cond, Body: &ast.BlockStmt{List: cc.Body}}
		if first == nil {
			first = is
		} else {
			last.Else = is
		}
		last = is
	}
	if def != nil {
		last.Else = &ast.BlockStmt{List: def.Body}
	}
	return first
}

// ---------------------------------------------------------------- v…, flag := h(args); if !flag { EXIT }

func c01IsIdentNamed(e ast.Expr, name string) bool {
	id, ok := e.(*ast.Ident)
	return ok && id.Name == name
}

func c01Mentions(l []ast.Stmt, name string) bool {
	found := false
	for _, s := range l {
		ast.Inspect(s, func(n ast.Node) bool {
			if sel, ok := n.(*ast.SelectorExpr); ok {
				ast.Inspect(sel.X, func(m ast.Node) bool {
					if id, ok := m.(*ast.Ident); ok && id.Name == name {
						found = true
					}
					return !found
				})
				return false
			}
			if id, ok := n.(*ast.Ident); ok && id.Name == name {
				found = true
			}
			return !found
		})
	}
	return found
}

// the statements read the variable before a statement of the list assigns it anew
func c01ReadBeforeWrite(l []ast.Stmt, name string) bool {
	for _, s := range l {
		if as, ok := s.(*ast.AssignStmt); ok {
			writes := false
			for _, lh := range as.Lhs {
				if c01IsIdentNamed(lh, name) {
					writes = true
				}
			}
			if writes {
				rhs := make([]ast.Stmt, 0, len(as.Rhs))
				for _, r := range as.Rhs {
					rhs = append(rhs, &ast.ExprStmt{X: r})
				}
				return c01Mentions(rhs, name)
			}
		}
		if c01Mentions([]ast.Stmt{s}, name) {
			return true
		}
	}
	return false
}

func (in *c01Inl) fused(as *ast.AssignStmt, call *ast.CallExpr, next ast.Stmt, after []ast.Stmt) ([]ast.Stmt, bool) {
	fd := in.helper(call)
	if fd == nil || fd.Type.Results == nil || len(as.Lhs) < 1 {
		return nil, false
	}
	var rtypes []ast.Expr
	for _, fl := range fd.Type.Results.List {
		if len(fl.Names) != 0 {
			return nil, false // named results
		}
		rtypes = append(rtypes, fl.Type)
	}
	if len(rtypes) != len(as.Lhs) || len(rtypes) < 1 {
		return nil, false
	}
	flagID, ok := as.Lhs[len(as.Lhs)-1].(*ast.Ident)
	if !ok || flagID.Name == "_" {
		return nil, false
	}
	flag := flagID.Name
	is, ok := next.(*ast.IfStmt)
	if !ok || is.Init != nil || is.Else != nil || !c01AlwaysExits(is.Body.List) {
		return nil, false
	}
	// which kind of flag, and is the test "the call failed"?
	isErr := c01Squash(rtypes[len(rtypes)-1]) == "error"
	isBool := c01Squash(rtypes[len(rtypes)-1]) == "bool"
	failed := false
	switch c := is.Cond.(type) {
	case *ast.UnaryExpr:
		failed = isBool && c.Op == token.NOT && c01IsIdentNamed(c.X, flag)
	case *ast.BinaryExpr:
		if isErr {
			failed = c.Op == token.NEQ && c01IsIdentNamed(c.X, flag) && c01IsNilIdent(c.Y)
		} else if isBool {
			failed = (c.Op == token.EQL && c01IsIdentNamed(c.X, flag) && c01IsIdentNamed(c.Y, "false")) ||
				(c.Op == token.NEQ && c01IsIdentNamed(c.X, flag) && c01IsIdentNamed(c.Y, "true"))
		}
	}
	if !failed {
		return nil, false
	}
	// the flag is not used afterwards (an error flag may be handed on by EXIT: every non-nil error is one class)
	if c01ReadBeforeWrite(after, flag) && !(isErr && flag == "err") {
		return nil, false
	}
	if isBool && c01Mentions(is.Body.List, flag) {
		return nil, false
	}
	exit := is.Body.List
	// classify the returns of the helper
	okRets := 0
	bad := false
	var successVals [][]ast.Expr
	ast.Inspect(fd.Body, func(n ast.Node) bool {
		r, ok := n.(*ast.ReturnStmt)
		if !ok {
			return true
		}
		if len(r.Results) != len(rtypes) {
			bad = true
			return false
		}
		last := r.Results[len(r.Results)-1]
		switch {
		case isBool && c01IsIdentNamed(last, "true"), isErr && c01IsNilIdent(last):
			okRets++
			successVals = append(successVals, r.Results[:len(r.Results)-1])
		case isBool && c01IsIdentNamed(last, "false"):
		case isErr && !c01IsNilIdent(last):
			if _, isIdent := last.(*ast.Ident); isIdent && !c01IsErrIdent(last) {
				bad = true // a variable that may hold nil
			}
		default:
			bad = true
		}
		return true
	})
	if bad || okRets == 0 {
		return nil, false
	}
	// a value that every successful return takes from the same local of the helper: that local becomes the
	// caller's variable; otherwise the caller's variable is declared and assigned
	declared := map[string]bool{}
	for _, d := range c01DeclaredIn(fd.Body) {
		declared[d] = true
	}
	rename := map[string]string{}
	direct := make([]bool, len(as.Lhs)-1)
	var pre []ast.Stmt
	for j := 0; j < len(as.Lhs)-1; j++ {
		lid, ok := as.Lhs[j].(*ast.Ident)
		if !ok {
			return nil, false
		}
		if lid.Name == "_" {
			direct[j] = true
			continue
		}
		same := ""
		for k, vs := range successVals {
			id, ok := vs[j].(*ast.Ident)
			if !ok || !declared[id.Name] || (k > 0 && id.Name != same) {
				same = ""
				break
			}
			same = id.Name
		}
		if same != "" && as.Tok == token.DEFINE {
			if _, taken := rename[same]; taken {
				return nil, false
			}
			rename[same] = lid.Name
			direct[j] = true
			continue
		}
		if as.Tok == token.DEFINE {
			pre = append(pre, &ast.DeclStmt{Decl: &ast.GenDecl{Tok: token.VAR, Specs: []ast.Spec{
				&ast.ValueSpec{Names: []*ast.Ident{ast.NewIdent(lid.Name)}, Type: rtypes[j]}}}})
		}
	}
	body, err := in.instantiate(fd, call, rename)
	if err != nil {
		return nil, false
	}
	body = in.stmts(body, false) // switch -> if, nested helpers
	okFlag := true
	var rw func(l []ast.Stmt, tail bool) []ast.Stmt
	rwIf := func(x *ast.IfStmt, tail bool) *ast.IfStmt { return nil }
	rwIf = func(x *ast.IfStmt, tail bool) *ast.IfStmt {
		r := &ast.IfStmt{Init: x.Init, Cond: x.Cond, Body: &ast.BlockStmt{List: rw(x.Body.List, tail)}}
		switch e := x.Else.(type) {
		case *ast.BlockStmt:
			r.Else = &ast.BlockStmt{List: rw(e.List, tail)}
		case *ast.IfStmt:
			r.Else = rwIf(e, tail)
		}
		return r
	}
	rw = func(l []ast.Stmt, tail bool) []ast.Stmt {
		var out []ast.Stmt
		for i, s := range l {
			isLast := tail && i == len(l)-1
			switch x := s.(type) {
			case *ast.ReturnStmt:
				last := x.Results[len(x.Results)-1]
				if (isBool && c01IsIdentNamed(last, "true")) || (isErr && c01IsNilIdent(last)) {
					if !isLast {
						okFlag = false
						return nil
					}
					for j := 0; j < len(as.Lhs)-1; j++ {
						if direct[j] {
							continue
						}
						out = append(out, &ast.AssignStmt{Lhs: []ast.Expr{as.Lhs[j]}, Tok: token.ASSIGN, Rhs: []ast.Expr{x.Results[j]}})
					}
					continue
				}
				out = append(out, exit...)
			case *ast.IfStmt:
				out = append(out, rwIf(x, isLast))
			case *ast.BlockStmt:
				out = append(out, &ast.BlockStmt{List: rw(x.List, isLast)})
			case *ast.RangeStmt:
				out = append(out, &ast.RangeStmt{Key: x.Key, Value: x.Value, Tok: x.Tok, X: x.X, Body: &ast.BlockStmt{List: rw(x.Body.List, false)}})
			case *ast.ForStmt:
				out = append(out, &ast.ForStmt{Init: x.Init, Cond: x.Cond, Post: x.Post, Body: &ast.BlockStmt{List: rw(x.Body.List, false)}})
			case *ast.SwitchStmt:
				if c01HasReturn([]ast.Stmt{x}) {
					okFlag = false
					return nil
				}
				out = append(out, s)
			default:
				out = append(out, s)
			}
		}
		return out
	}
	res := rw(body, true)
	if !okFlag {
		return nil, false
	}
	return append(pre, res...), true
}

// ---------------------------------------------------------------- search loops: for … { if c { return B1 } }; return B2

// a condition [!]h(args) with h a search loop: the statements that compute the result, and the condition on it
func (in *c01Inl) searchCall(cond ast.Expr) ([]ast.Stmt, ast.Expr, bool) {
	neg := false
	e := cond
	if u, ok := e.(*ast.UnaryExpr); ok && u.Op == token.NOT {
		neg, e = true, u.X
	}
	call, ok := e.(*ast.CallExpr)
	if !ok {
		return nil, nil, false
	}
	if fd := in.helper(call); fd == nil {
		return nil, nil, false
	}
	r := in.fresh("r")
	pre, ok := in.searchInto(call, r)
	if !ok {
		return nil, nil, false
	}
	in.budget--
	var c ast.Expr = ast.NewIdent(r)
	if neg {
		c = &ast.UnaryExpr{Op: token.NOT, X: c}
	}
	return pre, c, true
}

func c01BoolLit(e ast.Expr) bool { return c01IsIdentNamed(e, "true") || c01IsIdentNamed(e, "false") }

func (in *c01Inl) searchInto(call *ast.CallExpr, r string) ([]ast.Stmt, bool) {
	fd := in.helper(call)
	if fd == nil || fd.Type.Results == nil || len(fd.Type.Results.List) != 1 || len(fd.Type.Results.List[0].Names) != 0 ||
		c01Squash(fd.Type.Results.List[0].Type) != "bool" {
		return nil, false
	}
	l := fd.Body.List
	if len(l) != 2 {
		return nil, false
	}
	loop, ok := l[0].(*ast.RangeStmt)
	fin, ok2 := l[1].(*ast.ReturnStmt)
	if !ok || !ok2 || len(fin.Results) != 1 || !c01BoolLit(fin.Results[0]) {
		return nil, false
	}
	// every other return: a boolean literal, inside the loop and in no loop nested in it
	good := true
	var check func(l []ast.Stmt)
	check = func(l []ast.Stmt) {
		for _, s := range l {
			switch x := s.(type) {
			case *ast.ReturnStmt:
				if len(x.Results) != 1 || !c01BoolLit(x.Results[0]) {
					good = false
				}
			case *ast.IfStmt:
				check(x.Body.List)
				switch e := x.Else.(type) {
				case *ast.BlockStmt:
					check(e.List)
				case *ast.IfStmt:
					check([]ast.Stmt{e})
				}
			case *ast.BlockStmt:
				check(x.List)
			default:
				if c01HasReturn([]ast.Stmt{s}) {
					good = false
				}
			}
		}
	}
	check(loop.Body.List)
	if !good {
		return nil, false
	}
	body, err := in.instantiate(fd, call, nil)
	if err != nil {
		return nil, false
	}
	loop = body[0].(*ast.RangeStmt)
	fin = body[1].(*ast.ReturnStmt)
	var rw func(l []ast.Stmt) []ast.Stmt
	rwIf := func(x *ast.IfStmt) *ast.IfStmt { return nil }
	rwIf = func(x *ast.IfStmt) *ast.IfStmt {
		n := &ast.IfStmt{Init: x.Init, Cond: x.Cond, Body: &ast.BlockStmt{List: rw(x.Body.List)}}
		switch e := x.Else.(type) {
		case *ast.BlockStmt:
			n.Else = &ast.BlockStmt{List: rw(e.List)}
		case *ast.IfStmt:
			n.Else = rwIf(e)
		}
		return n
	}
	rw = func(l []ast.Stmt) []ast.Stmt {
		var out []ast.Stmt
		for _, s := range l {
			switch x := s.(type) {
			case *ast.ReturnStmt:
				out = append(out, &ast.AssignStmt{Lhs: []ast.Expr{ast.NewIdent(r)}, Tok: token.ASSIGN, Rhs: []ast.Expr{x.Results[0]}},
					&ast.BranchStmt{Tok: token.BREAK})
			case *ast.IfStmt:
				out = append(out, rwIf(x))
			case *ast.BlockStmt:
				out = append(out, &ast.BlockStmt{List: rw(x.List)})
			default:
				out = append(out, s)
			}
		}
		return out
	}
	in.names[r] = true
	return []ast.Stmt{
		&ast.AssignStmt{Lhs: []ast.Expr{ast.NewIdent(r)}, Tok: token.DEFINE, Rhs: []ast.Expr{fin.Results[0]}},
		&ast.RangeStmt{Key: loop.Key, Value: loop.Value, Tok: loop.Tok, X: loop.X, Body: &ast.BlockStmt{List: rw(loop.Body.List)}},
	}, true
}
