package main

// Inlining pre-pass of the C19 extractors (round 5).  A behaviour-preserving rewrite that moves a loop, a loop
// body or an `if` arm of a translated function into a private helper of the same package (closeIfStream(v),
// closeUnread(vs[n:]), vs = fanOutLast(vs, n) ...) changes the statement shapes the extractors read although
// the function still does the same thing.  Before translating, every call of such a helper is replaced by the
// helper's body:
//
//	f(a1..an)            f has no results, its body has no return (or only a trailing bare one)
//	x... := f(a1..an)    the body of f ends with its only return; the returned expressions are assigned
//	recv.f(a1..an)       the same for a method of the package (the receiver is one more parameter)
//
// with the parameters replaced by the argument expressions (a parameter the helper assigns to becomes a local
// initialised with the argument) and the helper's own locals renamed apart.  Only syntax is used (go/ast, no
// type checker): a helper that contains a construct this file does not copy (closures, go / defer, labels,
// switch, select ...) or several returns is left alone, and the extractor then reports the shape as not
// recognised (tie unavailable).  The functions the translators treat as primitives are never expanded.

import (
	"fmt"
	"go/ast"
	"go/parser"
	"go/token"
	"os"
	"path/filepath"
	"strings"
)

type c19Inliner struct {
	funcs map[string]*ast.FuncDecl // plain functions and methods of the package by name ("" when ambiguous)
	deny  map[string]bool
	seq   int
}

var c19InlineDeny = []string{"copyItem", "uniqueKeys", "calculateBranch", "handle", "reportValues", "reportSkip",
	"reportDependencies", "reportBranch", "get", "mergeValues", "cpy", "make", "len", "append", "delete", "close", "copy",
	"new", "panic", "recover", "cap", "OnWithStreamHandle", "resolveCompletedTasks", "updateValues"}

// c19NewInliner reads every non-test Go file of the directory (files behind the verif build tag excluded)
func c19NewInliner(fset *token.FileSet, dir string) *c19Inliner {
	in := &c19Inliner{funcs: map[string]*ast.FuncDecl{}, deny: map[string]bool{}}
	for _, d := range c19InlineDeny {
		in.deny[d] = true
	}
	ents, err := os.ReadDir(dir)
	if err != nil {
		return in
	}
	dup := map[string]bool{}
	for _, e := range ents {
		n := e.Name()
		if e.IsDir() || !strings.HasSuffix(n, ".go") || strings.HasSuffix(n, "_test.go") || strings.HasPrefix(n, "verif_") {
			continue
		}
		f, err := parser.ParseFile(fset, filepath.Join(dir, n), nil, 0)
		if err != nil {
			continue
		}
		for _, d := range f.Decls {
			fn, ok := d.(*ast.FuncDecl)
			if !ok || fn.Body == nil {
				continue
			}
			if _, seen := in.funcs[fn.Name.Name]; seen {
				dup[fn.Name.Name] = true
			}
			in.funcs[fn.Name.Name] = fn
		}
	}
	for n := range dup {
		delete(in.funcs, n) // the same name on several receivers: which one is called cannot be told without types
	}
	return in
}

// expandFunc expands the helper calls in the body of fn (in place)
func (in *c19Inliner) expandFunc(fn *ast.FuncDecl) {
	if in == nil || fn == nil || fn.Body == nil {
		return
	}
	fn.Body.List = in.expand(fn.Body.List, 0)
}

func (in *c19Inliner) expand(list []ast.Stmt, depth int) []ast.Stmt {
	var out []ast.Stmt
	for _, s := range list {
		if depth < 4 {
			if repl, ok := in.inlineStmt(s); ok {
				out = append(out, in.expand(repl, depth+1)...)
				continue
			}
		}
		switch x := s.(type) {
		case *ast.IfStmt:
			x.Body.List = in.expand(x.Body.List, depth)
			switch e := x.Else.(type) {
			case *ast.BlockStmt:
				e.List = in.expand(e.List, depth)
			case *ast.IfStmt:
				r := in.expand([]ast.Stmt{e}, depth)
				if len(r) == 1 {
					x.Else = r[0]
				}
			}
		case *ast.RangeStmt:
			x.Body.List = in.expand(x.Body.List, depth)
		case *ast.ForStmt:
			x.Body.List = in.expand(x.Body.List, depth)
		case *ast.BlockStmt:
			x.List = in.expand(x.List, depth)
		}
		out = append(out, s)
	}
	return out
}

// callee returns the declaration a call refers to and the receiver expression (nil for a plain function)
func (in *c19Inliner) callee(call *ast.CallExpr) (*ast.FuncDecl, ast.Expr) {
	if call.Ellipsis != token.NoPos {
		return nil, nil
	}
	switch f := call.Fun.(type) {
	case *ast.Ident:
		if fn := in.funcs[f.Name]; fn != nil && fn.Recv == nil && !in.deny[f.Name] {
			return fn, nil
		}
	case *ast.SelectorExpr:
		if _, ok := f.X.(*ast.Ident); !ok {
			return nil, nil
		}
		if fn := in.funcs[f.Sel.Name]; fn != nil && fn.Recv != nil && !in.deny[f.Sel.Name] &&
			len(fn.Recv.List) == 1 && len(fn.Recv.List[0].Names) == 1 {
			return fn, f.X
		}
	}
	return nil, nil
}

func (in *c19Inliner) inlineStmt(s ast.Stmt) ([]ast.Stmt, bool) {
	switch x := s.(type) {
	case *ast.ExprStmt:
		call, ok := x.X.(*ast.CallExpr)
		if !ok {
			return nil, false
		}
		fn, recv := in.callee(call)
		if fn == nil || (fn.Type.Results != nil && len(fn.Type.Results.List) > 0) {
			return nil, false
		}
		body, rets, ok := in.instantiate(fn, recv, call.Args)
		if !ok || rets != nil {
			return nil, false
		}
		return body, true
	case *ast.AssignStmt:
		if len(x.Rhs) != 1 || (x.Tok != token.DEFINE && x.Tok != token.ASSIGN) {
			return nil, false
		}
		call, ok := x.Rhs[0].(*ast.CallExpr)
		if !ok {
			return nil, false
		}
		fn, recv := in.callee(call)
		if fn == nil || fn.Type.Results == nil {
			return nil, false
		}
		for _, r := range fn.Type.Results.List {
			if len(r.Names) > 0 {
				return nil, false // named results
			}
		}
		body, rets, ok := in.instantiate(fn, recv, call.Args)
		if !ok || len(rets) != len(x.Lhs) {
			return nil, false
		}
		return append(body, &ast.AssignStmt{Lhs: x.Lhs, Tok: x.Tok, Rhs: rets}), true
	}
	return nil, false
}

type c19Subst struct {
	expr   map[string]ast.Expr // parameter -> argument expression
	rename map[string]string   // local -> new name
	bad    bool
}

// instantiate returns the statements of the helper's body for this call and the expressions of its trailing
// return (nil when it has none)
func (in *c19Inliner) instantiate(fn *ast.FuncDecl, recv ast.Expr, args []ast.Expr) ([]ast.Stmt, []ast.Expr, bool) {
	if fn.Type.TypeParams != nil {
		return nil, nil, false
	}
	var params []string
	if fn.Recv != nil {
		params = append(params, fn.Recv.List[0].Names[0].Name)
		args = append([]ast.Expr{recv}, args...)
	}
	for _, fl := range fn.Type.Params.List {
		if _, variadic := fl.Type.(*ast.Ellipsis); variadic || len(fl.Names) == 0 {
			return nil, nil, false
		}
		for _, n := range fl.Names {
			params = append(params, n.Name)
		}
	}
	if len(params) != len(args) {
		return nil, nil, false
	}
	list := fn.Body.List
	var retStmt *ast.ReturnStmt
	if n := len(list); n > 0 {
		if r, ok := list[n-1].(*ast.ReturnStmt); ok {
			retStmt, list = r, list[:n-1]
		}
	}
	// no other return, nothing this file cannot copy
	okBody := true
	for _, s := range list {
		ast.Inspect(s, func(n ast.Node) bool {
			switch n.(type) {
			case *ast.ReturnStmt, *ast.FuncLit, *ast.GoStmt, *ast.DeferStmt, *ast.LabeledStmt, *ast.SwitchStmt,
				*ast.TypeSwitchStmt, *ast.SelectStmt, *ast.SendStmt:
				okBody = false
			}
			return okBody
		})
	}
	if !okBody {
		return nil, nil, false
	}
	in.seq++
	sfx := fmt.Sprintf("_i%d", in.seq)
	sb := &c19Subst{expr: map[string]ast.Expr{}, rename: map[string]string{}}
	assigned, declared := c19AssignedAndDeclared(list)
	isParam := map[string]bool{}
	var pre []ast.Stmt
	for i, p := range params {
		isParam[p] = true
		if p == "_" {
			continue
		}
		if declared[p] {
			return nil, nil, false // a local of the helper shadows its parameter
		}
		if assigned[p] {
			sb.rename[p] = p + sfx
			pre = append(pre, &ast.AssignStmt{Lhs: []ast.Expr{ast.NewIdent(p + sfx)}, Tok: token.DEFINE, Rhs: []ast.Expr{args[i]}})
			continue
		}
		if !c19PureArg(args[i]) {
			return nil, nil, false
		}
		sb.expr[p] = args[i]
	}
	for d := range declared {
		if d != "_" && !isParam[d] {
			sb.rename[d] = d + sfx
		}
	}
	var out []ast.Stmt
	out = append(out, pre...)
	for _, s := range list {
		out = append(out, sb.stmt(s))
	}
	var rets []ast.Expr
	if retStmt != nil {
		for _, r := range retStmt.Results {
			rets = append(rets, sb.ex(r))
		}
	}
	if sb.bad {
		return nil, nil, false
	}
	return out, rets, true
}

// an argument that can be written where the parameter stood: no call except len
func c19PureArg(e ast.Expr) bool {
	ok := true
	ast.Inspect(e, func(n ast.Node) bool {
		switch x := n.(type) {
		case *ast.CallExpr:
			if id, isId := x.Fun.(*ast.Ident); !isId || id.Name != "len" {
				ok = false
			}
		case *ast.FuncLit, *ast.CompositeLit, *ast.UnaryExpr:
			if u, isU := n.(*ast.UnaryExpr); isU && (u.Op == token.SUB || u.Op == token.NOT) {
				return true
			}
			ok = false
		}
		return ok
	})
	return ok
}

func c19AssignedAndDeclared(list []ast.Stmt) (assigned, declared map[string]bool) {
	assigned, declared = map[string]bool{}, map[string]bool{}
	for _, s := range list {
		ast.Inspect(s, func(n ast.Node) bool {
			switch x := n.(type) {
			case *ast.AssignStmt:
				for _, l := range x.Lhs {
					if id, ok := l.(*ast.Ident); ok {
						if x.Tok == token.DEFINE {
							declared[id.Name] = true
						} else {
							assigned[id.Name] = true
						}
					}
				}
			case *ast.IncDecStmt:
				if id, ok := x.X.(*ast.Ident); ok {
					assigned[id.Name] = true
				}
			case *ast.UnaryExpr:
				if id, ok := x.X.(*ast.Ident); ok && x.Op == token.AND {
					assigned[id.Name] = true
				}
			case *ast.RangeStmt:
				if x.Tok == token.DEFINE {
					for _, e := range []ast.Expr{x.Key, x.Value} {
						if id, ok := e.(*ast.Ident); ok {
							declared[id.Name] = true
						}
					}
				}
			case *ast.ValueSpec:
				for _, id := range x.Names {
					declared[id.Name] = true
				}
			}
			return true
		})
	}
	return
}

func (sb *c19Subst) exs(l []ast.Expr) []ast.Expr {
	if l == nil {
		return nil
	}
	out := make([]ast.Expr, len(l))
	for i, e := range l {
		out[i] = sb.ex(e)
	}
	return out
}

// ex copies an expression, replacing parameters and renaming locals
func (sb *c19Subst) ex(e ast.Expr) ast.Expr {
	switch x := e.(type) {
	case nil:
		return nil
	case *ast.Ident:
		if a, ok := sb.expr[x.Name]; ok {
			c := (&c19Subst{expr: map[string]ast.Expr{}, rename: map[string]string{}}).ex(a) // a fresh copy
			switch c.(type) {
			case *ast.BinaryExpr, *ast.UnaryExpr, *ast.StarExpr:
				return &ast.ParenExpr{X: c}
			}
			return c
		}
		if n, ok := sb.rename[x.Name]; ok {
			return ast.NewIdent(n)
		}
		return ast.NewIdent(x.Name)
	case *ast.BasicLit:
		return &ast.BasicLit{Kind: x.Kind, Value: x.Value}
	case *ast.ParenExpr:
		return &ast.ParenExpr{X: sb.ex(x.X)}
	case *ast.SelectorExpr:
		return &ast.SelectorExpr{X: sb.ex(x.X), Sel: ast.NewIdent(x.Sel.Name)}
	case *ast.IndexExpr:
		return &ast.IndexExpr{X: sb.ex(x.X), Index: sb.ex(x.Index)}
	case *ast.SliceExpr:
		return &ast.SliceExpr{X: sb.ex(x.X), Low: sb.ex(x.Low), High: sb.ex(x.High), Max: sb.ex(x.Max), Slice3: x.Slice3}
	case *ast.CallExpr:
		c := &ast.CallExpr{Fun: sb.ex(x.Fun), Args: sb.exs(x.Args)}
		if x.Ellipsis != token.NoPos {
			c.Ellipsis = 1
		}
		return c
	case *ast.StarExpr:
		return &ast.StarExpr{X: sb.ex(x.X)}
	case *ast.UnaryExpr:
		return &ast.UnaryExpr{Op: x.Op, X: sb.ex(x.X)}
	case *ast.BinaryExpr:
		return &ast.BinaryExpr{X: sb.ex(x.X), Op: x.Op, Y: sb.ex(x.Y)}
	case *ast.TypeAssertExpr:
		return &ast.TypeAssertExpr{X: sb.ex(x.X), Type: x.Type}
	case *ast.CompositeLit:
		for _, el := range x.Elts {
			if _, kv := el.(*ast.KeyValueExpr); kv {
				sb.bad = true
				return x
			}
		}
		return &ast.CompositeLit{Type: x.Type, Elts: sb.exs(x.Elts)}
	case *ast.ArrayType, *ast.MapType, *ast.StructType, *ast.InterfaceType, *ast.FuncType, *ast.ChanType:
		return x // a type: nothing to rename
	}
	sb.bad = true
	return e
}

func (sb *c19Subst) block(b *ast.BlockStmt) *ast.BlockStmt {
	if b == nil {
		return nil
	}
	out := &ast.BlockStmt{}
	for _, s := range b.List {
		out.List = append(out.List, sb.stmt(s))
	}
	return out
}

func (sb *c19Subst) stmt(s ast.Stmt) ast.Stmt {
	switch x := s.(type) {
	case nil:
		return nil
	case *ast.ExprStmt:
		return &ast.ExprStmt{X: sb.ex(x.X)}
	case *ast.AssignStmt:
		return &ast.AssignStmt{Lhs: sb.exs(x.Lhs), Tok: x.Tok, Rhs: sb.exs(x.Rhs)}
	case *ast.IncDecStmt:
		return &ast.IncDecStmt{X: sb.ex(x.X), Tok: x.Tok}
	case *ast.IfStmt:
		r := &ast.IfStmt{Init: sb.stmt(x.Init), Cond: sb.ex(x.Cond), Body: sb.block(x.Body)}
		if x.Else != nil {
			r.Else = sb.stmt(x.Else)
		}
		return r
	case *ast.RangeStmt:
		return &ast.RangeStmt{Key: sb.ex(x.Key), Value: sb.ex(x.Value), Tok: x.Tok, X: sb.ex(x.X), Body: sb.block(x.Body)}
	case *ast.ForStmt:
		return &ast.ForStmt{Init: sb.stmt(x.Init), Cond: sb.ex(x.Cond), Post: sb.stmt(x.Post), Body: sb.block(x.Body)}
	case *ast.BlockStmt:
		return sb.block(x)
	case *ast.BranchStmt:
		if x.Label != nil {
			sb.bad = true
		}
		return &ast.BranchStmt{Tok: x.Tok}
	case *ast.DeclStmt:
		gd, ok := x.Decl.(*ast.GenDecl)
		if !ok || gd.Tok != token.VAR {
			sb.bad = true
			return x
		}
		ng := &ast.GenDecl{Tok: token.VAR}
		for _, sp := range gd.Specs {
			vs, ok := sp.(*ast.ValueSpec)
			if !ok {
				sb.bad = true
				return x
			}
			nv := &ast.ValueSpec{Type: vs.Type, Values: sb.exs(vs.Values)}
			for _, id := range vs.Names {
				nv.Names = append(nv.Names, sb.ex(id).(*ast.Ident))
			}
			ng.Specs = append(ng.Specs, nv)
		}
		return &ast.DeclStmt{Decl: ng}
	case *ast.EmptyStmt:
		return x
	}
	sb.bad = true
	return s
}
