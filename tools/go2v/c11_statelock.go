package main

// Extractor "statelock" (property C11): compose/state.go, translated statement by statement.
//
//  1. The five places where a user function is run on the graph state — the closure `rf` built by
//     convertPreHandler / convertPostHandler / streamConvertPreHandler / streamConvertPostHandler
//     and the body of ProcessState — are read as programs of the fragment of Model/StateLockCode.v:
//
//     a, b, c := getState[S](ctx)                     CGetState      (a = state, b = mutex, c = error)
//     if c != nil { return … }                        CReturnIfErr
//     b.Lock()                                        CLock
//     defer b.Unlock()                                CDeferUnlock
//     b.Unlock()                                      CUnlock
//     …, e := handler(ctx, …, a)  /  … = handler(…)   CCallHandler   (e becomes the error variable)
//     return handler(ctx, …, a)                       CReturnHandler
//     return <no call>                                CReturnResult
//
//     The user function must be the parameter named `handler` and its last argument the very state
//     variable getState delivered; a converter must hand its closure to runnableLambda.  Any other
//     statement (TryLock, a goroutine, a second getState …) is "not recognised" (tie unavailable);
//     a program of the fragment that differs (no lock, unlock before the call, unlock not deferred,
//     lock after the call …) is recognised and Proofs/GenAgreeStateLock.v fails on it.
//
//  2. getState is read as a decision function over the context:
//
//     x := ctx.Value(K{})                              the key: KState iff K is stateKey
//     if x == nil { …; return _, nil, <error> }        GsErr ENoState
//     h := x.(*internalState)
//     v, ok := h.state.(S)
//     if !ok { …; return _, nil, <error> }             GsErr EBadType
//     return v, &h.mu, nil                             GsOk v (mu_of h)   — state and mutex of ONE holder
//
// Output: coq/Gen/StateLockCode.v with  cs_prog : wrapper -> list cstmt  and  get_state.

import (
	"fmt"
	"go/ast"
	"go/parser"
	"go/token"
	"go/types"
	"path/filepath"
	"strings"
)

const c11LockNeutral = "(* Gen/StateLockCode.v — translator tie UNAVAILABLE: tools/go2v (extractor \"statelock\") did not recognise the\n" +
	"   shape of compose/state.go; the model's own definitions are re-exported. *)\n" +
	"From Eino Require Import Base.Util Model.StateLock Model.StateLockLTS Model.StateLockCode.\n\n" +
	"Definition cs_prog (w : wrapper) : list cstmt := Model.StateLockCode.cs_prog w.\n" +
	"Definition get_state := Model.StateLockCode.get_state.\n"

func init() {
	register("statelock", c11ExtractStateLock)
	registerFallback("statelock", "StateLockCode.v", c11LockNeutral)
}

// name of the private function that finds the state in the context (getState unless renamed): the
// callee of the first `a, b, c := f[S](ctx)` of ProcessState
var c11GetStateName = "getState"

func c11FindGetState(f *ast.File) {
	c11GetStateName = "getState"
	ps := c11TopFunc(f, "ProcessState")
	if ps == nil || ps.Body == nil {
		return
	}
	for _, st := range ps.Body.List {
		as, ok := st.(*ast.AssignStmt)
		if !ok || len(as.Lhs) != 3 || len(as.Rhs) != 1 || as.Tok != token.DEFINE {
			continue
		}
		if call, ok := as.Rhs[0].(*ast.CallExpr); ok && len(call.Args) == 1 && c11Unexported(c11Callee(call)) && c11TopFunc(f, c11Callee(call)) != nil {
			c11GetStateName = c11Callee(call)
		}
		return
	}
}

type c11Prog struct {
	handler  string // name of the user-function parameter
	stateVar string
	muVar    string
	errVar   string
	out      []string
}

func c11Ident(e ast.Expr) string {
	if id, ok := e.(*ast.Ident); ok {
		return id.Name
	}
	return ""
}

// f(...) or f[T](...) -> "f"
func c11Callee(call *ast.CallExpr) string {
	switch f := call.Fun.(type) {
	case *ast.Ident:
		return f.Name
	case *ast.IndexExpr:
		return c11Ident(f.X)
	case *ast.IndexListExpr:
		return c11Ident(f.X)
	}
	return ""
}

// x.M() with no arguments -> (x, M)
func c11Method0(e ast.Expr) (string, string, bool) {
	call, ok := e.(*ast.CallExpr)
	if !ok || len(call.Args) != 0 {
		return "", "", false
	}
	sel, ok := call.Fun.(*ast.SelectorExpr)
	if !ok {
		return "", "", false
	}
	x := c11Ident(sel.X)
	return x, sel.Sel.Name, x != ""
}

func c11HasCall(e ast.Expr) bool {
	found := false
	ast.Inspect(e, func(n ast.Node) bool {
		if _, ok := n.(*ast.CallExpr); ok {
			found = true
		}
		return !found
	})
	return found
}

// handler(ctx, …, stateVar)
func (p *c11Prog) isHandlerCall(e ast.Expr) (bool, error) {
	call, ok := e.(*ast.CallExpr)
	if !ok || c11Callee(call) != p.handler {
		return false, nil
	}
	if p.stateVar == "" {
		return false, fmt.Errorf("the user function is called before getState")
	}
	if len(call.Args) == 0 || c11Ident(call.Args[len(call.Args)-1]) != p.stateVar {
		return false, fmt.Errorf("the user function is not given the state getState delivered (%s)", types.ExprString(call))
	}
	for _, a := range call.Args[:len(call.Args)-1] {
		if c11HasCall(a) {
			return false, fmt.Errorf("call inside the arguments of the user function")
		}
	}
	return true, nil
}

func (p *c11Prog) stmt(s ast.Stmt) error {
	switch x := s.(type) {
	case *ast.AssignStmt:
		if len(x.Rhs) != 1 {
			return fmt.Errorf("assignment with %d right-hand sides", len(x.Rhs))
		}
		call, ok := x.Rhs[0].(*ast.CallExpr)
		if !ok {
			return fmt.Errorf("assignment of %s", types.ExprString(x.Rhs[0]))
		}
		if c11Callee(call) == c11GetStateName {
			if len(x.Lhs) != 3 || x.Tok != token.DEFINE || len(call.Args) != 1 || c11Ident(call.Args[0]) != "ctx" {
				return fmt.Errorf("getState is not called as `a, b, c := getState[S](ctx)`")
			}
			if p.stateVar != "" {
				return fmt.Errorf("getState called twice")
			}
			p.stateVar, p.muVar, p.errVar = c11Ident(x.Lhs[0]), c11Ident(x.Lhs[1]), c11Ident(x.Lhs[2])
			// (a discarded mutex is a program of the fragment: one that cannot lock)
			if p.stateVar == "" || p.muVar == "" || p.errVar == "" || p.stateVar == "_" || p.errVar == "_" {
				return fmt.Errorf("getState: the state or the error is discarded")
			}
			p.out = append(p.out, "CGetState")
			return nil
		}
		ok, err := p.isHandlerCall(call)
		if err != nil {
			return err
		}
		if ok {
			ev := c11Ident(x.Lhs[len(x.Lhs)-1])
			if ev == "" || ev == "_" {
				return fmt.Errorf("the error of the user function is discarded")
			}
			p.errVar = ev
			p.out = append(p.out, "CCallHandler")
			return nil
		}
		return fmt.Errorf("assignment from %s", types.ExprString(call))
	case *ast.IfStmt:
		be, ok := x.Cond.(*ast.BinaryExpr)
		if x.Init != nil || x.Else != nil || !ok || be.Op != token.NEQ || !c11IsNil(be.Y) || p.errVar == "" || c11Ident(be.X) != p.errVar {
			return fmt.Errorf("if statement that is not `if %s != nil { return … }`", p.errVar)
		}
		if len(x.Body.List) != 1 {
			return fmt.Errorf("error branch with %d statements", len(x.Body.List))
		}
		r, ok := x.Body.List[0].(*ast.ReturnStmt)
		if !ok {
			return fmt.Errorf("error branch does not return")
		}
		for _, res := range r.Results {
			if call, ok := res.(*ast.CallExpr); ok && c11Callee(call) == p.handler {
				return fmt.Errorf("error branch calls the user function")
			}
		}
		p.out = append(p.out, "CReturnIfErr")
		return nil
	case *ast.ExprStmt:
		recv, m, ok := c11Method0(x.X)
		if ok && recv == p.muVar && p.muVar != "" && p.muVar != "_" {
			switch m {
			case "Lock":
				p.out = append(p.out, "CLock")
				return nil
			case "Unlock":
				p.out = append(p.out, "CUnlock")
				return nil
			}
		}
		return fmt.Errorf("statement %s", types.ExprString(x.X))
	case *ast.DeferStmt:
		// defer func() { mu.Unlock() }()  =  defer mu.Unlock()
		if lit, isLit := x.Call.Fun.(*ast.FuncLit); isLit && len(x.Call.Args) == 0 && len(lit.Body.List) == 1 {
			if es, isExpr := lit.Body.List[0].(*ast.ExprStmt); isExpr {
				if call, isCall := es.X.(*ast.CallExpr); isCall {
					return p.stmt(&ast.DeferStmt{Call: call})
				}
			}
		}
		recv, m, ok := c11Method0(x.Call)
		if ok && recv == p.muVar && p.muVar != "" && p.muVar != "_" && m == "Unlock" {
			p.out = append(p.out, "CDeferUnlock")
			return nil
		}
		return fmt.Errorf("defer %s", types.ExprString(x.Call))
	case *ast.ReturnStmt:
		if len(x.Results) == 1 {
			ok, err := p.isHandlerCall(x.Results[0])
			if err != nil {
				return err
			}
			if ok {
				p.out = append(p.out, "CReturnHandler")
				return nil
			}
		}
		for _, res := range x.Results {
			if c11HasCall(res) {
				return fmt.Errorf("return %s", types.ExprString(res))
			}
		}
		p.out = append(p.out, "CReturnResult")
		return nil
	}
	return fmt.Errorf("statement outside the translated fragment (%T)", s)
}

func c11Program(handler string, body []ast.Stmt) ([]string, error) {
	p := &c11Prog{handler: handler}
	for _, s := range body {
		if err := p.stmt(s); err != nil {
			return nil, err
		}
	}
	return p.out, nil
}

// the user function = the last parameter of the converter / of ProcessState
func c11HandlerParam(fn *ast.FuncDecl) string {
	l := fn.Type.Params.List
	if len(l) == 0 || len(l[len(l)-1].Names) == 0 {
		return ""
	}
	names := l[len(l)-1].Names
	if n := names[len(names)-1].Name; n != "_" {
		return n
	}
	return ""
}

func c11LockRelevant(n ast.Node) bool {
	found := false
	ast.Inspect(n, func(x ast.Node) bool {
		if id, ok := x.(*ast.Ident); ok {
			switch id.Name {
			case "getState", "Lock", "Unlock", "TryLock", "internalState", "stateKey":
				found = true
			}
			if id.Name == c11GetStateName {
				found = true
			}
		}
		return !found
	})
	return found
}

// converter: `rf := func(...) {...}` followed by `return runnableLambda[..](.. rf ..)`, or the closure
// written in place of rf; the closure may hand the work to a helper of state.go (`return h(ctx, in, handler)`),
// which is inlined
func c11Converter(repo string, f *ast.File, name string) ([]string, error) {
	fn := c11TopFunc(f, name)
	if fn == nil || fn.Body == nil {
		return nil, fmt.Errorf("func %s not found", name)
	}
	handler := c11HandlerParam(fn)
	if handler == "" || len(fn.Type.Params.List) != 1 || len(fn.Type.Params.List[0].Names) != 1 {
		return nil, fmt.Errorf("%s: expected one parameter, the user function", name)
	}
	var lit *ast.FuncLit
	var ret *ast.ReturnStmt
	clo := ""
	switch len(fn.Body.List) {
	case 2:
		as, ok := fn.Body.List[0].(*ast.AssignStmt)
		if !ok || len(as.Lhs) != 1 || len(as.Rhs) != 1 || as.Tok != token.DEFINE {
			return nil, fmt.Errorf("%s: first statement is not `rf := func…`", name)
		}
		lit, ok = as.Rhs[0].(*ast.FuncLit)
		clo = c11Ident(as.Lhs[0])
		if !ok || clo == "" {
			return nil, fmt.Errorf("%s: first statement is not `rf := func…`", name)
		}
		ret, ok = fn.Body.List[1].(*ast.ReturnStmt)
		if !ok || len(ret.Results) != 1 {
			return nil, fmt.Errorf("%s: second statement is not a return", name)
		}
	case 1:
		var ok bool
		ret, ok = fn.Body.List[0].(*ast.ReturnStmt)
		if !ok || len(ret.Results) != 1 {
			return nil, fmt.Errorf("%s: not `return runnableLambda(func…)`", name)
		}
	default:
		return nil, fmt.Errorf("%s: %d statements, expected `rf := func…` and a return", name, len(fn.Body.List))
	}
	call, ok := ret.Results[0].(*ast.CallExpr)
	if !ok || c11Callee(call) != "runnableLambda" {
		return nil, fmt.Errorf("%s: does not return runnableLambda(…)", name)
	}
	uses := 0
	for _, a := range call.Args {
		if l, isLit := a.(*ast.FuncLit); isLit && clo == "" {
			lit = l
			uses++
		} else if clo != "" && c11Ident(a) == clo {
			uses++
		} else if c11Ident(a) == handler {
			return nil, fmt.Errorf("%s: the bare user function is handed to runnableLambda", name)
		} else if c11HasCall(a) {
			return nil, fmt.Errorf("%s: runnableLambda is given %s", name, types.ExprString(a))
		}
	}
	if uses != 1 || lit == nil {
		return nil, fmt.Errorf("%s: the closure is handed to runnableLambda %d times", name, uses)
	}
	body, _, err := c11Prepare(repo, []string{"compose", "state.go"}, &ast.FuncDecl{Name: fn.Name, Type: lit.Type, Body: lit.Body},
		c11LockRelevant, c11NormOpts{keep: map[string]bool{c11GetStateName: true}})
	if err != nil {
		return nil, fmt.Errorf("%s: %v", name, err)
	}
	prog, err := c11Program(handler, body)
	if err != nil {
		return nil, fmt.Errorf("%s: %v", name, err)
	}
	return prog, nil
}

func c11GetState(f *ast.File) (string, error) {
	fn := c11TopFunc(f, c11GetStateName)
	if fn == nil || fn.Body == nil {
		return "", fmt.Errorf("func getState not found")
	}
	if fn.Type.TypeParams == nil || len(fn.Type.TypeParams.List) != 1 || len(fn.Type.TypeParams.List[0].Names) != 1 {
		return "", fmt.Errorf("getState: expected one type parameter")
	}
	tp := fn.Type.TypeParams.List[0].Names[0].Name
	l := fn.Body.List
	// `if v, ok := h.state.(S); ok { return A }; R…`  =  `v, ok := h.state.(S); if !ok { R… }; return A`
	for i, st := range l {
		is, isIf := st.(*ast.IfStmt)
		if !isIf || is.Else != nil || len(is.Body.List) != 1 || i+1 >= len(l) {
			continue
		}
		as, isAs := is.Init.(*ast.AssignStmt)
		if !isAs || as.Tok != token.DEFINE || len(as.Lhs) != 2 || len(as.Rhs) != 1 || c11Ident(is.Cond) == "" || c11Ident(is.Cond) != c11Ident(as.Lhs[1]) {
			continue
		}
		if _, isTA := as.Rhs[0].(*ast.TypeAssertExpr); !isTA {
			continue
		}
		ret, isRet := is.Body.List[0].(*ast.ReturnStmt)
		if _, endsInRet := l[len(l)-1].(*ast.ReturnStmt); !isRet || !endsInRet {
			continue
		}
		nl := append([]ast.Stmt{}, l[:i]...)
		nl = append(nl, as, &ast.IfStmt{Cond: &ast.UnaryExpr{Op: token.NOT, X: as.Lhs[1]}, Body: &ast.BlockStmt{List: l[i+1:]}}, ret)
		l = nl
		break
	}
	if len(l) != 6 {
		return "", fmt.Errorf("getState: %d statements, the translated shape has 6", len(l))
	}
	// 1. x := ctx.Value(K{})
	as, ok := l[0].(*ast.AssignStmt)
	if !ok || as.Tok != token.DEFINE || len(as.Lhs) != 1 || len(as.Rhs) != 1 {
		return "", fmt.Errorf("getState: statement 1 is not `x := ctx.Value(K{})`")
	}
	xv := c11Ident(as.Lhs[0])
	call, ok := as.Rhs[0].(*ast.CallExpr)
	if !ok || len(call.Args) != 1 || c11Squash(types.ExprString(call.Fun)) != "ctx.Value" {
		return "", fmt.Errorf("getState: statement 1 is not `x := ctx.Value(K{})`")
	}
	cl, ok := call.Args[0].(*ast.CompositeLit)
	if !ok || len(cl.Elts) != 0 || c11Ident(cl.Type) == "" {
		return "", fmt.Errorf("getState: the context key is not `K{}`")
	}
	key := "KState"
	if k := c11Ident(cl.Type); k != "stateKey" {
		key = fmt.Sprintf("(KOther %q%%string)", k)
	}
	// error branch: ends in `return _, nil, <call>`
	errBranch := func(b *ast.BlockStmt, what string) error {
		if len(b.List) == 0 {
			return fmt.Errorf("getState: empty %s branch", what)
		}
		r, ok := b.List[len(b.List)-1].(*ast.ReturnStmt)
		if !ok || len(r.Results) != 3 || !c11IsNil(r.Results[1]) || c11IsNil(r.Results[2]) {
			return fmt.Errorf("getState: the %s branch does not end in `return _, nil, <error>`", what)
		}
		for _, s := range b.List[:len(b.List)-1] {
			if _, ok := s.(*ast.DeclStmt); !ok {
				return fmt.Errorf("getState: statement in the %s branch", what)
			}
		}
		return nil
	}
	// 2. if x == nil {...}
	is, ok := l[1].(*ast.IfStmt)
	if !ok || is.Init != nil || is.Else != nil {
		return "", fmt.Errorf("getState: statement 2 is not `if x == nil {…}`")
	}
	be, ok := is.Cond.(*ast.BinaryExpr)
	if !ok || be.Op != token.EQL || c11Ident(be.X) != xv || !c11IsNil(be.Y) {
		return "", fmt.Errorf("getState: statement 2 is not `if %s == nil {…}`", xv)
	}
	if err := errBranch(is.Body, "no-state"); err != nil {
		return "", err
	}
	// 3. h := x.(*internalState)
	as, ok = l[2].(*ast.AssignStmt)
	if !ok || as.Tok != token.DEFINE || len(as.Lhs) != 1 || len(as.Rhs) != 1 {
		return "", fmt.Errorf("getState: statement 3 is not `h := x.(*internalState)`")
	}
	hv := c11Ident(as.Lhs[0])
	ta, ok := as.Rhs[0].(*ast.TypeAssertExpr)
	if !ok || c11Ident(ta.X) != xv || c11Squash(types.ExprString(ta.Type)) != "*internalState" {
		return "", fmt.Errorf("getState: statement 3 is not `h := %s.(*internalState)`", xv)
	}
	// 4. v, ok := h.state.(S)
	as, ok = l[3].(*ast.AssignStmt)
	if !ok || as.Tok != token.DEFINE || len(as.Lhs) != 2 || len(as.Rhs) != 1 {
		return "", fmt.Errorf("getState: statement 4 is not `v, ok := h.state.(S)`")
	}
	vv, okv := c11Ident(as.Lhs[0]), c11Ident(as.Lhs[1])
	ta, ok = as.Rhs[0].(*ast.TypeAssertExpr)
	if !ok || c11Squash(types.ExprString(ta.X)) != hv+".state" || c11Ident(ta.Type) != tp {
		return "", fmt.Errorf("getState: statement 4 is not `v, ok := %s.state.(%s)`", hv, tp)
	}
	// 5. if !ok {...}
	is, ok = l[4].(*ast.IfStmt)
	if !ok || is.Init != nil || is.Else != nil {
		return "", fmt.Errorf("getState: statement 5 is not `if !ok {…}`")
	}
	ue, ok := is.Cond.(*ast.UnaryExpr)
	if !ok || ue.Op != token.NOT || c11Ident(ue.X) != okv {
		return "", fmt.Errorf("getState: statement 5 is not `if !%s {…}`", okv)
	}
	if err := errBranch(is.Body, "wrong-type"); err != nil {
		return "", err
	}
	// 6. return v, &h.mu, nil
	r, ok := l[5].(*ast.ReturnStmt)
	if !ok || len(r.Results) != 3 || c11Ident(r.Results[0]) != vv || !c11IsNil(r.Results[2]) ||
		c11Squash(types.ExprString(r.Results[1])) != "&"+hv+".mu" {
		return "", fmt.Errorf("getState: the last statement is not `return %s, &%s.mu, nil`", vv, hv)
	}
	return "    match ctx_value " + key + " with\n" +
		"    | None => GsErr ENoState\n" +
		"    | Some " + hv + " =>\n" +
		"        match state_as " + hv + " with\n" +
		"        | None => GsErr EBadType\n" +
		"        | Some " + vv + " => GsOk " + vv + " (mu_of " + hv + ")\n" +
		"        end\n" +
		"    end", nil
}

func c11ExtractStateLock(repo string) (string, string, error) {
	fset := token.NewFileSet()
	f, err := c11ParseGo(fset, repo, "compose", "state.go")
	if err != nil {
		return "", "", err
	}
	c11FindGetState(f)
	type wr struct{ ctor, fn string }
	var b strings.Builder
	b.WriteString("(* Gen/StateLockCode.v — GENERATED by tools/go2v (extractor \"statelock\") from compose/state.go\n")
	b.WriteString("   (the closures of the four handler converters, ProcessState and getState, translated statement by\n")
	b.WriteString("   statement). Do not edit. *)\n")
	b.WriteString("From Eino Require Import Base.Util Model.StateLock Model.StateLockLTS Model.StateLockCode.\n\n")
	b.WriteString("Definition cs_prog (w : wrapper) : list cstmt :=\n  match w with\n")
	for _, w := range []wr{{"WPre", "convertPreHandler"}, {"WPost", "convertPostHandler"},
		{"WSPre", "streamConvertPreHandler"}, {"WSPost", "streamConvertPostHandler"}} {
		prog, err := c11Converter(repo, f, w.fn)
		if err != nil {
			return "", "", err
		}
		fmt.Fprintf(&b, "  | %s => [%s]    (* %s *)\n", w.ctor, strings.Join(prog, "; "), w.fn)
	}
	ps := c11TopFunc(f, "ProcessState")
	if ps == nil || ps.Body == nil || c11HandlerParam(ps) == "" || len(ps.Type.Params.List) != 2 {
		return "", "", fmt.Errorf("func ProcessState(ctx, handler) not found")
	}
	psBody, _, err := c11Prepare(repo, []string{"compose", "state.go"}, ps, c11LockRelevant, c11NormOpts{keep: map[string]bool{c11GetStateName: true}})
	if err != nil {
		return "", "", fmt.Errorf("ProcessState: %v", err)
	}
	prog, err := c11Program(c11HandlerParam(ps), psBody)
	if err != nil {
		return "", "", fmt.Errorf("ProcessState: %v", err)
	}
	fmt.Fprintf(&b, "  | WProcess => [%s]    (* ProcessState *)\n  end.\n\n", strings.Join(prog, "; "))
	gs, err := c11GetState(f)
	if err != nil {
		return "", "", err
	}
	b.WriteString("Section GetState.\n  Variables (H V M : Type).\n  Variable ctx_value : ckey -> option H.\n")
	b.WriteString("  Variable state_as : H -> option V.\n  Variable mu_of : H -> M.\n\n")
	b.WriteString("  Definition get_state : gs_res V M :=\n" + gs + ".\nEnd GetState.\n")
	return "StateLockCode.v", b.String(), nil
}

func c11IsNil(e ast.Expr) bool {
	id, ok := e.(*ast.Ident)
	return ok && id.Name == "nil"
}

func c11ParseGo(fset *token.FileSet, repo string, rel ...string) (*ast.File, error) {
	return parser.ParseFile(fset, filepath.Join(append([]string{repo}, rel...)...), nil, 0)
}

func c11TopFunc(f *ast.File, name string) *ast.FuncDecl {
	for _, d := range f.Decls {
		if fn, ok := d.(*ast.FuncDecl); ok && fn.Recv == nil && fn.Name.Name == name {
			return fn
		}
	}
	return nil
}

func c11Squash(s string) string { return strings.Join(strings.Fields(s), "") }
