package main

// Extractors "dagbranch", "dagtables", "dagskip" (property C02): the all-predecessor bookkeeping of the engine,
// translated statement by statement into Gallina over the vocabulary of Model/DagGenLib.v:
//
//	dagbranch  compose/graph_run.go  (*runner).calculateBranch      -> Gen/DagBranchCode.v  calculateBranch
//	           compose/graph.go      getSuccessors                  ->                      getSuccessors
//	dagtables  compose/graph.go      validateDAG                    -> Gen/DagTablesCode.v  validateDAG
//	           compose/graph.go      graph.compile: the three loops that fill controlPredecessors /
//	                                 dataPredecessors               ->                      predecessorTables
//	dagskip    compose/graph_manager.go (*channelManager).reportBranch -> Gen/DagSkipCode.v reportBranch
//
// The translator (type c02tr) is a small compiler for the imperative fragment these functions are written in.
// Mutable locals are threaded as tuples: a statement rebinds the variables it assigns; a loop is a fold over
// the tuple of the variables its body assigns and that live outside it; `break` adds a flag to that tuple;
// `continue` / `break` / `return` inside an `if` make the translator translate "the rest of the block" on both
// arms.  Functions with an error result live in the monad `res`; `x, err := f(..); if err != nil { return .., err }`
// is a bind.  Loops without a bound in Go (`for cond {}`, `for i := 0; i < len(l); i++ {}` over a growing
// slice) take explicit fuel (loop_fuel).  Anything outside the fragment: "source shape not recognised".
//
// Kinds of variables (no type checker: inferred from declarations, literals and the per-function table):
//   bool nat int key keylist kset(map[string]struct{}) imap(map[string]int) klmap(map[string][]string)
//   B(*GraphBranch) blist kblmap(map[string][]*GraphBranch) V vlist CM chans CC(*chanCall) ccmap error unit

import (
	"embed"
	"fmt"
	"go/ast"
	"go/token"
	"go/types"
	"sort"
	"strings"
)

var c02Type = map[string]string{
	"bool": "bool", "nat": "nat", "int": "Z", "key": "key", "keylist": "list key", "kset": "list key",
	"imap": "list (key * Z)", "klmap": "list (key * list key)", "B": "B", "blist": "list B",
	"kblmap": "list (key * list B)", "V": "V", "vlist": "list V", "CM": "CM", "chans": "chans V",
	"CC": "CC", "ccmap": "list (key * CC)", "unit": "unit",
}

// element kinds: slices (index, element) and maps (key, value)
var c02Elem = map[string][2]string{
	"keylist": {"nat", "key"}, "blist": {"nat", "B"}, "vlist": {"nat", "V"},
	"kset": {"key", ""}, "imap": {"key", "int"}, "klmap": {"key", "keylist"}, "kblmap": {"key", "blist"}, "ccmap": {"key", "CC"},
}

func c02IsSlice(k string) bool { return k == "keylist" || k == "blist" || k == "vlist" }

type c02Call struct {
	fn    string // Gallina function
	args  []int  // Go argument positions handed on (-1: the receiver / indexed element key, see recvKey)
	ret   string // kind of the value result ("" none)
	err   bool   // has an error result
	state string // Go path of the state the call mutates ("" none); the Gallina function takes and returns it
}

type c02Spec struct {
	goName   string
	out      string
	params   [][2]string          // Gallina parameters {name, kind} in order
	paths    map[string][2]string // squashed Go expression -> {Gallina variable, kind}
	fields   map[string][2]string // "<kind>.<field>" -> {Gallina accessor, kind}
	calls    map[string]c02Call    // squashed callee ("<kind>.<method>" for methods on a variable) -> call
	errs     [][2]string          // substring of an error message -> Gallina error constant
	monadic  bool                 // the function has an error result
	retKinds []string             // kinds of the non-error results
	state    []string             // Gallina state variables returned alongside the results
	result   []string             // fragments without return: the variables that are the result
	ignore   map[string]bool      // statements (squashed prefix) that have no meaning in the model
}

type c02Var struct {
	kind string
	ord  int
}

type c02Loop struct {
	cont string // value of `continue`
	brk  string // value of `break` ("" : the loop has no break)
}

type c02Ctx struct {
	tail    string // value of the block when control falls off its end
	monadic bool   // the block's value is in res
	loop    *c02Loop
	top     bool // function level: a return statement is allowed
	ind     string
}

type c02tr struct {
	spec     *c02Spec
	scopes   []map[string]*c02Var
	ord      int
	usesFuel bool
	fn       string
}

func (t *c02tr) errf(n ast.Node, f string, a ...any) error {
	return fmt.Errorf("%s: %s", t.fn, fmt.Sprintf(f, a...))
}

func (t *c02tr) push() { t.scopes = append(t.scopes, map[string]*c02Var{}) }
func (t *c02tr) pop()  { t.scopes = t.scopes[:len(t.scopes)-1] }
func (t *c02tr) declare(name, kind string) {
	if name == "_" {
		return
	}
	t.ord++
	t.scopes[len(t.scopes)-1][name] = &c02Var{kind, t.ord}
}
func (t *c02tr) lookup(name string) *c02Var {
	for i := len(t.scopes) - 1; i >= 0; i-- {
		if v, ok := t.scopes[i][name]; ok {
			return v
		}
	}
	return nil
}

func c02Squash(e ast.Expr) string { return strings.Join(strings.Fields(types.ExprString(e)), "") }

func c02Paren(s string) string {
	if !strings.ContainsAny(s, " \n") {
		return s
	}
	if strings.HasPrefix(s, "(") && strings.HasSuffix(s, ")") {
		d := 0
		ok := true
		for i, r := range s {
			if r == '(' {
				d++
			} else if r == ')' {
				d--
				if d == 0 && i != len(s)-1 {
					ok = false
					break
				}
			}
		}
		if ok {
			return s
		}
	}
	return "(" + s + ")"
}

// ---------------------------------------------------------------- expressions

func (t *c02tr) coerce(code, kind, want string) (string, string) {
	if want == "int" && kind == "nat" {
		return "(Z.of_nat " + c02Paren(code) + ")", "int"
	}
	return code, kind
}

func (t *c02tr) expr(e ast.Expr, want string) (string, string, error) {
	c, k, err := t.expr0(e, want)
	if err != nil {
		return "", "", err
	}
	c, k = t.coerce(c, k, want)
	return c, k, nil
}

func (t *c02tr) expr0(e ast.Expr, want string) (string, string, error) {
	switch x := e.(type) {
	case *ast.ParenExpr:
		return t.expr(x.X, want)
	case *ast.TypeAssertExpr:
		return t.expr(x.X, want) // v.(streamReader): the value itself
	case *ast.Ident:
		switch x.Name {
		case "true", "false":
			return x.Name, "bool", nil
		case "START":
			return "kSTART", "key", nil
		case "END":
			return "kEND", "key", nil
		case "nil":
			switch want {
			case "keylist", "blist", "vlist":
				return "[]", want, nil
			}
			return "", "", t.errf(e, "nil where a %s is wanted", want)
		}
		if v := t.lookup(x.Name); v != nil {
			return x.Name, v.kind, nil
		}
		if p, ok := t.spec.paths[x.Name]; ok {
			return p[0], p[1], nil
		}
		return "", "", t.errf(e, "unknown variable %s", x.Name)
	case *ast.BasicLit:
		if x.Kind == token.INT {
			if want == "int" {
				return "(" + x.Value + ")%Z", "int", nil
			}
			return x.Value + "%nat", "nat", nil
		}
	case *ast.SelectorExpr:
		if p, ok := t.spec.paths[c02Squash(x)]; ok {
			return p[0], p[1], nil
		}
		c, k, err := t.expr(x.X, "")
		if err != nil {
			return "", "", err
		}
		if f, ok := t.spec.fields[k+"."+x.Sel.Name]; ok {
			return "(" + f[0] + " " + c02Paren(c) + ")", f[1], nil
		}
		return "", "", t.errf(e, "field %s of a %s", x.Sel.Name, k)
	case *ast.IndexExpr:
		c, k, err := t.expr(x.X, "")
		if err != nil {
			return "", "", err
		}
		ik := "key"
		if c02IsSlice(k) {
			ik = "nat"
		}
		i, _, err := t.expr(x.Index, ik)
		if err != nil {
			return "", "", err
		}
		switch k {
		case "vlist":
			return "(l_get dflt " + c02Paren(i) + " " + c02Paren(c) + ")", "V", nil
		case "keylist":
			return "(l_get 0%N " + c02Paren(i) + " " + c02Paren(c) + ")", "key", nil
		case "imap":
			return "(im_get " + c02Paren(i) + " " + c02Paren(c) + ")", "int", nil
		case "klmap":
			return "(km_at " + c02Paren(i) + " " + c02Paren(c) + ")", "keylist", nil
		case "ccmap":
			return "(cc_at " + c02Paren(i) + " " + c02Paren(c) + ")", "CC", nil
		}
		return "", "", t.errf(e, "index into a %s", k)
	case *ast.CompositeLit:
		if at, ok := x.Type.(*ast.ArrayType); ok && at.Len == nil && c02Squash(at.Elt) == "string" {
			var el []string
			for _, a := range x.Elts {
				c, _, err := t.expr(a, "key")
				if err != nil {
					return "", "", err
				}
				el = append(el, c)
			}
			return "[" + strings.Join(el, "; ") + "]", "keylist", nil
		}
		if k := c02MakeKind(x.Type); k != "" && len(x.Elts) == 0 {
			return c02Nil(k), k, nil
		}
	case *ast.UnaryExpr:
		if x.Op == token.NOT {
			c, _, err := t.expr(x.X, "bool")
			return "(negb " + c02Paren(c) + ")", "bool", err
		}
		if bl, ok := x.X.(*ast.BasicLit); ok && x.Op == token.SUB && bl.Kind == token.INT {
			return "(-" + bl.Value + ")%Z", "int", nil
		}
	case *ast.BinaryExpr:
		switch x.Op {
		case token.LAND, token.LOR:
			a, _, err := t.expr(x.X, "bool")
			if err != nil {
				return "", "", err
			}
			b, _, err := t.expr(x.Y, "bool")
			op := " && "
			if x.Op == token.LOR {
				op = " || "
			}
			return "(" + a + op + b + ")", "bool", err
		case token.EQL, token.NEQ, token.LSS, token.GTR, token.LEQ, token.GEQ, token.ADD, token.SUB:
			a, ka, err := t.expr(x.X, "")
			if err != nil {
				return "", "", err
			}
			b, kb, err := t.expr(x.Y, ka)
			if err != nil {
				return "", "", err
			}
			if ka == "nat" && kb == "int" {
				a, ka = t.coerce(a, ka, "int")
			}
			if ka != kb {
				return "", "", t.errf(e, "operands of kinds %s and %s", ka, kb)
			}
			mod := map[string]string{"nat": "Nat", "int": "Z", "key": "N", "bool": "Bool"}[ka]
			if mod == "" {
				return "", "", t.errf(e, "comparison of %s", ka)
			}
			a, b = c02Paren(a), c02Paren(b)
			switch x.Op {
			case token.EQL:
				return "(" + mod + ".eqb " + a + " " + b + ")", "bool", nil
			case token.NEQ:
				return "(negb (" + mod + ".eqb " + a + " " + b + "))", "bool", nil
			}
			if ka == "bool" {
				return "", "", t.errf(e, "order on bool")
			}
			switch x.Op {
			case token.LSS:
				return "(" + mod + ".ltb " + a + " " + b + ")", "bool", nil
			case token.GTR:
				return "(" + mod + ".ltb " + b + " " + a + ")", "bool", nil
			case token.LEQ:
				return "(" + mod + ".leb " + a + " " + b + ")", "bool", nil
			case token.GEQ:
				return "(" + mod + ".leb " + b + " " + a + ")", "bool", nil
			case token.ADD:
				return "(" + mod + ".add " + a + " " + b + ")", ka, nil
			case token.SUB:
				if ka == "nat" {
					return "", "", t.errf(e, "subtraction of lengths") // Go ints do not truncate at 0
				}
				return "(" + mod + ".sub " + a + " " + b + ")", ka, nil
			}
		}
	case *ast.CallExpr:
		if id, ok := x.Fun.(*ast.Ident); ok {
			switch id.Name {
			case "len":
				if len(x.Args) == 1 {
					c, k, err := t.expr(x.Args[0], "")
					if err != nil {
						return "", "", err
					}
					if _, ok := c02Elem[k]; !ok {
						return "", "", t.errf(e, "len of a %s", k)
					}
					return "(List.length " + c02Paren(c) + ")", "nat", nil
				}
			case "append":
				if len(x.Args) == 2 {
					l, k, err := t.expr(x.Args[0], want)
					if err != nil {
						return "", "", err
					}
					if !c02IsSlice(k) {
						return "", "", t.errf(e, "append to a %s", k)
					}
					if x.Ellipsis != token.NoPos {
						r, _, err := t.expr(x.Args[1], k)
						return "(" + l + " ++ " + c02Paren(r) + ")", k, err
					}
					r, _, err := t.expr(x.Args[1], c02Elem[k][1])
					return "(" + l + " ++ [" + r + "])", k, err
				}
			case "make":
				if len(x.Args) >= 1 {
					k := c02MakeKind(x.Args[0])
					if k == "" {
						break
					}
					if c02IsSlice(k) && (len(x.Args) < 2 || c02Squash(x.Args[1]) != "0") {
						break // a slice with a length: only as the copy idiom, see stmt
					}
					return c02Nil(k), k, nil
				}
			}
		}
		// pure opaque call
		if cl, recv, ok := t.call(x); ok && !cl.err && cl.state == "" && cl.ret != "" {
			a, err := t.callArgs(x, cl, recv)
			return "(" + cl.fn + a + ")", cl.ret, err
		}
	}
	return "", "", t.errf(e, "expression %s not recognised", c02Squash(e))
}

func c02Nil(k string) string {
	if k == "kset" {
		return "ks_empty"
	}
	return "(@nil " + c02Paren(strings.TrimPrefix(c02Type[k], "list ")) + ")"
}

func c02MakeKind(e ast.Expr) string {
	switch c02Squash(e) {
	case "[]string":
		return "keylist"
	case "map[string]struct{}":
		return "kset"
	case "map[string]int":
		return "imap"
	case "map[string][]string":
		return "klmap"
	case "[]any":
		return "vlist"
	}
	return ""
}

// the spec entry of a call: by squashed callee, or "<kind>.<method>" when the receiver is a variable,
// "<kind>[].<method>" when it is an element of a table; recv = the receiver / the index expression
func (t *c02tr) callSpec(x *ast.CallExpr) (c02Call, ast.Expr, bool) {
	if cl, ok := t.spec.calls[c02Squash(x.Fun)]; ok {
		return cl, nil, true
	}
	if sel, ok := x.Fun.(*ast.SelectorExpr); ok {
		if ix, ok := sel.X.(*ast.IndexExpr); ok {
			if _, k, err := t.expr(ix.X, ""); err == nil {
				if cl, ok := t.spec.calls[k+"[]."+sel.Sel.Name]; ok {
					return cl, ix.Index, true
				}
			}
			return c02Call{}, nil, false
		}
		if _, k, err := t.expr(sel.X, ""); err == nil {
			if cl, ok := t.spec.calls[k+"."+sel.Sel.Name]; ok {
				return cl, sel.X, true
			}
		}
	}
	return c02Call{}, nil, false
}

func (t *c02tr) call(x *ast.CallExpr) (c02Call, string, bool) {
	cl, recv, ok := t.callSpec(x)
	if !ok || recv == nil {
		return cl, "", ok
	}
	c, _, err := t.expr(recv, "")
	return cl, c, err == nil
}

func (t *c02tr) callArgs(x *ast.CallExpr, cl c02Call, recv string) (string, error) {
	s := ""
	for _, i := range cl.args {
		if i < 0 {
			s += " " + c02Paren(recv)
			continue
		}
		if i >= len(x.Args) {
			return "", t.errf(x, "call %s: argument %d missing", c02Squash(x.Fun), i)
		}
		c, _, err := t.expr(x.Args[i], "")
		if err != nil {
			return "", err
		}
		s += " " + c02Paren(c)
	}
	return s, nil
}

// ---------------------------------------------------------------- analysis of statement lists

func c02IsErrIdent(e ast.Expr) bool {
	id, ok := e.(*ast.Ident)
	return ok && id.Name == "err"
}

// `..., err (:= | =) call(...)`
func c02AssignsErr(s ast.Stmt) (*ast.AssignStmt, bool) {
	as, ok := s.(*ast.AssignStmt)
	if !ok || len(as.Rhs) != 1 || len(as.Lhs) == 0 || !c02IsErrIdent(as.Lhs[len(as.Lhs)-1]) {
		return nil, false
	}
	_, ok = as.Rhs[0].(*ast.CallExpr)
	return as, ok
}

// `if err != nil { return ..., <something built from err> }`
func c02IsErrCheck(s ast.Stmt) bool {
	is, ok := s.(*ast.IfStmt)
	if !ok || is.Init != nil || is.Else != nil || c02Squash(is.Cond) != "err!=nil" || len(is.Body.List) != 1 {
		return false
	}
	r, ok := is.Body.List[0].(*ast.ReturnStmt)
	if !ok || len(r.Results) == 0 {
		return false
	}
	last := r.Results[len(r.Results)-1]
	mentions := false
	ast.Inspect(last, func(n ast.Node) bool {
		if id, ok := n.(*ast.Ident); ok && id.Name == "err" {
			mentions = true
		}
		return true
	})
	for _, e := range r.Results[:len(r.Results)-1] {
		if s := c02Squash(e); s != "nil" && s != "false" && s != "0" {
			return false
		}
	}
	return mentions
}

// `if err := call(); err != nil { return ..., err }`
func c02IsErrIf(s ast.Stmt) (*ast.AssignStmt, bool) {
	is, ok := s.(*ast.IfStmt)
	if !ok || is.Init == nil {
		return nil, false
	}
	as, ok := c02AssignsErr(is.Init)
	if !ok {
		return nil, false
	}
	cp := *is
	cp.Init = nil
	return as, c02IsErrCheck(&cp)
}

// does control leave the list by break / continue / return (loops and error idioms are opaque)?
func c02HasJump(l []ast.Stmt) bool {
	for i := 0; i < len(l); i++ {
		switch x := l[i].(type) {
		case *ast.BranchStmt, *ast.ReturnStmt:
			return true
		case *ast.AssignStmt:
			if _, ok := c02AssignsErr(x); ok && i+1 < len(l) && c02IsErrCheck(l[i+1]) {
				i++
			}
		case *ast.IfStmt:
			if _, ok := c02IsErrIf(x); ok {
				continue
			}
			if c02HasJump(x.Body.List) {
				return true
			}
			switch e := x.Else.(type) {
			case *ast.BlockStmt:
				if c02HasJump(e.List) {
					return true
				}
			case *ast.IfStmt:
				if c02HasJump([]ast.Stmt{e}) {
					return true
				}
			}
		case *ast.BlockStmt:
			if c02HasJump(x.List) {
				return true
			}
		}
	}
	return false
}

// does the list need the monad (an error idiom, a return, a loop with fuel — at any depth)?
func c02NeedsMonad(l []ast.Stmt) bool {
	found := false
	for _, s := range l {
		ast.Inspect(s, func(n ast.Node) bool {
			switch x := n.(type) {
			case *ast.FuncLit:
				return false
			case *ast.ReturnStmt, *ast.ForStmt:
				found = true
			case *ast.AssignStmt:
				if _, ok := c02AssignsErr(x); ok {
					found = true
				}
			}
			return !found
		})
	}
	return found
}

// a `break` that belongs to this loop body
func c02HasBreak(l []ast.Stmt) bool {
	found := false
	var walk func(n ast.Node) bool
	walk = func(n ast.Node) bool {
		switch x := n.(type) {
		case *ast.FuncLit, *ast.RangeStmt, *ast.ForStmt:
			return false
		case *ast.BranchStmt:
			if x.Tok == token.BREAK {
				found = true
			}
		}
		return !found
	}
	for _, s := range l {
		ast.Inspect(s, walk)
	}
	return found
}

// variables assigned in the list that live outside it, in declaration order
func (t *c02tr) carried(l []ast.Stmt) []string {
	assigned, declared := map[string]bool{}, map[string]bool{}
	base := func(e ast.Expr) {
		for {
			switch x := e.(type) {
			case *ast.IndexExpr:
				e = x.X
				continue
			case *ast.Ident:
				assigned[x.Name] = true
			default:
				if p, ok := t.spec.paths[c02Squash(e)]; ok {
					assigned[p[0]] = true
				}
			}
			return
		}
	}
	for _, s := range l {
		ast.Inspect(s, func(n ast.Node) bool {
			switch x := n.(type) {
			case *ast.FuncLit:
				return false
			case *ast.AssignStmt:
				for _, lhs := range x.Lhs {
					if id, ok := lhs.(*ast.Ident); ok && x.Tok == token.DEFINE {
						declared[id.Name] = true
					} else {
						base(lhs)
					}
				}
			case *ast.IncDecStmt:
				base(x.X)
			case *ast.ValueSpec:
				for _, id := range x.Names {
					declared[id.Name] = true
				}
			case *ast.RangeStmt:
				if x.Tok == token.DEFINE {
					for _, e := range []ast.Expr{x.Key, x.Value} {
						if id, ok := e.(*ast.Ident); ok {
							declared[id.Name] = true
						}
					}
				}
			case *ast.CallExpr:
				if id, ok := x.Fun.(*ast.Ident); ok && (id.Name == "delete" || id.Name == "copy") && len(x.Args) >= 1 {
					base(x.Args[0])
				}
				if cl, _, ok := t.callSpec(x); ok && cl.state != "" {
					if p, ok := t.spec.paths[cl.state]; ok {
						assigned[p[0]] = true
					} else {
						assigned[cl.state] = true
					}
				}
			}
			return true
		})
	}
	var out []string
	for n := range assigned {
		if declared[n] {
			continue
		}
		if v := t.lookup(n); v != nil && v.kind != "error" {
			out = append(out, n)
		}
	}
	sort.Slice(out, func(i, j int) bool { return t.lookup(out[i]).ord < t.lookup(out[j]).ord })
	return out
}

func c02Tuple(vars []string, extra ...string) string {
	all := append(append([]string{}, vars...), extra...)
	switch len(all) {
	case 0:
		return "tt"
	case 1:
		return all[0]
	}
	return "(" + strings.Join(all, ", ") + ")"
}

func c02Pat(vars []string, extra ...string) string {
	all := append(append([]string{}, vars...), extra...)
	switch len(all) {
	case 0:
		return "_"
	case 1:
		return all[0]
	}
	return "'(" + strings.Join(all, ", ") + ")"
}

func (t *c02tr) tupleType(vars []string, extra ...string) string {
	var ts []string
	for _, v := range vars {
		ts = append(ts, c02Type[t.lookup(v).kind])
	}
	ts = append(ts, extra...)
	switch len(ts) {
	case 0:
		return "unit"
	case 1:
		return ts[0]
	}
	return "(" + strings.Join(ts, " * ") + ")"
}

// `do <pattern> <- r;` — a tuple pattern goes through a let
func c02Do(pat, r, ind string) string {
	if strings.HasPrefix(pat, "'") {
		return "do st_ <- " + r + ";\n" + ind + "let " + pat + " := st_ in\n" + ind
	}
	return "do " + pat + " <- " + r + ";\n" + ind
}

func c02Wrap(mon bool, s string) string {
	if mon {
		return "Ok " + c02Paren(s)
	}
	return s
}

// ---------------------------------------------------------------- statements

func (t *c02tr) let(name, val, rest, ind string) string {
	return "let " + name + " := " + val + " in\n" + ind + rest
}

// the value of an opaque call bound to its targets, then k
func (t *c02tr) emitCall(x *ast.CallExpr, targets []ast.Expr, define bool, c *c02Ctx, k func() (string, error)) (string, error) {
	cl, recv, ok := t.call(x)
	if !ok {
		return "", t.errf(x, "call %s not recognised", c02Squash(x.Fun))
	}
	if cl.err && !c.monadic {
		return "", t.errf(x, "call %s with an error result outside a function that returns an error", c02Squash(x.Fun))
	}
	args, err := t.callArgs(x, cl, recv)
	if err != nil {
		return "", err
	}
	want := 0
	if cl.ret != "" {
		want = 1
	}
	if len(targets) != want {
		return "", t.errf(x, "call %s: %d results used, %d expected", c02Squash(x.Fun), len(targets), want)
	}
	stv := ""
	if cl.state != "" {
		p, ok := t.spec.paths[cl.state]
		if !ok {
			return "", t.errf(x, "state %s of call %s", cl.state, c02Squash(x.Fun))
		}
		stv = p[0]
		if t.lookup(stv) == nil {
			return "", t.errf(x, "state variable %s not in scope", stv)
		}
	}
	// where the value goes
	bind, after := "", ""
	if want == 1 {
		switch tg := targets[0].(type) {
		case *ast.Ident:
			if tg.Name == "_" {
				bind = "_"
			} else {
				if define || t.lookup(tg.Name) == nil {
					t.declare(tg.Name, cl.ret)
				} else if t.lookup(tg.Name).kind != cl.ret {
					return "", t.errf(x, "result of kind %s assigned to %s", cl.ret, tg.Name)
				}
				bind = tg.Name
			}
		case *ast.IndexExpr:
			bc, bk, err := t.expr(tg.X, "")
			if err != nil {
				return "", err
			}
			if !c02IsSlice(bk) || c02Elem[bk][1] != cl.ret || t.lookup(bc) == nil {
				return "", t.errf(x, "result stored into %s", c02Squash(tg))
			}
			ic, _, err := t.expr(tg.Index, "nat")
			if err != nil {
				return "", err
			}
			bind = "x_"
			after = "let " + bc + " := l_set " + c02Paren(ic) + " x_ " + bc + " in\n" + c.ind
		default:
			return "", t.errf(x, "result stored into %s", c02Squash(targets[0]))
		}
	}
	callCode := cl.fn
	if stv != "" {
		callCode += " " + stv
	}
	callCode += args
	pat := ""
	switch {
	case stv != "" && want == 1:
		pat = "'(" + stv + ", " + bind + ")"
	case stv != "":
		pat = stv
	case want == 1:
		pat = bind
	default:
		pat = "_"
	}
	rest, err := k()
	if err != nil {
		return "", err
	}
	if cl.err {
		return c02Do(pat, callCode, c.ind) + after + rest, nil
	}
	return "let " + pat + " := " + callCode + " in\n" + c.ind + after + rest, nil
}

func (t *c02tr) errClass(e ast.Expr) (string, error) {
	s := c02Squash(e)
	for _, m := range t.spec.errs {
		if strings.Contains(s, strings.ReplaceAll(m[0], " ", "")) {
			return m[1], nil
		}
	}
	return "", t.errf(e, "error value %s not recognised", s)
}

func (t *c02tr) ret(r *ast.ReturnStmt, c *c02Ctx) (string, error) {
	sp := t.spec
	if !sp.monadic {
		if !c.top || len(r.Results) != 1 || len(sp.retKinds) != 1 {
			return "", t.errf(r, "return not at the end of the function")
		}
		v, _, err := t.expr(r.Results[0], sp.retKinds[0])
		return v, err
	}
	if len(r.Results) != len(sp.retKinds)+1 {
		return "", t.errf(r, "return with %d results", len(r.Results))
	}
	last := r.Results[len(r.Results)-1]
	if c02Squash(last) != "nil" {
		for _, e := range r.Results[:len(r.Results)-1] {
			if c02Squash(e) != "nil" {
				return "", t.errf(r, "error return with a value")
			}
		}
		cls, err := t.errClass(last)
		return "Err " + cls, err
	}
	if !c.top {
		return "", t.errf(r, "successful return inside a loop")
	}
	var vs []string
	for i, e := range r.Results[:len(r.Results)-1] {
		v, _, err := t.expr(e, sp.retKinds[i])
		if err != nil {
			return "", err
		}
		vs = append(vs, v)
	}
	vs = append(vs, sp.state...)
	return "Ok " + c02Paren(c02Tuple(vs)), nil
}

type c02Cond struct {
	pre  string                       // let-bindings in front of the test
	mk   func(th, el string) string   // the test around the two arms
	bind func()                       // declares what the then-arm may use
}

func (t *c02tr) cond(is *ast.IfStmt, ind string) (*c02Cond, error) {
	plain := func(c string) *c02Cond {
		return &c02Cond{mk: func(th, el string) string { return "if " + c + " then " + c02Paren(th) + "\n" + ind + "else " + c02Paren(el) }}
	}
	if is.Init == nil {
		c, _, err := t.expr(is.Cond, "bool")
		if err != nil {
			return nil, err
		}
		return plain(c), nil
	}
	as, ok := is.Init.(*ast.AssignStmt)
	if !ok || as.Tok != token.DEFINE || len(as.Lhs) != 2 || len(as.Rhs) != 1 {
		return nil, t.errf(is, "if-init not recognised")
	}
	okId, ok1 := as.Lhs[1].(*ast.Ident)
	vId, ok2 := as.Lhs[0].(*ast.Ident)
	ix, ok3 := as.Rhs[0].(*ast.IndexExpr)
	if !ok1 || !ok2 || !ok3 {
		return nil, t.errf(is, "if-init not recognised")
	}
	m, mk, err := t.expr(ix.X, "")
	if err != nil {
		return nil, err
	}
	k, _, err := t.expr(ix.Index, "key")
	if err != nil {
		return nil, err
	}
	has := map[string]string{"kset": "ks_has", "imap": "im_has", "klmap": "km_has", "kblmap": "kb_has", "ccmap": "cc_has"}[mk]
	if has == "" {
		return nil, t.errf(is, "comma-ok lookup in a %s", mk)
	}
	if vId.Name == "_" {
		// _, ok := m[k]; <any condition over ok>
		t.declare(okId.Name, "bool")
		c, _, err := t.expr(is.Cond, "bool")
		if err != nil {
			return nil, err
		}
		cd := plain(c)
		cd.pre = "let " + okId.Name + " := " + has + " " + c02Paren(k) + " " + c02Paren(m) + " in\n" + ind
		return cd, nil
	}
	// v, ok := m[k]; ok  /  !ok
	get := map[string]string{"klmap": "km_get", "imap": "alookup"}[mk]
	if get == "" {
		return nil, t.errf(is, "value lookup in a %s", mk)
	}
	neg := false
	switch c02Squash(is.Cond) {
	case okId.Name:
	case "!" + okId.Name:
		neg = true
	default:
		return nil, t.errf(is, "condition %s after a value lookup", c02Squash(is.Cond))
	}
	vk := c02Elem[mk][1]
	return &c02Cond{
		mk: func(th, el string) string {
			if neg {
				th, el = el, th
			}
			return "match " + get + " " + c02Paren(k) + " " + c02Paren(m) + " with\n" + ind + "| Some " + vId.Name + " => " + c02Paren(th) + "\n" + ind + "| None => " + c02Paren(el) + "\n" + ind + "end"
		},
		bind: func() { t.declare(vId.Name, vk) },
	}, nil
}

func c02ElseList(is *ast.IfStmt) []ast.Stmt {
	switch e := is.Else.(type) {
	case *ast.BlockStmt:
		return e.List
	case *ast.IfStmt:
		return []ast.Stmt{e}
	}
	return nil
}

func (t *c02tr) block(l []ast.Stmt, c *c02Ctx) (string, error) {
	t.push()
	defer t.pop()
	return t.seq(l, c)
}

func (t *c02tr) seq(l []ast.Stmt, c *c02Ctx) (string, error) {
	if len(l) == 0 {
		if c.tail == "" {
			return "", fmt.Errorf("%s: control reaches the end of the function without a return", t.fn)
		}
		return c.tail, nil
	}
	rest := func() (string, error) { return t.seq(l[1:], c) }
	if t.spec.ignore != nil {
		if es, ok := l[0].(*ast.ExprStmt); ok {
			for p := range t.spec.ignore {
				if strings.HasPrefix(c02Squash(es.X), p) {
					return rest()
				}
			}
		}
	}
	switch x := l[0].(type) {
	case *ast.EmptyStmt:
		return rest()
	case *ast.BlockStmt:
		return t.seq(append(append([]ast.Stmt{}, x.List...), l[1:]...), c)
	case *ast.DeclStmt:
		gd, ok := x.Decl.(*ast.GenDecl)
		if !ok || gd.Tok != token.VAR {
			break
		}
		code := ""
		for _, sp := range gd.Specs {
			vs := sp.(*ast.ValueSpec)
			if len(vs.Values) != 0 || vs.Type == nil {
				return "", t.errf(x, "var declaration with a value")
			}
			ty := c02Squash(vs.Type)
			for _, id := range vs.Names {
				switch {
				case ty == "error":
					t.declare(id.Name, "error")
				case c02MakeKind(vs.Type) != "":
					t.declare(id.Name, c02MakeKind(vs.Type))
					code += "let " + id.Name + " := " + c02Nil(c02MakeKind(vs.Type)) + " in\n" + c.ind
				case ty == "bool":
					t.declare(id.Name, "bool")
					code += "let " + id.Name + " := false in\n" + c.ind
				default:
					return "", t.errf(x, "var of type %s", ty)
				}
			}
		}
		r, err := rest()
		return code + r, err
	case *ast.ReturnStmt:
		return t.ret(x, c)
	case *ast.BranchStmt:
		if c.loop != nil && x.Label == nil {
			switch x.Tok {
			case token.CONTINUE:
				return c.loop.cont, nil
			case token.BREAK:
				if c.loop.brk != "" {
					return c.loop.brk, nil
				}
			}
		}
	case *ast.IncDecStmt:
		one := &ast.BasicLit{Kind: token.INT, Value: "1"}
		op := token.ADD
		if x.Tok == token.DEC {
			op = token.SUB
		}
		return t.assign(x.X, &ast.BinaryExpr{X: x.X, Op: op, Y: one}, false, c, rest)
	case *ast.ExprStmt:
		call, ok := x.X.(*ast.CallExpr)
		if !ok {
			break
		}
		if id, ok := call.Fun.(*ast.Ident); ok && id.Name == "delete" && len(call.Args) == 2 {
			m, mk, err := t.expr(call.Args[0], "")
			if err != nil {
				return "", err
			}
			if mk != "kset" || t.lookup(m) == nil {
				return "", t.errf(x, "delete from %s", c02Squash(call.Args[0]))
			}
			k, _, err := t.expr(call.Args[1], "key")
			if err != nil {
				return "", err
			}
			r, err := rest()
			return t.let(m, "ks_del "+c02Paren(k)+" "+m, r, c.ind), err
		}
		return t.emitCall(call, nil, false, c, rest)
	case *ast.AssignStmt:
		// error idiom
		if as, ok := c02AssignsErr(x); ok {
			if len(l) < 2 || !c02IsErrCheck(l[1]) {
				return "", t.errf(x, "an error result that is not checked at once")
			}
			if t.lookup("err") == nil {
				t.declare("err", "error")
			}
			return t.emitCall(as.Rhs[0].(*ast.CallExpr), as.Lhs[:len(as.Lhs)-1], as.Tok == token.DEFINE, c,
				func() (string, error) { return t.seq(l[2:], c) })
		}
		if len(x.Lhs) == 1 && len(x.Rhs) == 1 {
			switch x.Tok {
			case token.DEFINE, token.ASSIGN:
				// ret := make([]string, len(src)); copy(ret, src)   — a copy of src
				if id, ok := x.Lhs[0].(*ast.Ident); ok && len(l) >= 2 {
					if src, ok := c02CopyIdiom(id.Name, x.Rhs[0], l[1]); ok {
						return t.assign(x.Lhs[0], src, x.Tok == token.DEFINE, c, func() (string, error) { return t.seq(l[2:], c) })
					}
				}
				if call, ok := x.Rhs[0].(*ast.CallExpr); ok {
					if cl, _, ok := t.call(call); ok && (cl.state != "" || cl.err) {
						return t.emitCall(call, x.Lhs, x.Tok == token.DEFINE, c, rest)
					}
				}
				return t.assign(x.Lhs[0], x.Rhs[0], x.Tok == token.DEFINE, c, rest)
			case token.ADD_ASSIGN, token.SUB_ASSIGN:
				op := token.ADD
				if x.Tok == token.SUB_ASSIGN {
					op = token.SUB
				}
				return t.assign(x.Lhs[0], &ast.BinaryExpr{X: x.Lhs[0], Op: op, Y: x.Rhs[0]}, false, c, rest)
			}
		}
	case *ast.IfStmt:
		if as, ok := c02IsErrIf(x); ok {
			if t.lookup("err") == nil {
				t.declare("err", "error")
			}
			return t.emitCall(as.Rhs[0].(*ast.CallExpr), as.Lhs[:len(as.Lhs)-1], true, c, rest)
		}
		return t.ifStmt(x, l[1:], c)
	case *ast.RangeStmt:
		return t.rangeStmt(x, c, rest)
	case *ast.ForStmt:
		return t.forStmt(x, c, rest)
	}
	return "", t.errf(l[0], "statement not recognised: %T", l[0])
}

func c02CopyIdiom(name string, rhs ast.Expr, next ast.Stmt) (ast.Expr, bool) {
	mk, ok := rhs.(*ast.CallExpr)
	if !ok || c02Squash(mk.Fun) != "make" || len(mk.Args) != 2 {
		return nil, false
	}
	es, ok := next.(*ast.ExprStmt)
	if !ok {
		return nil, false
	}
	cp, ok := es.X.(*ast.CallExpr)
	if !ok || c02Squash(cp.Fun) != "copy" || len(cp.Args) != 2 || c02Squash(cp.Args[0]) != name {
		return nil, false
	}
	if c02Squash(mk.Args[1]) != "len("+c02Squash(cp.Args[1])+")" {
		return nil, false
	}
	return cp.Args[1], true
}

// lhs = rhs for a variable, a map entry or a slice element
func (t *c02tr) assign(lhs, rhs ast.Expr, define bool, c *c02Ctx, rest func() (string, error)) (string, error) {
	switch tg := lhs.(type) {
	case *ast.Ident:
		if tg.Name == "_" {
			return rest()
		}
		want := ""
		if v := t.lookup(tg.Name); v != nil && !define {
			want = v.kind
		}
		code, k, err := t.expr(rhs, want)
		if err != nil {
			return "", err
		}
		if define || t.lookup(tg.Name) == nil {
			if !define {
				return "", t.errf(lhs, "assignment to undeclared %s", tg.Name)
			}
			if _, isPath := t.spec.paths[tg.Name]; isPath {
				return "", t.errf(lhs, "local %s hides a parameter", tg.Name)
			}
			t.declare(tg.Name, k)
		} else if t.lookup(tg.Name).kind != k {
			return "", t.errf(lhs, "%s of kind %s assigned a %s", tg.Name, t.lookup(tg.Name).kind, k)
		}
		r, err := rest()
		return t.let(tg.Name, code, r, c.ind), err
	case *ast.IndexExpr:
		m, mk, err := t.expr(tg.X, "")
		if err != nil {
			return "", err
		}
		if t.lookup(m) == nil {
			return "", t.errf(lhs, "store into %s", c02Squash(tg.X))
		}
		ik := "key"
		if c02IsSlice(mk) {
			ik = "nat"
		}
		k, _, err := t.expr(tg.Index, ik)
		if err != nil {
			return "", err
		}
		var val string
		switch mk {
		case "kset":
			if c02Squash(rhs) != "struct{}{}" {
				return "", t.errf(lhs, "value stored into a key set")
			}
			val = "ks_add " + c02Paren(k) + " " + m
		case "imap":
			v, _, err := t.expr(rhs, "int")
			if err != nil {
				return "", err
			}
			val = "im_set " + c02Paren(k) + " " + c02Paren(v) + " " + m
		case "klmap":
			v, _, err := t.expr(rhs, "keylist")
			if err != nil {
				return "", err
			}
			val = "km_set " + c02Paren(k) + " " + c02Paren(v) + " " + m
		case "vlist", "keylist":
			v, _, err := t.expr(rhs, c02Elem[mk][1])
			if err != nil {
				return "", err
			}
			val = "l_set " + c02Paren(k) + " " + c02Paren(v) + " " + m
		default:
			return "", t.errf(lhs, "store into a %s", mk)
		}
		r, err := rest()
		return t.let(m, val, r, c.ind), err
	}
	return "", t.errf(lhs, "assignment to %s", c02Squash(lhs))
}

func (t *c02tr) ifStmt(x *ast.IfStmt, after []ast.Stmt, c *c02Ctx) (string, error) {
	t.push() // the scope of the init statement
	defer t.pop()
	cd, err := t.cond(x, c.ind)
	if err != nil {
		return "", err
	}
	els := c02ElseList(x)
	arm := func(l []ast.Stmt, cc *c02Ctx, bind bool) (string, error) {
		t.push()
		defer t.pop()
		if bind && cd.bind != nil {
			cd.bind()
		}
		return t.seq(l, cc)
	}
	if c02HasJump(x.Body.List) || c02HasJump(els) {
		// some path leaves the block: the rest of the block goes into both arms
		cc := *c
		cc.ind = c.ind + "  "
		th, err := arm(append(append([]ast.Stmt{}, x.Body.List...), after...), &cc, true)
		if err != nil {
			return "", err
		}
		el, err := arm(append(append([]ast.Stmt{}, els...), after...), &cc, false)
		if err != nil {
			return "", err
		}
		return cd.pre + cd.mk(th, el), nil
	}
	vars := t.carried(append(append([]ast.Stmt{}, x.Body.List...), els...))
	mon := c02NeedsMonad(x.Body.List) || c02NeedsMonad(els)
	if mon && !c.monadic {
		return "", t.errf(x, "an error path inside a block that cannot fail")
	}
	if len(vars) == 0 && !mon {
		return t.seq(after, c) // no effect inside the model
	}
	cc := &c02Ctx{tail: c02Wrap(mon, c02Tuple(vars)), monadic: mon, loop: nil, ind: c.ind + "  "}
	th, err := arm(x.Body.List, cc, true)
	if err != nil {
		return "", err
	}
	el, err := arm(els, cc, false)
	if err != nil {
		return "", err
	}
	r, err := t.seq(after, c)
	if err != nil {
		return "", err
	}
	if mon {
		return cd.pre + c02Do(c02Pat(vars), "("+cd.mk(th, el)+")", c.ind) + r, nil
	}
	return cd.pre + "let " + c02Pat(vars) + " := (" + cd.mk(th, el) + ") in\n" + c.ind + r, nil
}

func (t *c02tr) rangeStmt(x *ast.RangeStmt, c *c02Ctx, rest func() (string, error)) (string, error) {
	if x.Tok != token.DEFINE && (x.Key != nil || x.Value != nil) {
		return "", t.errf(x, "range assigning to existing variables")
	}
	src, sk, err := t.expr(x.X, "")
	if err != nil {
		return "", err
	}
	el, ok := c02Elem[sk]
	if !ok {
		return "", t.errf(x, "range over a %s", sk)
	}
	name := func(e ast.Expr) string {
		if id, ok := e.(*ast.Ident); ok {
			return id.Name
		}
		return "_"
	}
	kn, vn := "_", "_"
	if x.Key != nil {
		kn = name(x.Key)
	}
	if x.Value != nil {
		vn = name(x.Value)
	}
	body := x.Body.List
	vars := t.carried(body)
	mon := c02NeedsMonad(body)
	if mon && !c.monadic {
		return "", t.errf(x, "an error path inside a loop of a block that cannot fail")
	}
	if len(vars) == 0 && !mon {
		return rest() // no effect inside the model
	}
	// a map must not be modified while its entries (key, value) are being ranged over
	if !c02IsSlice(sk) && vn != "_" {
		for _, v := range vars {
			if v == src {
				return "", t.errf(x, "range over the entries of %s, which the body modifies", src)
			}
		}
	}
	hasBrk := c02HasBreak(body)
	// the element list and how the loop variables are bound
	var list, elemT, binds string
	switch {
	case c02IsSlice(sk) && kn == "_":
		list, elemT = src, c02Type[el[1]]
		binds = "let " + vn + " := x_ in "
	case c02IsSlice(sk):
		list, elemT = "(l_enum "+c02Paren(src)+")", "(nat * "+c02Type[el[1]]+")"
		binds = "let " + kn + " := fst x_ in let " + vn + " := snd x_ in "
	case sk == "kset":
		if vn != "_" {
			return "", t.errf(x, "value variable ranging over a key set")
		}
		list, elemT = src, "key"
		binds = "let " + kn + " := x_ in "
	case vn == "_":
		list, elemT = "(map fst "+c02Paren(src)+")", "key"
		binds = "let " + kn + " := x_ in "
	default:
		list, elemT = src, "(key * "+strings.TrimSuffix(strings.TrimPrefix(c02Type[sk], "list (key * "), ")")+")"
		binds = "let " + kn + " := fst x_ in let " + vn + " := snd x_ in "
	}
	binds = strings.ReplaceAll(binds, "let _ := x_ in ", "")
	binds = strings.ReplaceAll(binds, "let _ := fst x_ in ", "")
	binds = strings.ReplaceAll(binds, "let _ := snd x_ in ", "")
	var extra, extraT, extraInit []string
	if hasBrk {
		extra, extraT, extraInit = []string{"brk_"}, []string{"bool"}, []string{"false"}
	}
	stT := t.tupleType(vars, extraT...)
	t.push()
	if c02IsSlice(sk) {
		t.declare(kn, "nat")
		t.declare(vn, el[1])
	} else {
		t.declare(kn, "key")
		if el[1] != "" {
			t.declare(vn, el[1])
		}
	}
	ind := c.ind + "    "
	lp := &c02Loop{cont: c02Wrap(mon, c02Tuple(vars, extra...))}
	if hasBrk {
		lp.brk = c02Wrap(mon, c02Tuple(vars, "true"))
	}
	bc, err := t.seq(body, &c02Ctx{tail: lp.cont, monadic: mon, loop: lp, ind: ind})
	t.pop()
	if err != nil {
		return "", err
	}
	guard := ""
	if hasBrk {
		guard = "if brk_ then " + lp.cont + " else\n" + ind
	}
	fun := "(fun (st_ : " + stT + ") (x_ : " + elemT + ") => let " + c02Pat(vars, extra...) + " := st_ in " + binds + "\n" + ind + guard + bc + ")"
	init := c02Tuple(vars, extraInit...)
	r, err := rest()
	if err != nil {
		return "", err
	}
	outPat := c02Pat(vars, func() []string {
		if hasBrk {
			return []string{"_"}
		}
		return nil
	}()...)
	if mon {
		return c02Do(outPat, "fold_res "+fun+" "+list+" "+init, c.ind) + r, nil
	}
	return "let " + outPat + " := fold_left " + fun + " " + list + " " + init + " in\n" + c.ind + r, nil
}

// for init; cond; post { body }   /   for cond { body }
func (t *c02tr) forStmt(x *ast.ForStmt, c *c02Ctx, rest func() (string, error)) (string, error) {
	if !c.monadic {
		return "", t.errf(x, "an unbounded loop in a function that cannot fail")
	}
	if x.Cond == nil {
		return "", t.errf(x, "for without condition")
	}
	t.usesFuel = true
	t.push()
	defer t.pop()
	pre := ""
	var loopVar string
	if x.Init != nil {
		as, ok := x.Init.(*ast.AssignStmt)
		if !ok || as.Tok != token.DEFINE || len(as.Lhs) != 1 || len(as.Rhs) != 1 {
			return "", t.errf(x, "for-init not recognised")
		}
		id, ok := as.Lhs[0].(*ast.Ident)
		if !ok {
			return "", t.errf(x, "for-init not recognised")
		}
		v, k, err := t.expr(as.Rhs[0], "nat")
		if err != nil {
			return "", err
		}
		t.declare(id.Name, k)
		loopVar = id.Name
		pre = "let " + id.Name + " := " + v + " in\n" + c.ind
	}
	body := x.Body.List
	all := append([]ast.Stmt{}, body...)
	if x.Post != nil {
		all = append(all, x.Post)
	}
	vars := t.carried(all)
	if loopVar != "" {
		found := false
		for _, v := range vars {
			found = found || v == loopVar
		}
		if !found {
			vars = append(vars, loopVar)
		}
	}
	hasBrk := c02HasBreak(body)
	var extra, extraT, extraInit []string
	if hasBrk {
		extra, extraT, extraInit = []string{"brk_"}, []string{"bool"}, []string{"false"}
	}
	stT := t.tupleType(vars, extraT...)
	cond, _, err := t.expr(x.Cond, "bool")
	if err != nil {
		return "", err
	}
	if hasBrk {
		cond = "(negb brk_ && " + cond + ")"
	}
	ind := c.ind + "    "
	// `continue` and the end of the body run the post statement
	postTail := c02Wrap(true, c02Tuple(vars, extra...))
	if x.Post != nil {
		pc, err := t.seq([]ast.Stmt{x.Post}, &c02Ctx{tail: postTail, monadic: true, ind: ind})
		if err != nil {
			return "", err
		}
		postTail = pc
	}
	lp := &c02Loop{cont: postTail}
	if hasBrk {
		lp.brk = c02Wrap(true, c02Tuple(vars, "true"))
	}
	bc, err := t.block(body, &c02Ctx{tail: postTail, monadic: true, loop: lp, ind: ind})
	if err != nil {
		return "", err
	}
	open := "(fun (st_ : " + stT + ") => let " + c02Pat(vars, extra...) + " := st_ in "
	code := "loop_fuel fuel " + open + cond + ")\n" + ind + open + "\n" + ind + bc + ") " + c02Tuple(vars, extraInit...)
	t.pop()
	t.push()
	outVars := []string{}
	for _, v := range vars {
		if v == loopVar {
			outVars = append(outVars, "_")
		} else {
			outVars = append(outVars, v)
		}
	}
	if hasBrk {
		outVars = append(outVars, "_")
	}
	r, err := rest()
	if err != nil {
		return "", err
	}
	return pre + c02Do(c02Pat(outVars), code, c.ind) + r, nil
}

// ---------------------------------------------------------------- functions

var c02CoqKeywords = map[string]bool{"end": true, "match": true, "with": true, "in": true, "fun": true, "let": true, "at": true,
	"as": true, "then": true, "fix": true, "forall": true, "exists": true, "Type": true, "Set": true, "Prop": true, "using": true, "where": true,
	// names the generated text itself uses
	"key": true, "nat": true, "bool": true, "unit": true, "list": true, "res": true, "chans": true, "fuel": true, "dflt": true,
	"B": true, "V": true, "Z": true, "N": true, "CC": true, "CM": true, "Ok": true, "Err": true, "tt": true, "fst": true, "snd": true, "map": true, "negb": true}

func (t *c02tr) function(body []ast.Stmt) (string, error) {
	sp := t.spec
	for _, s := range body {
		ast.Inspect(s, func(n ast.Node) bool {
			if id, ok := n.(*ast.Ident); ok && id.Name != "_" && (c02CoqKeywords[id.Name] || strings.HasSuffix(id.Name, "_")) {
				id.Name += "_"
			}
			return true
		})
	}
	t.scopes = nil
	t.push()
	for _, p := range sp.params {
		t.declare(p[0], p[1])
	}
	tail := ""
	if len(sp.result) > 0 {
		tail = c02Wrap(sp.monadic, c02Tuple(sp.result))
	}
	t.push()
	code, err := t.seq(body, &c02Ctx{tail: tail, monadic: sp.monadic, top: true, ind: "    "})
	if err != nil {
		return "", err
	}
	var ps []string
	if t.usesFuel {
		ps = append(ps, "(fuel : nat)")
	}
	for _, p := range sp.params {
		ps = append(ps, "("+p[0]+" : "+c02Type[p[1]]+")")
	}
	return "  Definition " + sp.out + " " + strings.Join(ps, " ") + " :=\n    " + code + ".\n", nil
}

func c02FindFunc(f *ast.File, recv, name string) *ast.FuncDecl {
	for _, d := range f.Decls {
		fn, ok := d.(*ast.FuncDecl)
		if !ok || fn.Name.Name != name || fn.Body == nil {
			continue
		}
		if recv == "" && fn.Recv == nil {
			return fn
		}
		if recv != "" && fn.Recv != nil && len(fn.Recv.List) == 1 && c02Squash(fn.Recv.List[0].Type) == "*"+recv {
			return fn
		}
	}
	return nil
}

// the Go parameter names must be the ones the per-function table was written for
func c02CheckParams(fn *ast.FuncDecl, recv string, want ...string) error {
	var got []string
	if fn.Recv != nil && len(fn.Recv.List[0].Names) == 1 {
		got = append(got, fn.Recv.List[0].Names[0].Name)
	} else if fn.Recv != nil {
		got = append(got, "_")
	}
	for _, fl := range fn.Type.Params.List {
		for _, n := range fl.Names {
			got = append(got, n.Name)
		}
	}
	if recv != "" {
		want = append([]string{recv}, want...)
	}
	if strings.Join(got, ",") != strings.Join(want, ",") {
		return fmt.Errorf("%s: parameters are %v, expected %v", fn.Name.Name, got, want)
	}
	return nil
}

func c02Header(file, what string) string {
	return "(* Gen/" + file + " — GENERATED by tools/go2v from " + what + ",\n   translated statement by statement (tools/go2v/c02_dagcode.go). Do not edit. *)\n" +
		"From Eino Require Import Base.Util Model.Graph Model.DagGenLib.\nOpen Scope N_scope.\n\nDefinition tie_available : bool := true.\n\n"
}

// The neutral file written when the source shape is not recognised: the translation of the tree the agreement
// proofs were written against (tools/go2v/c02_neutral/<file>, refreshed by tools/go2v/c02_neutral/refresh.sh), marked
// tie_available = false — so that Proofs/GenAgreeDag*.v keep compiling and say nothing about the unrecognised code.
//
//go:embed c02_neutral/*.v
var c02NeutralFS embed.FS

func c02Neutral(file, what string) string {
	b, err := c02NeutralFS.ReadFile("c02_neutral/" + file)
	if err != nil {
		panic(err)
	}
	return "(* Gen/" + file + " — translator tie UNAVAILABLE: tools/go2v did not recognise the shape of " + what + ";\n" +
		"   below is the frozen translation of the tree the agreement proofs were written against. *)\n" + string(b)
}

var c02BranchFields = map[string][2]string{
	"B.endNodes":   {"branch_endNodes", "kset"},
	"B.noDataFlow": {"branch_noDataFlow", "bool"},
}

func init() {
	register("dagbranch", c02ExtractDagBranch)
	registerFallback("dagbranch", "DagBranchCode.v", c02Neutral("DagBranchCode.v", "calculateBranch (compose/graph_run.go) / getSuccessors (compose/graph.go)"))
}

func c02ExtractDagBranch(repo string) (string, string, error) {
	fset := token.NewFileSet()
	run, err := parseGo(fset, repo, "compose", "graph_run.go")
	if err != nil {
		return "", "", err
	}
	gr, err := parseGo(fset, repo, "compose", "graph.go")
	if err != nil {
		return "", "", err
	}
	var b strings.Builder
	b.WriteString(c02Header("DagBranchCode.v", "compose/graph_run.go (runner.calculateBranch) and compose/graph.go (getSuccessors)"))
	b.WriteString("Section Gen.\n  Variables V B CM : Type.\n  Variable dflt : V.\n  Variable branch_endNodes : B -> list key.\n" +
		"  Variable preBranch_handle : key -> nat -> V -> bool -> res V.\n" +
		"  Variable branch_collect : B -> V -> res (list key).\n  Variable branch_invoke : B -> V -> res (list key).\n" +
		"  Variable cm_reportBranch : CM -> key -> list key -> res CM.\n\n")

	fn := c02FindFunc(run, "runner", "calculateBranch")
	if fn == nil {
		return "", "", fmt.Errorf("(*runner).calculateBranch not found")
	}
	if err := c02CheckParams(fn, "r", "ctx", "curNodeKey", "startChan", "input", "isStream", "cm"); err != nil {
		return "", "", err
	}
	t := &c02tr{fn: "calculateBranch", spec: &c02Spec{
		out: "calculateBranch",
		params: [][2]string{{"curNodeKey", "key"}, {"writeTo", "keylist"}, {"writeToBranches", "blist"}, {"controls", "keylist"},
			{"input", "vlist"}, {"isStream", "bool"}, {"cm", "CM"}},
		paths: map[string][2]string{"startChan.writeTo": {"writeTo", "keylist"}, "startChan.writeToBranches": {"writeToBranches", "blist"},
			"startChan.controls": {"controls", "keylist"}, "cm": {"cm", "CM"}},
		fields: c02BranchFields,
		calls: map[string]c02Call{
			"r.preBranchHandlerManager.handle": {fn: "preBranch_handle", args: []int{0, 1, 2, 3}, ret: "V", err: true},
			"B.collect":                        {fn: "branch_collect", args: []int{-1, 1}, ret: "keylist", err: true},
			"B.invoke":                         {fn: "branch_invoke", args: []int{-1, 1}, ret: "keylist", err: true},
			"CM.reportBranch":                  {fn: "cm_reportBranch", args: []int{0, 1}, err: true, state: "cm"},
		},
		errs:     [][2]string{{"calculate next input length is shorter than branches", "eUnreachableLen"}},
		monadic:  true,
		retKinds: []string{"keylist"},
		state:    []string{"cm"},
	}}
	code, err := t.function(fn.Body.List)
	if err != nil {
		return "", "", err
	}
	b.WriteString(code + "\n")

	fn = c02FindFunc(gr, "", "getSuccessors")
	if fn == nil {
		return "", "", fmt.Errorf("getSuccessors not found")
	}
	if err := c02CheckParams(fn, "", "c"); err != nil {
		return "", "", err
	}
	t = &c02tr{fn: "getSuccessors", spec: &c02Spec{
		out:    "getSuccessors",
		params: [][2]string{{"writeTo", "keylist"}, {"controls", "keylist"}, {"writeToBranches", "blist"}},
		paths: map[string][2]string{"c.writeTo": {"writeTo", "keylist"}, "c.controls": {"controls", "keylist"},
			"c.writeToBranches": {"writeToBranches", "blist"}},
		fields:   c02BranchFields,
		retKinds: []string{"keylist"},
	}}
	code, err = t.function(fn.Body.List)
	if err != nil {
		return "", "", err
	}
	b.WriteString(code + "\nEnd Gen.\n")
	return "DagBranchCode.v", b.String(), nil
}

// ---------------------------------------------------------------- dagtables: validateDAG and the predecessor tables

func init() {
	register("dagtables", c02ExtractDagTables)
	registerFallback("dagtables", "DagTablesCode.v", c02Neutral("DagTablesCode.v", "validateDAG / the predecessor tables of graph.compile (compose/graph.go)"))
	register("dagskip", c02ExtractDagSkip)
	registerFallback("dagskip", "DagSkipCode.v", c02Neutral("DagSkipCode.v", "channelManager.reportBranch (compose/graph_manager.go)"))
}

// the statements of graph.compile that fill controlPredecessors / dataPredecessors: the two make statements
// and the range loops that follow them
func c02PredecessorFragment(fn *ast.FuncDecl) ([]ast.Stmt, error) {
	l := fn.Body.List
	defines := func(s ast.Stmt, name string) bool {
		as, ok := s.(*ast.AssignStmt)
		if !ok || as.Tok != token.DEFINE || len(as.Lhs) != 1 || len(as.Rhs) != 1 {
			return false
		}
		id, ok := as.Lhs[0].(*ast.Ident)
		return ok && id.Name == name && c02Squash(as.Rhs[0]) == "make(map[string][]string)"
	}
	for i := 0; i+1 < len(l); i++ {
		a, b := "dataPredecessors", "controlPredecessors"
		if !(defines(l[i], a) && defines(l[i+1], b)) && !(defines(l[i], b) && defines(l[i+1], a)) {
			continue
		}
		j := i + 2
		for j < len(l) {
			if _, ok := l[j].(*ast.RangeStmt); !ok {
				break
			}
			j++
		}
		if j == i+2 {
			return nil, fmt.Errorf("compile: no loop after the predecessor tables")
		}
		// nothing later in compile may write to the tables
		for _, s := range l[j:] {
			bad := false
			ast.Inspect(s, func(n ast.Node) bool {
				switch x := n.(type) {
				case *ast.AssignStmt:
					for _, lhs := range x.Lhs {
						if strings.HasPrefix(c02Squash(lhs), a) || strings.HasPrefix(c02Squash(lhs), b) {
							bad = true
						}
					}
				case *ast.CallExpr:
					if f := c02Squash(x.Fun); (f == "delete" || f == "copy") && len(x.Args) > 0 {
						if id := c02Squash(x.Args[0]); id == a || id == b {
							bad = true
						}
					}
				}
				return !bad
			})
			if bad {
				return nil, fmt.Errorf("compile: the predecessor tables are modified after the loops that fill them")
			}
		}
		return l[i:j], nil
	}
	return nil, fmt.Errorf("compile: the predecessor tables were not found")
}

func c02ExtractDagTables(repo string) (string, string, error) {
	fset := token.NewFileSet()
	gr, err := parseGo(fset, repo, "compose", "graph.go")
	if err != nil {
		return "", "", err
	}
	var b strings.Builder
	b.WriteString(c02Header("DagTablesCode.v", "compose/graph.go (validateDAG; graph.compile: the loops that fill controlPredecessors / dataPredecessors)"))
	b.WriteString("Section Gen.\n  Variables B CC : Type.\n  Variable cc_nil : CC.\n  Variable branch_endNodes : B -> list key.\n  Variable branch_noDataFlow : B -> bool.\n" +
		"  Variable cc_controls : CC -> list key.\n  Variable cc_writeToBranches : CC -> list B.\n" +
		"  Definition cc_at (k : key) (m : list (key * CC)) : CC := match alookup k m with Some c => c | None => cc_nil end.\n\n")

	fn := c02FindFunc(gr, "", "validateDAG")
	if fn == nil {
		return "", "", fmt.Errorf("validateDAG not found")
	}
	if err := c02CheckParams(fn, "", "chanSubscribeTo", "controlPredecessors"); err != nil {
		return "", "", err
	}
	fields := map[string][2]string{"B.endNodes": {"branch_endNodes", "kset"}, "B.noDataFlow": {"branch_noDataFlow", "bool"},
		"CC.controls": {"cc_controls", "keylist"}, "CC.writeToBranches": {"cc_writeToBranches", "blist"}}
	t := &c02tr{fn: "validateDAG", spec: &c02Spec{
		out:     "validateDAG",
		params:  [][2]string{{"chanSubscribeTo", "ccmap"}, {"controlPredecessors", "klmap"}},
		paths:   map[string][2]string{},
		fields:  fields,
		errs:    [][2]string{{"DAG invalid", "eDagLoop"}},
		monadic: true,
	}}
	code, err := t.function(fn.Body.List)
	if err != nil {
		return "", "", err
	}
	b.WriteString(code + "\n")

	fn = c02FindFunc(gr, "graph", "compile")
	if fn == nil {
		return "", "", fmt.Errorf("(*graph).compile not found")
	}
	if fn.Recv.List[0].Names[0].Name != "g" {
		return "", "", fmt.Errorf("compile: receiver is not g")
	}
	frag, err := c02PredecessorFragment(fn)
	if err != nil {
		return "", "", err
	}
	t = &c02tr{fn: "compile (predecessor tables)", spec: &c02Spec{
		out:    "predecessorTables",
		params: [][2]string{{"g_controlEdges", "klmap"}, {"g_dataEdges", "klmap"}, {"g_branches", "kblmap"}},
		paths: map[string][2]string{"g.controlEdges": {"g_controlEdges", "klmap"}, "g.dataEdges": {"g_dataEdges", "klmap"},
			"g.branches": {"g_branches", "kblmap"}},
		fields: fields,
		result: []string{"controlPredecessors", "dataPredecessors"},
	}}
	code, err = t.function(frag)
	if err != nil {
		return "", "", err
	}
	b.WriteString(code + "\nEnd Gen.\n")
	return "DagTablesCode.v", b.String(), nil
}

// ---------------------------------------------------------------- dagskip: channelManager.reportBranch

func c02ExtractDagSkip(repo string) (string, string, error) {
	fset := token.NewFileSet()
	gm, err := parseGo(fset, repo, "compose", "graph_manager.go")
	if err != nil {
		return "", "", err
	}
	fn := c02FindFunc(gm, "channelManager", "reportBranch")
	if fn == nil {
		return "", "", fmt.Errorf("(*channelManager).reportBranch not found")
	}
	if err := c02CheckParams(fn, "c", "from", "skippedNodes"); err != nil {
		return "", "", err
	}
	t := &c02tr{fn: "reportBranch", spec: &c02Spec{
		out:    "reportBranch",
		params: [][2]string{{"channels", "chans"}, {"successors", "klmap"}, {"from", "key"}, {"skippedNodes", "keylist"}},
		paths:  map[string][2]string{"c.channels": {"channels", "chans"}, "c.successors": {"successors", "klmap"}},
		calls: map[string]c02Call{
			"chans[].reportSkip": {fn: "chans_reportSkip", args: []int{-1, 0}, ret: "bool", state: "c.channels"},
		},
		errs:    [][2]string{{"unknown node", "eSkipEnd"}},
		monadic: true,
		state:   []string{"channels"},
	}}
	code, err := t.function(fn.Body.List)
	if err != nil {
		return "", "", err
	}
	var b strings.Builder
	b.WriteString(c02Header("DagSkipCode.v", "compose/graph_manager.go (channelManager.reportBranch)"))
	b.WriteString("Section Gen.\n  Variable V : Type.\n\n" + code + "\nEnd Gen.\n")
	return "DagSkipCode.v", b.String(), nil
}
