package main

// Extractor "chancode" (properties C01 / C02): compose/dag.go and compose/pregel.go, the methods
// reportValues / reportDependencies / reportSkip / get of dagChannel and pregelChannel,
// translated statement by statement into Gallina functions over the channel record of
// Model/Graph.v and the map vocabulary of Model/ChanGenLib.v.
//
// The translator is a small compiler for the imperative fragment these methods are written in.
// Before it runs, every method is NORMALISED (chancode_norm.go): parameters renamed by position to the
// names of the Gallina signature, locals that would clash with Gallina renamed, result-less helpers of the
// same file inlined, switch / else-if / `continue` / negated tests brought to one shape — so that a
// behaviour-preserving rewrite of these kinds gives the same text (up to bound names) as the original.
// State: the receiver's fields (maps keyed by node key, one bool), threaded as the variable
// [ch]; every statement rebinds it.  Recognised statements:
//   if C { … }   [else { … }]        C built from  ch.F  !x  x == const  _, ok := ch.M[k]; <test on ok>  a && b  a || b
//                                     len(x) == n   isStream   v.(streamReader) ok-test
//                                     recv.helper(…) / helper(…) returning one bool without changing the channel
//   _, ok := ch.M[k]     flag := C    (statements of their own: a let-bound flag read off the state there)
//   ch.M[k] = e      ch.F = e      delete(ch.M, k)      x = e (bool flag)      x := e
//   for k, v := range <param>  { … }                        fold over the argument (continue: removed by the normalisation)
//   for _, k := range <param>  { … }                        fold over the argument
//   for _, s := range ch.M { if C(s) { return R } }         search  -> m_any
//   for _, s := range ch.M { if C(s) { flag = false; break } }   flag  -> m_any
//   for k := range ch.M { ch.M[k] = const }                 m_setall
//   for k, v := range ch.M { if sr, ok := v.(streamReader); ok { sr.close(); delete(ch.M, k) } }   m_del_if
//   for _, v := range <param> { if sr, ok := v.(streamReader); ok { sr.close() } }                  (effect outside the model: skip)
//   l := make([]any, 0, …); for _, v := range ch.M { l = append(l, v) }                            m_vals
//   defer func() { … }()             the block is applied to the state at every later return
//   return …                         by result shape of the method (see retExpr)
// Anything else: "source shape not recognised" (translator tie unavailable).
//
// Output: coq/Gen/ChanCode.v, Section Gen over V, is_stream, merge_values, zero_value,
// empty_stream with definitions dag_reportValues, dag_reportDependencies, dag_reportSkip, dag_get,
// pregel_reportValues, pregel_get.  Proofs/GenAgreeChan.v proves them extensionally equal to the
// channel operations of Model/Graph.v that the C01/C02 theorems are about.

import (
	_ "embed"
	"fmt"
	"go/ast"
	"go/token"
	"go/types"
	"path/filepath"
	"strings"
)

// The neutral file written when the source shape is not recognised: the translation of the tree the agreement
// proofs of Proofs/GenAgreeChan.v were written against (tools/go2v/chancode_neutral/ChanCode.v, refreshed by
// tools/go2v/chancode_neutral/refresh.sh), marked tie_available = false — the agreement file keeps compiling
// ("translator tie unavailable", not an alarm); only a RECOGNISED source that means something else breaks it.
//
//go:embed chancode_neutral/ChanCode.v
var chanNeutralFile string

func init() {
	register("chancode", extractChanCode)
	registerFallback("chancode", "ChanCode.v", chanNeutralFile)
}

type chanTr struct {
	recv     string
	fields   map[string]string // Go field -> Gallina projection suffix (ctrl data skipped vals)
	consts   map[string]string // Go constant -> Gallina
	params   map[string]string // parameter name -> kind: "kvlist" (map param), "keylist" (slice param), "bool"
	method   string
	deferred string // Gallina function chan -> chan applied at returns ("" = none)
	locals   map[string]string // local name -> kind: "bool", "vlist"
	retKind  string            // "state" | "state_bool" | "get" | "bool" (a helper used in a condition)
	ctx      *chanNormCtx      // where helpers are looked up (chancode_norm.go)
	subst    map[string]string // the `ok` of `if _, ok := ch.M[k]; …` / `if sr, ok := v.(streamReader); …` -> its Gallina meaning
	mergeVal string            // names bound by `v, err := mergeValues(l)`
	mergeErr string
}

func (t *chanTr) fieldOf(e ast.Expr) (string, bool) {
	sel, ok := e.(*ast.SelectorExpr)
	if !ok {
		return "", false
	}
	id, ok := sel.X.(*ast.Ident)
	if !ok || id.Name != t.recv {
		return "", false
	}
	f, ok := t.fields[sel.Sel.Name]
	return f, ok
}

func (t *chanTr) get(f string) string { return "(ch_" + f + " ch)" }
func (t *chanTr) set(f, v string) string {
	return "(ch_set_" + f + " ch " + v + ")"
}

// value expressions (map values / flags)
func (t *chanTr) val(e ast.Expr) (string, error) {
	switch x := e.(type) {
	case *ast.Ident:
		if c, ok := t.consts[x.Name]; ok {
			return c, nil
		}
		if x.Name == "true" || x.Name == "false" {
			return x.Name, nil
		}
		return x.Name, nil // loop variable / local
	case *ast.ParenExpr:
		return t.val(x.X)
	}
	return "", fmt.Errorf("%s: value %s not recognised", t.method, types.ExprString(e))
}

// boolean conditions; sVar = name bound to the map value in a range loop ("" none)
func (t *chanTr) cond(e ast.Expr) (string, error) {
	switch x := e.(type) {
	case *ast.ParenExpr:
		return t.cond(x.X)
	case *ast.Ident:
		if x.Name == "true" || x.Name == "false" {
			return x.Name, nil
		}
		if r, ok := t.subst[x.Name]; ok {
			return r, nil
		}
		if t.locals[x.Name] == "bool" || t.params[x.Name] == "bool" {
			return x.Name, nil
		}
	case *ast.CallExpr:
		if s, ok, err := t.boolHelper(x); ok || err != nil {
			return s, err
		}
	case *ast.SelectorExpr:
		if f, ok := t.fieldOf(x); ok && f == "skipped" {
			return t.get(f), nil
		}
	case *ast.UnaryExpr:
		if x.Op == token.NOT {
			s, err := t.cond(x.X)
			return "(negb " + s + ")", err
		}
	case *ast.BinaryExpr:
		if x.Op == token.LAND || x.Op == token.LOR {
			a, err := t.cond(x.X)
			if err != nil {
				return "", err
			}
			b, err := t.cond(x.Y)
			if err != nil {
				return "", err
			}
			if x.Op == token.LAND {
				return "(andb " + a + " " + b + ")", nil
			}
			return "(orb " + a + " " + b + ")", nil
		}
		if x.Op == token.EQL || x.Op == token.NEQ {
			wrap := func(s string) string {
				if x.Op == token.NEQ {
					return "(negb " + s + ")"
				}
				return s
			}
			// len(x) == n
			if call, ok := x.X.(*ast.CallExpr); ok {
				if id, ok := call.Fun.(*ast.Ident); ok && id.Name == "len" && len(call.Args) == 1 {
					if bl, ok := x.Y.(*ast.BasicLit); ok && bl.Kind == token.INT {
						if f, ok := t.fieldOf(call.Args[0]); ok {
							return wrap("(Nat.eqb (List.length " + t.get(f) + ") " + bl.Value + ")"), nil
						}
						if id, ok := call.Args[0].(*ast.Ident); ok && (t.locals[id.Name] == "vlist" || t.params[id.Name] == "keylist") {
							return wrap("(Nat.eqb (List.length " + id.Name + ") " + bl.Value + ")"), nil
						}
					}
				}
			}
			// s == const (dependency state)
			if id, ok := x.X.(*ast.Ident); ok {
				if c, ok := t.consts[types.ExprString(x.Y)]; ok {
					return wrap("(dep_eqb " + id.Name + " " + c + ")"), nil
				}
			}
		}
	}
	return "", fmt.Errorf("%s: condition %s not recognised", t.method, types.ExprString(e))
}

// `_, ok := ch.M[k]` -> (field, key)
func (t *chanTr) okLookup(s ast.Stmt) (field, key, okName string, ok bool) {
	as, isAs := s.(*ast.AssignStmt)
	if !isAs || as.Tok != token.DEFINE || len(as.Lhs) != 2 || len(as.Rhs) != 1 {
		return
	}
	if id, isId := as.Lhs[0].(*ast.Ident); !isId || id.Name != "_" {
		return
	}
	okId, isId := as.Lhs[1].(*ast.Ident)
	if !isId || okId.Name == "_" {
		return
	}
	ix, isIx := as.Rhs[0].(*ast.IndexExpr)
	if !isIx {
		return
	}
	f, isF := t.fieldOf(ix.X)
	k, isK := ix.Index.(*ast.Ident)
	if !isF || !isK {
		return
	}
	return f, k.Name, okId.Name, true
}

// `sr, ok := v.(streamReader)` -> v
func streamAssert(s ast.Stmt) (string, bool) {
	as, ok := s.(*ast.AssignStmt)
	if !ok || as.Tok != token.DEFINE || len(as.Lhs) != 2 || len(as.Rhs) != 1 {
		return "", false
	}
	ta, ok := as.Rhs[0].(*ast.TypeAssertExpr)
	if !ok || types.ExprString(ta.Type) != "streamReader" {
		return "", false
	}
	id, ok := ta.X.(*ast.Ident)
	if !ok {
		return "", false
	}
	return id.Name, true
}

// `sr, ok := v.(streamReader)` -> v, ok
func streamAssertOk(s ast.Stmt) (string, string, bool) {
	v, ok := streamAssert(s)
	if !ok {
		return "", "", false
	}
	id, ok := s.(*ast.AssignStmt).Lhs[1].(*ast.Ident)
	if !ok || id.Name == "_" {
		return "", "", false
	}
	return v, id.Name, true
}

func isCallNamed(s ast.Stmt, name string) (*ast.CallExpr, bool) {
	es, ok := s.(*ast.ExprStmt)
	if !ok {
		return nil, false
	}
	call, ok := es.X.(*ast.CallExpr)
	if !ok {
		return nil, false
	}
	return call, squash(types.ExprString(call.Fun)) == name
}

// does every path through the statement list end in a return?
func alwaysReturns(l []ast.Stmt) bool {
	if len(l) == 0 {
		return false
	}
	switch x := l[len(l)-1].(type) {
	case *ast.ReturnStmt:
		return true
	case *ast.IfStmt:
		if x.Else == nil {
			return false
		}
		eb, ok := x.Else.(*ast.BlockStmt)
		return ok && alwaysReturns(x.Body.List) && alwaysReturns(eb.List)
	}
	return false
}

func containsReturn(n ast.Node) bool {
	found := false
	ast.Inspect(n, func(m ast.Node) bool {
		if _, ok := m.(*ast.FuncLit); ok {
			return false
		}
		if _, ok := m.(*ast.ReturnStmt); ok {
			found = true
		}
		return !found
	})
	return found
}

// the condition of an if statement, including the `_, ok := …; ok` and `sr, ok := v.(streamReader); ok` forms
func (t *chanTr) ifCond(is *ast.IfStmt) (string, error) {
	if is.Init != nil {
		var name, meaning string
		if f, k, okn, ok := t.okLookup(is.Init); ok {
			name, meaning = okn, "(m_has "+k+" "+t.get(f)+")"
		} else if v, okn, ok := streamAssertOk(is.Init); ok {
			name, meaning = okn, "(is_stream "+v+")"
		} else {
			return "", fmt.Errorf("%s: if-init %s not recognised", t.method, "statement")
		}
		// the condition may be any test built from the looked-up flag (ok, !ok, ok && …)
		if t.subst == nil {
			t.subst = map[string]string{}
		}
		old, had := t.subst[name]
		t.subst[name] = meaning
		s, err := t.cond(is.Cond)
		if had {
			t.subst[name] = old
		} else {
			delete(t.subst, name)
		}
		return s, err
	}
	return t.cond(is.Cond)
}

// a call, used as a condition, of a helper of the same file that returns one bool and does not change the
// channel: its (normalised) body is translated in place.  ok = false: not such a call.
func (t *chanTr) boolHelper(call *ast.CallExpr) (string, bool, error) {
	if t.ctx == nil {
		return "", false, nil
	}
	fn, err := t.ctx.helper(call)
	if err != nil || fn == nil {
		return "", false, err
	}
	if fn.Type.Results == nil || len(fn.Type.Results.List) != 1 || types.ExprString(fn.Type.Results.List[0].Type) != "bool" ||
		len(fn.Type.Results.List[0].Names) > 0 {
		return "", false, nil
	}
	l, err := t.ctx.inlineList(fn.Body.List, 1)
	if err != nil {
		return "", true, err
	}
	if l, err = t.ctx.normList(l, false); err != nil {
		return "", true, err
	}
	locals := map[string]string{}
	for k, v := range t.locals {
		locals[k] = v
	}
	sub := &chanTr{recv: t.recv, fields: t.fields, consts: t.consts, params: t.params, method: t.method + "/" + fn.Name.Name,
		locals: locals, retKind: "bool", ctx: t.ctx}
	code, err := sub.body(l, "      ")
	if err != nil {
		return "", true, err
	}
	if strings.Contains(code, "ch_set_") || sub.deferred != "" {
		return "", true, fmt.Errorf("%s: helper %s used as a condition changes the channel", t.method, fn.Name.Name)
	}
	return "(" + code + ")", true, nil
}

// a block that only transforms the state (no return); inLoop: `continue` ends the block
func (t *chanTr) state(l []ast.Stmt, inLoop bool, ind string) (string, error) {
	if len(l) == 0 {
		return "ch", nil
	}
	rest := func() (string, error) { return t.state(l[1:], inLoop, ind) }
	switch x := l[0].(type) {
	case *ast.BranchStmt:
		// every `continue` has been removed by the normalisation (chancode_norm.go: elimCont)
		return "", fmt.Errorf("%s: %s not recognised in a state block", t.method, x.Tok)
	case *ast.ReturnStmt:
		return "", fmt.Errorf("%s: return inside a state block", t.method)
	case *ast.AssignStmt:
		// _, ok := ch.M[k]  (a statement of its own): ok is a flag read off the state at this point
		if f, k, okn, ok := t.okLookup(x); ok {
			t.locals[okn] = "bool"
			r, err := rest()
			return "let " + okn + " := (m_has " + k + " " + t.get(f) + ") in\n" + ind + r, err
		}
		// flag := <condition>
		if x.Tok == token.DEFINE && len(x.Lhs) == 1 && len(x.Rhs) == 1 {
			if id, ok := x.Lhs[0].(*ast.Ident); ok && id.Name != "_" {
				if c, err := t.cond(x.Rhs[0]); err == nil {
					t.locals[id.Name] = "bool"
					r, err := rest()
					return "let " + id.Name + " := " + c + " in\n" + ind + r, err
				}
			}
		}
		if len(x.Lhs) == 1 && len(x.Rhs) == 1 && x.Tok == token.ASSIGN {
			// ch.M[k] = e
			if ix, ok := x.Lhs[0].(*ast.IndexExpr); ok {
				if f, ok := t.fieldOf(ix.X); ok {
					k, ok := ix.Index.(*ast.Ident)
					if !ok {
						return "", fmt.Errorf("%s: map index %s", t.method, types.ExprString(ix.Index))
					}
					v, err := t.val(x.Rhs[0])
					if err != nil {
						return "", err
					}
					r, err := rest()
					return "let ch := " + t.set(f, "(m_set "+k.Name+" "+v+" "+t.get(f)+")") + " in\n" + ind + r, err
				}
			}
			// ch.F = e  (bool field or map reset)
			if f, ok := t.fieldOf(x.Lhs[0]); ok {
				var v string
				if f == "skipped" {
					var err error
					if v, err = t.cond(x.Rhs[0]); err != nil {
						return "", err
					}
				} else if isEmptyMap(x.Rhs[0]) {
					v = "[]"
				} else {
					return "", fmt.Errorf("%s: assignment to field %s", t.method, f)
				}
				r, err := rest()
				return "let ch := " + t.set(f, v) + " in\n" + ind + r, err
			}
		}
	case *ast.ExprStmt:
		// sr.close(): outside the model
		if call, ok := x.X.(*ast.CallExpr); ok {
			if sel, ok := call.Fun.(*ast.SelectorExpr); ok && sel.Sel.Name == "close" && len(call.Args) == 0 {
				return rest()
			}
		}
	case *ast.IfStmt:
		c, err := t.ifCond(x)
		if err != nil {
			return "", err
		}
		th, err := t.state(x.Body.List, inLoop, ind+"  ")
		if err != nil {
			return "", err
		}
		el := "ch"
		if x.Else != nil {
			eb, ok := x.Else.(*ast.BlockStmt)
			if !ok {
				return "", fmt.Errorf("%s: else-if in a state block", t.method)
			}
			if el, err = t.state(eb.List, inLoop, ind+"  "); err != nil {
				return "", err
			}
		}
		r, err := rest()
		if err != nil {
			return "", err
		}
		return "let ch := (if " + c + " then " + paren(th) + " else " + paren(el) + ") in\n" + ind + r, nil
	case *ast.RangeStmt:
		s, err := t.rangeState(x, ind)
		if err != nil {
			return "", err
		}
		r, err := rest()
		if s == "" {
			return r, err
		}
		return "let ch := " + s + " in\n" + ind + r, err
	}
	return "", fmt.Errorf("%s: statement not recognised in a state block", t.method)
}

func paren(s string) string {
	if strings.ContainsAny(s, " \n") && !(strings.HasPrefix(s, "(") && strings.HasSuffix(s, ")") && balanced(s[1:len(s)-1])) {
		return "(" + s + ")"
	}
	return s
}

func balanced(s string) bool {
	d := 0
	for _, r := range s {
		if r == '(' {
			d++
		} else if r == ')' {
			d--
			if d < 0 {
				return false
			}
		}
	}
	return d == 0
}

func isEmptyMap(e ast.Expr) bool {
	switch x := e.(type) {
	case *ast.CompositeLit:
		_, ok := x.Type.(*ast.MapType)
		return ok && len(x.Elts) == 0
	case *ast.CallExpr:
		if id, ok := x.Fun.(*ast.Ident); ok && id.Name == "make" && len(x.Args) >= 1 {
			_, ok := x.Args[0].(*ast.MapType)
			return ok
		}
	}
	return false
}

// a range loop as a state transformer ("" = no effect inside the model)
func (t *chanTr) rangeState(rs *ast.RangeStmt, ind string) (string, error) {
	if containsReturn(rs.Body) {
		return "", fmt.Errorf("%s: return inside a range loop used as a state block", t.method)
	}
	name := func(e ast.Expr) string {
		if id, ok := e.(*ast.Ident); ok {
			return id.Name
		}
		return "_"
	}
	k, v := "_", "_"
	if rs.Key != nil {
		k = name(rs.Key)
	}
	if rs.Value != nil {
		v = name(rs.Value)
	}
	// over a parameter
	if id, ok := rs.X.(*ast.Ident); ok {
		switch t.params[id.Name] {
		case "kvlist":
			if closesOnly(rs.Body.List, v) {
				return "", nil
			}
			body, err := t.state(rs.Body.List, true, ind+"    ")
			if err != nil {
				return "", err
			}
			kk, vv := k, v
			if kk == "_" {
				kk = "_k"
			}
			if vv == "_" {
				vv = "_v"
			}
			return "fold_left (fun ch kv => let " + kk + " := fst kv in let " + vv + " := snd kv in\n" + ind + "    " + body + ") " + id.Name + " ch", nil
		case "keylist":
			body, err := t.state(rs.Body.List, true, ind+"    ")
			if err != nil {
				return "", err
			}
			return "fold_left (fun ch " + v + " =>\n" + ind + "    " + body + ") " + id.Name + " ch", nil
		}
		return "", fmt.Errorf("%s: range over %s", t.method, id.Name)
	}
	// over a field of the receiver
	f, ok := t.fieldOf(rs.X)
	if !ok {
		return "", fmt.Errorf("%s: range over %s", t.method, types.ExprString(rs.X))
	}
	// for k := range ch.M { ch.M[k] = const }
	if len(rs.Body.List) == 1 && v == "_" && k != "_" {
		if as, ok := rs.Body.List[0].(*ast.AssignStmt); ok && len(as.Lhs) == 1 && as.Tok == token.ASSIGN {
			if ix, ok := as.Lhs[0].(*ast.IndexExpr); ok {
				if f2, ok := t.fieldOf(ix.X); ok && f2 == f && name(ix.Index) == k {
					c, err := t.val(as.Rhs[0])
					if err != nil {
						return "", err
					}
					return t.set(f, "(m_setall "+c+" "+t.get(f)+")"), nil
				}
			}
		}
	}
	// for k, v := range ch.M { if sr, ok := v.(streamReader); ok { sr.close(); delete(ch.M, k) } }
	if len(rs.Body.List) == 1 && k != "_" && v != "_" {
		if is, ok := rs.Body.List[0].(*ast.IfStmt); ok && is.Init != nil && is.Else == nil {
			if sv, okn, ok := streamAssertOk(is.Init); ok && sv == v && types.ExprString(is.Cond) == okn {
				del := false
				for _, s := range is.Body.List {
					if call, ok := isCallNamed(s, "delete"); ok && len(call.Args) == 2 {
						if f2, ok := t.fieldOf(call.Args[0]); ok && f2 == f && name(call.Args[1]) == k {
							del = true
							continue
						}
						return "", fmt.Errorf("%s: delete of another map or key", t.method)
					}
					if es, ok := s.(*ast.ExprStmt); ok {
						if call, ok := es.X.(*ast.CallExpr); ok {
							if sel, ok := call.Fun.(*ast.SelectorExpr); ok && sel.Sel.Name == "close" {
								continue
							}
						}
					}
					return "", fmt.Errorf("%s: statement in the close-and-delete loop not recognised", t.method)
				}
				if del {
					return t.set(f, "(m_del_if is_stream "+t.get(f)+")"), nil
				}
				return "", nil
			}
		}
	}
	return "", fmt.Errorf("%s: range over field %s: body not recognised", t.method, f)
}

// body = { if sr, ok := v.(streamReader); ok { sr.close() } }
func closesOnly(l []ast.Stmt, v string) bool {
	if len(l) != 1 {
		return false
	}
	is, ok := l[0].(*ast.IfStmt)
	if !ok || is.Init == nil || is.Else != nil || len(is.Body.List) != 1 {
		return false
	}
	sv, ok := streamAssert(is.Init)
	if !ok || sv != v {
		return false
	}
	es, ok := is.Body.List[0].(*ast.ExprStmt)
	if !ok {
		return false
	}
	call, ok := es.X.(*ast.CallExpr)
	if !ok {
		return false
	}
	sel, ok := call.Fun.(*ast.SelectorExpr)
	return ok && sel.Sel.Name == "close"
}

// the value a return statement yields, by result shape of the method
func (t *chanTr) retExpr(r *ast.ReturnStmt) (string, error) {
	st := "ch"
	if t.deferred != "" {
		st = "(" + t.deferred + " ch)"
	}
	switch t.retKind {
	case "bool":
		if len(r.Results) == 1 && t.deferred == "" {
			return t.cond(r.Results[0])
		}
	case "state":
		if len(r.Results) == 0 || (len(r.Results) == 1 && isNil(r.Results[0])) {
			return st, nil
		}
	case "state_bool":
		if len(r.Results) == 1 {
			b, err := t.cond(r.Results[0])
			if err != nil {
				return "", err
			}
			return "(" + st + ", " + b + ")", nil
		}
	case "get":
		if len(r.Results) == 3 {
			v, okb, e := r.Results[0], types.ExprString(r.Results[1]), r.Results[2]
			switch {
			case isNil(v) && okb == "false" && isNil(e):
				return "(" + st + ", Ok None)", nil
			case isNil(v) && okb == "false" && t.mergeErr != "" && types.ExprString(e) == t.mergeErr:
				return "(" + st + ", merr)", nil // only reached in the error branch of mergeValues, see below
			case okb == "true" && isNil(e):
				ve, err := t.getVal(v)
				if err != nil {
					return "", err
				}
				return "(" + st + ", Ok (Some " + ve + "))", nil
			}
		}
	}
	return "", fmt.Errorf("%s: return %s not recognised", t.method, squash(exprList(r.Results)))
}

func exprList(l []ast.Expr) string {
	var s []string
	for _, e := range l {
		s = append(s, types.ExprString(e))
	}
	return strings.Join(s, ",")
}

// values returned by get
func (t *chanTr) getVal(e ast.Expr) (string, error) {
	switch x := e.(type) {
	case *ast.Ident:
		if t.mergeVal != "" && x.Name == t.mergeVal {
			return x.Name, nil
		}
	case *ast.IndexExpr:
		if id, ok := x.X.(*ast.Ident); ok && t.locals[id.Name] == "vlist" {
			if bl, ok := x.Index.(*ast.BasicLit); ok && bl.Value == "0" {
				return "(hd zero_value " + id.Name + ")", nil
			}
		}
	case *ast.CallExpr:
		switch squash(types.ExprString(x.Fun)) {
		case t.recv + ".zeroValue":
			return "zero_value", nil
		case t.recv + ".emptyStream":
			return "empty_stream", nil
		}
	}
	return "", fmt.Errorf("%s: returned value %s not recognised", t.method, types.ExprString(e))
}

// a statement list every path of which returns
func (t *chanTr) body(l []ast.Stmt, ind string) (string, error) {
	if len(l) == 0 {
		if t.retKind == "state" {
			return "ch", nil // a method without result may fall off its end
		}
		return "", fmt.Errorf("%s: control reaches the end without a return", t.method)
	}
	rest := func() (string, error) { return t.body(l[1:], ind) }
	switch x := l[0].(type) {
	case *ast.ReturnStmt:
		return t.retExpr(x)
	case *ast.DeferStmt:
		fl, ok := x.Call.Fun.(*ast.FuncLit)
		if !ok || len(x.Call.Args) != 0 || t.deferred != "" {
			return "", fmt.Errorf("%s: defer not recognised", t.method)
		}
		d, err := t.state(fl.Body.List, false, ind+"    ")
		if err != nil {
			return "", err
		}
		t.deferred = "deferred"
		r, err := rest()
		return "let deferred := (fun ch : chan V =>\n" + ind + "    " + d + ") in\n" + ind + r, err
	case *ast.IfStmt:
		if !containsReturn(x) {
			// a state transformer (with or without else)
			s, err := t.state(l[:1], false, ind)
			if err != nil {
				return "", err
			}
			r, err := rest()
			return strings.TrimSuffix(s, "ch") + r, err
		}
		c, err := t.ifCond(x)
		if err != nil {
			return "", err
		}
		if alwaysReturns(x.Body.List) {
			// a defer registered inside the arm is in force on the paths through the arm only
			saved := t.deferred
			th, err := t.body(x.Body.List, ind+"  ")
			t.deferred = saved
			if err != nil {
				return "", err
			}
			var el string
			if x.Else != nil {
				// (only with an init statement: the normalisation hoists the else of a plain if) both arms return, or
				// the else arm goes on with the rest of the method
				eb, ok := x.Else.(*ast.BlockStmt)
				if !ok {
					return "", fmt.Errorf("%s: else-if after a returning if", t.method)
				}
				el, err = t.body(append(append([]ast.Stmt{}, eb.List...), l[1:]...), ind+"  ")
			} else {
				el, err = rest()
			}
			if err != nil {
				return "", err
			}
			return "if " + c + " then " + paren(th) + "\n" + ind + "else " + el, nil
		}
		return "", fmt.Errorf("%s: if that returns on some paths only", t.method)
	case *ast.RangeStmt:
		// search loop: for _, s := range ch.M { if C(s) { return R } }
		if f, ok := t.fieldOf(x.X); ok && containsReturn(x.Body) {
			if len(x.Body.List) == 1 {
				if is, ok := x.Body.List[0].(*ast.IfStmt); ok && is.Init == nil && is.Else == nil && len(is.Body.List) == 1 {
					if ret, ok := is.Body.List[0].(*ast.ReturnStmt); ok {
						sv, ok := x.Value.(*ast.Ident)
						if !ok {
							return "", fmt.Errorf("%s: search loop without value variable", t.method)
						}
						c, err := t.searchCond(is.Cond, sv.Name)
						if err != nil {
							return "", err
						}
						re, err := t.retExpr(ret)
						if err != nil {
							return "", err
						}
						r, err := rest()
						return "if m_any (fun " + sv.Name + " => " + c + ") " + t.get(f) + " then " + re + "\n" + ind + "else " + r, err
					}
				}
			}
			return "", fmt.Errorf("%s: range loop with a return: body not recognised", t.method)
		}
		// flag loop: for _, s := range ch.M { if C(s) { flag = false; break } }
		if f, ok := t.fieldOf(x.X); ok && len(x.Body.List) == 1 {
			if is, ok := x.Body.List[0].(*ast.IfStmt); ok && is.Init == nil && is.Else == nil && len(is.Body.List) == 2 {
				as, ok1 := is.Body.List[0].(*ast.AssignStmt)
				br, ok2 := is.Body.List[1].(*ast.BranchStmt)
				if ok1 && ok2 && br.Tok == token.BREAK && as.Tok == token.ASSIGN && len(as.Lhs) == 1 {
					fl, ok := as.Lhs[0].(*ast.Ident)
					sv, ok3 := x.Value.(*ast.Ident)
					if ok && ok3 && t.locals[fl.Name] == "bool" && types.ExprString(as.Rhs[0]) == "false" {
						c, err := t.searchCond(is.Cond, sv.Name)
						if err != nil {
							return "", err
						}
						r, err := rest()
						return "let " + fl.Name + " := " + fl.Name + " && negb (m_any (fun " + sv.Name + " => " + c + ") " + t.get(f) + ") in\n" + ind + r, err
					}
				}
			}
		}
		// collect loop: for _, v := range ch.M { l = append(l, v) }
		if f, ok := t.fieldOf(x.X); ok && len(x.Body.List) == 1 {
			if as, ok := x.Body.List[0].(*ast.AssignStmt); ok && as.Tok == token.ASSIGN && len(as.Lhs) == 1 {
				if l0, ok := as.Lhs[0].(*ast.Ident); ok && t.locals[l0.Name] == "vlist" {
					if sv, ok := x.Value.(*ast.Ident); ok && squash(types.ExprString(as.Rhs[0])) == "append("+l0.Name+","+sv.Name+")" {
						r, err := rest()
						return "let " + l0.Name + " := " + l0.Name + " ++ m_vals " + t.get(f) + " in\n" + ind + r, err
					}
				}
			}
		}
		s, err := t.rangeState(x, ind)
		if err != nil {
			return "", err
		}
		r, err := rest()
		if s == "" {
			return r, err
		}
		return "let ch := " + s + " in\n" + ind + r, err
	case *ast.AssignStmt:
		// flag := true  |  l := make([]any, 0, …)  |  v, err := mergeValues(l)
		if x.Tok == token.DEFINE && len(x.Lhs) == 1 && len(x.Rhs) == 1 {
			id, isId := x.Lhs[0].(*ast.Ident)
			if !isId {
				return "", fmt.Errorf("%s: definition of %s", t.method, types.ExprString(x.Lhs[0]))
			}
			if b := types.ExprString(x.Rhs[0]); b == "true" || b == "false" {
				t.locals[id.Name] = "bool"
				r, err := rest()
				return "let " + id.Name + " := " + b + " in\n" + ind + r, err
			}
			if call, ok := x.Rhs[0].(*ast.CallExpr); ok {
				if f, ok := call.Fun.(*ast.Ident); ok && f.Name == "make" && len(call.Args) >= 2 && types.ExprString(call.Args[1]) == "0" {
					if _, ok := call.Args[0].(*ast.ArrayType); ok {
						t.locals[id.Name] = "vlist"
						r, err := rest()
						return "let " + id.Name + " := @nil V in\n" + ind + r, err
					}
				}
			}
		}
		if mv, me, ok := chanTwoNames(x); ok && x.Tok == token.DEFINE && len(x.Rhs) == 1 {
			if call, ok := x.Rhs[0].(*ast.CallExpr); ok && types.ExprString(call.Fun) == "mergeValues" && len(call.Args) == 1 {
				if a, ok := call.Args[0].(*ast.Ident); ok && t.locals[a.Name] == "vlist" {
					t.mergeVal, t.mergeErr = mv, me
					// v, err := mergeValues(l); if err != nil { return nil, false, err }; return v, true, nil
					if len(l) == 3 {
						is, ok1 := l[1].(*ast.IfStmt)
						ret, ok2 := l[2].(*ast.ReturnStmt)
						if ok1 && ok2 && is.Init == nil && is.Else == nil && squash(types.ExprString(is.Cond)) == me+"!=nil" && len(is.Body.List) == 1 {
							if eret, ok := is.Body.List[0].(*ast.ReturnStmt); ok {
								ee, err := t.retExpr(eret)
								if err != nil {
									return "", err
								}
								oe, err := t.retExpr(ret)
								if err != nil {
									return "", err
								}
								// the error return hands the state on WITHOUT the value; both go through the deferred reset
								return "match merge_values " + a.Name + " with\n" + ind + "| Ok " + mv + " => " + oe + "\n" + ind + "| Err e => let merr := @Err (option V) e in " + ee + "\n" + ind + "| Panic => let merr := @Panic (option V) in " + ee + "\n" + ind + "end", nil
							}
						}
					}
				}
			}
		}
		// state assignments
		s, err := t.state(l[:1], false, ind)
		if err != nil {
			return "", err
		}
		r, err := rest()
		return strings.TrimSuffix(s, "ch") + r, err
	}
	return "", fmt.Errorf("%s: statement not recognised", t.method)
}

// the two names on the left of `v, err := …`
func chanTwoNames(as *ast.AssignStmt) (string, string, bool) {
	if len(as.Lhs) != 2 {
		return "", "", false
	}
	a, ok1 := as.Lhs[0].(*ast.Ident)
	b, ok2 := as.Lhs[1].(*ast.Ident)
	if !ok1 || !ok2 || a.Name == "_" || b.Name == "_" {
		return "", "", false
	}
	return a.Name, b.Name, true
}

// condition on the loop's value variable
func (t *chanTr) searchCond(e ast.Expr, sv string) (string, error) {
	switch x := e.(type) {
	case *ast.Ident:
		if x.Name == sv {
			return sv, nil
		}
	case *ast.UnaryExpr:
		if x.Op == token.NOT {
			if id, ok := x.X.(*ast.Ident); ok && id.Name == sv {
				return "negb " + sv, nil
			}
		}
	case *ast.BinaryExpr:
		if id, ok := x.X.(*ast.Ident); ok && id.Name == sv {
			if c, ok := t.consts[types.ExprString(x.Y)]; ok {
				switch x.Op {
				case token.EQL:
					return "dep_eqb " + sv + " " + c, nil
				case token.NEQ:
					return "negb (dep_eqb " + sv + " " + c + ")", nil
				}
			}
		}
	}
	return "", fmt.Errorf("%s: loop condition %s not recognised", t.method, types.ExprString(e))
}

func methodOf(f *ast.File, recvType, name string) *ast.FuncDecl {
	for _, d := range f.Decls {
		fn, ok := d.(*ast.FuncDecl)
		if !ok || fn.Recv == nil || fn.Name.Name != name || len(fn.Recv.List) != 1 {
			continue
		}
		if st, ok := fn.Recv.List[0].Type.(*ast.StarExpr); ok {
			if id, ok := st.X.(*ast.Ident); ok && id.Name == recvType {
				return fn
			}
		}
	}
	return nil
}

func extractChanCode(repo string) (string, string, error) {
	fset := token.NewFileSet()
	dag, err := parseGo(fset, repo, "compose", "dag.go")
	if err != nil {
		return "", "", err
	}
	pre, err := parseGo(fset, repo, "compose", "pregel.go")
	if err != nil {
		return "", "", err
	}
	// the constants of dependencyState must be the three the model knows, in iota order
	var dconsts []string
	for _, d := range dag.Decls {
		gd, ok := d.(*ast.GenDecl)
		if !ok || gd.Tok != token.CONST {
			continue
		}
		for _, sp := range gd.Specs {
			for _, n := range sp.(*ast.ValueSpec).Names {
				if strings.HasPrefix(n.Name, "dependencyState") {
					dconsts = append(dconsts, n.Name)
				}
			}
		}
	}
	if strings.Join(dconsts, ",") != "dependencyStateWaiting,dependencyStateReady,dependencyStateSkipped" {
		return "", "", fmt.Errorf("dependencyState constants are %v", dconsts)
	}
	consts := map[string]string{"dependencyStateWaiting": "Waiting", "dependencyStateReady": "Ready", "dependencyStateSkipped": "Skipped"}
	type m struct {
		file            *ast.File
		src             string
		typ, name, out  string
		retKind         string
		params          map[string]string
		sig             string
		fields          map[string]string
		paramNamesInSig []string
	}
	dagFields := map[string]string{"ControlPredecessors": "ctrl", "DataPredecessors": "data", "Skipped": "skipped", "Values": "vals"}
	preFields := map[string]string{"Values": "vals"}
	ms := []m{
		{dag, "dag.go", "dagChannel", "reportValues", "dag_reportValues", "state", map[string]string{"ins": "kvlist"}, "(ch : chan V) (ins : list (key * V)) : chan V", dagFields, []string{"ins"}},
		{dag, "dag.go", "dagChannel", "reportDependencies", "dag_reportDependencies", "state", map[string]string{"dependencies": "keylist"}, "(ch : chan V) (dependencies : list key) : chan V", dagFields, []string{"dependencies"}},
		{dag, "dag.go", "dagChannel", "reportSkip", "dag_reportSkip", "state_bool", map[string]string{"keys": "keylist"}, "(ch : chan V) (keys : list key) : chan V * bool", dagFields, []string{"keys"}},
		{dag, "dag.go", "dagChannel", "get", "dag_get", "get", map[string]string{"isStream": "bool"}, "(ch : chan V) (isStream : bool) : chan V * res (option V)", dagFields, []string{"isStream"}},
		{pre, "pregel.go", "pregelChannel", "reportValues", "pregel_reportValues", "state", map[string]string{"ins": "kvlist"}, "(ch : chan V) (ins : list (key * V)) : chan V", preFields, []string{"ins"}},
		{pre, "pregel.go", "pregelChannel", "get", "pregel_get", "get", map[string]string{}, "(ch : chan V) : chan V * res (option V)", preFields, []string{"isStream_"}},
	}
	var b strings.Builder
	b.WriteString("(* Gen/ChanCode.v — GENERATED by tools/go2v (extractor \"chancode\") from compose/dag.go and\n")
	b.WriteString("   compose/pregel.go (methods of dagChannel / pregelChannel, translated statement by statement).\n   Do not edit. *)\n")
	b.WriteString("From Eino Require Import Base.Util Model.Graph Model.ChanGenLib.\n\n")
	b.WriteString("Definition tie_available : bool := true.\n\n")
	b.WriteString("Section Gen.\n  Variable V : Type.\n  Variable is_stream : V -> bool.\n  Variable merge_values : list V -> res V.\n  Variables zero_value empty_stream : V.\n\n")
	for _, x := range ms {
		if fn := methodOf(x.file, x.typ, x.name); fn == nil || fn.Body == nil {
			return "", "", fmt.Errorf("method (*%s).%s not found", x.typ, x.name)
		}
		// a normalised copy of the method (chancode_norm.go): parameters named as in the signature above, helpers
		// inlined, switch / else-if / continue brought to one shape
		ctx := &chanNormCtx{path: filepath.Join(repo, "compose", x.src), recvType: x.typ}
		fn, err := ctx.method(x.name, x.paramNamesInSig)
		if err != nil {
			return "", "", err
		}
		recv := ctx.recv
		t := &chanTr{recv: recv, fields: x.fields, consts: consts, params: x.params, method: x.typ + "." + x.name,
			locals: map[string]string{}, retKind: x.retKind, ctx: ctx}
		code, err := t.body(fn.Body.List, "    ")
		if err != nil {
			return "", "", err
		}
		fmt.Fprintf(&b, "  Definition %s %s :=\n    %s.\n\n", x.out, x.sig, code)
	}
	b.WriteString("End Gen.\n")
	return "ChanCode.v", b.String(), nil
}
