package main

// Property C14, statement-level translators: private helpers called once are inlined before translating.
//
// A maintainer who moves a few statements of a translated function into a private helper of the same file
// (nonNilVals := dropNil(anyVals)) has not changed what the function computes; without this pass the call is
// outside the translated fragment and the tie of the whole file is reported unavailable.  c14InlineHelpers
// rewrites, inside the functions named in keep (the translated functions),
//
//	x := h(a, b)    x = h(a, b)    var-free single call on the right, one value on the left
//	h(a, b)                        as a statement, h without results
//
// into the helper's statements followed by `x := <returned expression>`, when
//   - h is an unexported top-level function of the same file that is not in keep, without receiver, type parameters, named
//     results or variadic parameter, with at most one result, called exactly once in the file;
//   - its body contains no defer / go / label / goto / function literal, and its only return is its last statement;
//   - it never assigns to a parameter or takes its address (a field written through a pointer parameter is allowed),
//     and every argument of the call is an identifier or a selector chain x.f.g (substituted for the parameter).
// Parameters are replaced by the argument identifiers, the helper's locals get a suffix that cannot clash.  The
// result is ordinary Go AST: whether the translator recognises it is decided afterwards, as for any source.
// Anything else is left alone (and the translator then says "outside the translated fragment").

import (
	"fmt"
	"go/ast"
	"go/token"
	"reflect"
)

func c14InlineHelpers(f *ast.File, keep map[string]bool) {
	for round := 0; round < 4; round++ {
		if !c14InlineOnce(f, keep, round) {
			return
		}
	}
}

func c14InlineOnce(f *ast.File, keep map[string]bool, round int) bool {
	helpers := map[string]*ast.FuncDecl{}
	for _, d := range f.Decls {
		if fn, ok := d.(*ast.FuncDecl); ok && fn.Recv == nil && fn.Body != nil && !keep[fn.Name.Name] && !ast.IsExported(fn.Name.Name) && c14Inlinable(fn) {
			helpers[fn.Name.Name] = fn
		}
	}
	if len(helpers) == 0 {
		return false
	}
	// call counts over the whole file
	calls := map[string]int{}
	ast.Inspect(f, func(n ast.Node) bool {
		if c, ok := n.(*ast.CallExpr); ok {
			if id, ok := c.Fun.(*ast.Ident); ok {
				calls[id.Name]++
			}
		}
		return true
	})
	changed := false
	serial := 0
	var doList func(l []ast.Stmt) []ast.Stmt
	doList = func(l []ast.Stmt) []ast.Stmt {
		var out []ast.Stmt
		for _, s := range l {
			var call *ast.CallExpr
			var lhs ast.Expr
			tok := token.DEFINE
			switch x := s.(type) {
			case *ast.AssignStmt:
				if len(x.Lhs) == 1 && len(x.Rhs) == 1 && (x.Tok == token.DEFINE || x.Tok == token.ASSIGN) {
					call, _ = x.Rhs[0].(*ast.CallExpr)
					lhs, tok = x.Lhs[0], x.Tok
				}
			case *ast.ExprStmt:
				call, _ = x.X.(*ast.CallExpr)
			}
			if call != nil {
				if id, ok := call.Fun.(*ast.Ident); ok {
					if h := helpers[id.Name]; h != nil && calls[id.Name] == 1 {
						serial++
						if body, ok := c14InlineCall(h, call, lhs, tok, fmt.Sprintf("_h%d_%d", round, serial)); ok {
							out = append(out, body...)
							changed = true
							continue
						}
					}
				}
			}
			out = append(out, s)
		}
		return out
	}
	for _, d := range f.Decls {
		fn, ok := d.(*ast.FuncDecl)
		if !ok || fn.Body == nil || !keep[fn.Name.Name] {
			continue
		}
		ast.Inspect(fn.Body, func(n ast.Node) bool {
			switch x := n.(type) {
			case *ast.BlockStmt:
				x.List = doList(x.List)
			case *ast.CaseClause:
				x.Body = doList(x.Body)
			}
			return true
		})
	}
	return changed
}

// c14Inlinable: the shape of a helper this pass can splice in
func c14Inlinable(fn *ast.FuncDecl) bool {
	if fn.Type.TypeParams != nil {
		return false
	}
	params := map[string]bool{}
	ptrParam := map[string]bool{} // declared *T: a write p.f = e in the helper is the write (arg).f = e at the call site
	if fn.Type.Params != nil {
		for _, fl := range fn.Type.Params.List {
			if _, variadic := fl.Type.(*ast.Ellipsis); variadic || len(fl.Names) == 0 {
				return false
			}
			_, isPtr := fl.Type.(*ast.StarExpr)
			for _, n := range fl.Names {
				params[n.Name] = true
				ptrParam[n.Name] = isPtr
			}
		}
	}
	nres := 0
	if fn.Type.Results != nil {
		for _, fl := range fn.Type.Results.List {
			if len(fl.Names) != 0 {
				return false
			}
			nres++
		}
	}
	if nres > 1 || len(fn.Body.List) == 0 {
		return false
	}
	last := len(fn.Body.List) - 1
	if nres == 1 {
		r, ok := fn.Body.List[last].(*ast.ReturnStmt)
		if !ok || len(r.Results) != 1 {
			return false
		}
	}
	ok := true
	rootIsParam := func(e ast.Expr) bool {
		id := c14StateRoot(e)
		return id != nil && params[id.Name]
	}
	ast.Inspect(fn.Body, func(n ast.Node) bool {
		switch x := n.(type) {
		case *ast.DeferStmt, *ast.GoStmt, *ast.LabeledStmt, *ast.FuncLit, *ast.SelectStmt:
			ok = false
		case *ast.BranchStmt:
			if x.Tok == token.GOTO || x.Label != nil {
				ok = false
			}
		case *ast.ReturnStmt:
			if x != fn.Body.List[last] {
				ok = false
			}
		case *ast.AssignStmt:
			for _, l := range x.Lhs {
				if id, isId := l.(*ast.Ident); isId && params[id.Name] {
					ok = false // a parameter re-assigned (x.Tok == DEFINE shadows it: not handled either)
				}
				if x.Tok != token.DEFINE && rootIsParam(l) {
					// a field written through a pointer parameter is fine; anything else (an element of a slice
					// parameter, a field of a struct passed by value) is not
					sel, isSel := l.(*ast.SelectorExpr)
					base, _ := func() (*ast.Ident, bool) {
						if !isSel {
							return nil, false
						}
						id, k := sel.X.(*ast.Ident)
						return id, k
					}()
					if base == nil || !ptrParam[base.Name] {
						ok = false
					}
				}
			}
		case *ast.IncDecStmt:
			if rootIsParam(x.X) {
				ok = false
			}
		case *ast.UnaryExpr:
			if x.Op == token.AND && rootIsParam(x.X) {
				ok = false
			}
		case *ast.CallExpr:
			if id, isId := x.Fun.(*ast.Ident); isId && id.Name == fn.Name.Name {
				ok = false // recursive
			}
		}
		return ok
	})
	return ok
}

// c14InlineCall: the statements that replace `lhs tok h(args)` (the helper's AST is consumed: it is called once)
func c14InlineCall(h *ast.FuncDecl, call *ast.CallExpr, lhs ast.Expr, tok token.Token, suffix string) ([]ast.Stmt, bool) {
	var pnames []string
	if h.Type.Params != nil {
		for _, fl := range h.Type.Params.List {
			for _, n := range fl.Names {
				pnames = append(pnames, n.Name)
			}
		}
	}
	if len(pnames) != len(call.Args) {
		return nil, false
	}
	ren := map[string]string{}
	subst := map[string]ast.Expr{} // parameter -> selector chain x.f.g (pure: evaluated where the parameter is used)
	for i, a := range call.Args {
		if pnames[i] == "_" {
			continue
		}
		switch x := a.(type) {
		case *ast.Ident:
			ren[pnames[i]] = x.Name
		case *ast.SelectorExpr:
			if !c14PureChain(x) {
				return nil, false
			}
			subst[pnames[i]] = x
		default:
			return nil, false
		}
	}
	if len(subst) > 0 {
		// the caller's variables the chains start at must not be shadowed by a local of the helper
		loc := c14StateLocals(h)
		for _, e := range subst {
			if id := c14StateRoot(e); id == nil || loc[id.Name] {
				return nil, false
			}
		}
	}
	hasResult := h.Type.Results != nil && len(h.Type.Results.List) == 1
	if hasResult != (lhs != nil) {
		if hasResult {
			return nil, false // result dropped: h(..) as a statement
		}
		return nil, false
	}
	// the helper's locals
	for name := range c14StateLocals(h) {
		_, isParam := ren[name]
		_, isSubst := subst[name]
		if !isParam && !isSubst && name != "_" {
			ren[name] = name + suffix
		}
	}
	notVar := map[*ast.Ident]bool{}
	ast.Inspect(h.Body, func(n ast.Node) bool {
		switch x := n.(type) {
		case *ast.SelectorExpr:
			notVar[x.Sel] = true
		case *ast.KeyValueExpr:
			if id, ok := x.Key.(*ast.Ident); ok {
				notVar[id] = true
			}
		}
		return true
	})
	ast.Inspect(h.Body, func(n ast.Node) bool {
		if id, ok := n.(*ast.Ident); ok && !notVar[id] {
			if r, ok := ren[id.Name]; ok {
				id.Name = r
			}
		}
		return true
	})
	if len(subst) > 0 {
		c14SubstIdents(h.Body, subst, notVar)
	}
	stmts := h.Body.List
	if hasResult {
		ret := stmts[len(stmts)-1].(*ast.ReturnStmt)
		stmts = append(append([]ast.Stmt{}, stmts[:len(stmts)-1]...), &ast.AssignStmt{Lhs: []ast.Expr{lhs}, Tok: tok, Rhs: []ast.Expr{ret.Results[0]}})
	}
	return stmts, true
}

// c14PureChain: x.f.g with x an identifier
func c14PureChain(e ast.Expr) bool {
	for {
		switch x := e.(type) {
		case *ast.Ident:
			return true
		case *ast.SelectorExpr:
			e = x.X
		default:
			return false
		}
	}
}

// c14SubstIdents replaces, below root, every identifier named in subst (and not a field name / literal key) by
// the expression given for it.  Generic over the ast node types: every struct field of interface type ast.Expr
// and every element of a []ast.Expr is looked at.
func c14SubstIdents(root ast.Node, subst map[string]ast.Expr, notVar map[*ast.Ident]bool) {
	repl := func(e ast.Expr) ast.Expr {
		if id, ok := e.(*ast.Ident); ok && !notVar[id] {
			if r, ok := subst[id.Name]; ok {
				return r
			}
		}
		return e
	}
	exprType := reflect.TypeOf((*ast.Expr)(nil)).Elem()
	ast.Inspect(root, func(n ast.Node) bool {
		if n == nil {
			return true
		}
		v := reflect.ValueOf(n)
		if v.Kind() != reflect.Ptr || v.IsNil() || v.Elem().Kind() != reflect.Struct {
			return true
		}
		if sel, ok := n.(*ast.SelectorExpr); ok {
			sel.X = repl(sel.X) // never the field name
			return true
		}
		s := v.Elem()
		for i := 0; i < s.NumField(); i++ {
			f := s.Field(i)
			switch {
			case f.Type() == exprType && !f.IsNil():
				if e, ok := f.Interface().(ast.Expr); ok {
					if r := repl(e); r != e {
						f.Set(reflect.ValueOf(r))
					}
				}
			case f.Kind() == reflect.Slice && f.Type().Elem() == exprType:
				for j := 0; j < f.Len(); j++ {
					if e, ok := f.Index(j).Interface().(ast.Expr); ok && e != nil {
						if r := repl(e); r != e {
							f.Index(j).Set(reflect.ValueOf(r))
						}
					}
				}
			}
		}
		return true
	})
}
