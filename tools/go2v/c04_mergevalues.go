package main

// Extractor "c04mergevalues" (property C04): compose/utils.go mergeValues — the dispatch of a fan-in
// between mergeMap (plain values) and the stream merge (readers), translated statement by statement
// (compiler: c04_frag.go; vocabulary: coq/Model/C04GenLib.v) -> Gen/C04MergeValues.v.
// Proofs/GenAgreeC04MergeValues.v proves: a list of map values goes to mergeMap; a list of readers of
// one map chunk type is merged as `first.merge(the others, in order)`; everything else is a type error.

import (
	"fmt"
	"go/ast"
	"go/token"
	"go/types"
	"strings"
)

func init() {
	register("c04mergevalues", c04ExtractMergeValues)
	registerFallback("c04mergevalues", "C04MergeValues.v", c04NeutralMergeValues)
}

var c04MergeValuesErrMsgs = map[string]string{
	"unsupported chunk type": "e_type",
	"unexpected type":        "e_type",
	"chunk type mismatch":    "e_type",
	"unsupported type":       "e_type",
}

const c04MergeValuesDef = "Definition mergeValues (merge_map : list gval -> res gval) (cty : stream val -> N) (cty_is_map : N -> bool)\n" +
	"  (reader_merge : stream val -> list (stream val) -> stream val) (vs : list gval) : res gval :=\n "

func c04ExtractMergeValues(repo string) (string, string, error) {
	fset := token.NewFileSet()
	f, err := c04ParseGo(fset, repo, "compose", "utils.go")
	if err != nil {
		return "", "", err
	}
	fn := c04TopFunc(f, "mergeValues")
	if fn == nil || fn.Body == nil {
		return "", "", fmt.Errorf("func mergeValues not found")
	}
	ps := c04ParamNames(fn.Type)
	if len(ps) != 1 {
		return "", "", fmt.Errorf("mergeValues: %d parameters", len(ps))
	}
	// what a Go expression of this function denotes: a graph value (gval), its reflect.Value / reflect.Type
	// (represented by the value itself), a reader (stream val), a chunk type (N)
	kind := map[string]string{}                                 // Gallina name -> "g" | "r"
	call0 := func(e ast.Expr, method string) (ast.Expr, bool) { // X.method()
		c, ok := e.(*ast.CallExpr)
		if !ok || len(c.Args) != 0 {
			return nil, false
		}
		sel, ok := c.Fun.(*ast.SelectorExpr)
		if !ok || sel.Sel.Name != method {
			return nil, false
		}
		return sel.X, true
	}
	t := &c04Tr{name: "mergeValues", ret: c04RetRes, files: []*ast.File{f}, made: map[string]string{}}
	t.errClass = func(t *c04Tr, env *c04Env, e ast.Expr) (string, bool) { return c04MsgClass(e, c04MergeValuesErrMsgs) }
	t.tailCall = func(t *c04Tr, env *c04Env, call *ast.CallExpr) (string, bool, error) {
		if c04IsIdent(call.Fun, "mergeMap") && len(call.Args) == 1 {
			pre, g, err := t.expr(env, call.Args[0])
			if err != nil {
				return "", false, err
			}
			return c04Binds(pre, "merge_map "+g), true, nil
		}
		return "", false, nil
	}
	t.exprHook = func(t *c04Tr, env *c04Env, e ast.Expr) ([]string, string, bool, error) {
		if c04IsIdent(e, "nil") {
			return nil, "", false, t.errf("nil used as data")
		}
		if c, ok := e.(*ast.CallExpr); ok && c04CallIs(c, "reflect.ValueOf") && len(c.Args) == 1 {
			pre, g, err := t.expr(env, c.Args[0]) // the reflect.Value of x: x
			return pre, g, err == nil, err
		}
		if x, ok := call0(e, "Type"); ok { // the reflect.Type of a reflect.Value: still the value
			pre, g, err := t.expr(env, x)
			return pre, g, err == nil, err
		}
		if x, ok := call0(e, "getChunkType"); ok {
			pre, g, err := t.expr(env, x)
			if err != nil {
				return nil, "", false, err
			}
			return pre, "(cty " + g + ")", true, nil
		}
		if x, ok := call0(e, "Kind"); ok {
			// the kind is only ever compared with reflect.Map: represent it by that comparison
			if inner, ok := call0(x, "getChunkType"); ok {
				pre, g, err := t.expr(env, inner)
				if err != nil {
					return nil, "", false, err
				}
				return pre, "(cty_is_map (cty " + g + "))", true, nil
			}
			pre, g, err := t.expr(env, x)
			if err != nil {
				return nil, "", false, err
			}
			return pre, "(g_is_map " + g + ")", true, nil
		}
		// s.merge(ss)
		if c, ok := e.(*ast.CallExpr); ok && len(c.Args) == 1 {
			if sel, ok := c.Fun.(*ast.SelectorExpr); ok && sel.Sel.Name == "merge" {
				p1, a, err := t.expr(env, sel.X)
				if err != nil {
					return nil, "", false, err
				}
				p2, b, err := t.expr(env, c.Args[0])
				if err != nil {
					return nil, "", false, err
				}
				return append(p1, p2...), "(GS (reader_merge " + a + " " + b + "))", true, nil
			}
		}
		return nil, "", false, nil
	}
	t.condHook = func(t *c04Tr, env *c04Env, e ast.Expr) (string, bool, error) {
		be, ok := e.(*ast.BinaryExpr)
		if !ok || (be.Op != token.EQL && be.Op != token.NEQ) {
			return "", false, nil
		}
		wrap := func(g string) string {
			if be.Op == token.NEQ {
				return "(negb " + g + ")"
			}
			return g
		}
		isMapConst := func(e ast.Expr) bool { return types.ExprString(e) == "reflect.Map" }
		a, b := be.X, be.Y
		if isMapConst(a) {
			a, b = b, a
		}
		if isMapConst(b) {
			// K == reflect.Map where K is a kind (an expression the vocabulary represents by "is a map")
			pre, g, err := t.expr(env, a)
			if err != nil || len(pre) != 0 {
				return "", false, err
			}
			if !strings.HasPrefix(g, "(g_is_map ") && !strings.HasPrefix(g, "(cty_is_map ") && kind[g] != "k" {
				return "", false, nil
			}
			return wrap(g), true, nil
		}
		// chunk types compared with each other
		_, ca := call0(a, "getChunkType")
		_, cb := call0(b, "getChunkType")
		if ca && cb {
			p1, ga, err := t.expr(env, a)
			if err != nil {
				return "", false, err
			}
			p2, gb, err := t.expr(env, b)
			if err != nil || len(p1)+len(p2) != 0 {
				return "", false, err
			}
			return wrap("(N.eqb " + ga + " " + gb + ")"), true, nil
		}
		return "", false, nil
	}
	t.multiHook = func(t *c04Tr, env *c04Env, rhs ast.Expr, lhs []string) (*c04Multi, bool, error) {
		if ta, ok := rhs.(*ast.TypeAssertExpr); ok && types.ExprString(ta.Type) == "streamReader" {
			pre, g, err := t.expr(env, ta.X)
			if err != nil {
				return nil, false, err
			}
			return c04OptMulti("stream_of "+g, lhs, pre), true, nil
		}
		return nil, false, nil
	}
	env := newC04Env()
	env.set(ps[0], "vs")
	// k0 := t0.Kind() binds a boolean ("is a map"): remember the Gallina names bound to kinds
	ast.Inspect(fn.Body, func(n ast.Node) bool {
		as, ok := n.(*ast.AssignStmt)
		if !ok || len(as.Lhs) != 1 || len(as.Rhs) != 1 {
			return true
		}
		if _, isKind := call0(as.Rhs[0], "Kind"); isKind {
			if id, ok := as.Lhs[0].(*ast.Ident); ok {
				kind[c04Name(id.Name)] = "k"
			}
		}
		return true
	})
	body, err := t.stmts(env, fn.Body.List, func(*c04Env) (string, error) {
		return "", fmt.Errorf("mergeValues: control reaches the end without a return")
	})
	if err != nil {
		return "", "", err
	}
	var b strings.Builder
	b.WriteString(c04Header("C04MergeValues.v", "c04mergevalues", "compose/utils.go (func mergeValues)"))
	b.WriteString("Definition tie_available : bool := true.\n\n")
	b.WriteString("(* merge_map = mergeMap on the values; cty s = the chunk type of the reader s, cty_is_map = it is a map type;\n   reader_merge s ss = s.merge(ss) *)\n")
	b.WriteString(c04MergeValuesDef + body + ".\n")
	return "C04MergeValues.v", b.String(), nil
}

const c04NeutralMergeValues = `(* Gen/C04MergeValues.v — translator tie UNAVAILABLE: tools/go2v (extractor "c04mergevalues") did not recognise the shape of the
   source; this is the frozen translation of the source the extractor was written for. *)
From Eino Require Import Base.Util Model.Paradigm Model.StreamOps Model.C04GenLib.

Definition tie_available : bool := false.

(* merge_map = mergeMap on the values; cty s = the chunk type of the reader s, cty_is_map = it is a map type;
   reader_merge s ss = s.merge(ss) *)
Definition mergeValues (merge_map : list gval -> res gval) (cty : stream val -> N) (cty_is_map : N -> bool)
  (reader_merge : stream val -> list (stream val) -> stream val) (vs : list gval) : res gval :=
 do x1 <- go_idx vs 0; let v0_ := x1 in
 let t0_ := v0_ in
 let k0_ := (g_is_map t0_) in
 (if k0_
 then merge_map vs
 else do x2 <- go_idx vs 0; (match stream_of x2 with
 | Some s_ => (if (negb (cty_is_map (cty s_)))
 then Err e_type
 else do ss_ <- res_mapM (fun i_ =>
 do x3 <- go_idx vs (i_ + 1); (match stream_of x3 with
 | Some s__ => (if (negb (N.eqb (cty s__) (cty s_)))
 then Err e_type
 else Ok s__)
 | None => Err e_type
 end)) (seq 0 ((List.length vs) - 1));
 let ms_ := (GS (reader_merge s_ ss_)) in
 Ok ms_)
 | None => Err e_type
 end)).
`
