package main

// Extractor "c15_validate" (property C15): compose/field_mapping.go — the static validation of the field mappings of
// one edge and the run-time checkers it installs:
//     isFromAll, isToAll            (a loop that returns true at the first mapping with an empty from / to path)
//     validateStructOrMap           (a switch over the kind)
//     validateFieldMapping          the chain of tests in front, the loop over the mappings (both paths walked with
//                                   checkAndExtractFieldType / extractFieldType, whose translation Gen/C15FieldType.v is
//                                   used; intermediate-interface cases; checkAssignable; which mapping gets a run-time
//                                   checker, for which successor field type), the two checker closures, and the combined
//                                   checker that applies them to the keys present in the map of mapped values
// translated statement by statement into Gallina over Model/FieldMap.v and the vocabulary of Model/FieldMapGenLib.v.
//
// fieldCheckers (a Go map from the joined target path to a handlerPair) becomes an association list from the target
// path to (number of the closure stored as its invoke function, the successor field type the closure captured).
// A closure must capture per-iteration copies of the loop's variables (`mapping, successorFieldType := mapping,
// successorFieldType` before it is built) — the generated constant closures_capture_per_iteration says whether it does.
// Anything outside the recognised fragment: "source shape not recognised" (translator tie unavailable).
//
// Output: coq/Gen/C15Validate.v; Proofs/GenAgreeC15.v proves the definitions equal to from_all, to_all, struct_or_map,
// check_value, validate and run_checks of Model/FieldMap.v.

import (
	"fmt"
	"go/ast"
	"go/token"
	"go/types"
	"strings"
)

func init() {
	register("c15_validate", c15ExtractValidate)
	registerFallback("c15_validate", "C15Validate.v", c15RefValidate)
}

const c15AnyType = "reflect.TypeOf((*any)(nil)).Elem()"

type c15vaTr struct {
	tyVars    map[string]bool
	boolVars  map[string]bool
	assnVars  map[string]bool
	closures  map[string]int // closure variable in scope -> its number
	nclos     int
	closDefs  []string // generated checker_k definitions
	shadowed  map[string]bool
	captureOK bool
	inLoop    bool
	elem      string // loop element variable
	over      string
}

func (t *c15vaTr) tyExpr(e ast.Expr) (string, bool) {
	if c15sq(e) == c15squash(c15AnyType) {
		return "TAny", true
	}
	if id, ok := e.(*ast.Ident); ok && t.tyVars[id.Name] {
		return id.Name, true
	}
	return "", false
}

func (t *c15vaTr) cond(e ast.Expr) (string, error) {
	switch x := e.(type) {
	case *ast.ParenExpr:
		return t.cond(x.X)
	case *ast.Ident:
		if t.boolVars[x.Name] {
			return x.Name, nil
		}
	case *ast.UnaryExpr:
		if x.Op == token.NOT {
			s, err := t.cond(x.X)
			return "(negb " + s + ")", err
		}
	case *ast.CallExpr:
		if len(x.Args) == 1 {
			switch c15sq(x.Fun) {
			case "isFromAll", "isToAll":
				if c15sq(x.Args[0]) == "mappings" && !t.inLoop {
					return "(" + map[string]string{"isFromAll": "is_from_all", "isToAll": "is_to_all"}[c15sq(x.Fun)] + " mappings)", nil
				}
			case "validateStructOrMap":
				if ty, ok := t.tyExpr(x.Args[0]); ok {
					return "(validate_struct_or_map " + ty + ")", nil
				}
			}
		}
	case *ast.BinaryExpr:
		switch x.Op {
		case token.LAND, token.LOR:
			l, err := t.cond(x.X)
			if err != nil {
				return "", err
			}
			r, err := t.cond(x.Y)
			if err != nil {
				return "", err
			}
			op := "&&"
			if x.Op == token.LOR {
				op = "||"
			}
			return "(" + l + " " + op + " " + r + ")", nil
		case token.EQL, token.NEQ:
			wrap := func(s string) string {
				if x.Op == token.NEQ {
					return "(negb " + s + ")"
				}
				return s
			}
			if a, ok := t.tyExpr(x.X); ok {
				if b, ok := t.tyExpr(x.Y); ok {
					return wrap("(ty_eqb " + a + " " + b + ")"), nil
				}
			}
			if id, ok := x.X.(*ast.Ident); ok && t.assnVars[id.Name] {
				if c, ok := x.Y.(*ast.Ident); ok && strings.HasPrefix(c.Name, "assignableType") {
					return wrap("(assn_is " + c15coqStr(strings.TrimPrefix(c.Name, "assignableType")) + " " + c15vn(id.Name) + ")"), nil
				}
			}
			if c15sq(x.X) == "len(fieldCheckers)" && c15sq(x.Y) == "0" {
				return wrap("(list_is_empty fieldCheckers)"), nil
			}
		}
	}
	return "", fmt.Errorf("condition %s is outside the translated fragment", types.ExprString(e))
}

// the result of validateFieldMapping
func (t *c15vaTr) ret(r *ast.ReturnStmt) (string, error) {
	if len(r.Results) != 2 {
		return "", fmt.Errorf("return with %d results", len(r.Results))
	}
	switch {
	case c15isNil(r.Results[0]) && c15isErrorf(r.Results[1]):
		return "Some None", nil
	case c15isNil(r.Results[0]) && c15isNil(r.Results[1]):
		return "Some (Some [])", nil
	case c15isNil(r.Results[1]):
		// &handlerPair{invoke: checker, transform: …}: the combined checker over fieldCheckers
		if ue, ok := r.Results[0].(*ast.UnaryExpr); ok && ue.Op == token.AND {
			if inv, ok := c15handlerPairInvoke(ue.X); ok && t.closures[inv] == -1 {
				return "Some (Some fieldCheckers)", nil
			}
		}
	}
	return "", fmt.Errorf("return %s, %s is outside the translated fragment", types.ExprString(r.Results[0]), types.ExprString(r.Results[1]))
}

// handlerPair{invoke: X, transform: …} -> X; the transform function must apply the same X chunk by chunk
func c15handlerPairInvoke(e ast.Expr) (string, bool) {
	cl, ok := e.(*ast.CompositeLit)
	if !ok || c15sq(cl.Type) != "handlerPair" || len(cl.Elts) != 2 {
		return "", false
	}
	var inv string
	okT := false
	for _, el := range cl.Elts {
		kv, ok := el.(*ast.KeyValueExpr)
		if !ok {
			return "", false
		}
		switch c15sq(kv.Key) {
		case "invoke":
			id, ok := kv.Value.(*ast.Ident)
			if !ok {
				return "", false
			}
			inv = id.Name
		case "transform":
			fl, ok := kv.Value.(*ast.FuncLit)
			if !ok {
				return "", false
			}
			okT = fl.Body != nil
		}
	}
	if inv == "" || !okT {
		return "", false
	}
	// the stream form converts every chunk with the same function (directly, or through a function literal that
	// calls it on the chunk)
	for _, el := range cl.Elts {
		kv := el.(*ast.KeyValueExpr)
		if c15sq(kv.Key) != "transform" {
			continue
		}
		found := false
		ast.Inspect(kv.Value.(*ast.FuncLit).Body, func(n ast.Node) bool {
			call, ok := n.(*ast.CallExpr)
			if !ok || c15sq(call.Fun) != "schema.StreamReaderWithConvert" || len(call.Args) != 2 || c15sq(call.Args[0]) != "input.toAnyStreamReader()" {
				return true
			}
			switch a := call.Args[1].(type) {
			case *ast.Ident:
				found = a.Name == inv
			case *ast.FuncLit:
				if a.Type.Params != nil && len(a.Type.Params.List) == 1 && len(a.Type.Params.List[0].Names) == 1 {
					arg := a.Type.Params.List[0].Names[0].Name
					ast.Inspect(a.Body, func(m ast.Node) bool {
						if c2, ok := m.(*ast.CallExpr); ok && c15sq(c2.Fun) == inv && len(c2.Args) == 1 && c15sq(c2.Args[0]) == arg {
							found = true
						}
						return true
					})
				}
			}
			return false
		})
		if !found {
			return "", false
		}
	}
	return inv, true
}

func c15bodyString(b *ast.BlockStmt) string {
	var sb strings.Builder
	ast.Inspect(b, func(n ast.Node) bool {
		if e, ok := n.(ast.Expr); ok {
			sb.WriteString(c15sq(e))
			sb.WriteString(";")
			return false
		}
		return true
	})
	return sb.String()
}

// a checker closure: func(a any) (any, error) { trueInType := reflect.TypeOf(a); if … ; return a, nil }
// -> Gallina bool expression over successorFieldType and a (true = the value passes)
func (t *c15vaTr) closure(fl *ast.FuncLit) (string, error) {
	if fl.Type.Params == nil || len(fl.Type.Params.List) != 1 || len(fl.Type.Params.List[0].Names) != 1 {
		return "", fmt.Errorf("checker closure: parameters")
	}
	arg := fl.Type.Params.List[0].Names[0].Name
	body := fl.Body.List
	if len(body) < 2 {
		return "", fmt.Errorf("checker closure: body")
	}
	as, ok := body[0].(*ast.AssignStmt)
	if !ok || as.Tok != token.DEFINE || len(as.Lhs) != 1 || c15sq(as.Rhs[0]) != "reflect.TypeOf("+arg+")" {
		return "", fmt.Errorf("checker closure: the first statement is not `x := reflect.TypeOf(%s)`", arg)
	}
	dyn := c15sq(as.Lhs[0])
	// captured variables
	free := map[string]bool{}
	ast.Inspect(fl.Body, func(n ast.Node) bool {
		if id, ok := n.(*ast.Ident); ok {
			free[id.Name] = true
		}
		return true
	})
	for _, v := range []string{"successorFieldType", "mapping"} {
		if free[v] && !t.shadowed[v] {
			t.captureOK = false
		}
	}
	for v := range free {
		if t.tyVars[v] && v != "successorFieldType" {
			return "", fmt.Errorf("checker closure captures the type variable %s", v)
		}
	}
	var cc func(e ast.Expr) (string, error)
	cc = func(e ast.Expr) (string, error) {
		switch x := e.(type) {
		case *ast.ParenExpr:
			return cc(x.X)
		case *ast.UnaryExpr:
			if x.Op == token.NOT {
				s, err := cc(x.X)
				return "(negb " + s + ")", err
			}
		case *ast.BinaryExpr:
			if (x.Op == token.EQL || x.Op == token.NEQ) && c15sq(x.X) == dyn && c15isNil(x.Y) {
				if x.Op == token.NEQ {
					return "(negb (oty_is_nil " + dyn + "))", nil
				}
				return "(oty_is_nil " + dyn + ")", nil
			}
		case *ast.CallExpr:
			if c15sq(x) == dyn+".AssignableTo(successorFieldType)" {
				return "(rt_assignable_to " + dyn + " successorFieldType)", nil
			}
		}
		return "", fmt.Errorf("checker closure: condition %s", types.ExprString(e))
	}
	var st func(l []ast.Stmt, k string) (string, error)
	isErrRet := func(s ast.Stmt) bool {
		r, ok := s.(*ast.ReturnStmt)
		return ok && len(r.Results) == 2 && c15isNil(r.Results[0]) && c15isErrorf(r.Results[1])
	}
	st = func(l []ast.Stmt, k string) (string, error) {
		if len(l) == 0 {
			return k, nil
		}
		switch x := l[0].(type) {
		case *ast.ReturnStmt:
			if isErrRet(x) {
				return "false", nil
			}
			if len(x.Results) == 2 && c15sq(x.Results[0]) == arg && c15isNil(x.Results[1]) {
				return "true", nil
			}
		case *ast.IfStmt:
			if x.Init != nil {
				break
			}
			c, err := cc(x.Cond)
			if err != nil {
				return "", err
			}
			after, err := st(l[1:], k)
			if err != nil {
				return "", err
			}
			th, err := st(x.Body.List, after)
			if err != nil {
				return "", err
			}
			el := after
			switch e := x.Else.(type) {
			case nil:
			case *ast.BlockStmt:
				el, err = st(e.List, after)
			case *ast.IfStmt:
				el, err = st([]ast.Stmt{e}, after)
			}
			if err != nil {
				return "", err
			}
			return "(if " + c + " then " + th + " else " + el + ")", nil
		case *ast.SwitchStmt:
			// switch successorFieldType.Kind() { case K1, K2, …: [nothing]  default: return nil, err }
			if x.Init != nil || c15sq(x.Tag) != "successorFieldType.Kind()" {
				break
			}
			after, err := st(l[1:], k)
			if err != nil {
				return "", err
			}
			out := ""
			def := after
			var arms []string
			for _, cs := range x.Body.List {
				cl := cs.(*ast.CaseClause)
				body, err := st(cl.Body, after)
				if err != nil {
					return "", err
				}
				if cl.List == nil {
					def = body
					continue
				}
				var ks []string
				for _, ke := range cl.List {
					kn, ok := c15reflectKind(ke)
					if !ok {
						return "", fmt.Errorf("checker closure: case %s", types.ExprString(ke))
					}
					ks = append(ks, "rt_kind_is "+c15coqStr(kn)+" successorFieldType")
				}
				arms = append(arms, "if ("+strings.Join(ks, " || ")+") then "+body+" else ")
			}
			out = "(" + strings.Join(arms, "") + def + ")"
			return out, nil
		}
		return "", fmt.Errorf("checker closure: statement outside the translated fragment: %s", c15stmtString(l[0]))
	}
	bodyS, err := st(body[1:], "true")
	if err != nil {
		return "", err
	}
	return "let " + dyn + " := dyn " + arg + " in " + bodyS, nil
}

// the combined checker: func(value any) (any, error) { mValue := value.(map[string]any); var err error;
//
//	for k, v := range fieldCheckers { for mapping := range mValue { if mapping == k { mValue[mapping], err = v.invoke(mValue[mapping]); if err != nil { return nil, err } } } }; return mValue, nil }
func (t *c15vaTr) combined(fl *ast.FuncLit) (string, error) {
	bad := func(s string) (string, error) {
		return "", fmt.Errorf("combined checker: %s", s)
	}
	if fl.Type.Params == nil || len(fl.Type.Params.List) != 1 || len(fl.Type.Params.List[0].Names) != 1 {
		return bad("parameters")
	}
	arg := fl.Type.Params.List[0].Names[0].Name
	body := fl.Body.List
	if len(body) != 4 {
		return bad(fmt.Sprintf("%d statements", len(body)))
	}
	as, ok := body[0].(*ast.AssignStmt)
	if !ok || as.Tok != token.DEFINE || len(as.Lhs) != 1 || c15sq(as.Rhs[0]) != arg+".(map[string]any)" {
		return bad("the first statement is not the assertion of the map of mapped values")
	}
	mv := c15sq(as.Lhs[0])
	if ds, ok := body[1].(*ast.DeclStmt); !ok || !strings.Contains(c15declString(ds), "err") {
		return bad("the second statement is not `var err error`")
	}
	outer, ok := body[2].(*ast.RangeStmt)
	if !ok || c15sq(outer.X) != "fieldCheckers" || outer.Key == nil || outer.Value == nil || len(outer.Body.List) != 1 {
		return bad("the loop over fieldCheckers")
	}
	k, v := c15sq(outer.Key), c15sq(outer.Value)
	inner, ok := outer.Body.List[0].(*ast.RangeStmt)
	if !ok || c15sq(inner.X) != mv || inner.Key == nil || inner.Value != nil || len(inner.Body.List) != 1 {
		return bad("the loop over the keys of the map of mapped values")
	}
	mk := c15sq(inner.Key)
	is, ok := inner.Body.List[0].(*ast.IfStmt)
	if !ok || is.Init != nil || is.Else != nil || (c15sq(is.Cond) != mk+"=="+k && c15sq(is.Cond) != k+"=="+mk) || len(is.Body.List) != 2 {
		return bad("the test `key == checked key`")
	}
	call, ok := is.Body.List[0].(*ast.AssignStmt)
	if !ok || call.Tok != token.ASSIGN || len(call.Lhs) != 2 || len(call.Rhs) != 1 ||
		c15sq(call.Lhs[0]) != mv+"["+mk+"]" || c15sq(call.Lhs[1]) != "err" || c15sq(call.Rhs[0]) != v+".invoke("+mv+"["+mk+"])" {
		return bad("the application of the checker to the value under the key")
	}
	chk, ok := is.Body.List[1].(*ast.IfStmt)
	if !ok || c15sq(chk.Cond) != "err!=nil" || len(chk.Body.List) != 1 {
		return bad("the error test")
	}
	if r, ok := chk.Body.List[0].(*ast.ReturnStmt); !ok || len(r.Results) != 2 || !c15isNil(r.Results[0]) || c15sq(r.Results[1]) != "err" {
		return bad("the error return")
	}
	if r, ok := body[3].(*ast.ReturnStmt); !ok || len(r.Results) != 2 || c15sq(r.Results[0]) != mv || !c15isNil(r.Results[1]) {
		return bad("the final return")
	}
	// for every checker, for every key of the map equal to the checker's key: check the value under it; the checkers
	// hand the value back unchanged, so the map is what it was (fc_apply in Model/FieldMapGenLib.v)
	return "fc_for_each fieldCheckers (fun " + k + " " + v + " acc =>\n    fm_for_each_key acc (fun " + mk + " acc =>\n" +
		"      if path_eqb " + mk + " " + k + " then fc_apply chk " + v + " " + mk + " acc else Ok acc)) mValue", nil
}

func c15declString(ds *ast.DeclStmt) string {
	var out []string
	if gd, ok := ds.Decl.(*ast.GenDecl); ok {
		for _, sp := range gd.Specs {
			if vs, ok := sp.(*ast.ValueSpec); ok {
				for _, n := range vs.Names {
					out = append(out, n.Name)
				}
			}
		}
	}
	return strings.Join(out, ",")
}

// x, y, err = f(…) followed by `if err != nil { return nil, … }`: the call of one of the two path walkers
func (t *c15vaTr) walkCall(as *ast.AssignStmt) (ty, flag, call string, ok bool) {
	if len(as.Lhs) != 3 || len(as.Rhs) != 1 || c15sq(as.Lhs[2]) != "err" {
		return "", "", "", false
	}
	ty, flag = c15sq(as.Lhs[0]), c15sq(as.Lhs[1])
	switch c15sq(as.Rhs[0]) {
	case "checkAndExtractFieldType(splitFieldPath(" + t.elem + ".from),predecessorType)":
		return ty, flag, "C15FieldType.check_and_extract_field_type env (fst " + t.elem + ") predecessorType", true
	case "extractFieldType(splitFieldPath(" + t.elem + ".to),successorType,true)":
		return ty, flag, "C15FieldType.extract_field_type env (snd " + t.elem + ") successorType true", true
	case "checkAndExtractFieldType(splitFieldPath(" + t.elem + ".to),successorType)":
		return ty, flag, "C15FieldType.check_and_extract_field_type env (snd " + t.elem + ") successorType", true
	case "extractFieldType(splitFieldPath(" + t.elem + ".from),predecessorType,false)":
		return ty, flag, "C15FieldType.extract_field_type env (fst " + t.elem + ") predecessorType false", true
	}
	return "", "", "", false
}

func (t *c15vaTr) stmts(l []ast.Stmt, k func() string, ind string) (string, error) {
	if len(l) == 0 {
		return k(), nil
	}
	rest := func() (string, error) { return t.stmts(l[1:], k, ind) }
	switch x := l[0].(type) {
	case *ast.ReturnStmt:
		return t.ret(x)
	case *ast.BranchStmt:
		if x.Tok == token.CONTINUE && x.Label == nil && t.inLoop {
			return "(validate_loop env predecessorType successorType fieldCheckers rest)", nil
		}
	case *ast.DeclStmt:
		// var ( a, b reflect.Type; err error; c, d bool ): declarations without values
		if gd, ok := x.Decl.(*ast.GenDecl); ok && gd.Tok == token.VAR {
			for _, sp := range gd.Specs {
				vs := sp.(*ast.ValueSpec)
				if len(vs.Values) == 1 && len(vs.Names) == 1 && vs.Names[0].Name == "fieldCheckers" && c15sq(vs.Values[0]) == "make(map[string]handlerPair)" {
					continue
				}
				if len(vs.Values) != 0 {
					return "", fmt.Errorf("var declaration with a value: %s", c15declString(x))
				}
			}
			return rest()
		}
	case *ast.AssignStmt:
		// the two path walkers
		if ty, flag, call, ok := t.walkCall(x); ok && x.Tok == token.ASSIGN && len(l) >= 2 {
			if is, ok := l[1].(*ast.IfStmt); ok && is.Init == nil && is.Else == nil && c15sq(is.Cond) == "err!=nil" && len(is.Body.List) == 1 {
				if r, ok := is.Body.List[0].(*ast.ReturnStmt); ok {
					rs, err := t.ret(r)
					if err != nil {
						return "", err
					}
					t.tyVars[ty], t.boolVars[flag] = true, true
					delete(t.shadowed, ty)
					after, err := t.stmts(l[2:], k, ind)
					if err != nil {
						return "", err
					}
					return "match " + call + " with\n" + ind + "| None => None\n" + ind + "| Some SErr => " + rs + "\n" + ind +
						"| Some (SOk " + ty + " " + flag + ") =>\n" + ind + "    " + after + "\n" + ind + "end", nil
				}
			}
		}
		// mapping, successorFieldType := mapping, successorFieldType
		if x.Tok == token.DEFINE && len(x.Lhs) == len(x.Rhs) && t.inLoop {
			same := true
			for i := range x.Lhs {
				if c15sq(x.Lhs[i]) != c15sq(x.Rhs[i]) {
					same = false
				}
			}
			if same {
				for i := range x.Lhs {
					t.shadowed[c15sq(x.Lhs[i])] = true
				}
				return rest()
			}
		}
		if x.Tok == token.DEFINE && len(x.Lhs) == 1 && len(x.Rhs) == 1 {
			name := c15sq(x.Lhs[0])
			// checker := func(a any) (any, error) { … }
			if fl, ok := x.Rhs[0].(*ast.FuncLit); ok {
				if t.inLoop {
					body, err := t.closure(fl)
					if err != nil {
						return "", err
					}
					t.nclos++
					t.closures[name] = t.nclos
					t.closDefs = append(t.closDefs, fmt.Sprintf("Definition checker_%d (successorFieldType : ty) (%s : val) : bool :=\n  %s.\n\n",
						t.nclos, fl.Type.Params.List[0].Names[0].Name, body))
					return rest()
				}
				body, err := t.combined(fl)
				if err != nil {
					return "", err
				}
				t.closures[name] = -1
				t.closDefs = append(t.closDefs, "Definition combined_checker (chk : nat -> ty -> val -> bool) (fieldCheckers : fcheckers) (mValue : fmap) : res fmap :=\n  "+body+".\n\n")
				return rest()
			}
			// at := checkAssignable(a, b)
			if call, ok := x.Rhs[0].(*ast.CallExpr); ok && c15sq(call.Fun) == "checkAssignable" && len(call.Args) == 2 {
				a, ok1 := t.tyExpr(call.Args[0])
				b, ok2 := t.tyExpr(call.Args[1])
				if ok1 && ok2 {
					t.assnVars[name] = true
					r, err := rest()
					return "let " + c15vn(name) + " := check_assignable " + a + " " + b + " in\n" + ind + r, err
				}
			}
		}
		// fieldCheckers[mapping.to] = handlerPair{invoke: checker, transform: …}
		if x.Tok == token.ASSIGN && len(x.Lhs) == 1 && len(x.Rhs) == 1 && t.inLoop && c15sq(x.Lhs[0]) == "fieldCheckers["+t.elem+".to]" {
			if inv, ok := c15handlerPairInvoke(x.Rhs[0]); ok && t.closures[inv] > 0 {
				r, err := rest()
				return fmt.Sprintf("let fieldCheckers := fc_set (snd %s) (%d%%nat, successorFieldType) fieldCheckers in\n%s%s", t.elem, t.closures[inv], ind, r), err
			}
		}
	case *ast.RangeStmt:
		if !t.inLoop && c15sq(x.X) == "mappings" && x.Tok == token.DEFINE && x.Value != nil && (x.Key == nil || c15sq(x.Key) == "_") {
			return "", fmt.Errorf("internal: the loop is translated by the caller")
		}
	case *ast.IfStmt:
		if x.Init != nil {
			break
		}
		c, err := t.cond(x.Cond)
		if err != nil {
			return "", err
		}
		var aerr error
		after := func() string {
			s, e := t.stmts(l[1:], k, ind)
			if e != nil {
				aerr = e
			}
			return s
		}
		saveC := map[string]int{}
		for kk, vv := range t.closures {
			saveC[kk] = vv
		}
		th, err := t.stmts(x.Body.List, after, ind+"    ")
		if err != nil {
			return "", err
		}
		t.closures = saveC
		var el string
		switch e := x.Else.(type) {
		case nil:
			el = after()
		case *ast.BlockStmt:
			el, err = t.stmts(e.List, after, ind+"    ")
		case *ast.IfStmt:
			el, err = t.stmts(append([]ast.Stmt{e}, l[1:]...), k, ind)
		}
		if err != nil {
			return "", err
		}
		if aerr != nil {
			return "", aerr
		}
		return "if " + c + " then\n" + ind + "    " + th + "\n" + ind + "else\n" + ind + "    " + el, nil
	}
	return "", fmt.Errorf("statement outside the translated fragment: %s", c15stmtString(l[0]))
}

// func isFromAll(mappings []*FieldMapping) bool { for _, mapping := range mappings { if len(mapping.X) == 0 { return true } } return false }
func c15translateIsAll(f *ast.File, name, field, proj, coqName string) (string, error) {
	fn := c15topFunc(f, name)
	if fn == nil || fn.Body == nil || len(fn.Body.List) != 2 {
		return "", fmt.Errorf("func %s not found / not a loop and a return", name)
	}
	rg, ok := fn.Body.List[0].(*ast.RangeStmt)
	if !ok || c15sq(rg.X) != "mappings" || rg.Value == nil || len(rg.Body.List) != 1 {
		return "", fmt.Errorf("%s: the loop", name)
	}
	el := c15sq(rg.Value)
	is, ok := rg.Body.List[0].(*ast.IfStmt)
	if !ok || is.Init != nil || is.Else != nil || len(is.Body.List) != 1 {
		return "", fmt.Errorf("%s: the test", name)
	}
	var c string
	switch c15sq(is.Cond) {
	case "len(" + el + "." + field + ")==0":
		c = "list_is_empty (" + proj + " " + el + ")"
	case "len(" + el + "." + field + ")!=0", "len(" + el + "." + field + ")>0":
		c = "negb (list_is_empty (" + proj + " " + el + "))"
	default:
		return "", fmt.Errorf("%s: condition %s", name, types.ExprString(is.Cond))
	}
	rb := func(s ast.Stmt) (string, bool) {
		r, ok := s.(*ast.ReturnStmt)
		if !ok || len(r.Results) != 1 {
			return "", false
		}
		v := c15sq(r.Results[0])
		return v, v == "true" || v == "false"
	}
	in, ok1 := rb(is.Body.List[0])
	out, ok2 := rb(fn.Body.List[1])
	if !ok1 || !ok2 {
		return "", fmt.Errorf("%s: the returns", name)
	}
	return "Fixpoint " + coqName + " (mappings : list mapping) : bool :=\n  match mappings with\n  | [] => " + out + "\n  | " + el + " :: rest => if " + c + " then " + in +
		" else " + coqName + " rest\n  end.\n\n", nil
}

// func validateStructOrMap(t reflect.Type) bool { switch t.Kind() { case K: return b … case reflect.Ptr: t = t.Elem(); fallthrough … default: return b } }
func c15translateStructOrMap(f *ast.File) (string, error) {
	fn := c15topFunc(f, "validateStructOrMap")
	if fn == nil || fn.Body == nil || len(fn.Body.List) != 1 {
		return "", fmt.Errorf("func validateStructOrMap not found / not a single switch")
	}
	sw, ok := fn.Body.List[0].(*ast.SwitchStmt)
	if !ok || sw.Init != nil || c15sq(sw.Tag) != "t.Kind()" {
		return "", fmt.Errorf("validateStructOrMap: the switch")
	}
	type arm struct {
		conds []string
		body  string // "" = falls through to the next arm
		pre   string
	}
	var arms []arm
	def := ""
	for _, cs := range sw.Body.List {
		cl := cs.(*ast.CaseClause)
		a := arm{}
		for _, ke := range cl.List {
			kn, ok := c15reflectKind(ke)
			if !ok {
				return "", fmt.Errorf("validateStructOrMap: case %s", types.ExprString(ke))
			}
			a.conds = append(a.conds, "rt_kind_is "+c15coqStr(kn)+" t0")
		}
		body := cl.Body
		// t = t.Elem() in front (total: guarded by the case)
		if len(body) > 0 {
			if as, ok := body[0].(*ast.AssignStmt); ok && c15sq(as.Lhs[0]) == "t" && c15sq(as.Rhs[0]) == "t.Elem()" {
				if len(cl.List) != 1 || c15sq(cl.List[0]) != "reflect.Ptr" {
					return "", fmt.Errorf("validateStructOrMap: t.Elem() outside the Ptr case")
				}
				a.pre = "let t := rt_elem_ptr t in "
				body = body[1:]
			}
		}
		switch {
		case len(body) == 1:
			if br, ok := body[0].(*ast.BranchStmt); ok && br.Tok == token.FALLTHROUGH {
				a.body = ""
			} else if r, ok := body[0].(*ast.ReturnStmt); ok && len(r.Results) == 1 && (c15sq(r.Results[0]) == "true" || c15sq(r.Results[0]) == "false") {
				a.body = c15sq(r.Results[0])
			} else {
				return "", fmt.Errorf("validateStructOrMap: case body")
			}
		default:
			return "", fmt.Errorf("validateStructOrMap: case body")
		}
		if cl.List == nil {
			def = a.body
			if def == "" {
				return "", fmt.Errorf("validateStructOrMap: default falls through")
			}
			continue
		}
		arms = append(arms, a)
	}
	if def == "" {
		return "", fmt.Errorf("validateStructOrMap: no default")
	}
	// resolve fallthrough: the body of the next arm that has one
	for i := len(arms) - 1; i >= 0; i-- {
		if arms[i].body == "" {
			if i+1 < len(arms) {
				arms[i].body = arms[i+1].body
			} else {
				arms[i].body = def
			}
		}
	}
	s := "Definition validate_struct_or_map (t : ty) : bool :=\n  let t0 := t in\n"
	for _, a := range arms {
		s += "  if (" + strings.Join(a.conds, " || ") + ") then " + a.pre + a.body + " else\n"
	}
	s += "  " + def + ".\n\n"
	return s, nil
}

func c15ExtractValidate(repo string) (string, string, error) {
	fset := token.NewFileSet()
	f, err := c15parseGo(fset, repo, "compose", "field_mapping.go")
	if err != nil {
		return "", "", err
	}
	fromAll, err := c15translateIsAll(f, "isFromAll", "from", "fst", "is_from_all")
	if err != nil {
		return "", "", err
	}
	toAll, err := c15translateIsAll(f, "isToAll", "to", "snd", "is_to_all")
	if err != nil {
		return "", "", err
	}
	som, err := c15translateStructOrMap(f)
	if err != nil {
		return "", "", err
	}
	fn := c15topFunc(f, "validateFieldMapping")
	if fn == nil || fn.Body == nil {
		return "", "", fmt.Errorf("func validateFieldMapping not found")
	}
	var ps []string
	for _, fl := range fn.Type.Params.List {
		for _, n := range fl.Names {
			ps = append(ps, n.Name+" "+types.ExprString(fl.Type))
		}
	}
	if strings.Join(ps, ",") != "predecessorType reflect.Type,successorType reflect.Type,mappings []*FieldMapping" {
		return "", "", fmt.Errorf("validateFieldMapping: parameters (%s)", strings.Join(ps, ", "))
	}
	t := &c15vaTr{tyVars: map[string]bool{"predecessorType": true, "successorType": true}, boolVars: map[string]bool{}, assnVars: map[string]bool{},
		closures: map[string]int{}, shadowed: map[string]bool{}, captureOK: true}
	body := fn.Body.List
	li := -1
	for i, s := range body {
		if _, ok := s.(*ast.RangeStmt); ok {
			if li >= 0 {
				return "", "", fmt.Errorf("validateFieldMapping: more than one top-level loop")
			}
			li = i
		}
	}
	if li < 0 {
		return "", "", fmt.Errorf("validateFieldMapping: no loop over the mappings")
	}
	rg := body[li].(*ast.RangeStmt)
	if c15sq(rg.X) != "mappings" || rg.Tok != token.DEFINE || rg.Value == nil || (rg.Key != nil && c15sq(rg.Key) != "_") {
		return "", "", fmt.Errorf("validateFieldMapping: the loop is not `for _, mapping := range mappings`")
	}
	// after the loop
	after, err := t.stmts(body[li+1:], func() string { return "None" }, "      ")
	if err != nil {
		return "", "", fmt.Errorf("validateFieldMapping (after the loop): %v", err)
	}
	t.inLoop, t.elem = true, c15sq(rg.Value)
	if c15reserved(t.elem) {
		return "", "", fmt.Errorf("validateFieldMapping: loop variable %s", t.elem)
	}
	next := func() string { return "(validate_loop env predecessorType successorType fieldCheckers rest)" }
	lbody, err := t.stmts(rg.Body.List, next, "      ")
	if err != nil {
		return "", "", fmt.Errorf("validateFieldMapping (loop body): %v", err)
	}
	t.inLoop = false
	pre, err := t.stmts(body[:li], func() string { return "validate_loop env predecessorType successorType [] mappings" }, "  ")
	if err != nil {
		return "", "", fmt.Errorf("validateFieldMapping (before the loop): %v", err)
	}
	if t.nclos != 2 {
		return "", "", fmt.Errorf("validateFieldMapping: %d checker closures, the model knows 2 places where one is installed", t.nclos)
	}
	var b strings.Builder
	b.WriteString("(* Gen/C15Validate.v — GENERATED by tools/go2v (extractor \"c15_validate\") from compose/field_mapping.go\n")
	b.WriteString("   (isFromAll, isToAll, validateStructOrMap, validateFieldMapping and its closures, translated statement by\n   statement). Do not edit. *)\n")
	b.WriteString("From Eino Require Import Base.Util Base.FMUniverse Model.FieldMap Model.FieldMapGenLib.\nFrom Eino Require Gen.C15FieldType.\n\n")
	b.WriteString("Definition tie_available : bool := true.\n\n")
	b.WriteString(fromAll + toAll + som)
	b.WriteString("(* do the checker closures capture per-iteration copies of the loop's variables *)\n")
	b.WriteString(fmt.Sprintf("Definition closures_capture_per_iteration : bool := %v.\n\n", t.captureOK))
	// closure definitions: the per-mapping checkers first, the combined one last
	for _, d := range t.closDefs {
		b.WriteString(d)
	}
	b.WriteString("Fixpoint validate_loop (env : senv) (predecessorType successorType : ty) (fieldCheckers : fcheckers) (mappings : list mapping) {struct mappings} : option (option fcheckers) :=\n")
	b.WriteString("  match mappings with\n  | [] =>\n      " + after + "\n  | " + t.elem + " :: rest =>\n      " + lbody + "\n  end.\n\n")
	b.WriteString("Definition validate_field_mapping (env : senv) (predecessorType successorType : ty) (mappings : list mapping) : option (option fcheckers) :=\n  " + pre + ".\n")
	return "C15Validate.v", b.String(), nil
}
