package main

// Extractor "c15_mappedpath" (property C15): compose/workflow.go, method (*WorkflowNode).checkAndAddMappedPath — the
// overlap check of the target paths of one workflow node, an imperative walk over a trie of nested Go maps —
// translated statement by statement into Gallina over the trie of Model/FieldMap.v and the map / cursor
// vocabulary of Model/FieldMapGenLib.v.
//
// State of the translation: [root] = n.mappedFieldPath[""] (absent / struct{}{} / a map), and inside the loops
// the cursor [m] (Go maps are references: the cursor keeps the way back to the root, what is written through it is
// brought into [root] when control leaves the scope of m), the looked-up / created value [v]. Recognised:
//   if [init;] C { … } [else { … }]        init:  _, ok := n.mappedFieldPath[""]      _, terminal := v.(struct{})
//        C built with && || ! ( ) from bool variables (ok, exist, terminal, …),
//        len(paths) == 0   len(targetPath) == 0   len(m) > 0   i < len(targetPath)-1
//   n.mappedFieldPath[""] = map[string]any{}        n.mappedFieldPath[""] = struct{}{}
//   paths = []FieldPath{{}}                          targetPath = canonicalTargetPath(n.inputType(), targetPath)
//   m, ok := n.mappedFieldPath[""].(map[string]any)
//   v, exist := m[path]      v = make(map[string]any)      m[path] = v      m[path] = struct{}{}
//   m = v.(map[string]any)   (partial: panics unless v holds a map)
//   for _, targetPath := range paths { … }   (state: root)      for i, path := range targetPath { … }   (state: m)
//   return fmt.Errorf(…) = the path set is rejected         return nil = accepted          continue
//   a variable that is only appended to and only read inside the arguments of fmt.Errorf (`traversed`) is dropped.
// canonicalTargetPath(n.inputType(), ·) is the parameter [canon] of the generated function (extractor
// "c15_canonical" ties that function to the model's elaboration).
// Anything else: "source shape not recognised" (translator tie unavailable).
//
// Output: coq/Gen/C15MappedPath.v with
//   check_and_add_mapped_path (canon : path -> path) (root : root_state) (paths : list path) : option (option root_state)
// (None = the Go code would panic; Some None = an error is returned; Some (Some r) = nil is returned and
// n.mappedFieldPath[""] is r). Proofs/GenAgreeC15.v proves it equal to the model's tinsert_all.

import (
	"fmt"
	"go/ast"
	"go/token"
	"go/types"
	"strings"
)

func init() {
	register("c15_mappedpath", c15ExtractMappedPath)
	registerFallback("c15_mappedpath", "C15MappedPath.v", c15RefMappedPath)
}

const c15Root = `n.mappedFieldPath[""]`

type c15mpTr struct {
	boolVars map[string]bool
	msgOnly  map[string]bool // variables that only feed error messages
	haveM    bool            // the cursor variable m is in scope
	haveV    bool
	mName    string // Go name of the cursor variable
	vName    string
	// loops
	outerElem string // element variable of the outer loop ("" = not inside it)
	innerIdx  string
	innerElem string // element variable of the inner loop ("" = not inside it)
	innerOver string // the slice the inner loop ranges over
	innerBody string // the generated inner Fixpoint (filled when the inner loop is met)
}

// Gallina name of a Go variable (Go names that are Gallina identifiers of the development get a suffix)
func c15vn(s string) string {
	switch s {
	case "rest", "rest_paths", "root", "canon":
		return s + "_" // names the generated code binds itself
	case "path", "ty", "trie", "val", "cursor", "map", "fix", "at", "in", "end", "with", "fun", "match", "if", "then", "else",
		"exist", "existT", "pair", "cons", "nil", "fst", "snd", "left", "right", "inl", "inr", "tt", "conj", "length", "rev", "app":
		return s + "_"
	}
	return s
}

func (t *c15mpTr) rootNow() string {
	if t.haveM {
		return "(cur_commit root " + c15vn(t.mName) + ")"
	}
	return "root"
}

func (t *c15mpTr) cond(e ast.Expr) (string, error) {
	switch c15sq(e) {
	case "len(paths)==0":
		return "(list_is_empty paths)", nil
	}
	if t.outerElem != "" && c15sq(e) == "len("+t.outerElem+")==0" {
		return "(list_is_empty " + c15vn(t.outerElem) + ")", nil
	}
	if t.haveM && c15sq(e) == "len("+t.mName+")>0" {
		return "(cur_nonempty " + c15vn(t.mName) + ")", nil
	}
	// (i is the index of the range loop over that slice: i != len-1 says the same as i < len-1, i >= len-1 as i == len-1)
	if t.innerElem != "" && (c15sq(e) == t.innerIdx+"<len("+t.innerOver+")-1" || c15sq(e) == t.innerIdx+"!=len("+t.innerOver+")-1") {
		return "(rt_more rest)", nil
	}
	if t.innerElem != "" && (c15sq(e) == t.innerIdx+"==len("+t.innerOver+")-1" || c15sq(e) == t.innerIdx+">=len("+t.innerOver+")-1") {
		return "(negb (rt_more rest))", nil
	}
	switch x := e.(type) {
	case *ast.ParenExpr:
		return t.cond(x.X)
	case *ast.Ident:
		if t.boolVars[x.Name] {
			return c15vn(x.Name), nil
		}
	case *ast.UnaryExpr:
		if x.Op == token.NOT {
			s, err := t.cond(x.X)
			return "(negb " + s + ")", err
		}
	case *ast.BinaryExpr:
		if x.Op == token.LAND || x.Op == token.LOR {
			l, err := t.cond(x.X)
			if err != nil {
				return "", err
			}
			r, err := t.cond(x.Y)
			if err != nil {
				return "", err
			}
			op := "&&"
			if x.Op == token.LOR {
				op = "||"
			}
			return "(" + l + " " + op + " " + r + ")", nil
		}
	}
	return "", fmt.Errorf("condition %s is outside the translated fragment", types.ExprString(e))
}

// []FieldPath{{}}
func c15isSingleEmptyPath(e ast.Expr) bool {
	cl, ok := e.(*ast.CompositeLit)
	if !ok || cl.Type == nil || c15sq(cl.Type) != "[]FieldPath" || len(cl.Elts) != 1 {
		return false
	}
	in, ok := cl.Elts[0].(*ast.CompositeLit)
	return ok && len(in.Elts) == 0 && (in.Type == nil || c15sq(in.Type) == "FieldPath")
}

func c15isErrorf(e ast.Expr) bool {
	call, ok := e.(*ast.CallExpr)
	return ok && c15sq(call.Fun) == "fmt.Errorf"
}

// the init statement of an if: returns the let-binding prefix
func (t *c15mpTr) ifInit(s ast.Stmt) (string, error) {
	as, ok := s.(*ast.AssignStmt)
	if !ok || as.Tok != token.DEFINE || len(as.Lhs) != 2 || len(as.Rhs) != 1 || c15sq(as.Lhs[0]) != "_" {
		return "", fmt.Errorf("if-init outside the translated fragment: %s", c15stmtString(s))
	}
	b := c15sq(as.Lhs[1])
	switch {
	case c15sq(as.Rhs[0]) == c15squash(c15Root):
		t.boolVars[b] = true
		return "let " + c15vn(b) + " := root_present " + t.rootNow() + " in ", nil
	case t.haveV && c15sq(as.Rhs[0]) == t.vName+".(struct{})":
		t.boolVars[b] = true
		return "let " + c15vn(b) + " := v_is_terminal " + c15vn(t.vName) + " in ", nil
	}
	return "", fmt.Errorf("if-init outside the translated fragment: %s", c15stmtString(s))
}

// statements -> Gallina expression. k(): what control does when it falls off the end (evaluated in the scope
// reached there). ret: the result type is the outer one (option (option root_state)) or the inner one
// (option (option cursor)).
func (t *c15mpTr) stmts(l []ast.Stmt, k func() string, ind string) (string, error) {
	if len(l) == 0 {
		return k(), nil
	}
	rest := func() (string, error) { return t.stmts(l[1:], k, ind) }
	// scopes are restored after a branch has been translated
	save := func() func() {
		hm, hv, mn, vn := t.haveM, t.haveV, t.mName, t.vName
		return func() { t.haveM, t.haveV, t.mName, t.vName = hm, hv, mn, vn }
	}
	switch x := l[0].(type) {
	case *ast.ReturnStmt:
		if len(x.Results) != 1 {
			return "", fmt.Errorf("return with %d results", len(x.Results))
		}
		if c15isErrorf(x.Results[0]) {
			return "Some None", nil
		}
		if c15isNil(x.Results[0]) && t.innerElem == "" {
			return "Some (Some " + t.rootNow() + ")", nil
		}
		return "", fmt.Errorf("return %s is outside the translated fragment", types.ExprString(x.Results[0]))
	case *ast.BranchStmt:
		if x.Tok == token.CONTINUE && x.Label == nil {
			if t.innerElem != "" {
				return t.nextInner(), nil
			}
			if t.outerElem != "" {
				return t.nextOuter(), nil
			}
		}
	case *ast.DeclStmt:
		// var traversed FieldPath
		if gd, ok := x.Decl.(*ast.GenDecl); ok && gd.Tok == token.VAR && len(gd.Specs) == 1 {
			vs := gd.Specs[0].(*ast.ValueSpec)
			if len(vs.Names) == 1 && len(vs.Values) == 0 && t.msgOnly[vs.Names[0].Name] {
				return rest()
			}
		}
	case *ast.AssignStmt:
		lhs, rhs := "", ""
		if len(x.Lhs) == 1 && len(x.Rhs) == 1 {
			lhs, rhs = c15sq(x.Lhs[0]), c15sq(x.Rhs[0])
		}
		switch {
		case x.Tok == token.ASSIGN && t.msgOnly[lhs] && strings.HasPrefix(rhs, "append("+lhs+","):
			return rest()
		case x.Tok == token.ASSIGN && lhs == c15squash(c15Root) && (rhs == "map[string]any{}" || rhs == "make(map[string]any)"):
			pre := "let root := Some (Node []) in\n" + ind
			if t.haveM {
				pre += "let " + c15vn(t.mName) + " := cur_detach " + c15vn(t.mName) + " in\n" + ind
			}
			r, err := rest()
			return pre + r, err
		case x.Tok == token.ASSIGN && lhs == c15squash(c15Root) && rhs == "struct{}{}":
			pre := "let root := Some Term in\n" + ind
			if t.haveM {
				pre += "let " + c15vn(t.mName) + " := cur_detach " + c15vn(t.mName) + " in\n" + ind
			}
			r, err := rest()
			return pre + r, err
		case x.Tok == token.ASSIGN && lhs == "paths" && c15isSingleEmptyPath(x.Rhs[0]) && t.outerElem == "":
			r, err := rest()
			return "let paths := [[]] in\n" + ind + r, err
		case x.Tok == token.ASSIGN && t.outerElem != "" && lhs == t.outerElem && rhs == "canonicalTargetPath(n.inputType(),"+t.outerElem+")" && t.innerElem == "":
			r, err := rest()
			return "let " + c15vn(t.outerElem) + " := canon " + c15vn(t.outerElem) + " in\n" + ind + r, err
		case x.Tok == token.ASSIGN && t.haveV && lhs == t.vName && rhs == "make(map[string]any)":
			r, err := rest()
			return "let " + c15vn(t.vName) + " := v_make in\n" + ind + r, err
		case x.Tok == token.ASSIGN && t.haveM && t.haveV && lhs == t.mName && rhs == t.vName+".(map[string]any)":
			r, err := rest()
			return "match cur_descend " + c15vn(t.mName) + " " + c15vn(t.vName) + " with\n" + ind + "| None => None\n" + ind +
				"| Some " + c15vn(t.mName) + " =>\n" + ind + "    " + r + "\n" + ind + "end", err
		case x.Tok == token.ASSIGN && t.haveM && t.innerElem != "" && lhs == t.mName+"["+t.innerElem+"]" && t.haveV && rhs == t.vName:
			r, err := rest()
			return "match cur_store_var " + c15vn(t.mName) + " " + c15vn(t.innerElem) + " " + c15vn(t.vName) + " with\n" + ind + "| None => None\n" + ind +
				"| Some (" + c15vn(t.mName) + ", " + c15vn(t.vName) + ") =>\n" + ind + "    " + r + "\n" + ind + "end", err
		case x.Tok == token.ASSIGN && t.haveM && t.innerElem != "" && lhs == t.mName+"["+t.innerElem+"]" && rhs == "struct{}{}":
			r, err := rest()
			over := ""
			if t.haveV {
				over = "let " + c15vn(t.vName) + " := v_overwritten " + c15vn(t.vName) + " " + c15vn(t.innerElem) + " in\n" + ind + "    "
			}
			return "match cur_store_term " + c15vn(t.mName) + " " + c15vn(t.innerElem) + " with\n" + ind + "| None => None\n" + ind +
				"| Some " + c15vn(t.mName) + " =>\n" + ind + "    " + over + r + "\n" + ind + "end", err
		}
		if x.Tok == token.DEFINE && len(x.Lhs) == 2 && len(x.Rhs) == 1 {
			a, b, r0 := c15sq(x.Lhs[0]), c15sq(x.Lhs[1]), c15sq(x.Rhs[0])
			switch {
			case r0 == c15squash(c15Root)+".(map[string]any)" && !t.haveM && t.innerElem == "":
				t.haveM, t.mName = true, a
				t.boolVars[b] = true
				r, err := rest()
				return "let '(" + c15vn(a) + ", " + c15vn(b) + ") := root_as_map root in\n" + ind + r, err
			case t.haveM && t.innerElem != "" && r0 == t.mName+"["+t.innerElem+"]" && !t.haveV:
				t.haveV, t.vName = true, a
				t.boolVars[b] = true
				r, err := rest()
				return "let '(" + c15vn(a) + ", " + c15vn(b) + ") := cur_lookup " + c15vn(t.mName) + " " + c15vn(t.innerElem) + " in\n" + ind + r, err
			}
		}
	case *ast.RangeStmt:
		if x.Tok != token.DEFINE || x.Value == nil {
			break
		}
		over, elem := c15sq(x.X), c15sq(x.Value)
		switch {
		case t.outerElem != "" && t.innerElem == "" && over == t.outerElem && t.haveM && x.Key != nil && c15sq(x.Key) != "_":
			// the inner loop: its own Fixpoint over the cursor
			t.innerIdx, t.innerElem, t.innerOver = c15sq(x.Key), elem, over
			restore := save()
			body, err := t.stmts(x.Body.List, t.nextInner, "      ")
			restore()
			t.innerElem = ""
			if err != nil {
				return "", err
			}
			m := c15vn(t.mName)
			ib := "Fixpoint add_path_loop (" + m + " : cursor) (" + c15vn(over) + " : path) {struct " + c15vn(over) + "} : option (option cursor) :=\n" +
				"  match " + c15vn(over) + " with\n  | [] => Some (Some " + m + ")\n  | " + c15vn(elem) + " :: rest =>\n      " + body + "\n  end.\n\n"
			if t.innerBody != "" && t.innerBody != ib {
				return "", fmt.Errorf("the inner loop is reached in two different scopes")
			}
			t.innerBody = ib
			r, err := rest()
			return "match add_path_loop " + m + " " + c15vn(over) + " with\n" + ind + "| None => None\n" + ind + "| Some None => Some None\n" + ind +
				"| Some (Some " + m + ") =>\n" + ind + "    " + r + "\n" + ind + "end", err
		}
	case *ast.IfStmt:
		restore := save()
		pre := ""
		if x.Init != nil {
			var err error
			pre, err = t.ifInit(x.Init)
			if err != nil {
				return "", err
			}
		}
		c, err := t.cond(x.Cond)
		if err != nil {
			return "", err
		}
		// what follows the if statement (the bool variable of the init is scoped to the if; harmless to keep)
		after := func() string {
			s, e := t.stmts(l[1:], k, ind)
			if e != nil && err == nil {
				err = e
			}
			return s
		}
		th, e := t.stmts(x.Body.List, after, ind+"    ")
		restore()
		if e != nil {
			return "", e
		}
		var el string
		switch eb := x.Else.(type) {
		case nil:
			el = after()
		case *ast.BlockStmt:
			el, e = t.stmts(eb.List, after, ind+"    ")
			if e != nil {
				return "", e
			}
		default:
			return "", fmt.Errorf("else if")
		}
		restore()
		if err != nil {
			return "", err
		}
		return pre + "if " + c + " then\n" + ind + "    " + th + "\n" + ind + "else\n" + ind + "    " + el, nil
	}
	return "", fmt.Errorf("statement outside the translated fragment: %s", c15stmtString(l[0]))
}

func (t *c15mpTr) nextInner() string { return "(add_path_loop " + c15vn(t.mName) + " rest)" }
func (t *c15mpTr) nextOuter() string { return "(check_add_loop canon " + t.rootNow() + " rest_paths)" }

// variables declared with `var x T` that are only appended to and only read inside fmt.Errorf(…)
func c15messageOnly(fn *ast.FuncDecl) map[string]bool {
	out := map[string]bool{}
	ast.Inspect(fn.Body, func(n ast.Node) bool {
		if ds, ok := n.(*ast.DeclStmt); ok {
			if gd, ok := ds.Decl.(*ast.GenDecl); ok && gd.Tok == token.VAR {
				for _, sp := range gd.Specs {
					vs := sp.(*ast.ValueSpec)
					if len(vs.Values) == 0 {
						for _, nm := range vs.Names {
							out[nm.Name] = true
						}
					}
				}
			}
		}
		return true
	})
	for name := range out {
		total, inErr, inApp := 0, 0, 0
		count := func(n ast.Node) int {
			c := 0
			ast.Inspect(n, func(m ast.Node) bool {
				if id, ok := m.(*ast.Ident); ok && id.Name == name {
					c++
				}
				return true
			})
			return c
		}
		total = count(fn.Body)
		ast.Inspect(fn.Body, func(n ast.Node) bool {
			switch x := n.(type) {
			case *ast.CallExpr:
				if c15sq(x.Fun) == "fmt.Errorf" {
					for _, a := range x.Args {
						inErr += count(a)
					}
					return false
				}
			case *ast.AssignStmt:
				if x.Tok == token.ASSIGN && len(x.Lhs) == 1 && len(x.Rhs) == 1 && c15sq(x.Lhs[0]) == name {
					if call, ok := x.Rhs[0].(*ast.CallExpr); ok && c15sq(call.Fun) == "append" && len(call.Args) >= 1 && c15sq(call.Args[0]) == name {
						inApp += 2
						for _, a := range call.Args[1:] {
							inApp += count(a)
						}
						return false
					}
				}
			}
			return true
		})
		if total != inErr+inApp+1 {
			delete(out, name)
		}
	}
	return out
}

func c15ExtractMappedPath(repo string) (string, string, error) {
	fset := token.NewFileSet()
	f, err := c15parseGo(fset, repo, "compose", "workflow.go")
	if err != nil {
		return "", "", err
	}
	fn := c15method(f, "WorkflowNode", "checkAndAddMappedPath")
	if fn == nil || fn.Body == nil {
		return "", "", fmt.Errorf("method (*WorkflowNode).checkAndAddMappedPath not found")
	}
	if len(fn.Recv.List[0].Names) != 1 || fn.Recv.List[0].Names[0].Name != "n" {
		return "", "", fmt.Errorf("checkAndAddMappedPath: receiver is not named n")
	}
	var ps []string
	for _, fl := range fn.Type.Params.List {
		for _, nm := range fl.Names {
			ps = append(ps, nm.Name+" "+types.ExprString(fl.Type))
		}
	}
	if strings.Join(ps, ",") != "paths []FieldPath" {
		return "", "", fmt.Errorf("checkAndAddMappedPath: parameters (%s)", strings.Join(ps, ", "))
	}
	if fn.Type.Results == nil || len(fn.Type.Results.List) != 1 || types.ExprString(fn.Type.Results.List[0].Type) != "error" {
		return "", "", fmt.Errorf("checkAndAddMappedPath: result is not a single error")
	}
	t := &c15mpTr{boolVars: map[string]bool{}, msgOnly: c15messageOnly(fn)}
	body := fn.Body.List
	li := -1
	for i, s := range body {
		if _, ok := s.(*ast.RangeStmt); ok {
			if li >= 0 {
				return "", "", fmt.Errorf("checkAndAddMappedPath: more than one top-level range loop")
			}
			li = i
		}
	}
	if li < 0 {
		return "", "", fmt.Errorf("checkAndAddMappedPath: no range loop over the paths")
	}
	rg := body[li].(*ast.RangeStmt)
	if c15sq(rg.X) != "paths" || rg.Tok != token.DEFINE || rg.Value == nil || (rg.Key != nil && c15sq(rg.Key) != "_") {
		return "", "", fmt.Errorf("checkAndAddMappedPath: the loop is not `for _, targetPath := range paths`")
	}
	// after the loop
	after, err := t.stmts(body[li+1:], func() string { return "None" }, "      ")
	if err != nil {
		return "", "", fmt.Errorf("checkAndAddMappedPath (after the loop): %v", err)
	}
	// the loop body
	t.outerElem = c15sq(rg.Value)
	lbody, err := t.stmts(rg.Body.List, t.nextOuter, "      ")
	if err != nil {
		return "", "", fmt.Errorf("checkAndAddMappedPath (loop body): %v", err)
	}
	elem := c15vn(t.outerElem)
	t.outerElem = ""
	t.haveM, t.haveV = false, false
	// before the loop
	pre, err := t.stmts(body[:li], func() string { return "check_add_loop canon root paths" }, "  ")
	if err != nil {
		return "", "", fmt.Errorf("checkAndAddMappedPath (before the loop): %v", err)
	}

	var b strings.Builder
	b.WriteString("(* Gen/C15MappedPath.v — GENERATED by tools/go2v (extractor \"c15_mappedpath\") from compose/workflow.go\n")
	b.WriteString("   (method checkAndAddMappedPath of *WorkflowNode, translated statement by statement). Do not edit. *)\n")
	b.WriteString("From Eino Require Import Base.Util Base.FMUniverse Model.FieldMap Model.FieldMapGenLib.\n\n")
	b.WriteString("Definition tie_available : bool := true.\n\n")
	var dropped []string
	for v := range t.msgOnly {
		dropped = append(dropped, v)
	}
	if len(dropped) > 0 {
		b.WriteString("(* variables that only feed error messages, dropped: " + strings.Join(dropped, ", ") + " *)\n\n")
	}
	b.WriteString(t.innerBody)
	b.WriteString("Fixpoint check_add_loop (canon : path -> path) (root : root_state) (paths : list path) {struct paths} : option (option root_state) :=\n")
	b.WriteString("  match paths with\n  | [] =>\n      " + after + "\n  | " + elem + " :: rest_paths =>\n      " + lbody + "\n  end.\n\n")
	b.WriteString("Definition check_and_add_mapped_path (canon : path -> path) (root : root_state) (paths : list path) : option (option root_state) :=\n  " + pre + ".\n")
	return "C15MappedPath.v", b.String(), nil
}
