package main

// Extractor "cpstream" (property C05): how a checkpointed value crosses the calling paradigms.
//
//   compose/stream_concat.go   concatStreamReader          -> concat_reader
//   compose/generic_helper.go  defaultStreamConvertPair: the closures concatStream / restoreStream
//                                                           -> concat_stream, restore_stream
//   compose/checkpoint.go      convert, restore (what happens to ONE entry of Inputs / of a channel's Values)
//                                                           -> convert_entry, restore_entry
//                              streamConverter.convertInputs / restoreInputs / convertOutputs / restoreOutputs: every path
//                              reaches convert / restore with the run's isStream      -> wrappers_reach_entry
//
// An entry is an `any`: in the model a value of the sum type dyn (Model/CheckpointStreamLib.v): plain nil, the
// marker nilChunk{}, a non-nil value, or a stream (the list of its chunks; a chunk of an interface chunk type may
// be nil).  The functions are chains of `if C { return R }` / `if C { values[key] = R }` statements over such an
// entry; conditions and results are translated one by one:
//     v == nil                     dyn_is_nil v            _, ok := v.(nilChunk); ok     dyn_is_nilchunk v
//     any(value) == nil            chunk_is_nil value      len(items) == k               Nat.eqb (length items) k
//     sr, ok := v.(streamReader)   match v with DStream sr => … | _ => error
//     value, ok := a.(T)           match dyn_value a with Some value => … | None => error
//     return nil, nil              Ok DNil                 return nilChunk{}, nil        Ok DNilChunk
//     return value, nil            Ok (dyn_of_chunk value) []T{} / []T{t} / []T{value}   [] / [zero_chunk] / [Some value]
// Which convert pair is used (isMappedFragment, the registration lookups, unpackStreamReader) decides the chunk TYPE
// only and is skipped.  Anything else: "source shape not recognised".
//
// Output: coq/Gen/CheckpointStream.v.  Proofs/GenAgreeC05Stream.v proves the five functions equal to the model's
// (Model/CheckpointStream.v), about which paradigm_roundtrip (Props/C05.v) is proved.

import (
	"fmt"
	"go/ast"
	"go/token"
	"go/types"
	"strconv"
	"strings"
)

func init() {
	register("cpstream", c05sExtract)
	registerFallback("cpstream", "CheckpointStream.v", "(* Gen/CheckpointStream.v — translator tie UNAVAILABLE: tools/go2v (extractor \"cpstream\") did not recognise the\n"+
		"   shape of compose/stream_concat.go / generic_helper.go / checkpoint.go; the model's own definitions are re-exported. *)\n"+
		"From Eino Require Import Base.Util Model.CheckpointStreamLib Model.CheckpointStream.\n\n"+
		"Definition stream_tie_available : bool := false.\n\n"+
		"Section Gen.\n  Variable V : Type.\n  Variable concat_items : list (option V) -> res (option V).\n\n"+
		"  Definition concat_reader (items : list (option V)) : cres V := m_concat_reader V concat_items items.\n"+
		"  Definition concat_stream (items : list (option V)) : res (dyn V) := m_concat_stream V concat_items items.\n"+
		"  Definition restore_stream (a : dyn V) : res (list (option V)) := m_restore_stream V a.\n"+
		"  Definition convert_entry (isStream : bool) (v : dyn V) : res (dyn V) := m_convert_entry V concat_items isStream v.\n"+
		"  Definition restore_entry (isStream : bool) (v : dyn V) : res (dyn V) := m_restore_entry V isStream v.\nEnd Gen.\n\n"+
		"Definition wrappers_reach_entry : bool * bool * bool * bool := (true, true, true, true).\n")
}

func c05sErr(where, format string, a ...any) error {
	return fmt.Errorf("%s: %s", where, fmt.Sprintf(format, a...))
}

type c05sTr struct {
	where  string
	dynVar string // the entry under translation (v / a)
	items  string // the collected chunks (concatStreamReader)
	value  string // the concatenated chunk (concatStream) / the asserted value (restoreStream)
	tZero  string // the `var t T` of the enclosing function
}

// cond: a condition over the entry / the chunk / the item list
func (t *c05sTr) cond(e ast.Expr) (string, error) {
	switch x := e.(type) {
	case *ast.ParenExpr:
		return t.cond(x.X)
	case *ast.UnaryExpr:
		if x.Op == token.NOT {
			s, err := t.cond(x.X)
			return "negb (" + s + ")", err
		}
	case *ast.Ident:
		if x.Name == "isStream" {
			return "isStream", nil
		}
	case *ast.BinaryExpr:
		if x.Op == token.LAND || x.Op == token.LOR {
			a, err := t.cond(x.X)
			if err != nil {
				return "", err
			}
			b, err := t.cond(x.Y)
			if err != nil {
				return "", err
			}
			if x.Op == token.LAND {
				return "(" + a + ") && (" + b + ")", nil
			}
			return "(" + a + ") || (" + b + ")", nil
		}
		if x.Op == token.EQL || x.Op == token.NEQ {
			neg := func(s string) string {
				if x.Op == token.NEQ {
					return "negb (" + s + ")"
				}
				return s
			}
			if c05IsNil(x.Y) {
				if id := c05Ident(x.X); id != "" && id == t.dynVar {
					return neg("dyn_is_nil " + id), nil
				}
				// any(value) == nil
				if c, ok := x.X.(*ast.CallExpr); ok && c05Ident(c.Fun) == "any" && len(c.Args) == 1 && c05Ident(c.Args[0]) == t.value && t.value != "" {
					return neg("chunk_is_nil " + t.value), nil
				}
			}
			// len(items) == k
			if c, ok := x.X.(*ast.CallExpr); ok && c05Ident(c.Fun) == "len" && len(c.Args) == 1 && c05Ident(c.Args[0]) == t.items && t.items != "" {
				if bl, ok := x.Y.(*ast.BasicLit); ok && bl.Kind == token.INT {
					return neg("Nat.eqb (List.length " + t.items + ") " + bl.Value), nil
				}
			}
		}
	}
	return "", c05sErr(t.where, "condition %s", types.ExprString(e))
}

// ifNilChunk: `if _, ok := X.(nilChunk); ok` -> (X, true)
func c05sNilChunkTest(is *ast.IfStmt) (string, bool) {
	as, ok := is.Init.(*ast.AssignStmt)
	if !ok || as.Tok != token.DEFINE || len(as.Lhs) != 2 || len(as.Rhs) != 1 || c05Ident(as.Lhs[0]) != "_" || c05Ident(is.Cond) != c05Ident(as.Lhs[1]) {
		return "", false
	}
	ta, ok := as.Rhs[0].(*ast.TypeAssertExpr)
	if !ok || c05Ident(ta.Type) != "nilChunk" {
		return "", false
	}
	return c05Ident(ta.X), c05Ident(ta.X) != ""
}

// dynRet: the first result of a `return X, nil` of concatStream, as an entry
func (t *c05sTr) dynRet(e ast.Expr) (string, error) {
	if c05IsNil(e) {
		return "DNil", nil
	}
	if cl, ok := e.(*ast.CompositeLit); ok && c05Ident(cl.Type) == "nilChunk" && len(cl.Elts) == 0 {
		return "DNilChunk", nil
	}
	if id := c05Ident(e); id != "" && id == t.value {
		return "dyn_of_chunk " + id, nil
	}
	return "", c05sErr(t.where, "result %s", types.ExprString(e))
}

// streamRet: packStreamReader(schema.StreamReaderFromArray([]T{...})) -> the chunk list
func (t *c05sTr) streamRet(e ast.Expr) (string, error) {
	c, ok := e.(*ast.CallExpr)
	if !ok || c05Ident(c.Fun) != "packStreamReader" || len(c.Args) != 1 {
		return "", c05sErr(t.where, "result %s", types.ExprString(e))
	}
	in, ok := c.Args[0].(*ast.CallExpr)
	if !ok || types.ExprString(in.Fun) != "schema.StreamReaderFromArray" || len(in.Args) != 1 {
		return "", c05sErr(t.where, "result %s", types.ExprString(e))
	}
	cl, ok := in.Args[0].(*ast.CompositeLit)
	if !ok {
		return "", c05sErr(t.where, "result %s", types.ExprString(e))
	}
	if at, ok := cl.Type.(*ast.ArrayType); !ok || at.Len != nil || c05Ident(at.Elt) != "T" {
		return "", c05sErr(t.where, "result %s", types.ExprString(e))
	}
	var elts []string
	for _, el := range cl.Elts {
		switch id := c05Ident(el); {
		case id != "" && id == t.tZero:
			elts = append(elts, "zero_chunk")
		case id != "" && id == t.value:
			elts = append(elts, "Some "+id)
		default:
			return "", c05sErr(t.where, "stream element %s", types.ExprString(el))
		}
	}
	return "[" + strings.Join(elts, "; ") + "]", nil
}

func c05sIsErrNotNil(e ast.Expr) bool { return c05Squash(types.ExprString(e)) == "err!=nil" }

// zeroVar: `var t T` at the top of the function
func c05sZeroVar(l []ast.Stmt) string {
	for _, s := range l {
		if ds, ok := s.(*ast.DeclStmt); ok {
			if gd, ok := ds.Decl.(*ast.GenDecl); ok && gd.Tok == token.VAR && len(gd.Specs) == 1 {
				vs := gd.Specs[0].(*ast.ValueSpec)
				if len(vs.Names) == 1 && c05Ident(vs.Type) == "T" && len(vs.Values) == 0 {
					return vs.Names[0].Name
				}
			}
		}
	}
	return ""
}

// ---------------------------------------------------------------- concatStreamReader

func c05sConcatReader(f *ast.File) (string, error) {
	where := "concatStreamReader"
	fn := c05TopFunc(f, where)
	if fn == nil || fn.Body == nil {
		return "", c05sErr(where, "not found")
	}
	t := &c05sTr{where: where}
	l := fn.Body.List
	i := 0
	// defer sr.Close()
	if _, ok := l[i].(*ast.DeferStmt); ok {
		i++
	}
	// var items []T
	if ds, ok := l[i].(*ast.DeclStmt); ok {
		gd, _ := ds.Decl.(*ast.GenDecl)
		if gd == nil || gd.Tok != token.VAR || len(gd.Specs) != 1 {
			return "", c05sErr(where, "declaration of the item list")
		}
		t.items = gd.Specs[0].(*ast.ValueSpec).Names[0].Name
		i++
	} else {
		return "", c05sErr(where, "no `var items []T`")
	}
	// for { chunk, err := sr.Recv(); if err != nil { if err == io.EOF { break }; ...; return }; items = append(items, chunk) }
	fs, ok := l[i].(*ast.ForStmt)
	if ok && fs.Init == nil && fs.Cond == nil && fs.Post == nil && len(fs.Body.List) == 4 {
		// chunk, err := sr.Recv(); if err == io.EOF { break }; if err != nil { ...; return }; items = append(items, chunk)
		// is the loop with the end-of-stream test nested in the error branch (io.EOF is a non-nil error)
		if eof, isIf := fs.Body.List[1].(*ast.IfStmt); isIf && eof.Init == nil && eof.Else == nil && c05Squash(types.ExprString(eof.Cond)) == "err==io.EOF" {
			if eif, isIf2 := fs.Body.List[2].(*ast.IfStmt); isIf2 && eif.Init == nil && eif.Else == nil && c05sIsErrNotNil(eif.Cond) {
				merged := &ast.IfStmt{Cond: eif.Cond, Body: &ast.BlockStmt{List: append([]ast.Stmt{eof}, eif.Body.List...)}}
				fs = &ast.ForStmt{Body: &ast.BlockStmt{List: []ast.Stmt{fs.Body.List[0], merged, fs.Body.List[3]}}}
			}
		}
	}
	if !ok || fs.Init != nil || fs.Cond != nil || fs.Post != nil || len(fs.Body.List) != 3 {
		return "", c05sErr(where, "the receive loop")
	}
	recv, ok := fs.Body.List[0].(*ast.AssignStmt)
	if !ok || len(recv.Lhs) != 2 || len(recv.Rhs) != 1 || !strings.HasSuffix(types.ExprString(recv.Rhs[0]), ".Recv()") {
		return "", c05sErr(where, "the receive loop: no `chunk, err := sr.Recv()`")
	}
	chunk := c05Ident(recv.Lhs[0])
	eif, ok := fs.Body.List[1].(*ast.IfStmt)
	if !ok || !c05sIsErrNotNil(eif.Cond) || len(eif.Body.List) < 2 {
		return "", c05sErr(where, "the receive loop: error branch")
	}
	eof, ok := eif.Body.List[0].(*ast.IfStmt)
	if !ok || c05Squash(types.ExprString(eof.Cond)) != "err==io.EOF" || len(eof.Body.List) != 1 {
		return "", c05sErr(where, "the receive loop: no `if err == io.EOF { break }`")
	}
	if br, ok := eof.Body.List[0].(*ast.BranchStmt); !ok || br.Tok != token.BREAK {
		return "", c05sErr(where, "the receive loop: no `if err == io.EOF { break }`")
	}
	if !c05AlwaysReturns(eif.Body.List) {
		return "", c05sErr(where, "the receive loop: a read error does not return")
	}
	app, ok := fs.Body.List[2].(*ast.AssignStmt)
	if !ok || c05Ident(app.Lhs[0]) != t.items || c05Squash(types.ExprString(app.Rhs[0])) != "append("+t.items+","+chunk+")" {
		return "", c05sErr(where, "the receive loop: no `items = append(items, chunk)`")
	}
	i++
	// if len(items) == k { return R } ...
	ret := func(r *ast.ReturnStmt) (string, error) {
		if len(r.Results) != 2 {
			return "", c05sErr(where, "return with %d results", len(r.Results))
		}
		if c05Ident(r.Results[1]) == "emptyStreamConcatErr" {
			return "CEmpty", nil
		}
		if c05IsNil(r.Results[1]) {
			if ix, ok := r.Results[0].(*ast.IndexExpr); ok && c05Ident(ix.X) == t.items {
				if bl, ok := ix.Index.(*ast.BasicLit); ok && bl.Kind == token.INT {
					n, _ := strconv.Atoi(bl.Value)
					return fmt.Sprintf("COk (nth_chunk %d %s)", n, t.items), nil
				}
			}
		}
		return "", c05sErr(where, "result %s", types.ExprString(r.Results[0]))
	}
	var b strings.Builder
	for ; i < len(l); i++ {
		is, ok := l[i].(*ast.IfStmt)
		if !ok {
			break
		}
		if is.Init != nil || is.Else != nil {
			return "", c05sErr(where, "if statement with init / else")
		}
		c, err := t.cond(is.Cond)
		if err != nil {
			return "", err
		}
		var r *ast.ReturnStmt
		for _, s := range is.Body.List {
			if x, ok := s.(*ast.ReturnStmt); ok {
				r = x
			} else if _, ok := s.(*ast.DeclStmt); !ok {
				return "", c05sErr(where, "statement in an if block")
			}
		}
		if r == nil {
			return "", c05sErr(where, "if block without return")
		}
		rs, err := ret(r)
		if err != nil {
			return "", err
		}
		fmt.Fprintf(&b, "if %s then %s\n    else ", c, rs)
	}
	// res, err := internal.ConcatItems(items); if err != nil { return t, err }; return res, nil
	if i+3 != len(l) {
		return "", c05sErr(where, "the tail is not `res, err := internal.ConcatItems(items); if err != nil {...}; return res, nil`")
	}
	as, ok := l[i].(*ast.AssignStmt)
	if !ok || len(as.Lhs) != 2 || c05Squash(types.ExprString(as.Rhs[0])) != "internal.ConcatItems("+t.items+")" {
		return "", c05sErr(where, "the tail does not call internal.ConcatItems(items)")
	}
	res := c05Ident(as.Lhs[0])
	if is, ok := l[i+1].(*ast.IfStmt); !ok || !c05sIsErrNotNil(is.Cond) || !c05AlwaysReturns(is.Body.List) {
		return "", c05sErr(where, "the tail: error branch")
	}
	if r, ok := l[i+2].(*ast.ReturnStmt); !ok || len(r.Results) != 2 || c05Ident(r.Results[0]) != res || !c05IsNil(r.Results[1]) {
		return "", c05sErr(where, "the tail: no `return res, nil`")
	}
	b.WriteString("cres_of (concat_items " + t.items + ")")
	return strings.ReplaceAll(b.String(), t.items, "items"), nil
}

// ---------------------------------------------------------------- the closures of defaultStreamConvertPair

func c05sPairClosures(f *ast.File) (concat, restore string, err error) {
	where := "defaultStreamConvertPair"
	fn := c05TopFunc(f, where)
	if fn == nil || fn.Body == nil {
		return "", "", c05sErr(where, "not found")
	}
	tz := c05sZeroVar(fn.Body.List)
	var lit *ast.CompositeLit
	for _, s := range fn.Body.List {
		if r, ok := s.(*ast.ReturnStmt); ok && len(r.Results) == 1 {
			lit, _ = r.Results[0].(*ast.CompositeLit)
		}
	}
	if lit == nil || c05Ident(lit.Type) != "streamConvertPair" {
		return "", "", c05sErr(where, "no `return streamConvertPair{...}`")
	}
	var cf, rf *ast.FuncLit
	for _, el := range lit.Elts {
		kv, ok := el.(*ast.KeyValueExpr)
		if !ok {
			return "", "", c05sErr(where, "positional literal")
		}
		switch c05Ident(kv.Key) {
		case "concatStream":
			cf, _ = kv.Value.(*ast.FuncLit)
		case "restoreStream":
			rf, _ = kv.Value.(*ast.FuncLit)
		}
	}
	if cf == nil || rf == nil {
		return "", "", c05sErr(where, "concatStream / restoreStream are not function literals")
	}
	// ---- concatStream
	{
		t := &c05sTr{where: where + ".concatStream", tZero: tz}
		l := cf.Body.List
		i := 0
		// tsr, ok := unpackStreamReader[T](sr); if !ok { return nil, ... }
		if as, ok := l[i].(*ast.AssignStmt); ok && len(as.Lhs) == 2 && strings.HasPrefix(types.ExprString(as.Rhs[0]), "unpackStreamReader[") {
			i++
			if is, ok := l[i].(*ast.IfStmt); ok && c05AlwaysReturns(is.Body.List) {
				i++
			} else {
				return "", "", c05sErr(t.where, "no `if !ok { return ... }` after unpackStreamReader")
			}
		} else {
			return "", "", c05sErr(t.where, "first statement is not unpackStreamReader[T](sr)")
		}
		// value, err := concatStreamReader(tsr)
		as, ok := l[i].(*ast.AssignStmt)
		if !ok || len(as.Lhs) != 2 || !strings.HasPrefix(types.ExprString(as.Rhs[0]), "concatStreamReader(") {
			return "", "", c05sErr(t.where, "no `value, err := concatStreamReader(tsr)`")
		}
		t.value = c05Ident(as.Lhs[0])
		i++
		// if err != nil { if errors.Is(err, emptyStreamConcatErr) { return R, nil }; return nil, err }
		eif, ok := l[i].(*ast.IfStmt)
		if !ok || !c05sIsErrNotNil(eif.Cond) || len(eif.Body.List) != 2 {
			return "", "", c05sErr(t.where, "no error branch after concatStreamReader")
		}
		emp, ok := eif.Body.List[0].(*ast.IfStmt)
		if !ok || c05Squash(types.ExprString(emp.Cond)) != "errors.Is(err,emptyStreamConcatErr)" || len(emp.Body.List) != 1 {
			return "", "", c05sErr(t.where, "the error branch does not test errors.Is(err, emptyStreamConcatErr)")
		}
		er, ok := emp.Body.List[0].(*ast.ReturnStmt)
		if !ok || len(er.Results) != 2 || !c05IsNil(er.Results[1]) {
			return "", "", c05sErr(t.where, "the empty-stream branch does not return (x, nil)")
		}
		saved := t.value
		t.value = "" // the value is not valid in the error branch
		empty, e2 := t.dynRet(er.Results[0])
		t.value = saved
		if e2 != nil {
			return "", "", e2
		}
		if r, ok := eif.Body.List[1].(*ast.ReturnStmt); !ok || len(r.Results) != 2 || c05Ident(r.Results[1]) != "err" {
			return "", "", c05sErr(t.where, "the error branch does not end in `return nil, err`")
		}
		i++
		var b strings.Builder
		fmt.Fprintf(&b, "match concat_reader items with\n    | CEmpty => Ok %s\n    | CErr e => Err e\n    | COk %s =>\n        ", empty, t.value)
		for ; i < len(l)-1; i++ {
			is, ok := l[i].(*ast.IfStmt)
			if !ok || is.Init != nil || is.Else != nil || len(is.Body.List) != 1 {
				return "", "", c05sErr(t.where, "statement before the final return")
			}
			c, e3 := t.cond(is.Cond)
			if e3 != nil {
				return "", "", e3
			}
			r, ok := is.Body.List[0].(*ast.ReturnStmt)
			if !ok || len(r.Results) != 2 || !c05IsNil(r.Results[1]) {
				return "", "", c05sErr(t.where, "if block is not `return x, nil`")
			}
			rs, e3 := t.dynRet(r.Results[0])
			if e3 != nil {
				return "", "", e3
			}
			fmt.Fprintf(&b, "if %s then Ok %s\n        else ", c, rs)
		}
		r, ok := l[len(l)-1].(*ast.ReturnStmt)
		if !ok || len(r.Results) != 2 || !c05IsNil(r.Results[1]) {
			return "", "", c05sErr(t.where, "last statement is not `return value, nil`")
		}
		rs, e3 := t.dynRet(r.Results[0])
		if e3 != nil {
			return "", "", e3
		}
		fmt.Fprintf(&b, "Ok (%s)\n    end", rs)
		concat = strings.ReplaceAll(b.String(), t.value, "value")
	}
	// ---- restoreStream
	{
		t := &c05sTr{where: where + ".restoreStream", tZero: tz}
		if len(rf.Type.Params.List) != 1 || len(rf.Type.Params.List[0].Names) != 1 {
			return "", "", c05sErr(t.where, "parameters")
		}
		t.dynVar = rf.Type.Params.List[0].Names[0].Name
		var tr func(l []ast.Stmt, ind string) (string, error)
		tr = func(l []ast.Stmt, ind string) (string, error) {
			if len(l) == 0 {
				return "", c05sErr(t.where, "a path does not end in a return")
			}
			switch s := l[0].(type) {
			case *ast.ReturnStmt:
				if len(s.Results) != 2 {
					return "", c05sErr(t.where, "return with %d results", len(s.Results))
				}
				if !c05IsNil(s.Results[1]) {
					return "Err eDynType", nil
				}
				r, err := t.streamRet(s.Results[0])
				return "Ok " + r, err
			case *ast.IfStmt:
				if s.Else != nil || !c05AlwaysReturns(s.Body.List) {
					return "", c05sErr(t.where, "if statement with else / without return")
				}
				var c string
				if x, ok := c05sNilChunkTest(s); ok && x == t.dynVar {
					c = "dyn_is_nilchunk " + x
				} else if s.Init == nil {
					var err error
					if c, err = t.cond(s.Cond); err != nil {
						return "", err
					}
				} else {
					return "", c05sErr(t.where, "if statement %s", types.ExprString(s.Cond))
				}
				th, err := tr(s.Body.List, ind+"  ")
				if err != nil {
					return "", err
				}
				el, err := tr(l[1:], ind)
				if err != nil {
					return "", err
				}
				return fmt.Sprintf("if %s then %s\n%selse %s", c, th, ind, el), nil
			case *ast.AssignStmt:
				// value, ok := a.(T); if !ok { return nil, err }
				if s.Tok == token.DEFINE && len(s.Lhs) == 2 && len(s.Rhs) == 1 {
					if ta, ok := s.Rhs[0].(*ast.TypeAssertExpr); ok && c05Ident(ta.X) == t.dynVar && c05Ident(ta.Type) == "T" && len(l) >= 2 {
						okv := c05Ident(s.Lhs[1])
						is, ok := l[1].(*ast.IfStmt)
						if !ok || is.Init != nil || c05Squash(types.ExprString(is.Cond)) != "!"+okv || !c05AlwaysReturns(is.Body.List) {
							return "", c05sErr(t.where, "no `if !ok { return ... }` after the type assertion")
						}
						t.value = c05Ident(s.Lhs[0])
						rest, err := tr(l[2:], ind+"  ")
						if err != nil {
							return "", err
						}
						return fmt.Sprintf("match dyn_value %s with\n%s| Some %s => %s\n%s| None => Err eDynType\n%send", t.dynVar, ind, t.value, rest, ind, ind), nil
					}
				}
			}
			return "", c05sErr(t.where, "statement not recognised")
		}
		s, e := tr(rf.Body.List, "    ")
		if e != nil {
			return "", "", e
		}
		restore = s
		if t.dynVar != "a" {
			// the generated definition calls its parameter a
			restore = strings.NewReplacer(" "+t.dynVar+" ", " a ", " "+t.dynVar+"\n", " a\n").Replace(restore)
		}
	}
	return concat, restore, nil
}

// ---------------------------------------------------------------- convert / restore of checkpoint.go, per entry

// entryFunc translates convert / restore: `if !isStream { for key, v := range values { A }; return nil }; for key, v := range values { B }; return nil`
func c05sEntryFunc(f *ast.File, name, pairCall string) (string, error) {
	fn := c05TopFunc(f, name)
	if fn == nil || fn.Body == nil {
		return "", c05sErr(name, "not found")
	}
	pn := c05ParamNames(fn)
	if len(pn) != 3 || pn[2] != "isStream" {
		return "", c05sErr(name, "parameters %v", pn)
	}
	values := pn[0]
	l := fn.Body.List
	if len(l) != 3 {
		return "", c05sErr(name, "body is not `if !isStream {...}; for ... {...}; return nil`")
	}
	first, ok := l[0].(*ast.IfStmt)
	if !ok || first.Init != nil || first.Else != nil || c05Squash(types.ExprString(first.Cond)) != "!isStream" || !c05AlwaysReturns(first.Body.List) {
		return "", c05sErr(name, "first statement is not `if !isStream { ...; return nil }`")
	}
	if r, ok := l[2].(*ast.ReturnStmt); !ok || len(r.Results) != 1 || !c05IsNil(r.Results[0]) {
		return "", c05sErr(name, "last statement is not `return nil`")
	}
	loopOf := func(s ast.Stmt) (*ast.RangeStmt, string, string, error) {
		rs, ok := s.(*ast.RangeStmt)
		if !ok || c05Ident(rs.X) != values || rs.Tok != token.DEFINE || c05Ident(rs.Key) == "" || c05Ident(rs.Value) == "" {
			return nil, "", "", c05sErr(name, "no `for key, v := range %s`", values)
		}
		return rs, c05Ident(rs.Key), c05Ident(rs.Value), nil
	}
	// assigned: values[key] = X  ->  X as an entry
	assigned := func(s ast.Stmt, key, v string) (string, bool) {
		as, ok := s.(*ast.AssignStmt)
		if !ok || as.Tok != token.ASSIGN || len(as.Lhs) != 1 || len(as.Rhs) != 1 {
			return "", false
		}
		ix, ok := as.Lhs[0].(*ast.IndexExpr)
		if !ok || c05Ident(ix.X) != values || c05Ident(ix.Index) != key {
			return "", false
		}
		switch x := as.Rhs[0].(type) {
		case *ast.Ident:
			if x.Name == "nil" {
				return "DNil", true
			}
		case *ast.CompositeLit:
			if c05Ident(x.Type) == "nilChunk" && len(x.Elts) == 0 {
				return "DNilChunk", true
			}
		}
		return "", false
	}
	// ---- without streams
	nonStream := "Ok v"
	switch len(first.Body.List) {
	case 1:
	case 2:
		rs, key, v, err := loopOf(first.Body.List[0])
		if err != nil {
			return "", err
		}
		t := &c05sTr{where: name, dynVar: v}
		var b strings.Builder
		for _, s := range rs.Body.List {
			is, ok := s.(*ast.IfStmt)
			if !ok || is.Else != nil || len(is.Body.List) != 1 {
				return "", c05sErr(name, "statement in the loop of the branch without streams")
			}
			var c string
			if x, ok := c05sNilChunkTest(is); ok && x == v {
				c = "dyn_is_nilchunk v"
			} else if is.Init == nil {
				if c, err = t.cond(is.Cond); err != nil {
					return "", err
				}
				c = strings.ReplaceAll(c, " "+v, " v")
			} else {
				return "", c05sErr(name, "if statement in the loop of the branch without streams")
			}
			x, ok := assigned(is.Body.List[0], key, v)
			if !ok {
				return "", c05sErr(name, "the loop of the branch without streams does not assign nil / nilChunk{} to %s[%s]", values, key)
			}
			fmt.Fprintf(&b, "if %s then Ok %s else ", c, x)
		}
		nonStream = b.String() + "Ok v"
	default:
		return "", c05sErr(name, "the branch without streams")
	}
	// ---- with streams
	rs, key, v, err := loopOf(l[1])
	if err != nil {
		return "", err
	}
	stream := ""
	srVar := ""
	done := false
	body := rs.Body.List
	for i := 0; i < len(body); i++ {
		switch s := body[i].(type) {
		case *ast.AssignStmt:
			if len(s.Rhs) != 1 {
				return "", c05sErr(name, "assignment in the loop")
			}
			// convPair, ok := convPairs[key]
			if ix, ok := s.Rhs[0].(*ast.IndexExpr); ok && c05Ident(ix.X) == pn[1] && c05Ident(ix.Index) == key && len(s.Lhs) == 2 {
				if i+1 < len(body) {
					if is, ok := body[i+1].(*ast.IfStmt); ok && c05AlwaysReturns(is.Body.List) {
						i++
						continue
					}
				}
				return "", c05sErr(name, "no error exit after the convert pair lookup")
			}
			// sr, ok := v.(streamReader)
			if ta, ok := s.Rhs[0].(*ast.TypeAssertExpr); ok && c05Ident(ta.X) == v && c05Ident(ta.Type) == "streamReader" && len(s.Lhs) == 2 && !done {
				if i+1 < len(body) {
					if is, ok := body[i+1].(*ast.IfStmt); ok && c05Squash(types.ExprString(is.Cond)) == "!"+c05Ident(s.Lhs[1]) && c05AlwaysReturns(is.Body.List) {
						srVar = c05Ident(s.Lhs[0])
						i++
						continue
					}
				}
				return "", c05sErr(name, "no error exit after the stream assertion")
			}
			// x, err := convPair.<pairCall>(arg)
			if c, ok := s.Rhs[0].(*ast.CallExpr); ok && len(s.Lhs) == 2 && len(c.Args) == 1 && !done {
				if _, m, ok := c05Sel(c.Fun); ok && m == pairCall {
					arg := c05Ident(c.Args[0])
					res := c05Ident(s.Lhs[0])
					if i+2 >= len(body) {
						return "", c05sErr(name, "nothing after the call of %s", pairCall)
					}
					if is, ok := body[i+1].(*ast.IfStmt); !ok || !c05sIsErrNotNil(is.Cond) || !c05AlwaysReturns(is.Body.List) {
						return "", c05sErr(name, "no error exit after the call of %s", pairCall)
					}
					as, ok := body[i+2].(*ast.AssignStmt)
					if !ok || len(as.Lhs) != 1 || c05Squash(types.ExprString(as.Lhs[0])) != values+"["+key+"]" || c05Ident(as.Rhs[0]) != res {
						return "", c05sErr(name, "the result of %s is not stored in %s[%s]", pairCall, values, key)
					}
					switch pairCall {
					case "concatStream":
						if arg != srVar || srVar == "" {
							return "", c05sErr(name, "concatStream is not applied to the asserted stream")
						}
						stream = "match v with\n      | DStream sr => concat_stream sr\n      | _ => Err eDynType\n      end"
					case "restoreStream":
						if arg != v {
							return "", c05sErr(name, "restoreStream is not applied to the entry")
						}
						stream = "do s <- restore_stream v; Ok (DStream s)"
					}
					done = true
					i += 2
					continue
				}
			}
			return "", c05sErr(name, "assignment in the loop: %s", types.ExprString(s.Rhs[0]))
		case *ast.IfStmt:
			// if [v != nil &&] isMappedFragment(...) { convPair = ... }: which pair, i.e. which chunk type
			if strings.Contains(types.ExprString(s.Cond), "isMappedFragment(") && s.Else == nil && len(s.Body.List) == 1 && !done {
				if as, ok := s.Body.List[0].(*ast.AssignStmt); ok && len(as.Lhs) == 1 && strings.HasSuffix(strings.ToLower(c05Ident(as.Lhs[0])), "pair") {
					continue
				}
			}
			return "", c05sErr(name, "if %s in the loop", types.ExprString(s.Cond))
		default:
			return "", c05sErr(name, "statement in the loop")
		}
	}
	if !done {
		return "", c05sErr(name, "the loop does not call %s", pairCall)
	}
	return fmt.Sprintf("if negb isStream then %s\n    else %s", nonStream, stream), nil
}

// ---------------------------------------------------------------- the wrappers of streamConverter

// c05sWrapper: the method streamConverter.<name>(…, isStream bool, …, values map[string]any, …). true = every `return` of
// its body returns the call `<entry>(values, <pairs>, isStream)` (which pairs: decides the chunk type only, skipped);
// false = some path returns nil without having called <entry> (the entries of that path are not converted / restored).
// Any other return, or an assignment to values / isStream: source shape not recognised.
func c05sWrapper(f *ast.File, name, entry string) (bool, error) {
	fn := c05MethodOf(f, "streamConverter", name)
	if fn == nil || fn.Body == nil {
		return false, c05sErr(name, "not found")
	}
	values, hasStream := "", false
	for _, p := range fn.Type.Params.List {
		for _, n := range p.Names {
			if n.Name == "isStream" {
				hasStream = true
			}
			if _, isMap := p.Type.(*ast.MapType); isMap && c05Squash(types.ExprString(p.Type)) == "map[string]any" {
				values = n.Name
			}
		}
	}
	if values == "" || !hasStream {
		return false, c05sErr(name, "no isStream / values parameter")
	}
	reaches, nret := true, 0
	var bad error
	ast.Inspect(fn.Body, func(n ast.Node) bool {
		switch x := n.(type) {
		case *ast.FuncLit:
			return false
		case *ast.AssignStmt:
			for _, l := range x.Lhs {
				if id := c05Ident(l); id == values || id == "isStream" {
					bad = c05sErr(name, "assignment to %s", id)
				}
			}
		case *ast.ReturnStmt:
			nret++
			if len(x.Results) != 1 {
				bad = c05sErr(name, "return with %d results", len(x.Results))
				return true
			}
			if c05IsNil(x.Results[0]) {
				reaches = false
				return true
			}
			call, ok := x.Results[0].(*ast.CallExpr)
			if !ok || c05Ident(call.Fun) != entry || len(call.Args) != 3 || c05Ident(call.Args[0]) != values || c05Ident(call.Args[2]) != "isStream" {
				bad = c05sErr(name, "return of something else than %s(%s, _, isStream)", entry, values)
			}
		}
		return true
	})
	if bad != nil {
		return false, bad
	}
	if nret == 0 || !c05AlwaysReturns(fn.Body.List) {
		return false, c05sErr(name, "a path without return")
	}
	return reaches, nil
}

// ---------------------------------------------------------------- the extractor

func c05sExtract(repo string) (string, string, error) {
	fset := token.NewFileSet()
	scF, err := c05ParseGo(fset, repo, "compose", "stream_concat.go")
	if err != nil {
		return "", "", err
	}
	ghF, err := c05ParseGo(fset, repo, "compose", "generic_helper.go")
	if err != nil {
		return "", "", err
	}
	cpF, err := c05ParseGo(fset, repo, "compose", "checkpoint.go")
	if err != nil {
		return "", "", err
	}
	cr, err := c05sConcatReader(scF)
	if err != nil {
		return "", "", err
	}
	cs, rst, err := c05sPairClosures(ghF)
	if err != nil {
		return "", "", err
	}
	ce, err := c05sEntryFunc(cpF, "convert", "concatStream")
	if err != nil {
		return "", "", err
	}
	re, err := c05sEntryFunc(cpF, "restore", "restoreStream")
	if err != nil {
		return "", "", err
	}
	var wr []string
	for _, w := range [][2]string{{"convertInputs", "convert"}, {"restoreInputs", "restore"}, {"convertOutputs", "convert"}, {"restoreOutputs", "restore"}} {
		ok, err := c05sWrapper(cpF, w[0], w[1])
		if err != nil {
			return "", "", err
		}
		wr = append(wr, strconv.FormatBool(ok))
	}
	var b strings.Builder
	b.WriteString("(* Gen/CheckpointStream.v — GENERATED by tools/go2v (extractor \"cpstream\") from compose/stream_concat.go\n")
	b.WriteString("   (concatStreamReader), generic_helper.go (defaultStreamConvertPair) and checkpoint.go (convert, restore).\n   Do not edit. *)\n")
	b.WriteString("From Eino Require Import Base.Util Model.CheckpointStreamLib.\n\n")
	b.WriteString("Definition stream_tie_available : bool := true.\n\n")
	b.WriteString("Section Gen.\n  Variable V : Type.\n  Variable concat_items : list (option V) -> res (option V).\n\n")
	fmt.Fprintf(&b, "  Definition concat_reader (items : list (option V)) : cres V :=\n    %s.\n\n", cr)
	fmt.Fprintf(&b, "  Definition concat_stream (items : list (option V)) : res (dyn V) :=\n    %s.\n\n", cs)
	fmt.Fprintf(&b, "  Definition restore_stream (a : dyn V) : res (list (option V)) :=\n    %s.\n\n", rst)
	fmt.Fprintf(&b, "  Definition convert_entry (isStream : bool) (v : dyn V) : res (dyn V) :=\n    %s.\n\n", ce)
	fmt.Fprintf(&b, "  Definition restore_entry (isStream : bool) (v : dyn V) : res (dyn V) :=\n    %s.\n", re)
	b.WriteString("End Gen.\n\n")
	b.WriteString("(* convertInputs, restoreInputs, convertOutputs, restoreOutputs of streamConverter: does EVERY path of the wrapper hand\n" +
		"   the entries, with the run's own isStream, to convert / restore (pending inputs and channel values alike)? *)\n")
	fmt.Fprintf(&b, "Definition wrappers_reach_entry : bool * bool * bool * bool := (%s).\n", strings.Join(wr, ", "))
	return "CheckpointStream.v", b.String(), nil
}
