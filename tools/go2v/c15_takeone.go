package main

// Extractor "c15_takeone" (property C15): compose/field_mapping.go — the request-time source walkers
//     checkAndExtractFromMapKey, checkAndExtractFromField, takeOne
// translated statement by statement into Gallina over the values of Base/FMUniverse.v and the reflect.Value
// vocabulary of Model/FieldMapGenLib.v (rv = the zero Value or a value with "Kind is Interface" / CanInterface).
// fieldByName(v, name, false) itself is vocabulary (rv_field_by_name).
//
// Fragment: straight-line code with early returns and one `switch X.Kind()` whose cases may end in `fallthrough`:
//     if C { … }                          C built with && || ! from  X.IsValid()  X.CanInterface()
//                                           X.Kind() ==/!= reflect.K   T.Kind() == reflect.K (T a reflect.Type that may be nil: partial)
//                                           reflect.TypeOf(key).AssignableTo(X.Type().Key())   (partial: X must be a map)
//     x, err :=/= G(…); if err != nil { return …, err }      G: checkAndExtractFromMapKey, checkAndExtractFromField, fieldByName(…, false)
//     v := X.MapIndex(reflect.ValueOf(key))      X = X.Elem()      (partial)
//     a variable that only feeds error messages (ptrType := X.Type()) is dropped
//     return <value>, nil      return X.Interface(), X.Type(), nil      (partial)
//     return …, <error>        fmt.Errorf(… %w …, &errMapKeyNotFound{…}) = GErrKey, &errInterfaceNotValidForFieldMapping{…} = GErrIface,
//                              any other fmt.Errorf = GErrOther
// Output: coq/Gen/C15TakeOne.v; Proofs/GenAgreeC15.v proves take_one of the generated file equal to Model/FieldMap.v's
// take_one (error classes: key not found / anything else).

import (
	"fmt"
	"go/ast"
	"go/token"
	"go/types"
	"strings"
)

func init() {
	register("c15_takeone", c15ExtractTakeOne)
	registerFallback("c15_takeone", "C15TakeOne.v", c15RefTakeOne)
}

type c15toTr struct {
	rvVars  map[string]bool // reflect.Value variables
	keyVar  string          // the string parameter (field name / map key)
	otyVars map[string]bool // reflect.Type variables that may be nil
	msgOnly map[string]bool
	nres    int // number of results of the function being translated
}

func (t *c15toTr) rvExpr(e ast.Expr) (string, bool) {
	if id, ok := e.(*ast.Ident); ok && t.rvVars[id.Name] {
		return c15vn(id.Name), true
	}
	return "", false
}

// condition -> (expr, partial)
func (t *c15toTr) cond(e ast.Expr) (string, bool, error) {
	switch x := e.(type) {
	case *ast.ParenExpr:
		return t.cond(x.X)
	case *ast.UnaryExpr:
		if x.Op == token.NOT {
			s, p, err := t.cond(x.X)
			if err != nil {
				return "", false, err
			}
			if p {
				return "(option_map negb " + s + ")", true, nil
			}
			return "(negb " + s + ")", false, nil
		}
	case *ast.CallExpr:
		if recv, m, ok := c15method0(x); ok {
			if r, ok := t.rvExpr(recv); ok {
				switch m {
				case "IsValid":
					return "(rv_is_valid " + r + ")", false, nil
				case "CanInterface":
					return "(rv_can_interface " + r + ")", false, nil
				}
			}
		}
		// reflect.TypeOf(key).AssignableTo(X.Type().Key())
		if sel, ok := x.Fun.(*ast.SelectorExpr); ok && sel.Sel.Name == "AssignableTo" && len(x.Args) == 1 && c15sq(sel.X) == "reflect.TypeOf("+t.keyVar+")" {
			for v := range t.rvVars {
				if c15sq(x.Args[0]) == v+".Type().Key()" {
					return "(rv_key_is_string " + c15vn(v) + ")", true, nil
				}
			}
		}
	case *ast.BinaryExpr:
		switch x.Op {
		case token.LAND, token.LOR:
			l, lp, err := t.cond(x.X)
			if err != nil {
				return "", false, err
			}
			r, rp, err := t.cond(x.Y)
			if err != nil {
				return "", false, err
			}
			if lp || rp {
				return "", false, fmt.Errorf("a partial operation inside && / ||")
			}
			op := "&&"
			if x.Op == token.LOR {
				op = "||"
			}
			return "(" + l + " " + op + " " + r + ")", false, nil
		case token.EQL, token.NEQ:
			if k, ok := c15reflectKind(x.Y); ok {
				if recv, m, ok := c15method0(x.X); ok && m == "Kind" {
					neg := x.Op == token.NEQ
					if r, ok := t.rvExpr(recv); ok {
						s := "(rv_kind_is " + c15coqStr(k) + " " + r + ")"
						if neg {
							s = "(negb " + s + ")"
						}
						return s, false, nil
					}
					if id, ok := recv.(*ast.Ident); ok && t.otyVars[id.Name] {
						s := "(rt_okind_is " + c15coqStr(k) + " " + c15vn(id.Name) + ")"
						if neg {
							s = "(option_map negb " + s + ")"
						}
						return s, true, nil
					}
				}
			}
		}
	}
	return "", false, fmt.Errorf("condition %s is outside the translated fragment", types.ExprString(e))
}

// an error expression -> gerr constructor
func c15errClass(e ast.Expr) (string, bool) {
	if ue, ok := e.(*ast.UnaryExpr); ok && ue.Op == token.AND {
		if cl, ok := ue.X.(*ast.CompositeLit); ok {
			switch c15sq(cl.Type) {
			case "errInterfaceNotValidForFieldMapping":
				return "GErrIface", true
			case "errMapKeyNotFound":
				return "GErrKey", true
			}
		}
	}
	if call, ok := e.(*ast.CallExpr); ok && c15sq(call.Fun) == "fmt.Errorf" && len(call.Args) >= 1 {
		wraps := ""
		for _, a := range call.Args[1:] {
			if c, ok := c15errClass(a); ok {
				wraps = c
			}
		}
		if wraps != "" {
			if lit, ok := call.Args[0].(*ast.BasicLit); ok && strings.Contains(lit.Value, "%w") {
				return wraps, true
			}
			return "", false
		}
		return "GErrOther", true
	}
	return "", false
}

func (t *c15toTr) ret(r *ast.ReturnStmt) (string, error) {
	if len(r.Results) != t.nres {
		return "", fmt.Errorf("return with %d results", len(r.Results))
	}
	last := r.Results[len(r.Results)-1]
	if !c15isNil(last) {
		if c, ok := c15errClass(last); ok {
			return "Some (GErr " + c + ")", nil
		}
		return "", fmt.Errorf("returned error %s is outside the translated fragment", types.ExprString(last))
	}
	if t.nres == 2 {
		if v, ok := t.rvExpr(r.Results[0]); ok {
			return "Some (GOk " + v + ")", nil
		}
	}
	if t.nres == 3 {
		// X.Interface(), X.Type(), nil
		ra, ma, oka := c15method0(r.Results[0])
		rb, mb, okb := c15method0(r.Results[1])
		if oka && okb && ma == "Interface" && mb == "Type" && c15sq(ra) == c15sq(rb) {
			if v, ok := t.rvExpr(ra); ok {
				return "match rv_interface " + v + ", rv_type " + v + " with Some x__, Some t__ => Some (GOk (x__, t__)) | _, _ => None end", nil
			}
		}
	}
	return "", fmt.Errorf("return %s … is outside the translated fragment", types.ExprString(r.Results[0]))
}

// x, err (:= | =) G(args) ; if err != nil { return …, err }
func (t *c15toTr) callPair(l []ast.Stmt) (bind, call string, ok bool) {
	if len(l) < 2 {
		return "", "", false
	}
	as, ok1 := l[0].(*ast.AssignStmt)
	is, ok2 := l[1].(*ast.IfStmt)
	if !ok1 || !ok2 || len(as.Lhs) != 2 || len(as.Rhs) != 1 || c15sq(as.Lhs[1]) != "err" {
		return "", "", false
	}
	if is.Init != nil || is.Else != nil || c15sq(is.Cond) != "err!=nil" || len(is.Body.List) != 1 {
		return "", "", false
	}
	r, okr := is.Body.List[0].(*ast.ReturnStmt)
	if !okr || len(r.Results) != t.nres || c15sq(r.Results[len(r.Results)-1]) != "err" {
		return "", "", false
	}
	c, okc := as.Rhs[0].(*ast.CallExpr)
	if !okc {
		return "", "", false
	}
	args := func(n int) ([]string, bool) {
		if len(c.Args) != n {
			return nil, false
		}
		var out []string
		for _, a := range c.Args {
			out = append(out, c15sq(a))
		}
		return out, true
	}
	bind = c15sq(as.Lhs[0])
	switch c15sq(c.Fun) {
	case "checkAndExtractFromMapKey", "checkAndExtractFromField":
		if a, ok := args(2); ok && a[0] == t.keyVar && t.rvVars[a[1]] {
			fn := map[string]string{"checkAndExtractFromMapKey": "check_and_extract_from_map_key", "checkAndExtractFromField": "check_and_extract_from_field"}[c15sq(c.Fun)]
			return bind, fn + " env " + c15vn(a[0]) + " " + c15vn(a[1]), true
		}
	case "fieldByName":
		if a, ok := args(3); ok && t.rvVars[a[0]] && a[1] == t.keyVar && a[2] == "false" {
			return bind, "rv_field_by_name env " + c15vn(a[0]) + " " + c15vn(a[1]), true
		}
	}
	return "", "", false
}

func (t *c15toTr) stmts(l []ast.Stmt, k string, ind string) (string, error) {
	if len(l) == 0 {
		return k, nil
	}
	if bind, call, ok := t.callPair(l); ok {
		t.rvVars[bind] = true
		r, err := t.stmts(l[2:], k, ind+"    ")
		if err != nil {
			return "", err
		}
		return "match " + call + " with\n" + ind + "| None => None\n" + ind + "| Some (GErr e__) => Some (GErr e__)\n" + ind +
			"| Some (GOk " + c15vn(bind) + ") =>\n" + ind + "    " + r + "\n" + ind + "end", nil
	}
	rest := func() (string, error) { return t.stmts(l[1:], k, ind) }
	switch x := l[0].(type) {
	case *ast.ReturnStmt:
		return t.ret(x)
	case *ast.DeclStmt:
		// var f reflect.Value (assigned before it is read)
		if gd, ok := x.Decl.(*ast.GenDecl); ok && gd.Tok == token.VAR {
			for _, sp := range gd.Specs {
				if vs := sp.(*ast.ValueSpec); len(vs.Values) != 0 {
					return "", fmt.Errorf("var declaration with a value")
				}
			}
			return rest()
		}
	case *ast.AssignStmt:
		if len(x.Lhs) == 1 && len(x.Rhs) == 1 {
			lhs := c15sq(x.Lhs[0])
			if x.Tok == token.DEFINE && t.msgOnly[lhs] {
				return rest()
			}
			// X = X.Elem()
			if recv, m, ok := c15method0(x.Rhs[0]); ok && m == "Elem" && x.Tok == token.ASSIGN && t.rvVars[lhs] {
				if r, ok := t.rvExpr(recv); ok {
					rs, err := rest()
					return "match rv_elem " + r + " with\n" + ind + "| None => None\n" + ind + "| Some " + c15vn(lhs) + " =>\n" + ind + "    " + rs + "\n" + ind + "end", err
				}
			}
			// v := X.MapIndex(reflect.ValueOf(key))
			if call, ok := x.Rhs[0].(*ast.CallExpr); ok && x.Tok == token.DEFINE && len(call.Args) == 1 && c15sq(call.Args[0]) == "reflect.ValueOf("+t.keyVar+")" {
				if sel, ok := call.Fun.(*ast.SelectorExpr); ok && sel.Sel.Name == "MapIndex" {
					if r, ok := t.rvExpr(sel.X); ok {
						t.rvVars[lhs] = true
						rs, err := rest()
						return "match rv_map_index " + r + " " + c15vn(t.keyVar) + " with\n" + ind + "| None => None\n" + ind + "| Some " + c15vn(lhs) + " =>\n" + ind + "    " + rs + "\n" + ind + "end", err
					}
				}
			}
		}
	case *ast.IfStmt:
		if x.Init != nil || x.Else != nil {
			return "", fmt.Errorf("if with init / else")
		}
		c, partial, err := t.cond(x.Cond)
		if err != nil {
			return "", err
		}
		after, err := rest()
		if err != nil {
			return "", err
		}
		th, err := t.stmts(x.Body.List, after, ind+"    ")
		if err != nil {
			return "", err
		}
		if partial {
			return "match " + c + " with\n" + ind + "| None => None\n" + ind + "| Some true =>\n" + ind + "    " + th + "\n" + ind + "| Some false =>\n" + ind + "    " + after + "\n" + ind + "end", nil
		}
		return "if " + c + " then\n" + ind + "    " + th + "\n" + ind + "else\n" + ind + "    " + after, nil
	case *ast.SwitchStmt:
		// switch X.Kind() { case K…: body [fallthrough] … default: body }
		if x.Init != nil {
			break
		}
		recv, m, ok := c15method0(x.Tag)
		if !ok || m != "Kind" {
			break
		}
		sv, ok := t.rvExpr(recv)
		if !ok {
			break
		}
		after, err := rest()
		if err != nil {
			return "", err
		}
		type arm struct {
			kinds []string
			body  []ast.Stmt
			fall  bool
			def   bool
		}
		var arms []arm
		for _, cs := range x.Body.List {
			cl := cs.(*ast.CaseClause)
			a := arm{def: cl.List == nil, body: cl.Body}
			for _, ke := range cl.List {
				kn, ok := c15reflectKind(ke)
				if !ok {
					return "", fmt.Errorf("case %s", types.ExprString(ke))
				}
				a.kinds = append(a.kinds, kn)
			}
			if n := len(a.body); n > 0 {
				if br, ok := a.body[n-1].(*ast.BranchStmt); ok && br.Tok == token.FALLTHROUGH {
					a.fall, a.body = true, a.body[:n-1]
				}
			}
			arms = append(arms, a)
		}
		// the switch tests the value the variable has when the switch is entered: bind it
		tag := "sw__"
		// bodies from the last to the first (a body that falls through continues with the next one, in its scope)
		texts := make([]string, len(arms))
		for i := len(arms) - 1; i >= 0; i-- {
			kk := after
			if arms[i].fall {
				if i+1 >= len(arms) {
					return "", fmt.Errorf("fallthrough in the last case")
				}
				// the next body is translated again in the scope reached here (textual continuation)
				nb, err := t.stmts(arms[i+1].body, after, ind+"    ")
				if err != nil {
					return "", err
				}
				if arms[i+1].fall {
					return "", fmt.Errorf("two fallthroughs in a row")
				}
				kk = nb
			}
			texts[i], err = t.stmts(arms[i].body, kk, ind+"    ")
			if err != nil {
				return "", err
			}
		}
		out := "let " + tag + " := " + sv + " in\n" + ind
		def := after
		for i, a := range arms {
			if a.def {
				def = texts[i]
				continue
			}
			var cs []string
			for _, kn := range a.kinds {
				cs = append(cs, "rv_kind_is "+c15coqStr(kn)+" "+tag)
			}
			out += "if (" + strings.Join(cs, " || ") + ") then\n" + ind + "    " + texts[i] + "\n" + ind + "else "
		}
		out += "\n" + ind + "    " + def
		return out, nil
	}
	return "", fmt.Errorf("statement outside the translated fragment: %s", c15stmtString(l[0]))
}

// variables defined with := whose only uses are inside the arguments of fmt.Errorf / error literals
func c15msgOnlyDefs(fn *ast.FuncDecl) map[string]bool {
	out := map[string]bool{}
	ast.Inspect(fn.Body, func(n ast.Node) bool {
		if as, ok := n.(*ast.AssignStmt); ok && as.Tok == token.DEFINE && len(as.Lhs) == 1 {
			if id, ok := as.Lhs[0].(*ast.Ident); ok {
				out[id.Name] = true
			}
		}
		return true
	})
	for name := range out {
		total, inErr := 0, 0
		count := func(n ast.Node) int {
			c := 0
			ast.Inspect(n, func(m ast.Node) bool {
				if id, ok := m.(*ast.Ident); ok && id.Name == name {
					c++
				}
				return true
			})
			return c
		}
		total = count(fn.Body)
		ast.Inspect(fn.Body, func(n ast.Node) bool {
			if call, ok := n.(*ast.CallExpr); ok && c15sq(call.Fun) == "fmt.Errorf" {
				for _, a := range call.Args {
					inErr += count(a)
				}
				return false
			}
			return true
		})
		if total != inErr+1 {
			delete(out, name)
		}
	}
	return out
}

func c15translateWalker(f *ast.File, name string, params []string, nres int, coqSig string, rvParams []string, keyParam string, otyParams []string) (string, error) {
	fn := c15topFunc(f, name)
	if fn == nil || fn.Body == nil {
		return "", fmt.Errorf("func %s not found", name)
	}
	var ps []string
	for _, fl := range fn.Type.Params.List {
		for _, n := range fl.Names {
			ps = append(ps, n.Name+" "+types.ExprString(fl.Type))
		}
	}
	if strings.Join(ps, ",") != strings.Join(params, ",") {
		return "", fmt.Errorf("%s: parameters (%s)", name, strings.Join(ps, ", "))
	}
	t := &c15toTr{rvVars: map[string]bool{}, otyVars: map[string]bool{}, keyVar: keyParam, msgOnly: c15msgOnlyDefs(fn), nres: nres}
	for _, p := range rvParams {
		t.rvVars[p] = true
	}
	for _, p := range otyParams {
		t.otyVars[p] = true
	}
	body, err := t.stmts(fn.Body.List, "None", "  ")
	if err != nil {
		return "", fmt.Errorf("%s: %v", name, err)
	}
	return coqSig + " :=\n  " + body + ".\n\n", nil
}

func c15ExtractTakeOne(repo string) (string, string, error) {
	fset := token.NewFileSet()
	f, err := c15parseGo(fset, repo, "compose", "field_mapping.go")
	if err != nil {
		return "", "", err
	}
	mk, err := c15translateWalker(f, "checkAndExtractFromMapKey", []string{"fromMapKey string", "input reflect.Value"}, 2,
		"Definition check_and_extract_from_map_key (env : senv) (fromMapKey : N) (input : rv) : option (gres rv)", []string{"input"}, "fromMapKey", nil)
	if err != nil {
		return "", "", err
	}
	fl, err := c15translateWalker(f, "checkAndExtractFromField", []string{"fromField string", "input reflect.Value"}, 2,
		"Definition check_and_extract_from_field (env : senv) (fromField : N) (input : rv) : option (gres rv)", []string{"input"}, "fromField", nil)
	if err != nil {
		return "", "", err
	}
	to, err := c15translateWalker(f, "takeOne", []string{"inputValue reflect.Value", "inputType reflect.Type", "from string"}, 3,
		"Definition take_one (env : senv) (inputValue : rv) (inputType : option ty) (from : N) : option (gres (val * option ty))", []string{"inputValue"}, "from", []string{"inputType"})
	if err != nil {
		return "", "", err
	}
	var b strings.Builder
	b.WriteString("(* Gen/C15TakeOne.v — GENERATED by tools/go2v (extractor \"c15_takeone\") from compose/field_mapping.go\n")
	b.WriteString("   (checkAndExtractFromMapKey, checkAndExtractFromField, takeOne, translated statement by statement). Do not edit. *)\n")
	b.WriteString("From Eino Require Import Base.Util Base.FMUniverse Model.FieldMap Model.FieldMapGenLib.\n\n")
	b.WriteString("Definition tie_available : bool := true.\n\n")
	b.WriteString(mk + fl + to)
	return "C15TakeOne.v", b.String(), nil
}
