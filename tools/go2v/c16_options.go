package main

// Extractors of property C16 (call options reach exactly the nodes they address):
//
//   "c16extract"    compose/graph_call_options.go  Option.deepCopy  (which field of the copy comes from where)
//                   compose/utils.go               extractOption    (translated statement by statement)
//                   -> coq/Gen/OptExtract.v
//   "c16callbacks"  compose/utils.go  initGraphCallbacks, initNodeCallbacks (statement by statement)
//                   -> coq/Gen/OptCallbacks.v
//   "c16designate"  compose/graph_call_options.go  Option.DesignateNodeWithPath (statement by statement, on the
//                   level of Go slices: make / append over a heap of arrays, Base/GoSlice.v)
//                   -> coq/Gen/OptDesignate.v
//   "c16tasks"      compose/graph_run.go  runner.createTasks / runner.restoreTasks (which option slice a task is
//                   built with), runner.run / calculateNextTasks / initTaskManager and compose/graph_manager.go
//                   taskManager.executor (the data flow of the call's options: extracted once, unconditionally,
//                   by runner.extractOption from the call's own list; handed to every task construction; the
//                   task's slice handed to the node, the call's list to initNodeCallbacks)
//                   -> coq/Gen/OptTasks.v
//
// Proofs/GenAgreeC16.v proves the generated definitions equal to extract_option, graph_handlers,
// node_handlers (Model/Options.v) and designate_go (Model/OptionsSlice.v), the functions the C16 theorems are
// about.  The vocabulary (what a Go operation of the fragment means on the model's data) is Model/OptionsGenLib.v.
//
// The translator is a small compiler for the imperative fragment these functions are written in.  A function
// mutates ONE variable (the accumulator: optMap / cbs); a block becomes an expression of type [ctl A]:
//   for _, x := range l { … }   for k, v := range nodes { … }   for i := range l { … l[i] … }     go_range
//   if C { … } [else if …] [else { … }]        C built with && || ! ( ) from the atoms
//        len(e) == n / != n      e == nil / != nil (an option type)      reflect.TypeOf(v) == t / != t
//        a == b on node keys
//   if x, ok = m[k]; !ok { …no fall through… }                                             find_node
//   continue   break   return acc, nil   return nil, fmt.Errorf("…")   return icb.AppendHandlers(ctx, ri, acc...)   (ri: an ignored local, or an expression over no translated variable)
//   acc[k] = append(acc[k], x) / (…, xs...)        acc = append(acc, xs...)
//   x := e     x.paths = e     var x T
//   e ::= variable | e.field | e[0] | e[1:] | l[i] | len(e) | e.deepCopy() | NewNodePath(e...) | []*NodePath{e, …}
//   e[0] and e[1:] are partial (index out of range): the translation binds them through an option and ends in
//   Crash (a panic); the agreement theorems show that this never happens.
// Round 5 — rewrites absorbed before / while translating (the translation of the unchanged source is not affected):
//   a condition that is a call of a private predicate helper `return <bool expr>` (inlinePred); a statement helper that is
//   handed the accumulator map, called as `h(acc, …)` or `if err := h(acc, …); err != nil { return nil, err }`
//   (inlineStmtHelper); `if h(args) { A }` with h a search loop `for … { if C { return true } }; return false`
//   (c16SearchHelperLoop: the loop with `A; break`); a straight-line expression helper (inlineExprHelper);
//   switch { … } / switch tag { … } as if-chains; bare blocks; `v, ok := m[k]` followed by `if !ok { … }`; `p := &s[i]`;
//   < > <= >= on lengths; the accumulator under any name (c16AccName).
// Statements that only touch the RunInfo (ri := …; if meta != nil { ri.X = … }) are outside the model; they are
// skipped and listed in the generated file.  Anything else: "source shape not recognised" (tie unavailable).

import (
	"fmt"
	"go/ast"
	"go/parser"
	"go/token"
	"go/types"
	"path/filepath"
	"sort"
	"strconv"
	"strings"
)

const c16Imports = "From Eino Require Import Base.Util Model.Options Model.OptionsGenLib.\n"

func init() {
	register("c16extract", c16ExtractOption)
	registerFallback("c16extract", "OptExtract.v", "(* Gen/OptExtract.v — translator tie UNAVAILABLE: tools/go2v (extractor \"c16extract\") did not recognise the\n"+
		"   shape of compose/utils.go:extractOption / compose/graph_call_options.go:Option.deepCopy; the model's own\n   functions are re-exported. *)\n"+
		c16Imports+"\nDefinition tie_available : bool := false.\n\n"+
		"Definition deepCopy (o : copt) : copt := o.\n"+
		"Definition extractOption (nodes : graph) (opts : list copt) : res optmap := extract_option nodes opts [].\n")
	register("c16callbacks", c16ExtractCallbacks)
	registerFallback("c16callbacks", "OptCallbacks.v", "(* Gen/OptCallbacks.v — translator tie UNAVAILABLE: tools/go2v (extractor \"c16callbacks\") did not recognise the\n"+
		"   shape of compose/utils.go:initGraphCallbacks / initNodeCallbacks; the model's own functions are re-exported. *)\n"+
		c16Imports+"\nDefinition tie_available : bool := false.\n\n"+
		"Definition initGraphCallbacks (opts : list copt) : list N := graph_handlers opts.\n"+
		"Definition initNodeCallbacks (key : key) (opts : list copt) : list N := node_handlers key opts.\n")
	register("c16tasks", c16ExtractTasks)
	registerFallback("c16tasks", "OptTasks.v", "(* Gen/OptTasks.v — translator tie UNAVAILABLE: tools/go2v (extractor \"c16tasks\") did not recognise the\n"+
		"   shape of compose/graph_run.go createTasks / restoreTasks / run or compose/graph_manager.go executor; the\n   model's own definitions are re-exported. *)\n"+
		"From Eino Require Import Base.Util Model.Options Model.OptionsResume Model.OptionsGenLib Model.OptionsSitesTable.\n\n"+
		"Definition tie_available : bool := false.\n\n"+
		"Definition createTask_option (nodeKey : key) (optMap : optmap) : list entry := t_option (create_task nodeKey optMap).\n"+
		"Definition restoreTask_option (skip : bool) (key : key) (optMap : optmap) : list entry :=\n  t_option (restore_task false key optMap (Ckpt [] [])).\n"+
		"Definition option_flow : list (string * bool) := Model.OptionsSitesTable.option_flow.\n")
	register("c16validate", c16ExtractValidate)
	registerFallback("c16validate", "OptValidate.v", "(* Gen/OptValidate.v — translator tie UNAVAILABLE: tools/go2v (extractor \"c16validate\") did not recognise the\n"+
		"   shape of compose/graph_run.go runner.extractOption / the checkOption closure of toComposableRunnable. *)\n"+
		c16Imports+"\nDefinition tie_available : bool := false.\n\n"+
		"Definition checkOption (rec plain : list copt -> res optmap) (opts : list entry) : res unit :=\n  do tos <- convert_opts opts; do _ <- rec tos; Ok tt.\n"+
		"Definition runnerExtractOption (chk : node -> list entry -> res unit) (nodes : graph) (opts : list copt) : res optmap :=\n"+
		"  do m <- extract_option nodes opts [];\n  do _ <- res_mapM (fun nd => chk nd (om_get (n_key nd) m)) nodes;\n  Ok m.\n")
	register("c16designate", c16ExtractDesignate)
	registerFallback("c16designate", "OptDesignate.v", "(* Gen/OptDesignate.v — translator tie UNAVAILABLE: tools/go2v (extractor \"c16designate\") did not recognise the\n"+
		"   shape of compose/graph_call_options.go:Option.DesignateNodeWithPath; the model's own function is re-exported. *)\n"+
		"From Coq Require Import List Arith NArith Bool.\nImport ListNotations.\nFrom Eino Require Import Base.GoSlice Model.OptionsSlice.\n\n"+
		"Definition tie_available : bool := false.\n\n"+
		"Definition designateNodeWithPath (pol : policy) (h : heap) (o_paths : slice) (path : list elem) : heap * slice :=\n"+
		"  designate_go pol h o_paths path.\n")
}

// ---------------------------------------------------------------------------------------------- the compiler

type c16Var struct{ coq, ty string }

type c16Bind struct{ v, partial string }

type c16Expr struct {
	s     string
	ty    string
	binds []c16Bind
}

type c16Tr struct {
	fn      string
	vars    map[string]c16Var
	acc     string // Go name of the accumulator
	accTy   string // optmap | handlers
	accInit bool
	idx     map[string]string // "l|i" -> Gallina name of the element l[i] inside `for i := range l`
	ignore  map[string]bool
	fresh   int
	skipped []string
	errs    map[string]string // message prefix -> Gallina error code
	hasCopy bool              // deepCopy has been generated (callable)
	callee  string            // the function whose result initialises the accumulator (runner.extractOption: extractOption)
	ctxArg  string
	// inside the body of a statement helper that is being inlined (inlineStmtHelper): the continuation that stands for
	// "the helper returns without an error", whether the helper returns an error, and the depth of the helper's own loops
	helperRet  string
	helperErr  bool
	helperLoop int
}

func (t *c16Tr) clone() *c16Tr {
	n := *t
	n.vars = map[string]c16Var{}
	for k, v := range t.vars {
		n.vars[k] = v
	}
	n.idx = map[string]string{}
	for k, v := range t.idx {
		n.idx[k] = v
	}
	return &n
}

// sub-translators share the counters and the list of skipped statements through the root
type c16Root struct {
	fresh   int
	skipped []string
}

func (t *c16Tr) errf(n ast.Node, format string, a ...any) error {
	return fmt.Errorf("%s: %s", t.fn, fmt.Sprintf(format, a...))
}

func c16Str(e ast.Node) string {
	if x, ok := e.(ast.Expr); ok {
		return types.ExprString(x)
	}
	return fmt.Sprintf("%T", e)
}

var c16ElemTy = map[string]string{"opts": "opt", "npaths": "npath", "keys": "key", "items": "item", "handlers": "handler"}

func (t *c16Tr) newVar(root *c16Root, base string) string {
	root.fresh++
	return base + strconv.Itoa(root.fresh)
}

func (t *c16Tr) expr(root *c16Root, e ast.Expr) (c16Expr, error) {
	switch x := e.(type) {
	case *ast.ParenExpr:
		return t.expr(root, x.X)
	case *ast.Ident:
		if v, ok := t.vars[x.Name]; ok {
			return c16Expr{s: v.coq, ty: v.ty}, nil
		}
		return c16Expr{}, t.errf(e, "variable %s is outside the translated fragment", x.Name)
	case *ast.UnaryExpr:
		// p := &s[i]: the fragment only reads through p, a pointer to an element stands for the element
		if _, isIdx := x.X.(*ast.IndexExpr); isIdx && x.Op == token.AND {
			return t.expr(root, x.X)
		}
	case *ast.BasicLit:
		if x.Kind == token.INT {
			return c16Expr{s: x.Value, ty: "nat"}, nil
		}
	case *ast.SelectorExpr:
		if v, ok := t.vars[c16Str(x)]; ok { // a field of the receiver that is a parameter of the translation
			return c16Expr{s: v.coq, ty: v.ty}, nil
		}
		b, err := t.expr(root, x.X)
		if err != nil {
			return c16Expr{}, err
		}
		f := x.Sel.Name
		switch b.ty + "." + f {
		case "opt.paths":
			return c16Expr{"(o_paths " + b.s + ")", "npaths", b.binds}, nil
		case "opt.options":
			return c16Expr{"(o_items " + b.s + ")", "items", b.binds}, nil
		case "opt.handler":
			return c16Expr{"(o_handlers " + b.s + ")", "handlers", b.binds}, nil
		case "npath.path":
			return c16Expr{b.s, "keys", b.binds}, nil
		case "node.action":
			return c16Expr{b.s, "action", b.binds}, nil
		case "action.optionType":
			return c16Expr{"(option_type " + b.s + ")", "rtype", b.binds}, nil
		case "action.checkOption":
			return c16Expr{b.s, "checkfn", b.binds}, nil
		}
		return c16Expr{}, t.errf(e, "field %s of a value of kind %s is outside the translated fragment", f, b.ty)
	case *ast.IndexExpr:
		if id, ok := x.Index.(*ast.Ident); ok {
			if v, ok := t.idx[c16Str(x.X)+"|"+id.Name]; ok {
				b, err := t.expr(root, x.X)
				if err != nil {
					return c16Expr{}, err
				}
				return c16Expr{s: v, ty: c16ElemTy[b.ty]}, nil
			}
		}
		if lit, ok := x.Index.(*ast.BasicLit); ok && lit.Kind == token.INT && lit.Value == "0" {
			b, err := t.expr(root, x.X)
			if err != nil {
				return c16Expr{}, err
			}
			et, ok := c16ElemTy[b.ty]
			if !ok {
				return c16Expr{}, t.errf(e, "index into a value of kind %s", b.ty)
			}
			v := t.newVar(root, "x")
			return c16Expr{v, et, append(b.binds, c16Bind{v, "go_first " + b.s})}, nil
		}
		return c16Expr{}, t.errf(e, "index expression %s is outside the translated fragment", c16Str(e))
	case *ast.SliceExpr:
		if lit, ok := x.Low.(*ast.BasicLit); ok && lit.Value == "1" && x.High == nil && x.Max == nil {
			b, err := t.expr(root, x.X)
			if err != nil {
				return c16Expr{}, err
			}
			if _, ok := c16ElemTy[b.ty]; !ok {
				return c16Expr{}, t.errf(e, "slice of a value of kind %s", b.ty)
			}
			v := t.newVar(root, "x")
			return c16Expr{v, b.ty, append(b.binds, c16Bind{v, "go_rest " + b.s})}, nil
		}
		return c16Expr{}, t.errf(e, "slice expression %s is outside the translated fragment", c16Str(e))
	case *ast.CallExpr:
		if r, isHelper, err := t.inlineExprHelper(root, x); isHelper {
			return r, err
		}
		switch f := x.Fun.(type) {
		case *ast.Ident:
			if f.Name == "len" && len(x.Args) == 1 {
				b, err := t.expr(root, x.Args[0])
				if err != nil {
					return c16Expr{}, err
				}
				if _, ok := c16ElemTy[b.ty]; !ok {
					return c16Expr{}, t.errf(e, "len of a value of kind %s", b.ty)
				}
				return c16Expr{"(go_len " + b.s + ")", "nat", b.binds}, nil
			}
			if f.Name == "NewNodePath" && len(x.Args) == 1 && x.Ellipsis.IsValid() {
				b, err := t.expr(root, x.Args[0])
				if err != nil {
					return c16Expr{}, err
				}
				if b.ty != "keys" {
					return c16Expr{}, t.errf(e, "NewNodePath of a value of kind %s", b.ty)
				}
				return c16Expr{b.s, "npath", b.binds}, nil
			}
		case *ast.SelectorExpr:
			if f.Sel.Name == "deepCopy" && len(x.Args) == 0 && t.hasCopy {
				b, err := t.expr(root, f.X)
				if err != nil {
					return c16Expr{}, err
				}
				if b.ty != "opt" {
					return c16Expr{}, t.errf(e, "deepCopy of a value of kind %s", b.ty)
				}
				return c16Expr{"(deepCopy " + b.s + ")", "opt", b.binds}, nil
			}
			if id, ok := f.X.(*ast.Ident); ok && id.Name == "reflect" && f.Sel.Name == "TypeOf" && len(x.Args) == 1 {
				b, err := t.expr(root, x.Args[0])
				if err != nil {
					return c16Expr{}, err
				}
				if b.ty != "item" {
					return c16Expr{}, t.errf(e, "reflect.TypeOf of a value of kind %s", b.ty)
				}
				return c16Expr{"(item_type " + b.s + ")", "dyntype", b.binds}, nil
			}
		}
	case *ast.CompositeLit:
		if c16Str(x.Type) == "[]*NodePath" {
			var parts []string
			var binds []c16Bind
			for _, el := range x.Elts {
				b, err := t.expr(root, el)
				if err != nil {
					return c16Expr{}, err
				}
				if b.ty != "npath" {
					return c16Expr{}, t.errf(e, "element of kind %s in a []*NodePath literal", b.ty)
				}
				parts = append(parts, b.s)
				binds = append(binds, b.binds...)
			}
			return c16Expr{"[" + strings.Join(parts, "; ") + "]", "npaths", binds}, nil
		}
	}
	return c16Expr{}, t.errf(e, "expression %s is outside the translated fragment", c16Str(e))
}

func c16IsNil(e ast.Expr) bool {
	id, ok := e.(*ast.Ident)
	return ok && id.Name == "nil"
}

// atom: a comparison -> boolean Gallina expression (with the bindings of its partial sub-expressions)
func (t *c16Tr) atom(root *c16Root, e ast.Expr) (c16Expr, error) {
	if p, ok := e.(*ast.ParenExpr); ok {
		return t.atom(root, p.X)
	}
	if call, ok := e.(*ast.CallExpr); ok {
		if r, isPred, err := t.inlinePred(root, call); isPred {
			return r, err
		}
	}
	x, ok := e.(*ast.BinaryExpr)
	if ok && (x.Op == token.LSS || x.Op == token.GTR || x.Op == token.LEQ || x.Op == token.GEQ) {
		// order comparisons of lengths / integer literals
		a, err := t.expr(root, x.X)
		if err != nil {
			return c16Expr{}, err
		}
		b, err := t.expr(root, x.Y)
		if err != nil {
			return c16Expr{}, err
		}
		if a.ty != "nat" || b.ty != "nat" {
			return c16Expr{}, t.errf(e, "order comparison of a %s with a %s", a.ty, b.ty)
		}
		binds := append(append([]c16Bind{}, a.binds...), b.binds...)
		switch x.Op {
		case token.LSS:
			return c16Expr{"(Nat.ltb " + a.s + " " + b.s + ")", "bool", binds}, nil
		case token.GTR:
			return c16Expr{"(Nat.ltb " + b.s + " " + a.s + ")", "bool", binds}, nil
		case token.LEQ:
			return c16Expr{"(Nat.leb " + a.s + " " + b.s + ")", "bool", binds}, nil
		default:
			return c16Expr{"(Nat.leb " + b.s + " " + a.s + ")", "bool", binds}, nil
		}
	}
	if !ok || (x.Op != token.EQL && x.Op != token.NEQ) {
		return c16Expr{}, t.errf(e, "condition %s is outside the translated fragment", c16Str(e))
	}
	wrap := func(s string, binds []c16Bind) (c16Expr, error) {
		if x.Op == token.NEQ {
			s = "(negb " + s + ")"
		}
		return c16Expr{s, "bool", binds}, nil
	}
	l, r := x.X, x.Y
	if c16IsNil(l) {
		l, r = r, l
	}
	if c16IsNil(r) {
		a, err := t.expr(root, l)
		if err != nil {
			return c16Expr{}, err
		}
		switch a.ty {
		case "rtype":
			return wrap("(rt_nil "+a.s+")", a.binds)
		case "action": // c.action == nil
			return wrap("(action_nil "+a.s+")", a.binds)
		case "checkfn": // c.action.checkOption == nil
			return wrap("(check_nil "+a.s+")", a.binds)
		}
		return c16Expr{}, t.errf(e, "nil test of a value of kind %s", a.ty)
	}
	a, err := t.expr(root, l)
	if err != nil {
		return c16Expr{}, err
	}
	b, err := t.expr(root, r)
	if err != nil {
		return c16Expr{}, err
	}
	binds := append(append([]c16Bind{}, a.binds...), b.binds...)
	switch a.ty + "," + b.ty {
	case "nat,nat":
		return wrap("(Nat.eqb "+a.s+" "+b.s+")", binds)
	case "key,key":
		return wrap("(key_eqb "+a.s+" "+b.s+")", binds)
	case "dyntype,rtype":
		return wrap("(rt_eq "+a.s+" "+b.s+")", binds)
	case "rtype,dyntype":
		return wrap("(rt_eq "+b.s+" "+a.s+")", binds)
	}
	return c16Expr{}, t.errf(e, "comparison of a %s with a %s", a.ty, b.ty)
}

// ---- predicate helpers: a condition (or a part of one) that was moved into a private function of the package
// whose body is a single `return <boolean expression>` is inlined before it is translated: f(a, b) becomes the
// returned expression with the parameters bound to the (translated) arguments. Go evaluates the arguments before
// the call, so their partial sub-expressions (s[0], s[1:]) are bound in front of the whole condition. A helper whose
// body is anything else, or whose expression is outside the fragment, leaves the source shape unrecognised.

var c16Repo string
var c16Funcs map[string]*ast.FuncDecl
var c16PredDepth int

func c16SetRepo(repo string) {
	if repo != c16Repo {
		c16Repo, c16Funcs = repo, nil
	}
}

// c16LoadFuncs: the top-level functions of package compose (not the tests), by name; a name declared in several files
// (build tags) is left out
func c16LoadFuncs() map[string]*ast.FuncDecl {
	if c16Funcs == nil {
		c16Funcs = map[string]*ast.FuncDecl{}
		files, _ := filepath.Glob(filepath.Join(c16Repo, "compose", "*.go"))
		sort.Strings(files)
		fset := token.NewFileSet()
		seen := map[string]int{}
		for _, p := range files {
			if strings.HasSuffix(p, "_test.go") {
				continue
			}
			f, err := parser.ParseFile(fset, p, nil, 0)
			if err != nil {
				continue
			}
			for _, d := range f.Decls {
				fn, ok := d.(*ast.FuncDecl)
				if !ok || fn.Recv != nil {
					continue
				}
				seen[fn.Name.Name]++
				if fn.Body != nil && fn.Type.TypeParams == nil {
					c16Funcs[fn.Name.Name] = fn
				}
			}
		}
		for n, k := range seen {
			if k > 1 {
				delete(c16Funcs, n)
			}
		}
	}
	return c16Funcs
}

func c16FindPred(name string) *ast.FuncDecl {
	fn := c16LoadFuncs()[name]
	if fn == nil || fn.Type.Results == nil || len(fn.Type.Results.List) != 1 || len(fn.Type.Results.List[0].Names) != 0 ||
		c16Str(fn.Type.Results.List[0].Type) != "bool" || len(fn.Body.List) != 1 {
		return nil
	}
	if ret, ok := fn.Body.List[0].(*ast.ReturnStmt); ok && len(ret.Results) == 1 {
		return fn
	}
	return nil
}

// c16PlainParams: the parameter names of fn, nil when one is variadic or unnamed
func c16PlainParams(fn *ast.FuncDecl) []string {
	params := []string{}
	for _, fl := range fn.Type.Params.List {
		if _, variadic := fl.Type.(*ast.Ellipsis); variadic || len(fl.Names) == 0 {
			return nil
		}
		for _, n := range fl.Names {
			params = append(params, n.Name)
		}
	}
	return params
}

// ---- statement helpers: a piece of the function (a loop body, an arm of an if) that was moved into a private function
// of the package which is handed the accumulator map (a Go map is a reference: what the helper writes, the caller sees) and
// is called as   helper(acc, a, b)   (no result)   or   if err := helper(acc, a, b); err != nil { return nil, err }.
// The body of the helper is translated in place, with its parameters bound to the translated arguments; `return` /
// `return nil` continue behind the call, `return <error>` fails the function. Not inlined (shape not recognised): a
// helper that returns from inside one of its own loops without an error, a helper that is not handed the accumulator.
func (t *c16Tr) inlineStmtHelper(root *c16Root, call *ast.CallExpr, withErr bool, rest []ast.Stmt, k, ind string) (string, bool, error) {
	id, ok := call.Fun.(*ast.Ident)
	if !ok || call.Ellipsis.IsValid() || c16Repo == "" || t.accTy != "optmap" {
		return "", false, nil
	}
	if _, local := t.vars[id.Name]; local {
		return "", false, nil
	}
	fn := c16LoadFuncs()[id.Name]
	if fn == nil {
		return "", false, nil
	}
	nres := 0
	if fn.Type.Results != nil {
		for _, r := range fn.Type.Results.List {
			if len(r.Names) > 0 {
				return "", false, nil
			}
			nres++
		}
	}
	if (withErr && (nres != 1 || c16Str(fn.Type.Results.List[0].Type) != "error")) || (!withErr && nres != 0) {
		return "", false, nil
	}
	params := c16PlainParams(fn)
	if params == nil || len(params) != len(call.Args) || c16PredDepth >= 3 {
		return "", false, nil
	}
	accV := t.vars[t.acc].coq
	in2 := ind + "  "
	tc := t.clone()
	tc.vars, tc.idx, tc.ignore = map[string]c16Var{}, map[string]string{}, map[string]bool{}
	tc.acc = ""
	var binds []c16Bind
	for i, a := range call.Args {
		if aid, ok := a.(*ast.Ident); ok && aid.Name == t.acc {
			if tc.acc != "" || params[i] == "_" {
				return "", true, t.errf(call, "helper %s is handed the accumulator twice", id.Name)
			}
			tc.acc = params[i]
			tc.vars[params[i]] = t.vars[t.acc]
			continue
		}
		b, err := t.expr(root, a)
		if err != nil {
			return "", true, err
		}
		if params[i] != "_" {
			tc.vars[params[i]] = c16Var{b.s, b.ty}
		}
		binds = append(binds, b.binds...)
	}
	if tc.acc == "" {
		return "", true, t.errf(call, "helper %s is not handed the accumulator %s", id.Name, t.acc)
	}
	kk, prefix := k, ""
	if len(rest) > 0 {
		kk = t.newVar(root, "k")
		after, err := t.clone().stmts(root, rest, k, in2)
		if err != nil {
			return "", true, err
		}
		prefix = "let " + kk + " := (fun " + accV + " =>\n" + in2 + after + ") in\n" + ind
	}
	tc.fn = t.fn + " -> " + id.Name
	tc.accInit, tc.helperRet, tc.helperErr, tc.helperLoop = true, kk, withErr, 0
	c16PredDepth++
	body, err := tc.stmts(root, fn.Body.List, kk, in2)
	c16PredDepth--
	if err != nil {
		return "", true, err
	}
	return c16WrapBinds(binds, prefix+body, ind), true, nil
}

// inlinePred: isPred = the call is to a predicate helper (then the result or the error is final)
func (t *c16Tr) inlinePred(root *c16Root, call *ast.CallExpr) (c16Expr, bool, error) {
	id, ok := call.Fun.(*ast.Ident)
	if !ok || call.Ellipsis.IsValid() || c16Repo == "" {
		return c16Expr{}, false, nil
	}
	if _, local := t.vars[id.Name]; local {
		return c16Expr{}, false, nil
	}
	fn := c16FindPred(id.Name)
	if fn == nil {
		return c16Expr{}, false, nil
	}
	params := c16PlainParams(fn)
	if params == nil {
		return c16Expr{}, false, nil
	}
	if len(params) != len(call.Args) || c16PredDepth >= 3 {
		return c16Expr{}, false, nil
	}
	tc := t.clone()
	tc.vars, tc.idx = map[string]c16Var{}, map[string]string{}
	var binds []c16Bind
	for i, a := range call.Args {
		b, err := t.expr(root, a)
		if err != nil {
			return c16Expr{}, true, err
		}
		if params[i] != "_" {
			tc.vars[params[i]] = c16Var{b.s, b.ty}
		}
		binds = append(binds, b.binds...)
	}
	c16PredDepth++
	s, pure := tc.pureCond(root, fn.Body.List[0].(*ast.ReturnStmt).Results[0])
	c16PredDepth--
	if !pure {
		return c16Expr{}, true, t.errf(call, "condition %s: the body of the helper %s is outside the translated fragment", c16Str(call), id.Name)
	}
	return c16Expr{s, "bool", binds}, true, nil
}

// c16SwitchToIf rewrites an expression switch without init statement as the equivalent if / else-if chain (nil:
// no clause). A clause body with an unlabelled break that would leave the switch, or a fallthrough, is not rewritten;
// a tag must be free of calls other than len, of index and of slice expressions (it is evaluated once per comparison).
func c16SwitchToIf(x *ast.SwitchStmt) (ast.Stmt, error) {
	if x.Init != nil {
		return nil, fmt.Errorf("switch with an init statement is outside the translated fragment")
	}
	if x.Tag != nil {
		simple := true
		ast.Inspect(x.Tag, func(n ast.Node) bool {
			switch c := n.(type) {
			case *ast.CallExpr:
				if c16Str(c.Fun) != "len" {
					simple = false
				}
			case *ast.IndexExpr, *ast.SliceExpr:
				simple = false
			}
			return simple
		})
		if !simple {
			return nil, fmt.Errorf("switch tag %s is outside the translated fragment", c16Str(x.Tag))
		}
	}
	var leaves func(n ast.Node) bool // an unlabelled break / fallthrough that belongs to this switch
	leaves = func(n ast.Node) bool {
		found := false
		ast.Inspect(n, func(m ast.Node) bool {
			switch b := m.(type) {
			case *ast.ForStmt, *ast.RangeStmt, *ast.SwitchStmt, *ast.TypeSwitchStmt, *ast.SelectStmt, *ast.FuncLit:
				return m == n
			case *ast.BranchStmt:
				if b.Tok == token.FALLTHROUGH || (b.Tok == token.BREAK && b.Label == nil) {
					found = true
				}
			}
			return !found
		})
		return found
	}
	var clauses []*ast.CaseClause
	var deflt *ast.CaseClause
	for _, c := range x.Body.List {
		cc, ok := c.(*ast.CaseClause)
		if !ok {
			return nil, fmt.Errorf("switch clause of another kind")
		}
		for _, st := range cc.Body {
			if leaves(st) {
				return nil, fmt.Errorf("switch clause with break / fallthrough is outside the translated fragment")
			}
		}
		if cc.List == nil {
			deflt = cc
		} else {
			clauses = append(clauses, cc)
		}
	}
	var chain ast.Stmt
	if deflt != nil {
		chain = &ast.BlockStmt{List: deflt.Body}
	}
	for i := len(clauses) - 1; i >= 0; i-- {
		var cond ast.Expr
		for _, e := range clauses[i].List {
			c := e
			if x.Tag != nil {
				c = &ast.BinaryExpr{X: x.Tag, Op: token.EQL, Y: e}
			}
			if cond == nil {
				cond = c
			} else {
				cond = &ast.BinaryExpr{X: cond, Op: token.LOR, Y: &ast.ParenExpr{X: c}}
			}
		}
		chain = &ast.IfStmt{Cond: cond, Body: &ast.BlockStmt{List: clauses[i].Body}, Else: chain}
	}
	if _, onlyDefault := chain.(*ast.BlockStmt); onlyDefault && chain != nil {
		return nil, fmt.Errorf("switch with a default clause only")
	}
	return chain, nil
}

// ---- search helpers: a private function   func h(…) bool { for _, p := range l { if C { return true } }; return false }
// used as   if h(args) { A }   (no else) is the loop it was extracted from:   for _, p := range l' { if C' { A; break } }
// with the parameters replaced by the arguments. A must not contain break / continue / return (they would bind to the
// new loop) and must not mention the helper's loop variables.

// c16Subst: e with the identifiers of m replaced (nil: a node kind outside the fragment)
func c16Subst(e ast.Expr, m map[string]ast.Expr) ast.Expr {
	switch x := e.(type) {
	case *ast.Ident:
		if r, ok := m[x.Name]; ok {
			return r
		}
		return x
	case *ast.BasicLit:
		return x
	case *ast.ParenExpr:
		if a := c16Subst(x.X, m); a != nil {
			return &ast.ParenExpr{X: a}
		}
	case *ast.SelectorExpr:
		if a := c16Subst(x.X, m); a != nil {
			return &ast.SelectorExpr{X: a, Sel: x.Sel}
		}
	case *ast.IndexExpr:
		a, b := c16Subst(x.X, m), c16Subst(x.Index, m)
		if a != nil && b != nil {
			return &ast.IndexExpr{X: a, Index: b}
		}
	case *ast.SliceExpr:
		if x.High == nil && x.Max == nil && x.Low != nil {
			a, b := c16Subst(x.X, m), c16Subst(x.Low, m)
			if a != nil && b != nil {
				return &ast.SliceExpr{X: a, Low: b}
			}
		}
	case *ast.UnaryExpr:
		if a := c16Subst(x.X, m); a != nil {
			return &ast.UnaryExpr{Op: x.Op, X: a}
		}
	case *ast.BinaryExpr:
		a, b := c16Subst(x.X, m), c16Subst(x.Y, m)
		if a != nil && b != nil {
			return &ast.BinaryExpr{X: a, Op: x.Op, Y: b}
		}
	case *ast.CallExpr:
		if id, ok := x.Fun.(*ast.Ident); ok && id.Name == "len" && len(x.Args) == 1 {
			if a := c16Subst(x.Args[0], m); a != nil {
				return &ast.CallExpr{Fun: x.Fun, Args: []ast.Expr{a}}
			}
		}
		if c16Str(x.Fun) == "reflect.TypeOf" && len(x.Args) == 1 {
			if a := c16Subst(x.Args[0], m); a != nil {
				return &ast.CallExpr{Fun: x.Fun, Args: []ast.Expr{a}}
			}
		}
	}
	return nil
}

// c16SearchHelperLoop: the loop that   if h(args) { body }   stands for (nil: h is not a search helper / not applicable)
func (t *c16Tr) c16SearchHelperLoop(ifs *ast.IfStmt) ast.Stmt {
	call, ok := ifs.Cond.(*ast.CallExpr)
	if !ok || ifs.Init != nil || ifs.Else != nil || call.Ellipsis.IsValid() || c16Repo == "" {
		return nil
	}
	id, ok := call.Fun.(*ast.Ident)
	if !ok {
		return nil
	}
	if _, local := t.vars[id.Name]; local {
		return nil
	}
	fn := c16LoadFuncs()[id.Name]
	if fn == nil || fn.Type.Results == nil || len(fn.Type.Results.List) != 1 || len(fn.Type.Results.List[0].Names) != 0 ||
		c16Str(fn.Type.Results.List[0].Type) != "bool" || len(fn.Body.List) != 2 {
		return nil
	}
	params := c16PlainParams(fn)
	if params == nil || len(params) != len(call.Args) {
		return nil
	}
	rg, ok := fn.Body.List[0].(*ast.RangeStmt)
	last, ok2 := fn.Body.List[1].(*ast.ReturnStmt)
	if !ok || !ok2 || rg.Tok != token.DEFINE || len(rg.Body.List) != 1 || len(last.Results) != 1 || c16Str(last.Results[0]) != "false" {
		return nil
	}
	hit, ok := rg.Body.List[0].(*ast.IfStmt)
	if !ok || hit.Init != nil || hit.Else != nil || len(hit.Body.List) != 1 {
		return nil
	}
	rt, ok := hit.Body.List[0].(*ast.ReturnStmt)
	if !ok || len(rt.Results) != 1 || c16Str(rt.Results[0]) != "true" {
		return nil
	}
	m := map[string]ast.Expr{}
	for i, pn := range params {
		if pn != "_" {
			m[pn] = call.Args[i]
		}
	}
	loopVars := map[string]bool{}
	for _, v := range []ast.Expr{rg.Key, rg.Value} {
		if v != nil && c16Str(v) != "_" {
			loopVars[c16Str(v)] = true
			delete(m, c16Str(v)) // a loop variable hides a parameter of the same name
			if _, clash := t.vars[c16Str(v)]; clash {
				return nil
			}
		}
	}
	over, cond := c16Subst(rg.X, m), c16Subst(hit.Cond, m)
	if over == nil || cond == nil {
		return nil
	}
	clean := true
	for _, st := range ifs.Body.List {
		ast.Inspect(st, func(n ast.Node) bool {
			switch y := n.(type) {
			case *ast.BranchStmt, *ast.ReturnStmt, *ast.FuncLit:
				clean = false
			case *ast.Ident:
				if loopVars[y.Name] {
					clean = false
				}
			}
			return clean
		})
	}
	if !clean {
		return nil
	}
	body := append(append([]ast.Stmt{}, ifs.Body.List...), &ast.BranchStmt{Tok: token.BREAK})
	return &ast.RangeStmt{Key: rg.Key, Value: rg.Value, Tok: token.DEFINE, X: over,
		Body: &ast.BlockStmt{List: []ast.Stmt{&ast.IfStmt{Cond: cond, Body: &ast.BlockStmt{List: body}}}}}
}

// ---- expression helpers: a private function of the package with one result and a straight-line body
//
//	x := e    x.paths = e    return e
//
// called inside an expression is evaluated by substitution: the parameters stand for the translated arguments, every
// local for the translation of the expression last assigned to it. (The fragment's expressions have no effects.)
func (t *c16Tr) inlineExprHelper(root *c16Root, call *ast.CallExpr) (c16Expr, bool, error) {
	id, ok := call.Fun.(*ast.Ident)
	if !ok || call.Ellipsis.IsValid() || c16Repo == "" || c16PredDepth >= 3 {
		return c16Expr{}, false, nil
	}
	switch id.Name {
	case "len", "NewNodePath", "make", "append":
		return c16Expr{}, false, nil
	}
	if _, local := t.vars[id.Name]; local {
		return c16Expr{}, false, nil
	}
	fn := c16LoadFuncs()[id.Name]
	if fn == nil || fn.Type.Results == nil || len(fn.Type.Results.List) != 1 || len(fn.Type.Results.List[0].Names) != 0 ||
		c16Str(fn.Type.Results.List[0].Type) == "bool" || c16Str(fn.Type.Results.List[0].Type) == "error" {
		return c16Expr{}, false, nil
	}
	params := c16PlainParams(fn)
	if params == nil || len(params) != len(call.Args) || len(fn.Body.List) == 0 {
		return c16Expr{}, false, nil
	}
	tc := t.clone()
	tc.vars, tc.idx = map[string]c16Var{}, map[string]string{}
	tc.fn = t.fn + " -> " + id.Name
	var binds []c16Bind
	for i, a := range call.Args {
		b, err := t.expr(root, a)
		if err != nil {
			return c16Expr{}, true, err
		}
		if params[i] != "_" {
			tc.vars[params[i]] = c16Var{b.s, b.ty}
		}
		binds = append(binds, b.binds...)
	}
	c16PredDepth++
	defer func() { c16PredDepth-- }()
	for i, st := range fn.Body.List {
		switch x := st.(type) {
		case *ast.AssignStmt:
			if len(x.Lhs) != 1 || len(x.Rhs) != 1 {
				return c16Expr{}, true, tc.errf(x, "statement of the helper is outside the translated fragment")
			}
			v, err := tc.expr(root, x.Rhs[0])
			if err != nil {
				return c16Expr{}, true, err
			}
			binds = append(binds, v.binds...)
			switch lhs := x.Lhs[0].(type) {
			case *ast.Ident:
				if lhs.Name != "_" {
					tc.vars[lhs.Name] = c16Var{v.s, v.ty}
				}
			case *ast.SelectorExpr:
				base, isId := lhs.X.(*ast.Ident)
				cur, known := tc.vars[c16Str(lhs.X)]
				if !isId || !known || cur.ty != "opt" || lhs.Sel.Name != "paths" || v.ty != "npaths" || x.Tok != token.ASSIGN {
					return c16Expr{}, true, tc.errf(x, "assignment to %s is outside the translated fragment", c16Str(lhs))
				}
				tc.vars[base.Name] = c16Var{"(set_paths " + cur.coq + " " + v.s + ")", "opt"}
			default:
				return c16Expr{}, true, tc.errf(x, "assignment to %s is outside the translated fragment", c16Str(x.Lhs[0]))
			}
		case *ast.ReturnStmt:
			if i != len(fn.Body.List)-1 || len(x.Results) != 1 {
				return c16Expr{}, true, tc.errf(x, "return of the helper is outside the translated fragment")
			}
			v, err := tc.expr(root, x.Results[0])
			if err != nil {
				return c16Expr{}, true, err
			}
			return c16Expr{v.s, v.ty, append(binds, v.binds...)}, true, nil
		default:
			return c16Expr{}, true, tc.errf(st, "statement of the helper is outside the translated fragment")
		}
	}
	return c16Expr{}, true, tc.errf(call, "the helper %s does not end in a return", id.Name)
}

// c16AccName: the Go name of the accumulator of a translated function — the top-level variable of the body that is
// declared as   var x []callbacks.Handler   (kind "handlers"),   x := map[string][]any{}   or   x, err := callee(…)
// (kind "optmap"); def when there is not exactly one. The Gallina name of the accumulator does not depend on it.
func c16AccName(body []ast.Stmt, kind, callee, def string) string {
	var found []string
	for _, st := range body {
		switch x := st.(type) {
		case *ast.DeclStmt:
			gd, ok := x.Decl.(*ast.GenDecl)
			if !ok || gd.Tok != token.VAR || kind != "handlers" {
				continue
			}
			for _, sp := range gd.Specs {
				if vs, ok := sp.(*ast.ValueSpec); ok && len(vs.Names) == 1 && len(vs.Values) == 0 && c16Str(vs.Type) == "[]callbacks.Handler" {
					found = append(found, vs.Names[0].Name)
				}
			}
		case *ast.AssignStmt:
			if kind != "optmap" || x.Tok != token.DEFINE || len(x.Rhs) != 1 {
				continue
			}
			if cl, ok := x.Rhs[0].(*ast.CompositeLit); ok && len(x.Lhs) == 1 && callee == "" && c16Str(cl.Type) == "map[string][]any" {
				found = append(found, c16Str(x.Lhs[0]))
			}
			if call, ok := x.Rhs[0].(*ast.CallExpr); ok && len(x.Lhs) == 2 && callee != "" && c16Str(call.Fun) == callee {
				found = append(found, c16Str(x.Lhs[0]))
			}
		}
	}
	if len(found) == 1 && found[0] != "_" {
		return found[0]
	}
	return def
}

func c16WrapBinds(binds []c16Bind, body, ind string) string {
	for i := len(binds) - 1; i >= 0; i-- {
		body = "match " + binds[i].partial + " with\n" + ind + "| None => Crash\n" + ind + "| Some " + binds[i].v + " =>\n" + ind + "  " + body + "\n" + ind + "end"
	}
	return body
}

// pure boolean (no partial sub-expression), or "" when the condition needs the control form
func (t *c16Tr) pureCond(root *c16Root, e ast.Expr) (string, bool) {
	switch x := e.(type) {
	case *ast.ParenExpr:
		return t.pureCond(root, x.X)
	case *ast.UnaryExpr:
		if x.Op == token.NOT {
			if s, ok := t.pureCond(root, x.X); ok {
				return "(negb " + s + ")", true
			}
		}
		return "", false
	case *ast.BinaryExpr:
		if x.Op == token.LAND || x.Op == token.LOR {
			l, ok1 := t.pureCond(root, x.X)
			r, ok2 := t.pureCond(root, x.Y)
			if ok1 && ok2 {
				op := " && "
				if x.Op == token.LOR {
					op = " || "
				}
				return "(" + l + op + r + ")", true
			}
			return "", false
		}
	}
	save := root.fresh
	a, err := t.atom(root, e)
	if err != nil || len(a.binds) > 0 {
		root.fresh = save
		return "", false
	}
	return a.s, true
}

// condK: if e then th else el, with Go's short-circuit evaluation
func (t *c16Tr) condK(root *c16Root, e ast.Expr, th, el, ind string) (string, error) {
	if s, ok := t.pureCond(root, e); ok {
		return "if " + s + "\n" + ind + "then " + th + "\n" + ind + "else " + el, nil
	}
	switch x := e.(type) {
	case *ast.ParenExpr:
		return t.condK(root, x.X, th, el, ind)
	case *ast.UnaryExpr:
		if x.Op == token.NOT {
			return t.condK(root, x.X, el, th, ind)
		}
	case *ast.BinaryExpr:
		if x.Op == token.LAND {
			inner, err := t.condK(root, x.Y, th, el, ind+"  ")
			if err != nil {
				return "", err
			}
			return t.condK(root, x.X, "("+inner+")", el, ind)
		}
		if x.Op == token.LOR {
			inner, err := t.condK(root, x.Y, th, el, ind+"  ")
			if err != nil {
				return "", err
			}
			return t.condK(root, x.X, th, "("+inner+")", ind)
		}
	}
	a, err := t.atom(root, e)
	if err != nil {
		return "", err
	}
	return c16WrapBinds(a.binds, "if "+a.s+"\n"+ind+"  then "+th+"\n"+ind+"  else "+el, ind), nil
}

func (t *c16Tr) rootIdent(e ast.Expr) string {
	for {
		switch x := e.(type) {
		case *ast.Ident:
			return x.Name
		case *ast.SelectorExpr:
			e = x.X
		case *ast.IndexExpr:
			e = x.X
		case *ast.StarExpr:
			e = x.X
		case *ast.ParenExpr:
			e = x.X
		default:
			return ""
		}
	}
}

// a statement outside the model: it only assigns to ignored variables
func (t *c16Tr) ignorable(s ast.Stmt) bool {
	switch x := s.(type) {
	case *ast.AssignStmt:
		for _, l := range x.Lhs {
			if !t.ignore[t.rootIdent(l)] {
				return false
			}
		}
		// the right-hand sides may not mention the accumulator
		for _, r := range x.Rhs {
			bad := false
			ast.Inspect(r, func(n ast.Node) bool {
				if id, ok := n.(*ast.Ident); ok && id.Name == t.acc {
					bad = true
				}
				return true
			})
			if bad {
				return false
			}
		}
		return true
	case *ast.IfStmt:
		if x.Init != nil {
			return false
		}
		for _, b := range x.Body.List {
			if !t.ignorable(b) {
				return false
			}
		}
		switch e := x.Else.(type) {
		case nil:
		case *ast.BlockStmt:
			for _, b := range e.List {
				if !t.ignorable(b) {
					return false
				}
			}
		default:
			return false
		}
		return len(x.Body.List) > 0
	}
	return false
}

// does control never fall through the end of the block?
func c16Terminates(l []ast.Stmt) bool {
	if len(l) == 0 {
		return false
	}
	switch x := l[len(l)-1].(type) {
	case *ast.ReturnStmt:
		return true
	case *ast.BranchStmt:
		return x.Tok == token.CONTINUE || x.Tok == token.BREAK
	case *ast.IfStmt:
		if x.Else == nil {
			return false
		}
		eb, ok := x.Else.(*ast.BlockStmt)
		if !ok {
			if ei, ok := x.Else.(*ast.IfStmt); ok {
				return c16Terminates(x.Body.List) && c16Terminates([]ast.Stmt{ei})
			}
			return false
		}
		return c16Terminates(x.Body.List) && c16Terminates(eb.List)
	}
	return false
}

func (t *c16Tr) errCode(e ast.Expr) (string, error) {
	call, ok := e.(*ast.CallExpr)
	if !ok || len(call.Args) == 0 {
		return "", t.errf(e, "error value %s is outside the translated fragment", c16Str(e))
	}
	fn := c16Str(call.Fun)
	if fn != "fmt.Errorf" && fn != "errors.New" {
		return "", t.errf(e, "error value %s is outside the translated fragment", c16Str(e))
	}
	lit, ok := call.Args[0].(*ast.BasicLit)
	if !ok || lit.Kind != token.STRING {
		return "", t.errf(e, "error message is not a literal")
	}
	msg, err := strconv.Unquote(lit.Value)
	if err != nil {
		return "", err
	}
	var keys []string
	for k := range t.errs {
		keys = append(keys, k)
	}
	sort.Strings(keys)
	for _, k := range keys {
		if strings.HasPrefix(msg, k) {
			return t.errs[k], nil
		}
	}
	return "E_MESSAGE (* " + strings.ReplaceAll(strings.ReplaceAll(msg, "*)", "* )"), "(*", "( *") + " *)", nil
}

// stmts: the block l followed by "k acc" on fall through; result: Gallina of type ctl A
func (t *c16Tr) stmts(root *c16Root, l []ast.Stmt, k string, ind string) (string, error) {
	accV := t.vars[t.acc].coq
	if len(l) == 0 {
		return "(" + k + " " + accV + ")", nil
	}
	rest := l[1:]
	in2 := ind + "  "
	// v, ok := m[k]; if !ok { … }   is   var v; if v, ok = m[k]; !ok { … }
	if as, isAs := l[0].(*ast.AssignStmt); isAs && as.Tok == token.DEFINE && len(as.Lhs) == 2 && len(as.Rhs) == 1 && len(rest) > 0 {
		if _, isIdx := as.Rhs[0].(*ast.IndexExpr); isIdx {
			if ifs, isIf := rest[0].(*ast.IfStmt); isIf && ifs.Init == nil && ifs.Else == nil && c16Str(ifs.Cond) == "!"+c16Str(as.Lhs[1]) {
				merged := &ast.IfStmt{Init: as, Cond: ifs.Cond, Body: ifs.Body}
				return t.stmts(root, append([]ast.Stmt{merged}, rest[1:]...), k, ind)
			}
		}
	}
	switch x := l[0].(type) {
	case *ast.EmptyStmt:
		return t.stmts(root, rest, k, ind)
	case *ast.BlockStmt:
		// a bare block: its statements, provided it declares nothing that hides a variable of the fragment
		for _, st := range x.List {
			if as, ok := st.(*ast.AssignStmt); ok && as.Tok == token.DEFINE {
				for _, lhs := range as.Lhs {
					if _, hides := t.vars[c16Str(lhs)]; hides {
						return "", t.errf(x, "a block that declares %s again is outside the translated fragment", c16Str(lhs))
					}
				}
			}
			if _, ok := st.(*ast.DeclStmt); ok {
				return "", t.errf(x, "a block with a declaration is outside the translated fragment")
			}
		}
		return t.stmts(root, append(append([]ast.Stmt{}, x.List...), rest...), k, ind)
	case *ast.SwitchStmt:
		// switch { case a: … case b, c: … default: … } and switch tag { case v: … } are the if / else-if chain
		chain, err := c16SwitchToIf(x)
		if err != nil {
			return "", t.errf(x, "%v", err)
		}
		if chain == nil {
			return t.stmts(root, rest, k, ind)
		}
		return t.stmts(root, append([]ast.Stmt{chain}, rest...), k, ind)
	case *ast.BranchStmt:
		if x.Label != nil {
			return "", t.errf(x, "labelled %s", x.Tok)
		}
		switch x.Tok {
		case token.CONTINUE:
			return "(Next " + accV + ")", nil
		case token.BREAK:
			return "(Break " + accV + ")", nil
		}
		return "", t.errf(x, "%s statement", x.Tok)
	case *ast.ExprStmt:
		if call, ok := x.X.(*ast.CallExpr); ok {
			if s, isHelper, err := t.inlineStmtHelper(root, call, false, rest, k, ind); isHelper {
				return s, err
			}
		}
		return "", t.errf(x, "statement %s is outside the translated fragment", c16Str(x.X))
	case *ast.ReturnStmt:
		if t.helperRet != "" {
			// inside an inlined statement helper
			switch {
			case !t.helperErr && len(x.Results) == 0, t.helperErr && len(x.Results) == 1 && c16IsNil(x.Results[0]):
				if t.helperLoop > 0 {
					return "", t.errf(x, "a helper that returns from inside one of its loops is outside the translated fragment")
				}
				return "(" + t.helperRet + " " + accV + ")", nil
			case t.helperErr && len(x.Results) == 1:
				code, err := t.errCode(x.Results[0])
				if err != nil {
					return "", err
				}
				return "(Fail " + code + ")", nil
			}
			return "", t.errf(x, "return statement of a helper outside the translated fragment")
		}
		switch len(x.Results) {
		case 2:
			if c16IsNil(x.Results[1]) {
				if id, ok := x.Results[0].(*ast.Ident); ok && id.Name == t.acc {
					return "(Return " + accV + ")", nil
				}
				return "", t.errf(x, "return of %s (only the accumulator %s can be returned)", c16Str(x.Results[0]), t.acc)
			}
			if c16IsNil(x.Results[0]) {
				code, err := t.errCode(x.Results[1])
				if err != nil {
					return "", err
				}
				return "(Fail " + code + ")", nil
			}
		case 1:
			// return icb.AppendHandlers(ctx, ri, acc...)   (ri: an ignored local, or an expression over no translated variable)
			if call, ok := x.Results[0].(*ast.CallExpr); ok && c16Str(call.Fun) == "icb.AppendHandlers" && len(call.Args) == 3 && call.Ellipsis.IsValid() {
				if c16Str(call.Args[0]) == t.ctxArg && (t.ignore[c16Str(call.Args[1])] || t.c16OutsideModel(call.Args[1])) && c16Str(call.Args[2]) == t.acc && t.accTy == "handlers" {
					return "(Return " + accV + ")", nil
				}
			}
		}
		return "", t.errf(x, "return statement outside the translated fragment")
	case *ast.DeclStmt:
		gd, ok := x.Decl.(*ast.GenDecl)
		if !ok || gd.Tok != token.VAR {
			return "", t.errf(x, "declaration outside the translated fragment")
		}
		for _, sp := range gd.Specs {
			vs := sp.(*ast.ValueSpec)
			if len(vs.Values) != 0 {
				return "", t.errf(x, "var with an initial value")
			}
			for _, n := range vs.Names {
				if n.Name == t.acc {
					if t.accInit || t.accTy != "handlers" || c16Str(vs.Type) != "[]callbacks.Handler" {
						return "", t.errf(x, "declaration of the accumulator %s", t.acc)
					}
					t.accInit = true
					body, err := t.stmts(root, rest, k, ind)
					if err != nil {
						return "", err
					}
					return "let " + accV + " := ([] : list N) in\n" + ind + body, nil
				}
			}
		}
		return t.stmts(root, rest, k, ind) // declared, set later by an if-init lookup
	case *ast.AssignStmt:
		if t.ignorable(x) {
			root.skipped = append(root.skipped, c16Str(x.Lhs[0])+" "+x.Tok.String()+" …")
			return t.stmts(root, rest, k, ind)
		}
		if len(x.Lhs) == 2 && len(x.Rhs) == 1 && x.Tok == token.DEFINE && c16Str(x.Lhs[0]) == t.acc && !t.accInit && t.accTy == "optmap" && t.callee != "" {
			// acc, err := extractOption(nodes, opts...); if err != nil { return nil, err }
			errName := c16Str(x.Lhs[1])
			call, ok := x.Rhs[0].(*ast.CallExpr)
			if !ok || c16Str(call.Fun) != t.callee || len(call.Args) != 2 || !call.Ellipsis.IsValid() {
				return "", t.errf(x, "the option map is not the result of %s(nodes, opts...)", t.callee)
			}
			a0, err := t.expr(root, call.Args[0])
			if err != nil {
				return "", err
			}
			a1, err := t.expr(root, call.Args[1])
			if err != nil {
				return "", err
			}
			if a0.ty != "nodes" || a1.ty != "opts" || len(a0.binds)+len(a1.binds) > 0 {
				return "", t.errf(x, "%s called with a %s and a %s", t.callee, a0.ty, a1.ty)
			}
			if len(rest) == 0 || !c16IsErrReturn(rest[0], errName) {
				return "", t.errf(x, "the error of %s is not returned at once", t.callee)
			}
			t.accInit = true
			body, err := t.stmts(root, rest[1:], k, in2)
			if err != nil {
				return "", err
			}
			return "match " + t.callee + " " + a0.s + " " + a1.s + " with\n" + ind + "| Err e => Fail e\n" + ind + "| Panic => Crash\n" + ind + "| Ok " + accV + " =>\n" + in2 + body + "\n" + ind + "end", nil
		}
		if len(x.Lhs) != 1 || len(x.Rhs) != 1 {
			return "", t.errf(x, "assignment with %d left-hand sides", len(x.Lhs))
		}
		lhs, rhs := x.Lhs[0], x.Rhs[0]
		// the accumulator
		if id, ok := lhs.(*ast.Ident); ok && id.Name == t.acc {
			if x.Tok == token.DEFINE {
				cl, ok := rhs.(*ast.CompositeLit)
				if !ok || t.accInit || t.accTy != "optmap" || c16Str(cl.Type) != "map[string][]any" || len(cl.Elts) != 0 {
					return "", t.errf(x, "initialisation of the accumulator %s", t.acc)
				}
				t.accInit = true
				body, err := t.stmts(root, rest, k, ind)
				if err != nil {
					return "", err
				}
				return "let " + accV + " := ([] : optmap) in\n" + ind + body, nil
			}
			// acc = append(acc, xs...)
			call, ok := rhs.(*ast.CallExpr)
			if ok && c16Str(call.Fun) == "append" && len(call.Args) == 2 && c16Str(call.Args[0]) == t.acc && call.Ellipsis.IsValid() && t.accTy == "handlers" {
				a, err := t.expr(root, call.Args[1])
				if err != nil {
					return "", err
				}
				if a.ty != "handlers" {
					return "", t.errf(x, "append of a value of kind %s to %s", a.ty, t.acc)
				}
				body, err := t.stmts(root, rest, k, ind)
				if err != nil {
					return "", err
				}
				return c16WrapBinds(a.binds, "let "+accV+" := "+accV+" ++ "+a.s+" in\n"+ind+body, ind), nil
			}
			return "", t.errf(x, "assignment to the accumulator %s outside the translated fragment", t.acc)
		}
		// acc[k] = append(acc[k], x) / (…, xs...)
		if ix, ok := lhs.(*ast.IndexExpr); ok && c16Str(ix.X) == t.acc && t.accTy == "optmap" && x.Tok == token.ASSIGN {
			call, ok := rhs.(*ast.CallExpr)
			if !ok || c16Str(call.Fun) != "append" || len(call.Args) != 2 || c16Str(call.Args[0]) != c16Str(lhs) {
				return "", t.errf(x, "%s = %s is not an append to the same entry", c16Str(lhs), c16Str(rhs))
			}
			key, err := t.expr(root, ix.Index)
			if err != nil {
				return "", err
			}
			if key.ty != "key" {
				return "", t.errf(x, "%s indexed by a value of kind %s", t.acc, key.ty)
			}
			a, err := t.expr(root, call.Args[1])
			if err != nil {
				return "", err
			}
			var ents string
			switch {
			case call.Ellipsis.IsValid() && a.ty == "items":
				ents = "(ent_items " + a.s + ")"
			case !call.Ellipsis.IsValid() && a.ty == "opt":
				ents = "(ent_opt " + a.s + ")"
			default:
				return "", t.errf(x, "append of a value of kind %s (ellipsis %v) to an entry of %s", a.ty, call.Ellipsis.IsValid(), t.acc)
			}
			body, err := t.stmts(root, rest, k, ind)
			if err != nil {
				return "", err
			}
			return c16WrapBinds(append(key.binds, a.binds...), "let "+accV+" := om_append "+key.s+" "+ents+" "+accV+" in\n"+ind+body, ind), nil
		}
		// x.paths = e   (x a local Option)
		if sel, ok := lhs.(*ast.SelectorExpr); ok && x.Tok == token.ASSIGN && sel.Sel.Name == "paths" {
			if id, ok := sel.X.(*ast.Ident); ok {
				if v, ok := t.vars[id.Name]; ok && v.ty == "opt" && strings.HasPrefix(v.coq, "l_") {
					a, err := t.expr(root, rhs)
					if err != nil {
						return "", err
					}
					if a.ty != "npaths" {
						return "", t.errf(x, "paths set to a value of kind %s", a.ty)
					}
					body, err := t.stmts(root, rest, k, ind)
					if err != nil {
						return "", err
					}
					return c16WrapBinds(a.binds, "let "+v.coq+" := set_paths "+v.coq+" "+a.s+" in\n"+ind+body, ind), nil
				}
			}
		}
		// x := e
		if id, ok := lhs.(*ast.Ident); ok && x.Tok == token.DEFINE {
			a, err := t.expr(root, rhs)
			if err != nil {
				return "", err
			}
			t.vars[id.Name] = c16Var{"l_" + id.Name, a.ty}
			body, err := t.stmts(root, rest, k, ind)
			if err != nil {
				return "", err
			}
			return c16WrapBinds(a.binds, "let l_"+id.Name+" := "+a.s+" in\n"+ind+body, ind), nil
		}
		return "", t.errf(x, "assignment %s %s … is outside the translated fragment", c16Str(lhs), x.Tok)
	case *ast.RangeStmt:
		src, err := t.expr(root, x.X)
		if err != nil {
			return "", err
		}
		if len(src.binds) > 0 {
			return "", t.errf(x, "range over a partial expression")
		}
		bt := t.clone()
		bt.helperLoop++
		name := func(e ast.Expr) string {
			if e == nil {
				return "_"
			}
			if id, ok := e.(*ast.Ident); ok {
				return id.Name
			}
			return "?"
		}
		kn, vn := name(x.Key), name(x.Value)
		if kn == "?" || vn == "?" || x.Tok != token.DEFINE {
			return "", t.errf(x, "range clause outside the translated fragment")
		}
		var elem, pre string
		switch src.ty {
		case "nodes":
			if vn == "_" {
				return "", t.errf(x, "range over the nodes without the node")
			}
			elem = "n_" + vn
			bt.vars[vn] = c16Var{elem, "node"}
			if kn != "_" {
				bt.vars[kn] = c16Var{"l_" + kn, "key"}
				pre = "let l_" + kn + " := n_key " + elem + " in\n" + in2 + "  "
			}
		case "opts", "npaths":
			et := c16ElemTy[src.ty]
			switch {
			case vn != "_" && kn == "_":
				elem = "e_" + vn
				bt.vars[vn] = c16Var{elem, et}
			case vn == "_" && kn != "_":
				elem = "e_" + c16Str(x.X) + "_" + kn
				elem = strings.Map(func(r rune) rune {
					if r == '.' || r == '[' || r == ']' {
						return '_'
					}
					return r
				}, elem)
				bt.idx[c16Str(x.X)+"|"+kn] = elem
			default:
				return "", t.errf(x, "range clause with both index and value")
			}
		default:
			return "", t.errf(x, "range over a value of kind %s", src.ty)
		}
		body, err := bt.stmts(root, x.Body.List, "Next", in2+"  ")
		if err != nil {
			return "", err
		}
		after, err := t.stmts(root, rest, k, in2)
		if err != nil {
			return "", err
		}
		return "go_seq (go_range (fun " + elem + " " + accV + " =>\n" + in2 + "  " + pre + body + ")\n" + in2 + src.s + " " + accV + ")\n" + ind + "(fun " + accV + " =>\n" + in2 + after + ")", nil
	case *ast.IfStmt:
		if t.ignorable(x) {
			root.skipped = append(root.skipped, "if "+c16Str(x.Cond)+" { … }")
			return t.stmts(root, rest, k, ind)
		}
		if loop := t.c16SearchHelperLoop(x); loop != nil {
			return t.stmts(root, append([]ast.Stmt{loop}, rest...), k, ind)
		}
		// if err := helper(acc, …); err != nil { return nil, err }
		if as, ok := x.Init.(*ast.AssignStmt); ok && len(as.Lhs) == 1 && len(as.Rhs) == 1 && x.Else == nil && t.helperRet == "" {
			if call, ok := as.Rhs[0].(*ast.CallExpr); ok && !call.Ellipsis.IsValid() {
				errName := c16Str(as.Lhs[0])
				if bin, ok := x.Cond.(*ast.BinaryExpr); ok && bin.Op == token.NEQ && c16Str(bin.X) == errName && c16IsNil(bin.Y) &&
					len(x.Body.List) == 1 && c16IsErrWrapReturn(x.Body.List[0], errName) {
					if s, isHelper, err := t.inlineStmtHelper(root, call, true, rest, k, ind); isHelper {
						return s, err
					}
				}
			}
		}
		// if err = c.action.checkOption(acc[k]...); err != nil { return nil, <err, wrapped or not> }
		if as, ok := x.Init.(*ast.AssignStmt); ok && len(as.Lhs) == 1 && len(as.Rhs) == 1 && x.Else == nil {
			if call, ok := as.Rhs[0].(*ast.CallExpr); ok && call.Ellipsis.IsValid() && len(call.Args) == 1 {
				errName := c16Str(as.Lhs[0])
				if bin, ok := x.Cond.(*ast.BinaryExpr); ok && bin.Op == token.NEQ && c16Str(bin.X) == errName && c16IsNil(bin.Y) {
					fn, err := t.expr(root, call.Fun)
					if err != nil {
						return "", err
					}
					ix, ok := call.Args[0].(*ast.IndexExpr)
					if fn.ty != "checkfn" || !ok || c16Str(ix.X) != t.acc || len(fn.binds) > 0 {
						return "", t.errf(x, "call %s outside the translated fragment", c16Str(call))
					}
					key, err := t.expr(root, ix.Index)
					if err != nil {
						return "", err
					}
					if key.ty != "key" || len(key.binds) > 0 {
						return "", t.errf(x, "%s indexed by a value of kind %s", t.acc, key.ty)
					}
					if len(x.Body.List) != 1 || !c16IsErrWrapReturn(x.Body.List[0], errName) {
						return "", t.errf(x, "the error of the nested check is not returned")
					}
					after, err := t.stmts(root, rest, k, in2)
					if err != nil {
						return "", err
					}
					return "match chk " + fn.s + " (om_get " + key.s + " " + accV + ") with\n" + ind + "| Err e => Fail e\n" + ind + "| Panic => Crash\n" + ind + "| Ok _ =>\n" + in2 + after + "\n" + ind + "end", nil
				}
			}
		}
		// if x, ok = m[key]; !ok { …no fall through… }
		if x.Init != nil {
			as, ok := x.Init.(*ast.AssignStmt)
			if !ok || len(as.Lhs) != 2 || len(as.Rhs) != 1 || x.Else != nil {
				return "", t.errf(x, "if with an init statement outside the translated fragment")
			}
			ix, ok := as.Rhs[0].(*ast.IndexExpr)
			vid, ok1 := as.Lhs[0].(*ast.Ident)
			oid, ok2 := as.Lhs[1].(*ast.Ident)
			if !ok || !ok1 || !ok2 {
				return "", t.errf(x, "if with an init statement outside the translated fragment")
			}
			un, ok := x.Cond.(*ast.UnaryExpr)
			if !ok || un.Op != token.NOT || c16Str(un.X) != oid.Name {
				return "", t.errf(x, "lookup test %s is outside the translated fragment", c16Str(x.Cond))
			}
			m, err := t.expr(root, ix.X)
			if err != nil {
				return "", err
			}
			if m.ty != "nodes" {
				return "", t.errf(x, "two-value lookup in a value of kind %s", m.ty)
			}
			key, err := t.expr(root, ix.Index)
			if err != nil {
				return "", err
			}
			if key.ty != "key" {
				return "", t.errf(x, "lookup by a value of kind %s", key.ty)
			}
			if !c16Terminates(x.Body.List) {
				return "", t.errf(x, "the missing-key block of a lookup falls through (the variable would hold the zero value)")
			}
			miss, err := t.clone().stmts(root, x.Body.List, k, in2+"  ")
			if err != nil {
				return "", err
			}
			t.vars[vid.Name] = c16Var{"l_" + vid.Name, "node"}
			found, err := t.stmts(root, rest, k, in2+"  ")
			if err != nil {
				return "", err
			}
			return c16WrapBinds(key.binds, "match find_node "+key.s+" "+m.s+" with\n"+ind+"| None =>\n"+in2+"  "+miss+"\n"+ind+"| Some l_"+vid.Name+" =>\n"+in2+"  "+found+"\n"+ind+"end", ind), nil
		}
		kk := k
		prefix := ""
		if len(rest) > 0 {
			kk = t.newVar(root, "k")
			after, err := t.clone().stmts(root, rest, k, in2)
			if err != nil {
				return "", err
			}
			prefix = "let " + kk + " := (fun " + accV + " =>\n" + in2 + after + ") in\n" + ind
		}
		th, err := t.clone().stmts(root, x.Body.List, kk, in2+"  ")
		if err != nil {
			return "", err
		}
		var el string
		switch e := x.Else.(type) {
		case nil:
			el = "(" + kk + " " + accV + ")"
		case *ast.BlockStmt:
			el, err = t.clone().stmts(root, e.List, kk, in2+"  ")
		case *ast.IfStmt:
			el, err = t.clone().stmts(root, []ast.Stmt{e}, kk, in2+"  ")
		}
		if err != nil {
			return "", err
		}
		c, err := t.condK(root, x.Cond, "("+th+")", "("+el+")", in2)
		if err != nil {
			return "", err
		}
		return prefix + c, nil
	}
	return "", t.errf(l[0], "statement %T is outside the translated fragment", l[0])
}

func c16ParseGo(fset *token.FileSet, repo string, rel ...string) (*ast.File, error) {
	return parser.ParseFile(fset, filepath.Join(append([]string{repo}, rel...)...), nil, 0)
}

func c16TopFunc(f *ast.File, name string) *ast.FuncDecl {
	for _, d := range f.Decls {
		if fn, ok := d.(*ast.FuncDecl); ok && fn.Recv == nil && fn.Name.Name == name {
			return fn
		}
	}
	return nil
}

// if err != nil { return nil, err }
func c16IsErrReturn(s ast.Stmt, errName string) bool {
	ifs, ok := s.(*ast.IfStmt)
	if !ok || ifs.Init != nil || ifs.Else != nil || len(ifs.Body.List) != 1 {
		return false
	}
	bin, ok := ifs.Cond.(*ast.BinaryExpr)
	if !ok || bin.Op != token.NEQ || c16Str(bin.X) != errName || !c16IsNil(bin.Y) {
		return false
	}
	ret, ok := ifs.Body.List[0].(*ast.ReturnStmt)
	return ok && len(ret.Results) == 2 && c16IsNil(ret.Results[0]) && c16Str(ret.Results[1]) == errName
}

// return nil, err   |   return nil, fmt.Errorf("… %w", …, err)
func c16IsErrWrapReturn(s ast.Stmt, errName string) bool {
	ret, ok := s.(*ast.ReturnStmt)
	if !ok || len(ret.Results) != 2 || !c16IsNil(ret.Results[0]) {
		return false
	}
	if c16Str(ret.Results[1]) == errName {
		return true
	}
	call, ok := ret.Results[1].(*ast.CallExpr)
	if !ok || c16Str(call.Fun) != "fmt.Errorf" || len(call.Args) < 2 || c16Str(call.Args[len(call.Args)-1]) != errName {
		return false
	}
	lit, ok := call.Args[0].(*ast.BasicLit)
	return ok && strings.Contains(lit.Value, "%w")
}

func c16Method(f *ast.File, recv, name string) *ast.FuncDecl {
	for _, d := range f.Decls {
		fn, ok := d.(*ast.FuncDecl)
		if !ok || fn.Recv == nil || fn.Name.Name != name || len(fn.Recv.List) != 1 {
			continue
		}
		if c16Str(fn.Recv.List[0].Type) == recv {
			return fn
		}
	}
	return nil
}

func c16Params(fn *ast.FuncDecl) []string {
	var ps []string
	for _, fl := range fn.Type.Params.List {
		for _, n := range fl.Names {
			ps = append(ps, n.Name+" "+c16Str(fl.Type))
		}
	}
	return ps
}

func c16SkippedComment(root *c16Root) string {
	if len(root.skipped) == 0 {
		return ""
	}
	return "(* outside the model, skipped: " + strings.ReplaceAll(strings.Join(root.skipped, "; "), "*)", "* )") + " *)\n"
}

// ---------------------------------------------------------------------------------------------- deepCopy

// Option.deepCopy as a table: which field of the returned Option is a copy of which field of the receiver.
//
//	nX := make([]T, len(o.F)); copy(nX, o.F)                                   nX = o.F (a fresh array)
//	nX := make([]T, len(o.F)); for i, p := range o.F { q := *p; nX[i] = &q }   nX = o.F element-wise (fresh cells)
//	return Option{options: …, handler: …, paths: …, <scalar>: o.<scalar>}
func c16DeepCopy(f *ast.File) (string, error) {
	fn := c16Method(f, "Option", "deepCopy")
	if fn == nil || fn.Body == nil || len(fn.Recv.List[0].Names) != 1 {
		return "", fmt.Errorf("method Option.deepCopy not found")
	}
	recv := fn.Recv.List[0].Names[0].Name
	copies := map[string]string{}  // local -> receiver field it is a copy of
	pending := map[string]string{} // local -> receiver field whose length it was made with
	l := fn.Body.List
	if len(l) == 0 {
		return "", fmt.Errorf("deepCopy: empty body")
	}
	for _, s := range l[:len(l)-1] {
		switch x := s.(type) {
		case *ast.AssignStmt:
			// nX := make([]T, len(o.F))
			if len(x.Lhs) == 1 && len(x.Rhs) == 1 && x.Tok == token.DEFINE {
				if call, ok := x.Rhs[0].(*ast.CallExpr); ok && c16Str(call.Fun) == "make" && len(call.Args) == 2 {
					if ln, ok := call.Args[1].(*ast.CallExpr); ok && c16Str(ln.Fun) == "len" && len(ln.Args) == 1 {
						if sel, ok := ln.Args[0].(*ast.SelectorExpr); ok && c16Str(sel.X) == recv {
							pending[c16Str(x.Lhs[0])] = sel.Sel.Name
							continue
						}
					}
				}
			}
			// nX := append([]T(nil), o.F...)   (also []T{} and make([]T, 0, …) as the empty slice): a copy in one statement
			if len(x.Lhs) == 1 && len(x.Rhs) == 1 && x.Tok == token.DEFINE {
				if call, ok := x.Rhs[0].(*ast.CallExpr); ok && c16Str(call.Fun) == "append" && len(call.Args) == 2 && call.Ellipsis.IsValid() && c16FreshEmptySlice(call.Args[0]) {
					if sel, ok := call.Args[1].(*ast.SelectorExpr); ok && c16Str(sel.X) == recv {
						copies[c16Str(x.Lhs[0])] = sel.Sel.Name
						continue
					}
				}
			}
			return "", fmt.Errorf("deepCopy: statement %s … outside the recognised shape", c16Str(x.Lhs[0]))
		case *ast.ExprStmt:
			// copy(nX, o.F)
			if call, ok := x.X.(*ast.CallExpr); ok && c16Str(call.Fun) == "copy" && len(call.Args) == 2 {
				dst := c16Str(call.Args[0])
				if sel, ok := call.Args[1].(*ast.SelectorExpr); ok && c16Str(sel.X) == recv && pending[dst] == sel.Sel.Name {
					copies[dst] = sel.Sel.Name
					delete(pending, dst)
					continue
				}
			}
			return "", fmt.Errorf("deepCopy: call %s outside the recognised shape", c16Str(x.X))
		case *ast.RangeStmt:
			// for i, p := range o.F { q := *p; nX[i] = &q }
			sel, ok := x.X.(*ast.SelectorExpr)
			if !ok || c16Str(sel.X) != recv || x.Key == nil || x.Value == nil || len(x.Body.List) != 2 {
				return "", fmt.Errorf("deepCopy: loop outside the recognised shape")
			}
			i, p := c16Str(x.Key), c16Str(x.Value)
			a1, ok1 := x.Body.List[0].(*ast.AssignStmt)
			a2, ok2 := x.Body.List[1].(*ast.AssignStmt)
			if !ok1 || !ok2 || len(a1.Lhs) != 1 || len(a2.Lhs) != 1 || a1.Tok != token.DEFINE || a2.Tok != token.ASSIGN {
				return "", fmt.Errorf("deepCopy: loop body outside the recognised shape")
			}
			q := c16Str(a1.Lhs[0])
			if c16Str(a1.Rhs[0]) != "*"+p {
				return "", fmt.Errorf("deepCopy: loop body: %s := %s", q, c16Str(a1.Rhs[0]))
			}
			ix, ok := a2.Lhs[0].(*ast.IndexExpr)
			if !ok || c16Str(ix.Index) != i || c16Str(a2.Rhs[0]) != "&"+q || pending[c16Str(ix.X)] != sel.Sel.Name {
				return "", fmt.Errorf("deepCopy: loop body: %s = %s", c16Str(a2.Lhs[0]), c16Str(a2.Rhs[0]))
			}
			copies[c16Str(ix.X)] = sel.Sel.Name
			delete(pending, c16Str(ix.X))
		default:
			return "", fmt.Errorf("deepCopy: statement %T outside the recognised shape", s)
		}
	}
	if len(pending) > 0 {
		return "", fmt.Errorf("deepCopy: a slice is made and never filled")
	}
	ret, ok := l[len(l)-1].(*ast.ReturnStmt)
	if !ok || len(ret.Results) != 1 {
		return "", fmt.Errorf("deepCopy: last statement is not a return")
	}
	cl, ok := ret.Results[0].(*ast.CompositeLit)
	if !ok || c16Str(cl.Type) != "Option" {
		return "", fmt.Errorf("deepCopy: does not return an Option literal")
	}
	field := map[string]string{"options": "[]", "handler": "[]", "paths": "[]"}
	proj := map[string]string{"options": "o_items o", "handler": "o_handlers o", "paths": "o_paths o"}
	for _, el := range cl.Elts {
		kv, ok := el.(*ast.KeyValueExpr)
		if !ok {
			return "", fmt.Errorf("deepCopy: positional Option literal")
		}
		name := c16Str(kv.Key)
		if _, routed := field[name]; !routed {
			continue // maxRunSteps, …: no routing
		}
		src, ok := copies[c16Str(kv.Value)]
		if !ok {
			if sel, ok2 := kv.Value.(*ast.SelectorExpr); ok2 && c16Str(sel.X) == recv {
				src = sel.Sel.Name // the receiver's slice itself (shared, not copied): same value
			} else {
				return "", fmt.Errorf("deepCopy: field %s is set to %s", name, c16Str(kv.Value))
			}
		}
		p, ok := proj[src]
		if !ok {
			return "", fmt.Errorf("deepCopy: field %s is taken from field %s", name, src)
		}
		field[name] = "(" + p + ")"
	}
	return "Definition deepCopy (o : copt) : copt :=\n  mk_option " + field["options"] + " " + field["handler"] + " " + field["paths"] + ".\n", nil
}

// ---------------------------------------------------------------------------------------------- extractors

func c16ExtractOption(repo string) (string, string, error) {
	c16SetRepo(repo)
	fset := token.NewFileSet()
	fo, err := c16ParseGo(fset, repo, "compose", "graph_call_options.go")
	if err != nil {
		return "", "", err
	}
	dc, err := c16DeepCopy(fo)
	if err != nil {
		return "", "", err
	}
	f, err := c16ParseGo(fset, repo, "compose", "utils.go")
	if err != nil {
		return "", "", err
	}
	fn := c16TopFunc(f, "extractOption")
	if fn == nil || fn.Body == nil {
		return "", "", fmt.Errorf("func extractOption not found")
	}
	if got := strings.Join(c16Params(fn), ", "); got != "nodes map[string]*chanCall, opts ...Option" {
		return "", "", fmt.Errorf("extractOption: parameters (%s)", got)
	}
	root := &c16Root{}
	accName := c16AccName(fn.Body.List, "optmap", "", "optMap")
	t := &c16Tr{fn: "extractOption", acc: accName, accTy: "optmap", idx: map[string]string{}, ignore: map[string]bool{}, hasCopy: true,
		vars: map[string]c16Var{"nodes": {"nodes", "nodes"}, "opts": {"opts", "opts"}, accName: {"optMap", "optmap"}},
		errs: map[string]string{
			"call option has designated an empty path": "E_EMPTY_PATH",
			"option has designated an unknown node":    "E_UNKNOWN",
			"option type[":                             "E_TYPE",
			"cannot designate sub path of a component": "E_SUBPATH",
		}}
	body, err := t.stmts(root, fn.Body.List, "Next", "    ")
	if err != nil {
		return "", "", err
	}
	if !t.accInit {
		return "", "", fmt.Errorf("extractOption: the map optMap is never created")
	}
	var b strings.Builder
	b.WriteString("(* Gen/OptExtract.v — GENERATED by tools/go2v (extractor \"c16extract\") from compose/graph_call_options.go\n")
	b.WriteString("   (Option.deepCopy: which field is copied from where) and compose/utils.go (func extractOption, translated\n   statement by statement). Do not edit. *)\n")
	b.WriteString(c16Imports + "\nDefinition tie_available : bool := true.\n\n")
	b.WriteString(dc + "\n")
	b.WriteString(c16SkippedComment(root))
	b.WriteString("Definition extractOption (nodes : graph) (opts : list copt) : res optmap :=\n  go_result (\n    " + body + ").\n")
	return "OptExtract.v", b.String(), nil
}

func c16ExtractCallbacks(repo string) (string, string, error) {
	c16SetRepo(repo)
	fset := token.NewFileSet()
	f, err := c16ParseGo(fset, repo, "compose", "utils.go")
	if err != nil {
		return "", "", err
	}
	var b strings.Builder
	b.WriteString("(* Gen/OptCallbacks.v — GENERATED by tools/go2v (extractor \"c16callbacks\") from compose/utils.go\n")
	b.WriteString("   (func initGraphCallbacks, func initNodeCallbacks, translated statement by statement: the handler list\n   handed to internal/callbacks.AppendHandlers). Do not edit. *)\n")
	b.WriteString(c16Imports + "\nDefinition tie_available : bool := true.\n\n")
	for _, spec := range []struct{ name, params, sig string }{
		{"initGraphCallbacks", "ctx context.Context, info *nodeInfo, meta *executorMeta, opts ...Option", "(opts : list copt)"},
		{"initNodeCallbacks", "ctx context.Context, key string, info *nodeInfo, meta *executorMeta, opts ...Option", "(key : key) (opts : list copt)"},
	} {
		fn := c16TopFunc(f, spec.name)
		if fn == nil || fn.Body == nil {
			return "", "", fmt.Errorf("func %s not found", spec.name)
		}
		if got := strings.Join(c16Params(fn), ", "); got != spec.params {
			return "", "", fmt.Errorf("%s: parameters (%s)", spec.name, got)
		}
		root := &c16Root{}
		accName := c16AccName(fn.Body.List, "handlers", "", "cbs")
		t := &c16Tr{fn: spec.name, acc: accName, accTy: "handlers", idx: map[string]string{}, ignore: map[string]bool{"ri": true}, ctxArg: "ctx",
			vars: map[string]c16Var{"opts": {"opts", "opts"}, accName: {"cbs", "handlers"}, "key": {"key", "key"}},
			errs: map[string]string{}}
		body, err := t.stmts(root, fn.Body.List, "Next", "    ")
		if err != nil {
			return "", "", err
		}
		if !t.accInit {
			return "", "", fmt.Errorf("%s: the handler list cbs is never declared", spec.name)
		}
		b.WriteString(c16SkippedComment(root))
		b.WriteString("Definition " + spec.name + " " + spec.sig + " : list N :=\n  go_value (\n    " + body + ") [].\n\n")
	}
	return "OptCallbacks.v", b.String(), nil
}

// Option.DesignateNodeWithPath on the level of slices: the heap h and the header of o.paths are threaded
// through the statements
//
//	x := make([]*NodePath, l, c)     x = append(x, y...)     o.paths = append(o.paths, y...)     o.paths = x     return o
//
// y ::= o.paths | the variadic parameter | a local slice; l, c ::= 0 | len(y) | l + c
func c16ExtractDesignate(repo string) (string, string, error) {
	fset := token.NewFileSet()
	f, err := c16ParseGo(fset, repo, "compose", "graph_call_options.go")
	if err != nil {
		return "", "", err
	}
	fn := c16Method(f, "Option", "DesignateNodeWithPath")
	if fn == nil || fn.Body == nil || len(fn.Recv.List[0].Names) != 1 {
		return "", "", fmt.Errorf("method Option.DesignateNodeWithPath (value receiver) not found")
	}
	recv := fn.Recv.List[0].Names[0].Name
	ps := c16Params(fn)
	if len(ps) != 1 || !strings.HasSuffix(ps[0], " ...*NodePath") {
		return "", "", fmt.Errorf("DesignateNodeWithPath: parameters (%s)", strings.Join(ps, ", "))
	}
	param := strings.TrimSuffix(ps[0], " ...*NodePath")
	recvPaths := recv + ".paths"
	locals := map[string]bool{}
	// a slice expression: its Gallina header (for append targets) and its elements (for reading)
	header := func(e ast.Expr) (string, bool) {
		s := c16Str(e)
		if s == recvPaths {
			return "o_paths", true
		}
		if locals[s] {
			return "s_" + s, true
		}
		return "", false
	}
	elems := func(e ast.Expr) (string, bool) {
		s := c16Str(e)
		if s == param {
			return "path", true
		}
		if hd, ok := header(e); ok {
			return "(read h " + hd + ")", true
		}
		return "", false
	}
	var length func(e ast.Expr) (string, bool)
	length = func(e ast.Expr) (string, bool) {
		switch x := e.(type) {
		case *ast.BasicLit:
			if x.Kind == token.INT {
				return x.Value, true
			}
		case *ast.CallExpr:
			if c16Str(x.Fun) == "len" && len(x.Args) == 1 {
				s := c16Str(x.Args[0])
				if s == param {
					return "length path", true
				}
				if hd, ok := header(x.Args[0]); ok {
					return "len " + hd, true
				}
			}
		case *ast.BinaryExpr:
			if x.Op == token.ADD {
				l, ok1 := length(x.X)
				r, ok2 := length(x.Y)
				if ok1 && ok2 {
					return "(" + l + " + " + r + ")", true
				}
			}
		case *ast.ParenExpr:
			return length(x.X)
		}
		return "", false
	}
	var b strings.Builder
	b.WriteString("(* Gen/OptDesignate.v — GENERATED by tools/go2v (extractor \"c16designate\") from compose/graph_call_options.go\n")
	b.WriteString("   (method Option.DesignateNodeWithPath, translated statement by statement over Base/GoSlice.v: the heap of\n")
	b.WriteString("   arrays [h] and the slice header of the receiver copy's paths are threaded through). Do not edit. *)\n")
	b.WriteString("From Coq Require Import List Arith NArith Bool.\nImport ListNotations.\nFrom Eino Require Import Base.GoSlice Model.OptionsSlice.\n\n")
	b.WriteString("Definition tie_available : bool := true.\n\n")
	b.WriteString("Definition designateNodeWithPath (pol : policy) (h : heap) (o_paths : slice) (path : list elem) : heap * slice :=\n")
	returned := false
	for i, s := range fn.Body.List {
		if returned {
			return "", "", fmt.Errorf("DesignateNodeWithPath: statements after the return")
		}
		switch x := s.(type) {
		case *ast.AssignStmt:
			if len(x.Lhs) != 1 || len(x.Rhs) != 1 {
				return "", "", fmt.Errorf("DesignateNodeWithPath: statement %d outside the translated fragment", i)
			}
			lhs := c16Str(x.Lhs[0])
			var target string
			switch {
			case x.Tok == token.DEFINE:
				if _, isIdent := x.Lhs[0].(*ast.Ident); !isIdent || lhs == recv || lhs == param {
					return "", "", fmt.Errorf("DesignateNodeWithPath: %s := …", lhs)
				}
				target = "s_" + lhs
			case lhs == recvPaths:
				target = "o_paths"
			case locals[lhs]:
				target = "s_" + lhs
			default:
				return "", "", fmt.Errorf("DesignateNodeWithPath: assignment to %s", lhs)
			}
			switch r := x.Rhs[0].(type) {
			case *ast.CallExpr:
				switch c16Str(r.Fun) {
				case "make":
					if len(r.Args) < 2 || len(r.Args) > 3 || c16Str(r.Args[0]) != "[]*NodePath" {
						return "", "", fmt.Errorf("DesignateNodeWithPath: %s", c16Str(r))
					}
					l, ok := length(r.Args[1])
					c := l
					ok2 := true
					if len(r.Args) == 3 {
						c, ok2 = length(r.Args[2])
					}
					if !ok || !ok2 {
						return "", "", fmt.Errorf("DesignateNodeWithPath: %s", c16Str(r))
					}
					b.WriteString("  let '(h, " + target + ") := make h " + l + " " + c + " in\n")
				case "append":
					if len(r.Args) != 2 || !r.Ellipsis.IsValid() {
						return "", "", fmt.Errorf("DesignateNodeWithPath: %s", c16Str(r))
					}
					hd, ok := header(r.Args[0])
					el, ok2 := elems(r.Args[1])
					if !ok || !ok2 {
						return "", "", fmt.Errorf("DesignateNodeWithPath: %s", c16Str(r))
					}
					b.WriteString("  let '(h, " + target + ") := append pol h " + hd + " " + el + " in\n")
				default:
					return "", "", fmt.Errorf("DesignateNodeWithPath: call %s", c16Str(r))
				}
			default:
				hd, ok := header(x.Rhs[0])
				if !ok {
					return "", "", fmt.Errorf("DesignateNodeWithPath: %s = %s", lhs, c16Str(x.Rhs[0]))
				}
				b.WriteString("  let " + target + " := " + hd + " in\n")
			}
			if x.Tok == token.DEFINE {
				locals[lhs] = true
			}
		case *ast.ReturnStmt:
			if len(x.Results) != 1 || c16Str(x.Results[0]) != recv {
				return "", "", fmt.Errorf("DesignateNodeWithPath: does not return the receiver copy")
			}
			b.WriteString("  (h, o_paths).\n")
			returned = true
		default:
			return "", "", fmt.Errorf("DesignateNodeWithPath: statement %T outside the translated fragment", s)
		}
	}
	if !returned {
		return "", "", fmt.Errorf("DesignateNodeWithPath: no return")
	}
	return "OptDesignate.v", b.String(), nil
}

// ---------------------------------------------------------------------------------------------- tasks and sites

// the &task{…} literal assigned / appended inside the loop of createTasks / restoreTasks
func c16TaskLit(body []ast.Stmt) (*ast.CompositeLit, string) {
	var lit *ast.CompositeLit
	var name string
	for _, s := range body {
		as, ok := s.(*ast.AssignStmt)
		if !ok || len(as.Rhs) != 1 {
			continue
		}
		var found *ast.CompositeLit
		ast.Inspect(as.Rhs[0], func(n ast.Node) bool {
			if cl, ok := n.(*ast.CompositeLit); ok && c16Str(cl.Type) == "task" {
				found = cl
			}
			return true
		})
		if found != nil && lit == nil {
			lit = found
			if u, ok := as.Rhs[0].(*ast.UnaryExpr); ok && u.Op == token.AND && u.X == found {
				name = c16Str(as.Lhs[0]) // x := &task{…}
			}
		}
	}
	return lit, name
}

func c16Field(cl *ast.CompositeLit, name string) ast.Expr {
	for _, el := range cl.Elts {
		if kv, ok := el.(*ast.KeyValueExpr); ok && c16Str(kv.Key) == name {
			return kv.Value
		}
	}
	return nil
}

// the option slice of a task: nil | optMap[key]
func c16TaskOption(e ast.Expr, optMap, key string) (string, error) {
	if e == nil || c16IsNil(e) {
		return "[]", nil
	}
	if ix, ok := e.(*ast.IndexExpr); ok && c16Str(ix.X) == optMap && c16Str(ix.Index) == key {
		return "(om_get " + key + " " + optMap + ")", nil
	}
	return "", fmt.Errorf("task option %s is outside the translated fragment", c16Str(e))
}

// one task-building function: for k, v := range m { …&task{nodeKey: k, option: E, …}… [if x, ok := optMap[k]; C { t.option = x }] … }
func c16TaskFunc(f *ast.File, name string, withSkip bool) (string, error) {
	fn := c16Method(f, "*runner", name)
	if fn == nil || fn.Body == nil {
		return "", fmt.Errorf("method runner.%s not found", name)
	}
	ps := c16Params(fn)
	if len(ps) == 0 || !strings.HasSuffix(ps[len(ps)-1], " map[string][]any") {
		return "", fmt.Errorf("%s: the last parameter is not the option map", name)
	}
	optMap := strings.TrimSuffix(ps[len(ps)-1], " map[string][]any")
	var loop *ast.RangeStmt
	for _, s := range fn.Body.List {
		if r, ok := s.(*ast.RangeStmt); ok {
			if loop != nil {
				return "", fmt.Errorf("%s: more than one loop", name)
			}
			loop = r
		}
	}
	if loop == nil || loop.Key == nil {
		return "", fmt.Errorf("%s: no loop over the nodes to start", name)
	}
	key := c16Str(loop.Key)
	lit, tvar := c16TaskLit(loop.Body.List)
	if lit == nil {
		return "", fmt.Errorf("%s: no task literal in the loop", name)
	}
	if nk := c16Field(lit, "nodeKey"); nk == nil || c16Str(nk) != key {
		return "", fmt.Errorf("%s: the task's nodeKey is not the loop key", name)
	}
	opt, err := c16TaskOption(c16Field(lit, "option"), optMap, key)
	if err != nil {
		return "", fmt.Errorf("%s: %v", name, err)
	}
	skipField := ""
	if sp := c16Field(lit, "skipPreHandler"); sp != nil {
		skipField = c16Str(sp)
	}
	body := opt
	// later assignments to <tvar>.option
	for _, s := range loop.Body.List {
		touches := false
		ast.Inspect(s, func(n ast.Node) bool {
			if as, ok := n.(*ast.AssignStmt); ok {
				for _, l := range as.Lhs {
					if sel, ok := l.(*ast.SelectorExpr); ok && sel.Sel.Name == "option" {
						touches = true
					}
				}
			}
			return true
		})
		if !touches {
			continue
		}
		ifs, ok := s.(*ast.IfStmt)
		if !ok || ifs.Init == nil || ifs.Else != nil || len(ifs.Body.List) != 1 || tvar == "" {
			return "", fmt.Errorf("%s: assignment to the task's option outside the translated fragment", name)
		}
		init, ok := ifs.Init.(*ast.AssignStmt)
		if !ok || init.Tok != token.DEFINE || len(init.Lhs) != 2 || len(init.Rhs) != 1 {
			return "", fmt.Errorf("%s: lookup outside the translated fragment", name)
		}
		ix, ok := init.Rhs[0].(*ast.IndexExpr)
		if !ok || c16Str(ix.X) != optMap || c16Str(ix.Index) != key {
			return "", fmt.Errorf("%s: lookup %s outside the translated fragment", name, c16Str(init.Rhs[0]))
		}
		x, okv := c16Str(init.Lhs[0]), c16Str(init.Lhs[1])
		as, ok := ifs.Body.List[0].(*ast.AssignStmt)
		if !ok || len(as.Lhs) != 1 || c16Str(as.Lhs[0]) != tvar+".option" || c16Str(as.Rhs[0]) != x {
			return "", fmt.Errorf("%s: the found options are not assigned to the task", name)
		}
		// condition: ok [&& [!]skip]
		var cond func(e ast.Expr) (string, error)
		cond = func(e ast.Expr) (string, error) {
			switch c := e.(type) {
			case *ast.ParenExpr:
				return cond(c.X)
			case *ast.Ident:
				if c.Name == okv {
					return "true", nil
				}
			case *ast.UnaryExpr:
				if c.Op == token.NOT {
					r, err := cond(c.X)
					return "(negb " + r + ")", err
				}
			case *ast.BinaryExpr:
				if c.Op == token.LAND || c.Op == token.LOR {
					l, err := cond(c.X)
					if err != nil {
						return "", err
					}
					r, err := cond(c.Y)
					op := " && "
					if c.Op == token.LOR {
						op = " || "
					}
					return "(" + l + op + r + ")", err
				}
			}
			if withSkip && (c16Str(e) == tvar+".skipPreHandler" || (skipField != "" && c16Str(e) == skipField)) {
				return "skip", nil
			}
			return "", fmt.Errorf("%s: condition %s outside the translated fragment", name, c16Str(e))
		}
		// Go evaluates `ok` first; the found-branch is only taken when the key is present
		c, err := cond(ifs.Cond)
		if err != nil {
			return "", err
		}
		present := strings.Replace(c, "true", "true", -1)
		body = "let option := " + body + " in\n  match nlist_get " + key + " " + optMap + " with\n  | Some " + x + " => if " + present + " then " + x + " else option\n  | None => option\n  end"
	}
	sig := "(" + key + " : key) (" + optMap + " : optmap)"
	if withSkip {
		sig = "(skip : bool) " + sig
	}
	return "Definition " + strings.TrimSuffix(name, "s") + "_option " + sig + " : list entry :=\n  " + body + ".\n", nil
}

// does a call expression end with the argument `<name>` (or `<name>...`)?
func c16LastArgIs(call *ast.CallExpr, name string) bool {
	return len(call.Args) > 0 && c16Str(call.Args[len(call.Args)-1]) == name
}

func c16ExtractTasks(repo string) (string, string, error) {
	fset := token.NewFileSet()
	f, err := c16ParseGo(fset, repo, "compose", "graph_run.go")
	if err != nil {
		return "", "", err
	}
	fm, err := c16ParseGo(fset, repo, "compose", "graph_manager.go")
	if err != nil {
		return "", "", err
	}
	ct, err := c16TaskFunc(f, "createTasks", false)
	if err != nil {
		return "", "", err
	}
	rt, err := c16TaskFunc(f, "restoreTasks", true)
	if err != nil {
		return "", "", err
	}
	// ---- the flow of the call's options through runner.run
	run := c16Method(f, "*runner", "run")
	if run == nil || run.Body == nil {
		return "", "", fmt.Errorf("method runner.run not found")
	}
	ps := c16Params(run)
	if len(ps) == 0 || !strings.HasSuffix(ps[len(ps)-1], " ...Option") {
		return "", "", fmt.Errorf("run: the last parameter is not the option list")
	}
	opts := strings.TrimSuffix(ps[len(ps)-1], " ...Option")
	type flow struct {
		name string
		ok   bool
	}
	var flows []flow
	// (1) optMap is defined once, at the top level of the body, by r.extractOption(opts...)
	optMap := ""
	topLevel := false
	for _, s := range run.Body.List {
		if as, ok := s.(*ast.AssignStmt); ok && len(as.Rhs) == 1 && len(as.Lhs) == 2 && as.Tok == token.DEFINE {
			if call, ok := as.Rhs[0].(*ast.CallExpr); ok {
				if sel, ok := call.Fun.(*ast.SelectorExpr); ok && sel.Sel.Name == "extractOption" && c16Str(sel.X) == run.Recv.List[0].Names[0].Name {
					optMap = c16Str(as.Lhs[0])
					topLevel = len(call.Args) == 1 && c16Str(call.Args[0]) == opts && call.Ellipsis.IsValid()
				}
			}
		}
	}
	if optMap == "" && !c16CallsNamed(run.Body, "extractOption") {
		// the extraction is not in run any more (moved into a helper, another entry point): nothing to compare with
		return "", "", fmt.Errorf("run: no extraction of the call's options in the body (shape not recognised)")
	}
	flows = append(flows, flow{"run: the option map is extracted unconditionally by runner.extractOption from the call's own options", optMap != "" && topLevel})
	if optMap == "" {
		optMap = "optMap"
	}
	// (2) no other extraction, no other assignment to the option map or to the option list
	others, reassigned := 0, 0
	ast.Inspect(run.Body, func(n ast.Node) bool {
		switch x := n.(type) {
		case *ast.CallExpr:
			if strings.HasSuffix(c16Str(x.Fun), "extractOption") {
				others++
			}
		case *ast.AssignStmt:
			for _, l := range x.Lhs {
				if c16Str(l) == optMap || c16Str(l) == opts {
					reassigned++
				}
			}
		}
		return true
	})
	flows = append(flows, flow{"run: there is no other extraction", others == 1})
	flows = append(flows, flow{"run: neither the option map nor the option list is assigned again", reassigned == 1})
	// (3) every construction of tasks that run submits gets the option map (tasks that are only
	// stored in a checkpoint are rebuilt by restoreTasks with the options of the resuming call)
	submitted := ""
	ast.Inspect(run.Body, func(x ast.Node) bool {
		if call, ok := x.(*ast.CallExpr); ok {
			if sel, ok := call.Fun.(*ast.SelectorExpr); ok && sel.Sel.Name == "submit" && len(call.Args) == 1 {
				submitted = c16Str(call.Args[0])
			}
		}
		return true
	})
	if submitted == "" {
		return "", "", fmt.Errorf("run: no submit of tasks in the body (shape not recognised)")
	}
	n, with := 0, 0
	isTaskCtor := func(name string) bool {
		return name == "restoreTasks" || name == "calculateNextTasks" || name == "createTasks"
	}
	// private methods of the runner that build the submitted tasks on behalf of run (a branch of run moved into a
	// helper that is handed the option map): the helper's parameter stands for the map inside its body
	type c16FlowHelper struct {
		fn *ast.FuncDecl
		om string
	}
	var flowHelpers []c16FlowHelper
	ast.Inspect(run.Body, func(x ast.Node) bool {
		as, ok := x.(*ast.AssignStmt)
		if !ok || len(as.Rhs) != 1 || len(as.Lhs) == 0 {
			return true
		}
		first, any := c16Str(as.Lhs[0]) == submitted, false
		for _, l := range as.Lhs {
			if c16Str(l) == submitted {
				any = true
			}
		}
		if !any {
			return true
		}
		call, ok := as.Rhs[0].(*ast.CallExpr)
		if !ok {
			return true
		}
		sel, ok := call.Fun.(*ast.SelectorExpr)
		if !ok {
			return true
		}
		if isTaskCtor(sel.Sel.Name) {
			if first {
				n++
				if c16LastArgIs(call, optMap) {
					with++
				}
			}
			return true
		}
		if c16Str(sel.X) != run.Recv.List[0].Names[0].Name {
			return true
		}
		h := c16Method(f, "*runner", sel.Sel.Name)
		if h == nil || h.Body == nil {
			return true
		}
		// a helper of the runner produces the submitted tasks: it counts as one construction; it is handed the map
		// iff one argument is the map and every construction inside the helper is handed the matching parameter
		n++
		hps := c16Params(h)
		om := ""
		for i, a := range call.Args {
			if c16Str(a) == optMap && i < len(hps) && strings.HasSuffix(hps[i], " map[string][]any") {
				om = strings.TrimSuffix(hps[i], " map[string][]any")
			}
		}
		if om == "" {
			return true
		}
		k, w, bad := 0, 0, 0
		ast.Inspect(h.Body, func(y ast.Node) bool {
			switch z := y.(type) {
			case *ast.CallExpr:
				if s2, ok := z.Fun.(*ast.SelectorExpr); ok && isTaskCtor(s2.Sel.Name) {
					k++
					if c16LastArgIs(z, om) {
						w++
					}
				}
			case *ast.AssignStmt:
				for _, l := range z.Lhs {
					if c16Str(l) == om {
						bad++
					}
				}
			}
			return true
		})
		if k >= 1 && k == w && bad == 0 {
			with++
			flowHelpers = append(flowHelpers, c16FlowHelper{h, om})
		}
		return true
	})
	flows = append(flows, flow{"run: every restoreTasks / calculateNextTasks whose tasks are submitted is handed the option map", submitted != "" && n >= 3 && n == with})
	// (4) calculateNextTasks hands its option map on to createTasks
	cn := c16Method(f, "*runner", "calculateNextTasks")
	okCn := false
	if cn != nil && cn.Body != nil {
		cps := c16Params(cn)
		if len(cps) > 0 && strings.HasSuffix(cps[len(cps)-1], " map[string][]any") {
			om := strings.TrimSuffix(cps[len(cps)-1], " map[string][]any")
			k, w := 0, 0
			ast.Inspect(cn.Body, func(x ast.Node) bool {
				if call, ok := x.(*ast.CallExpr); ok {
					if sel, ok := call.Fun.(*ast.SelectorExpr); ok && sel.Sel.Name == "createTasks" {
						k++
						if c16LastArgIs(call, om) {
							w++
						}
					}
				}
				return true
			})
			okCn = k >= 1 && k == w
		}
	}
	flows = append(flows, flow{"calculateNextTasks: createTasks is handed the option map", okCn})
	// (4b) the task constructions only read the option map
	writes := 0
	for _, name := range []string{"calculateNextTasks", "createTasks", "restoreTasks"} {
		m := c16Method(f, "*runner", name)
		if m == nil || m.Body == nil {
			writes++
			continue
		}
		mps := c16Params(m)
		if len(mps) == 0 || !strings.HasSuffix(mps[len(mps)-1], " map[string][]any") {
			writes++
			continue
		}
		om := strings.TrimSuffix(mps[len(mps)-1], " map[string][]any")
		writes += c16MapWrites(m.Body, om)
	}
	for _, fh := range flowHelpers {
		writes += c16MapWrites(fh.fn.Body, fh.om)
	}
	flows = append(flows, flow{"calculateNextTasks / createTasks / restoreTasks only read the option map", writes == 0})
	// (5) the task manager of the run keeps the call's option list
	okTm := false
	ast.Inspect(run.Body, func(x ast.Node) bool {
		if call, ok := x.(*ast.CallExpr); ok {
			if sel, ok := call.Fun.(*ast.SelectorExpr); ok && sel.Sel.Name == "initTaskManager" {
				okTm = c16LastArgIs(call, opts) && call.Ellipsis.IsValid()
			}
		}
		return true
	})
	if !c16CallsNamed(run.Body, "initTaskManager") {
		return "", "", fmt.Errorf("run: no initTaskManager in the body (shape not recognised)")
	}
	itm := c16Method(f, "*runner", "initTaskManager")
	okField := false
	if itm != nil && itm.Body != nil {
		ips := c16Params(itm)
		if len(ips) > 0 && strings.HasSuffix(ips[len(ips)-1], " ...Option") {
			io := strings.TrimSuffix(ips[len(ips)-1], " ...Option")
			ast.Inspect(itm.Body, func(x ast.Node) bool {
				if cl, ok := x.(*ast.CompositeLit); ok && c16Str(cl.Type) == "taskManager" {
					if v := c16Field(cl, "opts"); v != nil && c16Str(v) == io {
						okField = true
					}
				}
				// tm.opts = opts as a statement of its own
				if as, ok := x.(*ast.AssignStmt); ok && len(as.Lhs) == 1 && len(as.Rhs) == 1 && as.Tok == token.ASSIGN {
					if sel, ok := as.Lhs[0].(*ast.SelectorExpr); ok && sel.Sel.Name == "opts" && c16Str(as.Rhs[0]) == io {
						okField = true
					}
				}
				return true
			})
		}
	}
	flows = append(flows, flow{"run: the task manager is given the call's option list", okTm && okField})
	// (6) executor: the node's callbacks from the call's list, the node's call with the task's slice
	exFn := c16Method(fm, "*taskManager", "executor")
	if exFn == nil || exFn.Body == nil {
		return "", "", fmt.Errorf("method taskManager.executor not found (shape not recognised)")
	}
	okCb, okRun := c16ExecutorFacts(fm, exFn, 2)
	if !okCb && !okRun && !c16ReachesCall(fm, exFn, "initNodeCallbacks", 3) && !c16ReachesCall(fm, exFn, "runWrapper", 3) {
		// neither call is in the executor or in a method it calls: the node call lives somewhere else now
		return "", "", fmt.Errorf("executor: neither initNodeCallbacks nor the node call found (shape not recognised)")
	}
	flows = append(flows, flow{"executor: initNodeCallbacks gets the node's key and the call's option list", okCb})
	flows = append(flows, flow{"executor: the node is called with the task's option slice", okRun})

	var b strings.Builder
	b.WriteString("(* Gen/OptTasks.v — GENERATED by tools/go2v (extractor \"c16tasks\") from compose/graph_run.go (createTasks,\n")
	b.WriteString("   restoreTasks: the option slice a task is built with; run, calculateNextTasks, initTaskManager) and\n")
	b.WriteString("   compose/graph_manager.go (taskManager.executor): where the call's options flow. Do not edit. *)\n")
	b.WriteString("From Eino Require Import Base.Util Model.Options Model.OptionsResume Model.OptionsGenLib Model.OptionsSitesTable.\n\n")
	b.WriteString("Definition tie_available : bool := true.\n\n")
	b.WriteString(ct + "\n" + rt + "\n")
	b.WriteString("Definition option_flow : list (string * bool) :=\n  [ ")
	for i, fl := range flows {
		if i > 0 {
			b.WriteString(";\n    ")
		}
		v := "false"
		if fl.ok {
			v = "true"
		}
		b.WriteString("(" + c16CoqStr(fl.name) + ", " + v + ")")
	}
	b.WriteString(" ].\n")
	return "OptTasks.v", b.String(), nil
}

func c16CoqStr(s string) string { return `"` + strings.ReplaceAll(s, `"`, `""`) + `"%string` }

// ---------------------------------------------------------------------------------------------- validation

// runner.extractOption (distribution + validation of what is handed to every nested graph), statement by
// statement; the checkOption closure that toComposableRunnable installs for a graph used as a node:
//
//	tos, err := convertOption[Option](opts...); if err != nil { return err }; _, err = r.extractOption(tos...); return err
func c16ExtractValidate(repo string) (string, string, error) {
	c16SetRepo(repo)
	fset := token.NewFileSet()
	f, err := c16ParseGo(fset, repo, "compose", "graph_run.go")
	if err != nil {
		return "", "", err
	}
	fn := c16Method(f, "*runner", "extractOption")
	if fn == nil || fn.Body == nil || len(fn.Recv.List[0].Names) != 1 {
		return "", "", fmt.Errorf("method runner.extractOption not found")
	}
	recv := fn.Recv.List[0].Names[0].Name
	if got := strings.Join(c16Params(fn), ", "); got != "opts ...Option" {
		return "", "", fmt.Errorf("runner.extractOption: parameters (%s)", got)
	}
	root := &c16Root{}
	accName := c16AccName(fn.Body.List, "optmap", "extractOption", "optMap")
	t := &c16Tr{fn: "runner.extractOption", acc: accName, accTy: "optmap", idx: map[string]string{}, ignore: map[string]bool{}, callee: "extractOption",
		vars: map[string]c16Var{recv + ".chanSubscribeTo": {"nodes", "nodes"}, "opts": {"opts", "opts"}, accName: {"optMap", "optmap"}},
		errs: map[string]string{}}
	body, err := t.stmts(root, fn.Body.List, "Next", "    ")
	if err != nil {
		return "", "", err
	}
	if !t.accInit {
		return "", "", fmt.Errorf("runner.extractOption: the option map is never computed")
	}
	// the closure
	tc := c16Method(f, "*runner", "toComposableRunnable")
	if tc == nil || tc.Body == nil || len(tc.Recv.List[0].Names) != 1 {
		return "", "", fmt.Errorf("method runner.toComposableRunnable not found")
	}
	trecv := tc.Recv.List[0].Names[0].Name
	var lit *ast.FuncLit
	ast.Inspect(tc.Body, func(n ast.Node) bool {
		if kv, ok := n.(*ast.KeyValueExpr); ok && c16Str(kv.Key) == "checkOption" {
			if fl, ok := kv.Value.(*ast.FuncLit); ok {
				lit = fl
			}
		}
		return true
	})
	if lit == nil || len(lit.Type.Params.List) != 1 || len(lit.Type.Params.List[0].Names) != 1 || len(lit.Body.List) != 4 {
		return "", "", fmt.Errorf("toComposableRunnable: the checkOption closure has another shape")
	}
	po := lit.Type.Params.List[0].Names[0].Name
	s0, ok0 := lit.Body.List[0].(*ast.AssignStmt)
	s1, ok1 := lit.Body.List[1].(*ast.IfStmt)
	s2, ok2 := lit.Body.List[2].(*ast.AssignStmt)
	s3, ok3 := lit.Body.List[3].(*ast.ReturnStmt)
	if !ok0 || !ok1 || !ok2 || !ok3 || len(s0.Lhs) != 2 || len(s0.Rhs) != 1 || len(s2.Lhs) != 2 || len(s2.Rhs) != 1 || len(s3.Results) != 1 {
		return "", "", fmt.Errorf("toComposableRunnable: the checkOption closure has another shape")
	}
	tos, e := c16Str(s0.Lhs[0]), c16Str(s0.Lhs[1])
	if c16Str(s0.Rhs[0]) != "convertOption[Option]("+po+"...)" {
		return "", "", fmt.Errorf("checkOption: %s", c16Str(s0.Rhs[0]))
	}
	ret, okr := s1.Body.List[0].(*ast.ReturnStmt)
	bin, okb := s1.Cond.(*ast.BinaryExpr)
	if s1.Init != nil || s1.Else != nil || len(s1.Body.List) != 1 || !okr || !okb || bin.Op != token.NEQ || c16Str(bin.X) != e || !c16IsNil(bin.Y) || len(ret.Results) != 1 || c16Str(ret.Results[0]) != e {
		return "", "", fmt.Errorf("checkOption: the conversion error is not returned at once")
	}
	// the extraction the closure runs: the runner's own (distribution + validation of the next level: rec) or
	// the plain one-level extractOption over the runner's nodes (plain)
	which := ""
	switch c16Str(s2.Rhs[0]) {
	case trecv + ".extractOption(" + tos + "...)":
		which = "rec"
	case "extractOption(" + trecv + ".chanSubscribeTo, " + tos + "...)":
		which = "plain"
	}
	if c16Str(s2.Lhs[0]) != "_" || c16Str(s2.Lhs[1]) != e || which == "" || c16Str(s3.Results[0]) != e {
		return "", "", fmt.Errorf("checkOption: %s / return %s", c16Str(s2.Rhs[0]), c16Str(s3.Results[0]))
	}
	var b strings.Builder
	b.WriteString("(* Gen/OptValidate.v — GENERATED by tools/go2v (extractor \"c16validate\") from compose/graph_run.go\n")
	b.WriteString("   (method runner.extractOption, translated statement by statement; the checkOption closure of\n   runner.toComposableRunnable). Do not edit. *)\n")
	b.WriteString(c16Imports + "From Eino Require Import Gen.OptExtract.\n\nDefinition tie_available : bool := true.\n\n")
	b.WriteString("(* checkOption: func(" + po + " ...any) error — [rec] is the runner's own extractOption (this function, one level\n   further down), [plain] the one-level extractOption over the runner's nodes *)\n")
	b.WriteString("Definition checkOption (rec plain : list copt -> res optmap) (" + po + " : list entry) : res unit :=\n")
	b.WriteString("  match convert_opts " + po + " with\n  | Err " + e + " => Err " + e + "\n  | Panic => Panic\n  | Ok " + tos + " =>\n")
	b.WriteString("    match " + which + " " + tos + " with\n    | Err " + e + " => Err " + e + "\n    | Panic => Panic\n    | Ok _ => Ok tt\n    end\n  end.\n\n")
	b.WriteString(c16SkippedComment(root))
	b.WriteString("(* [chk c es] = c.action.checkOption(es...) *)\n")
	b.WriteString("Definition runnerExtractOption (chk : node -> list entry -> res unit) (nodes : graph) (opts : list copt) : res optmap :=\n  go_result (\n    " + body + ").\n")
	return "OptValidate.v", b.String(), nil
}

// c16OutsideModel: an expression that mentions no translated variable (the option list, the accumulator, the node
// key, a loop variable) - e.g. the RunInfo built in place by a private helper, newCallbackRunInfo(info, meta), instead
// of the local ri: what names the node is outside the model, and an expression that is not handed the accumulator or the
// options cannot change which handlers are collected.
func (t *c16Tr) c16OutsideModel(e ast.Expr) bool {
	ok := true
	ast.Inspect(e, func(n ast.Node) bool {
		switch x := n.(type) {
		case *ast.Ident:
			if _, bound := t.vars[x.Name]; bound || x.Name == t.acc || x.Name == t.ctxArg {
				ok = false
			}
			if _, bound := t.idx[x.Name]; bound {
				ok = false
			}
		case *ast.FuncLit:
			ok = false
		case *ast.UnaryExpr:
			if x.Op == token.ARROW {
				ok = false
			}
		}
		return ok
	})
	return ok
}

// c16MapWrites counts the statements of body that change the map named om (assignment to it or to an entry, delete,
// clear, ++ / -- on an entry).
func c16MapWrites(body *ast.BlockStmt, om string) int {
	writes := 0
	ast.Inspect(body, func(x ast.Node) bool {
		switch y := x.(type) {
		case *ast.AssignStmt:
			for _, l := range y.Lhs {
				if c16Str(l) == om {
					writes++
				}
				if ix, ok := l.(*ast.IndexExpr); ok && c16Str(ix.X) == om {
					writes++
				}
			}
		case *ast.CallExpr:
			if (c16Str(y.Fun) == "delete" || c16Str(y.Fun) == "clear") && len(y.Args) > 0 && c16Str(y.Args[0]) == om {
				writes++
			}
		case *ast.IncDecStmt:
			if ix, ok := y.X.(*ast.IndexExpr); ok && c16Str(ix.X) == om {
				writes++
			}
		}
		return true
	})
	return writes
}

// c16ExecutorFacts: at the top level of the executor's body (unconditionally) the node's callbacks are initialised from
// the task manager's option list and the node's key, and the node is called with the task's option slice. When the
// body has neither statement but hands the task, unconditionally, to another method of the task manager (the node
// call moved into a helper: `t.runNode(currentTask)`), the facts are read there (depth: how many hand-overs are followed).
func c16ExecutorFacts(fm *ast.File, ex *ast.FuncDecl, depth int) (okCb, okRun bool) {
	if ex == nil || ex.Body == nil || ex.Recv == nil || len(ex.Recv.List) != 1 || len(ex.Recv.List[0].Names) != 1 ||
		len(ex.Type.Params.List) != 1 || len(ex.Type.Params.List[0].Names) != 1 {
		return false, false
	}
	tm := ex.Recv.List[0].Names[0].Name
	tk := ex.Type.Params.List[0].Names[0].Name
	seen := false
	for _, s := range ex.Body.List { // top level of the body: unconditional
		as, ok := s.(*ast.AssignStmt)
		if !ok || len(as.Rhs) != 1 {
			continue
		}
		call, ok := as.Rhs[0].(*ast.CallExpr)
		if !ok {
			continue
		}
		switch c16Str(call.Fun) {
		case "initNodeCallbacks":
			seen = true
			okCb = call.Ellipsis.IsValid() && c16LastArgIs(call, tm+".opts") && len(call.Args) >= 2 && c16Str(call.Args[1]) == tk+".nodeKey"
		case tm + ".runWrapper":
			seen = true
			okRun = call.Ellipsis.IsValid() && c16LastArgIs(call, tk+".option")
		}
	}
	if seen || depth == 0 {
		return okCb, okRun
	}
	for _, s := range ex.Body.List {
		es, ok := s.(*ast.ExprStmt)
		if !ok {
			continue
		}
		call, ok := es.X.(*ast.CallExpr)
		if !ok || len(call.Args) != 1 || c16Str(call.Args[0]) != tk {
			continue
		}
		sel, ok := call.Fun.(*ast.SelectorExpr)
		if !ok || c16Str(sel.X) != tm {
			continue
		}
		if cb, run := c16ExecutorFacts(fm, c16Method(fm, "*taskManager", sel.Sel.Name), depth-1); cb || run {
			return cb, run
		}
	}
	return false, false
}

// c16CallsNamed: some call in n whose function is named name or ends in .name
func c16CallsNamed(n ast.Node, name string) bool {
	found := false
	ast.Inspect(n, func(x ast.Node) bool {
		if call, ok := x.(*ast.CallExpr); ok {
			if f := c16Str(call.Fun); f == name || strings.HasSuffix(f, "."+name) {
				found = true
			}
		}
		return !found
	})
	return found
}

// c16ReachesCall: fn's body, or the body of a method of the same receiver type that it calls (depth levels), calls name
func c16ReachesCall(f *ast.File, fn *ast.FuncDecl, name string, depth int) bool {
	if fn == nil || fn.Body == nil {
		return false
	}
	if c16CallsNamed(fn.Body, name) {
		return true
	}
	if depth == 0 || fn.Recv == nil || len(fn.Recv.List) != 1 || len(fn.Recv.List[0].Names) != 1 {
		return false
	}
	recv, rt := fn.Recv.List[0].Names[0].Name, c16Str(fn.Recv.List[0].Type)
	found := false
	ast.Inspect(fn.Body, func(x ast.Node) bool {
		if call, ok := x.(*ast.CallExpr); ok && !found {
			if sel, ok := call.Fun.(*ast.SelectorExpr); ok && c16Str(sel.X) == recv {
				if m := c16Method(f, rt, sel.Sel.Name); m != nil && m != fn && c16ReachesCall(f, m, name, depth-1) {
					found = true
				}
			}
		}
		return !found
	})
	return found
}

// c16FreshEmptySlice: []T(nil), []T{} or make([]T, 0[, c]) - a slice without elements that shares no array with anything
func c16FreshEmptySlice(e ast.Expr) bool {
	switch x := e.(type) {
	case *ast.CompositeLit:
		_, isArr := x.Type.(*ast.ArrayType)
		return isArr && len(x.Elts) == 0
	case *ast.CallExpr:
		if _, isArr := x.Fun.(*ast.ArrayType); isArr {
			return len(x.Args) == 1 && c16IsNil(x.Args[0])
		}
		if p, ok := x.Fun.(*ast.ParenExpr); ok {
			if _, isArr := p.X.(*ast.ArrayType); isArr {
				return len(x.Args) == 1 && c16IsNil(x.Args[0])
			}
		}
		if c16Str(x.Fun) == "make" && len(x.Args) >= 2 {
			_, isArr := x.Args[0].(*ast.ArrayType)
			return isArr && c16Str(x.Args[1]) == "0"
		}
	}
	return false
}
