package main

// Extractor "c10_tables" (property C10): the places of the callback code that are tables.
//
//   callbacks/interface.go            the iota block of CallbackTiming                          -> timing_consts
//   internal/callbacks/inject.go      OnStartHandle / OnEndHandle / OnErrorHandle: which Handler method a handle
//                                     function invokes, and in which order (backward index loop = reversed);
//                                     OnStartWithStreamInputHandle / OnEndWithStreamOutputHandle (and compose's
//                                     genericOn…Handle): the method, whether the list is reversed first
//                                     (generic.Reverse), that the copies come from OnWithStreamHandle     -> handle_table
//                                     OnWithStreamHandle: how many copies, which copy handler i is handed,
//                                     which one continues the flow                                          -> on_with_stream_handle
//   compose/utils.go                  onStart … onError, genericOn…: the handle function and the timing constant
//   callbacks/aspect_inject.go        OnStart … OnError: the same for the public entry points                -> on_table
//   compose/utils.go                  invoke/stream/collect/transformWithCallbacks: the three wrappers handed
//                                     to runWithCallbacks                                                    -> wrap_table
//                                     onGraphStart / onGraphEnd / onGraphError                               -> graph_cb_table
//                                     runWithCallbacks: the closure, statement by statement                  -> run_with_callbacks
//   compose/runnable.go               newRunnablePacker: which …WithCallbacks wraps which native paradigm    -> packer_table
//
// Output: coq/Gen/CallbacksTables.v; Proofs/GenAgreeCallbacksTables.v proves that these tables give
// [invoke_order], [stream_copies], [start_timing_of] / [end_timing_of], [graph_start] / [graph_end] and
// the start ++ end-or-error shape of a unit's operations in Model/Callbacks.v.

import (
	"fmt"
	"go/ast"
	"go/token"
	"strings"
)

func init() {
	register("c10_tables", extractC10Tables)
	registerFallback("c10_tables", "CallbacksTables.v",
		"(* Gen/CallbacksTables.v — translator tie UNAVAILABLE: tools/go2v (extractor \"c10_tables\") did not recognise the shape of\n"+
			"   the callback dispatch code; what follows is the reference extraction of the unchanged source (tools/go2v/c10_ref.go),\n"+
			"   so that Proofs/GenAgreeCallbacksTables.v keeps compiling. *)\n"+
			"Definition tables_tie_available : bool := false.\n"+c10RefTables)
}

// strip a package qualifier and type arguments: icb.OnStartHandle[T] -> OnStartHandle
func c10BareName(e ast.Expr) string {
	switch x := e.(type) {
	case *ast.IndexExpr:
		return c10BareName(x.X)
	case *ast.IndexListExpr:
		return c10BareName(x.X)
	case *ast.SelectorExpr:
		return x.Sel.Name
	case *ast.Ident:
		return x.Name
	}
	return "?" + c10ExprStr(e)
}

func c10Params(fn *ast.FuncType) []string {
	var ps []string
	for _, fl := range fn.Params.List {
		for _, n := range fl.Names {
			ps = append(ps, n.Name)
		}
	}
	return ps
}

// handler-method call `<recv>.M(ctx, runInfo, x)` -> M, recv expression, third argument
func c10MethodCall(e ast.Expr) (method, recv, arg string, ok bool) {
	c, isCall := e.(*ast.CallExpr)
	if !isCall || len(c.Args) != 3 || c.Ellipsis.IsValid() {
		return
	}
	sel, isSel := c.Fun.(*ast.SelectorExpr)
	if !isSel || c10ExprStr(c.Args[0]) != "ctx" || c10ExprStr(c.Args[1]) != "runInfo" {
		return
	}
	return sel.Sel.Name, c10ExprStr(sel.X), c10ExprStr(c.Args[2]), true
}

// plain handle function: one loop invoking a method on every handler, then `return ctx, payload`
func c10PlainHandle(fn *ast.FuncDecl) (method string, reversed bool, err error) {
	ps := c10Params(fn.Type)
	if len(ps) != 4 || ps[0] != "ctx" || ps[2] != "runInfo" || ps[3] != "handlers" {
		return "", false, fmt.Errorf("%s: parameters %v", fn.Name.Name, ps)
	}
	payload := ps[1]
	if len(fn.Body.List) != 2 {
		return "", false, fmt.Errorf("%s: %d statements, expected a loop and a return", fn.Name.Name, len(fn.Body.List))
	}
	ret, ok := fn.Body.List[1].(*ast.ReturnStmt)
	if !ok || len(ret.Results) != 2 || c10ExprStr(ret.Results[0]) != "ctx" || c10ExprStr(ret.Results[1]) != payload {
		return "", false, fmt.Errorf("%s: does not return (ctx, %s)", fn.Name.Name, payload)
	}
	body := func(b *ast.BlockStmt, recvWant string) (string, error) {
		if len(b.List) != 1 {
			return "", fmt.Errorf("%s: loop body of %d statements", fn.Name.Name, len(b.List))
		}
		as, ok := b.List[0].(*ast.AssignStmt)
		if !ok || as.Tok != token.ASSIGN || len(as.Lhs) != 1 || len(as.Rhs) != 1 || c10ExprStr(as.Lhs[0]) != "ctx" {
			return "", fmt.Errorf("%s: loop body is not `ctx = handler.M(ctx, runInfo, %s)`", fn.Name.Name, payload)
		}
		m, recv, arg, ok := c10MethodCall(as.Rhs[0])
		if !ok || recv != recvWant || arg != payload {
			return "", fmt.Errorf("%s: loop body is not `ctx = %s.M(ctx, runInfo, %s)`", fn.Name.Name, recvWant, payload)
		}
		return m, nil
	}
	switch l := fn.Body.List[0].(type) {
	case *ast.RangeStmt:
		if l.Key == nil || c10ExprStr(l.Key) != "_" || l.Value == nil || c10ExprStr(l.X) != "handlers" {
			return "", false, fmt.Errorf("%s: range loop shape", fn.Name.Name)
		}
		m, err := body(l.Body, c10ExprStr(l.Value))
		return m, false, err
	case *ast.ForStmt:
		// for i := len(handlers) - 1; i >= 0; i--
		if l.Init == nil || l.Cond == nil || l.Post == nil || c10Squash(c10StmtStr(l.Init)) != "i:=len(handlers)-1" ||
			c10ExprStr(l.Cond) != "i>=0" || c10Squash(c10StmtStr(l.Post)) != "i--" {
			return "", false, fmt.Errorf("%s: index loop is not `for i := len(handlers) - 1; i >= 0; i--`", fn.Name.Name)
		}
		m, err := body(l.Body, "handlers[i]")
		return m, true, err
	}
	return "", false, fmt.Errorf("%s: first statement is not a loop", fn.Name.Name)
}

func c10StmtStr(s ast.Stmt) string {
	switch x := s.(type) {
	case *ast.AssignStmt:
		var l, r []string
		for _, e := range x.Lhs {
			l = append(l, c10ExprStr(e))
		}
		for _, e := range x.Rhs {
			r = append(r, c10ExprStr(e))
		}
		return strings.Join(l, ",") + x.Tok.String() + strings.Join(r, ",")
	case *ast.IncDecStmt:
		return c10ExprStr(x.X) + x.Tok.String()
	case *ast.ExprStmt:
		return c10ExprStr(x.X)
	}
	return "?"
}

// stream handle function: [handlers = generic.Reverse(handlers)]; cpy := x.Copy; handle := func…{… return handler.M(ctx, runInfo, _)}; return OnWithStreamHandle(ctx, x, handlers, cpy, handle)
func c10StreamHandle(fn *ast.FuncDecl) (method string, reversed bool, err error) {
	ps := c10Params(fn.Type)
	if len(ps) != 4 || ps[0] != "ctx" || ps[2] != "runInfo" || ps[3] != "handlers" {
		return "", false, fmt.Errorf("%s: parameters %v", fn.Name.Name, ps)
	}
	payload := ps[1]
	l := fn.Body.List
	if len(l) > 0 && c10Squash(c10StmtStr(l[0])) == "handlers=generic.Reverse(handlers)" {
		reversed = true
		l = l[1:]
	}
	if len(l) != 3 {
		return "", false, fmt.Errorf("%s: %d statements after the optional reversal, expected 3", fn.Name.Name, len(l))
	}
	if s := strings.ToLower(c10Squash(c10StmtStr(l[0]))); s != "cpy:="+strings.ToLower(payload)+".copy" {
		return "", false, fmt.Errorf("%s: `%s` is not cpy := %s.Copy", fn.Name.Name, c10StmtStr(l[0]), payload)
	}
	as, ok := l[1].(*ast.AssignStmt)
	if !ok || as.Tok != token.DEFINE || len(as.Lhs) != 1 || c10ExprStr(as.Lhs[0]) != "handle" {
		return "", false, fmt.Errorf("%s: no `handle := func…`", fn.Name.Name)
	}
	fl, ok := as.Rhs[0].(*ast.FuncLit)
	if !ok {
		return "", false, fmt.Errorf("%s: handle is not a function literal", fn.Name.Name)
	}
	hp := c10Params(fl.Type)
	if len(hp) != 3 || hp[0] != "ctx" || hp[1] != "handler" {
		return "", false, fmt.Errorf("%s: handle parameters %v", fn.Name.Name, hp)
	}
	n := 0
	ast.Inspect(fl.Body, func(nd ast.Node) bool {
		if r, ok := nd.(*ast.ReturnStmt); ok && len(r.Results) == 1 {
			if m, recv, _, ok := c10MethodCall(r.Results[0]); ok && recv == "handler" {
				method = m
				n++
			} else {
				n += 100
			}
		}
		return true
	})
	if n != 1 {
		return "", false, fmt.Errorf("%s: handle does not end in exactly one `return handler.M(ctx, runInfo, _)`", fn.Name.Name)
	}
	ret, ok := l[2].(*ast.ReturnStmt)
	if !ok || len(ret.Results) != 1 {
		return "", false, fmt.Errorf("%s: no final return", fn.Name.Name)
	}
	c, ok := ret.Results[0].(*ast.CallExpr)
	if !ok || c10BareName(c.Fun) != "OnWithStreamHandle" || len(c.Args) != 5 ||
		c10Squash(strings.Join([]string{c10ExprStr(c.Args[0]), c10ExprStr(c.Args[1]), c10ExprStr(c.Args[2]), c10ExprStr(c.Args[3]), c10ExprStr(c.Args[4])}, ",")) != "ctx,"+payload+",handlers,cpy,handle" {
		return "", false, fmt.Errorf("%s: does not return OnWithStreamHandle(ctx, %s, handlers, cpy, handle)", fn.Name.Name, payload)
	}
	return method, reversed, nil
}

// On wrapper: `return X.On(ctx, p, H, T)` or `ctx, _ = X.On(ctx, p, H, T); return ctx`
func c10OnWrapper(fn *ast.FuncDecl) (handle, timing string, err error) {
	ps := c10Params(fn.Type)
	if len(ps) != 2 || ps[0] != "ctx" {
		return "", "", fmt.Errorf("%s: parameters %v", fn.Name.Name, ps)
	}
	var call ast.Expr
	switch len(fn.Body.List) {
	case 1:
		if r, ok := fn.Body.List[0].(*ast.ReturnStmt); ok && len(r.Results) == 1 {
			call = r.Results[0]
		}
	case 2:
		as, ok1 := fn.Body.List[0].(*ast.AssignStmt)
		r, ok2 := fn.Body.List[1].(*ast.ReturnStmt)
		if ok1 && ok2 && as.Tok == token.ASSIGN && len(as.Lhs) == 2 && c10ExprStr(as.Lhs[0]) == "ctx" && c10ExprStr(as.Lhs[1]) == "_" &&
			len(as.Rhs) == 1 && len(r.Results) == 1 && c10ExprStr(r.Results[0]) == "ctx" {
			call = as.Rhs[0]
		}
	}
	c, ok := call.(*ast.CallExpr)
	if !ok || c10BareName(c.Fun) != "On" || len(c.Args) != 4 || c10ExprStr(c.Args[0]) != "ctx" || c10ExprStr(c.Args[1]) != ps[1] {
		return "", "", fmt.Errorf("%s: body is not a call of On(ctx, %s, handle, timing)", fn.Name.Name, ps[1])
	}
	return c10BareName(c.Args[2]), c10BareName(c.Args[3]), nil
}

func c10StrList(xs []string) string {
	q := make([]string, len(xs))
	for i, x := range xs {
		q[i] = c10CoqStr(x)
	}
	return "[" + strings.Join(q, "; ") + "]"
}

func extractC10Tables(repo string) (string, string, error) {
	fset := token.NewFileSet()
	parse := func(rel ...string) (*ast.File, error) { return c10ParseGo(fset, repo, rel...) }
	var b strings.Builder
	b.WriteString("(* Gen/CallbacksTables.v — GENERATED by tools/go2v (extractor \"c10_tables\") from callbacks/interface.go,\n")
	b.WriteString("   internal/callbacks/inject.go, callbacks/aspect_inject.go, compose/utils.go and compose/runnable.go. Do not edit. *)\n")
	b.WriteString("From Eino Require Import Base.Util Model.Callbacks Model.CallbacksGenLib.\nLocal Open Scope string_scope.\n\n")

	// 1. timing constants
	fi, err := parse("callbacks", "interface.go")
	if err != nil {
		return "", "", err
	}
	var consts []string
	for _, d := range fi.Decls {
		gd, ok := d.(*ast.GenDecl)
		if !ok || gd.Tok != token.CONST || len(gd.Specs) == 0 {
			continue
		}
		first := gd.Specs[0].(*ast.ValueSpec)
		if first.Type == nil || c10ExprStr(first.Type) != "CallbackTiming" {
			continue
		}
		if len(first.Values) != 1 || c10ExprStr(first.Values[0]) != "iota" {
			return "", "", fmt.Errorf("CallbackTiming constants do not start with iota")
		}
		for i, sp := range gd.Specs {
			vs := sp.(*ast.ValueSpec)
			if len(vs.Names) != 1 || (i > 0 && (len(vs.Values) != 0 || vs.Type != nil)) {
				return "", "", fmt.Errorf("CallbackTiming constant block is not a plain iota enumeration")
			}
			consts = append(consts, vs.Names[0].Name)
		}
	}
	if len(consts) == 0 {
		return "", "", fmt.Errorf("CallbackTiming constants not found")
	}
	fmt.Fprintf(&b, "(* callbacks/interface.go: the CallbackTiming enumeration, in the order of its values *)\nDefinition timing_consts : list string :=\n  %s.\n\n", c10StrList(consts))

	// 2. handle functions
	inj, err := parse("internal", "callbacks", "inject.go")
	if err != nil {
		return "", "", err
	}
	utils, err := parse("compose", "utils.go")
	if err != nil {
		return "", "", err
	}
	var rows []string
	for _, name := range []string{"OnStartHandle", "OnEndHandle", "OnErrorHandle"} {
		fn := c10FindFunc(inj, name, "")
		if fn == nil || fn.Body == nil {
			return "", "", fmt.Errorf("func %s not found", name)
		}
		m, rev, err := c10PlainHandle(fn)
		if err != nil {
			return "", "", err
		}
		rows = append(rows, fmt.Sprintf("(%s, (%s, %v, false))", c10CoqStr(name), c10CoqStr(m), rev))
	}
	for _, it := range []struct {
		f    *ast.File
		name string
	}{{inj, "OnStartWithStreamInputHandle"}, {inj, "OnEndWithStreamOutputHandle"},
		{utils, "genericOnStartWithStreamInputHandle"}, {utils, "genericOnEndWithStreamOutputHandle"}} {
		fn := c10FindFunc(it.f, it.name, "")
		if fn == nil || fn.Body == nil {
			return "", "", fmt.Errorf("func %s not found", it.name)
		}
		m, rev, err := c10StreamHandle(fn)
		if err != nil {
			return "", "", err
		}
		rows = append(rows, fmt.Sprintf("(%s, (%s, %v, true))", c10CoqStr(it.name), c10CoqStr(m), rev))
	}
	fmt.Fprintf(&b, "(* handle functions: name -> (Handler method invoked, handlers taken in reverse order, stream payload copied per handler) *)\nDefinition handle_table : list (string * (string * bool * bool)) :=\n  [%s].\n\n", strings.Join(rows, ";\n   "))

	// 3. OnWithStreamHandle
	ows := c10FindFunc(inj, "OnWithStreamHandle", "")
	if ows == nil || ows.Body == nil {
		return "", "", fmt.Errorf("func OnWithStreamHandle not found")
	}
	owsGal, err := c10OnWithStream(ows)
	if err != nil {
		return "", "", err
	}
	b.WriteString(owsGal)

	// 4. On wrappers
	asp, err := parse("callbacks", "aspect_inject.go")
	if err != nil {
		return "", "", err
	}
	rows = nil
	for _, it := range []struct {
		f     *ast.File
		pkg   string
		names []string
	}{{utils, "compose", []string{"onStart", "onEnd", "onError", "onStartWithStreamInput", "onEndWithStreamOutput", "genericOnStartWithStreamInput", "genericOnEndWithStreamOutput"}},
		{asp, "callbacks", []string{"OnStart", "OnEnd", "OnError", "OnStartWithStreamInput", "OnEndWithStreamOutput"}}} {
		for _, name := range it.names {
			fn := c10FindFunc(it.f, name, "")
			if fn == nil || fn.Body == nil {
				return "", "", fmt.Errorf("func %s.%s not found", it.pkg, name)
			}
			h, t, err := c10OnWrapper(fn)
			if err != nil {
				return "", "", err
			}
			rows = append(rows, fmt.Sprintf("(%s, (%s, %s))", c10CoqStr(it.pkg+"."+name), c10CoqStr(h), c10CoqStr(t)))
		}
	}
	fmt.Fprintf(&b, "(* the callers of On: name -> (handle function, timing constant) *)\nDefinition on_table : list (string * (string * string)) :=\n  [%s].\n\n", strings.Join(rows, ";\n   "))

	// 5. …WithCallbacks
	rows = nil
	for _, name := range []string{"invokeWithCallbacks", "streamWithCallbacks", "collectWithCallbacks", "transformWithCallbacks"} {
		fn := c10FindFunc(utils, name, "")
		if fn == nil || fn.Body == nil || len(fn.Body.List) != 1 {
			return "", "", fmt.Errorf("func %s: not a single return", name)
		}
		ps := c10Params(fn.Type)
		r, ok := fn.Body.List[0].(*ast.ReturnStmt)
		if !ok || len(r.Results) != 1 || len(ps) != 1 {
			return "", "", fmt.Errorf("func %s: not a single return", name)
		}
		c, ok := r.Results[0].(*ast.CallExpr)
		if !ok || c10BareName(c.Fun) != "runWithCallbacks" || len(c.Args) != 4 || c10ExprStr(c.Args[0]) != ps[0] {
			return "", "", fmt.Errorf("func %s: not runWithCallbacks(%s, start, end, error)", name, ps[0])
		}
		rows = append(rows, fmt.Sprintf("(%s, (%s, %s, %s))", c10CoqStr(name), c10CoqStr(c10BareName(c.Args[1])), c10CoqStr(c10BareName(c.Args[2])), c10CoqStr(c10BareName(c.Args[3]))))
	}
	fmt.Fprintf(&b, "(* compose/utils.go: name -> the (start, end, error) wrappers it hands to runWithCallbacks *)\nDefinition wrap_table : list (string * (string * string * string)) :=\n  [%s].\n\n", strings.Join(rows, ";\n   "))

	// 6. graph-level wrappers
	rows = nil
	for _, name := range []string{"onGraphStart", "onGraphEnd"} {
		fn := c10FindFunc(utils, name, "")
		if fn == nil || fn.Body == nil || len(fn.Body.List) != 2 {
			return "", "", fmt.Errorf("func %s: shape", name)
		}
		ps := c10Params(fn.Type)
		is, ok1 := fn.Body.List[0].(*ast.IfStmt)
		r2, ok2 := fn.Body.List[1].(*ast.ReturnStmt)
		if !ok1 || !ok2 || len(ps) != 3 || is.Init != nil || is.Else != nil || c10ExprStr(is.Cond) != ps[2] || len(is.Body.List) != 1 || len(r2.Results) != 1 {
			return "", "", fmt.Errorf("func %s: not `if isStream { return S(…) }; return P(…)`", name)
		}
		r1, ok := is.Body.List[0].(*ast.ReturnStmt)
		if !ok || len(r1.Results) != 1 {
			return "", "", fmt.Errorf("func %s: stream branch", name)
		}
		c1, ok1 := r1.Results[0].(*ast.CallExpr)
		c2, ok2 := r2.Results[0].(*ast.CallExpr)
		if !ok1 || !ok2 || len(c1.Args) != 2 || len(c2.Args) != 2 || c10ExprStr(c1.Args[0]) != "ctx" || c10ExprStr(c2.Args[0]) != "ctx" ||
			c10ExprStr(c1.Args[1]) != ps[1]+".(streamReader)" || c10ExprStr(c2.Args[1]) != ps[1] {
			return "", "", fmt.Errorf("func %s: the wrappers are not called with (ctx, %s)", name, ps[1])
		}
		rows = append(rows, fmt.Sprintf("(%s, (%s, %s))", c10CoqStr(name), c10CoqStr(c10BareName(c1.Fun)), c10CoqStr(c10BareName(c2.Fun))))
	}
	{
		fn := c10FindFunc(utils, "onGraphError", "")
		if fn == nil || fn.Body == nil || len(fn.Body.List) != 1 {
			return "", "", fmt.Errorf("func onGraphError: shape")
		}
		r, ok := fn.Body.List[0].(*ast.ReturnStmt)
		if !ok || len(r.Results) != 1 {
			return "", "", fmt.Errorf("func onGraphError: shape")
		}
		c, ok := r.Results[0].(*ast.CallExpr)
		if !ok || len(c.Args) != 2 || c10ExprStr(c.Args[0]) != "ctx" || c10ExprStr(c.Args[1]) != "err" {
			return "", "", fmt.Errorf("func onGraphError: shape")
		}
		rows = append(rows, fmt.Sprintf("(%s, (%s, %s))", c10CoqStr("onGraphError"), c10CoqStr(c10BareName(c.Fun)), c10CoqStr(c10BareName(c.Fun))))
	}
	fmt.Fprintf(&b, "(* compose/utils.go: graph-level callbacks: name -> (wrapper when isStream, wrapper otherwise) *)\nDefinition graph_cb_table : list (string * (string * string)) :=\n  [%s].\n\n", strings.Join(rows, ";\n   "))

	// 7. runWithCallbacks
	rwc := c10FindFunc(utils, "runWithCallbacks", "")
	if rwc == nil || rwc.Body == nil {
		return "", "", fmt.Errorf("func runWithCallbacks not found")
	}
	rwcGal, err := c10RunWithCallbacks(rwc)
	if err != nil {
		return "", "", err
	}
	b.WriteString(rwcGal)

	// 8. newRunnablePacker
	run, err := parse("compose", "runnable.go")
	if err != nil {
		return "", "", err
	}
	np := c10FindFunc(run, "newRunnablePacker", "")
	if np == nil || np.Body == nil {
		return "", "", fmt.Errorf("func newRunnablePacker not found")
	}
	rows = nil
	found := false
	for _, s := range np.Body.List {
		is, ok := s.(*ast.IfStmt)
		if !ok || c10ExprStr(is.Cond) != "enableCallback" {
			continue
		}
		found = true
		if is.Else != nil {
			return "", "", fmt.Errorf("newRunnablePacker: else after `if enableCallback`")
		}
		for _, inner := range is.Body.List {
			ii, ok := inner.(*ast.IfStmt)
			if !ok || ii.Init != nil || ii.Else != nil || len(ii.Body.List) != 1 {
				return "", "", fmt.Errorf("newRunnablePacker: statement inside `if enableCallback`")
			}
			v, ok := c10NotNilVar(ii.Cond)
			if !ok {
				return "", "", fmt.Errorf("newRunnablePacker: condition %s", c10ExprStr(ii.Cond))
			}
			as, ok := ii.Body.List[0].(*ast.AssignStmt)
			if !ok || as.Tok != token.ASSIGN || len(as.Lhs) != 1 || len(as.Rhs) != 1 || c10ExprStr(as.Lhs[0]) != v {
				return "", "", fmt.Errorf("newRunnablePacker: `%s != nil` does not guard an assignment to %s", v, v)
			}
			c, ok := as.Rhs[0].(*ast.CallExpr)
			if !ok || len(c.Args) != 1 || c10ExprStr(c.Args[0]) != v {
				return "", "", fmt.Errorf("newRunnablePacker: %s is not wrapped as f(%s)", v, v)
			}
			rows = append(rows, fmt.Sprintf("(%s, %s)", c10CoqStr(v), c10CoqStr(c10BareName(c.Fun))))
		}
	}
	if !found {
		return "", "", fmt.Errorf("newRunnablePacker: no `if enableCallback`")
	}
	// the parameters of newRunnablePacker name the natives: i s c t = Invoke Stream Collect Transform
	if ps := c10Params(np.Type); len(ps) != 5 || strings.Join(ps[:4], "") != "isct" {
		return "", "", fmt.Errorf("newRunnablePacker: parameters %v", ps)
	}
	fmt.Fprintf(&b, "(* compose/runnable.go newRunnablePacker, \"if enableCallback\": native (i s c t = Invoke Stream Collect Transform) -> its wrapper *)\nDefinition packer_table : list (string * string) :=\n  [%s].\n", strings.Join(rows, "; "))

	// 9. runner.run: the skeleton that bears on the graph-level callbacks
	grun, err := parse("compose", "graph_run.go")
	if err != nil {
		return "", "", err
	}
	skel, err := c10RunSkeleton(grun)
	if err != nil {
		return "", "", err
	}
	b.WriteString(skel)
	return "CallbacksTables.v", b.String(), nil
}

func c10NotNilVar(e ast.Expr) (string, bool) {
	be, ok := e.(*ast.BinaryExpr)
	if !ok || be.Op != token.NEQ || c10ExprStr(be.Y) != "nil" {
		return "", false
	}
	id, ok := be.X.(*ast.Ident)
	if !ok {
		return "", false
	}
	return id.Name, true
}

// OnWithStreamHandle:
//
//	if len(handlers) == 0 { return ctx, inOut }
//	inOuts := cpy(len(handlers) + K)
//	for i, handler := range handlers { ctx = handle(ctx, handler, inOuts[i (+ D)]) }
//	return ctx, inOuts[len(inOuts) - J]
func c10OnWithStream(fn *ast.FuncDecl) (string, error) {
	ps := c10Params(fn.Type)
	if len(ps) != 5 || ps[0] != "ctx" || ps[2] != "handlers" || ps[3] != "cpy" || ps[4] != "handle" {
		return "", fmt.Errorf("OnWithStreamHandle: parameters %v", ps)
	}
	payload := ps[1]
	l := fn.Body.List
	if len(l) != 4 {
		return "", fmt.Errorf("OnWithStreamHandle: %d statements, expected 4", len(l))
	}
	is, ok := l[0].(*ast.IfStmt)
	if !ok || is.Init != nil || is.Else != nil || c10ExprStr(is.Cond) != "len(handlers)==0" || len(is.Body.List) != 1 {
		return "", fmt.Errorf("OnWithStreamHandle: no `if len(handlers) == 0 { return … }`")
	}
	r0, ok := is.Body.List[0].(*ast.ReturnStmt)
	if !ok || len(r0.Results) != 2 || c10ExprStr(r0.Results[0]) != "ctx" || c10ExprStr(r0.Results[1]) != payload {
		return "", fmt.Errorf("OnWithStreamHandle: without handlers it does not return (ctx, %s)", payload)
	}
	as, ok := l[1].(*ast.AssignStmt)
	if !ok || as.Tok != token.DEFINE || len(as.Lhs) != 1 || len(as.Rhs) != 1 {
		return "", fmt.Errorf("OnWithStreamHandle: second statement")
	}
	copies := c10ExprStr(as.Lhs[0])
	cc, ok := as.Rhs[0].(*ast.CallExpr)
	if !ok || c10ExprStr(cc.Fun) != "cpy" || len(cc.Args) != 1 {
		return "", fmt.Errorf("OnWithStreamHandle: %s is not cpy(…)", copies)
	}
	nat := func(e ast.Expr) (string, error) {
		s := c10ExprStr(e)
		s = strings.ReplaceAll(s, "len(handlers)", "(List.length handlers)")
		s = strings.ReplaceAll(s, "len("+copies+")", "n_copies")
		for _, ch := range s {
			if !strings.ContainsRune("(List.length handlers)n_copies0123456789+-i ", ch) {
				return "", fmt.Errorf("OnWithStreamHandle: index expression %s", c10ExprStr(e))
			}
		}
		s = strings.ReplaceAll(strings.ReplaceAll(s, "+", " + "), "-", " - ")
		return "(" + s + ")", nil
	}
	nCopies, err := nat(cc.Args[0])
	if err != nil {
		return "", err
	}
	rg, ok := l[2].(*ast.RangeStmt)
	if !ok || rg.Key == nil || c10ExprStr(rg.Key) != "i" || rg.Value == nil || c10ExprStr(rg.Value) != "handler" || c10ExprStr(rg.X) != "handlers" || len(rg.Body.List) != 1 {
		return "", fmt.Errorf("OnWithStreamHandle: no `for i, handler := range handlers`")
	}
	bas, ok := rg.Body.List[0].(*ast.AssignStmt)
	if !ok || bas.Tok != token.ASSIGN || len(bas.Lhs) != 1 || c10ExprStr(bas.Lhs[0]) != "ctx" || len(bas.Rhs) != 1 {
		return "", fmt.Errorf("OnWithStreamHandle: loop body")
	}
	hc, ok := bas.Rhs[0].(*ast.CallExpr)
	if !ok || c10ExprStr(hc.Fun) != "handle" || len(hc.Args) != 3 || c10ExprStr(hc.Args[0]) != "ctx" || c10ExprStr(hc.Args[1]) != "handler" {
		return "", fmt.Errorf("OnWithStreamHandle: loop body is not ctx = handle(ctx, handler, copy)")
	}
	ix, ok := hc.Args[2].(*ast.IndexExpr)
	if !ok || c10ExprStr(ix.X) != copies {
		return "", fmt.Errorf("OnWithStreamHandle: the handler is not handed one of the copies")
	}
	hIdx, err := nat(ix.Index)
	if err != nil {
		return "", err
	}
	r, ok := l[3].(*ast.ReturnStmt)
	if !ok || len(r.Results) != 2 || c10ExprStr(r.Results[0]) != "ctx" {
		return "", fmt.Errorf("OnWithStreamHandle: final return")
	}
	fx, ok := r.Results[1].(*ast.IndexExpr)
	if !ok || c10ExprStr(fx.X) != copies {
		return "", fmt.Errorf("OnWithStreamHandle: the flow does not continue with one of the copies")
	}
	fIdx, err := nat(fx.Index)
	if err != nil {
		return "", err
	}
	return "(* internal/callbacks/inject.go: func OnWithStreamHandle: which copy of the stream payload every handler is handed\n" +
		"   (in the order of the call), which copy continues the flow *)\n" +
		"Definition on_with_stream_handle (handlers : list handler) : list (nat * reader) :=\n" +
		"  if Nat.eqb (List.length handlers) 0 then [(0%nat, RFlow)]\n" +
		"  else\n" +
		"  let n_copies := " + nCopies + "%nat in\n" +
		"  map (fun i : nat => (" + hIdx + "%nat, RHandler (nth i handlers 0%N))) (seq 0 (List.length handlers)) ++\n" +
		"  [(" + fIdx + "%nat, RFlow)].\n\n", nil
}

// runWithCallbacks: return func(ctx, input, opts...) (output, err) { … }: the calls, in order
func c10RunWithCallbacks(fn *ast.FuncDecl) (string, error) {
	ps := c10Params(fn.Type)
	if len(ps) != 4 || ps[0] != "r" {
		return "", fmt.Errorf("runWithCallbacks: parameters %v", ps)
	}
	role := map[string]string{ps[1]: "CbStart", ps[2]: "CbEnd", ps[3]: "CbError"}
	if len(fn.Body.List) != 1 {
		return "", fmt.Errorf("runWithCallbacks: body is not a single return")
	}
	r, ok := fn.Body.List[0].(*ast.ReturnStmt)
	if !ok || len(r.Results) != 1 {
		return "", fmt.Errorf("runWithCallbacks: body is not a single return")
	}
	fl, ok := r.Results[0].(*ast.FuncLit)
	if !ok {
		return "", fmt.Errorf("runWithCallbacks: does not return a function literal")
	}
	cps := c10Params(fl.Type)
	if len(cps) != 3 || cps[0] != "ctx" {
		return "", fmt.Errorf("runWithCallbacks: closure parameters %v", cps)
	}
	inName := cps[1]
	outName, errName := "", ""
	if fl.Type.Results != nil && len(fl.Type.Results.List) == 2 && len(fl.Type.Results.List[0].Names) == 1 && len(fl.Type.Results.List[1].Names) == 1 {
		outName, errName = fl.Type.Results.List[0].Names[0].Name, fl.Type.Results.List[1].Names[0].Name
	} else {
		return "", fmt.Errorf("runWithCallbacks: the closure's results are not named")
	}
	payload := map[string]string{inName: "PayIn", outName: "PayOut", errName: "PayErr"}
	// the guard against a panic of the unit: `flag := false; defer func() { if flag { return }; … }()` before
	// the execution, `flag = true` right after it; what the deferred function fires is what a panicking
	// execution is served (nothing when there is no guard)
	flag, onPanic, rePanics := "", "[]", true
	deferredCalls := func(d *ast.DeferStmt) (string, bool, error) {
		fl, ok := d.Call.Fun.(*ast.FuncLit)
		if !ok || len(d.Call.Args) != 0 || len(fl.Body.List) < 2 {
			return "", false, fmt.Errorf("runWithCallbacks: defer of something else than a guard function")
		}
		is, ok := fl.Body.List[0].(*ast.IfStmt)
		if !ok || is.Init != nil || is.Else != nil || c10ExprStr(is.Cond) != flag || len(is.Body.List) != 1 {
			return "", false, fmt.Errorf("runWithCallbacks: the deferred function does not start with `if %s { return }`", flag)
		}
		if r, ok := is.Body.List[0].(*ast.ReturnStmt); !ok || len(r.Results) != 0 {
			return "", false, fmt.Errorf("runWithCallbacks: the deferred function does not start with `if %s { return }`", flag)
		}
		var calls []string
		re := false
		for i, st := range fl.Body.List[1:] {
			switch x := st.(type) {
			case *ast.AssignStmt:
				if len(x.Rhs) == 1 {
					if c, ok := x.Rhs[0].(*ast.CallExpr); ok {
						if ro, ok := role[c10ExprStr(c.Fun)]; ok {
							if len(c.Args) != 2 || c10ExprStr(c.Args[0]) != "ctx" || !strings.Contains(c10ExprStr(c.Args[1]), "panicValue") {
								return "", false, fmt.Errorf("runWithCallbacks: callback in the panic guard is not handed (ctx, an error made of the panic value)")
							}
							calls = append(calls, "RCall "+ro+" PayPanic")
							continue
						}
						if x.Tok == token.DEFINE && len(x.Lhs) == 1 && c10ExprStr(x.Lhs[0]) == "panicValue" && strings.Contains(c10ExprStr(x.Rhs[0]), "recover()") {
							continue
						}
					}
				}
			case *ast.ExprStmt:
				if c, ok := x.X.(*ast.CallExpr); ok && c10ExprStr(c.Fun) == "panic" && len(c.Args) == 1 && c10ExprStr(c.Args[0]) == "panicValue" && i == len(fl.Body.List)-2 {
					re = true
					continue
				}
			}
			return "", false, fmt.Errorf("runWithCallbacks: statement of the panic guard outside the translated fragment")
		}
		return "[" + strings.Join(calls, "; ") + "]", re, nil
	}
	var seqOf func(l []ast.Stmt, executed bool) (string, error)
	seqOf = func(l []ast.Stmt, executed bool) (string, error) {
		if len(l) == 0 {
			return "", fmt.Errorf("runWithCallbacks: control reaches the end of the closure")
		}
		// flag := false
		if as, ok := l[0].(*ast.AssignStmt); ok && !executed && flag == "" && as.Tok == token.DEFINE && len(as.Lhs) == 1 && len(as.Rhs) == 1 && c10ExprStr(as.Rhs[0]) == "false" {
			if len(l) > 1 {
				if d, ok := l[1].(*ast.DeferStmt); ok {
					flag = c10ExprStr(as.Lhs[0])
					var err error
					if onPanic, rePanics, err = deferredCalls(d); err != nil {
						return "", err
					}
					return seqOf(l[2:], executed)
				}
			}
		}
		switch x := l[0].(type) {
		case *ast.ReturnStmt:
			if !executed {
				return "", fmt.Errorf("runWithCallbacks: returns before the unit is executed")
			}
			return "[]", nil
		case *ast.AssignStmt:
			if x.Tok == token.ASSIGN && len(x.Lhs) == 2 && len(x.Rhs) == 1 {
				if c, ok := x.Rhs[0].(*ast.CallExpr); ok {
					f := c10ExprStr(c.Fun)
					// ctx, p = on(ctx, p)
					if ro, ok := role[f]; ok && len(c.Args) == 2 && c10ExprStr(c.Args[0]) == "ctx" && c10ExprStr(x.Lhs[0]) == "ctx" &&
						c10ExprStr(x.Lhs[1]) == c10ExprStr(c.Args[1]) && payload[c10ExprStr(c.Args[1])] != "" {
						rest, err := seqOf(l[1:], executed)
						return "RCall " + ro + " " + payload[c10ExprStr(c.Args[1])] + " :: " + rest, err
					}
					// output, err = r(ctx, input, opts...)
					if f == "r" && !executed && len(c.Args) == 3 && c10ExprStr(c.Args[0]) == "ctx" && c10ExprStr(c.Args[1]) == inName &&
						c10ExprStr(x.Lhs[0]) == outName && c10ExprStr(x.Lhs[1]) == errName {
						after := l[1:]
						if flag != "" {
							// flag = true must follow at once
							if len(after) == 0 || c10Squash(c10StmtStr(after[0])) != flag+"=true" {
								return "", fmt.Errorf("runWithCallbacks: `%s = true` does not follow the execution", flag)
							}
							after = after[1:]
						}
						rest, err := seqOf(after, true)
						pan := onPanic
						if !rePanics {
							// a guard that does not let the panic go on changes what the callers see
							pan = "(if unk \"the panic guard swallows the panic\" then [] else " + onPanic + ")"
						}
						return "RExec :: (if panicked then " + pan + " else " + rest + ")", err
					}
				}
			}
		case *ast.IfStmt:
			if x.Init == nil && x.Else == nil && executed && c10Terminates(x.Body.List) {
				th, err := seqOf(x.Body.List, executed)
				if err != nil {
					return "", err
				}
				el, err := seqOf(l[1:], executed)
				if err != nil {
					return "", err
				}
				// `err != nil` is the failure of the execution; any other test is one the model does not
				// know (kept as an application of [unk]: recognised but different)
				c := "failed"
				if c10ExprStr(x.Cond) != errName+"!=nil" {
					c = "unk " + c10CoqStr(c10ExprStr(x.Cond))
				}
				return "(if " + c + " then " + th + " else " + el + ")", nil
			}
		}
		return "", fmt.Errorf("runWithCallbacks: statement outside the translated fragment")
	}
	body, err := seqOf(fl.Body.List, false)
	if err != nil {
		return "", err
	}
	return "(* compose/utils.go: func runWithCallbacks, the returned closure statement by statement: the callbacks fired around the\n" +
		"   execution of the unit (RExec), with the payload each is handed, when the execution succeeds, returns an error,\n" +
		"   panics *)\n" +
		"Definition run_with_callbacks (unk : string -> bool) (o : exec_outcome) : list rcall :=\n" +
		"  let failed := match o with ExErr => true | _ => false end in\n" +
		"  let panicked := match o with ExPanic => true | _ => false end in\n  " + body + ".\n\n", nil
}

// ---------------------------------------------------------------- runner.run

type c10Skel struct {
	errName, resName string
	seen             int // recognised occurrences of the four identifiers
}

var c10SkelIdents = map[string]bool{"onGraphStart": true, "onGraphEnd": true, "onGraphError": true, "haveOnStart": true}

func c10CountIdents(n ast.Node) int {
	k := 0
	ast.Inspect(n, func(m ast.Node) bool {
		if id, ok := m.(*ast.Ident); ok && c10SkelIdents[id.Name] {
			k++
		}
		return true
	})
	return k
}

func c10HasReturn(n ast.Node) bool {
	found := false
	ast.Inspect(n, func(m ast.Node) bool {
		if _, ok := m.(*ast.FuncLit); ok {
			return false
		}
		if _, ok := m.(*ast.ReturnStmt); ok {
			found = true
		}
		return !found
	})
	return found
}

func c10GList(items []string) string { return "[" + strings.Join(items, "; ") + "]" }

// cond: a test of the flag (or, in the deferred function, of the named error result); anything else is opaque
func (k *c10Skel) cond(e ast.Expr, deferred bool) string {
	switch x := e.(type) {
	case *ast.ParenExpr:
		return k.cond(x.X, deferred)
	case *ast.Ident:
		if x.Name == "haveOnStart" {
			k.seen++
			return "GcFlag"
		}
	case *ast.UnaryExpr:
		if x.Op == token.NOT && c10CountIdents(x.X) > 0 {
			return "(GcNot " + k.cond(x.X, deferred) + ")"
		}
	case *ast.BinaryExpr:
		if (x.Op == token.LAND || x.Op == token.LOR) && (c10CountIdents(x) > 0 || (deferred && strings.Contains(c10ExprStr(x), k.errName))) {
			op := "GcAnd"
			if x.Op == token.LOR {
				op = "GcOr"
			}
			return "(" + op + " " + k.cond(x.X, deferred) + " " + k.cond(x.Y, deferred) + ")"
		}
		if deferred && c10ExprStr(x) == k.errName+"!=nil" {
			return "GcErr"
		}
		if deferred && c10ExprStr(x) == k.errName+"==nil" {
			return "(GcNot GcErr)"
		}
	}
	return "(GcOpaque " + c10CoqStr(c10ExprStr(e)) + ")"
}

func (k *c10Skel) stmts(l []ast.Stmt, deferred, inLoop bool) ([]string, error) {
	var out []string
	for _, s := range l {
		g, err := k.stmt(s, deferred, inLoop)
		if err != nil {
			return nil, err
		}
		out = append(out, g...)
	}
	return out, nil
}

func (k *c10Skel) stmt(s ast.Stmt, deferred, inLoop bool) ([]string, error) {
	relevant := c10CountIdents(s) > 0 || c10HasReturn(s)
	switch x := s.(type) {
	case *ast.BlockStmt:
		return k.stmts(x.List, deferred, inLoop)
	case *ast.ReturnStmt:
		if deferred {
			if len(x.Results) != 0 {
				return nil, fmt.Errorf("runner.run: the deferred function returns a value")
			}
			return nil, fmt.Errorf("runner.run: return inside the deferred function")
		}
		if len(x.Results) != 2 {
			return nil, fmt.Errorf("runner.run: return with %d results", len(x.Results))
		}
		return []string{fmt.Sprintf("GsReturn %v", c10ExprStr(x.Results[1]) != "nil")}, nil
	case *ast.AssignStmt:
		if len(x.Rhs) == 1 && len(x.Lhs) == 2 {
			if c, ok := x.Rhs[0].(*ast.CallExpr); ok {
				if id, ok := c.Fun.(*ast.Ident); ok && x.Tok == token.ASSIGN && c10ExprStr(x.Lhs[0]) == "ctx" && len(c.Args) >= 2 && c10ExprStr(c.Args[0]) == "ctx" {
					arg := c10ExprStr(c.Args[1])
					switch {
					case id.Name == "onGraphStart" && c10ExprStr(x.Lhs[1]) == "input" && arg == "input" && len(c.Args) == 3:
						k.seen++
						return []string{"GsCall CbStart"}, nil
					case id.Name == "onGraphEnd" && c10ExprStr(x.Lhs[1]) == k.resName && arg == k.resName && len(c.Args) == 3:
						k.seen++
						return []string{"GsCall CbEnd"}, nil
					case id.Name == "onGraphError" && c10ExprStr(x.Lhs[1]) == k.errName && arg == k.errName && len(c.Args) == 2:
						k.seen++
						return []string{"GsCall CbError"}, nil
					}
				}
			}
		}
		if len(x.Lhs) == 1 && len(x.Rhs) == 1 && c10ExprStr(x.Lhs[0]) == "haveOnStart" && x.Tok == token.ASSIGN {
			v := c10ExprStr(x.Rhs[0])
			if v == "true" || v == "false" {
				k.seen++
				return []string{"GsSetFlag " + v}, nil
			}
		}
	case *ast.IfStmt:
		if !relevant {
			return nil, nil
		}
		if x.Init != nil && (c10CountIdents(x.Init) > 0 || c10HasReturn(x.Init)) {
			return nil, fmt.Errorf("runner.run: if-init statement bearing on the callbacks")
		}
		c := k.cond(x.Cond, deferred)
		th, err := k.stmts(x.Body.List, deferred, inLoop)
		if err != nil {
			return nil, err
		}
		var el []string
		if x.Else != nil {
			if el, err = k.stmt(x.Else, deferred, inLoop); err != nil {
				return nil, err
			}
		}
		return []string{"GsIf " + c + " " + c10GList(th) + " " + c10GList(el)}, nil
	case *ast.ForStmt, *ast.RangeStmt:
		if !relevant {
			return nil, nil
		}
		var body *ast.BlockStmt
		exits := true
		if f, ok := x.(*ast.ForStmt); ok {
			body, exits = f.Body, f.Cond != nil
			for _, part := range []ast.Node{f.Init, f.Cond, f.Post} {
				if part != nil && !(part == ast.Node((*ast.AssignStmt)(nil))) && c10CountIdents(part) > 0 {
					return nil, fmt.Errorf("runner.run: loop header bearing on the callbacks")
				}
			}
		} else {
			body = x.(*ast.RangeStmt).Body
		}
		b, err := k.stmts(body.List, deferred, true)
		if err != nil {
			return nil, err
		}
		return []string{fmt.Sprintf("GsLoop %v %s", exits, c10GList(b))}, nil
	case *ast.SwitchStmt, *ast.TypeSwitchStmt, *ast.SelectStmt:
		if !relevant {
			return nil, nil
		}
		var clauses []ast.Stmt
		switch y := x.(type) {
		case *ast.SwitchStmt:
			clauses = y.Body.List
		case *ast.TypeSwitchStmt:
			clauses = y.Body.List
		case *ast.SelectStmt:
			clauses = y.Body.List
		}
		// a chain of opaque ifs; without a default clause no case may be taken
		chain := "[]"
		for i := len(clauses) - 1; i >= 0; i-- {
			var body []ast.Stmt
			isDefault := false
			switch cl := clauses[i].(type) {
			case *ast.CaseClause:
				body, isDefault = cl.Body, cl.List == nil
			case *ast.CommClause:
				body, isDefault = cl.Body, cl.Comm == nil
			}
			for _, st := range body {
				bad := false
				ast.Inspect(st, func(m ast.Node) bool {
					if br, ok := m.(*ast.BranchStmt); ok && (br.Tok == token.BREAK || br.Tok == token.FALLTHROUGH) {
						bad = true
					}
					return true
				})
				if bad {
					return nil, fmt.Errorf("runner.run: break / fallthrough inside a switch or select")
				}
			}
			bs, err := k.stmts(body, deferred, inLoop)
			if err != nil {
				return nil, err
			}
			if isDefault && i == len(clauses)-1 {
				chain = c10GList(bs)
				continue
			}
			chain = "[GsIf (GcOpaque \"case\"%string) " + c10GList(bs) + " " + chain + "]"
		}
		return []string{strings.TrimSuffix(strings.TrimPrefix(chain, "["), "]")}, nil
	case *ast.BranchStmt:
		if x.Label == nil && inLoop {
			switch x.Tok {
			case token.BREAK:
				return []string{"GsBreak"}, nil
			case token.CONTINUE:
				return []string{"GsContinue"}, nil
			}
		}
		return nil, fmt.Errorf("runner.run: branch statement %s", x.Tok)
	case *ast.DeferStmt, *ast.GoStmt, *ast.LabeledStmt:
		return nil, fmt.Errorf("runner.run: defer / go / label inside the body")
	}
	if relevant {
		if c10HasReturn(s) {
			return nil, fmt.Errorf("runner.run: a return inside a statement outside the translated fragment")
		}
		return nil, fmt.Errorf("runner.run: a statement mentions the graph-level callbacks outside the translated forms")
	}
	return nil, nil // no bearing on the graph-level callbacks
}

func c10RunSkeleton(f *ast.File) (string, error) {
	var fn *ast.FuncDecl
	for _, d := range f.Decls {
		if x, ok := d.(*ast.FuncDecl); ok && x.Name.Name == "run" && x.Recv != nil && len(x.Recv.List) == 1 && c10ExprStr(x.Recv.List[0].Type) == "*runner" {
			fn = x
		}
	}
	if fn == nil || fn.Body == nil {
		return "", fmt.Errorf("method (*runner).run not found")
	}
	res := fn.Type.Results
	if res == nil || len(res.List) != 2 || len(res.List[0].Names) != 1 || len(res.List[1].Names) != 1 {
		return "", fmt.Errorf("runner.run: the results are not named")
	}
	k := &c10Skel{resName: res.List[0].Names[0].Name, errName: res.List[1].Names[0].Name}
	l := fn.Body.List
	if len(l) < 3 {
		return "", fmt.Errorf("runner.run: body too short")
	}
	as, ok := l[0].(*ast.AssignStmt)
	if !ok || as.Tok != token.DEFINE || len(as.Lhs) != 1 || c10ExprStr(as.Lhs[0]) != "haveOnStart" || len(as.Rhs) != 1 {
		return "", fmt.Errorf("runner.run: does not begin with haveOnStart := …")
	}
	flag0 := c10ExprStr(as.Rhs[0])
	if flag0 != "true" && flag0 != "false" {
		return "", fmt.Errorf("runner.run: haveOnStart := %s", flag0)
	}
	k.seen++
	// the deferred bookkeeping: `defer func() { … }()`, or the same closure bound to a local name first
	// (`f := func() { … }; defer f()`, f mentioned nowhere else: the closure is inlined)
	var fl *ast.FuncLit
	rest := l[2:]
	if d, ok := l[1].(*ast.DeferStmt); ok {
		if fl, ok = d.Call.Fun.(*ast.FuncLit); !ok || len(d.Call.Args) != 0 {
			return "", fmt.Errorf("runner.run: defer of something else than a function literal")
		}
	} else if as2, ok := l[1].(*ast.AssignStmt); ok && as2.Tok == token.DEFINE && len(as2.Lhs) == 1 && len(as2.Rhs) == 1 {
		name, isId := as2.Lhs[0].(*ast.Ident)
		lit, isLit := as2.Rhs[0].(*ast.FuncLit)
		d, isDefer := l[2].(*ast.DeferStmt)
		if !isId || !isLit || !isDefer || len(d.Call.Args) != 0 || c10ExprStr(d.Call.Fun) != name.Name ||
			(lit.Type.Params != nil && len(lit.Type.Params.List) != 0) {
			return "", fmt.Errorf("runner.run: the second statement is not the deferred bookkeeping")
		}
		uses := 0
		ast.Inspect(fn.Body, func(n ast.Node) bool {
			if id, ok := n.(*ast.Ident); ok && id.Name == name.Name {
				uses++
			}
			return true
		})
		if uses != 2 || len(l) < 4 {
			return "", fmt.Errorf("runner.run: the closure %s of the deferred bookkeeping is used elsewhere", name.Name)
		}
		fl, rest = lit, l[3:]
	} else {
		return "", fmt.Errorf("runner.run: the second statement is not the deferred bookkeeping")
	}
	def, err := k.stmts(fl.Body.List, true, false)
	if err != nil {
		return "", err
	}
	body, err := k.stmts(rest, false, false)
	if err != nil {
		return "", err
	}
	if total := c10CountIdents(fn.Body); total != k.seen {
		return "", fmt.Errorf("runner.run: %d mentions of haveOnStart / onGraphStart / onGraphEnd / onGraphError, %d in translated forms", total, k.seen)
	}
	var b strings.Builder
	b.WriteString("\n(* compose/graph_run.go: func (r *runner) run, what bears on the graph-level callbacks (Model/CallbacksGenLib.v gstmt):\n")
	b.WriteString("   the initial value of haveOnStart, the deferred function, the body *)\n")
	b.WriteString("Definition run_flag_init : bool := " + flag0 + ".\n")
	b.WriteString("Definition run_deferred : list gstmt :=\n  " + c10GList(def) + ".\n")
	b.WriteString("Definition run_body : list gstmt :=\n  " + c10GList(body) + ".\n")
	return b.String(), nil
}
