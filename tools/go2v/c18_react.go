package main

// Extractor "react" (property C18): flow/agent/react/react.go, the small functions and closures
// the ReAct agent is made of, translated statement by statement into Gallina over the vocabulary
// of Model/ReactGenLib.v:
//
//   firstChunkStreamToolCallChecker                 first_chunk_checker
//   getReturnDirectlyToolCallIndex                  rd_tool_call_index
//   NewAgent: modelPreHandle, toolsNodePreHandle    model_pre_handle, tools_pre_handle
//   NewAgent: modelPostBranchCondition              model_post_branch
//   buildReturnDirectly: the branch condition       tools_post_branch
//   buildReturnDirectly: directReturn's converter   direct_return_convert
//   NewAgent / buildReturnDirectly: the graph.Add… calls in order          graph_items
//   NewAgent: compile options, capacity of the state's history             compile_max_steps, compile_trigger_mode, state_init_cap
//   Agent.Generate / Agent.Stream: which method of the runnable, with the compose options   entry_points
//
// The translated fragment (a small imperative language over lists, a string-set, ints, bools and
// one record): `if [init;] c {…} [else …]`, `return …`, `continue`, `v := e` / `v = e` / `var v T`,
// `state.F = e`, `for { x, err := sr.Recv(); if err == io.EOF {return …}; if err != nil {return …, err}; … }`,
// `for i, x := range L {…}`, `err := compose.ProcessState[*state](ctx, func(_, state) error {…; return nil})`
// (the closure body runs inline on the state), the idiom `x := make(T, len(S)); copy(x, S)` (a fresh
// copy of S), `append(a, b...)`, `append(a, b)`, `len`, `s[i]`, `_, ok := m[k]`, comparisons, && || !.
// Error results of calls the model takes as total (ProcessState, the checker) and their
// `if err != nil { return …, err }` propagation are not translated; Close calls have no effect on the
// model's data.  Anything else: source shape not recognised (tie unavailable).

import (
	"fmt"
	"go/ast"
	"go/parser"
	"go/token"
	"go/types"
	"path/filepath"
	"strconv"
	"strings"
)

const c18_reactHeader = "From Eino Require Import Base.Util Model.Tools Model.Graph Model.React Model.ReactGraph Model.ReactHeap Model.ReactGenLib.\nLocal Open Scope string_scope.\n\n"

// copies of the small helpers of consts.go / concat.go under this file's prefix
func c18_parseGo(fset *token.FileSet, repo string, rel ...string) (*ast.File, error) {
	return parser.ParseFile(fset, filepath.Join(append([]string{repo}, rel...)...), nil, 0)
}

func c18_topFunc(f *ast.File, name string) *ast.FuncDecl {
	for _, d := range f.Decls {
		if fn, ok := d.(*ast.FuncDecl); ok && fn.Recv == nil && fn.Name.Name == name {
			return fn
		}
	}
	return nil
}

func c18_coqStr(s string) string { return `"` + strings.ReplaceAll(s, `"`, `""`) + `"%string` }

func c18_squash(s string) string { return strings.Join(strings.Fields(s), "") }

func init() {
	register("react", c18_extractReact)
	registerFallback("react", "ReactCode.v", "(* Gen/ReactCode.v — translator tie UNAVAILABLE: tools/go2v (extractor \"react\") did not recognise the\n"+
		"   shape of flow/agent/react/react.go; the model's own definitions are re-exported. *)\n"+c18_reactHeader+
		"Definition first_chunk_checker (unk : string -> string) (sr : list chunk) : bool := default_checker sr.\n"+
		"Definition rd_tool_call_index (unk : string -> string) (input : msg) (rd_len : nat) (rd_has : string -> bool) : nat * bool :=\n"+
		"  match (if Nat.eqb rd_len 0%nat then None else rd_call_index rd_has (m_calls input)) with Some i => (i, true) | None => (0%nat, false) end.\n"+
		"Definition model_pre_handle (unk : string -> string) (messageModifier : option (list msg -> list msg)) (input : list msg) (state : gstate) : res (list msg) * gstate * bool :=\n"+
		"  let h := (g_messages state ++ input)%list in (Ok (match messageModifier with Some f => f h | None => h end), gl_set_Messages state h, gl_is_none messageModifier).\n"+
		"Definition tools_pre_handle (unk : string -> string) (rd_len : nat) (rd_has : string -> bool) (input : msg) (state : gstate) : res msg * gstate :=\n"+
		"  (Ok input, match (if Nat.eqb rd_len 0%nat then None else rd_call_index rd_has (m_calls input)) with\n"+
		"             | Some i => mkG (g_messages state ++ [input]) true i | None => mkG (g_messages state ++ [input]) false 0%nat end).\n"+
		"Definition model_pre_handle_heap (pol : policy) (messageModifier : option (list N -> list N)) (input : list N) (st : hstate) : hstate := hstep pol messageModifier st (HChat input).\n"+
		"Definition tools_pre_handle_heap (pol : policy) (input : N) (st : hstate) : hstate := hstep pol None st (HTools input).\n"+
		"Definition model_post_branch (unk : string -> string) (toolCallChecker : list chunk -> bool) (sr : list chunk) : gkey :=\n"+
		"  if toolCallChecker sr then GKey \"tools\" else GEnd.\n"+
		"Definition tools_post_branch (unk : string -> string) (state : gstate) : gkey * gstate :=\n"+
		"  (if g_rd state then GKey \"direct_return\" else GKey \"chat\", state).\n"+
		"Definition direct_return_convert (unk : string -> string) (msgs : list (option tmsg)) (state : gstate) : gconv * gstate :=\n"+
		"  (match (if g_rd state then nth_error msgs (g_rd_index state) else None) with Some (Some m) => GVal m | _ => GNoValue end, state).\n"+
		"Definition graph_items (unk : string -> string) (rd_len : nat) : list gitem :=\n"+
		"  [GNode (GKey \"chat\") \"ChatModel\" \"modelPreHandle\"; GEdge GStart (GKey \"chat\"); GNode (GKey \"tools\") \"Tools\" \"toolsNodePreHandle\";\n"+
		"   GBranch (GKey \"chat\") [GKey \"tools\"; GEnd] (fun b => if b then GKey \"tools\" else GEnd)]\n"+
		"  ++ (if Nat.ltb 0%nat rd_len\n"+
		"      then [GNode (GKey \"direct_return\") \"Lambda\" \"\"; GBranch (GKey \"tools\") [GKey \"chat\"; GKey \"direct_return\"] (fun b => if b then GKey \"direct_return\" else GKey \"chat\");\n"+
		"            GEdge (GKey \"direct_return\") GEnd]\n"+
		"      else [GEdge (GKey \"tools\") (GKey \"chat\")]).\n"+
		"Definition compile_options : list string := [\"compose.WithMaxRunSteps(config.MaxStep)\"].\n"+
		"Definition export_options : list string := [\"compose.WithMaxRunSteps(config.MaxStep)\"].\n"+
		"Definition compile_max_steps (max_step : nat) : nat := max_step.\n"+
		"Definition compile_trigger_mode : string := \"AnyPredecessor\".\n"+
		"Definition state_init_len (max_step : nat) : nat := 0%nat.\n"+
		"Definition state_init_cap (max_step : nat) : nat := (max_step + 1)%nat.\n"+
		"Definition state_fresh_per_run : bool := true.\n"+
		"Definition entry_points : list (string * string * bool) := [(\"Generate\", \"Invoke\", true); (\"Stream\", \"Stream\", true)].\n"+
		"Definition chat_model_with_tools (has_model has_tool_calling_model bind_ok : bool) : gmodel := gl_choose_model has_model has_tool_calling_model bind_ok.\n")
}

// ---------------------------------------------------------------------------------------------
// the translator

// kinds of values: "bool" "int" "str" "err" "key" "list:<elem>" "chunk" "msg" "call" "state"
// "set" (map[string]struct{}: <name>_len, <name>_has) "optfn" (func value that may be nil)
// "slot" (*schema.Message as a slot of a frame: option tmsg) "res:<k>" "tuple"
type c18_rval struct {
	text string
	kind string
}

// Gallina texts of slices that share the backing array of state.Messages
var c18_aliased = map[string]bool{}

func c18_alias(v c18_rval) bool { return c18_aliased[v.text] }
func c18_mark(v c18_rval, a bool) c18_rval {
	if a {
		c18_aliased[v.text] = true
	}
	return v
}

type c18_rEnv struct {
	elems    map[string]c18_rval // "L[i]" inside `for i := range L`: the current element
	locals   map[string]c18_rval
	consts   map[string]string // package-level string constants (node keys)
	loops    []string          // what `continue` / falling off a loop body means
	closureK []string          // what `return nil` of a ProcessState closure continues with
	ret      func(e *c18_rEnv, rs []ast.Expr) (string, error)
	retType  string
	calls    map[string]func(e *c18_rEnv, args []ast.Expr) (c18_rval, error) // calls of captured functions
	tmp      int
}

func (e *c18_rEnv) clone() *c18_rEnv {
	c := *e
	c.locals = map[string]c18_rval{}
	for k, v := range e.locals {
		c.locals[k] = v
	}
	return &c
}

var c18_reactFields = map[string]map[string]c18_rval{
	"chunk": {"Content": {"(k_content %s)", "str"}, "ToolCalls": {"(k_frags %s)", "list:frag"}},
	"msg":   {"Content": {"(m_content %s)", "str"}, "ToolCalls": {"(m_calls %s)", "list:call"}, "ToolCallID": {"(m_tcid %s)", "str"}},
	"call":  {"ID": {"(c_id %s)", "str"}, "Function.Name": {"(c_name %s)", "str"}, "Function.Arguments": {"(c_args %s)", "str"}},
	"state": {"Messages": {"(g_messages %s)", "list:msg"}, "ReturnDirectly": {"(g_rd %s)", "bool"}, "ReturnDirectlyToolCallIndex": {"(g_rd_index %s)", "int"}},
}

// x.A.B -> (x, "A.B")
func c18_selPath(e ast.Expr) (string, string, bool) {
	var parts []string
	for {
		switch x := e.(type) {
		case *ast.SelectorExpr:
			parts = append([]string{x.Sel.Name}, parts...)
			e = x.X
			continue
		case *ast.Ident:
			return x.Name, strings.Join(parts, "."), true
		}
		return "", "", false
	}
}

// x[i].A.B -> (x[i], "A.B")
func c18_selPathIndexed(e ast.Expr) (ast.Expr, string, bool) {
	var parts []string
	for {
		switch x := e.(type) {
		case *ast.SelectorExpr:
			parts = append([]string{x.Sel.Name}, parts...)
			e = x.X
			continue
		case *ast.IndexExpr:
			return x, strings.Join(parts, "."), len(parts) > 0
		}
		return nil, "", false
	}
}

func c18_isIdent(e ast.Expr, name string) bool {
	id, ok := e.(*ast.Ident)
	return ok && id.Name == name
}

func (e *c18_rEnv) expr(x ast.Expr) (c18_rval, error) {
	switch v := x.(type) {
	case *ast.ParenExpr:
		return e.expr(v.X)
	case *ast.BasicLit:
		switch v.Kind {
		case token.INT:
			return c18_rval{v.Value + "%nat", "int"}, nil
		case token.STRING:
			s, err := strconv.Unquote(v.Value)
			if err != nil {
				return c18_rval{}, err
			}
			return c18_rval{c18_coqStr(s), "str"}, nil
		}
	case *ast.Ident:
		switch v.Name {
		case "true", "false":
			return c18_rval{v.Name, "bool"}, nil
		}
		if l, ok := e.locals[v.Name]; ok {
			return l, nil
		}
		if c, ok := e.consts[v.Name]; ok {
			return c18_rval{"(GKey " + c18_coqStr(c) + ")", "key"}, nil
		}
	case *ast.SelectorExpr:
		switch types.ExprString(v) {
		case "compose.END":
			return c18_rval{"GEnd", "key"}, nil
		case "compose.START":
			return c18_rval{"GStart", "key"}, nil
		}
		if root, path, ok := c18_selPathIndexed(v); ok {
			if l, ok := e.elems[c18_squash(types.ExprString(root))]; ok {
				if f, ok := c18_reactFields[l.kind][path]; ok {
					return c18_rval{fmt.Sprintf(f.text, l.text), f.kind}, nil
				}
				if _, known := c18_reactFields[l.kind]; known {
					return c18_rval{"(unk " + c18_coqStr(l.kind+"."+path) + ")", "unk"}, nil
				}
			}
		}
		base, path, ok := c18_selPath(v)
		if ok {
			if l, ok := e.locals[base+"."+path]; ok { // config.ToolReturnDirectly, config.MaxStep
				return l, nil
			}
			if l, ok := e.locals[base]; ok {
				if f, ok := c18_reactFields[l.kind][path]; ok {
					return c18_mark(c18_rval{fmt.Sprintf(f.text, l.text), f.kind}, l.kind == "state" && path == "Messages"), nil
				}
				if _, known := c18_reactFields[l.kind]; known {
					// a field the model does not have: the function consults something unknown
					return c18_rval{"(unk " + c18_coqStr(l.kind+"."+path) + ")", "unk"}, nil
				}
			}
		}
	case *ast.IndexExpr:
		if el, ok := e.elems[c18_squash(types.ExprString(v))]; ok {
			return el, nil
		}
	case *ast.StarExpr:
		// *p on a pointer field the model does not have: some unknown number
		a, err := e.expr(v.X)
		if err != nil {
			return c18_rval{}, err
		}
		if a.kind == "unk" {
			return c18_rval{"(String.length " + a.text + ")", "int"}, nil
		}
		return c18_rval{}, fmt.Errorf("dereference of a %s", a.kind)
	case *ast.SliceExpr:
		// s[:n] / s[:n:m]: the first n elements, in the same backing array
		a, err := e.expr(v.X)
		if err != nil {
			return c18_rval{}, err
		}
		if !strings.HasPrefix(a.kind, "list:") || v.Low != nil || v.High == nil {
			return c18_rval{}, fmt.Errorf("slice expression outside the translated fragment")
		}
		h, err := e.expr(v.High)
		if err != nil {
			return c18_rval{}, err
		}
		if h.kind != "int" {
			return c18_rval{}, fmt.Errorf("slice bound of kind %s", h.kind)
		}
		return c18_mark(c18_rval{"(firstn " + h.text + " " + a.text + ")", a.kind}, c18_alias(a)), nil
	case *ast.UnaryExpr:
		if v.Op == token.NOT {
			a, err := e.expr(v.X)
			if err != nil {
				return c18_rval{}, err
			}
			if a.kind != "bool" {
				return c18_rval{}, fmt.Errorf("! applied to %s", a.kind)
			}
			return c18_rval{"(negb " + a.text + ")", "bool"}, nil
		}
	case *ast.CallExpr:
		if c18_isIdent(v.Fun, "len") && len(v.Args) == 1 {
			a, err := e.expr(v.Args[0])
			if err != nil {
				return c18_rval{}, err
			}
			switch {
			case strings.HasPrefix(a.kind, "list:"):
				return c18_rval{"(List.length " + a.text + ")", "int"}, nil
			case a.kind == "str", a.kind == "unk":
				return c18_rval{"(String.length " + a.text + ")", "int"}, nil
			case a.kind == "set":
				return c18_rval{a.text + "_len", "int"}, nil
			}
			return c18_rval{}, fmt.Errorf("len of a %s", a.kind)
		}
		if c18_isIdent(v.Fun, "append") && len(v.Args) == 2 {
			a, err := e.expr(v.Args[0])
			if err != nil {
				return c18_rval{}, err
			}
			b, err := e.expr(v.Args[1])
			if err != nil {
				return c18_rval{}, err
			}
			if !strings.HasPrefix(a.kind, "list:") {
				return c18_rval{}, fmt.Errorf("append to a %s", a.kind)
			}
			if v.Ellipsis != token.NoPos {
				if b.kind != a.kind {
					return c18_rval{}, fmt.Errorf("append(%s, %s...)", a.kind, b.kind)
				}
				return c18_rval{"(" + a.text + " ++ " + b.text + ")%list", a.kind}, nil
			}
			if "list:"+b.kind != a.kind {
				return c18_rval{}, fmt.Errorf("append(%s, %s)", a.kind, b.kind)
			}
			return c18_rval{"(" + a.text + " ++ [" + b.text + "])%list", a.kind}, nil
		}
		if id, ok := v.Fun.(*ast.Ident); ok {
			if f, ok := e.calls[id.Name]; ok {
				return f(e, v.Args)
			}
		}
		if f, ok := e.calls[types.ExprString(v.Fun)]; ok {
			return f(e, v.Args)
		}
	case *ast.BinaryExpr:
		switch v.Op {
		case token.LAND, token.LOR:
			a, err := e.expr(v.X)
			if err != nil {
				return c18_rval{}, err
			}
			b, err := e.expr(v.Y)
			if err != nil {
				return c18_rval{}, err
			}
			if a.kind != "bool" || b.kind != "bool" {
				return c18_rval{}, fmt.Errorf("%s between %s and %s", v.Op, a.kind, b.kind)
			}
			op := " && "
			if v.Op == token.LOR {
				op = " || "
			}
			return c18_rval{"(" + a.text + op + b.text + ")", "bool"}, nil
		case token.ADD:
			a, err := e.expr(v.X)
			if err != nil {
				return c18_rval{}, err
			}
			b, err := e.expr(v.Y)
			if err != nil {
				return c18_rval{}, err
			}
			if a.kind != "int" || b.kind != "int" {
				return c18_rval{}, fmt.Errorf("+ between %s and %s", a.kind, b.kind)
			}
			return c18_rval{"(" + a.text + " + " + b.text + ")%nat", "int"}, nil
		case token.EQL, token.NEQ, token.LSS, token.LEQ, token.GTR, token.GEQ:
			neg := func(s string) string {
				if v.Op == token.NEQ {
					return "(negb " + s + ")"
				}
				return s
			}
			if v.Op == token.EQL || v.Op == token.NEQ {
				l, r := v.X, v.Y
				if c18_isIdent(l, "nil") {
					l, r = r, l
				}
				if c18_isIdent(r, "nil") {
					a, err := e.expr(l)
					if err != nil {
						return c18_rval{}, err
					}
					switch a.kind {
					case "optfn", "slot":
						return c18_rval{neg("(gl_is_none " + a.text + ")"), "bool"}, nil
					case "unk":
						return c18_rval{neg("(String.eqb " + a.text + " \"\")"), "bool"}, nil
					case "set":
						// a nil test of the string set: something the model does not distinguish from emptiness
						return c18_rval{neg("(String.eqb (unk " + c18_coqStr(types.ExprString(l)+" is nil") + ") \"\")"), "bool"}, nil
					case "errval", "ptr":
						// a.text says whether the value is NON-nil
						if v.Op == token.NEQ {
							return c18_rval{a.text, "bool"}, nil
						}
						return c18_rval{"(negb " + a.text + ")", "bool"}, nil
					}
					return c18_rval{}, fmt.Errorf("comparison of a %s with nil", a.kind)
				}
			}
			a, err := e.expr(v.X)
			if err != nil {
				return c18_rval{}, err
			}
			b, err := e.expr(v.Y)
			if err != nil {
				return c18_rval{}, err
			}
			if a.kind != b.kind {
				return c18_rval{}, fmt.Errorf("comparison of %s with %s", a.kind, b.kind)
			}
			switch a.kind {
			case "int":
				switch v.Op {
				case token.EQL, token.NEQ:
					return c18_rval{neg("(Nat.eqb " + a.text + " " + b.text + ")"), "bool"}, nil
				case token.LSS:
					return c18_rval{"(Nat.ltb " + a.text + " " + b.text + ")", "bool"}, nil
				case token.LEQ:
					return c18_rval{"(Nat.leb " + a.text + " " + b.text + ")", "bool"}, nil
				case token.GTR:
					return c18_rval{"(Nat.ltb " + b.text + " " + a.text + ")", "bool"}, nil
				case token.GEQ:
					return c18_rval{"(Nat.leb " + b.text + " " + a.text + ")", "bool"}, nil
				}
			case "str":
				if v.Op == token.EQL || v.Op == token.NEQ {
					return c18_rval{neg("(String.eqb " + a.text + " " + b.text + ")"), "bool"}, nil
				}
			case "bool":
				if v.Op == token.EQL || v.Op == token.NEQ {
					return c18_rval{neg("(Bool.eqb " + a.text + " " + b.text + ")"), "bool"}, nil
				}
			}
		}
	}
	return c18_rval{}, fmt.Errorf("expression %s is outside the translated fragment", types.ExprString(x))
}

// `if err != nil { return …, err }` with err of kind "err"
func (e *c18_rEnv) isErrPropagation(s *ast.IfStmt) bool {
	be, ok := s.Cond.(*ast.BinaryExpr)
	if !ok || be.Op != token.NEQ || !c18_isIdent(be.Y, "nil") {
		return false
	}
	id, ok := be.X.(*ast.Ident)
	if !ok || e.locals[id.Name].kind != "err" {
		return false
	}
	if len(s.Body.List) != 1 {
		return false
	}
	r, ok := s.Body.List[0].(*ast.ReturnStmt)
	return ok && len(r.Results) >= 1 && c18_isIdent(r.Results[len(r.Results)-1], id.Name)
}

// compose.ProcessState[*state](ctx, func(_ context.Context, state *state) error {…})  ->  the closure
func c18_processStateClosure(x ast.Expr) (*ast.FuncLit, bool) {
	call, ok := x.(*ast.CallExpr)
	if !ok || len(call.Args) != 2 {
		return nil, false
	}
	ix, ok := call.Fun.(*ast.IndexExpr)
	if !ok || types.ExprString(ix.X) != "compose.ProcessState" || types.ExprString(ix.Index) != "*state" {
		return nil, false
	}
	fl, ok := call.Args[1].(*ast.FuncLit)
	if !ok || fl.Type.Params == nil || len(fl.Type.Params.List) != 2 {
		return nil, false
	}
	p := fl.Type.Params.List[1]
	if types.ExprString(p.Type) != "*state" || len(p.Names) != 1 {
		return nil, false
	}
	return fl, true
}

func (e *c18_rEnv) define(name string, v c18_rval) error {
	if name == "_" {
		return nil
	}
	e.locals[name] = c18_rval{name, v.kind}
	return nil
}

// a statement list; k = what follows it ("" = nothing may follow: every path must return)
func (e *c18_rEnv) stmts(l []ast.Stmt, k string) (string, error) {
	if len(l) == 0 {
		if k == "" {
			return "", fmt.Errorf("control reaches the end of a block without a return")
		}
		return k, nil
	}
	rest := func(env *c18_rEnv) (string, error) { return env.stmts(l[1:], k) }
	switch s := l[0].(type) {
	case *ast.ReturnStmt:
		if n := len(e.closureK); n > 0 {
			if len(s.Results) == 1 && c18_isIdent(s.Results[0], "nil") {
				return e.closureK[n-1], nil
			}
			return "", fmt.Errorf("a ProcessState closure returning something other than nil")
		}
		return e.ret(e, s.Results)
	case *ast.BranchStmt:
		if s.Tok == token.CONTINUE && s.Label == nil && len(e.loops) > 0 {
			return e.loops[len(e.loops)-1], nil
		}
	case *ast.DeferStmt:
		if sel, ok := s.Call.Fun.(*ast.SelectorExpr); ok && sel.Sel.Name == "Close" && len(s.Call.Args) == 0 {
			return rest(e)
		}
	case *ast.ExprStmt:
		if call, ok := s.X.(*ast.CallExpr); ok {
			if sel, ok := call.Fun.(*ast.SelectorExpr); ok && sel.Sel.Name == "Close" && len(call.Args) == 0 {
				return rest(e)
			}
		}
	case *ast.DeclStmt:
		gd, ok := s.Decl.(*ast.GenDecl)
		if ok && gd.Tok == token.VAR && len(gd.Specs) == 1 {
			vs := gd.Specs[0].(*ast.ValueSpec)
			if len(vs.Names) == 1 && len(vs.Values) == 0 && types.ExprString(vs.Type) == "*schema.Message" {
				env := e.clone()
				env.locals[vs.Names[0].Name] = c18_rval{vs.Names[0].Name, "slot"}
				r, err := rest(env)
				return "let " + vs.Names[0].Name + " : option tmsg := None in\n" + r, err
			}
		}
	case *ast.IfStmt:
		return e.ifStmt(s, l[1:], k)
	case *ast.AssignStmt:
		return e.assign(s, l[1:], k)
	case *ast.ForStmt:
		return e.recvLoop(s, l[1:], k)
	case *ast.RangeStmt:
		return e.rangeLoop(s, l[1:], k)
	}
	return "", fmt.Errorf("statement outside the translated fragment at offset %d", l[0].Pos())
}

func (e *c18_rEnv) ifStmt(s *ast.IfStmt, after []ast.Stmt, k string) (string, error) {
	env := e.clone()
	prefix := ""
	var cond c18_rval
	haveCond := false
	if s.Init != nil {
		as, ok := s.Init.(*ast.AssignStmt)
		if !ok || as.Tok != token.DEFINE || len(as.Rhs) != 1 {
			return "", fmt.Errorf("if with an init statement outside the translated fragment")
		}
		if ix, ok := as.Rhs[0].(*ast.IndexExpr); ok && len(as.Lhs) == 2 && c18_isIdent(as.Lhs[0], "_") {
			// _, ok := m[key]; ok
			okv, isId := as.Lhs[1].(*ast.Ident)
			m, err := e.expr(ix.X)
			if err != nil {
				return "", err
			}
			key, err := e.expr(ix.Index)
			if err != nil {
				return "", err
			}
			if !isId || m.kind != "set" || key.kind != "str" {
				return "", fmt.Errorf("map lookup outside the translated fragment")
			}
			env.locals[okv.Name] = c18_rval{"(" + m.text + "_has " + key.text + ")", "bool"}
		} else if len(as.Lhs) == 1 {
			v, err := e.expr(as.Rhs[0])
			if err != nil {
				return "", err
			}
			id, isId := as.Lhs[0].(*ast.Ident)
			if !isId {
				return "", fmt.Errorf("if-init assigns to a non-variable")
			}
			if _, shadows := e.locals[id.Name]; shadows {
				return "", fmt.Errorf("if-init shadows %s", id.Name)
			}
			env.locals[id.Name] = c18_rval{id.Name, v.kind}
			prefix = "let " + id.Name + " := " + v.text + " in\n"
		} else if len(as.Lhs) == 2 {
			// v, err := f(…)
			v, err := e.expr(as.Rhs[0])
			if err != nil {
				return "", err
			}
			id, ok1 := as.Lhs[0].(*ast.Ident)
			er, ok2 := as.Lhs[1].(*ast.Ident)
			if !ok1 || !ok2 {
				return "", fmt.Errorf("if-init assigns to a non-variable")
			}
			if _, shadows := e.locals[id.Name]; shadows {
				return "", fmt.Errorf("if-init shadows %s", id.Name)
			}
			env.locals[id.Name] = c18_rval{id.Name, v.kind}
			env.locals[er.Name] = c18_rval{er.Name, "err"}
			prefix = "let " + id.Name + " := " + v.text + " in\n"
		} else {
			return "", fmt.Errorf("if-init outside the translated fragment")
		}
	}
	// the else part / what follows
	elsePart := func() (string, error) {
		switch el := s.Else.(type) {
		case nil:
			return e.stmts(after, k)
		case *ast.BlockStmt:
			ka, err := e.stmtsOrK(after, k)
			if err != nil {
				return "", err
			}
			return env.stmts(el.List, ka)
		case *ast.IfStmt:
			return env.ifStmt(el, after, k)
		}
		return "", fmt.Errorf("else outside the translated fragment")
	}
	if env.isErrPropagation(s) {
		r, err := elsePart()
		return prefix + r, err
	}
	if !haveCond {
		c, err := env.expr(s.Cond)
		if err != nil {
			return "", err
		}
		cond = c
	}
	if cond.kind != "bool" {
		return "", fmt.Errorf("condition of kind %s", cond.kind)
	}
	ka, err := e.stmtsOrK(after, k)
	if err != nil {
		return "", err
	}
	th, err := env.stmts(s.Body.List, ka)
	if err != nil {
		return "", err
	}
	el, err := elsePart()
	if err != nil {
		return "", err
	}
	ct := cond.text
	for {
		inner, ok := c18_stripNegb(ct)
		if !ok {
			break
		}
		ct, th, el = inner, el, th
	}
	return prefix + "(if " + ct + "\n then (" + th + ")\n else (" + el + "))", nil
}

// "(negb X)" with X one balanced term -> X
func c18_stripNegb(s string) (string, bool) {
	if !strings.HasPrefix(s, "(negb ") || !strings.HasSuffix(s, ")") {
		return "", false
	}
	inner := s[len("(negb ") : len(s)-1]
	depth := 0
	for i, c := range inner {
		switch c {
		case '(':
			depth++
		case ')':
			depth--
			if depth < 0 {
				return "", false
			}
			if depth == 0 && i != len(inner)-1 {
				return "", false
			}
		case ' ':
			if depth == 0 {
				return "", false
			}
		case '"':
			return "", false // string literals: keep as it is
		}
	}
	return inner, depth == 0
}

// what follows a nested block: the statements after it, then k; "" when nothing follows at all
func (e *c18_rEnv) stmtsOrK(after []ast.Stmt, k string) (string, error) {
	if len(after) == 0 {
		return k, nil
	}
	return e.stmts(after, k)
}

func (e *c18_rEnv) assign(s *ast.AssignStmt, after []ast.Stmt, k string) (string, error) {
	env := e.clone()
	cont := func() (string, error) { return env.stmts(after, k) }
	if len(s.Rhs) == 1 {
		// err := compose.ProcessState[*state](ctx, func(_ context.Context, state *state) error {…})
		if fl, ok := c18_processStateClosure(s.Rhs[0]); ok && len(s.Lhs) == 1 {
			id, isId := s.Lhs[0].(*ast.Ident)
			if !isId {
				return "", fmt.Errorf("ProcessState result assigned to a non-variable")
			}
			sv := fl.Type.Params.List[1].Names[0].Name
			// the closure body runs inline; its `return nil` continues with the statements after the call,
			// which see the variables the closure assigned.  Those statements are translated inside the
			// closure's scope by a recursive call from the return.
			env.locals[id.Name] = c18_rval{id.Name, "err"}
			if st, ok := env.locals["state"]; !ok || st.kind != "state" {
				return "", fmt.Errorf("ProcessState in a function that does not carry the state")
			}
			if old, clash := env.locals[sv]; clash && old.kind != "state" {
				return "", fmt.Errorf("the ProcessState closure's state parameter shadows %s", sv)
			}
			env.locals[sv] = c18_rval{"state", "state"} // whatever the closure calls it
			return env.closure(fl.Body.List, after, k)
		}
		// x := make(T, len(S)); copy(x, S)
		if call, ok := s.Rhs[0].(*ast.CallExpr); ok && c18_isIdent(call.Fun, "make") && s.Tok == token.DEFINE && len(s.Lhs) == 1 && len(call.Args) == 2 && len(after) > 0 {
			id, isId := s.Lhs[0].(*ast.Ident)
			if cp, ok := after[0].(*ast.ExprStmt); ok && isId {
				if cc, ok := cp.X.(*ast.CallExpr); ok && c18_isIdent(cc.Fun, "copy") && len(cc.Args) == 2 && c18_isIdent(cc.Args[0], id.Name) {
					src := types.ExprString(cc.Args[1])
					if c18_squash(types.ExprString(call.Args[1])) == c18_squash("len("+src+")") {
						v, err := e.expr(cc.Args[1])
						if err != nil {
							return "", err
						}
						if !strings.HasPrefix(v.kind, "list:") {
							return "", fmt.Errorf("copy of a %s", v.kind)
						}
						delete(c18_aliased, id.Name)
						env.locals[id.Name] = c18_rval{id.Name, v.kind}
						r, err := env.stmts(after[1:], k)
						return "let " + id.Name + " := " + v.text + " in (* a fresh copy *)\n" + r, err
					}
				}
			}
			return "", fmt.Errorf("make outside the idiom x := make(T, len(S)); copy(x, S)")
		}
		if len(s.Lhs) == 1 {
			// v = s[i]
			if ix, ok := s.Rhs[0].(*ast.IndexExpr); ok {
				id, isId := s.Lhs[0].(*ast.Ident)
				a, err := e.expr(ix.X)
				if err != nil {
					return "", err
				}
				i, err := e.expr(ix.Index)
				if err != nil {
					return "", err
				}
				if !isId || !strings.HasPrefix(a.kind, "list:") || i.kind != "int" {
					return "", fmt.Errorf("indexing outside the translated fragment")
				}
				env.locals[id.Name] = c18_rval{id.Name, strings.TrimPrefix(a.kind, "list:")}
				r, err := cont()
				if err != nil {
					return "", err
				}
				pn, err := e.ret(e, nil) // the panic result
				if err != nil {
					return "", err
				}
				return "gl_index " + a.text + " " + i.text + " " + pn + " (fun " + id.Name + " =>\n" + r + ")", nil
			}
			v, err := e.expr(s.Rhs[0])
			if err != nil {
				return "", err
			}
			switch lhs := s.Lhs[0].(type) {
			case *ast.Ident:
				if s.Tok == token.ASSIGN {
					if old, ok := e.locals[lhs.Name]; !ok || old.kind != v.kind {
						return "", fmt.Errorf("assignment to %s changes its kind", lhs.Name)
					}
				}
				delete(c18_aliased, lhs.Name)
				env.locals[lhs.Name] = c18_mark(c18_rval{lhs.Name, v.kind}, c18_alias(v))
				r, err := cont()
				return "let " + lhs.Name + " := " + v.text + " in\n" + r, err
			case *ast.SelectorExpr:
				base, path, ok := c18_selPath(lhs)
				if ok && e.locals[base].kind == "state" {
					f, known := c18_reactFields["state"][path]
					if !known || f.kind != v.kind {
						return "", fmt.Errorf("assignment to state.%s", path)
					}
					r, err := cont()
					return "let state := gl_set_" + path + " state " + v.text + " in\n" + r, err
				}
			}
		}
		if ix, ok := s.Rhs[0].(*ast.IndexExpr); ok && len(s.Lhs) == 2 && c18_isIdent(s.Lhs[0], "_") && s.Tok == token.DEFINE {
			// _, ok := m[key]
			okv, isId := s.Lhs[1].(*ast.Ident)
			m, err := e.expr(ix.X)
			if err != nil {
				return "", err
			}
			key, err := e.expr(ix.Index)
			if err != nil {
				return "", err
			}
			if !isId || m.kind != "set" || key.kind != "str" {
				return "", fmt.Errorf("map lookup outside the translated fragment")
			}
			if _, shadows := e.locals[okv.Name]; shadows {
				return "", fmt.Errorf("map lookup shadows %s", okv.Name)
			}
			env.locals[okv.Name] = c18_rval{okv.Name, "bool"}
			r, err := cont()
			return "let " + okv.Name + " := (" + m.text + "_has " + key.text + ") in\n" + r, err
		}
		if len(s.Lhs) == 2 {
			// state.A, state.B = f(…)   (a call of a translated function returning a pair)
			v, err := e.expr(s.Rhs[0])
			if err != nil {
				return "", err
			}
			id0, isId0 := s.Lhs[0].(*ast.Ident)
			id1, isId1 := s.Lhs[1].(*ast.Ident)
			if isId0 && isId1 && s.Tok == token.DEFINE && id0.Name != "_" {
				_, sh0 := e.locals[id0.Name]
				_, sh1 := e.locals[id1.Name]
				if sh0 || sh1 {
					return "", fmt.Errorf("definition shadows %s / %s", id0.Name, id1.Name)
				}
				switch {
				case v.kind == "tuple:int,bool" && id1.Name != "_":
					// a, b := f(…)
					env.locals[id0.Name] = c18_rval{id0.Name, "int"}
					env.locals[id1.Name] = c18_rval{id1.Name, "bool"}
					r, err := cont()
					return "let '(" + id0.Name + ", " + id1.Name + ") := " + v.text + " in\n" + r, err
				case v.kind == "bool":
					// v, err := checker(…): the error result of a call the model takes as total
					env.locals[id0.Name] = c18_rval{id0.Name, "bool"}
					if id1.Name != "_" {
						env.locals[id1.Name] = c18_rval{id1.Name, "err"}
					}
					r, err := cont()
					return "let " + id0.Name + " := " + v.text + " in\n" + r, err
				}
			}
			if v.kind == "tuple:int,bool" {
				out := "let '(t1, t2) := " + v.text + " in\n"
				ks := []string{"int", "bool"}
				for n, lx := range s.Lhs {
					base, path, ok := c18_selPath(lx)
					f, known := c18_reactFields["state"][path]
					if !ok || e.locals[base].kind != "state" || !known || f.kind != ks[n] {
						return "", fmt.Errorf("tuple assignment outside the translated fragment")
					}
					out += "let state := gl_set_" + path + " state t" + strconv.Itoa(n+1) + " in\n"
				}
				r, err := cont()
				return out + r, err
			}
		}
	}
	return "", fmt.Errorf("assignment outside the translated fragment")
}

// the body of a ProcessState closure followed by the statements after the call
func (e *c18_rEnv) closure(body []ast.Stmt, after []ast.Stmt, k string) (string, error) {
	// translate `after` lazily at each `return nil`: it must see the assignments made on that path, which
	// the let-bindings provide textually; kinds of the variables do not change (checked by assign)
	ka, err := e.stmts(after, k)
	if err != nil {
		return "", err
	}
	env := e.clone()
	env.closureK = append(append([]string{}, e.closureK...), ka)
	env.loops = nil
	return env.stmts(body, "")
}

// for { x, err := sr.Recv(); if err == io.EOF { return … }; if err != nil { return …, err }; … }
func (e *c18_rEnv) recvLoop(s *ast.ForStmt, after []ast.Stmt, k string) (string, error) {
	if s.Init != nil || s.Cond != nil || s.Post != nil || len(s.Body.List) < 2 {
		return "", fmt.Errorf("for loop outside the translated fragment")
	}
	as, ok := s.Body.List[0].(*ast.AssignStmt)
	if !ok || as.Tok != token.DEFINE || len(as.Lhs) != 2 || len(as.Rhs) != 1 {
		return "", fmt.Errorf("for loop does not start with x, err := sr.Recv()")
	}
	call, ok := as.Rhs[0].(*ast.CallExpr)
	if !ok || len(call.Args) != 0 {
		return "", fmt.Errorf("for loop does not start with x, err := sr.Recv()")
	}
	sel, ok := call.Fun.(*ast.SelectorExpr)
	if !ok || sel.Sel.Name != "Recv" {
		return "", fmt.Errorf("for loop does not start with x, err := sr.Recv()")
	}
	src, err := e.expr(sel.X)
	if err != nil {
		return "", err
	}
	if !strings.HasPrefix(src.kind, "list:") {
		return "", fmt.Errorf("Recv on a %s", src.kind)
	}
	x, ok1 := as.Lhs[0].(*ast.Ident)
	er, ok2 := as.Lhs[1].(*ast.Ident)
	if !ok1 || !ok2 {
		return "", fmt.Errorf("Recv results assigned to non-variables")
	}
	env := e.clone()
	env.locals[x.Name] = c18_rval{x.Name, strings.TrimPrefix(src.kind, "list:")}
	env.locals[er.Name] = c18_rval{er.Name, "err"}
	// the handling of Recv's error, in one of the shapes
	//   if err == io.EOF {A}; if err != nil {return …, err}
	//   if err == io.EOF {A} else if err != nil {return …, err}          (also what a switch over the two becomes)
	//   if err != nil { if err == io.EOF {A}; return …, err }
	// (errors.Is(err, io.EOF) is read as err == io.EOF: Recv hands io.EOF on unwrapped)
	isEOF := func(c ast.Expr) bool {
		t := c18_squash(types.ExprString(c))
		return t == er.Name+"==io.EOF" || t == "io.EOF=="+er.Name || t == "errors.Is("+er.Name+",io.EOF)"
	}
	var eofBody []ast.Stmt
	var restBody []ast.Stmt // the statements of the loop after the error handling, when they are not s.Body.List[used:]
	used := 0
	first, ok := s.Body.List[1].(*ast.IfStmt)
	if !ok || first.Init != nil {
		return "", fmt.Errorf("the end-of-stream test is not the second statement of the loop")
	}
	switch {
	case isEOF(first.Cond) && first.Else == nil:
		if len(s.Body.List) < 3 {
			return "", fmt.Errorf("the error test is not the third statement of the loop")
		}
		pr, ok := s.Body.List[2].(*ast.IfStmt)
		if !ok || !env.isErrPropagation(pr) || pr.Else != nil {
			return "", fmt.Errorf("the error test is not the third statement of the loop")
		}
		eofBody, used = first.Body.List, 3
	case isEOF(first.Cond):
		pr, ok := first.Else.(*ast.IfStmt)
		if !ok || pr.Init != nil || !env.isErrPropagation(pr) {
			return "", fmt.Errorf("the error test does not follow the end-of-stream test")
		}
		eofBody, used = first.Body.List, 2
		if pr.Else != nil {
			// if err == io.EOF {A; return …} else if err != nil {return …, err} else X   (what one switch over the
			// error tests AND the tests of the chunk becomes): both arms leave the function, so X is simply what the
			// loop goes on with
			if n := len(eofBody); n == 0 {
				return "", fmt.Errorf("the end-of-stream arm does not return")
			} else if _, ok := eofBody[n-1].(*ast.ReturnStmt); !ok {
				return "", fmt.Errorf("the end-of-stream arm does not return")
			}
			var rest []ast.Stmt
			if b, ok := pr.Else.(*ast.BlockStmt); ok {
				rest = append(rest, b.List...)
			} else {
				rest = append(rest, pr.Else)
			}
			restBody = append(rest, s.Body.List[2:]...)
		}
	case c18_squash(types.ExprString(first.Cond)) == er.Name+"!=nil" && first.Else == nil && len(first.Body.List) == 2:
		inner, ok := first.Body.List[0].(*ast.IfStmt)
		if !ok || inner.Init != nil || inner.Else != nil || !isEOF(inner.Cond) {
			return "", fmt.Errorf("the end-of-stream test is not the first statement of the error handling")
		}
		pr := &ast.IfStmt{Cond: first.Cond, Body: &ast.BlockStmt{List: first.Body.List[1:]}}
		if !env.isErrPropagation(pr) {
			return "", fmt.Errorf("the error handling does not end by handing the error on")
		}
		eofBody, used = inner.Body.List, 2
	default:
		return "", fmt.Errorf("the end-of-stream test is not the second statement of the loop")
	}
	atEOF, err := env.stmts(eofBody, "")
	if err != nil {
		return "", err
	}
	e.tmp++
	loop := "loop" + strconv.Itoa(e.tmp)
	env.tmp = e.tmp
	env.loops = append(append([]string{}, e.loops...), loop+" rest_"+loop)
	if restBody == nil {
		restBody = s.Body.List[used:]
	}
	body, err := env.stmts(restBody, loop+" rest_"+loop)
	if err != nil {
		return "", err
	}
	_ = after // an endless loop: nothing follows
	return "(fix " + loop + " (items_" + loop + " : list " + strings.TrimPrefix(src.kind, "list:") + ") {struct items_" + loop + "} : " + e.retType + " :=\n" +
		"  match items_" + loop + " with\n  | [] => " + atEOF + "\n  | " + x.Name + " :: rest_" + loop + " =>\n" + body + "\n  end) " + src.text, nil
}

// for i, x := range L { … }
func (e *c18_rEnv) rangeLoop(s *ast.RangeStmt, after []ast.Stmt, k string) (string, error) {
	if s.Tok != token.DEFINE || s.Key == nil {
		return "", fmt.Errorf("range loop outside the translated fragment")
	}
	src, err := e.expr(s.X)
	if err != nil {
		return "", err
	}
	if !strings.HasPrefix(src.kind, "list:") {
		return "", fmt.Errorf("range over a %s", src.kind)
	}
	ka, err := e.stmts(after, k)
	if err != nil {
		return "", err
	}
	e.tmp++
	loop := "loop" + strconv.Itoa(e.tmp)
	env := e.clone()
	env.tmp = e.tmp
	idx := "idx_" + loop
	if id, ok := s.Key.(*ast.Ident); ok && id.Name != "_" {
		if _, shadows := e.locals[id.Name]; shadows {
			return "", fmt.Errorf("range variable shadows %s", id.Name)
		}
		idx = id.Name
		env.locals[id.Name] = c18_rval{id.Name, "int"}
	}
	elem := "elem_" + loop
	if s.Value != nil {
		if id, ok := s.Value.(*ast.Ident); ok && id.Name != "_" {
			if _, shadows := e.locals[id.Name]; shadows {
				return "", fmt.Errorf("range variable shadows %s", id.Name)
			}
			elem = id.Name
			env.locals[id.Name] = c18_rval{id.Name, strings.TrimPrefix(src.kind, "list:")}
		}
	}
	if id, ok := s.Key.(*ast.Ident); ok && id.Name != "_" {
		// L[i] with the loop's own index (L is not assigned in the loop: checked by the kinds of assignments the fragment has)
		env.elems = map[string]c18_rval{}
		for k, v := range e.elems {
			env.elems[k] = v
		}
		env.elems[c18_squash(types.ExprString(s.X)+"["+id.Name+"]")] = c18_rval{elem, strings.TrimPrefix(src.kind, "list:")}
	}
	next := loop + " (S " + idx + ") rest_" + loop
	env.loops = append(append([]string{}, e.loops...), next)
	body, err := env.stmts(s.Body.List, next)
	if err != nil {
		return "", err
	}
	return "(fix " + loop + " (" + idx + " : nat) (items_" + loop + " : list " + strings.TrimPrefix(src.kind, "list:") + ") {struct items_" + loop + "} : " + e.retType + " :=\n" +
		"  match items_" + loop + " with\n  | [] => " + ka + "\n  | " + elem + " :: rest_" + loop + " =>\n" + body + "\n  end) 0%nat " + src.text, nil
}

// ---------------------------------------------------------------------------------------------
// the functions of react.go

// which local of NewAgent plays which part: the state pre-handler handed to AddChatModelNode / AddToolsNode, the
// condition of the branch added with a named function (the one behind the model).  role -> identifier
func c18_roleNames(newAgent *ast.FuncDecl) map[string]string {
	roles := map[string]string{"modelPreHandle": "modelPreHandle", "toolsNodePreHandle": "toolsNodePreHandle", "modelPostBranchCondition": "modelPostBranchCondition"}
	pre := func(c *ast.CallExpr) string {
		for _, o := range c.Args {
			if oc, ok := o.(*ast.CallExpr); ok && types.ExprString(oc.Fun) == "compose.WithStatePreHandler" && len(oc.Args) == 1 {
				if id, ok := oc.Args[0].(*ast.Ident); ok {
					return id.Name
				}
			}
		}
		return ""
	}
	ast.Inspect(newAgent.Body, func(n ast.Node) bool {
		c, ok := n.(*ast.CallExpr)
		if !ok {
			return true
		}
		sel, ok := c.Fun.(*ast.SelectorExpr)
		if !ok {
			return true
		}
		switch sel.Sel.Name {
		case "AddChatModelNode":
			if p := pre(c); p != "" {
				roles["modelPreHandle"] = p
			}
		case "AddToolsNode":
			if p := pre(c); p != "" {
				roles["toolsNodePreHandle"] = p
			}
		case "AddBranch":
			if len(c.Args) == 2 {
				if nb, ok := c.Args[1].(*ast.CallExpr); ok && types.ExprString(nb.Fun) == "compose.NewStreamGraphBranch" && len(nb.Args) == 2 {
					if id, ok := nb.Args[0].(*ast.Ident); ok {
						roles["modelPostBranchCondition"] = id.Name
					}
				}
			}
		}
		return true
	})
	return roles
}

// the FuncLit assigned to `name := func…` in a function body
func c18_assignedFuncLit(body *ast.BlockStmt, name string) *ast.FuncLit {
	var found *ast.FuncLit
	ast.Inspect(body, func(n ast.Node) bool {
		as, ok := n.(*ast.AssignStmt)
		if ok && len(as.Lhs) == 1 && len(as.Rhs) == 1 && c18_isIdent(as.Lhs[0], name) {
			if fl, ok := as.Rhs[0].(*ast.FuncLit); ok && found == nil {
				found = fl
			}
		}
		return true
	})
	return found
}

// parameter names with their types, in order
func c18_paramList(ft *ast.FuncType) []string {
	var out []string
	if ft.Params == nil {
		return out
	}
	for _, f := range ft.Params.List {
		t := types.ExprString(f.Type)
		if len(f.Names) == 0 {
			out = append(out, "_ "+t)
		}
		for _, n := range f.Names {
			out = append(out, n.Name+" "+t)
		}
	}
	return out
}

func c18_resultList(ft *ast.FuncType) string {
	var out []string
	if ft.Results != nil {
		for _, f := range ft.Results.List {
			n := len(f.Names)
			if n == 0 {
				n = 1
			}
			for i := 0; i < n; i++ {
				out = append(out, types.ExprString(f.Type))
			}
		}
	}
	return strings.Join(out, ",")
}

// checks a signature against the expected parameter TYPES and returns the parameter names
func c18_paramNames(ft *ast.FuncType, what string, wantTypes []string, wantResults string) ([]string, error) {
	ps := c18_paramList(ft)
	if len(ps) != len(wantTypes) {
		return nil, fmt.Errorf("%s has %d parameters, expected %d", what, len(ps), len(wantTypes))
	}
	var names []string
	for i, p := range ps {
		sp := strings.SplitN(p, " ", 2)
		if sp[1] != wantTypes[i] {
			return nil, fmt.Errorf("%s: parameter %d has type %s, expected %s", what, i, sp[1], wantTypes[i])
		}
		names = append(names, sp[0])
	}
	if r := c18_resultList(ft); r != wantResults {
		return nil, fmt.Errorf("%s returns (%s), expected (%s)", what, r, wantResults)
	}
	return names, nil
}

func c18_stringConsts(f *ast.File) map[string]string {
	out := map[string]string{}
	for _, d := range f.Decls {
		gd, ok := d.(*ast.GenDecl)
		if !ok || gd.Tok != token.CONST {
			continue
		}
		for _, sp := range gd.Specs {
			vs := sp.(*ast.ValueSpec)
			for i, n := range vs.Names {
				if i < len(vs.Values) {
					if bl, ok := vs.Values[i].(*ast.BasicLit); ok && bl.Kind == token.STRING {
						if s, err := strconv.Unquote(bl.Value); err == nil {
							out[n.Name] = s
						}
					}
				}
			}
		}
	}
	return out
}

// `name := "literal"` at the top level of a function body: local node keys
func c18_localKeys(body *ast.BlockStmt, into map[string]c18_rval) {
	for _, s := range body.List {
		if as, ok := s.(*ast.AssignStmt); ok && as.Tok == token.DEFINE && len(as.Lhs) == 1 && len(as.Rhs) == 1 {
			if bl, ok := as.Rhs[0].(*ast.BasicLit); ok && bl.Kind == token.STRING {
				if id, ok := as.Lhs[0].(*ast.Ident); ok {
					if str, err := strconv.Unquote(bl.Value); err == nil {
						into[id.Name] = c18_rval{"(GKey " + c18_coqStr(str) + ")", "key"}
					}
				}
			}
		}
	}
}

func c18_extractReact(repo string) (string, string, error) {
	fset := token.NewFileSet()
	f, err := c18_parseGo(fset, repo, "flow", "agent", "react", "react.go")
	if err != nil {
		return "", "", err
	}
	c18_normaliseReact(f) // switch -> if chains, small private helpers inlined (c18_react_norm.go)
	consts := c18_stringConsts(f)
	var b strings.Builder
	b.WriteString("(* Gen/ReactCode.v — GENERATED by tools/go2v (extractor \"react\") from flow/agent/react/react.go,\n")
	b.WriteString("   translated statement by statement. Do not edit. *)\n")
	b.WriteString(c18_reactHeader)

	newAgent := c18_topFunc(f, "NewAgent")
	buildRD := c18_topFunc(f, "buildReturnDirectly")
	if newAgent == nil || newAgent.Body == nil || buildRD == nil || buildRD.Body == nil {
		return "", "", fmt.Errorf("NewAgent / buildReturnDirectly not found")
	}

	roles := c18_roleNames(newAgent)
	type part struct {
		name string
		gen  func() (string, error)
	}
	parts := []part{
		{"firstChunkStreamToolCallChecker", func() (string, error) { return c18_reactChecker(f, consts) }},
		{"getReturnDirectlyToolCallIndex", func() (string, error) { return c18_reactRdIndex(f, consts) }},
		{"modelPreHandle", func() (string, error) { return c18_reactModelPre(newAgent, consts, roles["modelPreHandle"]) }},
		{"toolsNodePreHandle", func() (string, error) { return c18_reactToolsPre(newAgent, consts, roles["toolsNodePreHandle"]) }},
		{"modelPreHandle on the heap", func() (string, error) {
			return c18_heapPre(newAgent, roles["modelPreHandle"], "model_pre_handle_heap", true)
		}},
		{"toolsNodePreHandle on the heap", func() (string, error) {
			return c18_heapPre(newAgent, roles["toolsNodePreHandle"], "tools_pre_handle_heap", false)
		}},
		{"modelPostBranchCondition", func() (string, error) {
			return c18_reactModelBranch(newAgent, consts, roles["modelPostBranchCondition"])
		}},
		{"the return-directly branch", func() (string, error) { return c18_reactToolsBranch(buildRD, consts) }},
		{"directReturn", func() (string, error) { return c18_reactDirectConvert(buildRD, consts) }},
		{"the graph construction", func() (string, error) { return c18_reactGraphItems(f, newAgent, buildRD, consts, roles) }},
		{"the compile options", func() (string, error) { return c18_reactCompile(newAgent) }},
		{"Generate / Stream", func() (string, error) { return c18_reactEntries(f) }},
		{"agent.ChatModelWithTools", func() (string, error) { return c18_chatModelWithTools(repo) }},
	}
	for _, p := range parts {
		s, err := p.gen()
		if err != nil {
			return "", "", fmt.Errorf("%s: %v", p.name, err)
		}
		b.WriteString(s)
		b.WriteString("\n")
	}
	return "ReactCode.v", b.String(), nil
}

func c18_boolLit(e ast.Expr) (string, bool) {
	id, ok := e.(*ast.Ident)
	if ok && (id.Name == "true" || id.Name == "false") {
		return id.Name, true
	}
	return "", false
}

// firstChunkStreamToolCallChecker(_ context.Context, sr *schema.StreamReader[*schema.Message]) (bool, error)
func c18_reactChecker(f *ast.File, consts map[string]string) (string, error) {
	fn := c18_topFunc(f, "firstChunkStreamToolCallChecker")
	if fn == nil || fn.Body == nil {
		return "", fmt.Errorf("not found")
	}
	names, err := c18_paramNames(fn.Type, "firstChunkStreamToolCallChecker", []string{"context.Context", "*schema.StreamReader[*schema.Message]"}, "bool,error")
	if err != nil {
		return "", err
	}
	env := &c18_rEnv{locals: map[string]c18_rval{names[1]: {names[1], "list:chunk"}}, consts: consts, retType: "bool"}
	env.ret = func(e *c18_rEnv, rs []ast.Expr) (string, error) {
		if len(rs) != 2 || !c18_isIdent(rs[1], "nil") {
			return "", fmt.Errorf("return outside the translated fragment")
		}
		v, err := e.expr(rs[0])
		if err != nil || v.kind != "bool" {
			return "", fmt.Errorf("first result is not a bool: %v", err)
		}
		return v.text, nil
	}
	body, err := env.stmts(fn.Body.List, "")
	if err != nil {
		return "", err
	}
	return "(* func firstChunkStreamToolCallChecker *)\nDefinition first_chunk_checker (unk : string -> string) (" + names[1] + " : list chunk) : bool :=\n" + body + ".\n", nil
}

func c18_rdIndexRet(e *c18_rEnv, rs []ast.Expr) (string, error) {
	if len(rs) != 2 {
		return "", fmt.Errorf("return outside the translated fragment")
	}
	a, err := e.expr(rs[0])
	if err != nil {
		return "", err
	}
	c, err := e.expr(rs[1])
	if err != nil {
		return "", err
	}
	if a.kind != "int" || c.kind != "bool" {
		return "", fmt.Errorf("return of (%s, %s)", a.kind, c.kind)
	}
	return "(" + a.text + ", " + c.text + ")", nil
}

// getReturnDirectlyToolCallIndex(input *schema.Message, toolReturnDirectly map[string]struct{}) (int, bool)
func c18_reactRdIndex(f *ast.File, consts map[string]string) (string, error) {
	fn := c18_topFunc(f, "getReturnDirectlyToolCallIndex")
	if fn == nil || fn.Body == nil {
		return "", fmt.Errorf("not found")
	}
	names, err := c18_paramNames(fn.Type, "getReturnDirectlyToolCallIndex", []string{"*schema.Message", "map[string]struct{}"}, "int,bool")
	if err != nil {
		return "", err
	}
	env := &c18_rEnv{locals: map[string]c18_rval{names[0]: {names[0], "msg"}, names[1]: {names[1], "set"}}, consts: consts, retType: "nat * bool", ret: c18_rdIndexRet}
	body, err := env.stmts(fn.Body.List, "")
	if err != nil {
		return "", err
	}
	return "(* func getReturnDirectlyToolCallIndex *)\nDefinition rd_tool_call_index (unk : string -> string) (" + names[0] + " : msg) (" + names[1] + "_len : nat) (" + names[1] + "_has : string -> bool) : nat * bool :=\n" + body + ".\n", nil
}

// returns of a state pre-handler: (value, nil) -> (Ok value, state)
func c18_preHandleRet(kind string, withAlias bool) func(e *c18_rEnv, rs []ast.Expr) (string, error) {
	fl := func(v c18_rval) string {
		if !withAlias {
			return ""
		}
		if c18_alias(v) {
			return ", true"
		}
		return ", false"
	}
	return func(e *c18_rEnv, rs []ast.Expr) (string, error) {
		if len(rs) != 2 || !c18_isIdent(rs[1], "nil") {
			return "", fmt.Errorf("return outside the translated fragment")
		}
		v, err := e.expr(rs[0])
		if err != nil {
			return "", err
		}
		switch v.kind {
		case kind:
			return "(Ok " + v.text + ", state" + fl(v) + ")", nil
		case "res:" + kind:
			return "(" + v.text + ", state" + fl(v) + ")", nil
		}
		return "", fmt.Errorf("return of a %s", v.kind)
	}
}

// modelPreHandle := func(ctx context.Context, input []*schema.Message, state *state) ([]*schema.Message, error)
func c18_reactModelPre(newAgent *ast.FuncDecl, consts map[string]string, goName string) (string, error) {
	fl := c18_assignedFuncLit(newAgent.Body, goName)
	if fl == nil {
		return "", fmt.Errorf("not found")
	}
	names, err := c18_paramNames(fl.Type, "modelPreHandle", []string{"context.Context", "[]*schema.Message", "*state"}, "[]*schema.Message,error")
	if err != nil {
		return "", err
	}
	if names[1] == "state" || names[1] == "messageModifier" {
		return "", fmt.Errorf("the input parameter is called %s", names[1])
	}
	env := &c18_rEnv{locals: map[string]c18_rval{names[1]: {names[1], "list:msg"}, "state": {"state", "state"}, names[2]: {"state", "state"}, "messageModifier": {"messageModifier", "optfn"},
		"config.MessageModifier": {"messageModifier", "optfn"}},
		consts: consts, retType: "res (list msg) * gstate * bool", ret: c18_preHandleRet("list:msg", true)}
	callModifier := func(e *c18_rEnv, args []ast.Expr) (c18_rval, error) {
		if len(args) != 2 {
			return c18_rval{}, fmt.Errorf("messageModifier called with %d arguments", len(args))
		}
		a, err := e.expr(args[1])
		if err != nil || a.kind != "list:msg" {
			return c18_rval{}, fmt.Errorf("messageModifier called on a %s: %v", a.kind, err)
		}
		return c18_mark(c18_rval{"(gl_call_fn messageModifier " + a.text + ")", "res:list:msg"}, c18_alias(a)), nil
	}
	env.calls = map[string]func(e *c18_rEnv, args []ast.Expr) (c18_rval, error){"messageModifier": callModifier, "config.MessageModifier": callModifier}
	body, err := env.stmts(fl.Body.List, "")
	if err != nil {
		return "", err
	}
	return "(* NewAgent: modelPreHandle *)\nDefinition model_pre_handle (unk : string -> string) (messageModifier : option (list msg -> list msg)) (" + names[1] + " : list msg) (state : gstate) : res (list msg) * gstate * bool :=\n" + body + ".\n", nil
}

// toolsNodePreHandle := func(ctx context.Context, input *schema.Message, state *state) (*schema.Message, error)
func c18_reactToolsPre(newAgent *ast.FuncDecl, consts map[string]string, goName string) (string, error) {
	fl := c18_assignedFuncLit(newAgent.Body, goName)
	if fl == nil {
		return "", fmt.Errorf("not found")
	}
	names, err := c18_paramNames(fl.Type, "toolsNodePreHandle", []string{"context.Context", "*schema.Message", "*state"}, "*schema.Message,error")
	if err != nil {
		return "", err
	}
	if names[1] == "state" {
		return "", fmt.Errorf("the input parameter is called %s", names[1])
	}
	env := &c18_rEnv{locals: map[string]c18_rval{names[1]: {names[1], "msg"}, "state": {"state", "state"}, names[2]: {"state", "state"}, "config.ToolReturnDirectly": {"rd", "set"}},
		consts: consts, retType: "res msg * gstate", ret: c18_preHandleRet("msg", false)}
	env.calls = map[string]func(e *c18_rEnv, args []ast.Expr) (c18_rval, error){
		"getReturnDirectlyToolCallIndex": func(e *c18_rEnv, args []ast.Expr) (c18_rval, error) {
			if len(args) != 2 {
				return c18_rval{}, fmt.Errorf("getReturnDirectlyToolCallIndex called with %d arguments", len(args))
			}
			a, err := e.expr(args[0])
			if err != nil {
				return c18_rval{}, err
			}
			m, err := e.expr(args[1])
			if err != nil {
				return c18_rval{}, err
			}
			if a.kind != "msg" || m.kind != "set" {
				return c18_rval{}, fmt.Errorf("getReturnDirectlyToolCallIndex called on (%s, %s)", a.kind, m.kind)
			}
			return c18_rval{"(rd_tool_call_index unk " + a.text + " " + m.text + "_len " + m.text + "_has)", "tuple:int,bool"}, nil
		},
	}
	body, err := env.stmts(fl.Body.List, "")
	if err != nil {
		return "", err
	}
	return "(* NewAgent: toolsNodePreHandle *)\nDefinition tools_pre_handle (unk : string -> string) (rd_len : nat) (rd_has : string -> bool) (" + names[1] + " : msg) (state : gstate) : res msg * gstate :=\n" + body + ".\n", nil
}

func c18_keyRet(withState bool) func(e *c18_rEnv, rs []ast.Expr) (string, error) {
	return func(e *c18_rEnv, rs []ast.Expr) (string, error) {
		if len(rs) != 2 || !c18_isIdent(rs[1], "nil") {
			return "", fmt.Errorf("return outside the translated fragment")
		}
		v, err := e.expr(rs[0])
		if err != nil {
			return "", err
		}
		if v.kind != "key" {
			return "", fmt.Errorf("return of a %s", v.kind)
		}
		if withState {
			return "(" + v.text + ", state)", nil
		}
		return v.text, nil
	}
}

// modelPostBranchCondition := func(ctx context.Context, sr *schema.StreamReader[*schema.Message]) (endNode string, err error)
func c18_reactModelBranch(newAgent *ast.FuncDecl, consts map[string]string, goName string) (string, error) {
	fl := c18_assignedFuncLit(newAgent.Body, goName)
	if fl == nil {
		return "", fmt.Errorf("not found")
	}
	names, err := c18_paramNames(fl.Type, "modelPostBranchCondition", []string{"context.Context", "*schema.StreamReader[*schema.Message]"}, "string,error")
	if err != nil {
		return "", err
	}
	env := &c18_rEnv{locals: map[string]c18_rval{names[1]: {names[1], "list:chunk"}}, consts: consts, retType: "gkey", ret: c18_keyRet(false)}
	env.calls = map[string]func(e *c18_rEnv, args []ast.Expr) (c18_rval, error){
		"toolCallChecker": func(e *c18_rEnv, args []ast.Expr) (c18_rval, error) {
			if len(args) != 2 {
				return c18_rval{}, fmt.Errorf("toolCallChecker called with %d arguments", len(args))
			}
			a, err := e.expr(args[1])
			if err != nil || a.kind != "list:chunk" {
				return c18_rval{}, fmt.Errorf("toolCallChecker called on a %s: %v", a.kind, err)
			}
			return c18_rval{"(toolCallChecker " + a.text + ")", "bool"}, nil
		},
	}
	body, err := env.stmts(fl.Body.List, "")
	if err != nil {
		return "", err
	}
	return "(* NewAgent: modelPostBranchCondition *)\nDefinition model_post_branch (unk : string -> string) (toolCallChecker : list chunk -> bool) (" + names[1] + " : list chunk) : gkey :=\n" + body + ".\n", nil
}

// graph.AddBranch(k, compose.NewStreamGraphBranch(cond, ends)) calls of a body, in order
type c18_branchCall struct {
	from ast.Expr
	cond ast.Expr
	ends *ast.CompositeLit
}

func c18_branchCalls(body *ast.BlockStmt) []c18_branchCall {
	var out []c18_branchCall
	ast.Inspect(body, func(n ast.Node) bool {
		c, ok := n.(*ast.CallExpr)
		if !ok || len(c.Args) != 2 {
			return true
		}
		if sel, ok := c.Fun.(*ast.SelectorExpr); !ok || sel.Sel.Name != "AddBranch" {
			return true
		}
		nb, ok := c.Args[1].(*ast.CallExpr)
		if !ok || types.ExprString(nb.Fun) != "compose.NewStreamGraphBranch" || len(nb.Args) != 2 {
			return true
		}
		cl, _ := nb.Args[1].(*ast.CompositeLit)
		out = append(out, c18_branchCall{c.Args[0], nb.Args[0], cl})
		return true
	})
	return out
}

// the branch after the tools node: func(ctx context.Context, msgsStream *schema.StreamReader[[]*schema.Message]) (endNode string, err error)
func c18_reactToolsBranch(buildRD *ast.FuncDecl, consts map[string]string) (string, error) {
	bcs := c18_branchCalls(buildRD.Body)
	if len(bcs) != 1 {
		return "", fmt.Errorf("%d AddBranch calls in buildReturnDirectly", len(bcs))
	}
	fl, ok := bcs[0].cond.(*ast.FuncLit)
	if id, isId := bcs[0].cond.(*ast.Ident); isId && !ok {
		fl = c18_assignedFuncLit(buildRD.Body, id.Name) // cond := func(…) {…} first, handed on by name
		ok = fl != nil
	}
	if !ok {
		return "", fmt.Errorf("the condition is not a function literal")
	}
	if _, err := c18_paramNames(fl.Type, "the return-directly branch", []string{"context.Context", "*schema.StreamReader[[]*schema.Message]"}, "string,error"); err != nil {
		return "", err
	}
	if fl.Type.Results == nil || len(fl.Type.Results.List) != 2 {
		return "", fmt.Errorf("not two results")
	}
	named := len(fl.Type.Results.List[0].Names) == 1 && len(fl.Type.Results.List[1].Names) == 1
	if !named && (len(fl.Type.Results.List[0].Names) != 0 || len(fl.Type.Results.List[1].Names) != 0) {
		return "", fmt.Errorf("results are partly named")
	}
	env := &c18_rEnv{locals: map[string]c18_rval{"state": {"state", "state"}}, consts: consts, retType: "gkey * gstate", ret: c18_keyRet(true)}
	intro := ""
	if named {
		rn, en := fl.Type.Results.List[0].Names[0].Name, fl.Type.Results.List[1].Names[0].Name
		env.locals[rn], env.locals[en] = c18_rval{rn, "key"}, c18_rval{en, "err"}
		intro = "let " + rn + " := GKey \"\" in\n" // the named result starts as the empty key
	}
	c18_localKeys(buildRD.Body, env.locals)
	body, err := env.stmts(fl.Body.List, "")
	if err != nil {
		return "", err
	}
	return "(* buildReturnDirectly: the branch after the tools node (the named result starts as the empty key) *)\n" +
		"Definition tools_post_branch (unk : string -> string) (state : gstate) : gkey * gstate :=\n" + intro + body + ".\n", nil
}

// directReturn: the function handed to schema.StreamReaderWithConvert: func(msgs []*schema.Message) (*schema.Message, error)
func c18_reactDirectConvert(buildRD *ast.FuncDecl, consts map[string]string) (string, error) {
	outer := c18_assignedFuncLit(buildRD.Body, "directReturn")
	if outer == nil {
		return "", fmt.Errorf("not found")
	}
	if len(outer.Body.List) < 1 || len(outer.Body.List) > 2 {
		return "", fmt.Errorf("directReturn has %d statements", len(outer.Body.List))
	}
	r, ok := outer.Body.List[len(outer.Body.List)-1].(*ast.ReturnStmt)
	if !ok || len(r.Results) != 2 || !c18_isIdent(r.Results[1], "nil") {
		return "", fmt.Errorf("directReturn does not return a converted stream")
	}
	call, ok := r.Results[0].(*ast.CallExpr)
	if !ok || types.ExprString(call.Fun) != "schema.StreamReaderWithConvert" || len(call.Args) != 2 {
		return "", fmt.Errorf("directReturn does not return schema.StreamReaderWithConvert(…)")
	}
	ops := c18_paramList(outer.Type)
	if len(ops) != 2 || !strings.HasSuffix(ops[1], " *schema.StreamReader[[]*schema.Message]") || !c18_isIdent(call.Args[0], strings.SplitN(ops[1], " ", 2)[0]) {
		return "", fmt.Errorf("the converted stream is not directReturn's input")
	}
	fl, ok := call.Args[1].(*ast.FuncLit)
	if id, isId := call.Args[1].(*ast.Ident); isId && !ok && len(outer.Body.List) == 2 {
		// conv := func(…) {…}; return schema.StreamReaderWithConvert(msgs, conv), nil
		if as, isAs := outer.Body.List[0].(*ast.AssignStmt); isAs && as.Tok == token.DEFINE && len(as.Lhs) == 1 && len(as.Rhs) == 1 && c18_isIdent(as.Lhs[0], id.Name) {
			fl, ok = as.Rhs[0].(*ast.FuncLit)
		}
	} else if len(outer.Body.List) != 1 {
		ok = false
	}
	if !ok {
		return "", fmt.Errorf("the converter is not a function literal")
	}
	names, err := c18_paramNames(fl.Type, "the converter", []string{"[]*schema.Message"}, "*schema.Message,error")
	if err != nil {
		return "", err
	}
	env := &c18_rEnv{locals: map[string]c18_rval{names[0]: {names[0], "list:slot"}, "state": {"state", "state"}}, consts: consts, retType: "gconv * gstate"}
	env.ret = func(e *c18_rEnv, rs []ast.Expr) (string, error) {
		if rs == nil {
			return "(GPanic, state)", nil
		}
		if len(rs) != 2 {
			return "", fmt.Errorf("return outside the translated fragment")
		}
		if c18_isIdent(rs[0], "nil") && types.ExprString(rs[1]) == "schema.ErrNoValue" {
			return "(GNoValue, state)", nil
		}
		if c18_isIdent(rs[1], "nil") {
			v, err := e.expr(rs[0])
			if err != nil {
				return "", err
			}
			if v.kind != "slot" {
				return "", fmt.Errorf("return of a %s", v.kind)
			}
			return "(match " + v.text + " with Some m => GVal m | None => GNoValue end, state)", nil
		}
		return "", fmt.Errorf("return outside the translated fragment")
	}
	body, err := env.stmts(fl.Body.List, "")
	if err != nil {
		return "", err
	}
	// `return msg, nil` with msg == nil would hand a nil message on; the source tests msg == nil first, so
	// the None arm of that match is dead there - a source without the test makes the agreement fail on it.
	body = strings.ReplaceAll(body, "| None => GNoValue end, state)", "| None => GPanic end, state)")
	return "(* buildReturnDirectly: directReturn's converter, applied to every frame of the tools node's stream *)\n" +
		"Definition direct_return_convert (unk : string -> string) (" + names[0] + " : list (option tmsg)) (state : gstate) : gconv * gstate :=\n" + body + ".\n", nil
}

// ---- the graph construction -------------------------------------------------------------------

var c18_addNodeComponent = map[string]string{"AddChatModelNode": "ChatModel", "AddToolsNode": "Tools", "AddLambdaNode": "Lambda"}

type c18_graphWalker struct {
	consts map[string]string
	file   *ast.File
	roles  map[string]string
	env    *c18_rEnv
	depth  int
	cur    *ast.FuncDecl // the function being walked
	graph  string        // what the function being walked calls the graph
}

func (g *c18_graphWalker) canon(id string) string {
	for role, name := range g.roles {
		if name == id {
			return role
		}
	}
	if _, isRole := g.roles[id]; isRole {
		return id + "(not in that part)" // a canonical name used for something else
	}
	return id
}

func (g *c18_graphWalker) key(e ast.Expr) (string, error) {
	v, err := g.env.expr(e)
	if err != nil {
		return "", err
	}
	if v.kind != "key" {
		return "", fmt.Errorf("node key of kind %s", v.kind)
	}
	return v.text, nil
}

// one graph.X(…) call -> items
func (g *c18_graphWalker) call(c *ast.CallExpr) ([]string, bool, error) {
	handsGraph := -1
	for i, a := range c.Args {
		if c18_isIdent(a, g.graph) {
			handsGraph = i
		}
	}
	if id, ok := c.Fun.(*ast.Ident); ok && handsGraph >= 0 {
		// a function of the file that is handed the graph (buildReturnDirectly, or a helper split off NewAgent):
		// its graph calls happen here
		callee := c18_topFunc(g.file, id.Name)
		if callee == nil || callee.Body == nil || len(c.Args) != 1 {
			return nil, true, fmt.Errorf("the graph is handed to %s", id.Name)
		}
		ps := c18_paramList(callee.Type)
		if len(ps) != 1 || strings.HasPrefix(ps[0], "_ ") {
			return nil, true, fmt.Errorf("the graph is handed to %s", id.Name)
		}
		if g.depth > 3 {
			return nil, true, fmt.Errorf("%s is recursive", id.Name)
		}
		g.depth++
		old, oldName, oldCur := g.env, g.graph, g.cur
		g.env = &c18_rEnv{locals: map[string]c18_rval{}, consts: g.consts}
		g.graph = strings.SplitN(ps[0], " ", 2)[0]
		g.cur = callee
		items, err := g.block(callee.Body.List)
		g.env, g.graph, g.cur = old, oldName, oldCur
		g.depth--
		return items, true, err
	}
	sel, ok := c.Fun.(*ast.SelectorExpr)
	if !ok || !c18_isIdent(sel.X, g.graph) {
		if handsGraph >= 0 {
			return nil, true, fmt.Errorf("the graph is handed to %s", types.ExprString(c.Fun))
		}
		return nil, false, nil
	}
	switch sel.Sel.Name {
	case "AddEdge":
		if len(c.Args) != 2 {
			return nil, true, fmt.Errorf("AddEdge with %d arguments", len(c.Args))
		}
		a, err := g.key(c.Args[0])
		if err != nil {
			return nil, true, err
		}
		b, err := g.key(c.Args[1])
		if err != nil {
			return nil, true, err
		}
		return []string{"GEdge " + a + " " + b}, true, nil
	case "AddBranch":
		if len(c.Args) != 2 {
			return nil, true, fmt.Errorf("AddBranch with %d arguments", len(c.Args))
		}
		a, err := g.key(c.Args[0])
		if err != nil {
			return nil, true, err
		}
		nb, ok := c.Args[1].(*ast.CallExpr)
		if !ok || types.ExprString(nb.Fun) != "compose.NewStreamGraphBranch" || len(nb.Args) != 2 {
			return nil, true, fmt.Errorf("AddBranch without compose.NewStreamGraphBranch")
		}
		cl, ok := nb.Args[1].(*ast.CompositeLit)
		if !ok || types.ExprString(cl.Type) != "map[string]bool" {
			return nil, true, fmt.Errorf("the end nodes are not a map[string]bool literal")
		}
		var ends []string
		for _, el := range cl.Elts {
			kv, ok := el.(*ast.KeyValueExpr)
			if !ok || !c18_isIdent(kv.Value, "true") {
				return nil, true, fmt.Errorf("end-node map entry outside the translated fragment")
			}
			k, err := g.key(kv.Key)
			if err != nil {
				return nil, true, err
			}
			ends = append(ends, k)
		}
		var decide string
		switch cnd := nb.Args[0].(type) {
		case *ast.Ident:
			switch {
			case g.canon(cnd.Name) == "modelPostBranchCondition" && g.depth == 0:
				decide = "(fun b => model_post_branch unk (fun _ => b) [])"
			case g.depth > 0 && g.cur != nil && g.cur.Name.Name == "buildReturnDirectly" && c18_assignedFuncLit(g.cur.Body, cnd.Name) != nil:
				decide = "(fun b => fst (tools_post_branch unk (mkG [] b 0%nat)))" // the closure c18_reactToolsBranch translates
			default:
				return nil, true, fmt.Errorf("branch condition %s", cnd.Name)
			}
		case *ast.FuncLit:
			if g.cur == nil || g.cur.Name.Name != "buildReturnDirectly" {
				return nil, true, fmt.Errorf("a branch condition literal outside buildReturnDirectly")
			}
			decide = "(fun b => fst (tools_post_branch unk (mkG [] b 0%nat)))"
		default:
			return nil, true, fmt.Errorf("branch condition outside the translated fragment")
		}
		return []string{"GBranch " + a + " [" + strings.Join(ends, "; ") + "] " + decide}, true, nil
	}
	if comp, ok := c18_addNodeComponent[sel.Sel.Name]; ok {
		if len(c.Args) < 2 {
			return nil, true, fmt.Errorf("%s with %d arguments", sel.Sel.Name, len(c.Args))
		}
		k, err := g.key(c.Args[0])
		if err != nil {
			return nil, true, err
		}
		pre := ""
		for _, o := range c.Args[2:] {
			oc, ok := o.(*ast.CallExpr)
			if !ok {
				return nil, true, fmt.Errorf("node option outside the translated fragment")
			}
			switch types.ExprString(oc.Fun) {
			case "compose.WithStatePreHandler":
				id, ok := oc.Args[0].(*ast.Ident)
				if !ok || len(oc.Args) != 1 {
					return nil, true, fmt.Errorf("WithStatePreHandler of something other than a variable")
				}
				pre = g.canon(id.Name)
			case "compose.WithNodeName":
			default:
				return nil, true, fmt.Errorf("node option %s", types.ExprString(oc.Fun))
			}
		}
		return []string{"GNode " + k + " " + c18_coqStr(comp) + " " + c18_coqStr(pre)}, true, nil
	}
	if strings.HasPrefix(sel.Sel.Name, "Add") {
		return nil, true, fmt.Errorf("graph.%s", sel.Sel.Name)
	}
	return nil, false, nil
}

// the call inside `if err = CALL; err != nil {…}`, `err = CALL`, `return CALL`
func (g *c18_graphWalker) stmtCall(s ast.Stmt) *ast.CallExpr {
	switch x := s.(type) {
	case *ast.AssignStmt:
		if len(x.Rhs) == 1 && len(x.Lhs) == 1 && c18_isIdent(x.Lhs[0], "err") {
			c, _ := x.Rhs[0].(*ast.CallExpr)
			return c
		}
	case *ast.ReturnStmt:
		if len(x.Results) == 1 {
			c, _ := x.Results[0].(*ast.CallExpr)
			return c
		}
	case *ast.ExprStmt:
		c, _ := x.X.(*ast.CallExpr)
		return c
	}
	return nil
}

func c18_joinItems(items []string) string {
	if len(items) == 0 {
		return "[]"
	}
	return "[" + strings.Join(items, ";\n   ") + "]"
}

// statements of NewAgent / buildReturnDirectly -> a Gallina list expression (pieces joined by ++)
func (g *c18_graphWalker) block(l []ast.Stmt) ([]string, error) {
	var pieces []string // each a Gallina list expression
	var cur []string
	flush := func() {
		if len(cur) > 0 {
			pieces = append(pieces, c18_joinItems(cur))
			cur = nil
		}
	}
	for _, s := range l {
		// nodeKeyDirectReturn := "direct_return"
		if as, ok := s.(*ast.AssignStmt); ok && as.Tok == token.DEFINE && len(as.Lhs) == 1 && len(as.Rhs) == 1 {
			if bl, ok := as.Rhs[0].(*ast.BasicLit); ok && bl.Kind == token.STRING {
				if id, ok := as.Lhs[0].(*ast.Ident); ok {
					if str, err := strconv.Unquote(bl.Value); err == nil {
						g.env.locals[id.Name] = c18_rval{"(GKey " + c18_coqStr(str) + ")", "key"}
						continue
					}
				}
			}
		}
		if ifs, ok := s.(*ast.IfStmt); ok {
			if ifs.Init != nil {
				if c := g.stmtCall(ifs.Init); c != nil {
					items, is, err := g.call(c)
					if err != nil {
						return nil, err
					}
					if is {
						if ifs.Else != nil {
							return nil, fmt.Errorf("a graph call with an else part")
						}
						if len(items) == 1 && strings.HasPrefix(items[0], "G") {
							cur = append(cur, items...)
						} else {
							flush()
							pieces = append(pieces, items...)
						}
						continue
					}
				}
				continue
			}
			// if len(config.ToolReturnDirectly) > 0 { … } else if err = graph.AddEdge(…); err != nil { … }
			var hasGraph bool
			ast.Inspect(ifs, func(n ast.Node) bool {
				if c, ok := n.(*ast.CallExpr); ok {
					if sel, ok := c.Fun.(*ast.SelectorExpr); ok && c18_isIdent(sel.X, g.graph) && strings.HasPrefix(sel.Sel.Name, "Add") {
						hasGraph = true
					}
					for _, a := range c.Args {
						if c18_isIdent(a, g.graph) {
							hasGraph = true
						}
					}
				}
				return true
			})
			if !hasGraph {
				continue
			}
			cond, err := g.env.expr(ifs.Cond)
			if err != nil {
				return nil, err
			}
			if cond.kind != "bool" {
				return nil, fmt.Errorf("condition of kind %s around graph calls", cond.kind)
			}
			th, err := g.block(ifs.Body.List)
			if err != nil {
				return nil, err
			}
			var el []string
			switch e := ifs.Else.(type) {
			case nil:
			case *ast.BlockStmt:
				el, err = g.block(e.List)
			case *ast.IfStmt:
				el, err = g.block([]ast.Stmt{e})
			}
			if err != nil {
				return nil, err
			}
			wrap := func(ps []string) string {
				if len(ps) == 0 {
					return "[]"
				}
				return strings.Join(ps, " ++ ")
			}
			flush()
			pieces = append(pieces, "(if "+cond.text+"\n    then "+wrap(th)+"\n    else "+wrap(el)+")")
			continue
		}
		if c := g.stmtCall(s); c != nil {
			items, is, err := g.call(c)
			if err != nil {
				return nil, err
			}
			if is {
				if len(items) == 1 && strings.HasPrefix(items[0], "G") {
					cur = append(cur, items...)
				} else {
					flush()
					pieces = append(pieces, items...)
				}
			}
		}
	}
	flush()
	return pieces, nil
}

func c18_reactGraphItems(f *ast.File, newAgent, buildRD *ast.FuncDecl, consts map[string]string, roles map[string]string) (string, error) {
	g := &c18_graphWalker{consts: consts, file: f, roles: roles, graph: "graph", cur: newAgent}
	// what NewAgent calls the graph: the variable assigned compose.NewGraph[…](…)
	ast.Inspect(newAgent.Body, func(n ast.Node) bool {
		if as, ok := n.(*ast.AssignStmt); ok && len(as.Lhs) == 1 && len(as.Rhs) == 1 {
			if c, ok := as.Rhs[0].(*ast.CallExpr); ok && strings.HasPrefix(c18_squash(types.ExprString(c.Fun)), "compose.NewGraph[") {
				if id, ok := as.Lhs[0].(*ast.Ident); ok {
					g.graph = id.Name
				}
			}
		}
		return true
	})
	g.env = &c18_rEnv{locals: map[string]c18_rval{"config.ToolReturnDirectly": {"rd", "set"}}, consts: consts}
	pieces, err := g.block(newAgent.Body.List)
	if err != nil {
		return "", err
	}
	if len(pieces) == 0 {
		return "", fmt.Errorf("no graph construction calls found")
	}
	return "(* NewAgent / buildReturnDirectly: the graph.Add… calls in the order they are executed *)\n" +
		"Definition graph_items (unk : string -> string) (rd_len : nat) : list gitem :=\n  " + strings.Join(pieces, "\n  ++ ") + ".\n", nil
}

// compileOpts := []compose.GraphCompileOption{compose.WithMaxRunSteps(config.MaxStep), compose.WithNodeTriggerMode(compose.AnyPredecessor), …}
// and the state generator's make([]*schema.Message, 0, config.MaxStep+1)
func c18_reactCompile(newAgent *ast.FuncDecl) (string, error) {
	env := &c18_rEnv{locals: map[string]c18_rval{"config.MaxStep": {"max_step", "int"}}}
	var maxSteps, mode, capE, lenE string
	var werr error
	// compose.WithGenLocalState(func(ctx context.Context) *state { return &state{Messages: X} }): is X built by
	// the generator itself (a make inside the closure), i.e. does every run get a backing array of its own?
	fresh := ""
	ast.Inspect(newAgent.Body, func(n ast.Node) bool {
		c, ok := n.(*ast.CallExpr)
		if !ok || types.ExprString(c.Fun) != "compose.WithGenLocalState" || len(c.Args) != 1 {
			return true
		}
		fl, ok := c.Args[0].(*ast.FuncLit)
		if !ok || len(fl.Body.List) < 1 {
			werr = fmt.Errorf("the state generator is not a single return")
			return true
		}
		// locals of the generator that are a make(…) of their own: `buf := make(…)` before the return
		madeHere := map[string]bool{}
		for _, st := range fl.Body.List[:len(fl.Body.List)-1] {
			as, ok := st.(*ast.AssignStmt)
			if ok && as.Tok == token.DEFINE && len(as.Lhs) == 1 && len(as.Rhs) == 1 {
				if mk, ok := as.Rhs[0].(*ast.CallExpr); ok && c18_isIdent(mk.Fun, "make") {
					if id, ok := as.Lhs[0].(*ast.Ident); ok {
						madeHere[id.Name] = true
						continue
					}
				}
			}
			werr = fmt.Errorf("the state generator is not a single return")
			return true
		}
		r, ok := fl.Body.List[len(fl.Body.List)-1].(*ast.ReturnStmt)
		if !ok || len(r.Results) != 1 {
			werr = fmt.Errorf("the state generator is not a single return")
			return true
		}
		u, ok := r.Results[0].(*ast.UnaryExpr)
		var cl *ast.CompositeLit
		if ok && u.Op == token.AND {
			cl, _ = u.X.(*ast.CompositeLit)
		}
		if cl == nil || types.ExprString(cl.Type) != "state" {
			werr = fmt.Errorf("the state generator does not return &state{…}")
			return true
		}
		fresh = "true" // no Messages field: a nil slice, nothing shared
		for _, el := range cl.Elts {
			kv, ok := el.(*ast.KeyValueExpr)
			if !ok {
				werr = fmt.Errorf("the state literal has unkeyed fields")
				return true
			}
			if c18_isIdent(kv.Key, "Messages") {
				if mk, ok := kv.Value.(*ast.CallExpr); ok && c18_isIdent(mk.Fun, "make") {
					fresh = "true"
				} else if id, ok := kv.Value.(*ast.Ident); ok && madeHere[id.Name] {
					fresh = "true"
				} else {
					fresh = "false" // a slice of something that outlives the run
				}
			}
		}
		return true
	})
	ast.Inspect(newAgent.Body, func(n ast.Node) bool {
		c, ok := n.(*ast.CallExpr)
		if !ok {
			return true
		}
		switch types.ExprString(c.Fun) {
		case "compose.WithMaxRunSteps":
			if len(c.Args) == 1 && maxSteps == "" {
				v, err := env.expr(c.Args[0])
				if err != nil || v.kind != "int" {
					werr = fmt.Errorf("WithMaxRunSteps(%s)", types.ExprString(c.Args[0]))
				}
				maxSteps = v.text
			} else {
				werr = fmt.Errorf("several WithMaxRunSteps")
			}
		case "compose.WithNodeTriggerMode":
			if sel, ok := c.Args[0].(*ast.SelectorExpr); ok && len(c.Args) == 1 && c18_isIdent(sel.X, "compose") && mode == "" {
				mode = sel.Sel.Name
			} else {
				werr = fmt.Errorf("WithNodeTriggerMode outside the translated fragment")
			}
		case "make":
			if len(c.Args) == 3 && types.ExprString(c.Args[0]) == "[]*schema.Message" {
				l, err1 := env.expr(c.Args[1])
				cp, err2 := env.expr(c.Args[2])
				if err1 != nil || err2 != nil || l.kind != "int" || cp.kind != "int" || capE != "" {
					werr = fmt.Errorf("the state generator's make outside the translated fragment")
				}
				lenE, capE = l.text, cp.text
			}
		}
		return true
	})
	if werr != nil {
		return "", werr
	}
	if maxSteps == "" || mode == "" || capE == "" || fresh == "" {
		return "", fmt.Errorf("WithMaxRunSteps / WithNodeTriggerMode / the state generator not found")
	}
	compileOpts, exportOpts, err := c18_optionLists(newAgent)
	if err != nil {
		return "", err
	}
	strs := func(l []string) string {
		var q []string
		for _, x := range l {
			q = append(q, c18_coqStr(x))
		}
		return "[" + strings.Join(q, "; ") + "]"
	}
	return "(* NewAgent: the options graph.Compile gets, and the ones ExportGraph hands to a parent graph (WithGraphCompileOptions) *)\n" +
		"Definition compile_options : list string := " + strs(compileOpts) + ".\n" +
		"Definition export_options : list string := " + strs(exportOpts) + ".\n" +
		"(* NewAgent: compile options and the state generator *)\n" +
		"Definition compile_max_steps (max_step : nat) : nat := " + maxSteps + ".\n" +
		"Definition compile_trigger_mode : string := " + c18_coqStr(mode) + ".\n" +
		"Definition state_init_len (max_step : nat) : nat := " + lenE + ".\n" +
		"Definition state_init_cap (max_step : nat) : nat := " + capE + ".\n" +
		"Definition state_fresh_per_run : bool := " + fresh + ".\n", nil
}

// The option list handed to graph.Compile and the one wrapped by compose.WithGraphCompileOptions (what ExportGraph gives a
// parent graph), as the source texts of the option calls.  NewAgent's top-level statements are followed in order: a local
// assigned a []compose.GraphCompileOption{…} literal, `v = append(v, o…)` (under `if config.MaxStep != 0` / `> 0` the option
// WithMaxRunSteps(config.MaxStep) counts as unconditional: a limit of 0 means the default either way; any other condition is
// kept in the text), and the two calls wherever they occur in a statement.
func c18_optionLists(newAgent *ast.FuncDecl) ([]string, []string, error) {
	vars := map[string][]string{}
	var compileOpts, exportOpts []string
	haveC, haveE := false, false
	texts := func(es []ast.Expr) []string {
		var out []string
		for _, e := range es {
			out = append(out, c18_squash(types.ExprString(e)))
		}
		return out
	}
	var ferr error
	argList := func(c *ast.CallExpr, from int) []string {
		if len(c.Args) == from+1 && c.Ellipsis != token.NoPos {
			if id, ok := c.Args[from].(*ast.Ident); ok {
				if v, ok := vars[id.Name]; ok {
					return append([]string{}, v...)
				}
			}
			ferr = fmt.Errorf("an option list that is not a local of NewAgent")
			return nil
		}
		return texts(c.Args[from:])
	}
	appendTo := func(as *ast.AssignStmt, cond string) bool {
		if len(as.Lhs) != 1 || len(as.Rhs) != 1 {
			return false
		}
		id, ok := as.Lhs[0].(*ast.Ident)
		if !ok {
			return false
		}
		if cl, ok := as.Rhs[0].(*ast.CompositeLit); ok && c18_squash(types.ExprString(cl.Type)) == "[]compose.GraphCompileOption" && cond == "" {
			vars[id.Name] = texts(cl.Elts)
			return true
		}
		if c, ok := as.Rhs[0].(*ast.CallExpr); ok && c18_isIdent(c.Fun, "append") && len(c.Args) >= 2 && c.Ellipsis == token.NoPos {
			if src, ok := c.Args[0].(*ast.Ident); ok {
				if v, ok := vars[src.Name]; ok {
					nv := append([]string{}, v...)
					for _, t := range texts(c.Args[1:]) {
						if cond != "" && !((cond == "config.MaxStep!=0" || cond == "config.MaxStep>0") && t == "compose.WithMaxRunSteps(config.MaxStep)") {
							t = "if " + cond + ": " + t
						}
						nv = append(nv, t)
					}
					vars[id.Name] = nv
					return true
				}
			}
		}
		if _, isVar := vars[id.Name]; isVar {
			ferr = fmt.Errorf("assignment to the option list %s outside the translated fragment", id.Name)
		}
		return false
	}
	scan := func(n ast.Node) {
		ast.Inspect(n, func(m ast.Node) bool {
			c, ok := m.(*ast.CallExpr)
			if !ok {
				return true
			}
			if sel, ok := c.Fun.(*ast.SelectorExpr); ok && sel.Sel.Name == "Compile" && len(c.Args) >= 1 {
				if haveC {
					ferr = fmt.Errorf("several Compile calls")
				}
				compileOpts, haveC = argList(c, 1), true
			}
			if types.ExprString(c.Fun) == "compose.WithGraphCompileOptions" {
				if haveE {
					ferr = fmt.Errorf("several WithGraphCompileOptions calls")
				}
				exportOpts, haveE = argList(c, 0), true
			}
			return true
		})
	}
	for _, st := range newAgent.Body.List {
		switch x := st.(type) {
		case *ast.AssignStmt:
			if appendTo(x, "") {
				continue
			}
		case *ast.IfStmt:
			if x.Init == nil && x.Else == nil && len(x.Body.List) == 1 {
				if as, ok := x.Body.List[0].(*ast.AssignStmt); ok && appendTo(as, c18_squash(types.ExprString(x.Cond))) {
					continue
				}
			}
		}
		scan(st)
	}
	if ferr != nil {
		return nil, nil, ferr
	}
	if !haveC || !haveE {
		return nil, nil, fmt.Errorf("graph.Compile / compose.WithGraphCompileOptions not found")
	}
	return compileOpts, exportOpts, nil
}

// func (r *Agent) Generate(ctx, input, opts ...agent.AgentOption) … { return r.runnable.Invoke(ctx, input, agent.GetComposeOptions(opts...)...) }
func c18_reactEntries(f *ast.File) (string, error) {
	var rows []string
	for _, name := range []string{"Generate", "Stream"} {
		var fn *ast.FuncDecl
		for _, d := range f.Decls {
			if fd, ok := d.(*ast.FuncDecl); ok && fd.Recv != nil && fd.Name.Name == name && len(fd.Recv.List) == 1 && types.ExprString(fd.Recv.List[0].Type) == "*Agent" {
				fn = fd
			}
		}
		if fn == nil || fn.Body == nil || len(fn.Body.List) < 1 || len(fn.Body.List) > 2 {
			return "", fmt.Errorf("method %s is not a single statement", name)
		}
		// optionally `o := agent.GetComposeOptions(opts...)` first
		optsLocal, optsExpr := "", ""
		if len(fn.Body.List) == 2 {
			as, ok := fn.Body.List[0].(*ast.AssignStmt)
			if !ok || as.Tok != token.DEFINE || len(as.Lhs) != 1 || len(as.Rhs) != 1 {
				return "", fmt.Errorf("method %s is not a single statement", name)
			}
			id, ok := as.Lhs[0].(*ast.Ident)
			if !ok {
				return "", fmt.Errorf("method %s is not a single statement", name)
			}
			optsLocal, optsExpr = id.Name, c18_squash(types.ExprString(as.Rhs[0]))
		}
		r, ok := fn.Body.List[len(fn.Body.List)-1].(*ast.ReturnStmt)
		if !ok || len(r.Results) != 1 {
			return "", fmt.Errorf("method %s is not a single return", name)
		}
		c, ok := r.Results[0].(*ast.CallExpr)
		if !ok {
			return "", fmt.Errorf("method %s does not return a call", name)
		}
		sel, ok := c.Fun.(*ast.SelectorExpr)
		recv := fn.Recv.List[0].Names
		if !ok || len(recv) != 1 || types.ExprString(sel.X) != recv[0].Name+".runnable" {
			return "", fmt.Errorf("method %s does not call the runnable", name)
		}
		ps := c18_paramList(fn.Type)
		if len(ps) != 3 || len(c.Args) < 2 || !c18_isIdent(c.Args[0], strings.SplitN(ps[0], " ", 2)[0]) || !c18_isIdent(c.Args[1], strings.SplitN(ps[1], " ", 2)[0]) {
			return "", fmt.Errorf("method %s does not hand on its context and input", name)
		}
		opts := "false"
		handed := ""
		if len(c.Args) == 3 {
			handed = c18_squash(types.ExprString(c.Args[2]))
			if optsLocal != "" && handed == optsLocal {
				handed = optsExpr
			}
		}
		if len(c.Args) == 3 && c.Ellipsis != token.NoPos && handed == "agent.GetComposeOptions("+strings.SplitN(ps[2], " ", 2)[0]+"...)" {
			opts = "true"
		} else if len(c.Args) != 2 || optsLocal != "" {
			return "", fmt.Errorf("method %s: options outside the translated fragment", name)
		}
		rows = append(rows, "("+c18_coqStr(name)+", "+c18_coqStr(sel.Sel.Name)+", "+opts+")")
	}
	return "(* Agent.Generate / Agent.Stream: the method of the compiled runnable, and whether the call's compose options are handed on *)\n" +
		"Definition entry_points : list (string * string * bool) := [" + strings.Join(rows, "; ") + "].\n", nil
}

// flow/agent/utils.go: ChatModelWithTools(model_ model.ChatModel, toolCallingModel model.ToolCallingChatModel, toolInfos []*schema.ToolInfo) (model.BaseChatModel, error)
func c18_chatModelWithTools(repo string) (string, error) {
	fset := token.NewFileSet()
	f, err := c18_parseGo(fset, repo, "flow", "agent", "utils.go")
	if err != nil {
		return "", err
	}
	fn := c18_topFunc(f, "ChatModelWithTools")
	if fn == nil || fn.Body == nil {
		return "", fmt.Errorf("not found")
	}
	names, err := c18_paramNames(fn.Type, "ChatModelWithTools", []string{"model.ChatModel", "model.ToolCallingChatModel", "[]*schema.ToolInfo"}, "model.BaseChatModel,error")
	if err != nil {
		return "", err
	}
	env := &c18_rEnv{locals: map[string]c18_rval{names[0]: {"has_model", "ptr"}, names[1]: {"has_tool_calling_model", "ptr"}, names[2]: {"toolInfos", "infos"}}, retType: "gmodel"}
	env.calls = map[string]func(e *c18_rEnv, args []ast.Expr) (c18_rval, error){
		names[0] + ".BindTools": func(e *c18_rEnv, args []ast.Expr) (c18_rval, error) {
			if len(args) != 1 || !c18_isIdent(args[0], names[2]) {
				return c18_rval{}, fmt.Errorf("BindTools is not called on the tool infos")
			}
			return c18_rval{"(negb bind_ok)", "errval"}, nil
		},
	}
	env.ret = func(e *c18_rEnv, rs []ast.Expr) (string, error) {
		if len(rs) == 1 {
			// return toolCallingModel.WithTools(toolInfos)
			if c18_squash(types.ExprString(rs[0])) == names[1]+".WithTools("+names[2]+")" {
				return "GUseToolCallingModel", nil
			}
			return "", fmt.Errorf("return outside the translated fragment")
		}
		if len(rs) != 2 {
			return "", fmt.Errorf("return outside the translated fragment")
		}
		switch {
		case c18_isIdent(rs[0], names[0]) && c18_isIdent(rs[1], "nil"):
			return "GUseBoundModel", nil
		case c18_isIdent(rs[0], "nil"):
			if id, ok := rs[1].(*ast.Ident); ok && e.locals[id.Name].kind == "errval" {
				return "GBindError", nil
			}
			if call, ok := rs[1].(*ast.CallExpr); ok && types.ExprString(call.Fun) == "errors.New" {
				return "GNoModelError", nil
			}
		}
		return "", fmt.Errorf("return outside the translated fragment")
	}
	body, err := env.stmts(fn.Body.List, "")
	if err != nil {
		return "", err
	}
	return "(* flow/agent/utils.go: func ChatModelWithTools *)\nDefinition chat_model_with_tools (has_model has_tool_calling_model bind_ok : bool) : gmodel :=\n" + body + ".\n", nil
}

// ---- the two state pre-handlers over the heap of Model/ReactHeap.v -----------------------------
// state.Messages as the Go slice it is: a slice header (backing array, length) into a heap of arrays.
//
//	state.Messages = append(state.Messages, v...) / append(state.Messages, v)   Go's append (in place or a new array)
//	n := len(state.Messages)
//	if messageModifier == nil { return state.Messages, nil }                    the model is handed the state's own slice
//	x := make([]*schema.Message, len(state.Messages)); copy(x, state.Messages)  a new array holding a copy
//	return messageModifier(ctx, S), nil      S = x | state.Messages | state.Messages[:n] | state.Messages[:n:m]
//	                                         the modifier may write into the array of S; the model is handed its result
//	return input, nil                        (tools node: nothing is handed to the model)
//	state.A, state.B = f(…) / state.A = e    (fields other than Messages: no effect on the heap)
func c18_heapPre(newAgent *ast.FuncDecl, goName, coqName string, chat bool) (string, error) {
	fl := c18_assignedFuncLit(newAgent.Body, goName)
	if fl == nil {
		return "", fmt.Errorf("not found")
	}
	ps := c18_paramList(fl.Type)
	if len(ps) != 3 || !strings.HasSuffix(ps[2], " *state") {
		return "", fmt.Errorf("parameters outside the translated fragment")
	}
	stName := strings.SplitN(ps[2], " ", 2)[0]
	in := strings.SplitN(ps[1], " ", 2)[0]
	if stName == "_" || stName == in {
		return "", fmt.Errorf("parameters outside the translated fragment")
	}
	slices := map[string]string{} // local slice variables -> Gallina slice expression
	ints := map[string]string{}
	isMsgs := func(e ast.Expr) bool { return types.ExprString(e) == stName+".Messages" }
	isNilTest := func(c ast.Expr, op string) bool {
		t := c18_squash(types.ExprString(c))
		return t == "messageModifier"+op+"nil" || t == "config.MessageModifier"+op+"nil" || t == "nil"+op+"messageModifier" || t == "nil"+op+"config.MessageModifier"
	}
	isModifier := func(e ast.Expr) bool {
		t := types.ExprString(e)
		return t == "messageModifier" || t == "config.MessageModifier"
	}
	// does every path of these statements end in a return?
	endsInReturn := func(l []ast.Stmt) bool {
		if len(l) == 0 {
			return false
		}
		_, ok := l[len(l)-1].(*ast.ReturnStmt)
		return ok
	}
	// a slice-valued expression
	var sliceOf func(e ast.Expr) (string, error)
	intOf := func(e ast.Expr) (string, error) {
		if id, ok := e.(*ast.Ident); ok {
			if v, ok := ints[id.Name]; ok {
				return v, nil
			}
		}
		if c, ok := e.(*ast.CallExpr); ok && c18_isIdent(c.Fun, "len") && len(c.Args) == 1 {
			sl, err := sliceOf(c.Args[0])
			if err != nil {
				return "", err
			}
			return "(sl_len " + sl + ")", nil
		}
		return "", fmt.Errorf("integer expression %s", types.ExprString(e))
	}
	sliceOf = func(e ast.Expr) (string, error) {
		switch x := e.(type) {
		case *ast.Ident:
			if v, ok := slices[x.Name]; ok {
				return v, nil
			}
		case *ast.SelectorExpr:
			if isMsgs(x) {
				return "msgs", nil
			}
		case *ast.SliceExpr:
			if x.Low == nil && x.High != nil {
				b, err := sliceOf(x.X)
				if err != nil {
					return "", err
				}
				n, err := intOf(x.High)
				if err != nil {
					return "", err
				}
				return "(mkSlice (sl_arr " + b + ") " + n + ")", nil
			}
		}
		return "", fmt.Errorf("slice expression %s", types.ExprString(e))
	}
	hand := func(sl string) string {
		return "mkH h msgs (handed ++ [(" + sl + ", read h " + sl + ")])%list"
	}
	var tr func(l []ast.Stmt) (string, error)
	tr = func(l []ast.Stmt) (string, error) {
		if len(l) == 0 {
			return "", fmt.Errorf("control reaches the end without a return")
		}
		switch st := l[0].(type) {
		case *ast.AssignStmt:
			if len(st.Lhs) == 1 && len(st.Rhs) == 1 {
				// state.Messages = append(state.Messages, v...) | append(state.Messages, v)
				if isMsgs(st.Lhs[0]) && st.Tok == token.ASSIGN {
					c, ok := st.Rhs[0].(*ast.CallExpr)
					if !ok || !c18_isIdent(c.Fun, "append") || len(c.Args) != 2 || !isMsgs(c.Args[0]) || !c18_isIdent(c.Args[1], in) {
						return "", fmt.Errorf("assignment to state.Messages other than an append of the input")
					}
					v := in
					if c.Ellipsis == token.NoPos {
						v = "[" + in + "]"
					}
					if (c.Ellipsis != token.NoPos) != chat {
						return "", fmt.Errorf("append of the input with the wrong arity")
					}
					r, err := tr(l[1:])
					return "let '(h, msgs) := ReactHeap.append pol h msgs " + v + " in\n" + r, err
				}
				if id, ok := st.Lhs[0].(*ast.Ident); ok && st.Tok == token.DEFINE {
					// x := make([]*schema.Message, len(S)); copy(x, S)
					if c, ok := st.Rhs[0].(*ast.CallExpr); ok && c18_isIdent(c.Fun, "make") && len(c.Args) == 2 && len(l) > 1 {
						if cp, ok := l[1].(*ast.ExprStmt); ok {
							if cc, ok := cp.X.(*ast.CallExpr); ok && c18_isIdent(cc.Fun, "copy") && len(cc.Args) == 2 && c18_isIdent(cc.Args[0], id.Name) &&
								c18_squash(types.ExprString(c.Args[1])) == c18_squash("len("+types.ExprString(cc.Args[1])+")") {
								src, err := sliceOf(cc.Args[1])
								if err != nil {
									return "", err
								}
								slices[id.Name] = id.Name
								r, err := tr(l[2:])
								return "let " + id.Name + " := mkSlice (List.length h) (sl_len " + src + ") in\nlet h := (h ++ [read h " + src + "])%list in\n" + r, err
							}
						}
						return "", fmt.Errorf("make outside the idiom x := make(T, len(S)); copy(x, S)")
					}
					// n := len(S)
					if n, err := intOf(st.Rhs[0]); err == nil {
						ints[id.Name] = id.Name
						r, err := tr(l[1:])
						return "let " + id.Name + " := " + n + " in\n" + r, err
					}
					// x := S (another header of the same array)
					if sl, err := sliceOf(st.Rhs[0]); err == nil {
						if _, clash := slices[id.Name]; clash || id.Name == in {
							return "", fmt.Errorf("slice variable %s defined twice", id.Name)
						}
						slices[id.Name] = sl
						return tr(l[1:])
					}
				}
			}
			// assignments to other fields of the state: no effect on the heap
			for _, lx := range st.Lhs {
				base, path, ok := c18_selPath(lx)
				if id, isId := lx.(*ast.Ident); isId && st.Tok == token.DEFINE && id.Name != in && id.Name != stName {
					continue // a := …, b := … of values that are not slices of the history (the pair of getReturnDirectlyToolCallIndex)
				}
				if !ok || base != stName || path == "Messages" || path == "" {
					return "", fmt.Errorf("assignment outside the translated fragment")
				}
			}
			return tr(l[1:])
		case *ast.IfStmt:
			// if messageModifier == nil { return state.Messages, nil } …   /   if messageModifier != nil { …; return messageModifier(…), nil } …
			if st.Init == nil && (isNilTest(st.Cond, "==") || isNilTest(st.Cond, "!=")) && endsInReturn(st.Body.List) {
				var other []ast.Stmt
				switch el := st.Else.(type) {
				case nil:
					other = l[1:]
				case *ast.BlockStmt:
					if !endsInReturn(el.List) {
						return "", fmt.Errorf("if statement outside the translated fragment")
					}
					other = el.List
				default:
					return "", fmt.Errorf("if statement outside the translated fragment")
				}
				whenNil, whenSet := st.Body.List, other
				if isNilTest(st.Cond, "!=") {
					whenNil, whenSet = other, st.Body.List
				}
				// the slice variables of one arm are not visible in the other: translate each with a copy of the tables
				save := func() (map[string]string, map[string]string) {
					a, b := map[string]string{}, map[string]string{}
					for k, v := range slices {
						a[k] = v
					}
					for k, v := range ints {
						b[k] = v
					}
					return a, b
				}
				s0, i0 := save()
				n, err := tr(whenNil)
				if err != nil {
					return "", err
				}
				slices, ints = s0, i0
				s1, i1 := save()
				m, err := tr(whenSet)
				slices, ints = s1, i1
				return "match messageModifier with\n| None => " + n + "\n| Some modifier_fn =>\n" + m + "\nend", err
			}
			return "", fmt.Errorf("if statement outside the translated fragment")
		case *ast.ReturnStmt:
			if len(st.Results) != 2 || !c18_isIdent(st.Results[1], "nil") {
				return "", fmt.Errorf("return outside the translated fragment")
			}
			if c18_isIdent(st.Results[0], in) && !chat {
				return "mkH h msgs handed", nil
			}
			if c, ok := st.Results[0].(*ast.CallExpr); ok && isModifier(c.Fun) && len(c.Args) == 2 {
				sl, err := sliceOf(c.Args[1])
				if err != nil {
					return "", err
				}
				return "let '(h, handed_slice) := gl_heap_modify modifier_fn h " + sl + " in\n" + hand("handed_slice"), nil
			}
			sl, err := sliceOf(st.Results[0])
			if err != nil {
				return "", err
			}
			return hand(sl), nil
		}
		return "", fmt.Errorf("statement outside the translated fragment")
	}
	body, err := tr(fl.Body.List)
	if err != nil {
		return "", err
	}
	mod := ""
	if chat {
		mod = "(messageModifier : option (list N -> list N)) (" + in + " : list N)"
	} else {
		mod = "(" + in + " : N)"
	}
	return "(* NewAgent: " + goName + " with state.Messages as a Go slice over the heap of Model/ReactHeap.v *)\n" +
		"Definition " + coqName + " (pol : policy) " + mod + " (st : hstate) : hstate :=\n" +
		"let h := h_heap st in let msgs := h_msgs st in let handed := h_handed st in\n" + body + ".\n", nil
}
