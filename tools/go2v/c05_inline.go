package main

// Helper inlining for the C05 extractors: a piece of a translated function that was moved into a private helper of the
// same file and is called once is put back before the extractors look at the function (behaviour-preserving):
//
//   statement helper     f(a, b) / r.f(a, b)           -> the helper's body          (no results, no return statement)
//   tail helper          return f(a, b)                -> the helper's body          (its returns are the caller's)
//   value helper         x = f(a, b) / m[k] = f(a, b)  -> x = e                      (body: return e)
//                                                      -> if c { x = e1 } else { x = e2 }
//                                                         (body: if c { return e1 }; return e2   or with else)
//
// Parameters are replaced by the arguments and the helper's receiver by the caller's, token by token; arguments must be
// simple (identifiers, selectors, *p, &x, nil, literals). Side conditions (otherwise nothing is changed): the callee is a
// function or a method of the caller's receiver type declared in the same file, it has no meaning of its own for the
// extractors (c05KeepCallees), it does not assign to its parameters, it is not recursive, and the names it declares do
// not occur in the caller.

import (
	"bytes"
	"go/ast"
	"go/parser"
	"go/printer"
	"go/scanner"
	"go/token"
	"strings"
)

// callees the extractors translate themselves or know by name
var c05KeepCallees = map[string]bool{
	"run": true, "handleInterrupt": true, "handleInterruptWithSubGraphAndRerunNodes": true, "resolveInterruptCompletedTasks": true,
	"resolveCompletedTasks": true, "calculateNextTasks": true, "createTasks": true, "restoreTasks": true, "load": true, "loadChannels": true,
	"updateValues": true, "updateDependencies": true, "updateAndGet": true, "reportBranch": true, "initTaskManager": true, "initChannelManager": true,
	"extractOption": true, "getHitKey": true, "isSubGraphInterrupt": true, "wrapGraphNodeError": true, "newGraphRunError": true,
	"getCheckPointFromCtx": true, "getCheckPointFromStore": true, "setCheckPointToCtx": true, "forwardCheckPoint": true, "clearCheckPoint": true,
	"setNodeKey": true, "getNodeKey": true, "getStateModifier": true, "setStateModifier": true, "getCheckPointInfo": true,
	"convertCheckPoint": true, "restoreCheckPoint": true, "convert": true, "restore": true, "convertInputs": true, "restoreInputs": true,
	"convertOutputs": true, "restoreOutputs": true, "concatStreamReader": true, "defaultStreamConvertPair": true, "isMappedFragment": true,
	"pairWrittenToTarget": true, "unpackStreamReader": true, "packStreamReader": true, "onGraphStart": true, "onGraphEnd": true, "onGraphError": true,
	"copyItem": true, "uniqueKeys": true, "calculateBranch": true, "set": true, "get": true, "wait": true, "waitAll": true, "submit": true,
	"inputZeroValue": true, "inputEmptyStream": true, "close": true, "newStreamReadError": true,
}

func c05SrcNode(n any) string {
	var b bytes.Buffer
	if err := printer.Fprint(&b, token.NewFileSet(), n); err != nil {
		return ""
	}
	return b.String()
}

func c05SimpleArg(e ast.Expr) bool {
	switch x := e.(type) {
	case *ast.Ident, *ast.BasicLit:
		return true
	case *ast.SelectorExpr:
		return c05SimpleArg(x.X)
	case *ast.StarExpr:
		return c05SimpleArg(x.X)
	case *ast.UnaryExpr:
		return x.Op == token.AND && c05SimpleArg(x.X)
	case *ast.ParenExpr:
		return c05SimpleArg(x.X)
	}
	return false
}

// c05SubstTokens: src with the identifiers of sub replaced (not after '.', not a key before ':')
func c05SubstTokens(src string, sub map[string]string) string {
	fset := token.NewFileSet()
	file := fset.AddFile("", fset.Base(), len(src))
	var sc scanner.Scanner
	sc.Init(file, []byte(src), nil, 0)
	type tk struct {
		tok token.Token
		lit string
	}
	var toks []tk
	for {
		_, t, lit := sc.Scan()
		if t == token.EOF {
			break
		}
		toks = append(toks, tk{t, lit})
	}
	// the scanner ends the text with an automatic semicolon: not part of an expression
	for len(toks) > 0 && toks[len(toks)-1].tok == token.SEMICOLON && toks[len(toks)-1].lit == "\n" {
		toks = toks[:len(toks)-1]
	}
	var b strings.Builder
	for i, t := range toks {
		s := t.lit
		if s == "" || (!t.tok.IsLiteral() && t.tok != token.SEMICOLON && !t.tok.IsKeyword()) {
			s = t.tok.String()
		}
		if t.tok == token.SEMICOLON {
			s = ";"
		}
		if t.tok == token.IDENT {
			if r, ok := sub[t.lit]; ok {
				afterDot := i > 0 && toks[i-1].tok == token.PERIOD
				beforeColon := i+1 < len(toks) && toks[i+1].tok == token.COLON
				if !afterDot && !beforeColon {
					s = r
					if strings.ContainsAny(r, "*&( ") {
						s = "(" + r + ")"
					}
				}
			}
		}
		b.WriteString(s)
		b.WriteString(" ")
	}
	return b.String()
}

func c05ParseStmts(src string) []ast.Stmt {
	f, err := parser.ParseFile(token.NewFileSet(), "", "package p\nfunc _() {\n"+src+"\n}", 0)
	if err != nil || len(f.Decls) != 1 {
		return nil
	}
	return f.Decls[0].(*ast.FuncDecl).Body.List
}

func c05ParseExprSrc(src string) ast.Expr {
	e, err := parser.ParseExpr(src)
	if err != nil {
		return nil
	}
	return e
}

type c05Inliner struct {
	file   *ast.File
	caller *ast.FuncDecl
	names  map[string]bool
	used   map[string]int // how often each helper is called in the file
}

func c05RecvType(fn *ast.FuncDecl) string {
	if fn.Recv == nil || len(fn.Recv.List) != 1 {
		return ""
	}
	t := fn.Recv.List[0].Type
	if s, ok := t.(*ast.StarExpr); ok {
		t = s.X
	}
	return c05Ident(t)
}

// helper: the callee of call if it may be inlined into the caller; sub = the substitution
func (in *c05Inliner) helper(call *ast.CallExpr) (*ast.FuncDecl, map[string]string) {
	var name, recvArg string
	switch f := call.Fun.(type) {
	case *ast.Ident:
		name = f.Name
	case *ast.SelectorExpr:
		if c05Ident(f.X) == "" || c05Ident(f.X) != c05Recv(in.caller) {
			return nil, nil
		}
		name, recvArg = f.Sel.Name, c05Ident(f.X)
	default:
		return nil, nil
	}
	if c05KeepCallees[name] || name == in.caller.Name.Name || call.Ellipsis != token.NoPos {
		return nil, nil
	}
	var fn *ast.FuncDecl
	for _, d := range in.file.Decls {
		if fd, ok := d.(*ast.FuncDecl); ok && fd.Name.Name == name && fd.Body != nil {
			if recvArg == "" && fd.Recv == nil || recvArg != "" && fd.Recv != nil && c05RecvType(fd) == c05RecvType(in.caller) {
				fn = fd
			}
		}
	}
	if fn == nil || fn.Type.TypeParams != nil {
		return nil, nil
	}
	var params []string
	for _, fl := range fn.Type.Params.List {
		if _, variadic := fl.Type.(*ast.Ellipsis); variadic || len(fl.Names) == 0 {
			return nil, nil
		}
		for _, n := range fl.Names {
			params = append(params, n.Name)
		}
	}
	if len(params) != len(call.Args) {
		return nil, nil
	}
	sub := map[string]string{}
	for i, p := range params {
		if !c05SimpleArg(call.Args[i]) {
			return nil, nil
		}
		if p != "_" {
			sub[p] = c05SrcNode(call.Args[i])
		}
	}
	if recvArg != "" {
		if r := c05Recv(fn); r != "" {
			sub[r] = recvArg
		}
	}
	// an argument that is read through memory (x.f, *p) is evaluated at the call; put back into the body it would be
	// evaluated later: only if the helper writes to no field, element or pointee
	memArg := false
	for _, a := range call.Args {
		switch a.(type) {
		case *ast.Ident, *ast.BasicLit:
		default:
			memArg = true
		}
	}
	if memArg {
		writes := false
		ast.Inspect(fn.Body, func(n ast.Node) bool {
			switch x := n.(type) {
			case *ast.AssignStmt:
				for _, l := range x.Lhs {
					if _, isId := l.(*ast.Ident); !isId {
						writes = true
					}
				}
			case *ast.IncDecStmt:
				if _, isId := x.X.(*ast.Ident); !isId {
					writes = true
				}
			}
			return !writes
		})
		if writes {
			return nil, nil
		}
	}
	// the helper does not assign to its parameters, is not recursive, declares no name of the caller, defers nothing
	bad := false
	ast.Inspect(fn.Body, func(n ast.Node) bool {
		switch x := n.(type) {
		case *ast.AssignStmt:
			for _, l := range x.Lhs {
				if id := c05Ident(l); id != "" {
					if _, isParam := sub[id]; isParam {
						bad = true
					}
					if x.Tok == token.DEFINE && id != "_" && in.names[id] {
						if id != "err" && id != "ok" {
							bad = true
						}
					}
				}
			}
		case *ast.IncDecStmt:
			if _, isParam := sub[c05Ident(x.X)]; isParam {
				bad = true
			}
		case *ast.CallExpr:
			if c05Ident(x.Fun) == name {
				bad = true
			}
			if se, ok := x.Fun.(*ast.SelectorExpr); ok && se.Sel.Name == name {
				bad = true
			}
		case *ast.DeferStmt, *ast.GoStmt, *ast.FuncLit, *ast.LabeledStmt:
			bad = true
		case *ast.ValueSpec:
			for _, n := range x.Names {
				if in.names[n.Name] {
					bad = true
				}
			}
		case *ast.RangeStmt:
			for _, e := range []ast.Expr{x.Key, x.Value} {
				if id := c05Ident(e); id != "" && id != "_" && in.names[id] {
					bad = true
				}
			}
		}
		return !bad
	})
	if bad {
		return nil, nil
	}
	return fn, sub
}

func c05HasReturn(l []ast.Stmt) bool {
	found := false
	for _, s := range l {
		ast.Inspect(s, func(n ast.Node) bool {
			if _, ok := n.(*ast.ReturnStmt); ok {
				found = true
			}
			return !found
		})
	}
	return found
}

func c05NumResults(fn *ast.FuncDecl) int {
	if fn.Type.Results == nil {
		return 0
	}
	n := 0
	for _, fl := range fn.Type.Results.List {
		if len(fl.Names) == 0 {
			n++
		} else {
			n += len(fl.Names)
		}
	}
	return n
}

// valueForms: the helper's body as (cond, e1, e2): "" cond = plain `return e1`
func c05ValueForms(fn *ast.FuncDecl) (cond, e1, e2 string, ok bool) {
	l := fn.Body.List
	one := func(s ast.Stmt) (string, bool) {
		r, isR := s.(*ast.ReturnStmt)
		if !isR || len(r.Results) != 1 {
			return "", false
		}
		return c05SrcNode(r.Results[0]), true
	}
	if len(l) == 1 {
		if e, ok := one(l[0]); ok {
			return "", e, "", true
		}
		if is, isIf := l[0].(*ast.IfStmt); isIf && is.Init == nil && len(is.Body.List) == 1 {
			if eb, isB := is.Else.(*ast.BlockStmt); isB && len(eb.List) == 1 {
				a, ok1 := one(is.Body.List[0])
				b, ok2 := one(eb.List[0])
				if ok1 && ok2 {
					return c05SrcNode(is.Cond), a, b, true
				}
			}
		}
	}
	if len(l) == 2 {
		if is, isIf := l[0].(*ast.IfStmt); isIf && is.Init == nil && is.Else == nil && len(is.Body.List) == 1 {
			a, ok1 := one(is.Body.List[0])
			b, ok2 := one(l[1])
			if ok1 && ok2 {
				return c05SrcNode(is.Cond), a, b, true
			}
		}
	}
	return "", "", "", false
}

// inlineList rewrites one statement list; changed = something was inlined
func (in *c05Inliner) inlineList(l []ast.Stmt) ([]ast.Stmt, bool) {
	var out []ast.Stmt
	changed := false
	for _, s := range l {
		switch x := s.(type) {
		case *ast.ExprStmt:
			if call, ok := x.X.(*ast.CallExpr); ok {
				if fn, sub := in.helper(call); fn != nil && c05NumResults(fn) == 0 && !c05HasReturn(fn.Body.List) {
					if body := c05ParseStmts(c05SubstTokens(c05SrcNode(fn.Body.List), sub)); body != nil {
						out = append(out, body...)
						changed = true
						continue
					}
				}
			}
		case *ast.ReturnStmt:
			if len(x.Results) == 1 {
				if call, ok := x.Results[0].(*ast.CallExpr); ok {
					if fn, sub := in.helper(call); fn != nil && c05NumResults(fn) == c05NumResults(in.caller) && c05NumResults(fn) > 0 &&
						c05AlwaysReturns(fn.Body.List) && (fn.Type.Results.List[0].Names == nil) {
						if body := c05ParseStmts(c05SubstTokens(c05SrcNode(fn.Body.List), sub)); body != nil {
							out = append(out, body...)
							changed = true
							continue
						}
					}
				}
			}
		case *ast.AssignStmt:
			if len(x.Lhs) == 1 && len(x.Rhs) == 1 {
				if call, ok := x.Rhs[0].(*ast.CallExpr); ok {
					if fn, sub := in.helper(call); fn != nil && c05NumResults(fn) == 1 {
						if cond, e1, e2, ok := c05ValueForms(fn); ok {
							lhs, op := c05SrcNode(x.Lhs[0]), x.Tok.String()
							var src string
							if cond == "" {
								src = lhs + " " + op + " " + c05SubstTokens(e1, sub)
							} else if x.Tok == token.ASSIGN {
								src = "if " + c05SubstTokens(cond, sub) + " {\n" + lhs + " = " + c05SubstTokens(e1, sub) + "\n} else {\n" + lhs + " = " + c05SubstTokens(e2, sub) + "\n}"
							}
							if src != "" {
								if body := c05ParseStmts(src); body != nil {
									out = append(out, body...)
									changed = true
									continue
								}
							}
						}
					}
				}
			}
		}
		out = append(out, s)
	}
	return out, changed
}

// c05InlineHelpers: every function of the file, every block, up to three rounds
func c05InlineHelpers(f *ast.File) {
	for _, d := range f.Decls {
		fn, ok := d.(*ast.FuncDecl)
		if !ok || fn.Body == nil {
			continue
		}
		for round := 0; round < 3; round++ {
			in := &c05Inliner{file: f, caller: fn, names: map[string]bool{}}
			ast.Inspect(fn, func(n ast.Node) bool {
				if id, ok := n.(*ast.Ident); ok {
					in.names[id.Name] = true
				}
				return true
			})
			any := false
			ast.Inspect(fn, func(n ast.Node) bool {
				switch x := n.(type) {
				case *ast.BlockStmt:
					var ch bool
					if x.List, ch = in.inlineList(x.List); ch {
						any = true
					}
				case *ast.CaseClause:
					var ch bool
					if x.Body, ch = in.inlineList(x.Body); ch {
						any = true
					}
				}
				return true
			})
			if !any {
				break
			}
		}
	}
}
