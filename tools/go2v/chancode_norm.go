package main

// chancode_norm.go — extractor "chancode" (properties C01 / C02), part 2: the methods of dagChannel /
// pregelChannel are NORMALISED (go/ast -> go/ast) before chancode.go translates them, so that rewrites
// which do not change what a method does give the same Gallina text (or one the agreement proofs of
// Proofs/GenAgreeChan.v go through on: they are case analyses, not syntactic matches):
//
//   * parameters are renamed, by position, to the names of the Gallina signature; every local whose name
//     is a Gallina keyword or a name of the generated vocabulary gets a `_` suffix (renamed locals,
//     receivers and parameters are absorbed);
//   * a statement `recv.helper(a, …)` / `helper(a, …)` / `defer recv.helper()` calling a result-less
//     method or function of the same file is replaced by the helper's body (arguments must be names;
//     the helper's own locals get a fresh suffix; no `return` inside the helper except a last bare one);
//     helpers that return one bool and are used in a condition are translated by chancode.go (boolHelper);
//   * `switch { case c: … }` / `switch x { case a, b: … }` become if / else chains (no fallthrough, no break);
//   * `else if` becomes `else { if }`; when one arm of an if-else (without init statement) always leaves
//     the function or the iteration, the other arm is hoisted behind the if;
//   * inside a loop body every `continue` is removed: `if C { S; continue }; R`  ==>  `if C { S } else { R }`
//     (in general: the rest of the iteration is moved into every arm that can fall through), so that
//     `if !ok { continue }; A; B` and `if ok { A; B }` are the same statement list;
//   * conditions: `!!a`, `a == true`, `a == false`, `a != true`, `a != false`, `!(a == b)`, `!(a != b)` are simplified.
//
// Anything the pass does not understand is left as it is (chancode.go then reports "source shape not
// recognised" and the neutral file is used) or reported as an error with the same effect.

import (
	"fmt"
	"go/ast"
	"go/parser"
	"go/token"
	"go/types"
)

// names that must not be bound by the generated text: Gallina keywords and the vocabulary of Gen/ChanCode.v
var chanReserved = func() map[string]bool {
	m := map[string]bool{}
	for _, s := range []string{
		"as", "at", "cofix", "else", "end", "exists", "exists2", "fix", "for", "forall", "fun", "if", "IF", "in", "let",
		"match", "mod", "Prop", "return", "Set", "then", "Type", "using", "where", "with", "SProp", "struct",
		"ch", "kv", "fst", "snd", "deferred", "merr", "e", "V", "is_stream", "merge_values", "zero_value", "empty_stream",
		"fold_left", "m_has", "m_set", "m_any", "m_setall", "m_vals", "m_del_if", "ch_ctrl", "ch_data", "ch_skipped", "ch_vals",
		"ch_set_ctrl", "ch_set_data", "ch_set_skipped", "ch_set_vals", "dep_eqb", "negb", "andb", "orb", "Nat", "List", "length",
		"hd", "nil", "cons", "app", "Ok", "Err", "Panic", "Some", "None", "true", "false", "Waiting", "Ready", "Skipped",
		"chan", "key", "list", "bool", "res", "option", "_k", "_v", "tie_available",
	} {
		m[s] = true
	}
	return m
}()

type chanNormCtx struct {
	path     string // the Go file (re-parsed for every copy of a function: go/ast has no deep copy)
	recvType string
	recv     string // the receiver's name in the method being translated
	fresh    int
}

func (n *chanNormCtx) parse() (*ast.File, error) {
	return parser.ParseFile(token.NewFileSet(), n.path, nil, 0)
}

// rename identifiers (not field / method selectors) simultaneously
func chanRename(x ast.Node, m map[string]string) {
	if x == nil || len(m) == 0 {
		return
	}
	ast.Inspect(x, func(y ast.Node) bool {
		switch z := y.(type) {
		case *ast.SelectorExpr:
			chanRename(z.X, m)
			return false
		case *ast.KeyValueExpr:
			chanRename(z.Value, m)
			return false
		case *ast.Ident:
			if r, ok := m[z.Name]; ok {
				z.Name = r
			}
		}
		return true
	})
}

// names declared inside a function body (:=, range, var), in order of appearance
func chanDeclared(body ast.Node) []string {
	var out []string
	seen := map[string]bool{}
	add := func(e ast.Expr) {
		if id, ok := e.(*ast.Ident); ok && id.Name != "_" && !seen[id.Name] {
			seen[id.Name] = true
			out = append(out, id.Name)
		}
	}
	ast.Inspect(body, func(y ast.Node) bool {
		switch z := y.(type) {
		case *ast.AssignStmt:
			if z.Tok == token.DEFINE {
				for _, l := range z.Lhs {
					add(l)
				}
			}
		case *ast.RangeStmt:
			if z.Tok == token.DEFINE {
				if z.Key != nil {
					add(z.Key)
				}
				if z.Value != nil {
					add(z.Value)
				}
			}
		case *ast.ValueSpec:
			for _, nm := range z.Names {
				add(nm)
			}
		}
		return true
	})
	return out
}

func chanParamNames(fn *ast.FuncDecl) []string {
	var pn []string
	if fn.Type.Params != nil {
		for _, fl := range fn.Type.Params.List {
			if len(fl.Names) == 0 {
				pn = append(pn, "_")
			}
			for _, nm := range fl.Names {
				pn = append(pn, nm.Name)
			}
		}
	}
	return pn
}

func chanRecvName(fn *ast.FuncDecl) string {
	if fn.Recv != nil && len(fn.Recv.List) == 1 && len(fn.Recv.List[0].Names) == 1 {
		return fn.Recv.List[0].Names[0].Name
	}
	return ""
}

// the method (recvType).name of a fresh parse, parameters renamed by position to sigParams, unsafe local
// names suffixed, helpers inlined, control flow normalised
func (n *chanNormCtx) method(name string, sigParams []string) (*ast.FuncDecl, error) {
	f, err := n.parse()
	if err != nil {
		return nil, err
	}
	fn := methodOf(f, n.recvType, name)
	if fn == nil || fn.Body == nil {
		return nil, fmt.Errorf("method (*%s).%s not found", n.recvType, name)
	}
	n.recv = chanRecvName(fn)
	pn := chanParamNames(fn)
	if len(pn) != len(sigParams) {
		return nil, fmt.Errorf("(*%s).%s: parameters %v, expected %d", n.recvType, name, pn, len(sigParams))
	}
	m := map[string]string{}
	taken := map[string]bool{n.recv: true}
	for i, p := range pn {
		taken[sigParams[i]] = true
		if p != "_" && p != sigParams[i] {
			m[p] = sigParams[i]
		}
	}
	isParam := map[string]bool{}
	for _, p := range pn {
		isParam[p] = true
	}
	locals := chanDeclared(fn.Body)
	for _, l := range locals {
		taken[l] = true
	}
	for _, l := range locals {
		if isParam[l] || l == n.recv {
			continue // a local shadowing a parameter: leave it to the translator (which will not know it)
		}
		if chanReserved[l] || chanIsSig(l, sigParams) {
			r := l + "_"
			for taken[r] || chanReserved[r] {
				r += "_"
			}
			taken[r] = true
			m[l] = r
		}
	}
	chanRename(fn.Body, m)
	for _, fl := range fn.Type.Params.List {
		for _, nm := range fl.Names {
			if r, ok := m[nm.Name]; ok {
				nm.Name = r
			}
		}
	}
	l, err := n.inlineList(fn.Body.List, 0)
	if err != nil {
		return nil, err
	}
	l, err = n.normList(l, false)
	if err != nil {
		return nil, err
	}
	fn.Body.List = l
	return fn, nil
}

func chanIsSig(s string, sig []string) bool {
	for _, x := range sig {
		if x == s {
			return true
		}
	}
	return false
}

// a fresh copy of the helper a call refers to (method of the receiver type or function of the same file),
// its receiver and parameters renamed to the call's arguments, its locals suffixed; nil = not a helper of this file
func (n *chanNormCtx) helper(call *ast.CallExpr) (*ast.FuncDecl, error) {
	var name string
	isMethod := false
	switch f := call.Fun.(type) {
	case *ast.SelectorExpr:
		id, ok := f.X.(*ast.Ident)
		if !ok || id.Name != n.recv || n.recv == "" {
			return nil, nil
		}
		name, isMethod = f.Sel.Name, true
	case *ast.Ident:
		name = f.Name
	default:
		return nil, nil
	}
	file, err := n.parse()
	if err != nil {
		return nil, err
	}
	var fn *ast.FuncDecl
	if isMethod {
		fn = methodOf(file, n.recvType, name)
	} else {
		fn = topFunc(file, name)
	}
	if fn == nil || fn.Body == nil {
		return nil, nil
	}
	pn := chanParamNames(fn)
	if len(pn) != len(call.Args) || call.Ellipsis.IsValid() {
		return nil, fmt.Errorf("call of %s: %d arguments for %d parameters", name, len(call.Args), len(pn))
	}
	m := map[string]string{}
	if r := chanRecvName(fn); r != "" && r != n.recv {
		m[r] = n.recv
	}
	isParam := map[string]bool{}
	for i, p := range pn {
		isParam[p] = true
		if p == "_" {
			continue
		}
		id, ok := call.Args[i].(*ast.Ident)
		if !ok {
			return nil, fmt.Errorf("call of %s: argument %s is not a name", name, types.ExprString(call.Args[i]))
		}
		if id.Name != p {
			m[p] = id.Name
		}
	}
	n.fresh++
	for _, l := range chanDeclared(fn.Body) {
		if !isParam[l] {
			m[l] = fmt.Sprintf("%s_h%d", l, n.fresh)
		}
	}
	chanRename(fn.Body, m)
	return fn, nil
}

// replace calls of result-less helpers in statement position (and `defer helper()`) by the helper's body
func (n *chanNormCtx) inlineList(l []ast.Stmt, depth int) ([]ast.Stmt, error) {
	if depth > 4 {
		return nil, fmt.Errorf("helpers nested too deeply")
	}
	var out []ast.Stmt
	for _, s := range l {
		switch x := s.(type) {
		case *ast.ExprStmt:
			if call, ok := x.X.(*ast.CallExpr); ok {
				b, err := n.helperBody(call, depth)
				if err != nil {
					return nil, err
				}
				if b != nil {
					out = append(out, b...)
					continue
				}
			}
		case *ast.DeferStmt:
			if _, isLit := x.Call.Fun.(*ast.FuncLit); !isLit {
				b, err := n.helperBody(x.Call, depth)
				if err != nil {
					return nil, err
				}
				if b != nil {
					out = append(out, &ast.DeferStmt{Call: &ast.CallExpr{Fun: &ast.FuncLit{
						Type: &ast.FuncType{Params: &ast.FieldList{}}, Body: &ast.BlockStmt{List: b}}}})
					continue
				}
			} else if fl := x.Call.Fun.(*ast.FuncLit); len(x.Call.Args) == 0 {
				b, err := n.inlineList(fl.Body.List, depth)
				if err != nil {
					return nil, err
				}
				fl.Body.List = b
			}
		case *ast.IfStmt:
			if err := n.inlineIf(x, depth); err != nil {
				return nil, err
			}
		case *ast.BlockStmt:
			b, err := n.inlineList(x.List, depth)
			if err != nil {
				return nil, err
			}
			out = append(out, b...)
			continue
		case *ast.RangeStmt:
			b, err := n.inlineList(x.Body.List, depth)
			if err != nil {
				return nil, err
			}
			x.Body.List = b
		case *ast.ForStmt:
			b, err := n.inlineList(x.Body.List, depth)
			if err != nil {
				return nil, err
			}
			x.Body.List = b
		case *ast.SwitchStmt:
			for _, c := range x.Body.List {
				cc := c.(*ast.CaseClause)
				b, err := n.inlineList(cc.Body, depth)
				if err != nil {
					return nil, err
				}
				cc.Body = b
			}
		}
		out = append(out, s)
	}
	return out, nil
}

func (n *chanNormCtx) inlineIf(x *ast.IfStmt, depth int) error {
	b, err := n.inlineList(x.Body.List, depth)
	if err != nil {
		return err
	}
	x.Body.List = b
	switch e := x.Else.(type) {
	case *ast.BlockStmt:
		b, err := n.inlineList(e.List, depth)
		if err != nil {
			return err
		}
		e.List = b
	case *ast.IfStmt:
		return n.inlineIf(e, depth)
	}
	return nil
}

func (n *chanNormCtx) helperBody(call *ast.CallExpr, depth int) ([]ast.Stmt, error) {
	fn, err := n.helper(call)
	if err != nil || fn == nil {
		return nil, err
	}
	if fn.Type.Results != nil && len(fn.Type.Results.List) > 0 {
		return nil, nil // value-returning helper in statement position: left to the translator
	}
	b := fn.Body.List
	if k := len(b); k > 0 {
		if r, ok := b[k-1].(*ast.ReturnStmt); ok && len(r.Results) == 0 {
			b = b[:k-1]
		}
	}
	for _, s := range b {
		if containsReturn(s) {
			return nil, fmt.Errorf("helper %s returns early", types.ExprString(call.Fun))
		}
	}
	if len(b) == 0 {
		return []ast.Stmt{&ast.EmptyStmt{}}, nil
	}
	return n.inlineList(b, depth+1)
}

// ---------------------------------------------------------------------------------------- conditions

func chanIsLit(e ast.Expr, name string) bool {
	id, ok := e.(*ast.Ident)
	return ok && id.Name == name
}

func chanUnparen(e ast.Expr) ast.Expr {
	for {
		p, ok := e.(*ast.ParenExpr)
		if !ok {
			return e
		}
		e = p.X
	}
}

// logical negation, simplified
func chanNot(e ast.Expr) ast.Expr {
	e = chanUnparen(e)
	switch x := e.(type) {
	case *ast.UnaryExpr:
		if x.Op == token.NOT {
			return chanSimp(x.X)
		}
	case *ast.BinaryExpr:
		switch x.Op {
		case token.EQL:
			return chanSimp(&ast.BinaryExpr{X: x.X, Op: token.NEQ, Y: x.Y})
		case token.NEQ:
			return chanSimp(&ast.BinaryExpr{X: x.X, Op: token.EQL, Y: x.Y})
		case token.LAND, token.LOR:
			return &ast.UnaryExpr{Op: token.NOT, X: &ast.ParenExpr{X: chanSimp(x)}}
		}
	case *ast.Ident:
		if x.Name == "true" {
			return ast.NewIdent("false")
		}
		if x.Name == "false" {
			return ast.NewIdent("true")
		}
	}
	return &ast.UnaryExpr{Op: token.NOT, X: chanSimp(e)}
}

// !!a, a == true, a == false, a != true, a != false, !(a == b), !(a != b); idempotent
func chanSimp(e ast.Expr) ast.Expr {
	switch x := e.(type) {
	case *ast.ParenExpr:
		in := chanSimp(x.X)
		switch in.(type) {
		case *ast.Ident, *ast.SelectorExpr, *ast.CallExpr, *ast.ParenExpr:
			return in
		}
		return &ast.ParenExpr{X: in}
	case *ast.UnaryExpr:
		if x.Op == token.NOT {
			return chanNot(x.X)
		}
	case *ast.BinaryExpr:
		switch x.Op {
		case token.LAND, token.LOR:
			return &ast.BinaryExpr{X: chanSimp(x.X), Op: x.Op, Y: chanSimp(x.Y)}
		case token.EQL, token.NEQ:
			a, b := x.X, x.Y
			if chanIsLit(a, "true") || chanIsLit(a, "false") {
				a, b = b, a
			}
			pos := x.Op == token.EQL
			if chanIsLit(b, "true") {
				if pos {
					return chanSimp(a)
				}
				return chanNot(a)
			}
			if chanIsLit(b, "false") {
				if pos {
					return chanNot(a)
				}
				return chanSimp(a)
			}
		}
	}
	return e
}

// ---------------------------------------------------------------------------------------- control flow

func chanIsCont(s ast.Stmt) bool {
	b, ok := s.(*ast.BranchStmt)
	return ok && b.Tok == token.CONTINUE && b.Label == nil
}

// a `continue` / `break` of THIS loop (or switch) somewhere in the statement
func chanHasBranch(x ast.Node, tok token.Token) bool {
	found := false
	ast.Inspect(x, func(y ast.Node) bool {
		switch z := y.(type) {
		case *ast.FuncLit, *ast.RangeStmt, *ast.ForStmt:
			return false
		case *ast.SwitchStmt, *ast.TypeSwitchStmt, *ast.SelectStmt:
			if tok == token.BREAK {
				return false
			}
		case *ast.BranchStmt:
			if z.Tok == tok {
				found = true
			}
		}
		return !found
	})
	return found
}

// every path through the list leaves the function (return) or, inside a loop body, the iteration (continue)
func chanTerminates(l []ast.Stmt, inLoop bool) bool {
	if len(l) == 0 {
		return false
	}
	switch x := l[len(l)-1].(type) {
	case *ast.ReturnStmt:
		return true
	case *ast.BranchStmt:
		return inLoop && chanIsCont(x)
	case *ast.IfStmt:
		eb, ok := x.Else.(*ast.BlockStmt)
		return ok && chanTerminates(x.Body.List, inLoop) && chanTerminates(eb.List, inLoop)
	}
	return false
}

func chanBlock(l []ast.Stmt) *ast.BlockStmt { return &ast.BlockStmt{List: l} }

func (n *chanNormCtx) switchToIf(s *ast.SwitchStmt) ([]ast.Stmt, error) {
	if s.Init != nil {
		return nil, fmt.Errorf("switch with an init statement")
	}
	var chain *ast.IfStmt
	var last *ast.IfStmt
	var deflt []ast.Stmt
	hasDefault := false
	for _, c := range s.Body.List {
		cc := c.(*ast.CaseClause)
		for _, b := range cc.Body {
			if br, ok := b.(*ast.BranchStmt); ok && br.Tok == token.FALLTHROUGH {
				return nil, fmt.Errorf("switch with fallthrough")
			}
			if chanHasBranch(b, token.BREAK) {
				return nil, fmt.Errorf("switch with break")
			}
		}
		if cc.List == nil {
			deflt, hasDefault = cc.Body, true
			continue
		}
		var cond ast.Expr
		for _, e := range cc.List {
			var one ast.Expr = e
			if s.Tag != nil {
				one = &ast.BinaryExpr{X: s.Tag, Op: token.EQL, Y: e}
			}
			if cond == nil {
				cond = one
			} else {
				cond = &ast.BinaryExpr{X: cond, Op: token.LOR, Y: one}
			}
		}
		is := &ast.IfStmt{Cond: cond, Body: chanBlock(cc.Body)}
		if chain == nil {
			chain = is
		} else {
			last.Else = chanBlock([]ast.Stmt{is})
		}
		last = is
	}
	if chain == nil {
		return deflt, nil
	}
	if hasDefault {
		last.Else = chanBlock(deflt)
	}
	return []ast.Stmt{chain}, nil
}

// normalise a statement list; inLoop: the list is (the tail of) a loop body
func (n *chanNormCtx) normList(l []ast.Stmt, inLoop bool) ([]ast.Stmt, error) {
	// 1. statement by statement: children first, switch -> if, blocks flattened, conditions simplified
	var flat []ast.Stmt
	for _, s := range l {
		switch x := s.(type) {
		case *ast.EmptyStmt:
			continue
		case *ast.BlockStmt:
			b, err := n.normList(x.List, inLoop)
			if err != nil {
				return nil, err
			}
			flat = append(flat, b...)
			continue
		case *ast.SwitchStmt:
			b, err := n.switchToIf(x)
			if err != nil {
				return nil, err
			}
			b, err = n.normList(b, inLoop)
			if err != nil {
				return nil, err
			}
			flat = append(flat, b...)
			continue
		case *ast.IfStmt:
			if err := n.normIf(x, inLoop); err != nil {
				return nil, err
			}
		case *ast.RangeStmt:
			b, err := n.normList(x.Body.List, true)
			if err != nil {
				return nil, err
			}
			x.Body.List = n.elimCont(b)
		case *ast.DeferStmt:
			if fl, ok := x.Call.Fun.(*ast.FuncLit); ok {
				b, err := n.normList(fl.Body.List, false)
				if err != nil {
					return nil, err
				}
				fl.Body.List = b
			}
		case *ast.ReturnStmt:
			for i := range x.Results {
				x.Results[i] = chanSimp(x.Results[i])
			}
		case *ast.AssignStmt:
			for i := range x.Rhs {
				x.Rhs[i] = chanSimp(x.Rhs[i])
			}
		}
		flat = append(flat, s)
	}
	// 2. an if-else (without init) one arm of which always leaves: hoist the other arm behind it
	var out []ast.Stmt
	for i := 0; i < len(flat); i++ {
		is, ok := flat[i].(*ast.IfStmt)
		if !ok || is.Else == nil || is.Init != nil {
			out = append(out, flat[i])
			continue
		}
		eb := is.Else.(*ast.BlockStmt) // normIf made it a block
		rest := flat[i+1:]
		switch {
		case chanTerminates(is.Body.List, inLoop):
			is.Else = nil
			tail, err := n.normList(append(append([]ast.Stmt{}, eb.List...), rest...), inLoop)
			if err != nil {
				return nil, err
			}
			return append(append(out, is), tail...), nil
		case chanTerminates(eb.List, inLoop):
			th := is.Body.List
			is.Cond, is.Body, is.Else = chanNot(is.Cond), eb, nil
			tail, err := n.normList(append(append([]ast.Stmt{}, th...), rest...), inLoop)
			if err != nil {
				return nil, err
			}
			return append(append(out, is), tail...), nil
		}
		out = append(out, is)
	}
	return out, nil
}

func (n *chanNormCtx) normIf(x *ast.IfStmt, inLoop bool) error {
	x.Cond = chanSimp(x.Cond)
	b, err := n.normList(x.Body.List, inLoop)
	if err != nil {
		return err
	}
	x.Body.List = b
	switch e := x.Else.(type) {
	case *ast.BlockStmt:
		b, err := n.normList(e.List, inLoop)
		if err != nil {
			return err
		}
		e.List = b
	case *ast.IfStmt:
		b, err := n.normList([]ast.Stmt{e}, inLoop)
		if err != nil {
			return err
		}
		x.Else = chanBlock(b)
	}
	if eb, ok := x.Else.(*ast.BlockStmt); ok && len(eb.List) == 0 {
		x.Else = nil
	}
	return nil
}

// remove every `continue` of a (normalised) loop body: the rest of the iteration moves into the arms that fall through
func (n *chanNormCtx) elimCont(l []ast.Stmt) []ast.Stmt {
	if len(l) == 0 {
		return nil
	}
	s, r := l[0], l[1:]
	if chanIsCont(s) {
		return nil
	}
	is, ok := s.(*ast.IfStmt)
	if !ok || !chanHasBranch(is, token.CONTINUE) {
		return append([]ast.Stmt{s}, n.elimCont(r)...)
	}
	var el []ast.Stmt
	if eb, ok := is.Else.(*ast.BlockStmt); ok {
		el = eb.List
	}
	nth := n.elimCont(append(append([]ast.Stmt{}, is.Body.List...), r...))
	nel := n.elimCont(append(append([]ast.Stmt{}, el...), r...))
	switch {
	case len(nth) == 0 && len(nel) == 0:
		return nil
	case len(nth) == 0:
		return []ast.Stmt{&ast.IfStmt{Init: is.Init, Cond: chanNot(is.Cond), Body: chanBlock(nel)}}
	case len(nel) == 0:
		return []ast.Stmt{&ast.IfStmt{Init: is.Init, Cond: is.Cond, Body: chanBlock(nth)}}
	}
	return []ast.Stmt{&ast.IfStmt{Init: is.Init, Cond: is.Cond, Body: chanBlock(nth), Else: chanBlock(nel)}}
}
