package main

// Extractor "sercode" (property C12), pre-pass: private helpers of serialization.go that are pure code
// motion are put back where they were called before the translation starts, so that a refactoring
// which only splits one of the translated functions into pieces leaves the emitted Gallina text as it was
// (refac/C12-3: internalUnmarshal split into unmarshalBased / unmarshalStruct / unmarshalMap /
// unmarshalArray / unmarshalSlice).  Two call shapes are absorbed, both only for a callee that is a
// top-level function of the same file, is not itself one of the translated functions or a function of
// the vocabulary, has no receiver, no type parameters, no named results and no variadic parameter:
//
//   return g(a1, …, an)      tail call; g has the result types of the caller as written
//                            => the body of g in place of the statement
//   g(a1, …, an)             statement call; g has no results and no return statement
//                            => the body of g in place of the statement
//
// A parameter whose argument is the identifier of the same name needs nothing; a parameter whose
// argument is another identifier is renamed in the copy of the body (when that identifier is not
// otherwise used in the body); any other argument becomes `p := arg` in front of the body.  A body
// that declares a name the caller's function also uses (other than through the parameters) is not
// inlined: the splice would change which variable a later statement of the caller means - for a tail
// call nothing follows, so there only names that are parameters of the caller or free in the body matter;
// we stay on the safe side and refuse any clash with a name the body does not declare itself before use.
// Whatever is not absorbed is left as it is: the translator then meets a call it does not know and
// reports "source shape not recognised" (tie unavailable, no alarm).

import (
	"go/ast"
	"go/parser"
	"go/token"
	"go/types"
)

const c12InlineDepth = 4

// functions the translator gives a meaning of their own: never inlined
var c12NoInline = map[string]bool{
	"definedContainerKey": true, "internalMarshal": true, "GenericRegister": true, "resolvePointerNum": true,
	"containerType": true, "internalUnmarshal": true, "createValueFromType": true, "hasOwnJSON": true,
	"Marshal": true, "Unmarshal": true,
}

type c12Inliner struct {
	path   string // the source file, parsed again for every copy of a body
	file   *ast.File
	count  int
	locals map[string]bool // parameters and local variables of the function being rewritten
}

// a fresh copy of the declaration of a top-level function
func (in *c12Inliner) fresh(name string) *ast.FuncDecl {
	f, err := parser.ParseFile(token.NewFileSet(), in.path, nil, 0)
	if err != nil {
		return nil
	}
	return c12TopFunc(f, name)
}

func c12ResultTypes(ft *ast.FuncType) (string, bool) {
	if ft.Results == nil {
		return "", true
	}
	s := ""
	for _, fl := range ft.Results.List {
		if len(fl.Names) != 0 {
			return "", false
		}
		s += c12Squash(types.ExprString(fl.Type)) + ";"
	}
	return s, true
}

// the statements that stand for the call g(args), or nil
func (in *c12Inliner) body(call *ast.CallExpr, wantResults string, tail bool) []ast.Stmt {
	id, ok := call.Fun.(*ast.Ident)
	if !ok || c12NoInline[id.Name] || call.Ellipsis.IsValid() {
		return nil
	}
	if c12TopFunc(in.file, id.Name) == nil {
		return nil
	}
	g := in.fresh(id.Name)
	if g == nil || g.Body == nil || g.Type.TypeParams != nil {
		return nil
	}
	res, ok := c12ResultTypes(g.Type)
	if !ok || res != wantResults {
		return nil
	}
	if !tail && c12ContainsReturn(g.Body) {
		return nil
	}
	if tail && !c12AlwaysReturns(g.Body.List) {
		// control may reach the end of g: only legal for a function without results, and then the
		// caller's `return g()` would not compile either
		return nil
	}
	var params []string
	byRef := map[string]bool{} // parameters of pointer / map / slice type: an update through them is shared with the caller anyway
	for _, fl := range g.Type.Params.List {
		if _, variadic := fl.Type.(*ast.Ellipsis); variadic || len(fl.Names) == 0 {
			return nil
		}
		for _, n := range fl.Names {
			if n.Name == "_" {
				return nil
			}
			params = append(params, n.Name)
			switch fl.Type.(type) {
			case *ast.StarExpr, *ast.MapType:
				byRef[n.Name] = true
			}
		}
	}
	if !tail {
		// the callee works on copies of its arguments: a parameter it rebinds (p = …, p++) or, for a
		// parameter passed by value, updates in place (p.F = …, p[i] = …) would become an update of the
		// caller's variable - after a tail call nothing of the caller is live, elsewhere we refuse
		bad := false
		root := func(e ast.Expr) (string, bool) { // (root variable, direct)
			direct := true
			for {
				switch x := e.(type) {
				case *ast.Ident:
					return x.Name, direct
				case *ast.SelectorExpr:
					e, direct = x.X, false
				case *ast.IndexExpr:
					e, direct = x.X, false
				case *ast.StarExpr:
					e, direct = x.X, false
				case *ast.ParenExpr:
					e = x.X
				default:
					return "", false
				}
			}
		}
		isP := map[string]bool{}
		for _, p := range params {
			isP[p] = true
		}
		check := func(e ast.Expr) {
			if n, direct := root(e); isP[n] && (direct || !byRef[n]) {
				bad = true
			}
		}
		ast.Inspect(g.Body, func(n ast.Node) bool {
			switch x := n.(type) {
			case *ast.AssignStmt:
				for _, lh := range x.Lhs { // also p, ok := …: in the scope of the parameters this rebinds p
					check(lh)
				}
			case *ast.IncDecStmt:
				check(x.X)
			case *ast.UnaryExpr:
				if x.Op == token.AND {
					if n, _ := root(x.X); isP[n] {
						bad = true
					}
				}
			}
			return !bad
		})
		if bad {
			return nil
		}
	}
	if len(params) != len(call.Args) {
		return nil
	}
	// names the body uses
	used := map[string]bool{}
	ast.Inspect(g.Body, func(n ast.Node) bool {
		if x, ok := n.(*ast.Ident); ok {
			used[x.Name] = true
		}
		return true
	})
	// a name that is free in the body (a package-level variable: m, rm) must not be a local of the caller
	declared := c12DeclaredNames(g.Body.List)
	isParam := map[string]bool{}
	for _, p := range params {
		isParam[p] = true
	}
	for n := range c12MentionedNames(g.Body.List) {
		if !declared[n] && !isParam[n] && in.locals[n] {
			return nil
		}
	}
	rename := map[string]string{}
	var pre []ast.Stmt
	for i, p := range params {
		if a, ok := call.Args[i].(*ast.Ident); ok && a.Name != "nil" && a.Name != "true" && a.Name != "false" {
			if a.Name == p {
				continue
			}
			if used[a.Name] {
				return nil // the argument's name means something else inside the body
			}
			rename[p] = a.Name
			continue
		}
		// p := arg; the argument must not mention a parameter that is renamed or rebound before it
		bad := false
		ast.Inspect(call.Args[i], func(n ast.Node) bool {
			if x, ok := n.(*ast.Ident); ok {
				for _, q := range params[:i] {
					if x.Name == q {
						bad = true
					}
				}
			}
			return !bad
		})
		if bad {
			return nil
		}
		pre = append(pre, &ast.AssignStmt{Lhs: []ast.Expr{ast.NewIdent(p)}, Tok: token.DEFINE, Rhs: []ast.Expr{call.Args[i]}})
	}
	if len(rename) > 0 {
		// a selector's field name is not a variable
		skip := map[*ast.Ident]bool{}
		ast.Inspect(g.Body, func(n ast.Node) bool {
			switch x := n.(type) {
			case *ast.SelectorExpr:
				skip[x.Sel] = true
			case *ast.KeyValueExpr:
				if k, ok := x.Key.(*ast.Ident); ok {
					skip[k] = true
				}
			}
			return true
		})
		ast.Inspect(g.Body, func(n ast.Node) bool {
			if x, ok := n.(*ast.Ident); ok && !skip[x] {
				if to, ok := rename[x.Name]; ok {
					x.Name = to
				}
			}
			return true
		})
	}
	in.count++
	return append(pre, g.Body.List...)
}

// names a statement list declares at its own level or below (x := …, var x, range / for / if init)
func c12DeclaredNames(l []ast.Stmt) map[string]bool {
	out := map[string]bool{}
	for _, s := range l {
		ast.Inspect(s, func(n ast.Node) bool {
			switch x := n.(type) {
			case *ast.FuncLit:
				return false
			case *ast.AssignStmt:
				if x.Tok == token.DEFINE {
					for _, lh := range x.Lhs {
						if id, ok := lh.(*ast.Ident); ok {
							out[id.Name] = true
						}
					}
				}
			case *ast.RangeStmt:
				if x.Tok == token.DEFINE {
					for _, e := range []ast.Expr{x.Key, x.Value} {
						if id, ok := e.(*ast.Ident); ok {
							out[id.Name] = true
						}
					}
				}
			case *ast.ValueSpec:
				for _, id := range x.Names {
					out[id.Name] = true
				}
			}
			return true
		})
	}
	return out
}

// names a statement list mentions as variables
func c12MentionedNames(l []ast.Stmt) map[string]bool {
	out := map[string]bool{}
	for _, s := range l {
		skip := map[*ast.Ident]bool{}
		ast.Inspect(s, func(n ast.Node) bool {
			if x, ok := n.(*ast.SelectorExpr); ok {
				skip[x.Sel] = true
			}
			return true
		})
		ast.Inspect(s, func(n ast.Node) bool {
			if x, ok := n.(*ast.Ident); ok && !skip[x] {
				out[x.Name] = true
			}
			return true
		})
	}
	return out
}

func (in *c12Inliner) list(l []ast.Stmt, results string, depth int) []ast.Stmt {
	var out []ast.Stmt
	for i, s := range l {
		var repl []ast.Stmt
		switch x := s.(type) {
		case *ast.ReturnStmt:
			if len(x.Results) == 1 && depth < c12InlineDepth {
				if call, ok := x.Results[0].(*ast.CallExpr); ok {
					repl = in.body(call, results, true)
				}
			}
		case *ast.ExprStmt:
			if call, ok := x.X.(*ast.CallExpr); ok && depth < c12InlineDepth {
				repl = in.body(call, "", false)
				if repl != nil {
					// what follows in the caller must not mean a variable the body declares
					decl := c12DeclaredNames(repl)
					for n := range c12MentionedNames(l[i+1:]) {
						if decl[n] {
							repl = nil
							in.count--
							break
						}
					}
				}
			}
		}
		if repl != nil {
			out = append(out, in.list(repl, results, depth+1)...)
			continue
		}
		in.stmt(s, results, depth)
		out = append(out, s)
	}
	return out
}

func (in *c12Inliner) stmt(s ast.Stmt, results string, depth int) {
	switch x := s.(type) {
	case *ast.BlockStmt:
		x.List = in.list(x.List, results, depth)
	case *ast.IfStmt:
		x.Body.List = in.list(x.Body.List, results, depth)
		if x.Else != nil {
			in.stmt(x.Else, results, depth)
		}
	case *ast.ForStmt:
		x.Body.List = in.list(x.Body.List, results, depth)
	case *ast.RangeStmt:
		x.Body.List = in.list(x.Body.List, results, depth)
	case *ast.SwitchStmt:
		for _, c := range x.Body.List {
			if cc, ok := c.(*ast.CaseClause); ok {
				cc.Body = in.list(cc.Body, results, depth)
			}
		}
	}
}

// c12InlineHelpers rewrites the bodies of the named functions of f in place; the number of calls absorbed
func c12InlineHelpers(f *ast.File, path string, names ...string) int {
	in := &c12Inliner{path: path, file: f}
	for _, n := range names {
		fn := c12TopFunc(f, n)
		if fn == nil || fn.Body == nil {
			continue
		}
		res, ok := c12ResultTypes(fn.Type)
		if !ok {
			continue
		}
		in.locals = c12DeclaredNames(fn.Body.List)
		for _, fl := range fn.Type.Params.List {
			for _, id := range fl.Names {
				in.locals[id.Name] = true
			}
		}
		fn.Body.List = in.list(fn.Body.List, res, 0)
	}
	return in.count
}
