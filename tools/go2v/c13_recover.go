package main

// Extractor "recoversites" (property C13): the five places where the framework turns a panic of user
// code into an error —
//     compose/graph_manager.go  (*taskManager).executor
//     compose/tool_node.go      parallelRunToolCall            (the goroutine of calls 1..n-1)
//     schema/stream.go          (*streamReaderWithConvert).toStream, (*childStreamReader).toStream  (forwarders)
//     schema/stream.go          (*parentStreamReader).peek    (the body given to once.Do)
// Each is read as the shape
//     FLAG := false
//     defer func() { v := safe.PanicValue(recover(), FLAG) | recover(); if v != nil { <report> } ... }()
//     <guarded call>
//     FLAG = true
// and rendered as one record of Model/ErrorsRecoverLib.v: is the flag given to safe.PanicValue, is it set
// (once) after the guarded call and not before, and where does safe.NewPanicErr(v, ..) go (the err field of
// the task, an error item sent on / recorded in a stream element, nowhere).  A site without a deferred
// recover at all is recognised too (report RNone) — unless it hands the guarded work over to one private
// helper that has the shape (c13rFollow).  Anything else in these bodies is not looked at (the
// hand-off protocol around them is property C03's / C08's model).  Output: coq/Gen/RecoverSites.v.

import (
	"fmt"
	"go/ast"
	"go/parser"
	"go/token"
	"go/types"
	"path/filepath"
	"strings"
)

const c13RecoverNeutral = "(* Gen/RecoverSites.v — translator tie UNAVAILABLE: tools/go2v (extractor \"recoversites\") did not recognise the shape\n" +
	"   of one of the five recover sites; the attributes the model assumes are re-exported. *)\n" +
	"From Eino Require Import Base.Util Model.Errors Model.ErrorsRecoverLib.\n\n" +
	"Definition site_executor : rsite := good_site RTaskErr.\n" +
	"Definition site_toolcall : rsite := good_site RTaskErr.\n" +
	"Definition site_convert_forwarder : rsite := good_site RItem.\n" +
	"Definition site_child_forwarder : rsite := good_site RItem.\n" +
	"Definition site_copy_peek : rsite := good_site RItem.\n"

func init() {
	register("recoversites", c13ExtractRecover)
	registerFallback("recoversites", "RecoverSites.v", c13RecoverNeutral)
}

func c13rParse(fset *token.FileSet, repo string, rel ...string) (*ast.File, error) {
	return parser.ParseFile(fset, filepath.Join(append([]string{repo}, rel...)...), nil, 0)
}

func c13rMethod(f *ast.File, recvType, name string) *ast.FuncDecl {
	for _, d := range f.Decls {
		fn, ok := d.(*ast.FuncDecl)
		if !ok || fn.Recv == nil || fn.Name.Name != name || len(fn.Recv.List) != 1 {
			continue
		}
		t := fn.Recv.List[0].Type
		if st, ok := t.(*ast.StarExpr); ok {
			t = st.X
		}
		if ix, ok := t.(*ast.IndexExpr); ok { // generic receiver  *T[X]
			t = ix.X
		}
		if id, ok := t.(*ast.Ident); ok && id.Name == recvType {
			return fn
		}
	}
	return nil
}

func c13rFunc(f *ast.File, name string) *ast.FuncDecl {
	for _, d := range f.Decls {
		if fn, ok := d.(*ast.FuncDecl); ok && fn.Recv == nil && fn.Name.Name == name {
			return fn
		}
	}
	return nil
}

func c13rIsCall(e ast.Expr, name string) (*ast.CallExpr, bool) {
	c, ok := e.(*ast.CallExpr)
	if !ok {
		return nil, false
	}
	return c, types.ExprString(c.Fun) == name
}

// the first function literal started with `go` anywhere in the body
func c13rGoLit(b *ast.BlockStmt) *ast.FuncLit {
	var lit *ast.FuncLit
	ast.Inspect(b, func(n ast.Node) bool {
		if lit != nil {
			return false
		}
		if g, ok := n.(*ast.GoStmt); ok {
			if l, ok := g.Call.Fun.(*ast.FuncLit); ok {
				lit = l
				return false
			}
		}
		return true
	})
	return lit
}

// the function literal given to  X.once.Do(...)
func c13rOnceLit(b *ast.BlockStmt) *ast.FuncLit {
	var lit *ast.FuncLit
	ast.Inspect(b, func(n ast.Node) bool {
		if lit != nil {
			return false
		}
		if c, ok := n.(*ast.CallExpr); ok && len(c.Args) == 1 {
			if sel, ok := c.Fun.(*ast.SelectorExpr); ok && sel.Sel.Name == "Do" && strings.HasSuffix(types.ExprString(sel.X), ".once") {
				if l, ok := c.Args[0].(*ast.FuncLit); ok {
					lit = l
					return false
				}
			}
		}
		return true
	})
	return lit
}

func c13rContainsCall(n ast.Node, callee string) bool {
	found := false
	ast.Inspect(n, func(x ast.Node) bool {
		if _, ok := x.(*ast.FuncLit); ok && x != n {
			return false // calls inside nested literals run elsewhere
		}
		if c, ok := x.(*ast.CallExpr); ok {
			s := types.ExprString(c.Fun)
			if s == callee || strings.HasSuffix(s, "."+callee) {
				found = true
			}
		}
		return !found
	})
	return found
}

// c13rSoleCall (below): fn's body is a single statement that calls a package-level function declared in one of
// the files (`return helper(..)` / `helper(..)`): that function and the call.
// c13rParamFor: the helper h is called by c; the name of h's parameter that receives the argument `work` /
// `x.work` (a method value handed over as a function) — or work itself when no argument is one.
func c13rParamFor(h *ast.FuncDecl, c *ast.CallExpr, work string) string {
	var params []string
	for _, f := range h.Type.Params.List {
		for _, n := range f.Names {
			params = append(params, n.Name)
		}
	}
	for i, a := range c.Args {
		s := types.ExprString(a)
		if (s == work || strings.HasSuffix(s, "."+work)) && i < len(params) {
			return params[i]
		}
	}
	return work
}

func c13rSoleCall(fn *ast.FuncDecl, files ...*ast.File) (*ast.FuncDecl, *ast.CallExpr) {
	if fn == nil || fn.Body == nil || len(fn.Body.List) != 1 {
		return nil, nil
	}
	var e ast.Expr
	switch st := fn.Body.List[0].(type) {
	case *ast.ReturnStmt:
		if len(st.Results) != 1 {
			return nil, nil
		}
		e = st.Results[0]
	case *ast.ExprStmt:
		e = st.X
	default:
		return nil, nil
	}
	c, ok := e.(*ast.CallExpr)
	if !ok {
		return nil, nil
	}
	f := c.Fun
	if ix, ok := f.(*ast.IndexExpr); ok { // helper[T](..)
		f = ix.X
	}
	id, ok := f.(*ast.Ident)
	if !ok {
		return nil, nil
	}
	for _, file := range files {
		if h := c13rFunc(file, id.Name); h != nil && h.Body != nil {
			return h, c
		}
	}
	return nil, nil
}

// c13rRecovers: one of the statements is a deferred function literal that calls recover().
func c13rRecovers(body []ast.Stmt) bool {
	for _, st := range body {
		if d, ok := st.(*ast.DeferStmt); ok {
			if l, ok := d.Call.Fun.(*ast.FuncLit); ok && c13rContainsCall(l.Body, "recover") {
				return true
			}
		}
	}
	return false
}

// c13rFollow: a guarded body without a recovering deferred literal of its own that hands the guarded work over
// to ONE private helper declared in the files — a statement `helper(..)` / `x.helper(..)` (a package-level
// function, or the only method of that name) whose own body has the recovering deferred literal — is read
// in that helper (at most two hops; the name of the guarded callee follows its argument into the helper's
// parameter, c13rParamFor).  A deferred call of the outer body (`defer wg.Done()`, `defer
// t.handOver(task)`) was registered before the helper was called: it runs after the helper has returned,
// that is after the recovery — the order of the deferred actions is the helper's own.  Anything else is left
// as it is (no recovering literal and no such helper: report RNone).
func c13rFollow(body []ast.Stmt, work string, files ...*ast.File) ([]ast.Stmt, string) {
	for hops := 0; hops < 2 && !c13rRecovers(body); hops++ {
		var next []ast.Stmt
		nextWork := work
		n := 0
		for _, st := range body {
			es, ok := st.(*ast.ExprStmt)
			if !ok {
				continue
			}
			c, ok := es.X.(*ast.CallExpr)
			if !ok {
				continue
			}
			f := c.Fun
			if ix, ok := f.(*ast.IndexExpr); ok { // helper[T](..)
				f = ix.X
			}
			var cands []*ast.FuncDecl
			switch x := f.(type) {
			case *ast.Ident:
				for _, file := range files {
					if h := c13rFunc(file, x.Name); h != nil {
						cands = append(cands, h)
					}
				}
			case *ast.SelectorExpr:
				if _, ok := x.X.(*ast.Ident); !ok {
					continue
				}
				for _, file := range files {
					for _, d := range file.Decls {
						if fn, ok := d.(*ast.FuncDecl); ok && fn.Recv != nil && fn.Name.Name == x.Sel.Name {
							cands = append(cands, fn)
						}
					}
				}
			}
			if len(cands) == 1 && cands[0].Body != nil && c13rRecovers(cands[0].Body.List) {
				next = cands[0].Body.List
				nextWork = c13rParamFor(cands[0], c, work)
				n++
			}
		}
		if n != 1 {
			return body, work
		}
		body, work = next, nextWork
	}
	return body, work
}

type c13Site struct {
	guard, flagAfter, reportFirst bool
	report                        string
}

// analyse one guarded body: its statements, and the name of the guarded callee
func c13rAnalyse(where string, body []ast.Stmt, work string) (c13Site, error) {
	var s c13Site
	s.report = "RNone"
	// the deferred literal that calls recover()
	var def *ast.FuncLit
	defIdx := -1
	for i, st := range body {
		d, ok := st.(*ast.DeferStmt)
		if !ok {
			continue
		}
		l, ok := d.Call.Fun.(*ast.FuncLit)
		if !ok {
			continue
		}
		if c13rContainsCall(l.Body, "recover") {
			if def != nil {
				return s, fmt.Errorf("%s: two deferred functions call recover()", where)
			}
			def, defIdx = l, i
		}
	}
	if def == nil {
		// recognised: nothing recovers here
		return s, nil
	}
	// a deferred call registered after the recovering one runs before it
	s.reportFirst = true
	for i, st := range body {
		if _, ok := st.(*ast.DeferStmt); ok && i > defIdx {
			s.reportFirst = false
		}
	}
	// v := safe.PanicValue(recover(), FLAG)  |  v := recover()   — as a statement or as the init of the if
	var v, flag string
	var test *ast.IfStmt
	bind := func(st ast.Stmt) bool {
		as, ok := st.(*ast.AssignStmt)
		if !ok || as.Tok != token.DEFINE || len(as.Lhs) != 1 || len(as.Rhs) != 1 {
			return false
		}
		id, ok := as.Lhs[0].(*ast.Ident)
		if !ok {
			return false
		}
		if c, ok := c13rIsCall(as.Rhs[0], "recover"); ok && len(c.Args) == 0 {
			v = id.Name
			return true
		}
		if c, ok := c13rIsCall(as.Rhs[0], "safe.PanicValue"); ok && len(c.Args) == 2 {
			if r, ok := c13rIsCall(c.Args[0], "recover"); ok && len(r.Args) == 0 {
				if f, ok := c.Args[1].(*ast.Ident); ok {
					v, flag = id.Name, f.Name
					return true
				}
			}
		}
		return false
	}
	for _, st := range def.Body.List {
		if v == "" && bind(st) {
			continue
		}
		if is, ok := st.(*ast.IfStmt); ok && test == nil {
			if v == "" && is.Init != nil && bind(is.Init) {
				test = is
			} else if v != "" {
				test = is
			}
			if test != nil && types.ExprString(test.Cond) != v+" != nil" {
				return s, fmt.Errorf("%s: the deferred function tests %s, expected %s != nil", where, types.ExprString(test.Cond), v)
			}
		}
	}
	if v == "" || test == nil {
		return s, fmt.Errorf("%s: the deferred function does not bind the result of recover() and test it", where)
	}
	if test.Else != nil {
		return s, fmt.Errorf("%s: the test of the recovered value has an else branch", where)
	}
	s.guard = flag != ""
	// where safe.NewPanicErr(v, ..) goes
	errVar := ""
	for _, st := range test.Body.List {
		switch x := st.(type) {
		case *ast.AssignStmt:
			if len(x.Lhs) != 1 || len(x.Rhs) != 1 {
				continue
			}
			isNew := func(e ast.Expr) bool {
				c, ok := c13rIsCall(e, "safe.NewPanicErr")
				return ok && len(c.Args) >= 1 && types.ExprString(c.Args[0]) == v
			}
			lhs := types.ExprString(x.Lhs[0])
			switch {
			case isNew(x.Rhs[0]) && strings.HasSuffix(lhs, ".err"):
				s.report = "RTaskErr"
			case isNew(x.Rhs[0]) && x.Tok == token.DEFINE:
				errVar = lhs
			case strings.HasSuffix(lhs, ".item"):
				// elem.item = streamItem[T]{err: safe.NewPanicErr(v, ..)}
				if cl, ok := x.Rhs[0].(*ast.CompositeLit); ok {
					for _, el := range cl.Elts {
						if kv, ok := el.(*ast.KeyValueExpr); ok && types.ExprString(kv.Key) == "err" && isNew(kv.Value) {
							s.report = "RItem"
						}
					}
				}
			case lhs == "_" && errVar != "":
				// _ = ret.send(chunk, e)
				if c, ok := x.Rhs[0].(*ast.CallExpr); ok && strings.HasSuffix(types.ExprString(c.Fun), ".send") && len(c.Args) == 2 && types.ExprString(c.Args[1]) == errVar {
					s.report = "RItem"
				}
			}
		case *ast.ExprStmt:
			if c, ok := x.X.(*ast.CallExpr); ok && errVar != "" && strings.HasSuffix(types.ExprString(c.Fun), ".send") && len(c.Args) == 2 && types.ExprString(c.Args[1]) == errVar {
				s.report = "RItem"
			}
		}
	}
	// the flag: FLAG := false before the defer, FLAG = true once, after the guarded work, not before
	if flag != "" {
		initOK, trueAt, workAt := false, -1, -1
		for i, st := range body {
			if as, ok := st.(*ast.AssignStmt); ok && len(as.Lhs) == 1 && len(as.Rhs) == 1 && types.ExprString(as.Lhs[0]) == flag {
				val := types.ExprString(as.Rhs[0])
				switch {
				case as.Tok == token.DEFINE && val == "false" && i < defIdx:
					initOK = true
				case as.Tok == token.ASSIGN && val == "true":
					if trueAt >= 0 {
						return s, fmt.Errorf("%s: %s is set to true twice", where, flag)
					}
					trueAt = i
				default:
					return s, fmt.Errorf("%s: unexpected assignment to %s", where, flag)
				}
				continue
			}
			if i != defIdx && c13rContainsCall(st, work) {
				workAt = i
			}
		}
		if workAt < 0 {
			return s, fmt.Errorf("%s: the guarded call %s(..) was not found", where, work)
		}
		// nested blocks may not touch the flag
		touched := 0
		for i, st := range body {
			if i == defIdx {
				continue
			}
			ast.Inspect(st, func(n ast.Node) bool {
				if as, ok := n.(*ast.AssignStmt); ok {
					for _, l := range as.Lhs {
						if types.ExprString(l) == flag {
							touched++
						}
					}
				}
				return true
			})
		}
		if touched != 1+c13rBtoi(trueAt >= 0) {
			return s, fmt.Errorf("%s: %s is assigned inside a nested block", where, flag)
		}
		s.flagAfter = initOK && trueAt > workAt
	}
	return s, nil
}

func c13rBtoi(b bool) int {
	if b {
		return 1
	}
	return 0
}

func (s c13Site) coq() string {
	b := func(x bool) string {
		if x {
			return "true"
		}
		return "false"
	}
	return "mkRsite " + b(s.guard) + " " + b(s.flagAfter) + " " + b(s.reportFirst) + " " + s.report
}

func c13ExtractRecover(repo string) (string, string, error) {
	fset := token.NewFileSet()
	fm, err := c13rParse(fset, repo, "compose", "graph_manager.go")
	if err != nil {
		return "", "", err
	}
	ft, err := c13rParse(fset, repo, "compose", "tool_node.go")
	if err != nil {
		return "", "", err
	}
	fs, err := c13rParse(fset, repo, "schema", "stream.go")
	if err != nil {
		return "", "", err
	}
	type site struct {
		name string
		body func() ([]ast.Stmt, error)
		work string
	}
	// the name under which the guarded callee is known where the literal was found (a helper may take it as a
	// parameter of another name: `forwardToStream(srw.recv, srw.close)` with `recvSource func() (T, error)`)
	workName := map[string]string{}
	lit := func(site, work string, fn *ast.FuncDecl, what string, pick func(*ast.BlockStmt) *ast.FuncLit) ([]ast.Stmt, error) {
		if fn == nil || fn.Body == nil {
			return nil, fmt.Errorf("%s not found", what)
		}
		l := pick(fn.Body)
		// a body that only hands over to a private helper of the same package (`return helper(x.recv, x.close)`):
		// the literal is looked for in the helper (at most two hops)
		for hops := 0; l == nil && hops < 2; hops++ {
			h, c := c13rSoleCall(fn, fm, ft, fs)
			if h == nil {
				break
			}
			work = c13rParamFor(h, c, work)
			fn = h
			l = pick(fn.Body)
		}
		if l == nil {
			return nil, fmt.Errorf("%s: the function literal was not found", what)
		}
		workName[site] = work
		return l.Body.List, nil
	}
	sites := []site{
		{"site_executor", func() ([]ast.Stmt, error) {
			fn := c13rMethod(fm, "taskManager", "executor")
			if fn == nil || fn.Body == nil {
				return nil, fmt.Errorf("(*taskManager).executor not found")
			}
			return fn.Body.List, nil
		}, "runWrapper"},
		{"site_toolcall", func() ([]ast.Stmt, error) {
			return lit("site_toolcall", "run", c13rFunc(ft, "parallelRunToolCall"), "parallelRunToolCall", c13rGoLit)
		}, "run"},
		{"site_convert_forwarder", func() ([]ast.Stmt, error) {
			return lit("site_convert_forwarder", "recv", c13rMethod(fs, "streamReaderWithConvert", "toStream"), "(*streamReaderWithConvert).toStream", c13rGoLit)
		}, "recv"},
		{"site_child_forwarder", func() ([]ast.Stmt, error) {
			return lit("site_child_forwarder", "recv", c13rMethod(fs, "childStreamReader", "toStream"), "(*childStreamReader).toStream", c13rGoLit)
		}, "recv"},
		{"site_copy_peek", func() ([]ast.Stmt, error) {
			return lit("site_copy_peek", "Recv", c13rMethod(fs, "parentStreamReader", "peek"), "(*parentStreamReader).peek", c13rOnceLit)
		}, "Recv"},
	}
	var b strings.Builder
	b.WriteString("(* Gen/RecoverSites.v — GENERATED by tools/go2v (extractor \"recoversites\") from compose/graph_manager.go,\n")
	b.WriteString("   compose/tool_node.go and schema/stream.go (the five recover sites). Do not edit. *)\n")
	b.WriteString("From Eino Require Import Base.Util Model.Errors Model.ErrorsRecoverLib.\n\n")
	for _, st := range sites {
		body, err := st.body()
		if err != nil {
			return "", "", err
		}
		work := st.work
		if w, ok := workName[st.name]; ok {
			work = w
		}
		body, work = c13rFollow(body, work, fm, ft, fs)
		s, err := c13rAnalyse(st.name, body, work)
		if err != nil {
			return "", "", err
		}
		b.WriteString("Definition " + st.name + " : rsite := " + s.coq() + ".\n")
	}
	return "RecoverSites.v", b.String(), nil
}
