// go2v — regenerate the Gallina tables under coq/Gen from the Go sources of /repo.
//
//	go run ./go2v -repo /repo -out ../coq/Gen <name> ...
//
// Each name selects one extractor (registered from its own file of this package by
// register(name, fn)).  An extractor re-reads the few places where the code *is a table*
// with go/ast (stdlib only, no type checking, no build of /repo) and returns the text of
// one Gen/<File>.v.  The file is written only if its content changed.  If the source no
// longer has the shape the extractor knows, the exit status is 1 ("translator tie
// unavailable") and the Gen file is replaced by a neutral one that just re-exports the
// model's own tables (so that a table left behind by a run on another tree state is never
// compared): an unrecognised shape is not a finding, a recognised-but-different table is
// (Proofs/GenAgree*.v stop compiling).
package main

import (
	"flag"
	"fmt"
	"os"
	"path/filepath"
	"sort"
)

type extractor func(repo string) (file string, content string, err error)

var extractors = map[string]extractor{}

// neutral Gen file per extractor (file name, content), written when the shape is not recognised
var fallbacks = map[string][2]string{}

func register(name string, f extractor)           { extractors[name] = f }
func registerFallback(name, file, content string) { fallbacks[name] = [2]string{file, content} }

func main() {
	repo := flag.String("repo", "/repo", "root of the eino working tree")
	out := flag.String("out", "", "output directory (coq/Gen)")
	flag.Parse()
	if *out == "" {
		fmt.Fprintln(os.Stderr, "go2v: -out required")
		os.Exit(2)
	}
	names := flag.Args()
	if len(names) == 0 {
		for n := range extractors {
			names = append(names, n)
		}
		sort.Strings(names)
	}
	if err := os.MkdirAll(*out, 0o755); err != nil {
		fmt.Fprintln(os.Stderr, "go2v:", err)
		os.Exit(2)
	}
	failed := false
	for _, n := range names {
		f, ok := extractors[n]
		if !ok {
			fmt.Fprintf(os.Stderr, "go2v: %s: no such extractor\n", n)
			failed = true
			continue
		}
		file, content, err := f(*repo)
		if err != nil {
			fmt.Fprintf(os.Stderr, "go2v: %s: source shape not recognised: %v\n", n, err)
			failed = true
			if fb, ok := fallbacks[n]; ok {
				p := filepath.Join(*out, fb[0])
				if old, rerr := os.ReadFile(p); rerr != nil || string(old) != fb[1] {
					if werr := os.WriteFile(p, []byte(fb[1]), 0o644); werr != nil {
						fmt.Fprintln(os.Stderr, "go2v:", werr)
						os.Exit(2)
					}
					fmt.Printf("go2v: %s: wrote neutral %s (tie unavailable)\n", n, fb[0])
				}
			}
			continue
		}
		p := filepath.Join(*out, file)
		if old, err := os.ReadFile(p); err == nil && string(old) == content {
			fmt.Printf("go2v: %s: %s unchanged\n", n, file)
			continue
		}
		if err := os.WriteFile(p, []byte(content), 0o644); err != nil {
			fmt.Fprintln(os.Stderr, "go2v:", err)
			os.Exit(2)
		}
		fmt.Printf("go2v: %s: wrote %s\n", n, file)
	}
	if failed {
		os.Exit(1)
	}
}
