package main

// The neutral Gen/ToolNode.v of extractor "toolnode" (written when the source shape is not recognised): the
// reference translation, with tie_available = false.  Regenerate after a change of the translator's output
// format: run the extractor on the reference tree and paste coq/Gen/ToolNode.v below (header replaced).
const c17NeutralToolNode = `(* Gen/ToolNode.v — translator tie UNAVAILABLE: tools/go2v (extractor "toolnode") did not recognise the shape of
   compose/tool_node.go / schema/message.go.  Nothing of the source is compared: this is the reference translation
   (of the tree the tie was built on) that Proofs/GenAgreeC17.v is known to hold for. *)
From Eino Require Import Base.Util Model.Tools Model.ToolsPar Model.ToolsGenLib.

Definition tie_available : bool := false.

(* schema.ToolMessage: a non-nil message of role Tool *)
Definition ToolMessage (content toolCallID : string) : option tmsg := Some (mk_tool_message content toolCallID).

(* parallelRunToolCall (goroutines: not translated as code; its shape) *)
Definition par_single_len : Z := 1%Z.          (* if len(tasks) == _ { run(&tasks[_]); return } *)
Definition par_single_index : Z := 0%Z.
Definition par_spawn_from : Z := 1%Z.          (* for i := _; i < len(tasks); i++ { wg.Add(1); go ...(&tasks[_]) } *)
Definition par_spawn_cell (i : Z) : Z := i.
Definition par_inline_index : Z := 0%Z.       (* then run(&tasks[_]) on the caller's goroutine, then wg.Wait() *)
Definition par_goroutine_prog : list gact := [GRun; GRecover; GDone].   (* the body, then the deferred calls, last deferred first *)
Definition par_options_handed_on : bool := true.   (* every run of a task is handed the call's tool options *)

Section Gen.
  (* what is not translated: the tool values (their Info, which run interfaces they implement, their run methods), the
     tool options, executorMeta, the runnable packers and what running one means, and the semantics of
     parallelRunToolCall (Model/ToolsPar.v) *)
  Variables BT TOPT META RP : Type.
  Variable executorMeta_opaque : META.
  Variable newRunnablePacker : option (CTX -> string -> list TOPT -> tres) -> option (CTX -> string -> list TOPT -> sres) ->
                               option unit -> option unit -> bool -> option RP.
  Variable BT_Info : BT -> CTX -> res ToolInfo.
  Variables assert_StreamableTool assert_InvokableTool : BT -> option BT.
  Variable BT_StreamableRun : option BT -> option (CTX -> string -> list TOPT -> sres).
  Variable BT_InvokableRun : option BT -> option (CTX -> string -> list TOPT -> tres).
  Variable parseExecutorInfoFromComponent : unit -> option BT -> option META.
  Variable executorMeta_isComponentCallbackEnabled : option META -> bool.
  Variable RP_Invoke : option RP -> CTX -> string -> list TOPT -> res (string * option N).
  Variable RP_Stream : option RP -> CTX -> string -> list TOPT -> res (option SR * option N).
  Variable parallelRunToolCall : CTX -> (CTX -> toolCallTask META RP -> list TOPT -> res (toolCallTask META RP)) ->
                                 list (toolCallTask META RP) -> list TOPT -> res (list (toolCallTask META RP)).

  Definition convTools (ctx : CTX) (tools : list BT) : res (toolsTuple META RP) :=
    do x1 <- sl_make None (sl_len tools);
    do x2 <- sl_make None (sl_len tools);
    let ret := (set_toolsTuple_rps (set_toolsTuple_meta (set_toolsTuple_indexes zero_toolsTuple map_empty) x1) x2) in
    do ret <- for_up 0%Z (sl_len tools) (fun idx ret =>
      do bt <- sl_get tools idx;
      do tl <- BT_Info bt ctx;
      let toolName := (ToolInfo_Name tl) in
      let st : option BT := None in
      let it : option BT := None in
      let invokable : option (CTX -> string -> list TOPT -> tres) := None in
      let streamable : option (CTX -> string -> list TOPT -> sres) := None in
      let ok : bool := false in
      let meta : option META := None in
      let st := (assert_StreamableTool bt) in
      let ok := (negb (is_nil st)) in
      do streamable <- (if ok then
        let streamable := (BT_StreamableRun st) in
        Ok streamable
      else
        Ok streamable);
      let it := (assert_InvokableTool bt) in
      let ok := (negb (is_nil it)) in
      do invokable <- (if ok then
        let invokable := (BT_InvokableRun it) in
        Ok invokable
      else
        Ok invokable);
      if ((is_nil st) && (is_nil it)) then
      Err (e_at "convTools"%string 0%nat)
    else
      do meta <- (if (negb (is_nil st)) then
        let meta := (parseExecutorInfoFromComponent components_ComponentOfTool st) in
        Ok meta
      else
        let meta := (parseExecutorInfoFromComponent components_ComponentOfTool it) in
        Ok meta);
      let ret := (set_toolsTuple_indexes ret (map_set (toolsTuple_indexes ret) toolName idx)) in
      do x3 <- sl_set (toolsTuple_meta ret) idx meta;
      let ret := (set_toolsTuple_meta ret x3) in
      do x4 <- sl_set (toolsTuple_rps ret) idx (newRunnablePacker invokable streamable None None (negb (executorMeta_isComponentCallbackEnabled meta)));
      let ret := (set_toolsTuple_rps ret x4) in
      Ok ret) ret;
    Ok ret
  .

  Definition NewToolNode (ctx : CTX) (conf : ToolsNodeConfig BT) : res (ToolsNode META RP) :=
    do tuple <- convTools ctx (ToolsNodeConfig_Tools conf);
    Ok (set_ToolsNode_unknownToolHandler (set_ToolsNode_tuple zero_ToolsNode tuple) (ToolsNodeConfig_UnknownToolsHandler conf))
  .

  Definition getToolsNodeOptions (opts : list (toolsNodeOptions BT TOPT -> toolsNodeOptions BT TOPT)) : toolsNodeOptions BT TOPT :=
    let o := (set_toolsNodeOptions_ToolOptions zero_toolsNodeOptions []) in
    let o := fold_left (fun o opt =>
      let o := (opt o) in
      o) opts o in
    o
  .

  Definition WithToolOption (opts : list TOPT) : toolsNodeOptions BT TOPT -> toolsNodeOptions BT TOPT :=
    (fun o =>
      let o := (set_toolsNodeOptions_ToolOptions o ((toolsNodeOptions_ToolOptions o) ++ opts)%list) in
      o)
  .

  Definition WithToolList (tool : option (list BT)) : toolsNodeOptions BT TOPT -> toolsNodeOptions BT TOPT :=
    (fun o =>
      let o := (set_toolsNodeOptions_ToolList o tool) in
      o)
  .

  Definition newUnknownToolTask (name arg callID : string) (unknownToolHandler : option (CTX -> string -> string -> tres)) : toolCallTask META RP :=
    (set_toolCallTask_callID (set_toolCallTask_arg (set_toolCallTask_name (set_toolCallTask_meta (set_toolCallTask_r zero_toolCallTask (newRunnablePacker (Some (fun ctx input opts =>
                    (call_func3 unknownToolHandler ctx name input))) None None None true)) (Some executorMeta_opaque)) name) arg) callID)
  .

  Definition genToolCallTasks (tn : ToolsNode META RP) (tuple : toolsTuple META RP) (input : Message) : res (list (toolCallTask META RP)) :=
    if (negb (String.eqb (Message_Role input) schema_Assistant)) then
    Err (e_at "genToolCallTasks"%string 0%nat)
    else
    let n := (sl_len (Message_ToolCalls input)) in
    if (Z.eqb n 0%Z) then
    Err (e_at "genToolCallTasks"%string 1%nat)
    else
    do x1 <- sl_make zero_toolCallTask n;
    let toolCallTasks := x1 in
    do toolCallTasks <- for_up 0%Z n (fun i toolCallTasks =>
      do x2 <- sl_get (Message_ToolCalls input) i;
      let toolCall := x2 in
      match map_get (toolsTuple_indexes tuple) (FunctionCall_Name (ToolCall_Function toolCall)) with
      | None =>
        if (is_nil (ToolsNode_unknownToolHandler tn)) then
        Err (e_at "genToolCallTasks"%string 2%nat)
      else
        do toolCallTasks <- sl_set toolCallTasks i (newUnknownToolTask (FunctionCall_Name (ToolCall_Function toolCall)) (FunctionCall_Arguments (ToolCall_Function toolCall)) (ToolCall_ID toolCall) (ToolsNode_unknownToolHandler tn));
        Ok toolCallTasks
      | Some index =>
        do x3 <- sl_get (toolsTuple_rps tuple) index;
        do toolCallTasks <- sl_upd toolCallTasks i (fun x4 => set_toolCallTask_r x4 x3);
        do x5 <- sl_get (toolsTuple_meta tuple) index;
        do toolCallTasks <- sl_upd toolCallTasks i (fun x6 => set_toolCallTask_meta x6 x5);
        do toolCallTasks <- sl_upd toolCallTasks i (fun x7 => set_toolCallTask_name x7 (FunctionCall_Name (ToolCall_Function toolCall)));
        do toolCallTasks <- sl_upd toolCallTasks i (fun x8 => set_toolCallTask_arg x8 (FunctionCall_Arguments (ToolCall_Function toolCall)));
        do toolCallTasks <- sl_upd toolCallTasks i (fun x9 => set_toolCallTask_callID x9 (ToolCall_ID toolCall));
        Ok toolCallTasks
      end) toolCallTasks;
    Ok toolCallTasks
  .

  Definition runToolCallTaskByInvoke (ctx : CTX) (task : toolCallTask META RP) (opts : list TOPT) : res (toolCallTask META RP) :=
    let ctx := (callbacks_ReuseHandlers ctx) in
    let ctx := (setToolCallInfo ctx (set_toolCallInfo_toolCallID zero_toolCallInfo (toolCallTask_callID task))) in
    do (x1, x2) <- (RP_Invoke (toolCallTask_r task) ctx (toolCallTask_arg task) opts);
    let task := (set_toolCallTask_output task x1) in
    let task := (set_toolCallTask_err task x2) in
    Ok task
  .

  Definition runToolCallTaskByStream (ctx : CTX) (task : toolCallTask META RP) (opts : list TOPT) : res (toolCallTask META RP) :=
    let ctx := (callbacks_ReuseHandlers ctx) in
    let ctx := (setToolCallInfo ctx (set_toolCallInfo_toolCallID zero_toolCallInfo (toolCallTask_callID task))) in
    do (x1, x2) <- (RP_Stream (toolCallTask_r task) ctx (toolCallTask_arg task) opts);
    let task := (set_toolCallTask_sOutput task x1) in
    let task := (set_toolCallTask_err task x2) in
    Ok task
  .

  Definition Invoke (tn : ToolsNode META RP) (ctx : CTX) (input : Message) (opts : list (toolsNodeOptions BT TOPT -> toolsNodeOptions BT TOPT)) : res (list (option tmsg)) :=
    let opt := (getToolsNodeOptions opts) in
    let tuple := (ToolsNode_tuple tn) in
    do tuple <- (if (negb (is_nil (toolsNodeOptions_ToolList opt))) then
      do tuple <- convTools ctx (slice_of (toolsNodeOptions_ToolList opt));
      Ok tuple
    else
      Ok tuple);
    do tasks <- genToolCallTasks tn tuple input;
    do tasks <- parallelRunToolCall ctx runToolCallTaskByInvoke tasks (toolsNodeOptions_ToolOptions opt);
    let n := (sl_len tasks) in
    do x1 <- sl_make None n;
    let output := x1 in
    do output <- for_up 0%Z n (fun i output =>
      do x2 <- sl_get tasks i;
      if (negb (is_nil (toolCallTask_err x2))) then
      do x3 <- sl_get tasks i;
      ret_err (toolCallTask_err x3)
    else
      do x4 <- sl_get tasks i;
      do x5 <- sl_get tasks i;
      do output <- sl_set output i (ToolMessage (toolCallTask_output x4) (toolCallTask_callID x5));
      Ok output) output;
    Ok output
  .

  Definition Stream (tn : ToolsNode META RP) (ctx : CTX) (input : Message) (opts : list (toolsNodeOptions BT TOPT -> toolsNodeOptions BT TOPT)) : res (merged_stream (list (option tmsg))) :=
    let opt := (getToolsNodeOptions opts) in
    let tuple := (ToolsNode_tuple tn) in
    do tuple <- (if (negb (is_nil (toolsNodeOptions_ToolList opt))) then
      do tuple <- convTools ctx (slice_of (toolsNodeOptions_ToolList opt));
      Ok tuple
    else
      Ok tuple);
    do tasks <- genToolCallTasks tn tuple input;
    do tasks <- parallelRunToolCall ctx runToolCallTaskByStream tasks (toolsNodeOptions_ToolOptions opt);
    let n := (sl_len tasks) in
    do x1 <- sl_make None n;
    let sOutput := x1 in
    do sOutput <- for_up 0%Z n (fun i sOutput =>
      do x2 <- sl_get tasks i;
      if (negb (is_nil (toolCallTask_err x2))) then
      do x3 <- sl_get tasks i;
      ret_err (toolCallTask_err x3)
    else
      let index := i in
      do x4 <- sl_get tasks i;
      let callID := (toolCallTask_callID x4) in
      let convert := (fun s =>
        do x5 <- sl_make None n;
        let ret := x5 in
        do ret <- sl_set ret index (ToolMessage s callID);
        Ok ret) in
      do x6 <- sl_get tasks i;
      do sOutput <- sl_set sOutput i (StreamReaderWithConvert (toolCallTask_sOutput x6) convert);
      Ok sOutput) sOutput;
    Ok (MergeStreamReaders sOutput)
  .

End Gen.
`
