package main

// Source normalisation shared by the C11 extractors (statelock, stateplumb, stateaddnode, statetask):
// behaviour-preserving rewrites of the Go source are absorbed on the syntax tree BEFORE the
// statement-by-statement translation, so that the translated program (and hence the agreement proof)
// does not depend on how the code is cut into helpers or how a test is spelled.
//
//  1. Helper inlining (c11Inliner).  A statement of a translated function that calls an unexported
//     function / method of the same file whose body is relevant to the extractor is replaced by that
//     body, parameters renamed to the arguments (the receiver to the caller's receiver):
//         h(a…)                                   helper without results; `return` = end of the block
//         x… = h(a…) / x… := h(a…)                a `return e…, nil` assigns e… to x… (nothing when e is the
//           [if err != nil { F }]                 parameter that was passed x: context threading) and ends the
//                                                 block; a `return …, <non-nil>` becomes the caller's F
//         if err := h(a…); err != nil { F }       the same
//         return h(a…)                            the helper's returns are the caller's
//     A helper that defers, starts a goroutine, contains a closure or a label, assigns to a parameter
//     that it does not hand back, or returns from inside a loop is not inlined: error = tie unavailable.
//  2. Early exits (c11ElimExits): `if c { …; return }; rest` inside an inlined block and
//     `if c { continue }; rest` inside a loop body become `if c { … } else { rest }` / `if !c { rest }`.
//  3. Conditions (c11NormCond): `x == false` / `x != true` -> `!x`, `x == true` / `x != false` -> `x`,
//     negations pushed inwards (`!(a || b)` -> `!a && !b`, `!(x == nil)` -> `x != nil`), parentheses dropped.
//  4. Statements (c11NormStmts): a tagless `switch { case c: … }` -> `if c { … } else if …`;
//     `if a { if b { X } }` (nothing else in the outer block, no else, no init) -> `if a && b { X }` on request.
//
// Everything here is syntax only (go/ast, no type checker).  Soundness of (1): the body is spliced in
// where the call stood, so the order of the statements the extractors translate is the order of
// execution; what could make an inlined body behave differently from the call (deferred calls that would
// run at the helper's return, assignments to a by-value parameter that the caller never sees) is refused.

import (
	"fmt"
	"go/ast"
	"go/parser"
	"go/printer"
	"go/token"
	"go/types"
	"os"
	"path/filepath"
	"strings"
)

// ---------------------------------------------------------------- conditions

func c11Unparen(e ast.Expr) ast.Expr {
	for {
		p, ok := e.(*ast.ParenExpr)
		if !ok {
			return e
		}
		e = p.X
	}
}

func c11IsBoolLit(e ast.Expr, v string) bool {
	id, ok := c11Unparen(e).(*ast.Ident)
	return ok && id.Name == v
}

func c11Paren(e ast.Expr) ast.Expr {
	switch e.(type) {
	case *ast.Ident, *ast.SelectorExpr, *ast.CallExpr, *ast.ParenExpr, *ast.IndexExpr:
		return e
	}
	return &ast.ParenExpr{X: e}
}

// syntactic negation, pushed inwards
func c11Negate(e ast.Expr) ast.Expr {
	e = c11Unparen(e)
	switch x := e.(type) {
	case *ast.UnaryExpr:
		if x.Op == token.NOT {
			return c11NormCond(x.X)
		}
	case *ast.BinaryExpr:
		switch x.Op {
		case token.EQL:
			return c11NormCond(&ast.BinaryExpr{X: x.X, Op: token.NEQ, Y: x.Y})
		case token.NEQ:
			return c11NormCond(&ast.BinaryExpr{X: x.X, Op: token.EQL, Y: x.Y})
		case token.LAND:
			return &ast.BinaryExpr{X: c11Paren(c11Negate(x.X)), Op: token.LOR, Y: c11Paren(c11Negate(x.Y))}
		case token.LOR:
			return &ast.BinaryExpr{X: c11Paren(c11Negate(x.X)), Op: token.LAND, Y: c11Paren(c11Negate(x.Y))}
		}
	}
	return &ast.UnaryExpr{Op: token.NOT, X: c11Paren(c11NormCond(e))}
}

func c11NormCond(e ast.Expr) ast.Expr {
	e = c11Unparen(e)
	switch x := e.(type) {
	case *ast.UnaryExpr:
		if x.Op == token.NOT {
			in := c11Unparen(x.X)
			switch in.(type) {
			case *ast.UnaryExpr, *ast.BinaryExpr:
				if b, ok := in.(*ast.BinaryExpr); ok && b.Op != token.EQL && b.Op != token.NEQ && b.Op != token.LAND && b.Op != token.LOR {
					return e
				}
				if u, ok := in.(*ast.UnaryExpr); ok && u.Op != token.NOT {
					return e
				}
				return c11Negate(in)
			}
			return &ast.UnaryExpr{Op: token.NOT, X: in}
		}
	case *ast.BinaryExpr:
		switch x.Op {
		case token.LAND, token.LOR:
			return &ast.BinaryExpr{X: c11Paren(c11NormCond(x.X)), Op: x.Op, Y: c11Paren(c11NormCond(x.Y))}
		case token.EQL, token.NEQ:
			pos := x.Op == token.EQL
			for _, sw := range []bool{false, true} {
				a, b := x.X, x.Y
				if sw {
					a, b = b, a
				}
				if c11IsBoolLit(b, "true") {
					if pos {
						return c11NormCond(a)
					}
					return c11Negate(a)
				}
				if c11IsBoolLit(b, "false") {
					if pos {
						return c11Negate(a)
					}
					return c11NormCond(a)
				}
			}
		}
	}
	return e
}

// ---------------------------------------------------------------- statements

type c11NormOpts struct {
	mergeIfs bool            // `if a { if b { X } }` -> `if a && b { X }`
	keep     map[string]bool // functions that are translated as calls, never inlined
	// deferOK: the translation of the caller ignores deferred calls altogether (taskManager.executor: the
	// recovery of a panic and the hand-over of the finished task are C13's / C03's subject), so a helper
	// that defers - also a closure - may be inlined, its defer statements kept as they are
	deferOK bool
}

func c11HasBranch(n ast.Node, toks ...token.Token) bool {
	found := false
	ast.Inspect(n, func(x ast.Node) bool {
		if _, ok := x.(*ast.FuncLit); ok {
			return false
		}
		if b, ok := x.(*ast.BranchStmt); ok {
			for _, t := range toks {
				if b.Tok == t {
					found = true
				}
			}
		}
		return !found
	})
	return found
}

// tagless switch -> if / else if chain (nil if the switch is of another kind)
func c11SwitchToIf(sw *ast.SwitchStmt) ast.Stmt {
	if sw.Tag != nil || sw.Init != nil || c11HasBranch(sw.Body, token.BREAK, token.FALLTHROUGH) {
		return nil
	}
	var def *ast.CaseClause
	var clauses []*ast.CaseClause
	for _, s := range sw.Body.List {
		cc, ok := s.(*ast.CaseClause)
		if !ok {
			return nil
		}
		if cc.List == nil {
			def = cc
		} else {
			if def != nil {
				return nil // default in the middle: keep the source order simple
			}
			clauses = append(clauses, cc)
		}
	}
	var tail ast.Stmt
	if def != nil {
		tail = &ast.BlockStmt{List: def.Body}
	}
	for i := len(clauses) - 1; i >= 0; i-- {
		cc := clauses[i]
		cond := cc.List[0]
		for _, c := range cc.List[1:] {
			cond = &ast.BinaryExpr{X: c11Paren(cond), Op: token.LOR, Y: c11Paren(c)}
		}
		tail = &ast.IfStmt{Cond: cond, Body: &ast.BlockStmt{List: cc.Body}, Else: tail}
	}
	if tail == nil {
		return &ast.EmptyStmt{}
	}
	if b, ok := tail.(*ast.BlockStmt); ok { // only a default clause
		return &ast.IfStmt{Cond: ast.NewIdent("true"), Body: b}
	}
	return tail
}

func c11NormStmts(l []ast.Stmt, o c11NormOpts) []ast.Stmt {
	var out []ast.Stmt
	for _, s := range l {
		out = append(out, c11NormStmt(s, o))
	}
	return out
}

func c11NormStmt(s ast.Stmt, o c11NormOpts) ast.Stmt {
	switch x := s.(type) {
	case *ast.SwitchStmt:
		if r := c11SwitchToIf(x); r != nil {
			return c11NormStmt(r, o)
		}
	case *ast.BlockStmt:
		return &ast.BlockStmt{List: c11NormStmts(x.List, o)}
	case *ast.IfStmt:
		n := &ast.IfStmt{Init: x.Init, Cond: c11NormCond(x.Cond), Body: &ast.BlockStmt{List: c11NormStmts(x.Body.List, o)}}
		if x.Else != nil {
			n.Else = c11NormStmt(x.Else, o)
		}
		// `if c { } else { B }` -> `if !c { B }`
		if len(n.Body.List) == 0 && n.Else != nil && n.Init == nil {
			var eb []ast.Stmt
			switch e := n.Else.(type) {
			case *ast.BlockStmt:
				eb = e.List
			default:
				eb = []ast.Stmt{e}
			}
			return c11NormStmt(&ast.IfStmt{Cond: c11Negate(n.Cond), Body: &ast.BlockStmt{List: eb}}, o)
		}
		if o.mergeIfs && n.Else == nil && n.Init == nil && len(n.Body.List) == 1 {
			if in, ok := n.Body.List[0].(*ast.IfStmt); ok && in.Else == nil && in.Init == nil {
				return &ast.IfStmt{Cond: &ast.BinaryExpr{X: c11Paren(n.Cond), Op: token.LAND, Y: c11Paren(in.Cond)}, Body: in.Body}
			}
		}
		return n
	case *ast.RangeStmt:
		body := c11NormStmts(x.Body.List, o)
		if nb, err := c11ElimExits(body, c11IsContinue, nil); err == nil {
			body = nb
		}
		return &ast.RangeStmt{Key: x.Key, Value: x.Value, Tok: x.Tok, X: x.X, Body: &ast.BlockStmt{List: body}}
	case *ast.ForStmt:
		body := c11NormStmts(x.Body.List, o)
		if nb, err := c11ElimExits(body, c11IsContinue, nil); err == nil {
			body = nb
		}
		return &ast.ForStmt{Init: x.Init, Cond: x.Cond, Post: x.Post, Body: &ast.BlockStmt{List: body}}
	}
	return s
}

func c11IsContinue(s ast.Stmt) bool {
	b, ok := s.(*ast.BranchStmt)
	return ok && b.Tok == token.CONTINUE && b.Label == nil
}

// does the statement contain (outside closures and, for `continue`, outside inner loops) a statement
// for which isExit holds
func c11ContainsExit(n ast.Node, isExit func(ast.Stmt) bool) bool {
	found := false
	ast.Inspect(n, func(x ast.Node) bool {
		if _, ok := x.(*ast.FuncLit); ok {
			return false
		}
		if s, ok := x.(ast.Stmt); ok && isExit(s) {
			found = true
		}
		return !found
	})
	return found
}

// c11ElimExits removes the early exits of a statement list: an exit statement ends the list, an
// `if c { S…; exit }` followed by R… becomes `if c { S… } else { R… }` (`if !c { R… }` when S is empty).
// replace, when given, rewrites a non-exit statement into a list (used for the failure returns).
func c11ElimExits(l []ast.Stmt, isExit func(ast.Stmt) bool, replace func(ast.Stmt) ([]ast.Stmt, bool)) ([]ast.Stmt, error) {
	var out []ast.Stmt
	for i, s := range l {
		if isExit(s) {
			return out, nil
		}
		if replace != nil {
			if r, ok := replace(s); ok {
				return append(out, r...), nil // a replaced statement leaves the function: the rest is unreachable
			}
		}
		if !c11ContainsExit(s, isExit) && (replace == nil || !c11ContainsReplace(s, replace)) {
			out = append(out, s)
			continue
		}
		var thenL, elseL []ast.Stmt
		var err error
		var cond ast.Expr
		var init ast.Stmt
		switch x := s.(type) {
		case *ast.IfStmt:
			cond, init = x.Cond, x.Init
			thenL, err = c11ElimExits(x.Body.List, isExit, replace)
			if err != nil {
				return nil, err
			}
			thenLeaves := c11Leaves(x.Body.List, isExit, replace)
			switch e := x.Else.(type) {
			case nil:
			case *ast.BlockStmt:
				elseL, err = c11ElimExits(e.List, isExit, replace)
				if err == nil && !c11Leaves(e.List, isExit, replace) && c11ContainsExit(e, isExit) {
					err = fmt.Errorf("early exit in an else branch that also falls through")
				}
			case *ast.IfStmt:
				elseL, err = c11ElimExits([]ast.Stmt{e}, isExit, replace)
			}
			if err != nil {
				return nil, err
			}
			rest, err := c11ElimExits(l[i+1:], isExit, replace)
			if err != nil {
				return nil, err
			}
			elseLeaves := false
			switch e := x.Else.(type) {
			case *ast.BlockStmt:
				elseLeaves = c11Leaves(e.List, isExit, replace)
			}
			switch {
			case thenLeaves && x.Else == nil:
				// if c { S; exit }; R   ->   if c { S } else { R }
				if len(thenL) == 0 && init == nil {
					if len(rest) > 0 {
						out = append(out, &ast.IfStmt{Cond: c11Negate(cond), Body: &ast.BlockStmt{List: rest}})
					}
				} else {
					n := &ast.IfStmt{Init: init, Cond: cond, Body: &ast.BlockStmt{List: thenL}}
					if len(rest) > 0 {
						n.Else = &ast.BlockStmt{List: rest}
					}
					out = append(out, n)
				}
				return out, nil
			case thenLeaves && !elseLeaves:
				// if c { S; exit } else { T }; R   ->   if c { S } else { T; R }
				n := &ast.IfStmt{Init: init, Cond: cond, Body: &ast.BlockStmt{List: thenL}}
				if tl := append(append([]ast.Stmt{}, elseL...), rest...); len(tl) > 0 {
					n.Else = &ast.BlockStmt{List: tl}
				}
				out = append(out, n)
				return out, nil
			case !thenLeaves && elseLeaves:
				// if c { S } else { T; exit }; R   ->   if c { S; R } else { T }
				n := &ast.IfStmt{Init: init, Cond: cond, Body: &ast.BlockStmt{List: append(append([]ast.Stmt{}, thenL...), rest...)}}
				if len(elseL) > 0 {
					n.Else = &ast.BlockStmt{List: elseL}
				}
				out = append(out, n)
				return out, nil
			case thenLeaves && elseLeaves:
				n := &ast.IfStmt{Init: init, Cond: cond, Body: &ast.BlockStmt{List: thenL}}
				if len(elseL) > 0 {
					n.Else = &ast.BlockStmt{List: elseL}
				}
				out = append(out, n)
				return out, nil
			}
			return nil, fmt.Errorf("early exit inside a branch that also falls through")
		}
		return nil, fmt.Errorf("early exit inside a %T", s)
	}
	return out, nil
}

func c11ContainsReplace(n ast.Node, replace func(ast.Stmt) ([]ast.Stmt, bool)) bool {
	found := false
	ast.Inspect(n, func(x ast.Node) bool {
		if _, ok := x.(*ast.FuncLit); ok {
			return false
		}
		if s, ok := x.(ast.Stmt); ok {
			if _, ok := replace(s); ok {
				found = true
			}
		}
		return !found
	})
	return found
}

// the list always ends in an exit (or a replaced = leaving statement) at its top level
func c11Leaves(l []ast.Stmt, isExit func(ast.Stmt) bool, replace func(ast.Stmt) ([]ast.Stmt, bool)) bool {
	if len(l) == 0 {
		return false
	}
	last := l[len(l)-1]
	if isExit(last) {
		return true
	}
	if replace != nil {
		if _, ok := replace(last); ok {
			return true
		}
	}
	return false
}

// ---------------------------------------------------------------- aliases

func c11PureSelector(e ast.Expr) bool {
	switch x := e.(type) {
	case *ast.Ident:
		return x.Name != "nil" && x.Name != "true" && x.Name != "false" && x.Name != "_"
	case *ast.SelectorExpr:
		return c11PureSelector(x.X)
	}
	return false
}

// c11SubstAliases replaces a local that is defined once as a copy of a field path (`v := a.b.c`, also as
// the init of an if) and never assigned again by that path, provided nothing in the function assigns to
// the path or to a part of it (then both spellings read the same value).  The definition becomes `_ = a.b.c`
// (the init of an if is dropped).
func c11SubstAliases(body *ast.BlockStmt) {
	// every assignment target of the function, as text
	var targets []string
	assignedObj := map[*ast.Object]int{}
	addrTaken := map[*ast.Object]bool{}
	ast.Inspect(body, func(n ast.Node) bool {
		switch x := n.(type) {
		case *ast.AssignStmt:
			for _, l := range x.Lhs {
				targets = append(targets, c11Sq(l))
				if id, ok := l.(*ast.Ident); ok && id.Obj != nil {
					assignedObj[id.Obj]++
				}
			}
		case *ast.IncDecStmt:
			targets = append(targets, c11Sq(x.X))
			if id, ok := x.X.(*ast.Ident); ok && id.Obj != nil {
				assignedObj[id.Obj] += 2
			}
		case *ast.RangeStmt:
			for _, e := range []ast.Expr{x.Key, x.Value} {
				if id, ok := e.(*ast.Ident); ok && id.Obj != nil {
					assignedObj[id.Obj] += 2
				}
			}
		case *ast.UnaryExpr:
			if id, ok := x.X.(*ast.Ident); ok && x.Op == token.AND && id.Obj != nil {
				addrTaken[id.Obj] = true
			}
		}
		return true
	})
	touched := func(path string) bool {
		for _, t := range targets {
			if t == path || strings.HasPrefix(path, t+".") || strings.HasPrefix(t, path+".") {
				return true
			}
		}
		return false
	}
	ren := map[*ast.Object]string{}
	var defs []*ast.AssignStmt
	ast.Inspect(body, func(n ast.Node) bool {
		as, ok := n.(*ast.AssignStmt)
		if !ok || as.Tok != token.DEFINE || len(as.Lhs) != 1 || len(as.Rhs) != 1 {
			return true
		}
		id, ok := as.Lhs[0].(*ast.Ident)
		if !ok || id.Obj == nil || id.Name == "_" || assignedObj[id.Obj] != 1 || addrTaken[id.Obj] {
			return true
		}
		if _, isSel := as.Rhs[0].(*ast.SelectorExpr); !isSel || !c11PureSelector(as.Rhs[0]) || touched(c11Sq(as.Rhs[0])) {
			return true
		}
		// the root of the path must not be reassigned either
		root := as.Rhs[0]
		for {
			sel, ok := root.(*ast.SelectorExpr)
			if !ok {
				break
			}
			root = sel.X
		}
		if rid, ok := root.(*ast.Ident); ok && rid.Obj != nil && assignedObj[rid.Obj] > 1 {
			return true
		}
		ren[id.Obj] = c11Sq(as.Rhs[0])
		defs = append(defs, as)
		return true
	})
	if len(ren) == 0 {
		return
	}
	isDef := map[*ast.AssignStmt]bool{}
	for _, d := range defs {
		isDef[d] = true
	}
	ast.Inspect(body, func(n ast.Node) bool {
		switch x := n.(type) {
		case *ast.IfStmt:
			if as, ok := x.Init.(*ast.AssignStmt); ok && isDef[as] {
				x.Init = nil
			}
		case *ast.Ident:
			if x.Obj != nil {
				if t, ok := ren[x.Obj]; ok {
					x.Name = t
				}
			}
		}
		return true
	})
	for _, d := range defs {
		d.Lhs[0] = ast.NewIdent("_")
		d.Tok = token.ASSIGN
	}
}

// ---------------------------------------------------------------- helper inlining

type c11Inliner struct {
	repo     string
	rel      []string                // path of the file the helpers are looked up in
	recv     string                  // receiver name of the function being translated ("" = none)
	relevant func(n ast.Node) bool   // is a helper's body of interest to the extractor
	inlined  map[string]int          // helper -> call sites inlined
	norm     c11NormOpts
	depth    int
}

func (in *c11Inliner) parse() (*ast.File, error) {
	return parser.ParseFile(token.NewFileSet(), filepath.Join(append([]string{in.repo}, in.rel...)...), nil, 0)
}

// the helper a call refers to: name and whether it is a method call on the caller's receiver
func (in *c11Inliner) callee(call *ast.CallExpr) (string, bool, bool) {
	switch f := call.Fun.(type) {
	case *ast.Ident:
		return f.Name, false, true
	case *ast.IndexExpr:
		return c11Ident(f.X), false, c11Ident(f.X) != ""
	case *ast.IndexListExpr:
		return c11Ident(f.X), false, c11Ident(f.X) != ""
	case *ast.SelectorExpr:
		if in.recv != "" && c11Ident(f.X) == in.recv {
			return f.Sel.Name, true, true
		}
	}
	return "", false, false
}

func c11Unexported(name string) bool {
	return name != "" && name[0] >= 'a' && name[0] <= 'z'
}

// a fresh copy of the helper's declaration with the parameters renamed to the arguments
func (in *c11Inliner) instantiate(call *ast.CallExpr) (*ast.FuncDecl, map[string]string, error) {
	name, isMethod, ok := in.callee(call)
	if !ok || !c11Unexported(name) || in.norm.keep[name] {
		return nil, nil, nil
	}
	f, err := in.parse()
	if err != nil {
		return nil, nil, nil
	}
	var fn *ast.FuncDecl
	for _, d := range f.Decls {
		if x, ok := d.(*ast.FuncDecl); ok && x.Name.Name == name && (x.Recv != nil) == isMethod && x.Body != nil {
			fn = x
		}
	}
	if fn == nil {
		return nil, nil, nil
	}
	bad := ""
	ast.Inspect(fn.Body, func(n ast.Node) bool {
		switch x := n.(type) {
		case *ast.DeferStmt:
			if in.norm.deferOK {
				return false // (not looked into)
			}
		case *ast.GoStmt:
			bad = "starts a goroutine"
		case *ast.FuncLit:
			bad = "contains a closure"
		case *ast.LabeledStmt:
			bad = "contains a label"
		case *ast.BranchStmt:
			if x.Tok == token.GOTO {
				bad = "contains a goto"
			}
		}
		return bad == ""
	})
	if bad != "" {
		return nil, nil, nil // the call stays; the extractor's own checks decide what that means
	}
	// parameters -> arguments
	var params []*ast.Ident
	for _, fl := range fn.Type.Params.List {
		if _, ok := fl.Type.(*ast.Ellipsis); ok {
			return nil, nil, nil
		}
		if len(fl.Names) == 0 {
			params = append(params, nil)
		}
		for _, n := range fl.Names {
			params = append(params, n)
		}
	}
	if len(params) != len(call.Args) || call.Ellipsis.IsValid() {
		return nil, nil, nil
	}
	ren := map[*ast.Object]string{}
	bound := map[string]string{} // parameter name -> argument text
	for i, p := range params {
		if p == nil || p.Name == "_" {
			if c11HasCall(call.Args[i]) {
				return nil, nil, nil
			}
			continue
		}
		txt := c11Sq(call.Args[i])
		switch call.Args[i].(type) {
		case *ast.Ident, *ast.SelectorExpr:
		default:
			if c11HasCall(call.Args[i]) {
				return nil, nil, nil
			}
			txt = "(" + txt + ")"
		}
		if p.Obj == nil {
			return nil, nil, nil
		}
		ren[p.Obj] = txt
		bound[p.Name] = txt
	}
	if isMethod && len(fn.Recv.List) == 1 && len(fn.Recv.List[0].Names) == 1 {
		r := fn.Recv.List[0].Names[0]
		if r.Obj != nil {
			ren[r.Obj] = in.recv
		}
	}
	ast.Inspect(fn.Body, func(n ast.Node) bool {
		if id, ok := n.(*ast.Ident); ok && id.Obj != nil {
			if t, ok := ren[id.Obj]; ok {
				id.Name = t
			}
		}
		return true
	})
	for i, p := range params {
		if p != nil {
			p.Name = c11Sq(call.Args[i])
		}
	}
	if !in.relevant(fn.Body) {
		return nil, nil, nil
	}
	c11SubstAliases(fn.Body)
	return fn, bound, nil
}

func c11IsErrNeqNil(e ast.Expr, v string) bool {
	be, ok := c11Unparen(e).(*ast.BinaryExpr)
	return ok && be.Op == token.NEQ && c11Ident(be.X) == v && c11IsNil(be.Y)
}

// results declared by a function, one entry per result
func c11ResultTypes(fn *ast.FuncDecl) []string {
	var r []string
	if fn.Type.Results == nil {
		return nil
	}
	for _, fl := range fn.Type.Results.List {
		n := len(fl.Names)
		if n == 0 {
			n = 1
		}
		for i := 0; i < n; i++ {
			r = append(r, c11Sq(fl.Type))
		}
	}
	return r
}

// targets assigned in the body (plain identifiers / renamed parameters)
func c11AssignedNames(n ast.Node) map[string]bool {
	m := map[string]bool{}
	ast.Inspect(n, func(x ast.Node) bool {
		switch s := x.(type) {
		case *ast.AssignStmt:
			for _, l := range s.Lhs {
				if id, ok := l.(*ast.Ident); ok && (s.Tok != token.DEFINE || id.Obj == nil || id.Obj.Decl != s) {
					m[id.Name] = true
				}
			}
		case *ast.IncDecStmt:
			if id, ok := s.X.(*ast.Ident); ok {
				m[id.Name] = true
			}
		}
		return true
	})
	return m
}

// expand replaces statement s (followed by next, possibly nil) by the inlined body of the helper it
// calls.  ok = false: not a call of a relevant helper, the statement stays.  skipNext: the caller's
// error check after the call has been consumed.
func (in *c11Inliner) expand(s ast.Stmt, next ast.Stmt, onlyStmt bool) (out []ast.Stmt, ok bool, skipNext bool, err error) {
	var call *ast.CallExpr
	var lhs []ast.Expr
	var define bool
	var failBody []ast.Stmt // the caller's reaction to a failure of the helper
	haveFail := false
	tail := false
	switch x := s.(type) {
	case *ast.ExprStmt:
		call, _ = x.X.(*ast.CallExpr)
	case *ast.AssignStmt:
		if len(x.Rhs) == 1 && (x.Tok == token.ASSIGN || x.Tok == token.DEFINE) {
			call, _ = x.Rhs[0].(*ast.CallExpr)
			lhs, define = x.Lhs, x.Tok == token.DEFINE
			if is, isIf := next.(*ast.IfStmt); isIf && call != nil && len(lhs) > 0 && is.Init == nil && is.Else == nil &&
				c11IsErrNeqNil(is.Cond, c11Ident(lhs[len(lhs)-1])) && c11Ident(lhs[len(lhs)-1]) != "" {
				failBody, haveFail, skipNext = is.Body.List, true, true
			}
		}
	case *ast.IfStmt:
		if as, isAs := x.Init.(*ast.AssignStmt); isAs && x.Else == nil && len(as.Rhs) == 1 && len(as.Lhs) > 0 &&
			c11IsErrNeqNil(x.Cond, c11Ident(as.Lhs[len(as.Lhs)-1])) && c11Ident(as.Lhs[len(as.Lhs)-1]) != "" {
			call, _ = as.Rhs[0].(*ast.CallExpr)
			lhs, define = as.Lhs, as.Tok == token.DEFINE
			failBody, haveFail = x.Body.List, true
		}
	case *ast.ReturnStmt:
		if len(x.Results) == 1 {
			call, _ = x.Results[0].(*ast.CallExpr)
			tail = true
		}
	}
	if call == nil {
		return nil, false, false, nil
	}
	fn, bound, err := in.instantiate(call)
	if err != nil || fn == nil {
		return nil, false, false, err
	}
	name := fn.Name.Name
	if in.depth > 4 {
		return nil, false, false, fmt.Errorf("helper %s: inlining too deep", name)
	}
	hasDefer := false
	ast.Inspect(fn.Body, func(n ast.Node) bool {
		if _, ok := n.(*ast.DeferStmt); ok {
			hasDefer = true
		}
		return !hasDefer
	})
	// a deferred call runs when the helper returns: the same moment only if the call is all the caller does
	if hasDefer && !(tail && onlyStmt) && !in.norm.deferOK {
		return nil, false, false, fmt.Errorf("helper %s defers a call: not inlined", name)
	}
	// by-value parameters that the helper assigns must be handed back to the same variable
	assigned := c11AssignedNames(fn.Body)
	results := c11ResultTypes(fn)
	body := c11NormStmts(fn.Body.List, in.norm)
	if tail {
		for _, a := range bound {
			if assigned[a] {
				return nil, false, false, fmt.Errorf("helper %s assigns to its parameter %s", name, a)
			}
		}
		in.inlined[name]++
		in.depth++
		body, err = in.stmts(body, false)
		in.depth--
		return body, err == nil, false, err
	}
	if len(results) != len(lhs) {
		return nil, false, false, fmt.Errorf("helper %s: %d results assigned to %d variables", name, len(results), len(lhs))
	}
	errLast := len(results) > 0 && results[len(results)-1] == "error"
	threaded := map[string]bool{}
	for _, l := range lhs {
		threaded[c11Sq(l)] = true
	}
	for _, a := range bound {
		if assigned[a] && !threaded[a] {
			return nil, false, false, fmt.Errorf("helper %s assigns to its parameter %s, which the caller does not get back", name, a)
		}
	}
	// classification of the helper's return statements
	var clsErr error
	isSuccess := func(st ast.Stmt) bool {
		r, ok := st.(*ast.ReturnStmt)
		if !ok {
			return false
		}
		if len(r.Results) != len(results) {
			if len(r.Results) == 0 && len(results) > 0 {
				clsErr = fmt.Errorf("helper %s uses a bare return with named results", name)
			}
			return len(results) == 0
		}
		if errLast && !c11IsNil(r.Results[len(r.Results)-1]) {
			return false
		}
		return true
	}
	// success return with values: assignments to the caller's variables, then exit — rewritten first
	tailCall := false
	inLoop := 0
	var rewrite func(l []ast.Stmt) []ast.Stmt
	rewrite = func(l []ast.Stmt) []ast.Stmt {
		var o []ast.Stmt
		for _, st := range l {
			switch x := st.(type) {
			case *ast.ReturnStmt:
				// return f(…) handing on several results: x… = f(…), then the end of the block; whether that
				// was a failure is what the caller's own test of the error decides (kept)
				if call, isCall := func() (*ast.CallExpr, bool) {
					if len(x.Results) != 1 || len(results) < 2 {
						return nil, false
					}
					c, ok := x.Results[0].(*ast.CallExpr)
					return c, ok
				}(); isCall {
					if inLoop > 0 {
						clsErr = fmt.Errorf("helper %s returns from inside a loop", name)
					}
					tok := token.ASSIGN
					if define {
						tok = token.DEFINE
					}
					o = append(o, &ast.AssignStmt{Lhs: lhs, Tok: tok, Rhs: []ast.Expr{call}}, &ast.ReturnStmt{})
					tailCall = true
					continue
				}
				if isSuccess(st) {
					if inLoop > 0 {
						clsErr = fmt.Errorf("helper %s returns from inside a loop", name)
					}
					n := len(x.Results)
					if errLast {
						n--
					}
					for i := 0; i < n; i++ {
						if c11Sq(x.Results[i]) == c11Sq(lhs[i]) || c11Ident(lhs[i]) == "_" {
							continue
						}
						tok := token.ASSIGN
						if define {
							tok = token.DEFINE
						}
						o = append(o, &ast.AssignStmt{Lhs: []ast.Expr{lhs[i]}, Tok: tok, Rhs: []ast.Expr{x.Results[i]}})
					}
					o = append(o, &ast.ReturnStmt{}) // the exit marker
					continue
				}
				// a failure return: the caller's reaction to the helper's error (which leaves the caller)
				if !haveFail {
					clsErr = fmt.Errorf("helper %s can fail and the caller does not test its error right after the call", name)
				}
				o = append(o, failBody...)
				continue
			case *ast.IfStmt:
				n := &ast.IfStmt{Init: x.Init, Cond: x.Cond, Body: &ast.BlockStmt{List: rewrite(x.Body.List)}}
				switch e := x.Else.(type) {
				case *ast.BlockStmt:
					n.Else = &ast.BlockStmt{List: rewrite(e.List)}
				case *ast.IfStmt:
					n.Else = rewrite([]ast.Stmt{e})[0]
				}
				o = append(o, n)
				continue
			case *ast.BlockStmt:
				o = append(o, &ast.BlockStmt{List: rewrite(x.List)})
				continue
			case *ast.RangeStmt:
				// a failure return inside a loop leaves the caller altogether (it becomes the caller's F);
				// a success return from inside a loop would have to leave the loop only: not translated
				inLoop++
				b := rewrite(x.Body.List)
				inLoop--
				o = append(o, &ast.RangeStmt{Key: x.Key, Value: x.Value, Tok: x.Tok, X: x.X, Body: &ast.BlockStmt{List: b}})
				continue
			case *ast.ForStmt:
				inLoop++
				b := rewrite(x.Body.List)
				inLoop--
				o = append(o, &ast.ForStmt{Init: x.Init, Cond: x.Cond, Post: x.Post, Body: &ast.BlockStmt{List: b}})
				continue
			case *ast.SwitchStmt, *ast.TypeSwitchStmt, *ast.SelectStmt:
				if c11ContainsExit(st, func(s ast.Stmt) bool { _, ok := s.(*ast.ReturnStmt); return ok }) {
					clsErr = fmt.Errorf("helper %s returns from inside a %T", name, st)
				}
			}
			o = append(o, st)
		}
		return o
	}
	body = rewrite(body)
	if clsErr != nil {
		return nil, false, false, clsErr
	}
	isExit := func(st ast.Stmt) bool {
		r, ok := st.(*ast.ReturnStmt)
		return ok && len(r.Results) == 0
	}
	body, err = c11ElimExits(body, isExit, nil)
	if err == nil {
		err = clsErr
	}
	if err != nil {
		return nil, false, false, fmt.Errorf("helper %s: %v", name, err)
	}
	if tailCall && haveFail {
		// the caller's test of the error still has work to do
		if skipNext {
			skipNext = false
		} else {
			body = append(body, &ast.IfStmt{Cond: &ast.BinaryExpr{X: lhs[len(lhs)-1], Op: token.NEQ, Y: ast.NewIdent("nil")},
				Body: &ast.BlockStmt{List: failBody}})
		}
	}
	in.inlined[name]++
	in.depth++
	body, err = in.stmts(body, false)
	in.depth--
	if err != nil {
		return nil, false, false, err
	}
	return body, true, skipNext, nil
}

// stmts inlines the relevant helpers called by the statements of l (recursively through if / else /
// loop / block bodies) and normalises the result.
func (in *c11Inliner) stmts(l []ast.Stmt, top bool) ([]ast.Stmt, error) {
	var out []ast.Stmt
	for i := 0; i < len(l); i++ {
		var next ast.Stmt
		if i+1 < len(l) {
			next = l[i+1]
		}
		body, ok, skip, err := in.expand(l[i], next, top && len(l) == 1)
		if err != nil {
			return nil, err
		}
		if ok {
			out = append(out, body...)
			if skip {
				i++
			}
			continue
		}
		s, err := in.inside(l[i])
		if err != nil {
			return nil, err
		}
		out = append(out, s)
	}
	return out, nil
}

func (in *c11Inliner) inside(s ast.Stmt) (ast.Stmt, error) {
	switch x := s.(type) {
	case *ast.BlockStmt:
		l, err := in.stmts(x.List, false)
		return &ast.BlockStmt{List: l}, err
	case *ast.IfStmt:
		// (the form `if err := h(); err != nil {…}` has been tried by expand)
		b, err := in.stmts(x.Body.List, false)
		if err != nil {
			return nil, err
		}
		n := &ast.IfStmt{Init: x.Init, Cond: x.Cond, Body: &ast.BlockStmt{List: b}}
		if x.Else != nil {
			e, err := in.inside(x.Else)
			if err != nil {
				return nil, err
			}
			n.Else = e
		}
		return n, nil
	case *ast.RangeStmt:
		b, err := in.stmts(x.Body.List, false)
		if err != nil {
			return nil, err
		}
		return c11NormStmt(&ast.RangeStmt{Key: x.Key, Value: x.Value, Tok: x.Tok, X: x.X, Body: &ast.BlockStmt{List: b}}, in.norm), nil
	case *ast.ForStmt:
		b, err := in.stmts(x.Body.List, false)
		if err != nil {
			return nil, err
		}
		return c11NormStmt(&ast.ForStmt{Init: x.Init, Cond: x.Cond, Post: x.Post, Body: &ast.BlockStmt{List: b}}, in.norm), nil
	}
	return s, nil
}

// c11Prepare = normalise + inline the body of a translated function.
func c11Prepare(repo string, rel []string, fn *ast.FuncDecl, relevant func(ast.Node) bool, o c11NormOpts) ([]ast.Stmt, *c11Inliner, error) {
	in := &c11Inliner{repo: repo, rel: rel, relevant: relevant, inlined: map[string]int{}, norm: o}
	if fn.Recv != nil && len(fn.Recv.List) == 1 && len(fn.Recv.List[0].Names) == 1 {
		in.recv = fn.Recv.List[0].Names[0].Name
	}
	c11SubstAliases(fn.Body)
	l, err := in.stmts(c11NormStmts(fn.Body.List, o), true)
	if err != nil {
		return nil, nil, err
	}
	l = c11NormStmts(l, o)
	if os.Getenv("C11_GO2V_DEBUG") != "" {
		fmt.Fprintf(os.Stderr, "---- %s after normalisation (inlined: %v)\n", fn.Name.Name, in.inlined)
		printer.Fprint(os.Stderr, token.NewFileSet(), &ast.BlockStmt{List: l})
		fmt.Fprintln(os.Stderr)
	}
	return l, in, nil
}

// number of calls of the named function / method in the non-test, non-verif files of compose
func c11CountCalls(f *ast.File, name string) int {
	n := 0
	ast.Inspect(f, func(x ast.Node) bool {
		if call, ok := x.(*ast.CallExpr); ok {
			switch fun := call.Fun.(type) {
			case *ast.Ident:
				if fun.Name == name {
					n++
				}
			case *ast.SelectorExpr:
				if fun.Sel.Name == name {
					n++
				}
			case *ast.IndexExpr:
				if c11Ident(fun.X) == name {
					n++
				}
			}
		}
		return true
	})
	return n
}

func c11ExprText(e ast.Expr) string { return strings.TrimSpace(types.ExprString(e)) }
