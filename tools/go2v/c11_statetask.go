package main

// Extractor "statetask" (property C11): what compose/graph_manager.go does with a node's state
// pre-handler (call.preProcessor) and post-handler (call.postProcessor), as programs of the fragment of
// Model/StateTask.v.
//
//	taskManager.submit    the body of the first `for _, T := range tasks` loop          submit_prog
//	taskManager.executor  the one `T.output, T.err = t.runWrapper(ctx, T.call.action, T.input, …)`   exec_prog
//	taskManager.waitOne   the statements after the last `t.mu.Unlock()`                  collect_prog
//
//	if <cond> { … }                    TIf, cond built with && from
//	    T.call.preProcessor != nil     CHasPre          !T.skipPreHandler   CNotSkip
//	    T.call.postProcessor != nil    CHasPost         T.err != nil        CTaskErr       err != nil   CCallErr
//	x, err := t.runWrapper(T.ctx, T.call.P, T.F, T.option...)     TCall P F      (the task's own context)
//	T.output, T.err = t.runWrapper(ctx, T.call.action, T.input, T.option...)   TCallInto TAction FInput
//	                                   (ctx = T.ctx or `ctx := initNodeCallbacks(T.ctx, …)`)
//	T.input = x / T.output = x         TSet FInput / FOutput   (x the result of the last TCall)
//	T.err = <… err …>                  TSetErr
//	return <error>  (submit)           TFail            return T, true (waitOne)   TReturn
//
// The file must contain exactly these three calls of t.runWrapper.  Output: coq/Gen/StateTask.v.

import (
	"fmt"
	"go/ast"
	"go/printer"
	"go/token"
	"strings"
)

const c11TaskNeutral = "(* Gen/StateTask.v — translator tie UNAVAILABLE: tools/go2v (extractor \"statetask\") did not recognise the\n" +
	"   shape of compose/graph_manager.go; the model's own programs are re-exported. *)\n" +
	"From Eino Require Import Base.Util Model.StateLock Model.StateLockLTS Model.StateTask.\n\n" +
	"Definition submit_prog : list tstmt := Model.StateTask.submit_prog.\n" +
	"Definition exec_prog : list tstmt := Model.StateTask.exec_prog.\n" +
	"Definition collect_prog : list tstmt := Model.StateTask.collect_prog.\n"

func init() {
	register("statetask", c11ExtractStateTask)
	registerFallback("statetask", "StateTask.v", c11TaskNeutral)
}

type c11Task struct {
	fn     string
	task   string // the task variable
	tmp    string // result variable of the last TCall
	ctxVar string // context derived from the task's context
	isWait bool
	calls  int
}

func (t *c11Task) errf(format string, a ...any) error {
	return fmt.Errorf("%s: %s", t.fn, fmt.Sprintf(format, a...))
}

var c11TaskCondRank = map[string]int{"CHasPre": 0, "CNotSkip": 1, "CHasPost": 2, "CTaskErr": 3, "CCallErr": 4}

func c11TaskNot(c string) string {
	if strings.HasPrefix(c, "(CNot ") && strings.HasSuffix(c, ")") {
		return strings.TrimSuffix(strings.TrimPrefix(c, "(CNot "), ")")
	}
	return "(CNot " + c + ")"
}

func c11TaskRank(c string) int {
	for strings.HasPrefix(c, "(CNot ") {
		c = strings.TrimSuffix(strings.TrimPrefix(c, "(CNot "), ")")
	}
	if r, ok := c11TaskCondRank[c]; ok {
		return r
	}
	return 9
}

func (t *c11Task) cond(e ast.Expr) (string, bool) {
	switch x := e.(type) {
	case *ast.ParenExpr:
		return t.cond(x.X)
	case *ast.UnaryExpr:
		if x.Op == token.NOT {
			if c11Sq(x.X) == t.task+".skipPreHandler" {
				return "CNotSkip", true
			}
			if c, ok := t.cond(x.X); ok {
				return c11TaskNot(c), true
			}
		}
	case *ast.SelectorExpr:
		if c11Sq(x) == t.task+".skipPreHandler" {
			return "(CNot CNotSkip)", true
		}
	case *ast.BinaryExpr:
		if x.Op == token.LAND || x.Op == token.LOR {
			a, ok1 := t.cond(x.X)
			b, ok2 := t.cond(x.Y)
			if !ok1 || !ok2 {
				return "", false
			}
			if x.Op == token.LOR { // a || b = !(!a && !b); the tests have no effects
				a, b = c11TaskNot(a), c11TaskNot(b)
			}
			if c11TaskRank(b) < c11TaskRank(a) {
				a, b = b, a // tests without effects: fixed order
			}
			if x.Op == token.LOR {
				return c11TaskNot("(CBoth " + a + " " + b + ")"), true
			}
			return "(CBoth " + a + " " + b + ")", true
		}
		if (x.Op == token.NEQ || x.Op == token.EQL) && c11IsNil(x.Y) {
			atom := ""
			switch c11Sq(x.X) {
			case t.task + ".call.preProcessor":
				atom = "CHasPre"
			case t.task + ".call.postProcessor":
				atom = "CHasPost"
			case t.task + ".err":
				atom = "CTaskErr"
			case "err":
				atom = "CCallErr"
			}
			if atom != "" {
				if x.Op == token.EQL {
					return c11TaskNot(atom), true
				}
				return atom, true
			}
		}
	}
	return "", false
}

// t.runWrapper(<ctx>, T.call.P, T.F, T.option...) -> (P, F)
func (t *c11Task) wrapperCall(e ast.Expr) (string, string, bool, error) {
	call, ok := e.(*ast.CallExpr)
	if !ok || c11Sq(call.Fun) != "t.runWrapper" {
		return "", "", false, nil
	}
	t.calls++
	if len(call.Args) != 4 || !call.Ellipsis.IsValid() || c11Sq(call.Args[3]) != t.task+".option" {
		return "", "", false, t.errf("runWrapper called as %s", c11Sq(call))
	}
	if c := c11Sq(call.Args[0]); c != t.task+".ctx" && !(t.ctxVar != "" && c == t.ctxVar) {
		return "", "", false, t.errf("runWrapper is not given the task's context (%s)", c)
	}
	proc := map[string]string{t.task + ".call.preProcessor": "TPre", t.task + ".call.action": "TAction",
		t.task + ".call.postProcessor": "TPost"}[c11Sq(call.Args[1])]
	field := map[string]string{t.task + ".input": "FInput", t.task + ".output": "FOutput"}[c11Sq(call.Args[2])]
	if proc == "" || field == "" {
		return "", "", false, t.errf("runWrapper called as %s", c11Sq(call))
	}
	return proc, field, true, nil
}

func (t *c11Task) mentions(n ast.Node) bool {
	found := false
	ast.Inspect(n, func(x ast.Node) bool {
		if id, ok := x.(*ast.Ident); ok {
			switch id.Name {
			case "preProcessor", "postProcessor", "runWrapper", "skipPreHandler":
				found = true
			}
		}
		if sel, ok := x.(*ast.SelectorExpr); ok && c11Ident(sel.X) == t.task && t.task != "" {
			switch sel.Sel.Name {
			case "input", "output", "err":
				found = true
			}
		}
		return !found
	})
	return found
}

func (t *c11Task) stmts(l []ast.Stmt) ([]string, error) {
	var out []string
	for _, s := range l {
		switch x := s.(type) {
		case *ast.IfStmt:
			if c, ok := t.cond(x.Cond); ok && x.Init == nil && x.Else == nil {
				body, err := t.stmts(x.Body.List)
				if err != nil {
					return nil, err
				}
				out = append(out, "TIf "+c+" "+c11List(body))
				continue
			}
		case *ast.AssignStmt:
			if len(x.Rhs) == 1 {
				proc, field, ok, err := t.wrapperCall(x.Rhs[0])
				if err != nil {
					return nil, err
				}
				if ok {
					if len(x.Lhs) != 2 {
						return nil, t.errf("runWrapper with %d results", len(x.Lhs))
					}
					if c11Sq(x.Lhs[0]) == t.task+".output" && c11Sq(x.Lhs[1]) == t.task+".err" && x.Tok == token.ASSIGN {
						out = append(out, "TCallInto "+proc+" "+field)
						continue
					}
					if x.Tok == token.DEFINE && c11Ident(x.Lhs[0]) != "" && c11Ident(x.Lhs[1]) == "err" {
						t.tmp = c11Ident(x.Lhs[0])
						out = append(out, "TCall "+proc+" "+field)
						continue
					}
					return nil, t.errf("results of runWrapper assigned to %s, %s", c11Sq(x.Lhs[0]), c11Sq(x.Lhs[1]))
				}
				if len(x.Lhs) == 1 && x.Tok == token.ASSIGN {
					lhs := c11Sq(x.Lhs[0])
					if (lhs == t.task+".input" || lhs == t.task+".output") && t.tmp != "" && c11Ident(x.Rhs[0]) == t.tmp {
						out = append(out, "TSet "+map[bool]string{true: "FInput", false: "FOutput"}[lhs == t.task+".input"])
						continue
					}
					if lhs == t.task+".err" {
						uses := false
						ast.Inspect(x.Rhs[0], func(n ast.Node) bool {
							if id, ok := n.(*ast.Ident); ok && id.Name == "err" {
								uses = true
							}
							return true
						})
						if uses {
							out = append(out, "TSetErr")
							continue
						}
					}
				}
				// ctx := initNodeCallbacks(T.ctx, …)
				if call, ok := x.Rhs[0].(*ast.CallExpr); ok && x.Tok == token.DEFINE && len(x.Lhs) == 1 &&
					c11Callee(call) == "initNodeCallbacks" && len(call.Args) > 0 && c11Sq(call.Args[0]) == t.task+".ctx" {
					t.ctxVar = c11Ident(x.Lhs[0])
					continue
				}
			}
		case *ast.ReturnStmt:
			if t.isWait {
				if len(x.Results) == 2 && c11Ident(x.Results[0]) == t.task && c11Sq(x.Results[1]) == "true" {
					out = append(out, "TReturn")
					continue
				}
				return nil, t.errf("return %s", func() string {
					var r []string
					for _, e := range x.Results {
						r = append(r, c11Sq(e))
					}
					return strings.Join(r, ", ")
				}())
			}
			if len(x.Results) == 1 && !c11IsNil(x.Results[0]) {
				out = append(out, "TFail")
				continue
			}
			return nil, t.errf("return of a shape outside the fragment")
		}
		if t.mentions(s) {
			return nil, t.errf("a statement about the task's handlers / values is outside the translated fragment (%T)", s)
		}
	}
	return out, nil
}

func c11ExtractStateTask(repo string) (string, string, error) {
	fset := token.NewFileSet()
	f, err := c11ParseGo(fset, repo, "compose", "graph_manager.go")
	if err != nil {
		return "", "", err
	}
	total := 0
	ast.Inspect(f, func(n ast.Node) bool {
		if call, ok := n.(*ast.CallExpr); ok && c11Sq(call.Fun) == "t.runWrapper" {
			total++
		}
		return true
	})
	// ---- submit
	sub := c11Method(f, "taskManager", "submit")
	if sub == nil {
		return "", "", fmt.Errorf("method taskManager.submit not found")
	}
	ts := &c11Task{fn: "taskManager.submit"}
	var submit []string
	seenLoop := false
	relevant := func(n ast.Node) bool { return (&c11Task{}).mentions(n) }
	gm := []string{"compose", "graph_manager.go"}
	helpers := map[string]int{}
	subBody, inS, err := c11Prepare(repo, gm, sub, relevant, c11NormOpts{mergeIfs: true})
	if err != nil {
		return "", "", ts.errf("%v", err)
	}
	for h, n := range inS.inlined {
		helpers[h] += n
	}
	for _, s := range subBody {
		rs, ok := s.(*ast.RangeStmt)
		if ok && !seenLoop && c11Ident(rs.X) == "tasks" && c11Ident(rs.Value) != "" {
			probe := &c11Task{task: c11Ident(rs.Value)}
			if probe.mentions(rs.Body) && strings.Contains(c11StmtText(rs.Body), "preProcessor") {
				seenLoop = true
				ts.task = c11Ident(rs.Value)
				submit, err = ts.stmts(rs.Body.List)
				if err != nil {
					return "", "", err
				}
				continue
			}
		}
		if strings.Contains(c11StmtText(s), "Processor") || strings.Contains(c11StmtText(s), "runWrapper") {
			return "", "", ts.errf("a handler is touched outside the first loop over the tasks")
		}
	}
	if !seenLoop {
		return "", "", ts.errf("no `for _, T := range tasks` loop that runs the pre-processors")
	}
	// ---- executor
	exe := c11Method(f, "taskManager", "executor")
	if exe == nil || len(exe.Type.Params.List) != 1 || len(exe.Type.Params.List[0].Names) != 1 {
		return "", "", fmt.Errorf("method taskManager.executor(task) not found")
	}
	te := &c11Task{fn: "taskManager.executor", task: exe.Type.Params.List[0].Names[0].Name}
	var execp []string
	exeBody, inE, err := c11Prepare(repo, gm, exe, relevant, c11NormOpts{mergeIfs: true, deferOK: true})
	if err != nil {
		return "", "", te.errf("%v", err)
	}
	for h, n := range inE.inlined {
		helpers[h] += n
	}
	for _, s := range exeBody {
		if _, ok := s.(*ast.DeferStmt); ok {
			continue // the hand-over of the finished task (C03)
		}
		if as, ok := s.(*ast.AssignStmt); ok && len(as.Lhs) == 1 && (c11Ident(as.Lhs[0]) == "finished") {
			continue
		}
		p, err := te.stmts([]ast.Stmt{s})
		if err != nil {
			return "", "", err
		}
		execp = append(execp, p...)
	}
	// ---- waitOne: after the last t.mu.Unlock()
	wo := c11Method(f, "taskManager", "waitOne")
	if wo == nil {
		return "", "", fmt.Errorf("method taskManager.waitOne not found")
	}
	tw := &c11Task{fn: "taskManager.waitOne", isWait: true}
	woBody, inW, err := c11Prepare(repo, gm, wo, relevant, c11NormOpts{mergeIfs: true})
	if err != nil {
		return "", "", tw.errf("%v", err)
	}
	for h, n := range inW.inlined {
		helpers[h] += n
	}
	last := -1
	for i, s := range woBody {
		if es, ok := s.(*ast.ExprStmt); ok && c11Sq(es.X) == "t.mu.Unlock()" {
			last = i
		}
		// ta := <-t.done
		if as, ok := s.(*ast.AssignStmt); ok && len(as.Lhs) == 1 && len(as.Rhs) == 1 && c11Sq(as.Rhs[0]) == "<-t.done" {
			tw.task = c11Ident(as.Lhs[0])
		}
		// ta := t.h()  with h a method that receives from t.done and touches no handler
		if as, ok := s.(*ast.AssignStmt); ok && len(as.Lhs) == 1 && len(as.Rhs) == 1 && as.Tok == token.DEFINE {
			if call, ok := as.Rhs[0].(*ast.CallExpr); ok && len(call.Args) == 0 {
				if sel, ok := call.Fun.(*ast.SelectorExpr); ok && c11Ident(sel.X) == "t" {
					if h := c11Method(f, "taskManager", sel.Sel.Name); h != nil && h.Body != nil && !relevant(h.Body) &&
						strings.Contains(c11Squash(c11NodeText(h.Body)), "<-t.done") {
						tw.task = c11Ident(as.Lhs[0])
						last = i
					}
				}
			}
		}
	}
	if last < 0 || tw.task == "" {
		return "", "", tw.errf("`ta := <-t.done` … `t.mu.Unlock()` not found")
	}
	for _, s := range woBody[:last] {
		if strings.Contains(c11StmtText(s), "Processor") || strings.Contains(c11StmtText(s), "runWrapper") {
			return "", "", tw.errf("a handler is touched before the task has been received")
		}
	}
	collect, err := tw.stmts(woBody[last+1:])
	if err != nil {
		return "", "", err
	}
	// every call of t.runWrapper in the file is one of the three translated calls: it stands in submit /
	// executor / waitOne, or in a helper all of whose call sites have been inlined there
	outside := 0
	for _, d := range f.Decls {
		fn, ok := d.(*ast.FuncDecl)
		if !ok || fn.Body == nil {
			continue
		}
		n := 0
		ast.Inspect(fn.Body, func(x ast.Node) bool {
			if call, ok := x.(*ast.CallExpr); ok && c11Sq(call.Fun) == "t.runWrapper" {
				n++
			}
			return true
		})
		if n == 0 || fn == sub || fn == exe || fn == wo {
			continue
		}
		if k, ok := helpers[fn.Name.Name]; ok && k == c11CountCalls(f, fn.Name.Name) {
			continue
		}
		outside += n
	}
	if ts.calls+te.calls+tw.calls != 3 || outside != 0 {
		return "", "", fmt.Errorf("graph_manager.go: %d calls of t.runWrapper, %d translated, %d outside the translated functions (expected 3: pre-processor, action, post-processor)",
			total, ts.calls+te.calls+tw.calls, outside)
	}
	var b strings.Builder
	b.WriteString("(* Gen/StateTask.v — GENERATED by tools/go2v (extractor \"statetask\") from compose/graph_manager.go\n")
	b.WriteString("   (taskManager.submit: the loop that runs the pre-processors; taskManager.executor; taskManager.waitOne:\n")
	b.WriteString("   what happens to a received task). Do not edit. *)\n")
	b.WriteString("From Eino Require Import Base.Util Model.StateLock Model.StateLockLTS Model.StateTask.\n\n")
	fmt.Fprintf(&b, "Definition submit_prog : list tstmt := %s.\n", c11List(submit))
	fmt.Fprintf(&b, "Definition exec_prog : list tstmt := %s.\n", c11List(execp))
	fmt.Fprintf(&b, "Definition collect_prog : list tstmt := %s.\n", c11List(collect))
	return "StateTask.v", b.String(), nil
}

func c11NodeText(n ast.Node) string {
	var b strings.Builder
	_ = printer.Fprint(&b, token.NewFileSet(), n)
	return b.String()
}

// text of the identifiers of a statement (for coarse "does it touch …" tests)
func c11StmtText(n ast.Node) string {
	var b strings.Builder
	ast.Inspect(n, func(x ast.Node) bool {
		if id, ok := x.(*ast.Ident); ok {
			b.WriteString(id.Name)
			b.WriteByte(' ')
		}
		return true
	})
	return b.String()
}
