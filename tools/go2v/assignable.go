package main

// Extractor "assignable" (property C07): compose/utils.go, func checkAssignable, translated
// statement by statement into a Gallina definition over the vocabulary of Model/TypesGenLib.v.
//
// The translator accepts a *decision function*: a body made of `if c { … }` statements whose
// blocks end in a return (possibly nested, with or without else) followed by a final return; every
// return yields one of the named constants of the result type; conditions are built with
// && || ! ( ) from the atoms
//     x == nil        x != nil        x == y        x != y           (x, y parameters)
//     x.Kind() == reflect.K           x.Kind() != reflect.K
//     x.M(y)                                                         (method call between parameters)
// An atom outside this list that still is a call between parameters (a new reflect predicate)
// is kept as an application of the extra parameter [unk] to its name and arguments, so that the
// generated function is "recognised but different" (Proofs/GenAgreeTypes.v then fails); any
// other statement or expression shape is "not recognised" (translator tie unavailable).
//
// Output: coq/Gen/Assignable.v with
//   check_assignable : (string -> option ty -> option ty -> bool) -> univ -> option ty -> option ty -> assignable

import (
	"fmt"
	"go/ast"
	"go/token"
	"go/types"
	"strings"
)

func init() {
	register("assignable", extractAssignable)
	registerFallback("assignable", "Assignable.v", "(* Gen/Assignable.v — translator tie UNAVAILABLE: tools/go2v (extractor \"assignable\") did not recognise the\n"+
		"   shape of compose/utils.go:checkAssignable; the model's own function is re-exported. *)\n"+
		"From Eino Require Import Base.Util Model.Types Model.TypesGenLib.\n\n"+
		"Definition check_assignable (unk : string -> option ty -> option ty -> bool) (u : univ) (input arg : option ty) : assignable :=\n"+
		"  Model.Types.check_assignable u input arg.\n")
}

type decisionCfg struct {
	params   map[string]bool
	retConst map[string]string // Go constant -> Gallina constructor
}

func (c *decisionCfg) param(e ast.Expr) (string, bool) {
	id, ok := e.(*ast.Ident)
	if !ok || !c.params[id.Name] {
		return "", false
	}
	return id.Name, true
}

func isNil(e ast.Expr) bool {
	id, ok := e.(*ast.Ident)
	return ok && id.Name == "nil"
}

// x.Kind() -> x
func (c *decisionCfg) kindOf(e ast.Expr) (string, bool) {
	call, ok := e.(*ast.CallExpr)
	if !ok || len(call.Args) != 0 {
		return "", false
	}
	sel, ok := call.Fun.(*ast.SelectorExpr)
	if !ok || sel.Sel.Name != "Kind" {
		return "", false
	}
	return c.param(sel.X)
}

// reflect.K -> K
func reflectKind(e ast.Expr) (string, bool) {
	sel, ok := e.(*ast.SelectorExpr)
	if !ok {
		return "", false
	}
	if id, ok := sel.X.(*ast.Ident); !ok || id.Name != "reflect" {
		return "", false
	}
	return sel.Sel.Name, true
}

func (c *decisionCfg) cond(e ast.Expr) (string, error) {
	switch x := e.(type) {
	case *ast.ParenExpr:
		return c.cond(x.X)
	case *ast.UnaryExpr:
		if x.Op == token.NOT {
			s, err := c.cond(x.X)
			return "(negb " + s + ")", err
		}
	case *ast.BinaryExpr:
		switch x.Op {
		case token.LAND, token.LOR:
			l, err := c.cond(x.X)
			if err != nil {
				return "", err
			}
			r, err := c.cond(x.Y)
			if err != nil {
				return "", err
			}
			op := "&&"
			if x.Op == token.LOR {
				op = "||"
			}
			return "(" + l + " " + op + " " + r + ")", nil
		case token.EQL, token.NEQ:
			wrap := func(s string) string {
				if x.Op == token.NEQ {
					return "(negb " + s + ")"
				}
				return s
			}
			if p, ok := c.param(x.X); ok && isNil(x.Y) {
				return wrap("(rt_is_nil " + p + ")"), nil
			}
			if p, ok := c.param(x.Y); ok && isNil(x.X) {
				return wrap("(rt_is_nil " + p + ")"), nil
			}
			if p, ok := c.param(x.X); ok {
				if q, ok := c.param(x.Y); ok {
					return wrap("(rt_eq " + p + " " + q + ")"), nil
				}
			}
			if p, ok := c.kindOf(x.X); ok {
				if k, ok := reflectKind(x.Y); ok {
					return wrap("(rt_kind_is " + coqStr(k) + " " + p + ")"), nil
				}
			}
			if p, ok := c.kindOf(x.Y); ok {
				if k, ok := reflectKind(x.X); ok {
					return wrap("(rt_kind_is " + coqStr(k) + " " + p + ")"), nil
				}
			}
		}
	case *ast.CallExpr:
		// x.M(y)
		if sel, ok := x.Fun.(*ast.SelectorExpr); ok && len(x.Args) == 1 {
			if p, ok := c.param(sel.X); ok {
				if q, ok := c.param(x.Args[0]); ok {
					if sel.Sel.Name == "Implements" {
						return "(rt_implements u " + p + " " + q + ")", nil
					}
					return "(unk " + coqStr(sel.Sel.Name) + " " + p + " " + q + ")", nil
				}
			}
		}
	}
	return "", fmt.Errorf("condition %s is outside the translated fragment", types.ExprString(e))
}

// a statement list that always returns -> Gallina expression
func (c *decisionCfg) stmts(l []ast.Stmt, ind string) (string, error) {
	if len(l) == 0 {
		return "", fmt.Errorf("control reaches the end of a block without a return")
	}
	switch x := l[0].(type) {
	case *ast.ReturnStmt:
		if len(x.Results) != 1 {
			return "", fmt.Errorf("return with %d results", len(x.Results))
		}
		id, ok := x.Results[0].(*ast.Ident)
		if !ok || c.retConst[id.Name] == "" {
			return "", fmt.Errorf("return value %s is not one of the named constants", types.ExprString(x.Results[0]))
		}
		return c.retConst[id.Name], nil
	case *ast.IfStmt:
		if x.Init != nil {
			return "", fmt.Errorf("if with an init statement")
		}
		cnd, err := c.cond(x.Cond)
		if err != nil {
			return "", err
		}
		th, err := c.stmts(x.Body.List, ind+"  ")
		if err != nil {
			return "", err
		}
		var el string
		switch e := x.Else.(type) {
		case nil:
			el, err = c.stmts(l[1:], ind)
		case *ast.BlockStmt:
			if len(l) > 1 {
				return "", fmt.Errorf("statements after an if/else whose branches both return")
			}
			el, err = c.stmts(e.List, ind+"  ")
		case *ast.IfStmt:
			el, err = c.stmts(append([]ast.Stmt{e}, l[1:]...), ind)
		}
		if err != nil {
			return "", err
		}
		if strings.HasPrefix(th, "if ") {
			th = "(" + th + ")"
		}
		return "if " + cnd + " then " + th + "\n" + ind + "else " + el, nil
	}
	return "", fmt.Errorf("statement outside the translated fragment (only if / return)")
}

func extractAssignable(repo string) (string, string, error) {
	fset := token.NewFileSet()
	f, err := parseGo(fset, repo, "compose", "utils.go")
	if err != nil {
		return "", "", err
	}
	fn := topFunc(f, "checkAssignable")
	if fn == nil || fn.Body == nil {
		return "", "", fmt.Errorf("func checkAssignable not found")
	}
	var ps []string
	for _, fl := range fn.Type.Params.List {
		if types.ExprString(fl.Type) != "reflect.Type" {
			return "", "", fmt.Errorf("checkAssignable: parameter of type %s", types.ExprString(fl.Type))
		}
		for _, n := range fl.Names {
			ps = append(ps, n.Name)
		}
	}
	if strings.Join(ps, ",") != "input,arg" {
		return "", "", fmt.Errorf("checkAssignable: parameters (%s), expected (input, arg)", strings.Join(ps, ", "))
	}
	// the constants of assignableType, in declaration order
	cfg := &decisionCfg{params: map[string]bool{"input": true, "arg": true}, retConst: map[string]string{}}
	for _, d := range f.Decls {
		gd, ok := d.(*ast.GenDecl)
		if !ok || gd.Tok != token.CONST {
			continue
		}
		for _, sp := range gd.Specs {
			for _, n := range sp.(*ast.ValueSpec).Names {
				if strings.HasPrefix(n.Name, "assignableType") {
					cfg.retConst[n.Name] = strings.TrimPrefix(n.Name, "assignableType")
				}
			}
		}
	}
	for _, want := range []string{"Must", "MustNot", "May"} {
		if cfg.retConst["assignableType"+want] != want {
			return "", "", fmt.Errorf("constant assignableType%s not found", want)
		}
	}
	if len(cfg.retConst) != 3 {
		return "", "", fmt.Errorf("assignableType has %d constants, the model knows 3", len(cfg.retConst))
	}
	body, err := cfg.stmts(fn.Body.List, "  ")
	if err != nil {
		return "", "", fmt.Errorf("checkAssignable: %v", err)
	}
	var b strings.Builder
	b.WriteString("(* Gen/Assignable.v — GENERATED by tools/go2v (extractor \"assignable\") from compose/utils.go\n")
	b.WriteString("   (func checkAssignable, translated statement by statement). Do not edit. *)\n")
	b.WriteString("From Eino Require Import Base.Util Model.Types Model.TypesGenLib.\n\n")
	b.WriteString("Definition check_assignable (unk : string -> option ty -> option ty -> bool) (u : univ) (input arg : option ty) : assignable :=\n  ")
	b.WriteString(body)
	b.WriteString(".\n")
	return "Assignable.v", b.String(), nil
}
