package main

// Extractor "assignable" (property C07): compose/utils.go, func checkAssignable, translated
// statement by statement into Gallina definitions over the vocabularies Model/TypesGenLib.v
// (total reading: [check_assignable]) and Model/TypesGenLibP.v (panic-aware reading:
// [check_assignable_p], None = the evaluation panics).
//
// The translator accepts a *decision function* over two reflect.Type parameters (whatever their
// names: the first is the model's [input], the second its [arg]):
//   statements   if c { … } [else if … | else { … }]   (a block that does not end in a return
//                falls through to what follows it), switch { case c, d: … default: … } without
//                tag / fallthrough / break, return K with K a named constant of the result type,
//                return f(x, y) with f another decision function of the package over parameters
//                (an arm extracted into a private helper: inlined);
//   conditions   && || ! ( ) true false, c == d and c != d between conditions (x == false …),
//                b(x[, y]) with b a private boolean decision function of the package (inlined),
//                and the atoms
//       x == nil        x != nil        x == y        x != y           (x, y parameters)
//       x.Kind() == reflect.K           x.Kind() != reflect.K          (either order)
//       x.M(y)                                                         (method call between parameters)
// A method other than Implements (a new reflect predicate) and a kind other than Interface on a
// concrete type are kept as applications of the extra parameter [unk], so that the generated
// function is "recognised but different" unless the answer does not matter (Proofs/GenAgreeTypes.v
// then fails); any other statement or expression shape is "not recognised" (translator tie
// unavailable, neutral file).
//
// Output: coq/Gen/Assignable.v with
//   check_assignable   : (string -> option ty -> option ty -> bool) -> univ -> option ty -> option ty -> assignable
//   check_assignable_p : (string -> option ty -> option ty -> bool) -> univ -> option ty -> option ty -> option assignable

import (
	"fmt"
	"go/ast"
	"go/parser"
	"go/token"
	"go/types"
	"os"
	"path/filepath"
	"sort"
	"strings"
)

const c07aHeadNeutral = "(* Gen/Assignable.v — translator tie UNAVAILABLE: tools/go2v (extractor \"assignable\") did not recognise the\n" +
	"   shape of compose/utils.go:checkAssignable; the model's own function is re-exported. *)\n" +
	"From Eino Require Import Base.Util Model.Types Model.TypesGenLib Model.TypesGenLibP.\n\n" +
	"Definition check_assignable (unk : string -> option ty -> option ty -> bool) (u : univ) (input arg : option ty) : assignable :=\n" +
	"  Model.Types.check_assignable u input arg.\n\n" +
	"Definition check_assignable_p (unk : string -> option ty -> option ty -> bool) (u : univ) (input arg : option ty) : option assignable :=\n" +
	"  Some (Model.Types.check_assignable u input arg).\n"

func init() {
	register("assignable", c07aExtract)
	registerFallback("assignable", "Assignable.v", c07aHeadNeutral)
}

func c07aCoqStr(s string) string { return `"` + strings.ReplaceAll(s, `"`, `""`) + `"%string` }

// ---------------------------------------------------------------- intermediate form

// a condition (op, name, args) or a decision tree (op "ite" / "ret")
type c07aNode struct {
	op   string // nil eq kind impl unk not and or beq const | ite ret
	s    string // kind name / method name / constant
	x, y string // Gallina names of the parameters an atom is about
	a    []*c07aNode
}

func (n *c07aNode) total() string {
	switch n.op {
	case "nil":
		return "(rt_is_nil " + n.x + ")"
	case "eq":
		return "(rt_eq " + n.x + " " + n.y + ")"
	case "kind":
		if n.s == "Interface" {
			return "(rt_kind_is " + c07aCoqStr(n.s) + " " + n.x + ")"
		}
		// the total vocabulary knows the Interface kind only: another kind is false for an interface type,
		// unknown for a concrete type
		return "(negb (rt_kind_is " + c07aCoqStr("Interface") + " " + n.x + ") && unk " + c07aCoqStr("Kind."+n.s) + " " + n.x + " None)"
	case "impl":
		return "(rt_implements u " + n.x + " " + n.y + ")"
	case "unk":
		return "(unk " + c07aCoqStr(n.s) + " " + n.x + " " + n.y + ")"
	case "not":
		return "(negb " + n.a[0].total() + ")"
	case "and":
		return "(" + n.a[0].total() + " && " + n.a[1].total() + ")"
	case "or":
		return "(" + n.a[0].total() + " || " + n.a[1].total() + ")"
	case "beq":
		return "(Bool.eqb " + n.a[0].total() + " " + n.a[1].total() + ")"
	case "const":
		return n.s
	case "ret":
		return n.s
	case "ite":
		return "(if " + n.a[0].total() + " then " + n.a[1].total() + "\n   else " + n.a[2].total() + ")"
	}
	panic("c07aNode.total: " + n.op)
}

func (n *c07aNode) partial() string {
	switch n.op {
	case "nil":
		return "(rtp_is_nil " + n.x + ")"
	case "eq":
		return "(rtp_eq " + n.x + " " + n.y + ")"
	case "kind":
		return "(rtp_kind_is unk " + c07aCoqStr(n.s) + " " + n.x + ")"
	case "impl":
		return "(rtp_implements u " + n.x + " " + n.y + ")"
	case "unk":
		return "(rtp_unk unk " + c07aCoqStr(n.s) + " " + n.x + " " + n.y + ")"
	case "not":
		return "(pb_not " + n.a[0].partial() + ")"
	case "and":
		return "(pb_and " + n.a[0].partial() + " " + n.a[1].partial() + ")"
	case "or":
		return "(pb_or " + n.a[0].partial() + " " + n.a[1].partial() + ")"
	case "beq":
		return "(pb_beq " + n.a[0].partial() + " " + n.a[1].partial() + ")"
	case "const":
		return "(pb_const " + n.s + ")"
	case "ret":
		return "(Some " + n.s + ")"
	case "ite":
		return "(pb_if " + n.a[0].partial() + " " + n.a[1].partial() + "\n   " + n.a[2].partial() + ")"
	}
	panic("c07aNode.partial: " + n.op)
}

func (n *c07aNode) size() int {
	k := 1
	for _, c := range n.a {
		k += c.size()
	}
	return k
}

// ---------------------------------------------------------------- translation

type c07aTr struct {
	funcs    map[string]*ast.FuncDecl // the package's top-level functions (no receiver)
	retConst map[string]string        // Go constant -> Gallina constructor
}

// one function being translated: its parameters under their Gallina names, what it returns
type c07aFrame struct {
	tr     *c07aTr
	params map[string]string // Go parameter name -> "input" / "arg"
	bool   bool              // a boolean helper (returns conditions) or a decision function (returns constants)
	stack  []string          // functions being inlined (no recursion)
}

func (f *c07aFrame) param(e ast.Expr) (string, bool) {
	for {
		p, ok := e.(*ast.ParenExpr)
		if !ok {
			break
		}
		e = p.X
	}
	id, ok := e.(*ast.Ident)
	if !ok {
		return "", false
	}
	g, ok := f.params[id.Name]
	return g, ok
}

// isNil is used by chancode.go (same package): kept under its old name
func isNil(e ast.Expr) bool { return c07aIsIdent(e, "nil") }

func c07aIsIdent(e ast.Expr, name string) bool {
	id, ok := e.(*ast.Ident)
	return ok && id.Name == name
}

// x.Kind() -> x
func (f *c07aFrame) kindOf(e ast.Expr) (string, bool) {
	call, ok := e.(*ast.CallExpr)
	if !ok || len(call.Args) != 0 {
		return "", false
	}
	sel, ok := call.Fun.(*ast.SelectorExpr)
	if !ok || sel.Sel.Name != "Kind" {
		return "", false
	}
	return f.param(sel.X)
}

// reflect.K -> K
func c07aReflectKind(e ast.Expr) (string, bool) {
	sel, ok := e.(*ast.SelectorExpr)
	if !ok {
		return "", false
	}
	if !c07aIsIdent(sel.X, "reflect") {
		return "", false
	}
	return sel.Sel.Name, true
}

func c07aNot(n *c07aNode) *c07aNode { return &c07aNode{op: "not", a: []*c07aNode{n}} }

func (f *c07aFrame) cond(e ast.Expr) (*c07aNode, error) {
	switch x := e.(type) {
	case *ast.ParenExpr:
		return f.cond(x.X)
	case *ast.Ident:
		if x.Name == "true" || x.Name == "false" {
			return &c07aNode{op: "const", s: x.Name}, nil
		}
	case *ast.UnaryExpr:
		if x.Op == token.NOT {
			s, err := f.cond(x.X)
			if err != nil {
				return nil, err
			}
			return c07aNot(s), nil
		}
	case *ast.BinaryExpr:
		switch x.Op {
		case token.LAND, token.LOR:
			l, err := f.cond(x.X)
			if err != nil {
				return nil, err
			}
			r, err := f.cond(x.Y)
			if err != nil {
				return nil, err
			}
			op := "and"
			if x.Op == token.LOR {
				op = "or"
			}
			return &c07aNode{op: op, a: []*c07aNode{l, r}}, nil
		case token.EQL, token.NEQ:
			wrap := func(n *c07aNode) (*c07aNode, error) {
				if x.Op == token.NEQ {
					return c07aNot(n), nil
				}
				return n, nil
			}
			if p, ok := f.param(x.X); ok && c07aIsIdent(x.Y, "nil") {
				return wrap(&c07aNode{op: "nil", x: p})
			}
			if p, ok := f.param(x.Y); ok && c07aIsIdent(x.X, "nil") {
				return wrap(&c07aNode{op: "nil", x: p})
			}
			if p, ok := f.param(x.X); ok {
				if q, ok := f.param(x.Y); ok {
					return wrap(&c07aNode{op: "eq", x: p, y: q})
				}
			}
			if p, ok := f.kindOf(x.X); ok {
				if k, ok := c07aReflectKind(x.Y); ok {
					return wrap(&c07aNode{op: "kind", s: k, x: p})
				}
			}
			if p, ok := f.kindOf(x.Y); ok {
				if k, ok := c07aReflectKind(x.X); ok {
					return wrap(&c07aNode{op: "kind", s: k, x: p})
				}
			}
			// two boolean expressions compared (c == false, …): both are evaluated
			l, err := f.cond(x.X)
			if err == nil {
				var r *c07aNode
				if r, err = f.cond(x.Y); err == nil {
					return wrap(&c07aNode{op: "beq", a: []*c07aNode{l, r}})
				}
			}
		}
	case *ast.CallExpr:
		// x.M(y)
		if sel, ok := x.Fun.(*ast.SelectorExpr); ok && len(x.Args) == 1 {
			if p, ok := f.param(sel.X); ok {
				if q, ok := f.param(x.Args[0]); ok {
					if sel.Sel.Name == "Implements" {
						return &c07aNode{op: "impl", x: p, y: q}, nil
					}
					return &c07aNode{op: "unk", s: sel.Sel.Name, x: p, y: q}, nil
				}
			}
		}
		// b(x[, y]): a private boolean decision function of the package, inlined
		if id, ok := x.Fun.(*ast.Ident); ok {
			return f.inline(id.Name, x.Args, true)
		}
	}
	return nil, fmt.Errorf("condition %s is outside the translated fragment", types.ExprString(e))
}

// the call f(args) of a private function over reflect.Type parameters, arguments parameters of the caller
func (f *c07aFrame) inline(name string, args []ast.Expr, wantBool bool) (*c07aNode, error) {
	fn := f.tr.funcs[name]
	if fn == nil || fn.Body == nil {
		return nil, fmt.Errorf("call of %s: not a function of the package", name)
	}
	for _, s := range f.stack {
		if s == name {
			return nil, fmt.Errorf("call of %s: recursion", name)
		}
	}
	if len(f.stack) >= 4 {
		return nil, fmt.Errorf("call of %s: helpers nested too deeply", name)
	}
	if fn.Type.TypeParams != nil && len(fn.Type.TypeParams.List) > 0 {
		return nil, fmt.Errorf("call of %s: generic function", name)
	}
	if fn.Type.Results == nil || len(fn.Type.Results.List) != 1 || len(fn.Type.Results.List[0].Names) > 0 {
		return nil, fmt.Errorf("call of %s: not a function with one unnamed result", name)
	}
	rt := types.ExprString(fn.Type.Results.List[0].Type)
	if wantBool && rt != "bool" || !wantBool && rt != "assignableType" {
		return nil, fmt.Errorf("call of %s: result type %s", name, rt)
	}
	var ps []string
	for _, fl := range fn.Type.Params.List {
		if types.ExprString(fl.Type) != "reflect.Type" {
			return nil, fmt.Errorf("call of %s: parameter of type %s", name, types.ExprString(fl.Type))
		}
		if len(fl.Names) == 0 {
			return nil, fmt.Errorf("call of %s: unnamed parameter", name)
		}
		for _, n := range fl.Names {
			ps = append(ps, n.Name)
		}
	}
	if len(ps) != len(args) {
		return nil, fmt.Errorf("call of %s: %d arguments for %d parameters", name, len(args), len(ps))
	}
	g := &c07aFrame{tr: f.tr, params: map[string]string{}, bool: wantBool, stack: append(append([]string{}, f.stack...), name)}
	for i, a := range args {
		p, ok := f.param(a)
		if !ok {
			return nil, fmt.Errorf("call of %s: argument %s is not a parameter", name, types.ExprString(a))
		}
		if ps[i] != "_" {
			g.params[ps[i]] = p
		}
	}
	return g.stmts(fn.Body.List, nil)
}

func c07aIte(c, t, e *c07aNode) *c07aNode { return &c07aNode{op: "ite", a: []*c07aNode{c, t, e}} }

// a statement list -> decision tree; k = what control does when it falls off the end (nil: it must not)
func (f *c07aFrame) stmts(l []ast.Stmt, k *c07aNode) (*c07aNode, error) {
	if len(l) == 0 {
		if k == nil {
			return nil, fmt.Errorf("control reaches the end of the function without a return")
		}
		return k, nil
	}
	switch x := l[0].(type) {
	case *ast.EmptyStmt:
		return f.stmts(l[1:], k)
	case *ast.BlockStmt:
		rest, err := f.rest(l[1:], k)
		if err != nil {
			return nil, err
		}
		return f.stmts(x.List, rest)
	case *ast.ReturnStmt:
		// what follows a return is dead code (go vet's business, not ours)
		if len(x.Results) != 1 {
			return nil, fmt.Errorf("return with %d results", len(x.Results))
		}
		if f.bool {
			return f.cond(x.Results[0])
		}
		r := x.Results[0]
		for {
			p, ok := r.(*ast.ParenExpr)
			if !ok {
				break
			}
			r = p.X
		}
		if id, ok := r.(*ast.Ident); ok && f.tr.retConst[id.Name] != "" {
			return &c07aNode{op: "ret", s: f.tr.retConst[id.Name]}, nil
		}
		if call, ok := r.(*ast.CallExpr); ok {
			if id, ok := call.Fun.(*ast.Ident); ok {
				return f.inline(id.Name, call.Args, false)
			}
		}
		return nil, fmt.Errorf("return value %s is not one of the named constants", types.ExprString(x.Results[0]))
	case *ast.IfStmt:
		if x.Init != nil {
			return nil, fmt.Errorf("if with an init statement")
		}
		cnd, err := f.cond(x.Cond)
		if err != nil {
			return nil, err
		}
		rest, err := f.rest(l[1:], k)
		if err != nil {
			return nil, err
		}
		th, err := f.stmts(x.Body.List, rest)
		if err != nil {
			return nil, err
		}
		var el *c07aNode
		switch e := x.Else.(type) {
		case nil:
			el = rest
			if el == nil {
				return nil, fmt.Errorf("control reaches the end of the function without a return")
			}
		case *ast.BlockStmt:
			el, err = f.stmts(e.List, rest)
		case *ast.IfStmt:
			el, err = f.stmts([]ast.Stmt{e}, rest)
		default:
			err = fmt.Errorf("else of an unknown shape")
		}
		if err != nil {
			return nil, err
		}
		return c07aIte(cnd, th, el), nil
	case *ast.SwitchStmt:
		if x.Init != nil || x.Tag != nil {
			return nil, fmt.Errorf("switch with an init statement or a tag")
		}
		rest, err := f.rest(l[1:], k)
		if err != nil {
			return nil, err
		}
		var deflt *ast.CaseClause
		var clauses []*ast.CaseClause
		for _, s := range x.Body.List {
			cc, ok := s.(*ast.CaseClause)
			if !ok {
				return nil, fmt.Errorf("switch body of an unknown shape")
			}
			for _, b := range cc.Body {
				if _, ok := b.(*ast.BranchStmt); ok {
					return nil, fmt.Errorf("break / fallthrough / goto in a switch")
				}
			}
			if cc.List == nil {
				deflt = cc
			} else {
				clauses = append(clauses, cc)
			}
		}
		out := rest
		if deflt != nil {
			if out, err = f.stmts(deflt.Body, rest); err != nil {
				return nil, err
			}
		}
		if out == nil && len(clauses) > 0 {
			return nil, fmt.Errorf("control reaches the end of the function without a return")
		}
		for i := len(clauses) - 1; i >= 0; i-- {
			cc := clauses[i]
			var cnd *c07aNode
			for _, e := range cc.List {
				c, err := f.cond(e)
				if err != nil {
					return nil, err
				}
				if cnd == nil {
					cnd = c
				} else {
					cnd = &c07aNode{op: "or", a: []*c07aNode{cnd, c}}
				}
			}
			body, err := f.stmts(cc.Body, rest)
			if err != nil {
				return nil, err
			}
			out = c07aIte(cnd, body, out)
		}
		if out == nil {
			return nil, fmt.Errorf("control reaches the end of the function without a return")
		}
		return out, nil
	}
	return nil, fmt.Errorf("statement outside the translated fragment (only if / switch / return)")
}

// the continuation made of the statements that follow (nil when there are none and control must not get there)
func (f *c07aFrame) rest(l []ast.Stmt, k *c07aNode) (*c07aNode, error) {
	if len(l) == 0 {
		return k, nil
	}
	return f.stmts(l, k)
}

// ---------------------------------------------------------------- driver

func c07aExtract(repo string) (string, string, error) {
	fset := token.NewFileSet()
	dir := filepath.Join(repo, "compose")
	f, err := parser.ParseFile(fset, filepath.Join(dir, "utils.go"), nil, 0)
	if err != nil {
		return "", "", err
	}
	tr := &c07aTr{funcs: map[string]*ast.FuncDecl{}, retConst: map[string]string{}}
	files := []*ast.File{f}
	// helpers may live in any file of the package (test files and files behind the verif tag excluded)
	if ents, err := os.ReadDir(dir); err == nil {
		var names []string
		for _, e := range ents {
			n := e.Name()
			if e.IsDir() || !strings.HasSuffix(n, ".go") || strings.HasSuffix(n, "_test.go") || strings.HasPrefix(n, "verif_") || n == "utils.go" {
				continue
			}
			names = append(names, n)
		}
		sort.Strings(names)
		for _, n := range names {
			if g, err := parser.ParseFile(fset, filepath.Join(dir, n), nil, 0); err == nil {
				files = append(files, g)
			}
		}
	}
	for _, g := range files {
		for _, d := range g.Decls {
			if fn, ok := d.(*ast.FuncDecl); ok && fn.Recv == nil {
				if _, dup := tr.funcs[fn.Name.Name]; !dup {
					tr.funcs[fn.Name.Name] = fn
				}
			}
		}
	}
	fn := tr.funcs["checkAssignable"]
	if fn == nil || fn.Body == nil {
		return "", "", fmt.Errorf("func checkAssignable not found")
	}
	var ps []string
	for _, fl := range fn.Type.Params.List {
		if types.ExprString(fl.Type) != "reflect.Type" {
			return "", "", fmt.Errorf("checkAssignable: parameter of type %s", types.ExprString(fl.Type))
		}
		for _, n := range fl.Names {
			ps = append(ps, n.Name)
		}
	}
	if len(ps) != 2 || ps[0] == ps[1] {
		return "", "", fmt.Errorf("checkAssignable: parameters (%s), expected two reflect.Type", strings.Join(ps, ", "))
	}
	if fn.Type.Results == nil || len(fn.Type.Results.List) != 1 || len(fn.Type.Results.List[0].Names) > 0 ||
		types.ExprString(fn.Type.Results.List[0].Type) != "assignableType" {
		return "", "", fmt.Errorf("checkAssignable: result is not one unnamed assignableType")
	}
	// the constants of assignableType
	for _, g := range files {
		for _, d := range g.Decls {
			gd, ok := d.(*ast.GenDecl)
			if !ok || gd.Tok != token.CONST {
				continue
			}
			for _, sp := range gd.Specs {
				for _, n := range sp.(*ast.ValueSpec).Names {
					if strings.HasPrefix(n.Name, "assignableType") {
						tr.retConst[n.Name] = strings.TrimPrefix(n.Name, "assignableType")
					}
				}
			}
		}
	}
	for _, want := range []string{"Must", "MustNot", "May"} {
		if tr.retConst["assignableType"+want] != want {
			return "", "", fmt.Errorf("constant assignableType%s not found", want)
		}
	}
	if len(tr.retConst) != 3 {
		return "", "", fmt.Errorf("assignableType has %d constants, the model knows 3", len(tr.retConst))
	}
	top := &c07aFrame{tr: tr, params: map[string]string{}, stack: []string{"checkAssignable"}}
	if ps[0] != "_" {
		top.params[ps[0]] = "input"
	}
	if ps[1] != "_" {
		top.params[ps[1]] = "arg"
	}
	tree, err := top.stmts(fn.Body.List, nil)
	if err != nil {
		return "", "", fmt.Errorf("checkAssignable: %v", err)
	}
	if tree.size() > 400 {
		return "", "", fmt.Errorf("checkAssignable: decision tree of %d nodes", tree.size())
	}
	var b strings.Builder
	b.WriteString("(* Gen/Assignable.v — GENERATED by tools/go2v (extractor \"assignable\") from compose/utils.go\n")
	b.WriteString("   (func checkAssignable, translated statement by statement; total and panic-aware reading). Do not edit. *)\n")
	b.WriteString("From Eino Require Import Base.Util Model.Types Model.TypesGenLib Model.TypesGenLibP.\n\n")
	b.WriteString("Definition check_assignable (unk : string -> option ty -> option ty -> bool) (u : univ) (input arg : option ty) : assignable :=\n  ")
	b.WriteString(tree.total())
	b.WriteString(".\n\n")
	b.WriteString("Definition check_assignable_p (unk : string -> option ty -> option ty -> bool) (u : univ) (input arg : option ty) : option assignable :=\n  ")
	b.WriteString(tree.partial())
	b.WriteString(".\n")
	return "Assignable.v", b.String(), nil
}
