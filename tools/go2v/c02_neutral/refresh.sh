#!/bin/bash
# Refresh the frozen translations used as neutral Gen files (run after the agreement proofs were adapted to a
# changed /repo): translation of /repo's current tree with tie_available = false.
cd "$(dirname "$0")" || exit 1
for f in DagBranchCode DagTablesCode DagSkipCode ChanCode; do
  sed 's/^Definition tie_available : bool := true\./Definition tie_available : bool := false./' ../../../coq/Gen/$f.v > $f.v
done
