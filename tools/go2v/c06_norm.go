package main

// Source-level normalisation for the C06 extractors (c06_intr.go): behaviour-preserving rewrites of a
// function body that bring harmless refactorings back to the shape the two small compilers translate,
// so that such a refactoring leaves the translator tie available and its obligations intact.
//
//   helper called as a statement        f(a, b)            -> the helper's body, parameters replaced by the arguments
//                                                            (a helper without results and without `return`)
//   helper called in tail position      return f(a, b)     -> the helper's body (its returns are the caller's)
//   expression helper                   … f(a, b) …        -> the returned expression (body = one `return e`)
//   switch                              switch { case c: A; default: B }   -> if c { A } else { B }
//                                       switch x { case a, b: A }          -> if x == a || x == b { A }
//   named condition                     b := c1 && c2 ; … b …              -> … (c1 && c2) …
//   optional value declared before      v := f(e); if v != nil { … }       -> if v := f(e); v != nil { … }
//
// A helper is a function or a method of the same receiver type declared in the same file that the
// translation has no meaning for (not in [keep]). Whenever a side condition fails (a helper that assigns
// its parameters, a clash of local names, a `break` inside a switch, a variable of the condition assigned
// later …) the code is left as it is: the compilers then see a statement outside their fragment and the
// tie is "unavailable" as before. Nothing here is specific to one function: the rules are applied to
// every function the C06 extractors read.

import (
	"bytes"
	"go/ast"
	"go/parser"
	"go/printer"
	"go/token"
)

type c06Norm struct {
	file     *ast.File
	keep     map[string]bool // callee names with a meaning of their own in the translation
	names    map[string]bool // every identifier of the function being normalised
	recv     string          // receiver name of the function being normalised ("" = plain function)
	recvType string
	nres     int // number of results of the function being normalised
	depth    int
}

// names the compilers translate themselves (or that belong to the vocabulary)
var c06KeepCallees = map[string]bool{
	"getHitKey": true, "isSubGraphInterrupt": true, "wrapGraphNodeError": true, "handleInterrupt": true,
	"handleInterruptWithSubGraphAndRerunNodes": true, "resolveInterruptCompletedTasks": true, "calculateNextTasks": true,
	"resolveCompletedTasks": true, "newGraphRunError": true, "append": true, "len": true, "make": true,
	"ExtractInterruptInfo": true, "createTasks": true, "restoreTasks": true, "initChannelManager": true, "initTaskManager": true,
	"extractOption": true, "run": true,
}

func c06RecvTypeName(fn *ast.FuncDecl) (name, ty string) {
	if fn.Recv == nil || len(fn.Recv.List) != 1 {
		return "", ""
	}
	t := fn.Recv.List[0].Type
	if s, ok := t.(*ast.StarExpr); ok {
		t = s.X
	}
	id, ok := t.(*ast.Ident)
	if !ok {
		return "", ""
	}
	if len(fn.Recv.List[0].Names) == 1 {
		name = fn.Recv.List[0].Names[0].Name
	}
	return name, id.Name
}

// c06NormalizeFunc rewrites fn.Body in place (fn belongs to file, which the caller parsed for itself).
func c06NormalizeFunc(file *ast.File, fn *ast.FuncDecl) {
	if fn == nil || fn.Body == nil {
		return
	}
	n := &c06Norm{file: file, keep: c06KeepCallees}
	n.recv, n.recvType = c06RecvTypeName(fn)
	if fn.Type.Results != nil {
		n.nres = fn.Type.Results.NumFields()
	}
	n.names = c06Idents(fn)
	fn.Body.List = n.block(fn.Body.List)
}

// ---- helpers on the AST ----

func c06CopyStmts(l []ast.Stmt) []ast.Stmt {
	var buf bytes.Buffer
	buf.WriteString("package p\nfunc _() {\n")
	fset := token.NewFileSet()
	for _, s := range l {
		if err := printer.Fprint(&buf, fset, s); err != nil {
			return nil
		}
		buf.WriteString("\n")
	}
	buf.WriteString("}\n")
	f, err := parser.ParseFile(token.NewFileSet(), "", buf.Bytes(), 0)
	if err != nil || len(f.Decls) != 1 {
		return nil
	}
	return f.Decls[0].(*ast.FuncDecl).Body.List
}

func c06CopyExpr(e ast.Expr) ast.Expr {
	l := c06CopyStmts([]ast.Stmt{&ast.ExprStmt{X: &ast.CallExpr{Fun: ast.NewIdent("_"), Args: []ast.Expr{e}}}})
	if len(l) != 1 {
		return nil
	}
	return l[0].(*ast.ExprStmt).X.(*ast.CallExpr).Args[0]
}

// names bound or assigned directly (x = …, x := …, x++, var x, range x) and names whose address is taken;
// deep: also the variable at the root of an assigned element / field / pointee (m[k] = …, *p = …, x.f = …)
func c06Written(n ast.Node, deep bool) map[string]bool {
	w := map[string]bool{}
	root := func(e ast.Expr) string {
		for {
			switch x := e.(type) {
			case *ast.Ident:
				return x.Name
			case *ast.ParenExpr:
				e = x.X
			case *ast.IndexExpr:
				if !deep {
					return ""
				}
				e = x.X
			case *ast.StarExpr:
				if !deep {
					return ""
				}
				e = x.X
			case *ast.SelectorExpr:
				if !deep {
					return ""
				}
				e = x.X
			default:
				return ""
			}
		}
	}
	ast.Inspect(n, func(n ast.Node) bool {
		switch x := n.(type) {
		case *ast.AssignStmt:
			for _, l := range x.Lhs {
				if v := root(l); v != "" {
					w[v] = true
				}
			}
		case *ast.IncDecStmt:
			if v := root(x.X); v != "" {
				w[v] = true
			}
		case *ast.ValueSpec:
			for _, id := range x.Names {
				w[id.Name] = true
			}
		case *ast.RangeStmt:
			for _, e := range []ast.Expr{x.Key, x.Value} {
				if id, ok := e.(*ast.Ident); ok {
					w[id.Name] = true
				}
			}
		case *ast.UnaryExpr:
			if x.Op == token.AND {
				if v := root(x.X); v != "" {
					w[v] = true
				}
			}
		case *ast.CallExpr:
			// deep: a slice, map or pointer handed to a call (other than len) may be changed by it
			if id, ok := x.Fun.(*ast.Ident); deep && !(ok && id.Name == "len") {
				for _, a := range x.Args {
					for v := range c06Idents(a) {
						w[v] = true
					}
				}
			}
		}
		return true
	})
	delete(w, "_")
	return w
}

// names declared inside (:=, var, range)
func c06Declared(n ast.Node) map[string]bool {
	d := map[string]bool{}
	ast.Inspect(n, func(n ast.Node) bool {
		switch x := n.(type) {
		case *ast.AssignStmt:
			if x.Tok == token.DEFINE {
				for _, l := range x.Lhs {
					if id, ok := l.(*ast.Ident); ok {
						d[id.Name] = true
					}
				}
			}
		case *ast.ValueSpec:
			for _, id := range x.Names {
				d[id.Name] = true
			}
		case *ast.RangeStmt:
			if x.Tok == token.DEFINE {
				for _, e := range []ast.Expr{x.Key, x.Value} {
					if id, ok := e.(*ast.Ident); ok {
						d[id.Name] = true
					}
				}
			}
		}
		return true
	})
	delete(d, "_")
	return d
}

func c06Idents(n ast.Node) map[string]bool {
	m := map[string]bool{}
	ast.Inspect(n, func(n ast.Node) bool {
		if id, ok := n.(*ast.Ident); ok {
			m[id.Name] = true
		}
		return true
	})
	return m
}

// replace the identifiers of [sub] (not field names, not keys of composite literals) by copies of their expressions
func c06Subst(n ast.Node, sub map[string]ast.Expr) {
	if len(sub) == 0 {
		return
	}
	rep := func(e ast.Expr) ast.Expr {
		if id, ok := e.(*ast.Ident); ok {
			if r, ok := sub[id.Name]; ok {
				c := c06CopyExpr(r)
				switch c.(type) {
				case *ast.BinaryExpr, *ast.UnaryExpr, *ast.StarExpr, *ast.TypeAssertExpr, *ast.FuncLit, *ast.KeyValueExpr:
					return &ast.ParenExpr{X: c}
				}
				return c
			}
		}
		return e
	}
	repl := func(l []ast.Expr) {
		for i := range l {
			l[i] = rep(l[i])
		}
	}
	ast.Inspect(n, func(n ast.Node) bool {
		switch x := n.(type) {
		case *ast.SelectorExpr:
			x.X = rep(x.X)
		case *ast.StarExpr:
			x.X = rep(x.X)
		case *ast.UnaryExpr:
			x.X = rep(x.X)
		case *ast.BinaryExpr:
			x.X, x.Y = rep(x.X), rep(x.Y)
		case *ast.ParenExpr:
			x.X = rep(x.X)
		case *ast.IndexExpr:
			x.X, x.Index = rep(x.X), rep(x.Index)
		case *ast.SliceExpr:
			x.X = rep(x.X)
			if x.Low != nil {
				x.Low = rep(x.Low)
			}
			if x.High != nil {
				x.High = rep(x.High)
			}
			if x.Max != nil {
				x.Max = rep(x.Max)
			}
		case *ast.CallExpr:
			x.Fun = rep(x.Fun)
			repl(x.Args)
		case *ast.KeyValueExpr:
			x.Value = rep(x.Value)
		case *ast.CompositeLit:
			for i, el := range x.Elts {
				if _, kv := el.(*ast.KeyValueExpr); !kv {
					x.Elts[i] = rep(el)
				}
			}
		case *ast.TypeAssertExpr:
			x.X = rep(x.X)
		case *ast.AssignStmt:
			repl(x.Lhs)
			repl(x.Rhs)
		case *ast.ReturnStmt:
			repl(x.Results)
		case *ast.ExprStmt:
			x.X = rep(x.X)
		case *ast.IfStmt:
			x.Cond = rep(x.Cond)
		case *ast.RangeStmt:
			x.X = rep(x.X)
		case *ast.ForStmt:
			if x.Cond != nil {
				x.Cond = rep(x.Cond)
			}
		case *ast.SwitchStmt:
			if x.Tag != nil {
				x.Tag = rep(x.Tag)
			}
		case *ast.CaseClause:
			repl(x.List)
		case *ast.IncDecStmt:
			x.X = rep(x.X)
		case *ast.SendStmt:
			x.Chan, x.Value = rep(x.Chan), rep(x.Value)
		}
		return true
	})
}

func c06HasReturn(n ast.Node) bool {
	found := false
	ast.Inspect(n, func(n ast.Node) bool {
		switch n.(type) {
		case *ast.ReturnStmt:
			found = true
		case *ast.FuncLit:
			return false
		}
		return !found
	})
	return found
}

// ---- helpers of the same file ----

// the helper a call refers to: f(…) or <recv>.f(…) with f declared in this file, not in the vocabulary
func (n *c06Norm) helper(call *ast.CallExpr) *ast.FuncDecl {
	var name string
	method := false
	switch f := call.Fun.(type) {
	case *ast.Ident:
		name = f.Name
	case *ast.SelectorExpr:
		id, ok := f.X.(*ast.Ident)
		if !ok || n.recv == "" || id.Name != n.recv {
			return nil
		}
		name, method = f.Sel.Name, true
	default:
		return nil
	}
	if n.keep[name] || call.Ellipsis != token.NoPos {
		return nil
	}
	for _, d := range n.file.Decls {
		fd, ok := d.(*ast.FuncDecl)
		if !ok || fd.Name.Name != name || fd.Body == nil {
			continue
		}
		_, rt := c06RecvTypeName(fd)
		if method != (fd.Recv != nil) || (method && rt != n.recvType) {
			continue
		}
		if fd.Type.TypeParams != nil {
			return nil
		}
		return fd
	}
	return nil
}

// the helper's body with the parameters (and the receiver) replaced by the arguments; nil if a side condition fails.
// [scope] = the names visible at the call site that the helper's locals must not shadow or capture.
func (n *c06Norm) instantiate(fd *ast.FuncDecl, call *ast.CallExpr, scope map[string]bool) []ast.Stmt {
	var params []string
	for _, fl := range fd.Type.Params.List {
		if _, variadic := fl.Type.(*ast.Ellipsis); variadic || len(fl.Names) == 0 {
			return nil
		}
		for _, nm := range fl.Names {
			params = append(params, nm.Name)
		}
	}
	if len(params) != len(call.Args) {
		return nil
	}
	if fd.Type.Results != nil {
		for _, fl := range fd.Type.Results.List {
			if len(fl.Names) != 0 {
				return nil // named results
			}
		}
	}
	body := c06CopyStmts(fd.Body.List)
	if body == nil && len(fd.Body.List) != 0 {
		return nil
	}
	blk := &ast.BlockStmt{List: body}
	written := c06Written(blk, false)
	declared := c06Declared(blk)
	sub := map[string]ast.Expr{}
	argNames := map[string]bool{}
	for i, p := range params {
		if p == "_" {
			continue
		}
		if written[p] {
			return nil // the helper assigns (or takes the address of) a parameter
		}
		a := call.Args[i]
		if !c06PureArg(a) {
			return nil
		}
		for id := range c06Idents(a) {
			argNames[id] = true
		}
		if id, ok := a.(*ast.Ident); ok && id.Name == p {
			continue
		}
		sub[p] = a
	}
	if rn, _ := c06RecvTypeName(fd); rn != "" && rn != n.recv {
		if written[rn] {
			return nil
		}
		sub[rn] = ast.NewIdent(n.recv)
		argNames[n.recv] = true
	}
	for d := range declared {
		if argNames[d] {
			return nil // a local of the helper would capture a name of an argument
		}
	}
	for _, st := range body {
		for d := range c06DeclaredHere(st) {
			if scope[d] {
				return nil // a local of the helper, spliced into the caller's block, would shadow or redeclare a caller's name
			}
		}
	}
	// the arguments must not be changed by the helper (they are substituted, not copied)
	for a := range argNames {
		if written[a] {
			return nil
		}
	}
	c06Subst(blk, sub)
	return blk.List
}

// names a statement declares in the block it stands in (not in nested blocks)
func c06DeclaredHere(st ast.Stmt) map[string]bool {
	d := map[string]bool{}
	switch x := st.(type) {
	case *ast.AssignStmt:
		if x.Tok == token.DEFINE {
			for _, l := range x.Lhs {
				if id, ok := l.(*ast.Ident); ok {
					d[id.Name] = true
				}
			}
		}
	case *ast.DeclStmt:
		if gd, ok := x.Decl.(*ast.GenDecl); ok {
			for _, sp := range gd.Specs {
				if vs, ok := sp.(*ast.ValueSpec); ok {
					for _, id := range vs.Names {
						d[id.Name] = true
					}
				}
			}
		}
	}
	delete(d, "_")
	return d
}

// an argument that can be substituted for a parameter: a variable, a field / element / dereference / address of one, a constant
func c06PureArg(e ast.Expr) bool {
	switch x := e.(type) {
	case *ast.Ident, *ast.BasicLit:
		return true
	case *ast.ParenExpr:
		return c06PureArg(x.X)
	case *ast.SelectorExpr:
		return c06PureArg(x.X)
	case *ast.StarExpr:
		return c06PureArg(x.X)
	case *ast.UnaryExpr:
		return (x.Op == token.AND || x.Op == token.NOT) && c06PureArg(x.X)
	case *ast.IndexExpr:
		return c06PureArg(x.X) && c06PureArg(x.Index)
	}
	return false
}

// ---- the rewriting ----

func (n *c06Norm) block(l []ast.Stmt) []ast.Stmt {
	if n.depth > 6 {
		return l
	}
	// switches first: what follows may depend on the if-chain they become
	var exp []ast.Stmt
	for _, s := range l {
		if sw, ok := s.(*ast.SwitchStmt); ok {
			if is := n.switchToIf(sw); is != nil {
				if sw.Init != nil {
					exp = append(exp, sw.Init)
				}
				exp = append(exp, is)
				continue
			}
		}
		exp = append(exp, s)
	}
	l = exp
	var out []ast.Stmt
	for i := 0; i < len(l); i++ {
		s := l[i]
		scope := n.names
		// expression helpers anywhere in the statement
		n.exprHelpers(s)
		switch x := s.(type) {
		case *ast.ExprStmt:
			if call, ok := x.X.(*ast.CallExpr); ok {
				if fd := n.helper(call); fd != nil && fd.Type.Results == nil {
					body := fd.Body.List
					if k := len(body); k > 0 {
						if r, ok := body[k-1].(*ast.ReturnStmt); ok && len(r.Results) == 0 {
							body = body[:k-1]
						}
					}
					if !c06HasReturn(&ast.BlockStmt{List: body}) {
						if inst := n.instantiate(&ast.FuncDecl{Recv: fd.Recv, Name: fd.Name, Type: fd.Type, Body: &ast.BlockStmt{List: body}}, call, scope); inst != nil || len(body) == 0 {
							n.depth++
							out = append(out, n.block(inst)...)
							n.depth--
							continue
						}
					}
				}
			}
		case *ast.ReturnStmt:
			if len(x.Results) == 1 {
				if call, ok := x.Results[0].(*ast.CallExpr); ok {
					if fd := n.helper(call); fd != nil && fd.Type.Results != nil && fd.Type.Results.NumFields() == n.nres && c06EndsInReturn(fd.Body.List) {
						if inst := n.instantiate(fd, call, scope); inst != nil {
							n.depth++
							out = append(out, n.block(inst)...)
							n.depth--
							continue
						}
					}
				}
			}
		case *ast.AssignStmt:
			if x.Tok == token.DEFINE && len(x.Lhs) == 1 && len(x.Rhs) == 1 {
				if id, ok := x.Lhs[0].(*ast.Ident); ok && id.Name != "_" {
					// t := e, used once, in the statement that follows: a temporary
					if i+1 < len(l) && c06SingleUseTemp(id.Name, x.Rhs[0], l[i+1], l[i+2:]) {
						c06Subst(l[i+1], map[string]ast.Expr{id.Name: x.Rhs[0]})
						continue
					}
					// b := <condition>: a named condition
					if c06IsCondExpr(x.Rhs[0]) && c06OnlyRead(id.Name, x.Rhs[0], l[i+1:]) {
						c06Subst(&ast.BlockStmt{List: l[i+1:]}, map[string]ast.Expr{id.Name: x.Rhs[0]})
						continue
					}
					// v := f(e); if v != nil { … }  with v used nowhere else
					// (not the unit `err := call(); if err != nil { return … }`, which the compilers read as it stands)
					if _, isCall := x.Rhs[0].(*ast.CallExpr); isCall && i+1 < len(l) && id.Name != "err" {
						if is, ok := l[i+1].(*ast.IfStmt); ok && is.Init == nil && c06IsNotNilTest(is.Cond, id.Name) &&
							!c06Idents(&ast.BlockStmt{List: l[i+2:]})[id.Name] {
							is.Init = x
							continue
						}
					}
				}
			}
		}
		if is, ok := s.(*ast.IfStmt); ok {
			if loop := n.membershipLoop(is); loop != nil {
				s = loop
			}
		}
		// inside compound statements
		switch x := s.(type) {
		case *ast.IfStmt:
			n.ifStmt(x)
		case *ast.ForStmt:
			x.Body.List = n.block(x.Body.List)
		case *ast.RangeStmt:
			x.Body.List = n.block(x.Body.List)
		case *ast.BlockStmt:
			x.List = n.block(x.List)
		}
		out = append(out, s)
	}
	return out
}

func (n *c06Norm) ifStmt(x *ast.IfStmt) {
	x.Body.List = n.block(x.Body.List)
	switch e := x.Else.(type) {
	case *ast.BlockStmt:
		e.List = n.block(e.List)
	case *ast.IfStmt:
		n.ifStmt(e)
	}
}

func c06EndsInReturn(l []ast.Stmt) bool {
	if len(l) == 0 {
		return false
	}
	_, ok := l[len(l)-1].(*ast.ReturnStmt)
	return ok
}

func c06IsNotNilTest(c ast.Expr, v string) bool {
	be, ok := c06Unparen(c).(*ast.BinaryExpr)
	if !ok || be.Op != token.NEQ || !c06IsNil(be.Y) {
		return false
	}
	id, ok := be.X.(*ast.Ident)
	return ok && id.Name == v
}

// [v] := [e] is a temporary of the statement [next]: used exactly once there and nowhere after it, and moving the
// evaluation of e to the place of use changes nothing: next is `return c…, v` (the other results constants or
// variables), or e calls nothing but append / len and next is a plain call / assignment / return whose other
// operands are variables
func c06SingleUseTemp(v string, e ast.Expr, next ast.Stmt, after []ast.Stmt) bool {
	if c06Idents(&ast.BlockStmt{List: after})[v] {
		return false
	}
	uses := 0
	ast.Inspect(next, func(n ast.Node) bool {
		if id, ok := n.(*ast.Ident); ok && id.Name == v {
			uses++
		}
		return true
	})
	if uses != 1 || c06Written(next, false)[v] {
		return false
	}
	simple := func(x ast.Expr) bool {
		switch y := c06Unparen(x).(type) {
		case *ast.Ident, *ast.BasicLit:
			return true
		case *ast.SelectorExpr:
			_, ok := y.X.(*ast.Ident)
			return ok
		}
		return false
	}
	callFree := true
	ast.Inspect(e, func(n ast.Node) bool {
		if c, ok := n.(*ast.CallExpr); ok {
			if id, ok := c.Fun.(*ast.Ident); !ok || (id.Name != "len" && id.Name != "append") {
				callFree = false
			}
		}
		return callFree
	})
	switch x := next.(type) {
	case *ast.ReturnStmt:
		for _, r := range x.Results {
			if !simple(r) {
				return false
			}
		}
		return true
	case *ast.ExprStmt, *ast.AssignStmt:
		if !callFree {
			return false
		}
		var call *ast.CallExpr
		if es, ok := x.(*ast.ExprStmt); ok {
			call, _ = es.X.(*ast.CallExpr)
		} else if as := x.(*ast.AssignStmt); len(as.Rhs) == 1 {
			call, _ = as.Rhs[0].(*ast.CallExpr)
			if call == nil {
				return simple(as.Rhs[0]) // x = v
			}
			for _, lh := range as.Lhs {
				if !simple(lh) {
					return false
				}
			}
		}
		if call == nil {
			return false
		}
		for _, a := range call.Args {
			if u, ok := a.(*ast.UnaryExpr); ok && u.Op == token.AND {
				a = u.X
			}
			if !simple(a) {
				return false
			}
		}
		return true
	}
	return false
}

// a comparison, a conjunction / disjunction / negation of such
func c06IsCondExpr(e ast.Expr) bool {
	switch x := c06Unparen(e).(type) {
	case *ast.BinaryExpr:
		switch x.Op {
		case token.EQL, token.NEQ, token.LSS, token.GTR, token.LEQ, token.GEQ, token.LAND, token.LOR:
			return true
		}
	case *ast.UnaryExpr:
		return x.Op == token.NOT
	}
	return false
}

// every use of [v] in the statements [rest] comes before anything the expression [e] mentions can have changed
func c06OnlyRead(v string, e ast.Expr, rest []ast.Stmt) bool {
	pure := true
	ast.Inspect(e, func(n ast.Node) bool {
		if c, ok := n.(*ast.CallExpr); ok {
			if id, ok := c.Fun.(*ast.Ident); !ok || id.Name != "len" {
				pure = false
			}
		}
		return pure
	})
	if !pure {
		return false
	}
	vars := c06Idents(e)
	dirty := false
	for _, s := range rest {
		w := c06Written(s, true)
		if w[v] {
			return false
		}
		writes := false
		for id := range vars {
			if w[id] {
				writes = true
			}
		}
		if c06Idents(s)[v] {
			if dirty {
				return false
			}
			if writes {
				// allowed: `if … v … { body }` where only the body writes and does not mention v
				is, ok := s.(*ast.IfStmt)
				if !ok || is.Init != nil || c06Idents(is.Body)[v] || (is.Else != nil && c06Idents(is.Else)[v]) {
					return false
				}
				for id := range vars {
					if c06Written(&ast.ExprStmt{X: is.Cond}, true)[id] {
						return false
					}
				}
			}
		}
		dirty = dirty || writes
	}
	return true
}

// expression helpers: a call of a helper whose body is a single `return e` is replaced by e
func (n *c06Norm) exprHelpers(s ast.Stmt) {
	var fix func(e ast.Expr) ast.Expr
	fix = func(e ast.Expr) ast.Expr {
		call, ok := e.(*ast.CallExpr)
		if !ok {
			return e
		}
		fd := n.helper(call)
		if fd == nil || fd.Type.Results == nil || fd.Type.Results.NumFields() != 1 || len(fd.Body.List) != 1 {
			return e
		}
		r, ok := fd.Body.List[0].(*ast.ReturnStmt)
		if !ok || len(r.Results) != 1 {
			return e
		}
		inst := n.instantiate(fd, call, n.names)
		if len(inst) != 1 {
			return e
		}
		return &ast.ParenExpr{X: inst[0].(*ast.ReturnStmt).Results[0]}
	}
	// only the expressions of this statement itself, not of nested statements (they are visited by block)
	switch x := s.(type) {
	case *ast.AssignStmt:
		for i := range x.Rhs {
			x.Rhs[i] = c06MapExpr(x.Rhs[i], fix)
		}
	case *ast.IfStmt:
		x.Cond = c06MapExpr(x.Cond, fix)
	case *ast.ReturnStmt:
		for i := range x.Results {
			if _, isCall := x.Results[i].(*ast.CallExpr); isCall && len(x.Results) == 1 {
				continue // tail position: handled as a statement
			}
			x.Results[i] = c06MapExpr(x.Results[i], fix)
		}
	}
}

// apply f bottom-up to the sub-expressions of boolean / comparison structure and to call arguments
func c06MapExpr(e ast.Expr, f func(ast.Expr) ast.Expr) ast.Expr {
	switch x := e.(type) {
	case *ast.ParenExpr:
		x.X = c06MapExpr(x.X, f)
	case *ast.UnaryExpr:
		x.X = c06MapExpr(x.X, f)
	case *ast.BinaryExpr:
		x.X, x.Y = c06MapExpr(x.X, f), c06MapExpr(x.Y, f)
	case *ast.CallExpr:
		for i := range x.Args {
			x.Args[i] = c06MapExpr(x.Args[i], f)
		}
	}
	return f(e)
}

// switch -> if / else if / else; nil if the switch uses break, fallthrough or a type switch shape
func (n *c06Norm) switchToIf(sw *ast.SwitchStmt) *ast.IfStmt {
	if sw.Tag != nil && !c06PureArg(sw.Tag) {
		return nil
	}
	var clauses []*ast.CaseClause
	var deflt *ast.CaseClause
	for _, s := range sw.Body.List {
		cc, ok := s.(*ast.CaseClause)
		if !ok {
			return nil
		}
		if c06BreaksOut(cc.Body) {
			return nil
		}
		if cc.List == nil {
			if deflt != nil {
				return nil
			}
			deflt = cc
			continue
		}
		if deflt != nil {
			return nil // a default clause that is not the last one: keep it simple
		}
		clauses = append(clauses, cc)
	}
	if len(clauses) == 0 {
		return nil
	}
	var first, last *ast.IfStmt
	for _, cc := range clauses {
		var cond ast.Expr
		for _, v := range cc.List {
			c := v
			if sw.Tag != nil {
				c = &ast.BinaryExpr{X: c06CopyExpr(sw.Tag), Op: token.EQL, Y: v}
			}
			if cond == nil {
				cond = c
			} else {
				cond = &ast.BinaryExpr{X: cond, Op: token.LOR, Y: c}
			}
		}
		is := &ast.IfStmt{Cond: cond, Body: &ast.BlockStmt{List: cc.Body}}
		if first == nil {
			first = is
		} else {
			last.Else = is
		}
		last = is
	}
	if deflt != nil {
		last.Else = &ast.BlockStmt{List: deflt.Body}
	}
	return first
}

// an unlabeled break that would leave the switch, or a fallthrough
func c06BreaksOut(l []ast.Stmt) bool {
	found := false
	var walk func(n ast.Node) bool
	walk = func(n ast.Node) bool {
		switch x := n.(type) {
		case *ast.ForStmt, *ast.RangeStmt, *ast.SwitchStmt, *ast.TypeSwitchStmt, *ast.SelectStmt, *ast.FuncLit:
			return false // a break inside belongs to that statement
		case *ast.BranchStmt:
			if x.Tok == token.FALLTHROUGH || (x.Tok == token.BREAK && x.Label == nil) {
				found = true
			}
		}
		return !found
	}
	for _, s := range l {
		ast.Inspect(s, walk)
	}
	return found
}

// `if H(…) { S }` where the helper H answers "is K an element of L":
//
//	for _, x := range L { if x == K { return true } } ; return false        (or  for i := range L { if L[i] == K … })
//
// is the loop `for _, x := range L { if x == K { S; break } }` (S runs once iff K is in L), provided S neither leaves
// nor continues an enclosing statement.
func (n *c06Norm) membershipLoop(is *ast.IfStmt) *ast.RangeStmt {
	if is.Init != nil || is.Else != nil {
		return nil
	}
	call, ok := c06Unparen(is.Cond).(*ast.CallExpr)
	if !ok {
		return nil
	}
	fd := n.helper(call)
	if fd == nil || fd.Type.Results == nil || fd.Type.Results.NumFields() != 1 || len(fd.Body.List) != 2 {
		return nil
	}
	if r, ok := fd.Body.List[1].(*ast.ReturnStmt); !ok || len(r.Results) != 1 || c06Squash(c06ExprString(r.Results[0])) != "false" {
		return nil
	}
	for _, st := range is.Body.List {
		leaves := false
		ast.Inspect(st, func(m ast.Node) bool {
			switch m.(type) {
			case *ast.BranchStmt, *ast.ReturnStmt:
				leaves = true
			}
			return !leaves
		})
		if leaves {
			return nil
		}
	}
	inst := n.instantiate(fd, call, map[string]bool{})
	if len(inst) != 2 {
		return nil
	}
	rs, ok := inst[0].(*ast.RangeStmt)
	if !ok || rs.Tok != token.DEFINE || len(rs.Body.List) != 1 {
		return nil
	}
	inner, ok := rs.Body.List[0].(*ast.IfStmt)
	if !ok || inner.Init != nil || inner.Else != nil || len(inner.Body.List) != 1 {
		return nil
	}
	if r, ok := inner.Body.List[0].(*ast.ReturnStmt); !ok || len(r.Results) != 1 || c06Squash(c06ExprString(r.Results[0])) != "true" {
		return nil
	}
	be, ok := c06Unparen(inner.Cond).(*ast.BinaryExpr)
	if !ok || be.Op != token.EQL {
		return nil
	}
	elem := "key"
	if v, ok := rs.Value.(*ast.Ident); ok && v.Name != "_" {
		elem = v.Name
	} else if rs.Value == nil {
		// for i := range L { if L[i] == K … }: name the element
		i, ok := rs.Key.(*ast.Ident)
		if !ok {
			return nil
		}
		li := c06Squash(c06ExprString(rs.X)) + "[" + i.Name + "]"
		switch {
		case c06Squash(c06ExprString(be.X)) == li:
			be.X = ast.NewIdent(elem)
		case c06Squash(c06ExprString(be.Y)) == li:
			be.Y = ast.NewIdent(elem)
		default:
			return nil
		}
		if c06Idents(be)[i.Name] {
			return nil
		}
	} else {
		return nil
	}
	if n.names[elem] {
		return nil // the element's name is taken in the caller
	}
	body := append(append([]ast.Stmt{}, is.Body.List...), &ast.BranchStmt{Tok: token.BREAK})
	return &ast.RangeStmt{Key: ast.NewIdent("_"), Value: ast.NewIdent(elem), Tok: token.DEFINE, X: rs.X,
		Body: &ast.BlockStmt{List: []ast.Stmt{&ast.IfStmt{Cond: be, Body: &ast.BlockStmt{List: body}}}}}
}

func c06ExprString(e ast.Expr) string {
	var buf bytes.Buffer
	if err := printer.Fprint(&buf, token.NewFileSet(), e); err != nil {
		return ""
	}
	return buf.String()
}
