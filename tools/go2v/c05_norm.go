package main

// Source-level normalisation for the C05 extractors (cpcode, cpstream, cpasm): behaviour-preserving rewrites applied to
// every block of a parsed file before the extractors look at it, so that a harmless refactoring of these shapes leaves
// the translator ties available and their obligations intact.
//
//   b == false / b != true             -> !b            (b == true / b != false -> b), in conditions
//   switch { case c1: A; case c2: B; default: C }       -> if c1 { A } else if c2 { B } else { C }   (no break / fallthrough)
//   switch x.(type) { case T: A }      -> if _, ok := x.(T); ok { A }      (one clause, one type, no binding, no default)
//   inside a loop body:
//     v, ok := m[k]; if !ok { continue }; REST          -> if v, ok := m[k]; ok { REST }    (ok not used in REST)
//   for i := range X { t := X[i]; REST }  /  for i := 0; i < len(X); i++ { t := X[i]; REST }
//                                      -> for _, t := range X { REST }      (i not used in REST; t, X not assigned)
//
// Whenever a side condition fails the code is left as it is.

import (
	"go/ast"
	"go/token"
)

func c05NormCond(e ast.Expr) ast.Expr {
	switch x := e.(type) {
	case *ast.ParenExpr:
		x.X = c05NormCond(x.X)
		return x
	case *ast.UnaryExpr:
		if x.Op == token.NOT {
			x.X = c05NormCond(x.X)
		}
		return x
	case *ast.BinaryExpr:
		if x.Op == token.LAND || x.Op == token.LOR {
			x.X, x.Y = c05NormCond(x.X), c05NormCond(x.Y)
			return x
		}
		if x.Op == token.EQL || x.Op == token.NEQ {
			if id, ok := x.Y.(*ast.Ident); ok && (id.Name == "true" || id.Name == "false") {
				if _, isLit := x.X.(*ast.BasicLit); isLit {
					return x
				}
				neg := (id.Name == "false") == (x.Op == token.EQL)
				inner := c05NormCond(x.X)
				if !neg {
					return inner
				}
				switch inner.(type) {
				case *ast.Ident, *ast.SelectorExpr, *ast.CallExpr, *ast.ParenExpr, *ast.IndexExpr:
					return &ast.UnaryExpr{Op: token.NOT, X: inner}
				}
				return &ast.UnaryExpr{Op: token.NOT, X: &ast.ParenExpr{X: inner}}
			}
		}
	}
	return e
}

func c05UsesIdent(stmts []ast.Stmt, name string) bool {
	used := false
	for _, s := range stmts {
		ast.Inspect(s, func(n ast.Node) bool {
			if id, ok := n.(*ast.Ident); ok && id.Name == name {
				used = true
			}
			return !used
		})
	}
	return used
}

// c05NormTypeSwitch: switch x.(type) { case T: A } -> if _, ok := x.(T); ok { A }
func c05NormTypeSwitch(ts *ast.TypeSwitchStmt) (ast.Stmt, bool) {
	if ts.Init != nil || len(ts.Body.List) != 1 {
		return nil, false
	}
	es, ok := ts.Assign.(*ast.ExprStmt)
	if !ok {
		return nil, false
	}
	ta, ok := es.X.(*ast.TypeAssertExpr)
	if !ok || ta.Type != nil {
		return nil, false
	}
	cc, ok := ts.Body.List[0].(*ast.CaseClause)
	if !ok || len(cc.List) != 1 || c05UsesIdent(cc.Body, "ok") {
		return nil, false
	}
	if id, isId := cc.List[0].(*ast.Ident); isId && id.Name == "nil" {
		return nil, false
	}
	for _, b := range cc.Body {
		bad := false
		ast.Inspect(b, func(n ast.Node) bool {
			switch y := n.(type) {
			case *ast.BranchStmt:
				if y.Tok == token.BREAK || y.Tok == token.FALLTHROUGH {
					bad = true
				}
			case *ast.ForStmt, *ast.RangeStmt, *ast.SwitchStmt, *ast.TypeSwitchStmt, *ast.SelectStmt:
				return false
			}
			return true
		})
		if bad {
			return nil, false
		}
	}
	return &ast.IfStmt{
		Init: &ast.AssignStmt{Lhs: []ast.Expr{ast.NewIdent("_"), ast.NewIdent("ok")}, Tok: token.DEFINE,
			Rhs: []ast.Expr{&ast.TypeAssertExpr{X: ta.X, Type: cc.List[0]}}},
		Cond: ast.NewIdent("ok"),
		Body: &ast.BlockStmt{List: cc.Body},
	}, true
}

// c05NormList normalises one statement list; inLoop = the list is the body of a for / range statement
func c05NormList(l []ast.Stmt, inLoop bool) []ast.Stmt {
	out := make([]ast.Stmt, 0, len(l))
	for _, s := range l {
		switch x := s.(type) {
		case *ast.SwitchStmt:
			if is, ok := c05aSwitchToIf(x); ok {
				s = is
			}
		case *ast.TypeSwitchStmt:
			if is, ok := c05NormTypeSwitch(x); ok {
				s = is
			}
		case *ast.RangeStmt, *ast.ForStmt:
			s = c05NormIndexLoop(s)
		}
		out = append(out, s)
	}
	if inLoop {
		for i := 0; i+1 < len(out); i++ {
			as, ok := out[i].(*ast.AssignStmt)
			if !ok || as.Tok != token.DEFINE || len(as.Lhs) != 2 || len(as.Rhs) != 1 {
				continue
			}
			if _, isIx := as.Rhs[0].(*ast.IndexExpr); !isIx {
				continue
			}
			okName := c05Ident(as.Lhs[1])
			is, ok := out[i+1].(*ast.IfStmt)
			if !ok || okName == "" || okName == "_" || is.Init != nil || is.Else != nil || len(is.Body.List) != 1 {
				continue
			}
			u, ok := c05NormCond(is.Cond).(*ast.UnaryExpr)
			if !ok || u.Op != token.NOT || c05Ident(u.X) != okName {
				continue
			}
			br, ok := is.Body.List[0].(*ast.BranchStmt)
			if !ok || br.Tok != token.CONTINUE || br.Label != nil {
				continue
			}
			rest := append([]ast.Stmt{}, out[i+2:]...)
			if c05UsesIdent(rest, okName) || len(rest) == 0 {
				continue
			}
			out = append(out[:i:i], &ast.IfStmt{Init: as, Cond: ast.NewIdent(okName), Body: &ast.BlockStmt{List: rest}})
			break
		}
	}
	return out
}

// c05NormIndexLoop: for i := range X { t := X[i]; REST } / for i := 0; i < len(X); i++ { t := X[i]; REST }
// -> for _, t := range X { REST }   (X an identifier, i not used in REST, neither t nor X assigned in REST)
func c05NormIndexLoop(s ast.Stmt) ast.Stmt {
	var x ast.Expr
	var idx string
	var body *ast.BlockStmt
	switch l := s.(type) {
	case *ast.RangeStmt:
		if l.Value != nil || l.Tok != token.DEFINE {
			return s
		}
		x, idx, body = l.X, c05Ident(l.Key), l.Body
	case *ast.ForStmt:
		as, ok := l.Init.(*ast.AssignStmt)
		if !ok || as.Tok != token.DEFINE || len(as.Lhs) != 1 || len(as.Rhs) != 1 {
			return s
		}
		if bl, ok := as.Rhs[0].(*ast.BasicLit); !ok || bl.Value != "0" {
			return s
		}
		idx = c05Ident(as.Lhs[0])
		be, ok := l.Cond.(*ast.BinaryExpr)
		if !ok || be.Op != token.LSS || c05Ident(be.X) != idx {
			return s
		}
		call, ok := be.Y.(*ast.CallExpr)
		if !ok || c05Ident(call.Fun) != "len" || len(call.Args) != 1 {
			return s
		}
		inc, ok := l.Post.(*ast.IncDecStmt)
		if !ok || inc.Tok != token.INC || c05Ident(inc.X) != idx {
			return s
		}
		x, body = call.Args[0], l.Body
	default:
		return s
	}
	xn := c05Ident(x)
	if xn == "" || idx == "" || idx == "_" || len(body.List) < 2 {
		return s
	}
	as, ok := body.List[0].(*ast.AssignStmt)
	if !ok || as.Tok != token.DEFINE || len(as.Lhs) != 1 || len(as.Rhs) != 1 {
		return s
	}
	ix, ok := as.Rhs[0].(*ast.IndexExpr)
	tv := c05Ident(as.Lhs[0])
	if !ok || c05Ident(ix.X) != xn || c05Ident(ix.Index) != idx || tv == "" || tv == "_" {
		return s
	}
	rest := body.List[1:]
	if c05UsesIdent(rest, idx) {
		return s
	}
	assigned := false
	for _, r := range rest {
		ast.Inspect(r, func(n ast.Node) bool {
			if a, ok := n.(*ast.AssignStmt); ok {
				for _, lh := range a.Lhs {
					if id := c05Ident(lh); id == tv || id == xn {
						assigned = true
					}
				}
			}
			return true
		})
	}
	if assigned {
		return s
	}
	return &ast.RangeStmt{Key: ast.NewIdent("_"), Value: ast.NewIdent(tv), Tok: token.DEFINE, X: x, Body: &ast.BlockStmt{List: rest}}
}

// c05NormalizeFile rewrites every block of the file in place (innermost blocks last, so that a rewritten
// statement is visited again as part of its new parent)
func c05NormalizeFile(f *ast.File) {
	for pass := 0; pass < 3; pass++ {
		ast.Inspect(f, func(n ast.Node) bool {
			switch x := n.(type) {
			case *ast.IfStmt:
				x.Cond = c05NormCond(x.Cond)
				x.Body.List = c05NormList(x.Body.List, false)
				if eb, ok := x.Else.(*ast.BlockStmt); ok {
					eb.List = c05NormList(eb.List, false)
				}
			case *ast.ForStmt:
				if x.Cond != nil {
					x.Cond = c05NormCond(x.Cond)
				}
				x.Body.List = c05NormList(x.Body.List, true)
			case *ast.RangeStmt:
				x.Body.List = c05NormList(x.Body.List, true)
			case *ast.FuncDecl:
				if x.Body != nil {
					x.Body.List = c05NormList(x.Body.List, false)
				}
			case *ast.FuncLit:
				x.Body.List = c05NormList(x.Body.List, false)
			case *ast.CaseClause:
				x.Body = c05NormList(x.Body, false)
			}
			return true
		})
	}
}
