package main

// Extractor "concatstate" (property C14): which package-level variables the concatenation code touches, and how.
//
// C14 says the result is a function OF THE CHUNK SEQUENCE.  The models are pure functions of the chunk list and of
// the registry of concatenation functions, which they take as a fixed parameter: that is a faithful picture of the
// code only as long as the code keeps no other state between calls (a cache of the last lookup, a pooled buffer, a
// memo table ...) and writes the registry only when a function is registered.  This extractor re-reads, on every
// run, the three anchored files and lists every use of a package-level variable by the concatenation code:
//
//   internal/concat.go, compose/stream_concat.go   every function of the file
//   schema/message.go                              the functions reachable (by name, within the file) from
//                                                  ConcatMessages, ConcatMessageStream, concatMessageArray,
//                                                  concatToolCalls and init
//
// Output: coq/Gen/ConcatState.v with
//   state_effects : list (string * string * string * effect)    (file, variable, function, effect), sorted; the
//                                                                function is "" for the two reading effects
// effect: EWrite (assigned, element / field assigned, ++ / --, delete, range target), EAddr (&v...), ECall (a
// method is called on it: pool.Get(), once.Do(...), mu.Lock()), EIndex (v[...] read), ERead (any other mention:
// the value, or an alias of it, leaves the expression).  Proofs/GenAgreeConcatState.v proves the table equal to
// Model/ConcatState.v's, from which Props/C14.v derives that the registry is the only package-level variable the
// concatenation code writes, and that only the registration function writes it.
//
// Not recognised (neutral file, tie "unavailable"): a function that declares a local variable, parameter or
// result with the name of a package-level variable of its file (the syntactic analysis cannot tell them apart).

import (
	"fmt"
	"go/ast"
	"go/parser"
	"go/token"
	"path/filepath"
	"sort"
	"strings"
)

func init() {
	register("concatstate", c14ExtractConcatState)
	registerFallback("concatstate", "ConcatState.v", "(* Gen/ConcatState.v — translator tie UNAVAILABLE: tools/go2v (extractor \"concatstate\") did not recognise the\n"+
		"   shape of internal/concat.go / compose/stream_concat.go / schema/message.go; the model's own table is re-exported. *)\n"+
		"From Eino Require Import Base.Util Model.ConcatState.\n\n"+
		"Definition tie_available : bool := false.\n\n"+
		"Definition state_effects : list (string * string * string * effect) := Model.ConcatState.state_effects.\n")
}

type c14StateRow struct{ file, v, fn, eff string }

// c14StateRoot: the identifier an lvalue / operand expression is rooted at (x, x[i], x.f, *x, (x), x[i:j])
func c14StateRoot(e ast.Expr) *ast.Ident {
	for {
		switch x := e.(type) {
		case *ast.Ident:
			return x
		case *ast.IndexExpr:
			e = x.X
		case *ast.IndexListExpr:
			e = x.X
		case *ast.SliceExpr:
			e = x.X
		case *ast.SelectorExpr:
			e = x.X
		case *ast.StarExpr:
			e = x.X
		case *ast.ParenExpr:
			e = x.X
		default:
			return nil
		}
	}
}

// c14StateLocals: every name a function declares (receiver, parameters, results, :=, var, range, type switch,
// labels excluded), function literals inside it included
func c14StateLocals(fn *ast.FuncDecl) map[string]bool {
	out := map[string]bool{}
	fields := func(fl *ast.FieldList) {
		if fl == nil {
			return
		}
		for _, f := range fl.List {
			for _, n := range f.Names {
				out[n.Name] = true
			}
		}
	}
	fields(fn.Recv)
	fields(fn.Type.Params)
	fields(fn.Type.Results)
	fields(fn.Type.TypeParams)
	ast.Inspect(fn.Body, func(n ast.Node) bool {
		switch x := n.(type) {
		case *ast.AssignStmt:
			if x.Tok == token.DEFINE {
				for _, l := range x.Lhs {
					if id, ok := l.(*ast.Ident); ok {
						out[id.Name] = true
					}
				}
			}
		case *ast.RangeStmt:
			if x.Tok == token.DEFINE {
				for _, l := range []ast.Expr{x.Key, x.Value} {
					if id, ok := l.(*ast.Ident); ok {
						out[id.Name] = true
					}
				}
			}
		case *ast.GenDecl:
			for _, sp := range x.Specs {
				if vs, ok := sp.(*ast.ValueSpec); ok {
					for _, n := range vs.Names {
						out[n.Name] = true
					}
				}
			}
		case *ast.FuncLit:
			fields(x.Type.Params)
			fields(x.Type.Results)
		case *ast.TypeSwitchStmt:
			if as, ok := x.Assign.(*ast.AssignStmt); ok {
				for _, l := range as.Lhs {
					if id, ok := l.(*ast.Ident); ok {
						out[id.Name] = true
					}
				}
			}
		}
		return true
	})
	return out
}

func c14StateFile(repo, rel string, roots []string) ([]c14StateRow, error) {
	fset := token.NewFileSet()
	f, err := parser.ParseFile(fset, filepath.Join(repo, filepath.FromSlash(rel)), nil, 0)
	if err != nil {
		return nil, err
	}
	vars := map[string]bool{}
	var funcs []*ast.FuncDecl
	byName := map[string][]*ast.FuncDecl{} // functions and methods by (method) name
	for _, d := range f.Decls {
		switch x := d.(type) {
		case *ast.GenDecl:
			if x.Tok != token.VAR {
				continue
			}
			for _, sp := range x.Specs {
				for _, n := range sp.(*ast.ValueSpec).Names {
					if n.Name != "_" {
						vars[n.Name] = true
					}
				}
			}
		case *ast.FuncDecl:
			if x.Body != nil {
				funcs = append(funcs, x)
				byName[x.Name.Name] = append(byName[x.Name.Name], x)
			}
		}
	}
	// the functions looked at
	take := map[*ast.FuncDecl]bool{}
	if roots == nil {
		for _, fn := range funcs {
			take[fn] = true
		}
	} else {
		var work []*ast.FuncDecl
		add := func(name string) {
			for _, fn := range byName[name] {
				if !take[fn] {
					take[fn] = true
					work = append(work, fn)
				}
			}
		}
		for _, r := range roots {
			if len(byName[r]) == 0 {
				return nil, fmt.Errorf("%s: func %s not found", rel, r)
			}
			add(r)
		}
		for len(work) > 0 {
			fn := work[len(work)-1]
			work = work[:len(work)-1]
			ast.Inspect(fn.Body, func(n ast.Node) bool {
				switch x := n.(type) {
				case *ast.Ident:
					add(x.Name)
				case *ast.SelectorExpr:
					add(x.Sel.Name)
				}
				return true
			})
		}
	}
	var rows []c14StateRow
	seen := map[c14StateRow]bool{}
	for _, fn := range funcs {
		if !take[fn] {
			continue
		}
		name := fn.Name.Name
		if fn.Recv != nil && len(fn.Recv.List) == 1 {
			if id := c14StateRoot(fn.Recv.List[0].Type); id != nil {
				name = id.Name + "." + name
			}
		}
		locals := c14StateLocals(fn)
		for v := range vars {
			if locals[v] {
				return nil, fmt.Errorf("%s: func %s declares a local named like the package-level variable %s", rel, name, v)
			}
		}
		classified := map[*ast.Ident]string{}
		mark := func(e ast.Expr, eff string) {
			if id := c14StateRoot(e); id != nil && vars[id.Name] {
				if _, done := classified[id]; !done {
					classified[id] = eff
				}
			}
		}
		skip := map[*ast.Ident]bool{} // identifiers that are not variable uses: selectors' field names, struct-literal keys
		ast.Inspect(fn.Body, func(n ast.Node) bool {
			switch x := n.(type) {
			case *ast.AssignStmt:
				if x.Tok != token.DEFINE {
					for _, l := range x.Lhs {
						mark(l, "EWrite")
					}
				}
			case *ast.IncDecStmt:
				mark(x.X, "EWrite")
			case *ast.RangeStmt:
				if x.Tok == token.ASSIGN {
					if x.Key != nil {
						mark(x.Key, "EWrite")
					}
					if x.Value != nil {
						mark(x.Value, "EWrite")
					}
				}
			case *ast.UnaryExpr:
				if x.Op == token.AND {
					mark(x.X, "EAddr")
				}
			case *ast.CallExpr:
				if id, ok := x.Fun.(*ast.Ident); ok && (id.Name == "delete" || id.Name == "clear") && len(x.Args) > 0 {
					mark(x.Args[0], "EWrite")
				}
				if sel, ok := x.Fun.(*ast.SelectorExpr); ok {
					mark(sel.X, "ECall")
				}
			case *ast.SelectorExpr:
				skip[x.Sel] = true
			case *ast.KeyValueExpr:
				if id, ok := x.Key.(*ast.Ident); ok {
					skip[id] = true // a field name of a struct literal (a map literal keyed by a package-level variable is not told apart)
				}
			}
			return true
		})
		// index reads and plain reads: what is left
		ast.Inspect(fn.Body, func(n ast.Node) bool {
			if ix, ok := n.(*ast.IndexExpr); ok {
				mark(ix.X, "EIndex")
			}
			return true
		})
		ast.Inspect(fn.Body, func(n ast.Node) bool {
			if id, ok := n.(*ast.Ident); ok && vars[id.Name] && !skip[id] {
				if _, done := classified[id]; !done {
					classified[id] = "ERead"
				}
			}
			return true
		})
		for id, eff := range classified {
			r := c14StateRow{rel, id.Name, name, eff}
			if eff == "ERead" || eff == "EIndex" {
				r.fn = "" // which function reads a variable does not matter (a lookup moved into a helper is the same table)
			}
			if !seen[r] {
				seen[r] = true
				rows = append(rows, r)
			}
		}
	}
	return rows, nil
}

func c14ExtractConcatState(repo string) (string, string, error) {
	var rows []c14StateRow
	for _, src := range []struct {
		rel   string
		roots []string
	}{
		{"internal/concat.go", nil},
		{"compose/stream_concat.go", nil},
		{"schema/message.go", []string{"ConcatMessages", "ConcatMessageStream", "concatMessageArray", "concatToolCalls", "init"}},
	} {
		rs, err := c14StateFile(repo, src.rel, src.roots)
		if err != nil {
			return "", "", err
		}
		rows = append(rows, rs...)
	}
	sort.Slice(rows, func(i, j int) bool {
		a, b := rows[i], rows[j]
		if a.file != b.file {
			return a.file < b.file
		}
		if a.v != b.v {
			return a.v < b.v
		}
		if a.fn != b.fn {
			return a.fn < b.fn
		}
		return a.eff < b.eff
	})
	var b strings.Builder
	b.WriteString("(* Gen/ConcatState.v — GENERATED by tools/go2v (extractor \"concatstate\") from internal/concat.go,\n")
	b.WriteString("   compose/stream_concat.go and schema/message.go: every use of a package-level variable by the\n")
	b.WriteString("   concatenation code. Do not edit. *)\n")
	b.WriteString("From Eino Require Import Base.Util Model.ConcatState.\n\n")
	b.WriteString("Definition tie_available : bool := true.\n\n")
	b.WriteString("Definition state_effects : list (string * string * string * effect) :=\n  [ ")
	for i, r := range rows {
		if i > 0 {
			b.WriteString(";\n    ")
		}
		fmt.Fprintf(&b, "(%s, %s, %s, %s)", coqStr(r.file), coqStr(r.v), coqStr(r.fn), r.eff)
	}
	b.WriteString(" ].\n")
	return "ConcatState.v", b.String(), nil
}
