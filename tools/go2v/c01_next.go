package main

// Extractor "nexttasks" (property C01): compose/graph_run.go
//
//	runner.createTasks         translated statement by statement: one task per entry of the map of ready nodes, an
//	                           error for a node that has no chanCall (r.chanSubscribeTo); a task literal &task{…}
//	                           appears as [mk_task nodeKey call input] (its ctx and option fields are not looked at)
//	runner.calculateNextTasks  translated statement by statement: resolveCompletedTasks (a Section variable: the
//	                           extractor "resolvetasks" translates it), cm.updateAndGet (a Section variable), the
//	                           test whether END is among the ready nodes — then the run ends with END's value and no
//	                           task is created — and createTasks
//
// Output: coq/Gen/NextTasks.v over the vocabulary of Model/ResolveGenLib.v.  Proofs/GenAgreeC01Next.v proves the
// generated functions equal to the specification of Model/NextSpec.v and, with the channel manager's updateAndGet
// taken as [update_chans] + [get_all] of Model/Graph.v, equal to [calc_next] followed by the END test of [step].

import (
	"fmt"
	"go/ast"
	"strings"
)

const c01NextSection = "Section Gen.\n  Variables V T NT CALL CM : Type.\n  Variable zero_value : V.\n  Variable zero_call : CALL.\n  Variable err_code : nat -> N.\n" +
	"  Variable subscribe : list (key * CALL).                      (* r.chanSubscribeTo *)\n" +
	"  Variable mk_task : key -> CALL -> V -> NT.                   (* &task{nodeKey, call, input, …} *)\n" +
	"  Variable resolve_completed : CM -> list T -> bool -> res (wmap V * dmap * CM).   (* r.resolveCompletedTasks *)\n" +
	"  Variable update_and_get : CM -> wmap V -> dmap -> res (list (key * V) * CM).     (* cm.updateAndGet *)\n\n"

func init() {
	register("nexttasks", c01ExtractNext)
	registerFallback("nexttasks", "NextTasks.v", "(* Gen/NextTasks.v — translator tie UNAVAILABLE: tools/go2v (extractor \"nexttasks\") did not recognise the\n"+
		"   shape of compose/graph_run.go:runner.createTasks / calculateNextTasks; the model's own definitions are re-exported. *)\n"+
		"From Eino Require Import Base.Util Model.Graph Model.ImpGenLib Model.ResolveGenLib Model.NextSpec.\n\n"+
		"Definition tie_available : bool := false.\n\n"+
		c01NextSection+
		"  Definition createTasks (nodeMap : list (key * V)) : res (list NT) :=\n"+
		"    let _ := (zero_value, err_code) in Model.NextSpec.create_tasks V NT CALL zero_call err_code subscribe mk_task nodeMap.\n\n"+
		"  Definition calculateNextTasks (completedTasks : list T) (isStream : bool) (cm : CM)\n      : res (list NT * V * bool * CM) :=\n"+
		"    Model.NextSpec.calculate_next_tasks V T NT CALL CM zero_value zero_call err_code subscribe mk_task resolve_completed\n"+
		"      update_and_get completedTasks isStream cm.\nEnd Gen.\n")
}

func c01ExtractNext(repo string) (string, string, error) {
	f, err := c01ParseGraphRun(repo)
	if err != nil {
		return "", "", err
	}
	setup := func(t *c01Tr) {
		t.valueMode = true
		t.elemOf["tasks"], t.elemOf["ntasks"] = "task", "ntask"
		t.types["task"], t.types["tasks"], t.types["state"], t.types["call"] = "T", "list T", "CM", "CALL"
		t.types["ntask"], t.types["ntasks"] = "NT", "list NT"
		t.types["wmap"], t.types["dmap"], t.types["vmap"] = "wmap V", "dmap", "list (key * V)"
		t.zero["val"], t.zero["ntasks"], t.zero["call"] = "zero_value", "(@nil NT)", "zero_call"
		t.maps["vmap"] = c01MapKind{get: "vm_get zero_value", elem: "val", has: "vm_has", pairs: true}
		t.maps["callmap"] = c01MapKind{get: "am_at zero_call", elem: "call", has: "am_has"}
		t.sels["r.chanSubscribeTo"] = c01Var{"subscribe", "callmap"}
		t.consts["END"] = c01Var{"kEND", "key"}
		t.lits["task"] = c01Lit{sym: "mk_task", fields: []string{"nodeKey", "call", "input"}, ignore: []string{"ctx", "option"}, kind: "ntask"}
	}
	// ---- createTasks
	ct, recv := c01Method(f, "runner", "createTasks")
	if ct == nil || recv != "r" {
		return "", "", fmt.Errorf("method (*runner).createTasks not found")
	}
	if got := c01ParamNames(ct); strings.Join(got, ",") != "ctx,nodeMap,optMap" || c01ResultTypes(ct) != "[]*task,error" {
		return "", "", fmt.Errorf("createTasks: signature %v %s", got, c01ResultTypes(ct))
	}
	t1 := c01NewTr("runner.createTasks")
	setup(t1)
	t1.results, t1.hasErr = []string{"ntasks"}, true
	t1.env = []c01Var{{"nodeMap", "vmap"}}
	inl1, err := c01NewInl(repo, []string{"compose", "graph_run.go"}, "runner", recv, ct, func(c *ast.CallExpr) bool { _, _, ok := t1.callOf(c); return ok })
	if err != nil {
		return "", "", err
	}
	ctCode, err := c01WithVarDecls(t1, inl1.body(ct.Body.List), "    ")
	if err != nil {
		return "", "", err
	}
	// ---- calculateNextTasks
	fn, recv := c01Method(f, "runner", "calculateNextTasks")
	if fn == nil || recv != "r" {
		return "", "", fmt.Errorf("method (*runner).calculateNextTasks not found")
	}
	if got := c01ParamNames(fn); strings.Join(got, ",") != "ctx,completedTasks,isStream,cm,optMap" || c01ResultTypes(fn) != "[]*task,any,bool,error" {
		return "", "", fmt.Errorf("calculateNextTasks: signature %v %s", got, c01ResultTypes(fn))
	}
	t := c01NewTr("runner.calculateNextTasks")
	setup(t)
	t.results, t.hasErr = []string{"ntasks", "val", "bool"}, true
	t.states = []string{"cm"}
	t.env = []c01Var{{"completedTasks", "tasks"}, {"isStream", "bool"}, {"cm", "state"}}
	// named results are variables of the function, zero at its start
	prefix := ""
	if fn.Type.Results != nil {
		kinds := []string{"ntasks", "val", "bool", ""}
		i := 0
		for _, fl := range fn.Type.Results.List {
			for _, nm := range fl.Names {
				if i < len(kinds) && kinds[i] != "" && nm.Name != "_" {
					t.env = append(t.env, c01Var{nm.Name, kinds[i]})
					prefix += "let " + nm.Name + " := " + t.zeroOf(kinds[i]) + " in\n    "
				}
				i++
			}
		}
	}
	t.calls["r.resolveCompletedTasks"] = c01Call{sym: "resolve_completed", state: "cm", results: []string{"wmap", "dmap"}, fails: true, args: []int{1, 2}}
	t.calls["cm.updateAndGet"] = c01Call{sym: "update_and_get", state: "cm", result: "vmap", fails: true, args: []int{1, 2}}
	t.calls["r.createTasks"] = c01Call{sym: "createTasks", result: "ntasks", fails: true, args: []int{1}}
	inl, err := c01NewInl(repo, []string{"compose", "graph_run.go"}, "runner", recv, fn, func(c *ast.CallExpr) bool { _, _, ok := t.callOf(c); return ok })
	if err != nil {
		return "", "", err
	}
	code, err := t.function(inl.body(fn.Body.List), "    ")
	if err != nil {
		return "", "", err
	}
	var b strings.Builder
	b.WriteString("(* Gen/NextTasks.v — GENERATED by tools/go2v (extractor \"nexttasks\") from compose/graph_run.go\n")
	b.WriteString("   (runner.createTasks, runner.calculateNextTasks, translated statement by statement). Do not edit. *)\n")
	b.WriteString("From Eino Require Import Base.Util Model.Graph Model.ImpGenLib Model.ResolveGenLib.\n\n")
	b.WriteString("Definition tie_available : bool := true.\n\n")
	b.WriteString(c01NextSection)
	fmt.Fprintf(&b, "  Definition createTasks (nodeMap : list (key * V)) : res (list NT) :=\n    let _ := (zero_value, zero_call, err_code) in\n    %s.\n\n", ctCode)
	fmt.Fprintf(&b, "  Definition calculateNextTasks (completedTasks : list T) (isStream : bool) (cm : CM)\n      : res (list NT * V * bool * CM) :=\n    let _ := (zero_value, zero_call, err_code) in\n    %s%s.\nEnd Gen.\n", prefix, code)
	return "NextTasks.v", b.String(), nil
}

// `var x []*task` at the start of a body: the zero value
func c01WithVarDecls(t *c01Tr, body []ast.Stmt, ind string) (string, error) {
	prefix := ""
	for len(body) > 0 {
		ds, ok := body[0].(*ast.DeclStmt)
		if !ok {
			break
		}
		gd, ok := ds.Decl.(*ast.GenDecl)
		if !ok || len(gd.Specs) != 1 {
			break
		}
		vs, ok := gd.Specs[0].(*ast.ValueSpec)
		if !ok || len(vs.Names) != 1 || len(vs.Values) != 0 || vs.Type == nil || c01Squash(vs.Type) != "[]*task" {
			break
		}
		if err := t.declare(vs.Names[0].Name, "ntasks"); err != nil {
			return "", err
		}
		prefix += "let " + vs.Names[0].Name + " := " + t.zeroOf("ntasks") + " in\n" + ind
		body = body[1:]
	}
	code, err := t.function(body, ind)
	return prefix + code, err
}
