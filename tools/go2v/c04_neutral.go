package main

// Neutral Gen files of the C04 extractors (c04_streamcode.go): written when the source shape is not
// recognised (translator tie "unavailable").  Each is the translation of the source as it was when the
// extractor was written (frozen), so that Proofs/GenAgreeC04*.v keep compiling; `tie_available` says which
// of the two a Gen file is.

const c04NeutralConcat = `(* Gen/C04Concat.v — translator tie UNAVAILABLE: tools/go2v (extractor "c04concat") did not recognise the shape of the
   source; this is the frozen translation of the source the extractor was written for. *)
From Eino Require Import Base.Util Model.Paradigm Model.StreamOps Model.C04GenLib.

Definition tie_available : bool := false.

Definition concatStreamReader {X : Type} (concat_items : list X -> res X) (sr : stream X) : res X :=
 do items_ <- ((fix loop1 (rd : stream X) (items_ : list X) {struct rd} : res (list X) :=
 match rd with
 | [] => Ok items_
 | Bad ee :: rd' => Err ee
 | Val chunk_ :: rd' => let items_ := (items_ ++ [chunk_]) in
 (loop1 rd' items_)
 end) sr []);
 (if (Nat.eqb (List.length items_) 0)
 then Err e_empty
 else (if (Nat.eqb (List.length items_) 1)
 then do x2 <- go_idx items_ 0; Ok x2
 else (match concat_items items_ with
 | Ok res_ => Ok res_
 | Err ee => Err ee
 | Panic => Panic
 end))).
`

const c04NeutralConv = `(* Gen/C04Conv.v — translator tie UNAVAILABLE: tools/go2v (extractor "c04conv") did not recognise the shape of the
   source; this is the frozen translation of the source the extractor was written for. *)
From Eino Require Import Base.Util Model.Paradigm Model.StreamOps Model.C04GenLib.

Definition tie_available : bool := false.

(* schema/stream.go: func (srw *streamReaderWithConvert[T]) recv() (T, error); the second component is what
   is left of the source reader *)
Definition convert_recv {X Y : Type} (convert : X -> conv Y) (sr : stream X) : rres Y * stream X :=
 ((fix loop1 (rd : stream X)  {struct rd} : rres Y * stream X :=
 match rd with
 | [] => (REOF, [])
 | Bad ee :: rd' => (RErr ee, rd')
 | Val out_ :: rd' => (match convert out_ with
 | CVal t_ => (RVal t_, rd')
 | CNoValue => (loop1 rd')
 | CErr ee => (RErr ee, rd')
 end)
 end) sr).

(* compose/stream_reader.go: the convert function of streamReaderPacker.withKey *)
Definition withKey_convert (key : N) (v : val) : conv val :=
 CVal (wrap_key key v).

(* compose/stream_reader.go: the convert function of streamReaderPacker.toAnyStreamReader *)
Definition toAny_convert (t : val) : conv val :=
 CVal t.

(* compose/generic_helper.go: the convert function of defaultStreamMapFilter[T]; has_ty v = the value v has the type T *)
Definition mapFilter_convert (has_ty : val -> bool) (key : N) (m : amap) : conv val :=
 (match m_get key m with
 | Some v_ => (match assert_ty has_ty v_ with
 | Some vv_ => CVal vv_
 | None => CErr e_type
 end)
 | None => CNoValue
 end).

(* compose/generic_helper.go: the convert function of defaultStreamConverter[T] *)
Definition streamConverter_convert (has_ty : val -> bool) (v : val) : conv val :=
 (match assert_ty has_ty v with
 | Some vv_ => CVal vv_
 | None => CErr e_type
 end).

(* compose/generic_helper.go: defaultValueChecker[T] *)
Definition valueChecker (has_ty : val -> bool) (v : val) : res val :=
 (match assert_ty has_ty v with
 | Some nValue_ => Ok nValue_
 | None => Err e_type
 end).
`

const c04NeutralHandle = `(* Gen/C04Handle.v — translator tie UNAVAILABLE: tools/go2v (extractor "c04handle") did not recognise the shape of the
   source; this is the frozen translation of the source the extractor was written for. *)
From Eino Require Import Base.Util Model.Paradigm Model.StreamOps Model.C04GenLib.

Definition tie_available : bool := false.

(* compose/graph_manager.go: func (e *edgeHandlerManager) handle *)
Definition edge_handle (nil_any : gval) (h : list (N * list (N * list hpair))) (from to : N) (value : gval) (isStream : bool) : res gval :=
 (match go_get from h with
 | Some _ => (match go_get to (go_at [] from h) with
 | Some _ => (if isStream
 then do value_ <- fold_res (fun value_ v_ =>
 do s1 <- as_stream value_; let value_ := (GS (hp_transform v_ s1)) in
 Ok value_) (go_at [] to (go_at [] from h)) value;
 Ok value_
 else do value_ <- fold_res (fun value_ v_ =>
 (match call_invoke v_ value_ with
 | Ok value_ => Ok value_
 | Err ee => Err ee
 | Panic => Panic
 end)) (go_at [] to (go_at [] from h)) value;
 Ok value_)
 | None => Ok value
 end)
 | None => Ok value
 end).

(* compose/graph_manager.go: func (p *preNodeHandlerManager) handle *)
Definition preNode_handle (nil_any : gval) (h : list (N * list hpair)) (nodeKey : N) (value : gval) (isStream : bool) : res gval :=
 (match go_get nodeKey h with
 | Some _ => (if isStream
 then do value_ <- fold_res (fun value_ v_ =>
 do s1 <- as_stream value_; let value_ := (GS (hp_transform v_ s1)) in
 Ok value_) (go_at [] nodeKey h) value;
 Ok value_
 else do value_ <- fold_res (fun value_ v_ =>
 (match call_invoke v_ value_ with
 | Ok value_ => Ok value_
 | Err ee => Err ee
 | Panic => Panic
 end)) (go_at [] nodeKey h) value;
 Ok value_)
 | None => Ok value
 end).

(* compose/graph_manager.go: func (p *preBranchHandlerManager) handle *)
Definition preBranch_handle (nil_any : gval) (h : list (N * list (list hpair))) (nodeKey : N) (idx : nat) (value : gval) (isStream : bool) : res gval :=
 (match go_get nodeKey h with
 | Some _ => (if isStream
 then do x1 <- go_idx (go_at [] nodeKey h) idx; do value_ <- fold_res (fun value_ v_ =>
 do s2 <- as_stream value_; let value_ := (GS (hp_transform v_ s2)) in
 Ok value_) x1 value;
 Ok value_
 else do x3 <- go_idx (go_at [] nodeKey h) idx; do value_ <- fold_res (fun value_ v_ =>
 (match call_invoke v_ value_ with
 | Ok value_ => Ok value_
 | Err ee => Err ee
 | Panic => Panic
 end)) x3 value;
 Ok value_)
 | None => Ok value
 end).

`

const c04NeutralKeys = `(* Gen/C04Keys.v — translator tie UNAVAILABLE: tools/go2v (extractor "c04keys") did not recognise the shape of the
   source; this is the frozen translation of the source the extractor was written for. *)
From Eino Require Import Base.Util Model.Paradigm Model.StreamOps Model.C04GenLib.

Definition tie_available : bool := false.

(* compose/runnable.go: wrapper.i of inputKeyedComposableRunnable; has_cp = the context carries a checkpoint (a nested graph that resumes), zero_input = r.inputZeroValue() *)
Definition inputKeyed_i (has_cp : bool) (zero_input : val) (key : N) (i : val -> res val) (input : val) : res val :=
 do m1 <- as_map input; (match m_get key m1 with
 | Some v_ => (match i v_ with
 | Ok out_ => Ok out_
 | Err ee => Err ee
 | Panic => Panic
 end)
 | None => (if (negb has_cp)
 then Err e_nokey
 else let v_ := zero_input in
 (match i v_ with
 | Ok out_ => Ok out_
 | Err ee => Err ee
 | Panic => Panic
 end))
 end).

(* compose/runnable.go: wrapper.t of inputKeyedComposableRunnable; filter = r.inputStreamFilter *)
Definition inputKeyed_t (filter : N -> stream val -> option (stream val)) (key : N) (t : stream val -> res (stream val)) (input : stream val) : res (stream val) :=
 (match filter key input with
 | Some nInput_ => (match t nInput_ with
 | Ok out_ => Ok out_
 | Err ee => Err ee
 | Panic => Panic
 end)
 | None => Err e_type
 end).

(* compose/runnable.go: wrapper.i of outputKeyedComposableRunnable *)
Definition outputKeyed_i (key : N) (i : val -> res val) (input : val) : res val :=
 (match i input with
 | Ok out_ => Ok (wrap_key key out_)
 | Err ee => Err ee
 | Panic => Panic
 end).

(* compose/runnable.go: wrapper.t of outputKeyedComposableRunnable; with_key = streamReader.withKey *)
Definition outputKeyed_t (with_key : N -> stream val -> stream val) (key : N) (t : stream val -> res (stream val)) (input : stream val) : res (stream val) :=
 (match t input with
 | Ok out_ => Ok (with_key key out_)
 | Err ee => Err ee
 | Panic => Panic
 end).

(* compose/graph_node.go compileIfNeeded: the key wrappers in the order they are applied (the first sits inside) *)
Definition wrapper_order : list string := ["outputKey"%string; "inputKey"%string].
`

const c04NeutralCopy = `(* Gen/C04Copy.v — translator tie UNAVAILABLE: tools/go2v (extractor "c04copy") did not recognise the shape of the
   source; this is the frozen translation of the source the extractor was written for. *)
From Eino Require Import Base.Util Model.Paradigm Model.StreamOps Model.C04GenLib.

Definition tie_available : bool := false.

(* reader_copy n s = the n readers streamReader.copy(n) returns *)
Definition copyItem (reader_copy : nat -> stream val -> list (stream val)) (item : gval) (n : nat) : res (list gval) :=
 (if (Nat.ltb n 2)
 then Ok [item]
 else (match stream_of item with
 | Some s_ => let ss_ := (map GS (reader_copy n s_)) in
 do ret_ <- res_mapM (fun i_ => do x1 <- go_idx ss_ i_; Ok x1) (seq 0 n);
 Ok ret_
 | None => do ret_ <- res_mapM (fun i_ => Ok item) (seq 0 n);
 Ok ret_
 end)).
`

const c04NeutralMerge = `(* Gen/C04Merge.v — translator tie UNAVAILABLE: tools/go2v (extractor "c04merge") did not recognise the shape of the
   source; this is the frozen translation of the source the extractor was written for. *)
From Eino Require Import Base.Util Model.Paradigm Model.StreamOps Model.C04GenLib.

Definition tie_available : bool := false.

Definition mergeMap (vs : list val) : res val :=
 do x1 <- go_idx vs 0; let typ_ := (is_map x1) in
 do m2 <- make_map typ_; let merged_ := m2 in
 do merged_ <- fold_res (fun merged_ v_ =>
 (if (negb (Bool.eqb (is_map v_) typ_))
 then Err e_type
 else do m3 <- as_map v_; let range4 := (go_map_range m3) in
 do merged_ <- fold_res (fun merged_ it5 =>
 let key_ := (fst it5) in
 let val_ := (snd it5) in
 (if (hd_has key_ merged_)
 then Err e_dupkey
 else let merged_ := (go_map_set key_ val_ merged_) in
 Ok merged_)) range4 merged_;
 Ok merged_)) vs merged_;
 Ok (VM merged_).
`
