package main

// Extractor "c20dag" (property C20): compose/graph.go — cycle detection in all-predecessor mode:
//   - the loops of graph.compile that fill controlPredecessors (from g.controlEdges and from the end nodes of
//     g.branches), translated as folds over the model's edge / branch lists;
//   - func validateDAG, translated statement by statement: the initial counters (number of control predecessors,
//     START not counted), the rounds `for hasChanged { … }` in which every node whose counter is 0 releases its
//     successors (END skipped) and retires with -1, the final test for a counter that stayed positive.
// Go maps are association lists in insertion order (vocabulary Model/BuilderDagGenLib.v): m[k] = e, m[k]--,
// m[k] -= n, m[k] == 0, `if edges, ok := controlPredecessors[node]; ok`, range loops over the arguments, over
// chanSubscribeTo[node].controls / .writeToBranches / branch.endNodes, `if x == END { continue }`; the loop
// `for hasChanged` becomes [while_changed fuel].
// Anything else: "source shape not recognised" (translator tie unavailable).
//
// Output: coq/Gen/C20Dag.v.  Proofs/GenAgreeC20Dag.v proves validateDAG on the controlPredecessors of compile equal
// to the model's validate_dag (the counter algorithm whose soundness, completeness and order independence are
// validateDAG_sound / _complete / _order_independent of Props/C20.v).

import (
	"fmt"
	"go/ast"
	"go/token"
	"strings"
)

func init() {
	register("c20dag", c20ExtractDag)
	registerFallback("c20dag", "C20Dag.v", "(* Gen/C20Dag.v — translator tie UNAVAILABLE: tools/go2v (extractor \"c20dag\") did not recognise the shape of\n"+
		"   validateDAG / of the loops of graph.compile that fill controlPredecessors (compose/graph.go); the model's\n   own function is re-exported. *)\n"+
		"From Eino Require Import Base.Util Model.Builder Model.BuilderGenLib Model.BuilderDagGenLib.\n\n"+
		"Definition tie_available : bool := false.\n\n"+
		"Definition control_predecessors (g : gstate) : pmap := [].\n"+
		"Definition validateDAG (fuel : nat) (nodes : list string) (controls : string -> list string)\n"+
		"    (branchEnds : string -> list (list string)) (controlPredecessors : pmap) : option ecls := None.\n")
}

type c20Dg struct {
	errVars map[string]string
}

func c20DgErr(format string, a ...any) error { return fmt.Errorf(format, a...) }

// `if _, ok := M[K]; !ok { M[K] = []string{V} } else { M[K] = append(M[K], V) }` -> (M, K, V)
func c20MMAppend(s ast.Stmt) (m, k, v string, ok bool) {
	is, isIf := s.(*ast.IfStmt)
	if !isIf || is.Init == nil || c20Txt(is.Cond) != "!ok" || len(is.Body.List) != 1 {
		return
	}
	eb, isBlock := is.Else.(*ast.BlockStmt)
	if !isBlock || len(eb.List) != 1 {
		return
	}
	init := c20Txt(is.Init)
	if !strings.HasPrefix(init, "_,ok:=") || !strings.HasSuffix(init, "]") {
		return
	}
	mk := strings.TrimPrefix(init, "_,ok:=") // M[K]
	i := strings.Index(mk, "[")
	if i <= 0 {
		return
	}
	m, k = mk[:i], mk[i+1:len(mk)-1]
	th := c20Txt(is.Body.List[0])
	el := c20Txt(eb.List[0])
	if !strings.HasPrefix(th, mk+"=[]string{") || c20LitElems(is.Body.List[0]) == "" {
		return
	}
	v = c20LitElems(is.Body.List[0])
	if el != mk+"=append("+mk+","+v+")" {
		return
	}
	return m, k, v, true
}

// the loops of graph.compile that fill controlPredecessors
func (t *c20Dg) predecessors(fn *ast.FuncDecl) (string, error) {
	var b strings.Builder
	b.WriteString("Definition control_predecessors (g : gstate) : pmap :=\n")
	declared := false
	nLoops := 0
	for _, s := range fn.Body.List {
		if c20Txt(s) == "controlPredecessors:=make(map[string][]string)" {
			declared = true
			b.WriteString("  let controlPredecessors := @nil (string * list string) in\n")
			continue
		}
		rs, ok := s.(*ast.RangeStmt)
		if !ok {
			if c20MentionsAssign(s, "controlPredecessors") {
				return "", c20DgErr("compile: controlPredecessors is assigned outside the loops the translator knows")
			}
			continue
		}
		switch c20Txt(rs.X) {
		case "g.controlEdges":
			// for start, ends := range g.controlEdges { for _, end := range ends { <mm_append controlPredecessors end start> } }
			if !declared || rs.Key == nil || rs.Value == nil || len(rs.Body.List) != 1 {
				return "", c20DgErr("compile: loop over g.controlEdges")
			}
			in, ok := rs.Body.List[0].(*ast.RangeStmt)
			if !ok || c20Txt(in.X) != c20Txt(rs.Value) || in.Value == nil || len(in.Body.List) != 1 {
				return "", c20DgErr("compile: loop over the ends of a start node")
			}
			m, k, v, ok := c20MMAppend(in.Body.List[0])
			if !ok || m != "controlPredecessors" || k != c20Txt(in.Value) || v != c20Txt(rs.Key) {
				return "", c20DgErr("compile: controlPredecessors[end] = append(…, start) not recognised")
			}
			b.WriteString("  let controlPredecessors := fold_left (fun controlPredecessors se =>\n" +
				"      let start := fst se in let end_ := snd se in\n" +
				"      mm_append end_ start controlPredecessors) (g_ctrl g) controlPredecessors in\n")
			nLoops++
		case "g.branches":
			// for start, branches := range g.branches { for _, branch := range branches { for end := range branch.endNodes { … } } }
			if !declared || rs.Key == nil || rs.Value == nil || len(rs.Body.List) != 1 {
				return "", c20DgErr("compile: loop over g.branches")
			}
			in, ok := rs.Body.List[0].(*ast.RangeStmt)
			if !ok || c20Txt(in.X) != c20Txt(rs.Value) || in.Value == nil || len(in.Body.List) != 1 {
				return "", c20DgErr("compile: loop over the branches of a start node")
			}
			in2, ok := in.Body.List[0].(*ast.RangeStmt)
			if !ok || c20Txt(in2.X) != c20Txt(in.Value)+".endNodes" || in2.Key == nil || in2.Value != nil {
				return "", c20DgErr("compile: loop over the end nodes of a branch")
			}
			found := 0
			for _, st := range in2.Body.List {
				if m, k, v, ok := c20MMAppend(st); ok && m == "controlPredecessors" {
					if k != c20Txt(in2.Key) || v != c20Txt(rs.Key) {
						return "", c20DgErr("compile: controlPredecessors[end] = append(…, start) in the branch loop")
					}
					found++
					continue
				}
				if c20MentionsAssign(st, "controlPredecessors") {
					return "", c20DgErr("compile: the branch loop assigns controlPredecessors in another way")
				}
			}
			if found > 1 {
				return "", c20DgErr("compile: the branch loop enters a predecessor %d times", found)
			}
			nLoops++
			if found == 0 {
				continue // the branch targets are not entered: translated as it is (the agreement will not hold)
			}
			nLoops--
			b.WriteString("  let controlPredecessors := fold_left (fun controlPredecessors sb =>\n" +
				"      let start := fst sb in\n" +
				"      fold_left (fun controlPredecessors end_ =>\n" +
				"        mm_append end_ start controlPredecessors) (fst (snd sb)) controlPredecessors) (g_branches g) controlPredecessors in\n")
			nLoops++
		default:
			if c20MentionsAssign(s, "controlPredecessors") {
				return "", c20DgErr("compile: controlPredecessors is filled by a loop over %s", c20Txt(rs.X))
			}
		}
	}
	if !declared || nLoops != 2 {
		return "", c20DgErr("compile: controlPredecessors is not filled by one loop over g.controlEdges and one over g.branches")
	}
	b.WriteString("  controlPredecessors.\n\n")
	return b.String(), nil
}

func c20MentionsAssign(s ast.Stmt, name string) bool {
	found := false
	ast.Inspect(s, func(n ast.Node) bool {
		if fl, ok := n.(*ast.FuncLit); ok && fl != nil {
			return false
		}
		if as, ok := n.(*ast.AssignStmt); ok {
			for _, l := range as.Lhs {
				if base, _ := c20Root(l); base == name {
					found = true
				}
			}
		}
		return !found
	})
	return found
}

// ---- validateDAG: statements over the counter map m

func c20IntLit(e ast.Expr) (string, bool) {
	neg := false
	if u, ok := e.(*ast.UnaryExpr); ok && u.Op == token.SUB {
		neg, e = true, u.X
	}
	bl, ok := e.(*ast.BasicLit)
	if !ok || bl.Kind != token.INT {
		return "", false
	}
	if neg {
		return "(-" + bl.Value + ")%Z", true
	}
	return bl.Value + "%Z", true
}

// m[K] -> K
func c20MIndex(e ast.Expr) (string, bool) {
	ix, ok := e.(*ast.IndexExpr)
	if !ok || c20Txt(ix.X) != "m" {
		return "", false
	}
	id, ok := ix.Index.(*ast.Ident)
	if !ok {
		return "", false
	}
	return id.Name, true
}

func (t *c20Dg) mcond(e ast.Expr) (string, error) {
	be, ok := e.(*ast.BinaryExpr)
	if ok && (be.Op == token.EQL || be.Op == token.NEQ) {
		wrap := func(s string) string {
			if be.Op == token.NEQ {
				return "(negb " + s + ")"
			}
			return s
		}
		if id, ok := be.X.(*ast.Ident); ok {
			switch c20Txt(be.Y) {
			case "START":
				return wrap("(String.eqb " + id.Name + " START)"), nil
			case "END":
				return wrap("(String.eqb " + id.Name + " END_)"), nil
			}
		}
		if k, ok := c20MIndex(be.X); ok {
			if z, ok := c20IntLit(be.Y); ok {
				return wrap("(Z.eqb (m_get " + k + " m) " + z + ")"), nil
			}
		}
	}
	return "", c20DgErr("validateDAG: condition %s not recognised", c20Txt(e))
}

// a statement list that transforms m (and may set hasChanged when flag is true); ends with `fall`
func (t *c20Dg) mseq(l []ast.Stmt, flag bool, fall, ind string) (string, error) {
	if len(l) == 0 {
		return fall, nil
	}
	rest := func() (string, error) { return t.mseq(l[1:], flag, fall, ind) }
	bind := func(b string) (string, error) {
		r, err := rest()
		return b + " in\n" + ind + r, err
	}
	switch x := l[0].(type) {
	case *ast.AssignStmt:
		if len(x.Lhs) == 1 && len(x.Rhs) == 1 {
			if flag && x.Tok == token.ASSIGN && c20Txt(x.Lhs[0]) == "hasChanged" && (c20Txt(x.Rhs[0]) == "true" || c20Txt(x.Rhs[0]) == "false") {
				return bind("let hasChanged := " + c20Txt(x.Rhs[0]))
			}
			if k, ok := c20MIndex(x.Lhs[0]); ok {
				switch x.Tok {
				case token.ASSIGN:
					if z, ok := c20IntLit(x.Rhs[0]); ok {
						return bind("let m := m_put " + k + " " + z + " m")
					}
					if call, ok := x.Rhs[0].(*ast.CallExpr); ok && c20Txt(call.Fun) == "len" && len(call.Args) == 1 {
						if id, ok := call.Args[0].(*ast.Ident); ok {
							return bind("let m := m_put " + k + " (Z.of_nat (List.length " + id.Name + ")) m")
						}
					}
				case token.SUB_ASSIGN, token.ADD_ASSIGN:
					if bl, ok := x.Rhs[0].(*ast.BasicLit); ok && bl.Kind == token.INT {
						d := "(-" + bl.Value + ")"
						if x.Tok == token.ADD_ASSIGN {
							d = bl.Value
						}
						return bind("let m := m_add " + k + " " + d + " m")
					}
				}
			}
		}
	case *ast.IncDecStmt:
		if k, ok := c20MIndex(x.X); ok {
			d := "(-1)"
			if x.Tok == token.INC {
				d = "1"
			}
			return bind("let m := m_add " + k + " " + d + " m")
		}
	case *ast.IfStmt:
		// if edges, ok := controlPredecessors[node]; ok { … } else { … }
		if x.Init != nil && c20Txt(x.Cond) == "ok" {
			init := c20Txt(x.Init)
			if strings.HasSuffix(init, "]") && strings.Contains(init, ",ok:=controlPredecessors[") {
				v := init[:strings.Index(init, ",")]
				k := init[strings.Index(init, "[")+1 : len(init)-1]
				eb, ok := x.Else.(*ast.BlockStmt)
				if !ok {
					return "", c20DgErr("validateDAG: lookup of the predecessors without else")
				}
				th, err := t.mseq(x.Body.List, false, "m", ind+"    ")
				if err != nil {
					return "", err
				}
				el, err := t.mseq(eb.List, false, "m", ind+"    ")
				if err != nil {
					return "", err
				}
				r, err := rest()
				return "let m := match alist_get " + k + " controlPredecessors with\n" + ind + "  | Some " + v + " =>\n" + ind + "    " + th + "\n" +
					ind + "  | None =>\n" + ind + "    " + el + "\n" + ind + "  end in\n" + ind + r, err
			}
		}
		if x.Init != nil {
			break
		}
		c, err := t.mcond(x.Cond)
		if err != nil {
			return "", err
		}
		// if x == END { continue }
		if x.Else == nil && len(x.Body.List) == 1 {
			if br, ok := x.Body.List[0].(*ast.BranchStmt); ok && br.Tok == token.CONTINUE && br.Label == nil {
				r, err := rest()
				return "if " + c + " then " + fall + " else\n" + ind + r, err
			}
		}
		if x.Else == nil {
			th, err := t.mseq(x.Body.List, flag, fall, ind+"  ")
			if err != nil {
				return "", err
			}
			if len(l) != 1 {
				r, err := rest()
				pat := "m"
				if flag {
					pat = "'(m, hasChanged)"
				}
				return "let " + pat + " := (if " + c + " then\n" + ind + "  " + th + "\n" + ind + "  else " + fall + ") in\n" + ind + r, err
			}
			return "if " + c + " then\n" + ind + "  " + th + "\n" + ind + "else " + fall, nil
		}
	case *ast.RangeStmt:
		var lst, v string
		switch xs := c20Txt(x.X); {
		case strings.HasPrefix(xs, "chanSubscribeTo[") && strings.HasSuffix(xs, "].controls") && x.Value != nil:
			lst, v = "(controls "+xs[len("chanSubscribeTo["):len(xs)-len("].controls")]+")", c20Txt(x.Value)
		case strings.HasPrefix(xs, "chanSubscribeTo[") && strings.HasSuffix(xs, "].writeToBranches") && x.Value != nil:
			lst, v = "(branchEnds "+xs[len("chanSubscribeTo["):len(xs)-len("].writeToBranches")]+")", c20Txt(x.Value)
		case strings.HasSuffix(xs, ".endNodes") && x.Key != nil && x.Value == nil:
			lst, v = strings.TrimSuffix(xs, ".endNodes"), c20Txt(x.Key)
		default:
			if id, ok := x.X.(*ast.Ident); ok && x.Value != nil && (x.Key == nil || c20Txt(x.Key) == "_") {
				lst, v = id.Name, c20Txt(x.Value)
			}
		}
		if lst != "" && v != "" && v != "_" {
			body, err := t.mseq(x.Body.List, false, "m", ind+"    ")
			if err != nil {
				return "", err
			}
			return bind("let m := fold_left (fun m " + v + " =>\n" + ind + "    " + body + ") " + lst + " m")
		}
	}
	return "", c20DgErr("validateDAG: statement %s not recognised", c20Brief(l[0]))
}

func (t *c20Dg) validate(fn *ast.FuncDecl) (string, error) {
	if c20ParamNames(fn) != "chanSubscribeTo,controlPredecessors" {
		return "", c20DgErr("validateDAG: parameters (%s)", c20ParamNames(fn))
	}
	l := fn.Body.List
	if len(l) != 6 {
		return "", c20DgErr("validateDAG: %d statements, the translator knows 6", len(l))
	}
	if c20Txt(l[0]) != "m:=map[string]int{}" && c20Txt(l[0]) != "m:=make(map[string]int)" {
		return "", c20DgErr("validateDAG: declaration of m")
	}
	var b strings.Builder
	b.WriteString("Definition validateDAG (fuel : nat) (nodes : list string) (controls : string -> list string)\n")
	b.WriteString("    (branchEnds : string -> list (list string)) (controlPredecessors : pmap) : option ecls :=\n")
	b.WriteString("  let m := @nil (string * Z) in\n")
	// for node := range chanSubscribeTo { … }
	rs, ok := l[1].(*ast.RangeStmt)
	if !ok || c20Txt(rs.X) != "chanSubscribeTo" || rs.Key == nil || rs.Value != nil {
		return "", c20DgErr("validateDAG: the loop that counts the predecessors")
	}
	body, err := t.mseq(rs.Body.List, false, "m", "      ")
	if err != nil {
		return "", err
	}
	b.WriteString("  let m := fold_left (fun m " + c20Txt(rs.Key) + " =>\n      " + body + ") nodes m in\n")
	// hasChanged := true; for hasChanged { hasChanged = false; for node := range m { … } }
	if c20Txt(l[2]) != "hasChanged:=true" {
		return "", c20DgErr("validateDAG: hasChanged := true")
	}
	fs, ok := l[3].(*ast.ForStmt)
	if !ok || fs.Init != nil || fs.Post != nil || c20Txt(fs.Cond) != "hasChanged" || len(fs.Body.List) != 2 || c20Txt(fs.Body.List[0]) != "hasChanged=false" {
		return "", c20DgErr("validateDAG: the loop `for hasChanged`")
	}
	in, ok := fs.Body.List[1].(*ast.RangeStmt)
	if !ok || c20Txt(in.X) != "m" || in.Key == nil || in.Value != nil {
		return "", c20DgErr("validateDAG: the round over the nodes")
	}
	round, err := t.mseq(in.Body.List, true, "(m, hasChanged)", "          ")
	if err != nil {
		return "", err
	}
	b.WriteString("  let m := while_changed fuel (fun m =>\n      fold_left (fun mh " + c20Txt(in.Key) + " =>\n" +
		"          let m := fst mh in let hasChanged := snd mh in\n          " + round + ") (map fst m) (m, false)) m in\n")
	// for k, v := range m { if v > 0 { return err } }; return nil
	fin, ok := l[4].(*ast.RangeStmt)
	if !ok || c20Txt(fin.X) != "m" || fin.Value == nil || len(fin.Body.List) != 1 {
		return "", c20DgErr("validateDAG: the final loop")
	}
	is, ok := fin.Body.List[0].(*ast.IfStmt)
	if !ok || is.Init != nil || is.Else != nil || len(is.Body.List) != 1 {
		return "", c20DgErr("validateDAG: the final test")
	}
	be, ok := is.Cond.(*ast.BinaryExpr)
	if !ok || c20Txt(be.X) != c20Txt(fin.Value) {
		return "", c20DgErr("validateDAG: the final test %s", c20Txt(is.Cond))
	}
	z, ok := c20IntLit(be.Y)
	if !ok {
		return "", c20DgErr("validateDAG: the final test %s", c20Txt(is.Cond))
	}
	var test string
	switch be.Op {
	case token.GTR:
		test = "Z.ltb " + z + " (snd kv)"
	case token.GEQ:
		test = "Z.leb " + z + " (snd kv)"
	case token.NEQ:
		test = "negb (Z.eqb (snd kv) " + z + ")"
	case token.LSS:
		test = "Z.ltb (snd kv) " + z
	default:
		return "", c20DgErr("validateDAG: the final test %s", c20Txt(is.Cond))
	}
	ret, ok := is.Body.List[0].(*ast.ReturnStmt)
	if !ok || len(ret.Results) != 1 {
		return "", c20DgErr("validateDAG: the final return")
	}
	txt, ok := c20ErrText(ret.Results[0])
	if !ok {
		return "", c20DgErr("validateDAG: the error returned")
	}
	if r, ok := l[5].(*ast.ReturnStmt); !ok || len(r.Results) != 1 || !c20IsNil(r.Results[0]) {
		return "", c20DgErr("validateDAG: does not end with return nil")
	}
	b.WriteString("  if existsb (fun kv => " + test + ") m then Some " + c20Classify(txt) + " else None.\n")
	return b.String(), nil
}

func c20ExtractDag(repo string) (string, string, error) {
	fset := token.NewFileSet()
	f, err := c20ParseGo(fset, repo, "compose", "graph.go")
	if err != nil {
		return "", "", err
	}
	t := &c20Dg{}
	comp := c20MethodOf(f, "graph", "compile")
	if comp == nil || comp.Body == nil {
		return "", "", fmt.Errorf("method (*graph).compile not found")
	}
	// compile hands exactly these to validateDAG
	calls := 0
	ast.Inspect(comp.Body, func(n ast.Node) bool {
		if c, ok := n.(*ast.CallExpr); ok && c20Txt(c.Fun) == "validateDAG" {
			if c20Txt(c) == "validateDAG(r.chanSubscribeTo,controlPredecessors)" {
				calls++
			} else {
				calls = -100
			}
		}
		return true
	})
	if calls != 1 {
		return "", "", fmt.Errorf("compile does not call validateDAG(r.chanSubscribeTo, controlPredecessors) exactly once")
	}
	preds, err := t.predecessors(comp)
	if err != nil {
		return "", "", err
	}
	vd := c20TopFunc(f, "validateDAG")
	if vd == nil {
		return "", "", fmt.Errorf("func validateDAG not found")
	}
	val, err := t.validate(vd)
	if err != nil {
		return "", "", err
	}
	var b strings.Builder
	b.WriteString("(* Gen/C20Dag.v — GENERATED by tools/go2v (extractor \"c20dag\") from compose/graph.go (func validateDAG and the\n")
	b.WriteString("   loops of graph.compile that fill controlPredecessors). Do not edit. *)\n")
	b.WriteString("From Eino Require Import Base.Util Model.Builder Model.BuilderGenLib Model.BuilderDagGenLib.\n")
	b.WriteString("Local Open Scope string_scope.\nLocal Open Scope list_scope.\n\n")
	b.WriteString("Definition tie_available : bool := true.\n\n")
	b.WriteString("(* graph.compile: the loops that fill controlPredecessors *)\n")
	b.WriteString(preds)
	b.WriteString(val)
	return "C20Dag.v", b.String(), nil
}
