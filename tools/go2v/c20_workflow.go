package main

// Extractor "c20workflow" (property C20): compose/workflow.go — the deferred-error handling of a Workflow:
//   - WorkflowNode.addDependencyRelation: which of the three closures it records under which option, and the
//     body of each closure statement by statement (mapped-path check, then addEdgeWithMappings with which
//     noControl / noData flags and which mappings; what is returned);
//   - the options the public methods AddInput / AddDependency / WithNoDirectDependency hand to it;
//   - Workflow.compile: the build error first; the loop over the deferred branches (an end node without a
//     WorkflowNode sets the sticky build error; addBranch is called with skipData and its error dropped); the
//     loop over the nodes' deferred inputs (stop at the first error, the closures of a node are forgotten only
//     after all of them succeeded); the loop over the nodes' static values (refused on a compiled workflow,
//     mapped-path check, the handler put in front, the converter at the end when nothing is mapped and the
//     node has a type, the values consumed); graph.compile last.
// The Workflow is threaded as [w] (Model/Builder.v: wstate), vocabulary Model/BuilderWfGenLib.v.  The loops over
// the map wf.workflowNodes visit the keys in an order that is a parameter of the generated function ([ord],
// [sord], as in the model).  Statements that only build handler closures or bookkeeping the model does not keep
// (wf.dependencies, dependencySetter, the static value map, validateStaticValues = typing) are skipped and
// listed.  Anything else: "source shape not recognised" (translator tie unavailable).
//
//   - the declaring calls: initNode (a fresh WorkflowNode replaces whatever was registered under the key), End (the
//     registered END node, created on first use), the eleven Add<Component>Node methods (the graph's error is
//     dropped, the WorkflowNode is created all the same), AddBranch (recorded only), AddEnd (= End().AddInput),
//     addDependencyRelation (the closure is appended to n.addInputs), SetStaticValue (recorded under its path).
//
// Output: coq/Gen/C20Workflow.v.  Proofs/GenAgreeC20Wf.v proves closure_of = run_input, compile = w_compile and
// the declaring calls = wstep.

import (
	"fmt"
	"go/ast"
	"go/token"
	"go/types"
	"strings"
)

func init() {
	register("c20workflow", c20ExtractWorkflow)
	registerFallback("c20workflow", "C20Workflow.v", "(* Gen/C20Workflow.v — translator tie UNAVAILABLE: tools/go2v (extractor \"c20workflow\") did not recognise the\n"+
		"   shape of compose/workflow.go (addDependencyRelation / Workflow.compile); the model's own functions are\n   re-exported. *)\n"+
		"From Eino Require Import Base.Util Model.Builder Model.BuilderGenLib Model.BuilderWfGenLib.\n\n"+
		"Definition tie_available : bool := false.\n\n"+
		"Definition closure_of (noDirectDependency dependencyWithoutInput : bool) (g : gstate) (key : string) (m : mapped) (fromNodeKey : string) (inputs : list string) : gstate * mapped * option ecls :=\n"+
		"  run_input g key m (mkWI fromNodeKey (if noDirectDependency then WNoDirect else if dependencyWithoutInput then WDepOnly else WNormal) inputs).\n"+
		"Definition closure_noDirectDependency := closure_of true false.\n"+
		"Definition closure_dependencyWithoutInput := closure_of false true.\n"+
		"Definition closure_default := closure_of false false.\n"+
		"Definition options_AddInput : bool * bool := (false, false).\n"+
		"Definition options_AddDependency : bool * bool := (false, true).\n"+
		"Definition options_WithNoDirectDependency : bool * bool := (true, false).\n"+
		"Definition compile (closure : gstate -> string -> mapped -> winput -> gstate * mapped * option ecls) (w : wstate) (opt : copt) (ord sord : list string) : wstate * outcome :=\n"+
		"  w_compile fixed w opt ord sord.\n"+
		"Definition initNode (key : string) (w : wstate) : wstate := w.\n"+
		"Definition front_End (w : wstate) : wstate := w.\n"+
		"Definition front_AddNode (w : wstate) (key : string) (nk : nkind) (needState : bool) : wstate := w.\n"+
		"Definition front_AddBranch (w : wstate) (fromNodeKey : string) (endNodes : list string) : wstate := w.\n"+
		"Definition front_addDependencyRelation (key : string) (w : wstate) (fromNodeKey : string) (inputs : list string) (options : bool * bool) : wstate := w.\n"+
		"Definition front_AddEnd (w : wstate) (fromNodeKey : string) (inputs : list string) : wstate := w.\n"+
		"Definition front_SetStaticValue (key : string) (w : wstate) (path : string) : wstate := w.\n")
}

type c20Wf struct {
	errVars map[string]string
	notes   []string
}

func (t *c20Wf) note(format string, a ...any) { t.notes = append(t.notes, fmt.Sprintf(format, a...)) }

func c20WfErr(format string, a ...any) error { return fmt.Errorf(format, a...) }

func c20WfMethod(f *ast.File, recvType, name string) *ast.FuncDecl {
	for _, d := range f.Decls {
		fn, ok := d.(*ast.FuncDecl)
		if !ok || fn.Recv == nil || fn.Name.Name != name || len(fn.Recv.List) != 1 || fn.Body == nil {
			continue
		}
		rt := fn.Recv.List[0].Type
		if st, ok := rt.(*ast.StarExpr); ok {
			rt = st.X
		}
		if ix, ok := rt.(*ast.IndexListExpr); ok {
			rt = ix.X
		}
		if ix, ok := rt.(*ast.IndexExpr); ok {
			rt = ix.X
		}
		if id, ok := rt.(*ast.Ident); ok && id.Name == recvType {
			return fn
		}
	}
	return nil
}

func c20Txt(n ast.Node) string {
	switch x := n.(type) {
	case ast.Expr:
		return c20Squash(types.ExprString(x))
	case ast.Stmt:
		return c20Squash(c20StmtText(x))
	}
	return ""
}

func (t *c20Wf) errClass(e ast.Expr) (string, error) {
	if txt, ok := c20ErrText(e); ok {
		return c20Classify(txt), nil
	}
	if id, ok := e.(*ast.Ident); ok {
		if c, ok := t.errVars[id.Name]; ok {
			return c, nil
		}
	}
	return "", c20WfErr("error value %s not recognised", c20Txt(e))
}

// `if err := <call>; err != nil { return [nil,] err }` -> the call
func c20IfErrCall(s ast.Stmt, results int) (*ast.CallExpr, bool) {
	is, ok := s.(*ast.IfStmt)
	if !ok || is.Init == nil || is.Else != nil || c20Txt(is.Cond) != "err!=nil" || len(is.Body.List) != 1 {
		return nil, false
	}
	as, ok := is.Init.(*ast.AssignStmt)
	if !ok || as.Tok != token.DEFINE || len(as.Lhs) != 1 || len(as.Rhs) != 1 || c20Txt(as.Lhs[0]) != "err" {
		return nil, false
	}
	call, ok := as.Rhs[0].(*ast.CallExpr)
	if !ok {
		return nil, false
	}
	ret, ok := is.Body.List[0].(*ast.ReturnStmt)
	if !ok || len(ret.Results) != results || c20Txt(ret.Results[results-1]) != "err" {
		return nil, false
	}
	if results == 2 && !c20IsNil(ret.Results[0]) {
		return nil, false
	}
	return call, true
}

// ---------------------------------------------------------------- the closures of addDependencyRelation

// body of `func() error { … }` -> Gallina over (g, m), parameters key fromNodeKey inputs
func (t *c20Wf) closureBody(l []ast.Stmt, ind string) (string, error) {
	if len(l) == 0 {
		return "", c20WfErr("closure: control reaches the end without a return")
	}
	rest := func() (string, error) { return t.closureBody(l[1:], ind) }
	switch x := l[0].(type) {
	case *ast.ReturnStmt:
		if len(x.Results) == 1 && c20IsNil(x.Results[0]) && len(l) == 1 {
			return "(g, m, None)", nil
		}
		return "", c20WfErr("closure: return %s", c20Txt(x.Results[0]))
	case *ast.DeclStmt:
		if c20Squash(c20NodeText(x)) == "varpaths[]FieldPath" {
			return rest()
		}
	case *ast.RangeStmt:
		// for _, input := range inputs { paths = append(paths, input.targetPath()) }
		if c20Txt(x.X) == "inputs" && len(x.Body.List) == 1 && x.Value != nil &&
			c20Txt(x.Body.List[0]) == "paths=append(paths,"+c20Txt(x.Value)+".targetPath())" {
			t.note("closure: paths = the target paths of inputs")
			return rest()
		}
	case *ast.ExprStmt:
		if call, ok := x.X.(*ast.CallExpr); ok && c20Txt(call.Fun) == "n.dependencySetter" {
			t.note("closure: n.dependencySetter(…): the dependency table of the Workflow, not kept by the model")
			return rest()
		}
	case *ast.IfStmt:
		if call, ok := c20IfErrCall(x, 1); ok {
			r, err := rest()
			if err != nil {
				return "", err
			}
			switch c20Txt(call.Fun) {
			case "n.checkAndAddMappedPath":
				if len(call.Args) == 1 && c20Txt(call.Args[0]) == "paths" {
					return "let '(m, err) := check_mapped m inputs in\n" + ind + "if is_some err then (g, m, err)\n" + ind + "else " + r, nil
				}
			case "n.g.addEdgeWithMappings":
				if len(call.Args) >= 4 && c20Txt(call.Args[0]) == "fromNodeKey" && c20Txt(call.Args[1]) == "n.key" {
					b1, b2 := c20Txt(call.Args[2]), c20Txt(call.Args[3])
					isBool := func(s string) bool { return s == "true" || s == "false" }
					mp := "[]"
					okArgs := len(call.Args) == 4 && !call.Ellipsis.IsValid()
					if len(call.Args) == 5 && call.Ellipsis.IsValid() && c20Txt(call.Args[4]) == "inputs" {
						mp, okArgs = "inputs", true
					}
					if isBool(b1) && isBool(b2) && okArgs {
						return "let '(g, err) := add_edge_with_mappings g fromNodeKey key " + b1 + " " + b2 + " " + mp + " in\n" + ind +
							"if is_some err then (g, m, err)\n" + ind + "else " + r, nil
					}
				}
			}
			return "", c20WfErr("closure: call %s not recognised", c20Txt(call))
		}
		// if len(inputs) > 0 { return fmt.Errorf(…) }
		if x.Init == nil && x.Else == nil && c20Txt(x.Cond) == "len(inputs)>0" && len(x.Body.List) == 1 {
			if ret, ok := x.Body.List[0].(*ast.ReturnStmt); ok && len(ret.Results) == 1 {
				cls, err := t.errClass(ret.Results[0])
				if err != nil {
					return "", err
				}
				r, err := rest()
				return "if Nat.ltb 0 (List.length inputs) then (g, m, Some " + cls + ")\n" + ind + "else " + r, err
			}
		}
	}
	return "", c20WfErr("closure: statement %s not recognised", c20Brief(l[0]))
}

func c20NodeText(d *ast.DeclStmt) string {
	gd, ok := d.Decl.(*ast.GenDecl)
	if !ok || len(gd.Specs) != 1 {
		return ""
	}
	vs, ok := gd.Specs[0].(*ast.ValueSpec)
	if !ok || len(vs.Names) != 1 || vs.Type == nil || len(vs.Values) != 0 {
		return ""
	}
	return gd.Tok.String() + " " + vs.Names[0].Name + " " + types.ExprString(vs.Type)
}

// n.addInputs = append(n.addInputs, func() error { … }) -> the body
func c20RecordedClosure(l []ast.Stmt) ([]ast.Stmt, bool) {
	if len(l) != 1 {
		return nil, false
	}
	as, ok := l[0].(*ast.AssignStmt)
	if !ok || as.Tok != token.ASSIGN || len(as.Lhs) != 1 || len(as.Rhs) != 1 || c20Txt(as.Lhs[0]) != "n.addInputs" {
		return nil, false
	}
	call, ok := as.Rhs[0].(*ast.CallExpr)
	if !ok || c20Txt(call.Fun) != "append" || len(call.Args) != 2 || c20Txt(call.Args[0]) != "n.addInputs" {
		return nil, false
	}
	fl, ok := call.Args[1].(*ast.FuncLit)
	if !ok || len(fl.Type.Params.List) != 0 || fl.Type.Results == nil || len(fl.Type.Results.List) != 1 || c20Txt(fl.Type.Results.List[0].Type) != "error" {
		return nil, false
	}
	return fl.Body.List, true
}

func (t *c20Wf) closures(f *ast.File, b *strings.Builder) error {
	fn := c20WfMethod(f, "WorkflowNode", "addDependencyRelation")
	if fn == nil || c20ParamNames(fn) != "fromNodeKey,inputs,options" || len(fn.Recv.List[0].Names) != 1 || fn.Recv.List[0].Names[0].Name != "n" {
		return c20WfErr("method (*WorkflowNode).addDependencyRelation(fromNodeKey, inputs, options) not found")
	}
	l := fn.Body.List
	// for _, input := range inputs { input.fromNodeKey = fromNodeKey }
	if len(l) == 3 {
		if rs, ok := l[0].(*ast.RangeStmt); ok && c20Txt(rs.X) == "inputs" && len(rs.Body.List) == 1 && rs.Value != nil &&
			c20Txt(rs.Body.List[0]) == c20Txt(rs.Value)+".fromNodeKey=fromNodeKey" {
			t.note("addDependencyRelation: input.fromNodeKey = fromNodeKey for every mapping (the mapping objects are not kept by the model)")
			l = l[1:]
		}
	}
	if len(l) != 2 {
		return c20WfErr("addDependencyRelation: %d statements", len(l))
	}
	if ret, ok := l[1].(*ast.ReturnStmt); !ok || len(ret.Results) != 1 || c20Txt(ret.Results[0]) != "n" {
		return c20WfErr("addDependencyRelation: last statement")
	}
	type arm struct{ flag, name string }
	var arms []arm
	var bodies []string
	cur, ok := l[0].(*ast.IfStmt)
	if !ok {
		return c20WfErr("addDependencyRelation: no if chain over the options")
	}
	for {
		if cur.Init != nil {
			return c20WfErr("addDependencyRelation: if with init")
		}
		flag := strings.TrimPrefix(c20Txt(cur.Cond), "options.")
		if flag != "noDirectDependency" && flag != "dependencyWithoutInput" {
			return c20WfErr("addDependencyRelation: option test %s", c20Txt(cur.Cond))
		}
		body, ok := c20RecordedClosure(cur.Body.List)
		if !ok {
			return c20WfErr("addDependencyRelation: the branch under %s does not record one closure", flag)
		}
		code, err := t.closureBody(body, "  ")
		if err != nil {
			return err
		}
		arms = append(arms, arm{flag, "closure_" + flag})
		bodies = append(bodies, code)
		switch e := cur.Else.(type) {
		case *ast.IfStmt:
			cur = e
			continue
		case *ast.BlockStmt:
			body, ok := c20RecordedClosure(e.List)
			if !ok {
				return c20WfErr("addDependencyRelation: the last branch does not record one closure")
			}
			code, err := t.closureBody(body, "  ")
			if err != nil {
				return err
			}
			arms = append(arms, arm{"", "closure_default"})
			bodies = append(bodies, code)
		default:
			return c20WfErr("addDependencyRelation: if chain without a final else")
		}
		break
	}
	sig := " (g : gstate) (key : string) (m : mapped) (fromNodeKey : string) (inputs : list string) : gstate * mapped * option ecls :=\n  "
	for i, a := range arms {
		what := "otherwise"
		if a.flag != "" {
			what = "options." + a.flag
		}
		fmt.Fprintf(b, "(* addDependencyRelation: %s *)\nDefinition %s%s%s.\n\n", what, a.name, sig, bodies[i])
	}
	b.WriteString("Definition closure_of (noDirectDependency dependencyWithoutInput : bool) :=\n")
	for _, a := range arms {
		if a.flag != "" {
			fmt.Fprintf(b, "  if %s then %s else\n", a.flag, a.name)
		} else {
			fmt.Fprintf(b, "  %s.\n\n", a.name)
		}
	}
	// the options of the public methods
	opts := func(method string) (string, error) {
		m := c20WfMethod(f, "WorkflowNode", method)
		if m == nil || len(m.Body.List) != 1 {
			return "", c20WfErr("method (*WorkflowNode).%s not found", method)
		}
		ret, ok := m.Body.List[0].(*ast.ReturnStmt)
		if !ok || len(ret.Results) != 1 {
			return "", c20WfErr("%s: body", method)
		}
		call, ok := ret.Results[0].(*ast.CallExpr)
		if !ok || c20Txt(call.Fun) != "n.addDependencyRelation" || len(call.Args) != 3 || c20Txt(call.Args[0]) != "fromNodeKey" {
			return "", c20WfErr("%s: does not call addDependencyRelation", method)
		}
		if method == "AddDependency" && !c20IsNil(call.Args[1]) {
			return "", c20WfErr("AddDependency: hands mappings on")
		}
		cl := c20AddrLit(call.Args[2], "workflowAddInputOpts")
		if cl == nil {
			return "", c20WfErr("%s: options %s", method, c20Txt(call.Args[2]))
		}
		kv := c20KeyValues(cl)
		if len(kv) != len(cl.Elts) {
			return "", c20WfErr("%s: options literal", method)
		}
		get := func(k string) string {
			if e, ok := kv[k]; ok {
				return c20Txt(e)
			}
			return "false"
		}
		nd, dw := get("noDirectDependency"), get("dependencyWithoutInput")
		for k := range kv {
			if k != "noDirectDependency" && k != "dependencyWithoutInput" {
				return "", c20WfErr("%s: option %s", method, k)
			}
		}
		if (nd != "true" && nd != "false") || (dw != "true" && dw != "false") {
			return "", c20WfErr("%s: option values", method)
		}
		return "(" + nd + ", " + dw + ")", nil
	}
	for _, m := range []string{"AddInput", "AddDependency"} {
		o, err := opts(m)
		if err != nil {
			return err
		}
		fmt.Fprintf(b, "Definition options_%s : bool * bool := %s.\n", m, o)
	}
	// func WithNoDirectDependency() WorkflowAddInputOpt { return func(opt *workflowAddInputOpts) { opt.noDirectDependency = true } }
	wnd := c20TopFunc(f, "WithNoDirectDependency")
	if wnd == nil || len(wnd.Body.List) != 1 {
		return c20WfErr("func WithNoDirectDependency not found")
	}
	ret, ok := wnd.Body.List[0].(*ast.ReturnStmt)
	if !ok || len(ret.Results) != 1 {
		return c20WfErr("WithNoDirectDependency: body")
	}
	fl, ok := ret.Results[0].(*ast.FuncLit)
	if !ok || len(fl.Body.List) != 1 || c20Txt(fl.Body.List[0]) != "opt.noDirectDependency=true" {
		return c20WfErr("WithNoDirectDependency: body")
	}
	b.WriteString("Definition options_WithNoDirectDependency : bool * bool := (true, false).\n\n")
	return nil
}

// return <expr>
func c20RetIs(s ast.Stmt, what string) bool {
	ret, ok := s.(*ast.ReturnStmt)
	return ok && len(ret.Results) == 1 && c20Txt(ret.Results[0]) == what
}

// return nil, <second>
func c20RetNilAnd(s ast.Stmt, second string) bool {
	ret, ok := s.(*ast.ReturnStmt)
	return ok && len(ret.Results) == 2 && c20IsNil(ret.Results[0]) && c20Txt(ret.Results[1]) == second
}

func c20TopFunc(f *ast.File, name string) *ast.FuncDecl {
	for _, d := range f.Decls {
		if fn, ok := d.(*ast.FuncDecl); ok && fn.Recv == nil && fn.Name.Name == name && fn.Body != nil {
			return fn
		}
	}
	return nil
}

// ---------------------------------------------------------------- Workflow.compile

// the deferred branches
func (t *c20Wf) branchLoop(rs *ast.RangeStmt) (string, error) {
	if c20Txt(rs.X) != "wf.workflowBranches" || rs.Value == nil || c20Txt(rs.Value) != "wb" || len(rs.Body.List) != 2 {
		return "", c20WfErr("compile: loop over wf.workflowBranches")
	}
	inner, ok := rs.Body.List[0].(*ast.RangeStmt)
	if !ok || c20Txt(inner.X) != "wb.endNodes" || inner.Key == nil || c20Txt(inner.Key) != "endNode" || inner.Value != nil || len(inner.Body.List) != 1 {
		return "", c20WfErr("compile: loop over wb.endNodes")
	}
	is, ok := inner.Body.List[0].(*ast.IfStmt)
	if !ok || is.Init != nil || c20Txt(is.Cond) != "endNode==END" {
		return "", c20WfErr("compile: test of the end node")
	}
	// END: only the dependency table
	okDeps := true
	ast.Inspect(is.Body, func(n ast.Node) bool {
		switch x := n.(type) {
		case *ast.AssignStmt:
			for _, l := range x.Lhs {
				if _, isId := l.(*ast.Ident); isId && x.Tok == token.DEFINE {
					continue
				}
				if base, first := c20Root(l); base != "wf" || first != "dependencies" {
					okDeps = false
				}
			}
		case *ast.ReturnStmt, *ast.CallExpr:
			if c, isCall := x.(*ast.CallExpr); isCall {
				if id, isId := c.Fun.(*ast.Ident); isId && id.Name == "make" {
					return true
				}
			}
			okDeps = false
		}
		return okDeps
	})
	if !okDeps {
		return "", c20WfErr("compile: the END case of a branch does more than enter the dependency")
	}
	t.note("compile: wf.dependencies[END][…] = branchDependency; n.dependencySetter(…): the dependency table, not kept by the model")
	eb, ok := is.Else.(*ast.BlockStmt)
	if !ok || len(eb.List) != 3 {
		return "", c20WfErr("compile: the case of an ordinary end node")
	}
	if c20Txt(eb.List[0]) != "n,ok:=wf.workflowNodes[endNode]" {
		return "", c20WfErr("compile: lookup of the end node's WorkflowNode")
	}
	miss, ok := eb.List[1].(*ast.IfStmt)
	if !ok || miss.Init != nil || miss.Else != nil || c20Txt(miss.Cond) != "!ok" || len(miss.Body.List) < 1 || len(miss.Body.List) > 2 {
		return "", c20WfErr("compile: test for a missing WorkflowNode")
	}
	var cls, missing string
	if len(miss.Body.List) == 2 {
		// wf.g.buildError = <error>; return nil, wf.g.buildError
		as, ok := miss.Body.List[0].(*ast.AssignStmt)
		if !ok || as.Tok != token.ASSIGN || len(as.Lhs) != 1 || c20Txt(as.Lhs[0]) != "wf.g.buildError" {
			return "", c20WfErr("compile: a missing end node: first statement")
		}
		var err error
		if cls, err = t.errClass(as.Rhs[0]); err != nil {
			return "", err
		}
		if !c20RetNilAnd(miss.Body.List[1], "wf.g.buildError") {
			return "", c20WfErr("compile: a missing end node does not return the build error")
		}
		missing = "            let w := w_set_build_error (Some " + cls + ") w in\n            (w, g_err (w_g w))\n"
	} else {
		// return nil, <error>: the build error is not set
		ret, ok := miss.Body.List[0].(*ast.ReturnStmt)
		if !ok || len(ret.Results) != 2 || !c20IsNil(ret.Results[0]) {
			return "", c20WfErr("compile: a missing end node: return")
		}
		var err error
		if cls, err = t.errClass(ret.Results[1]); err != nil {
			return "", err
		}
		missing = "            (w, Some " + cls + ")\n"
	}
	if es, ok := eb.List[2].(*ast.ExprStmt); !ok || !strings.HasPrefix(c20Txt(es.X), "n.dependencySetter(") {
		return "", c20WfErr("compile: after the lookup of the end node")
	}
	// _ = wf.g.addBranch(wb.fromNodeKey, wb.GraphBranch, true)
	ab, ok := rs.Body.List[1].(*ast.AssignStmt)
	if !ok || ab.Tok != token.ASSIGN || len(ab.Lhs) != 1 || c20Txt(ab.Lhs[0]) != "_" || len(ab.Rhs) != 1 {
		return "", c20WfErr("compile: call of addBranch")
	}
	call, ok := ab.Rhs[0].(*ast.CallExpr)
	if !ok || c20Txt(call.Fun) != "wf.g.addBranch" || len(call.Args) != 3 || c20Txt(call.Args[0]) != "wb.fromNodeKey" || c20Txt(call.Args[1]) != "wb.GraphBranch" {
		return "", c20WfErr("compile: call of addBranch")
	}
	skip := c20Txt(call.Args[2])
	if skip != "true" && skip != "false" {
		return "", c20WfErr("compile: skipData argument of addBranch")
	}
	return "match wfor_each (fun (w : wstate) (wb : string * list string) =>\n" +
		"      match wfor_each (fun (w : wstate) (endNode : string) =>\n" +
		"          if String.eqb endNode END_ then (w, None)\n" +
		"          else if negb (wn_has endNode w) then\n" + missing +
		"          else (w, None)) (snd wb) w with\n" +
		"      | (w, Some e) => (w, Some e)\n" +
		"      | (w, None) =>\n" +
		"        let w := w_add_branch (fst wb) (snd wb) " + skip + " w in\n" +
		"        (w, None)\n" +
		"      end) (w_branches w) w with\n", nil
}

// the deferred inputs
func (t *c20Wf) inputLoop(rs *ast.RangeStmt) (string, error) {
	if c20Txt(rs.X) != "wf.workflowNodes" || rs.Value == nil || c20Txt(rs.Value) != "n" || len(rs.Body.List) < 1 || len(rs.Body.List) > 2 {
		return "", c20WfErr("compile: loop over the deferred inputs")
	}
	inner, ok := rs.Body.List[0].(*ast.RangeStmt)
	if !ok || c20Txt(inner.X) != "n.addInputs" || inner.Value == nil || c20Txt(inner.Value) != "addInput" || len(inner.Body.List) != 1 {
		return "", c20WfErr("compile: loop over n.addInputs")
	}
	call, ok := c20IfErrCall(inner.Body.List[0], 2)
	if !ok || c20Txt(call) != "addInput()" {
		return "", c20WfErr("compile: call of a deferred input")
	}
	clear := ""
	if len(rs.Body.List) == 2 {
		if c20Txt(rs.Body.List[1]) != "n.addInputs=nil" {
			return "", c20WfErr("compile: after the loop over n.addInputs")
		}
		clear = "        let w := inputs_clear n w in\n"
	}
	return "match wfor_each (fun (w : wstate) (n : string) =>\n" +
		"      match wfor_each (fun (w : wstate) (addInput : winput) =>\n" +
		"          let '(w, err) := call_closure closure n w addInput in\n" +
		"          if is_some err then (w, err) else (w, None)) (pending_of n w) w with\n" +
		"      | (w, Some e) => (w, Some e)\n" +
		"      | (w, None) =>\n" + clear +
		"        (w, None)\n" +
		"      end) (ord ++ map fst (w_nodes w)) w with\n", nil
}

// the static values: the statements under `if len(n.staticValues) > 0`
func (t *c20Wf) staticBody(l []ast.Stmt, ind string) (string, error) {
	if len(l) == 0 {
		return "(w, None)", nil
	}
	rest := func() (string, error) { return t.staticBody(l[1:], ind) }
	skip := func(what string) (string, error) {
		t.note("compile: %s", what)
		return rest()
	}
	txt := c20Txt(l[0])
	switch x := l[0].(type) {
	case *ast.IfStmt:
		// if wf.g.compiled { return nil, ErrX }
		if x.Init == nil && x.Else == nil && c20Txt(x.Cond) == "wf.g.compiled" && len(x.Body.List) == 1 {
			if ret, ok := x.Body.List[0].(*ast.ReturnStmt); ok && len(ret.Results) == 2 && c20IsNil(ret.Results[0]) {
				cls, err := t.errClass(ret.Results[1])
				if err != nil {
					return "", err
				}
				r, err := rest()
				return "if g_compiled (w_g w) then (w, Some " + cls + ")\n" + ind + "else " + r, err
			}
		}
		if call, ok := c20IfErrCall(x, 2); ok && c20Txt(call) == "n.checkAndAddMappedPath(paths)" {
			r, err := rest()
			return "let '(w, err) := check_static_paths n w in\n" + ind + "if is_some err then (w, err)\n" + ind + "else " + r, err
		}
		// if err := validateStaticValues(…); err != nil { return nil, fmt.Errorf("node[%s]: %w", …) }
		if x.Init != nil && x.Else == nil && strings.HasPrefix(c20Txt(x.Init), "err:=validateStaticValues(") && c20Txt(x.Cond) == "err!=nil" && !c20AssignsOutside(x.Body) {
			return skip("validateStaticValues(…): the type check of the static values (property C15)")
		}
		// if _, ok := wf.g.handlerPreNode[n.key]; !ok { … = []handlerPair{pair} } else { … = append([]handlerPair{pair}, …...) }
		if x.Init != nil && c20Txt(x.Init) == "_,ok:=wf.g.handlerPreNode[n.key]" && c20Txt(x.Cond) == "!ok" && len(x.Body.List) == 1 {
			if eb, ok := x.Else.(*ast.BlockStmt); ok && len(eb.List) == 1 &&
				c20Txt(x.Body.List[0]) == "wf.g.handlerPreNode[n.key]=[]handlerPair{…}" && c20LitElems(x.Body.List[0]) == "pair" &&
				c20Txt(eb.List[0]) == "wf.g.handlerPreNode[n.key]=append([]handlerPair{…},wf.g.handlerPreNode[n.key]...)" && c20LitElems(eb.List[0]) == "pair" {
				r, err := rest()
				return "let w := prenode_push_front n w in\n" + ind + r, err
			}
		}
		// if staticOnly { if helper := wf.g.getNodeGenericHelper(n.key); helper != nil { … append(…, helper.inputFieldMappingConverter) } }
		if x.Init == nil && x.Else == nil && c20Txt(x.Cond) == "staticOnly" && len(x.Body.List) == 1 {
			if in, ok := x.Body.List[0].(*ast.IfStmt); ok && in.Init != nil && in.Else == nil && len(in.Body.List) == 1 &&
				c20Txt(in.Init) == "helper:=wf.g.getNodeGenericHelper(n.key)" && c20Txt(in.Cond) == "helper!=nil" &&
				c20Txt(in.Body.List[0]) == "wf.g.handlerPreNode[n.key]=append(wf.g.handlerPreNode[n.key],helper.inputFieldMappingConverter)" {
				r, err := rest()
				return "let w := (if staticOnly then (if helper_known n w then prenode_push_back n w else w) else w) in\n" + ind + r, err
			}
		}
	case *ast.AssignStmt:
		switch {
		case txt == "staticOnly:=len(wf.g.fieldMappingRecords[n.key])==0":
			r, err := rest()
			return "let staticOnly := no_mapping_recorded n w in\n" + ind + r, err
		case txt == "n.staticValues=make(map[string]any)":
			r, err := rest()
			return "let w := statics_consume n w in\n" + ind + r, err
		case x.Tok == token.DEFINE && len(x.Lhs) == 1 && (c20Txt(x.Lhs[0]) == "value" || c20Txt(x.Lhs[0]) == "pair"):
			return skip(c20Txt(x.Lhs[0]) + " := …: the value map / the handler made of it")
		}
	case *ast.DeclStmt:
		if c20Squash(c20NodeText(x)) == "varpaths[]FieldPath" {
			return rest()
		}
	case *ast.RangeStmt:
		// for path, v := range n.staticValues { value[path] = v; paths = append(paths, splitFieldPath(path)) }
		if c20Txt(x.X) == "n.staticValues" && !c20AssignsOutside(x.Body) {
			return skip("paths = the paths of n.staticValues")
		}
	}
	return "", c20WfErr("compile: statement %s under the static values not recognised", c20Brief(l[0]))
}

// the elements of the first composite literal in the statement, comma separated
func c20LitElems(s ast.Stmt) string {
	out, found := "", false
	ast.Inspect(s, func(n ast.Node) bool {
		if cl, ok := n.(*ast.CompositeLit); ok && !found {
			found = true
			var el []string
			for _, e := range cl.Elts {
				el = append(el, c20Txt(e))
			}
			out = strings.Join(el, ",")
		}
		return !found
	})
	return out
}

// does the block assign to anything but plain locals (value, paths) or call a method of wf / n?
func c20AssignsOutside(n ast.Node) bool {
	bad := false
	ast.Inspect(n, func(m ast.Node) bool {
		switch x := m.(type) {
		case *ast.FuncLit:
			return false
		case *ast.AssignStmt:
			for _, l := range x.Lhs {
				base, _ := c20Root(l)
				if base == "wf" || base == "n" || base == "" {
					bad = true
				}
			}
		case *ast.CallExpr:
			if sel, ok := x.Fun.(*ast.SelectorExpr); ok {
				if base, _ := c20Root(sel.X); base == "wf" || base == "n" {
					bad = true
				}
			}
		}
		return !bad
	})
	return bad
}

func (t *c20Wf) staticLoop(rs *ast.RangeStmt) (string, error) {
	if c20Txt(rs.X) != "wf.workflowNodes" || rs.Value == nil || c20Txt(rs.Value) != "n" || len(rs.Body.List) != 1 {
		return "", c20WfErr("compile: loop over the static values")
	}
	is, ok := rs.Body.List[0].(*ast.IfStmt)
	if !ok || is.Init != nil || is.Else != nil || c20Txt(is.Cond) != "len(n.staticValues)>0" {
		return "", c20WfErr("compile: test for static values")
	}
	body, err := t.staticBody(is.Body.List, "        ")
	if err != nil {
		return "", err
	}
	return "match wfor_each (fun (w : wstate) (n : string) =>\n" +
		"      if has_statics n w then\n        " + body + "\n" +
		"      else (w, None)) (sord ++ map fst (w_nodes w)) w with\n", nil
}

func (t *c20Wf) compile(f *ast.File, b *strings.Builder) error {
	fn := c20WfMethod(f, "Workflow", "compile")
	if fn == nil || c20ParamNames(fn) != "ctx,options" || len(fn.Recv.List[0].Names) != 1 || fn.Recv.List[0].Names[0].Name != "wf" {
		return c20WfErr("method (*Workflow).compile(ctx, options) not found")
	}
	l := fn.Body.List
	if len(l) != 5 {
		return c20WfErr("compile: %d top-level statements, the translator knows 5 (build error, branches, inputs, static values, graph.compile)", len(l))
	}
	// if wf.g.buildError != nil { return nil, wf.g.buildError }
	is, ok := l[0].(*ast.IfStmt)
	if !ok || is.Init != nil || is.Else != nil || c20Txt(is.Cond) != "wf.g.buildError!=nil" || len(is.Body.List) != 1 ||
		!c20RetNilAnd(is.Body.List[0], "wf.g.buildError") {
		return c20WfErr("compile: the build error is not returned first")
	}
	var phases []string
	for i, mk := range []func(*ast.RangeStmt) (string, error){t.branchLoop, t.inputLoop, t.staticLoop} {
		rs, ok := l[i+1].(*ast.RangeStmt)
		if !ok {
			return c20WfErr("compile: statement %d is not a loop", i+1)
		}
		p, err := mk(rs)
		if err != nil {
			return err
		}
		phases = append(phases, p)
	}
	ret, ok := l[4].(*ast.ReturnStmt)
	if !ok || len(ret.Results) != 1 || c20Txt(ret.Results[0]) != "wf.g.compile(ctx,options)" {
		return c20WfErr("compile: does not end with graph.compile")
	}
	b.WriteString("Definition compile (closure : gstate -> string -> mapped -> winput -> gstate * mapped * option ecls)\n")
	b.WriteString("    (w : wstate) (opt : copt) (ord sord : list string) : wstate * outcome :=\n")
	b.WriteString("  if is_some (g_err (w_g w)) then (w, oerr (g_err (w_g w)))\n  else\n")
	for _, p := range phases {
		b.WriteString("  " + p + "  | (w, Some e) => (w, OErr e)\n  | (w, None) =>\n")
	}
	b.WriteString("  w_graph_compile w opt\n  end end end.\n")
	return nil
}

// the calls that only declare: Add<Component>Node, End, AddBranch, AddEnd, SetStaticValue, initNode
func (t *c20Wf) front(f *ast.File, b *strings.Builder) error {
	body := func(recv, name string, n int) ([]ast.Stmt, error) {
		fn := c20WfMethod(f, recv, name)
		if fn == nil || len(fn.Body.List) != n {
			return nil, c20WfErr("%s.%s: not found with %d statements", recv, name, n)
		}
		return fn.Body.List, nil
	}
	// initNode
	l, err := body("Workflow", "initNode", 3)
	if err != nil {
		return err
	}
	as, ok := l[0].(*ast.AssignStmt)
	if !ok || as.Tok != token.DEFINE || c20Txt(as.Lhs[0]) != "n" {
		return c20WfErr("initNode: first statement")
	}
	cl := c20AddrLit(as.Rhs[0], "WorkflowNode")
	if cl == nil {
		return c20WfErr("initNode: the node literal")
	}
	kv := c20KeyValues(cl)
	if c20Txt(kv["key"]) != "key" || c20Txt(kv["g"]) != "wf.g" || !strings.HasPrefix(c20Txt(kv["staticValues"]), "make(map[string]any") ||
		!strings.HasPrefix(c20Txt(kv["mappedFieldPath"]), "make(map[string]any") || kv["addInputs"] != nil || len(kv) != len(cl.Elts) {
		return c20WfErr("initNode: the fields of a fresh WorkflowNode")
	}
	if c20Txt(l[1]) != "wf.workflowNodes[key]=n" || c20Txt(l[2].(*ast.ReturnStmt).Results[0]) != "n" {
		return c20WfErr("initNode: registration of the node")
	}
	b.WriteString("\n(* initNode: a fresh WorkflowNode is registered under the key *)\n")
	b.WriteString("Definition initNode (key : string) (w : wstate) : wstate := wn_put key (mkWN [] MNone []) w.\n")
	// End
	endFn := c20WfMethod(f, "Workflow", "End")
	if endFn == nil {
		return c20WfErr("Workflow.End not found")
	}
	l = endFn.Body.List
	if r, ok := l[len(l)-1].(*ast.ReturnStmt); !ok || len(r.Results) != 1 || c20Txt(r.Results[0]) != "wf.initNode(END)" {
		return c20WfErr("End: creation of the END node")
	}
	switch len(l) {
	case 1:
		// the registered END node is not looked up: a fresh one every time
		b.WriteString("Definition front_End (w : wstate) : wstate := initNode END_ w.\n")
	case 2:
		is, ok := l[0].(*ast.IfStmt)
		if !ok || is.Init == nil || c20Txt(is.Init) != "node,ok:=wf.workflowNodes[END]" || c20Txt(is.Cond) != "ok" || is.Else != nil ||
			len(is.Body.List) != 1 || !c20RetIs(is.Body.List[0], "node") {
			return c20WfErr("End: lookup of the registered END node")
		}
		b.WriteString("Definition front_End (w : wstate) : wstate := if wn_has END_ w then w else initNode END_ w.\n")
	default:
		return c20WfErr("End: %d statements", len(l))
	}
	// Add<Component>Node
	n := 0
	for _, d := range f.Decls {
		fn, ok := d.(*ast.FuncDecl)
		if !ok || fn.Recv == nil || fn.Body == nil || !strings.HasPrefix(fn.Name.Name, "Add") || !strings.HasSuffix(fn.Name.Name, "Node") {
			continue
		}
		if c20WfMethod(f, "Workflow", fn.Name.Name) != fn {
			continue
		}
		if len(fn.Body.List) != 2 {
			return c20WfErr("%s: %d statements", fn.Name.Name, len(fn.Body.List))
		}
		as, ok := fn.Body.List[0].(*ast.AssignStmt)
		if !ok || as.Tok != token.ASSIGN || len(as.Lhs) != 1 || c20Txt(as.Lhs[0]) != "_" {
			return c20WfErr("%s: the graph's error is not dropped", fn.Name.Name)
		}
		call, ok := as.Rhs[0].(*ast.CallExpr)
		if !ok || c20Txt(call.Fun) != "wf.g."+fn.Name.Name || len(call.Args) < 2 || c20Txt(call.Args[0]) != "key" || !call.Ellipsis.IsValid() {
			return c20WfErr("%s: does not hand the node to the graph under its key", fn.Name.Name)
		}
		if r, ok := fn.Body.List[1].(*ast.ReturnStmt); !ok || len(r.Results) != 1 || c20Txt(r.Results[0]) != "wf.initNode(key)" {
			return c20WfErr("%s: does not create the WorkflowNode", fn.Name.Name)
		}
		n++
	}
	if n < 2 {
		return c20WfErr("Add<Component>Node methods not found")
	}
	fmt.Fprintf(b, "(* the %d Add<Component>Node methods: _ = wf.g.Add<Component>Node(key, …); return wf.initNode(key) *)\n", n)
	b.WriteString("Definition front_AddNode (w : wstate) (key : string) (nk : nkind) (needState : bool) : wstate :=\n  let w := w_graph_addNode key nk needState w in\n  initNode key w.\n")
	// AddBranch
	if l, err = body("Workflow", "AddBranch", 3); err != nil {
		return err
	}
	as, ok = l[0].(*ast.AssignStmt)
	if !ok || as.Tok != token.DEFINE || c20Txt(as.Lhs[0]) != "wb" {
		return c20WfErr("AddBranch: first statement")
	}
	wbl := c20AddrLit(as.Rhs[0], "WorkflowBranch")
	if wbl == nil || c20Txt(c20KeyValues(wbl)["fromNodeKey"]) != "fromNodeKey" || c20Txt(c20KeyValues(wbl)["GraphBranch"]) != "branch" {
		return c20WfErr("AddBranch: the WorkflowBranch literal")
	}
	if c20Txt(l[1]) != "wf.workflowBranches=append(wf.workflowBranches,wb)" {
		return c20WfErr("AddBranch: the branch is not recorded at the end of wf.workflowBranches")
	}
	b.WriteString("Definition front_AddBranch (w : wstate) (fromNodeKey : string) (endNodes : list string) : wstate :=\n  w_branches_append fromNodeKey endNodes w.\n")
	// addDependencyRelation: every arm appends its closure (checked by closures())
	b.WriteString("(* addDependencyRelation: n.addInputs = append(n.addInputs, <the closure of the options>) *)\n")
	b.WriteString("Definition front_addDependencyRelation (key : string) (w : wstate) (fromNodeKey : string) (inputs : list string) (options : bool * bool) : wstate :=\n" +
		"  inputs_append key (mkWI fromNodeKey (kind_of_options options) inputs) w.\n")
	// AddEnd: wf.End().AddInput(fromNodeKey, inputs...); return wf
	if l, err = body("Workflow", "AddEnd", 2); err != nil {
		return err
	}
	es, ok := l[0].(*ast.ExprStmt)
	var endOpts, endInputs string
	if ok {
		switch c20Txt(es.X) {
		case "wf.End().AddInput(fromNodeKey,inputs...)":
			endOpts, endInputs = "options_AddInput", "inputs"
		case "wf.End().AddDependency(fromNodeKey)":
			endOpts, endInputs = "options_AddDependency", "[]"
		}
	}
	if endOpts == "" {
		return c20WfErr("AddEnd is not a declaration on End()")
	}
	b.WriteString("Definition front_AddEnd (w : wstate) (fromNodeKey : string) (inputs : list string) : wstate :=\n  let w := front_End w in\n" +
		"  front_addDependencyRelation END_ w fromNodeKey " + endInputs + " " + endOpts + ".\n")
	// SetStaticValue: n.staticValues[path.join()] = value; return n
	if l, err = body("WorkflowNode", "SetStaticValue", 2); err != nil {
		return err
	}
	if c20Txt(l[0]) != "n.staticValues[path.join()]=value" {
		return c20WfErr("SetStaticValue: the value is not recorded under its path")
	}
	b.WriteString("Definition front_SetStaticValue (key : string) (w : wstate) (path : string) : wstate :=\n  statics_put key path w.\n")
	return nil
}

func c20ExtractWorkflow(repo string) (string, string, error) {
	fset := token.NewFileSet()
	f, err := c20ParseGo(fset, repo, "compose", "workflow.go")
	if err != nil {
		return "", "", err
	}
	g, err := c20ParseGo(fset, repo, "compose", "graph.go")
	if err != nil {
		return "", "", err
	}
	t := &c20Wf{errVars: map[string]string{}}
	for _, file := range []*ast.File{f, g} {
		for _, d := range file.Decls {
			gd, ok := d.(*ast.GenDecl)
			if !ok || gd.Tok != token.VAR {
				continue
			}
			for _, sp := range gd.Specs {
				vs := sp.(*ast.ValueSpec)
				for i, n := range vs.Names {
					if i < len(vs.Values) {
						if txt, ok := c20ErrText(vs.Values[i]); ok {
							t.errVars[n.Name] = c20Classify(txt)
						}
					}
				}
			}
		}
	}
	var body strings.Builder
	if err := t.closures(f, &body); err != nil {
		return "", "", err
	}
	if err := t.compile(f, &body); err != nil {
		return "", "", err
	}
	if err := t.front(f, &body); err != nil {
		return "", "", err
	}
	var b strings.Builder
	b.WriteString("(* Gen/C20Workflow.v — GENERATED by tools/go2v (extractor \"c20workflow\") from compose/workflow.go\n")
	b.WriteString("   (WorkflowNode.addDependencyRelation, AddInput, AddDependency, WithNoDirectDependency, Workflow.compile).\n   Do not edit. *)\n")
	b.WriteString("From Eino Require Import Base.Util Model.Builder Model.BuilderGenLib Model.BuilderWfGenLib.\n")
	b.WriteString("Local Open Scope string_scope.\nLocal Open Scope list_scope.\n\n")
	b.WriteString("Definition tie_available : bool := true.\n\n")
	if len(t.notes) > 0 {
		b.WriteString("(* outside the model, not translated:\n")
		seen := map[string]bool{}
		for _, n := range t.notes {
			if !seen[n] {
				seen[n] = true
				b.WriteString("     " + strings.ReplaceAll(n, "*)", "* )") + "\n")
			}
		}
		b.WriteString("*)\n")
	}
	b.WriteString(body.String())
	return "C20Workflow.v", b.String(), nil
}
