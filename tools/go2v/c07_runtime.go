package main

// Extractor "c07_runtime" (property C07) -> Gen/RuntimeCode.v: the run-time checks of a compiled graph,
// translated statement by statement over the vocabulary of Model/TypeBuilderGenLib.v:
//
//   compose/generic_helper.go  defaultValueChecker[T]                 (the converter installed on a may-assignable
//                              connection: assertType, an ordinary error when it fails, the SAME value when it holds)
//   compose/graph_manager.go   edgeHandlerManager.handle, preBranchHandlerManager.handle, preNodeHandlerManager.handle
//                              (no handlers registered: the value passes; value mode: the handlers one after the
//                              other, the first error ends the run; the stream branch is the constructor RStream)
//   compose/runnable.go        the invoke wrapper of toComposableRunnable (entry assertion of every node and state
//                              handler: assertType[I], panic when it fails, the asserted value goes to the user code)
//   compose/branch.go          the invoke wrapper of newGraphBranch (entry assertion of a branch condition)
//
// Fragment: `x, ok := assertType[T](v)`; `if !ok { return nil, <error> }` / `if !ok { panic(…) }`; `var t T`;
// `if _, ok := m[k]; !ok { return value, nil }`; `if isStream { … } else { … }`; the loop
// `for _, v := range L { [var err error]; value, err = v.invoke(value); if err != nil { return nil, err } }`
// (vocabulary [run_handlers]); `return value, nil`; a final `return <call>(…, x, …)` that hands the asserted value on.
// Anything else: source shape not recognised (the reference translation is written, no alarm).

import (
	"fmt"
	"go/ast"
	"go/token"
	"go/types"
	"strings"
)

func init() {
	register("c07_runtime", c07ExtractRuntime)
	registerFallback("c07_runtime", "RuntimeCode.v", c07Unavailable("RuntimeCode.v", "c07_runtime", "compose/generic_helper.go (defaultValueChecker), graph_manager.go (handler managers), runnable.go, branch.go (entry assertions)")+c07RefRuntime)
}

// `x, ok := assertType[T](v)` -> x, ok, T, v
func c07AssertStmt(s ast.Stmt) (val, ok, tparam, arg string, is bool) {
	as, isAs := s.(*ast.AssignStmt)
	if !isAs || as.Tok != token.DEFINE || len(as.Lhs) != 2 || len(as.Rhs) != 1 {
		return
	}
	call, isCall := as.Rhs[0].(*ast.CallExpr)
	if !isCall || len(call.Args) != 1 {
		return
	}
	ix, isIx := call.Fun.(*ast.IndexExpr)
	if !isIx || c07sq(ix.X) != "assertType" {
		return
	}
	return c07sq(as.Lhs[0]), c07sq(as.Lhs[1]), c07sq(ix.Index), c07sq(call.Args[0]), true
}

// an "assert, then fail or hand on" function body, translated statement by statement:
//
//	x, ok := assertType[T](v)            let ok := asrt v T
//	[var t T]                            (skipped)
//	if C { … }                           C built with && || ! ( ) from ok, v == nil, v != nil
//	return nil, <new error>              EErr
//	panic(…)                             EPanic
//	return x, nil / return v, nil        EVal v     (the asserted value is the same dynamic value)
//	return f(…, x, …)                    EVal v     (handed to the user's function)
//	statements that mention neither x nor v (option conversion and its error return) are skipped
type c07EntryTr struct{ what, val, ok, arg string }

func (t *c07EntryTr) cond(e ast.Expr) (string, error) {
	switch x := e.(type) {
	case *ast.ParenExpr:
		return t.cond(x.X)
	case *ast.Ident:
		if x.Name == t.ok {
			return "ok", nil
		}
	case *ast.UnaryExpr:
		if x.Op == token.NOT {
			s, err := t.cond(x.X)
			return "(negb " + s + ")", err
		}
	case *ast.BinaryExpr:
		switch x.Op {
		case token.LAND, token.LOR:
			l, err := t.cond(x.X)
			if err != nil {
				return "", err
			}
			r, err := t.cond(x.Y)
			if err != nil {
				return "", err
			}
			op := "&&"
			if x.Op == token.LOR {
				op = "||"
			}
			return "(" + l + " " + op + " " + r + ")", nil
		case token.EQL, token.NEQ:
			if (c07sq(x.X) == t.arg && c07IsNil(x.Y)) || (c07sq(x.Y) == t.arg && c07IsNil(x.X)) {
				if x.Op == token.NEQ {
					return "(negb (dyn_is_nil v))", nil
				}
				return "(dyn_is_nil v)", nil
			}
		}
	}
	return "", fmt.Errorf("%s: condition %s is outside the translated fragment", t.what, types.ExprString(e))
}

func (t *c07EntryTr) mentions(n ast.Node) bool {
	found := false
	ast.Inspect(n, func(m ast.Node) bool {
		if id, ok := m.(*ast.Ident); ok && (id.Name == t.val || id.Name == t.arg || id.Name == t.ok) {
			found = true
		}
		return !found
	})
	return found
}

func (t *c07EntryTr) stmts(l []ast.Stmt, ind string) (string, error) {
	if len(l) == 0 {
		return "", fmt.Errorf("%s: control reaches the end without a return", t.what)
	}
	switch x := l[0].(type) {
	case *ast.DeclStmt:
		if !t.mentions(x) {
			return t.stmts(l[1:], ind)
		}
	case *ast.ExprStmt:
		if c, ok := x.X.(*ast.CallExpr); ok && c07sq(c.Fun) == "panic" {
			return "EPanic", nil
		}
	case *ast.ReturnStmt:
		switch len(x.Results) {
		case 2:
			if c07IsNil(x.Results[0]) {
				if c, ok := x.Results[1].(*ast.CallExpr); ok && (c07sq(c.Fun) == "fmt.Errorf" || c07sq(c.Fun) == "errors.New") {
					return "EErr", nil
				}
			}
			if r := c07sq(x.Results[0]); (r == t.val || r == t.arg) && c07IsNil(x.Results[1]) {
				return "EVal v", nil
			}
		case 1:
			if call, ok := x.Results[0].(*ast.CallExpr); ok {
				n := 0
				for _, a := range call.Args {
					if r := c07sq(a); r == t.val || r == t.arg {
						n++
					}
				}
				if n == 1 {
					return "EVal v", nil
				}
			}
		}
		return "", fmt.Errorf("%s: return %s not recognised", t.what, c07Squash(c07ExprList(x.Results)))
	case *ast.IfStmt:
		if !t.mentions(x) && x.Else == nil {
			return t.stmts(l[1:], ind) // option handling: outside the model
		}
		if x.Init != nil {
			return "", fmt.Errorf("%s: if with an init statement", t.what)
		}
		c, err := t.cond(x.Cond)
		if err != nil {
			return "", err
		}
		th, err := t.stmts(append(append([]ast.Stmt{}, x.Body.List...), l[1:]...), ind+"  ")
		if err != nil {
			return "", err
		}
		var el string
		switch e := x.Else.(type) {
		case nil:
			el, err = t.stmts(l[1:], ind+"  ")
		case *ast.BlockStmt:
			el, err = t.stmts(append(append([]ast.Stmt{}, e.List...), l[1:]...), ind+"  ")
		case *ast.IfStmt:
			el, err = t.stmts(append([]ast.Stmt{e}, l[1:]...), ind+"  ")
		}
		if err != nil {
			return "", err
		}
		return "if " + c + " then\n" + ind + "  " + th + "\n" + ind + "else\n" + ind + "  " + el, nil
	case *ast.AssignStmt:
		if !t.mentions(x) {
			return t.stmts(l[1:], ind)
		}
	}
	return "", fmt.Errorf("%s: statement outside the translated fragment: %T", t.what, l[0])
}

func c07AssertThenUse(what string, l []ast.Stmt, tparam, arg string) (string, error) {
	if len(l) < 2 {
		return "", fmt.Errorf("%s: body too short", what)
	}
	val, ok, tp, av, is := c07AssertStmt(l[0])
	if !is || tp != tparam || av != arg || val == "_" || ok == "_" {
		return "", fmt.Errorf("%s: first statement is not `x, ok := assertType[%s](%s)`", what, tparam, arg)
	}
	t := &c07EntryTr{what: what, val: val, ok: ok, arg: arg}
	body, err := t.stmts(l[1:], "  ")
	if err != nil {
		return "", err
	}
	return "let ok := asrt v T in\n  " + body, nil
}

// a function literal assigned / bound to name inside fn: `name := func(…) … { … }` or a composite
// literal field `name: func(…) … { … }`
func c07FuncLit(fn *ast.FuncDecl, name string) *ast.FuncLit {
	var out *ast.FuncLit
	ast.Inspect(fn.Body, func(n ast.Node) bool {
		switch x := n.(type) {
		case *ast.AssignStmt:
			if len(x.Lhs) == 1 && len(x.Rhs) == 1 && c07sq(x.Lhs[0]) == name {
				if fl, ok := x.Rhs[0].(*ast.FuncLit); ok && out == nil {
					out = fl
				}
			}
		case *ast.KeyValueExpr:
			if c07sq(x.Key) == name {
				if fl, ok := x.Value.(*ast.FuncLit); ok && out == nil {
					out = fl
				}
			}
		}
		return out == nil
	})
	return out
}

// (m *T).handle of a handler manager, translated statement by statement:
//
//	if _, ok := <lookup i>; !ok { … }      if (negb has_i) then …
//	if C { … } [else { … }]                  C built with && || ! ( ) from isStream, value == nil, value != nil
//	for _, v := range <list> { [var err error]; value, err = v.invoke(value); if err != nil { return nil, err } }
//	                                         match run_handlers invoke hs value with None => RStop | Some value => … end
//	for _, v := range <list> { value = v.transform(value.(streamReader)) }     RStream (outside the value model)
//	return value, nil                        RPass value
//	return nil, <error>                      RStop
//	return h(<list>, value, isStream)        a private function h(hs, value, isStream) of the same file that holds
//	                                         the loops (the tail of the three methods extracted into one helper): inlined
type c07HandleTr struct {
	what    string
	lookups map[string]int
	list    string
	file    *ast.File
	depth   int
}

// return h(<list>, value, isStream): the body of h with its first parameter standing for <list>
func (t *c07HandleTr) inlineTail(call *ast.CallExpr, ind string) (string, error) {
	id, ok := call.Fun.(*ast.Ident)
	if !ok || t.file == nil || t.depth >= 2 {
		return "", fmt.Errorf("%s: return %s not recognised", t.what, c07Squash(c07sq(call)))
	}
	fn := c07TopFunc(t.file, id.Name)
	if fn == nil || fn.Body == nil || (fn.Type.TypeParams != nil && len(fn.Type.TypeParams.List) > 0) {
		return "", fmt.Errorf("%s: return %s(…): no such function in the file", t.what, id.Name)
	}
	var ps []string
	for _, fl := range fn.Type.Params.List {
		for _, n := range fl.Names {
			ps = append(ps, n.Name)
		}
	}
	if len(ps) != 3 || len(call.Args) != 3 || ps[1] != "value" || ps[2] != "isStream" || ps[0] == "value" || ps[0] == "isStream" ||
		c07sq(call.Args[0]) != t.list || c07sq(call.Args[1]) != "value" || c07sq(call.Args[2]) != "isStream" {
		return "", fmt.Errorf("%s: return %s(…) is not a call h(%s, value, isStream) of a function h(hs, value, isStream)", t.what, id.Name, t.list)
	}
	var rs []string
	if fn.Type.Results != nil {
		for _, fl := range fn.Type.Results.List {
			if len(fl.Names) > 0 {
				rs = append(rs, "named")
			}
			rs = append(rs, c07sq(fl.Type))
		}
	}
	if r := strings.Join(rs, ","); r != "any,error" && r != "interface{},error" {
		return "", fmt.Errorf("%s: %s does not return (any, error)", t.what, id.Name)
	}
	sub := &c07HandleTr{what: t.what + " > " + id.Name, lookups: map[string]int{}, list: ps[0], file: t.file, depth: t.depth + 1}
	return sub.stmts(fn.Body.List, ind)
}

func (t *c07HandleTr) cond(e ast.Expr) (string, error) {
	switch x := e.(type) {
	case *ast.ParenExpr:
		return t.cond(x.X)
	case *ast.Ident:
		if x.Name == "isStream" {
			return "isStream", nil
		}
	case *ast.UnaryExpr:
		if x.Op == token.NOT {
			s, err := t.cond(x.X)
			return "(negb " + s + ")", err
		}
	case *ast.BinaryExpr:
		switch x.Op {
		case token.LAND, token.LOR:
			l, err := t.cond(x.X)
			if err != nil {
				return "", err
			}
			r, err := t.cond(x.Y)
			if err != nil {
				return "", err
			}
			op := "&&"
			if x.Op == token.LOR {
				op = "||"
			}
			return "(" + l + " " + op + " " + r + ")", nil
		case token.EQL, token.NEQ:
			if (c07sq(x.X) == "value" && c07IsNil(x.Y)) || (c07sq(x.Y) == "value" && c07IsNil(x.X)) {
				if x.Op == token.NEQ {
					return "(negb (dyn_is_nil value))", nil
				}
				return "(dyn_is_nil value)", nil
			}
		}
	}
	return "", fmt.Errorf("%s: condition %s is outside the translated fragment", t.what, types.ExprString(e))
}

func (t *c07HandleTr) stmts(l []ast.Stmt, ind string) (string, error) {
	if len(l) == 0 {
		return "", fmt.Errorf("%s: control reaches the end without a return", t.what)
	}
	rest := l[1:]
	switch x := l[0].(type) {
	case *ast.ReturnStmt:
		switch c07ExprList(x.Results) {
		case "value,nil":
			return "RPass value", nil
		case "nil,err":
			return "RStop", nil
		}
		if len(x.Results) == 2 && c07IsNil(x.Results[0]) {
			if c, ok := x.Results[1].(*ast.CallExpr); ok && (c07sq(c.Fun) == "fmt.Errorf" || c07sq(c.Fun) == "errors.New") {
				return "RStop", nil
			}
		}
		if len(x.Results) == 1 {
			if call, ok := x.Results[0].(*ast.CallExpr); ok {
				return t.inlineTail(call, ind)
			}
		}
		return "", fmt.Errorf("%s: return %s not recognised", t.what, c07Squash(c07ExprList(x.Results)))
	case *ast.RangeStmt:
		if x.Tok != token.DEFINE || x.Value == nil || (x.Key != nil && c07sq(x.Key) != "_") || c07sq(x.X) != t.list {
			return "", fmt.Errorf("%s: loop does not range over %s", t.what, t.list)
		}
		hv := c07sq(x.Value)
		bl := x.Body.List
		// stream form
		if len(bl) == 1 {
			if as, ok := bl[0].(*ast.AssignStmt); ok && c07ExprList(as.Lhs) == "value" && len(as.Rhs) == 1 && c07sq(as.Rhs[0]) == hv+".transform(value.(streamReader))" {
				return "RStream", nil
			}
		}
		if len(bl) > 0 {
			if d, ok := bl[0].(*ast.DeclStmt); ok && strings.Contains(c07Squash(c07DeclString(d)), "errerror") {
				bl = bl[1:]
			}
		}
		// if value, err = v.invoke(value); err != nil { … }  is the assignment followed by the test
		if len(bl) == 1 {
			if ie, ok := bl[0].(*ast.IfStmt); ok && ie.Init != nil && ie.Else == nil {
				if as, ok := ie.Init.(*ast.AssignStmt); ok && as.Tok == token.ASSIGN {
					bl = []ast.Stmt{as, &ast.IfStmt{If: ie.If, Cond: ie.Cond, Body: ie.Body}}
				}
			}
		}
		if len(bl) != 2 {
			return "", fmt.Errorf("%s: the loop body is not `value, err = v.invoke(value); if err != nil { return nil, err }`", t.what)
		}
		as, ok := bl[0].(*ast.AssignStmt)
		if !ok || c07ExprList(as.Lhs) != "value,err" || len(as.Rhs) != 1 || c07sq(as.Rhs[0]) != hv+".invoke(value)" {
			return "", fmt.Errorf("%s: the loop body does not apply %s.invoke to value", t.what, hv)
		}
		ie, ok := bl[1].(*ast.IfStmt)
		if !ok || ie.Init != nil || ie.Else != nil || c07sq(ie.Cond) != "err!=nil" || len(ie.Body.List) != 1 {
			return "", fmt.Errorf("%s: the loop body does not stop at the first error", t.what)
		}
		if r, ok := ie.Body.List[0].(*ast.ReturnStmt); !ok || c07ExprList(r.Results) != "nil,err" {
			return "", fmt.Errorf("%s: the loop body does not return nil, err", t.what)
		}
		r, err := t.stmts(rest, ind+"  ")
		if err != nil {
			return "", err
		}
		return "match run_handlers invoke hs value with\n" + ind + "| None => RStop\n" + ind + "| Some value =>\n" + ind + "  " + r + "\n" + ind + "end", nil
	case *ast.IfStmt:
		var c string
		if x.Init != nil {
			as, ok := x.Init.(*ast.AssignStmt)
			if !ok || as.Tok != token.DEFINE || c07ExprList(as.Lhs) != "_,ok" || len(as.Rhs) != 1 {
				return "", fmt.Errorf("%s: if with an init statement that is not a lookup", t.what)
			}
			i, known := t.lookups[c07sq(as.Rhs[0])]
			if !known {
				return "", fmt.Errorf("%s: lookup of %s", t.what, c07sq(as.Rhs[0]))
			}
			switch c07sq(x.Cond) {
			case "!ok":
				c = fmt.Sprintf("(negb has%d)", i)
			case "ok":
				c = fmt.Sprintf("has%d", i)
			default:
				return "", fmt.Errorf("%s: lookup condition %s", t.what, c07sq(x.Cond))
			}
		} else {
			var err error
			if c, err = t.cond(x.Cond); err != nil {
				return "", err
			}
		}
		th, err := t.stmts(append(append([]ast.Stmt{}, x.Body.List...), rest...), ind+"  ")
		if err != nil {
			return "", err
		}
		var el string
		switch e := x.Else.(type) {
		case nil:
			el, err = t.stmts(rest, ind+"  ")
		case *ast.BlockStmt:
			el, err = t.stmts(append(append([]ast.Stmt{}, e.List...), rest...), ind+"  ")
		case *ast.IfStmt:
			el, err = t.stmts(append([]ast.Stmt{e}, rest...), ind+"  ")
		}
		if err != nil {
			return "", err
		}
		return "if " + c + " then\n" + ind + "  " + th + "\n" + ind + "else\n" + ind + "  " + el, nil
	}
	return "", fmt.Errorf("%s: statement outside the translated fragment: %T", t.what, l[0])
}

func c07HandleMethod(f *ast.File, typ string, lookups []string, list string) (string, error) {
	fn := c07MethodOf(f, typ, "handle")
	if fn == nil || fn.Body == nil || len(fn.Recv.List[0].Names) != 1 {
		return "", fmt.Errorf("%s.handle: method not found", typ)
	}
	recv := fn.Recv.List[0].Names[0].Name
	sub := func(s string) string { return strings.ReplaceAll(s, "RECV", recv) }
	t := &c07HandleTr{what: typ + ".handle", lookups: map[string]int{}, list: sub(list), file: f}
	for i, lk := range lookups {
		t.lookups[sub(lk)] = i
	}
	return t.stmts(fn.Body.List, "  ")
}

func c07DeclString(d *ast.DeclStmt) string {
	gd, ok := d.Decl.(*ast.GenDecl)
	if !ok {
		return ""
	}
	var s []string
	for _, sp := range gd.Specs {
		if vs, ok := sp.(*ast.ValueSpec); ok {
			for _, n := range vs.Names {
				s = append(s, n.Name)
			}
			if vs.Type != nil {
				s = append(s, types.ExprString(vs.Type))
			}
		}
	}
	return strings.Join(s, " ")
}

func c07ExtractRuntime(repo string) (string, string, error) {
	fset := token.NewFileSet()
	gh, err := c07ParseGo(fset, repo, "compose", "generic_helper.go")
	if err != nil {
		return "", "", err
	}
	gm, err := c07ParseGo(fset, repo, "compose", "graph_manager.go")
	if err != nil {
		return "", "", err
	}
	rn, err := c07ParseGo(fset, repo, "compose", "runnable.go")
	if err != nil {
		return "", "", err
	}
	br, err := c07ParseGo(fset, repo, "compose", "branch.go")
	if err != nil {
		return "", "", err
	}
	var b strings.Builder
	b.WriteString(c07Header("RuntimeCode.v", "c07_runtime", "compose/generic_helper.go (defaultValueChecker), compose/graph_manager.go\n   (edgeHandlerManager / preBranchHandlerManager / preNodeHandlerManager .handle), compose/runnable.go (toComposableRunnable: invoke wrapper),\n   compose/branch.go (newGraphBranch: invoke wrapper)"))
	b.WriteString(c07Imports + "\nDefinition tie_available : bool := true.\n\n")

	// defaultValueChecker[T](v any) (any, error)
	dv := c07TopFunc(gh, "defaultValueChecker")
	if dv == nil || dv.Body == nil || dv.Type.TypeParams == nil || len(dv.Type.TypeParams.List) != 1 || len(dv.Type.Params.List) != 1 || len(dv.Type.Params.List[0].Names) != 1 {
		return "", "", fmt.Errorf("func defaultValueChecker[T](v) not found")
	}
	code, err := c07AssertThenUse("defaultValueChecker", dv.Body.List, dv.Type.TypeParams.List[0].Names[0].Name, dv.Type.Params.List[0].Names[0].Name)
	if err != nil {
		return "", "", err
	}
	b.WriteString("(* EVal v: the value handed on; EErr: the ordinary error \"runtime type check fail\" *)\n")
	b.WriteString("Definition default_value_checker (asrt : dyn -> ty -> bool) (v : dyn) (T : ty) : eres :=\n  " + code + ".\n\n")

	// the handler managers
	for _, m := range []struct {
		typ, def, sig string
		lookups       []string
		list          string
	}{
		{"edgeHandlerManager", "edge_handle", "(has0 has1 : bool)", []string{"RECV.h[from]", "RECV.h[from][to]"}, "RECV.h[from][to]"},
		{"preNodeHandlerManager", "pre_node_handle", "(has0 : bool)", []string{"RECV.h[nodeKey]"}, "RECV.h[nodeKey]"},
		{"preBranchHandlerManager", "pre_branch_handle", "(has0 : bool)", []string{"RECV.h[nodeKey]"}, "RECV.h[nodeKey][idx]"},
	} {
		code, err := c07HandleMethod(gm, m.typ, m.lookups, m.list)
		if err != nil {
			return "", "", err
		}
		b.WriteString("Definition " + m.def + " (invoke : ty -> dyn -> eres) " + m.sig + " (hs : list ty) (value : dyn) (isStream : bool) : rres :=\n  " + code + ".\n\n")
	}

	// toComposableRunnable: i := func(ctx, input any, opts ...any) (output any, err error) { in, ok := assertType[I](input); if !ok { panic } … return rp.Invoke(ctx, in, tos...) }
	tc := c07MethodOf(rn, "runnablePacker", "toComposableRunnable")
	if tc == nil {
		// generic receiver: *runnablePacker[I, O, TOption]
		for _, d := range rn.Decls {
			if fn, ok := d.(*ast.FuncDecl); ok && fn.Recv != nil && fn.Name.Name == "toComposableRunnable" {
				tc = fn
			}
		}
	}
	if tc == nil || tc.Body == nil {
		return "", "", fmt.Errorf("method toComposableRunnable not found")
	}
	il := c07FuncLit(tc, "i")
	if il == nil || len(il.Type.Params.List) < 2 || len(il.Type.Params.List[1].Names) != 1 {
		return "", "", fmt.Errorf("toComposableRunnable: the invoke wrapper i was not found")
	}
	code, err = c07AssertThenUse("toComposableRunnable.i", il.Body.List, "I", il.Type.Params.List[1].Names[0].Name)
	if err != nil {
		return "", "", err
	}
	if ret, ok := il.Body.List[len(il.Body.List)-1].(*ast.ReturnStmt); !ok || len(ret.Results) != 1 || !strings.HasPrefix(c07sq(ret.Results[0]), "rp.Invoke(") {
		return "", "", fmt.Errorf("toComposableRunnable.i does not end in rp.Invoke")
	}
	b.WriteString("(* EVal v: the value the user's function receives; EPanic: panic (unexpected input type) *)\n")
	b.WriteString("Definition runnable_entry (asrt : dyn -> ty -> bool) (v : dyn) (T : ty) : eres :=\n  " + code + ".\n\n")

	nb := c07TopFunc(br, "newGraphBranch")
	if nb == nil || nb.Body == nil {
		return "", "", fmt.Errorf("func newGraphBranch not found")
	}
	bl := c07FuncLit(nb, "invoke")
	if bl == nil || len(bl.Type.Params.List) < 2 || len(bl.Type.Params.List[1].Names) != 1 {
		return "", "", fmt.Errorf("newGraphBranch: the invoke wrapper was not found")
	}
	code, err = c07AssertThenUse("newGraphBranch.invoke", bl.Body.List, "T", bl.Type.Params.List[1].Names[0].Name)
	if err != nil {
		return "", "", err
	}
	b.WriteString("Definition branch_entry (asrt : dyn -> ty -> bool) (v : dyn) (T : ty) : eres :=\n  " + code + ".\n")
	return "RuntimeCode.v", b.String(), nil
}
