package main

// Part of extractor "streamsel" (property C08, see consts.go): the two decisions of schema/stream.go
// that depend on maxSelectNum, found wherever they are written.
//
//   build site   the code that prepares the []reflect.SelectCase of a merged reader
//                (newMultiStreamReader: `if len(sts) > maxSelectNum { itemsCases = make(...) ... }`)
//   recv site    the code that chooses between reflect.Select and receiveN for one round of
//                multiStreamReader.recv (in recv itself, or in a private helper it calls)
//
// A site is a two-way decision whose condition is one comparison of a length with maxSelectNum:
//   * `if c { A } else { B }`, `if c { A; return }  B...` (the rest of the block is the other way),
//     `if c { A }` (the other way is empty), also with c = `!(...)`, parenthesised, or a local
//     `x := <comparison>` tested as `if x` / `if !x`;
//   * `switch { case c: A; default: B }`.
// Which way is which is decided by what the two ways contain, calls of private helpers of the file
// followed (a function or a method whose name is declared once in the file): reflect.Select /
// receiveN for the recv site, reflect.SelectCase for the build site.  The result is a Gallina
// function of n = len(sts) and k = len(chosenList) per site, so `>` with reflect first and `<=`
// with receiveN first are the same function.  Every occurrence of the identifier maxSelectNum in
// the non-test files of package schema must be the constant's declaration or the operand of such a
// site; anything else is "shape not recognised" (neutral file, tie unavailable).

import (
	"fmt"
	"go/ast"
	"go/parser"
	"go/token"
	"go/types"
	"os"
	"path/filepath"
	"sort"
	"strings"
)

type c08selSite struct {
	role    string // "build" | "recv"
	fn      string // enclosing function
	src     string // the comparison as written
	gallina string // bool expression over n k (and max_select_num): true = the reflect way
}

type c08selCtx struct {
	fset    *token.FileSet
	file    *ast.File
	funcs   map[string]*ast.FuncDecl // private helpers that can be followed: name declared once
	parents map[ast.Node]ast.Node
}

const (
	c08selMSelect  = 1 << iota // reflect.Select(...)
	c08selMStatic              // receiveN(...)
	c08selMCaseLit             // reflect.SelectCase
)

func c08selIsMax(e ast.Expr) bool {
	id, ok := e.(*ast.Ident)
	return ok && id.Name == "maxSelectNum"
}

func c08selUnparen(e ast.Expr) ast.Expr {
	for {
		p, ok := e.(*ast.ParenExpr)
		if !ok {
			return e
		}
		e = p.X
	}
}

// strip parentheses and leading `!`; neg = odd number of `!`
func c08selStripNot(e ast.Expr) (ast.Expr, bool) {
	neg := false
	for {
		e = c08selUnparen(e)
		u, ok := e.(*ast.UnaryExpr)
		if !ok || u.Op != token.NOT {
			return e, neg
		}
		neg = !neg
		e = u.X
	}
}

func c08selIsCmp(e ast.Expr) (*ast.BinaryExpr, bool) {
	be, ok := c08selUnparen(e).(*ast.BinaryExpr)
	if !ok {
		return nil, false
	}
	switch be.Op {
	case token.GTR, token.GEQ, token.LSS, token.LEQ, token.EQL, token.NEQ:
	default:
		return nil, false
	}
	if c08selIsMax(c08selUnparen(be.X)) != c08selIsMax(c08selUnparen(be.Y)) {
		return be, true
	}
	return nil, false
}

func (c *c08selCtx) buildParents(root ast.Node) {
	var stack []ast.Node
	ast.Inspect(root, func(n ast.Node) bool {
		if n == nil {
			stack = stack[:len(stack)-1]
			return true
		}
		if len(stack) > 0 {
			c.parents[n] = stack[len(stack)-1]
		}
		stack = append(stack, n)
		return true
	})
}

func (c *c08selCtx) enclosingFunc(n ast.Node) *ast.FuncDecl {
	for n != nil {
		if fd, ok := n.(*ast.FuncDecl); ok {
			return fd
		}
		n = c.parents[n]
	}
	return nil
}

// markers of a node, private helpers followed
func (c *c08selCtx) markers(n ast.Node, seen map[string]bool) int {
	if n == nil {
		return 0
	}
	m := 0
	ast.Inspect(n, func(x ast.Node) bool {
		switch v := x.(type) {
		case *ast.SelectorExpr:
			if id, ok := v.X.(*ast.Ident); ok && id.Name == "reflect" && v.Sel.Name == "SelectCase" {
				m |= c08selMCaseLit
			}
		case *ast.CallExpr:
			fun := v.Fun
			if ix, ok := fun.(*ast.IndexExpr); ok { // explicit instantiation f[T](...)
				fun = ix.X
			}
			switch f := fun.(type) {
			case *ast.SelectorExpr:
				if id, ok := f.X.(*ast.Ident); ok && id.Name == "reflect" {
					if f.Sel.Name == "Select" {
						m |= c08selMSelect
					}
					return true
				}
				if fd := c.funcs[f.Sel.Name]; fd != nil && fd.Recv != nil && !seen[f.Sel.Name] {
					seen[f.Sel.Name] = true
					m |= c.markers(fd.Body, seen)
				}
			case *ast.Ident:
				if f.Name == "receiveN" {
					m |= c08selMStatic
					return true
				}
				if fd := c.funcs[f.Name]; fd != nil && fd.Recv == nil && !seen[f.Name] {
					seen[f.Name] = true
					m |= c.markers(fd.Body, seen)
				}
			}
		}
		return true
	})
	return m
}

func (c *c08selCtx) markersOf(nodes []ast.Node) int {
	m := 0
	for _, n := range nodes {
		m |= c.markers(n, map[string]bool{})
	}
	return m
}

func c08selTerminates(b *ast.BlockStmt) bool {
	if b == nil || len(b.List) == 0 {
		return false
	}
	switch s := b.List[len(b.List)-1].(type) {
	case *ast.ReturnStmt:
		return true
	case *ast.ExprStmt:
		if call, ok := s.X.(*ast.CallExpr); ok {
			if id, ok := call.Fun.(*ast.Ident); ok && id.Name == "panic" {
				return true
			}
		}
	}
	return false
}

// the statements that follow st in its enclosing statement list
func (c *c08selCtx) restOf(st ast.Stmt) ([]ast.Node, error) {
	var list []ast.Stmt
	switch p := c.parents[st].(type) {
	case *ast.BlockStmt:
		list = p.List
	case *ast.CaseClause:
		list = p.Body
	case *ast.CommClause:
		list = p.Body
	default:
		return nil, fmt.Errorf("decision statement is not inside a statement list")
	}
	for i, s := range list {
		if s == st {
			var out []ast.Node
			for _, r := range list[i+1:] {
				out = append(out, r)
			}
			return out, nil
		}
	}
	return nil, fmt.Errorf("decision statement not found in its block")
}

// the two ways of the decision whose condition is (or names) the comparison be:
// condTrue / condFalse = what runs when the comparison AS WRITTEN is true / false
func (c *c08selCtx) ways(be *ast.BinaryExpr) (condTrue, condFalse []ast.Node, err error) {
	// climb over parentheses and `!`
	var cur ast.Node = be
	neg := false
	for {
		p := c.parents[cur]
		if pe, ok := p.(*ast.ParenExpr); ok {
			cur = pe
			continue
		}
		if u, ok := p.(*ast.UnaryExpr); ok && u.Op == token.NOT {
			neg = !neg
			cur = u
			continue
		}
		break
	}
	flip := func(a, b []ast.Node, n bool) ([]ast.Node, []ast.Node) {
		if n {
			return b, a
		}
		return a, b
	}
	ifWays := func(is *ast.IfStmt, n bool) ([]ast.Node, []ast.Node, error) {
		if is.Init != nil {
			return nil, nil, fmt.Errorf("if with an init statement")
		}
		th := []ast.Node{is.Body}
		var el []ast.Node
		if is.Else != nil {
			el = []ast.Node{is.Else}
		}
		rest, err := c.restOf(is)
		if err != nil {
			return nil, nil, err
		}
		if c08selTerminates(is.Body) {
			// whatever follows belongs to the other way only
			el = append(el, rest...)
		} else if eb, ok := is.Else.(*ast.BlockStmt); ok && c08selTerminates(eb) {
			th = append(th, rest...)
		} else if c.markersOf(rest) != 0 {
			return nil, nil, fmt.Errorf("both ways of the decision run into code that selects")
		}
		a, b := flip(th, el, n)
		return a, b, nil
	}
	switch p := c.parents[cur].(type) {
	case *ast.IfStmt:
		if p.Cond != cur {
			return nil, nil, fmt.Errorf("comparison is not the condition of its if")
		}
		return ifWays(p, neg)
	case *ast.CaseClause:
		sw, ok := c.parents[c.parents[p]].(*ast.SwitchStmt)
		if !ok || sw.Tag != nil || sw.Init != nil || len(p.List) != 1 || len(sw.Body.List) != 2 {
			return nil, nil, fmt.Errorf("comparison in a switch that is not `switch { case c: ...; default: ... }`")
		}
		var other *ast.CaseClause
		for _, s := range sw.Body.List {
			if cc := s.(*ast.CaseClause); cc != p {
				other = cc
			}
		}
		if other == nil || other.List != nil {
			return nil, nil, fmt.Errorf("the other clause of the switch is not default")
		}
		rest, err := c.restOf(sw)
		if err != nil {
			return nil, nil, err
		}
		if c.markersOf(rest) != 0 {
			return nil, nil, fmt.Errorf("code after the switch selects")
		}
		var a, b []ast.Node
		for _, s := range p.Body {
			a = append(a, s)
		}
		for _, s := range other.Body {
			b = append(b, s)
		}
		a, b = flip(a, b, neg)
		return a, b, nil
	case *ast.AssignStmt, *ast.ValueSpec:
		// x := <comparison>   /   var x = <comparison>, tested once by `if x` / `if !x`
		var name string
		switch d := p.(type) {
		case *ast.AssignStmt:
			if len(d.Lhs) == 1 && len(d.Rhs) == 1 && d.Rhs[0] == cur && d.Tok == token.DEFINE {
				if id, ok := d.Lhs[0].(*ast.Ident); ok {
					name = id.Name
				}
			}
		case *ast.ValueSpec:
			if len(d.Names) == 1 && len(d.Values) == 1 && d.Values[0] == cur {
				name = d.Names[0].Name
			}
		}
		if name == "" || name == "_" {
			return nil, nil, fmt.Errorf("comparison assigned in an unknown way")
		}
		fd := c.enclosingFunc(be)
		if fd == nil {
			return nil, nil, fmt.Errorf("comparison outside a function")
		}
		var uses []*ast.Ident
		ast.Inspect(fd.Body, func(x ast.Node) bool {
			if id, ok := x.(*ast.Ident); ok && id.Name == name {
				uses = append(uses, id)
			}
			return true
		})
		if len(uses) != 2 { // the definition and one test
			return nil, nil, fmt.Errorf("local %s is used %d times, expected its definition and one test", name, len(uses)-1)
		}
		var use ast.Node = uses[1]
		for {
			q := c.parents[use]
			if pe, ok := q.(*ast.ParenExpr); ok {
				use = pe
				continue
			}
			if u, ok := q.(*ast.UnaryExpr); ok && u.Op == token.NOT {
				neg = !neg
				use = u
				continue
			}
			break
		}
		is, ok := c.parents[use].(*ast.IfStmt)
		if !ok || is.Cond != use {
			return nil, nil, fmt.Errorf("local %s is not tested by an if", name)
		}
		return ifWays(is, neg)
	}
	return nil, nil, fmt.Errorf("comparison is not the condition of an if or of a two-way switch")
}

// Gallina for the comparison as written; v = the variable the length stands for
func c08selCmpGallina(be *ast.BinaryExpr, v string) string {
	op := be.Op
	if c08selIsMax(c08selUnparen(be.X)) { // max OP len  ==  len OP' max
		switch op {
		case token.GTR:
			op = token.LSS
		case token.GEQ:
			op = token.LEQ
		case token.LSS:
			op = token.GTR
		case token.LEQ:
			op = token.GEQ
		}
	}
	const m = "max_select_num"
	switch op {
	case token.GTR:
		return fmt.Sprintf("Nat.ltb %s %s", m, v)
	case token.GEQ:
		return fmt.Sprintf("Nat.leb %s %s", m, v)
	case token.LSS:
		return fmt.Sprintf("Nat.ltb %s %s", v, m)
	case token.LEQ:
		return fmt.Sprintf("Nat.leb %s %s", v, m)
	case token.EQL:
		return fmt.Sprintf("Nat.eqb %s %s", v, m)
	default: // NEQ
		return fmt.Sprintf("negb (Nat.eqb %s %s)", v, m)
	}
}

// len(X): which of n = len(sts), k = len(chosenList) it is
func (c *c08selCtx) lenVar(e ast.Expr, role string, fd *ast.FuncDecl) (string, error) {
	call, ok := c08selUnparen(e).(*ast.CallExpr)
	if !ok || len(call.Args) != 1 {
		return "", fmt.Errorf("%s is not len(...)", types.ExprString(e))
	}
	if id, ok := call.Fun.(*ast.Ident); !ok || id.Name != "len" {
		return "", fmt.Errorf("%s is not len(...)", types.ExprString(e))
	}
	switch x := c08selUnparen(call.Args[0]).(type) {
	case *ast.SelectorExpr:
		// a field of the receiver
		if fd.Recv == nil || len(fd.Recv.List) != 1 || len(fd.Recv.List[0].Names) != 1 {
			return "", fmt.Errorf("len(%s) outside a method", types.ExprString(x))
		}
		if id, ok := x.X.(*ast.Ident); !ok || id.Name != fd.Recv.List[0].Names[0].Name {
			return "", fmt.Errorf("len(%s) is not about a field of the receiver", types.ExprString(x))
		}
		switch x.Sel.Name {
		case "chosenList":
			return "k", nil
		case "sts":
			return "n", nil
		}
		return "", fmt.Errorf("len(%s): unknown field", types.ExprString(x))
	case *ast.Ident:
		// build site: a parameter of the function that ends up as the sts field of the reader
		if role != "build" {
			return "", fmt.Errorf("len(%s): a local in the recv decision", x.Name)
		}
		isParam := false
		for _, f := range fd.Type.Params.List {
			for _, nm := range f.Names {
				if nm.Name == x.Name {
					isParam = true
				}
			}
		}
		stored := false
		ast.Inspect(fd.Body, func(y ast.Node) bool {
			if kv, ok := y.(*ast.KeyValueExpr); ok {
				if k, ok := kv.Key.(*ast.Ident); ok && k.Name == "sts" {
					if vid, ok := kv.Value.(*ast.Ident); ok && vid.Name == x.Name {
						stored = true
					}
				}
			}
			return true
		})
		if !isParam || !stored {
			return "", fmt.Errorf("len(%s): not a parameter that becomes the sts field", x.Name)
		}
		return "n", nil
	}
	return "", fmt.Errorf("len(%s): unknown operand", types.ExprString(call.Args[0]))
}

func c08selSites(repo string) ([]c08selSite, error) {
	fset := token.NewFileSet()
	dir := filepath.Join(repo, "schema")
	ents, err := os.ReadDir(dir)
	if err != nil {
		return nil, err
	}
	var names []string
	for _, e := range ents {
		if !e.IsDir() && strings.HasSuffix(e.Name(), ".go") && !strings.HasSuffix(e.Name(), "_test.go") {
			names = append(names, e.Name())
		}
	}
	sort.Strings(names)
	var sites []c08selSite
	for _, name := range names {
		f, err := parser.ParseFile(fset, filepath.Join(dir, name), nil, 0)
		if err != nil {
			return nil, err
		}
		// every identifier maxSelectNum of the file
		var idents []*ast.Ident
		ast.Inspect(f, func(n ast.Node) bool {
			if id, ok := n.(*ast.Ident); ok && id.Name == "maxSelectNum" {
				idents = append(idents, id)
			}
			return true
		})
		if len(idents) == 0 {
			continue
		}
		c := &c08selCtx{fset: fset, file: f, funcs: map[string]*ast.FuncDecl{}, parents: map[ast.Node]ast.Node{}}
		c.buildParents(f)
		count := map[string]int{}
		for _, d := range f.Decls {
			if fd, ok := d.(*ast.FuncDecl); ok {
				count[fd.Name.Name]++
			}
		}
		for _, d := range f.Decls {
			if fd, ok := d.(*ast.FuncDecl); ok && fd.Body != nil && count[fd.Name.Name] == 1 && !ast.IsExported(fd.Name.Name) {
				c.funcs[fd.Name.Name] = fd
			}
		}
		for _, id := range idents {
			if vs, ok := c.parents[id].(*ast.ValueSpec); ok { // const maxSelectNum = N
				isName := false
				for _, nm := range vs.Names {
					if nm == id {
						isName = true
					}
				}
				if isName {
					continue
				}
			}
			var par ast.Node = id
			for {
				if pe, ok := c.parents[par].(*ast.ParenExpr); ok {
					par = pe
					continue
				}
				break
			}
			be, ok := c.parents[par].(*ast.BinaryExpr)
			if !ok {
				return nil, fmt.Errorf("%s: maxSelectNum used outside a comparison", fset.Position(id.Pos()))
			}
			if _, ok := c08selIsCmp(be); !ok {
				return nil, fmt.Errorf("%s: maxSelectNum in `%s`, not a comparison of a length with it", fset.Position(id.Pos()), types.ExprString(be))
			}
			fd := c.enclosingFunc(be)
			if fd == nil {
				return nil, fmt.Errorf("%s: comparison outside a function", fset.Position(id.Pos()))
			}
			wt, wf, err := c.ways(be)
			if err != nil {
				return nil, fmt.Errorf("%s (%s): %v", fd.Name.Name, types.ExprString(be), err)
			}
			mt, mf := c.markersOf(wt), c.markersOf(wf)
			var role string
			var reflectWhenTrue bool
			sel := c08selMSelect | c08selMStatic
			switch {
			case mt&sel == c08selMSelect && mf&sel == c08selMStatic:
				role, reflectWhenTrue = "recv", true
			case mt&sel == c08selMStatic && mf&sel == c08selMSelect:
				role, reflectWhenTrue = "recv", false
			case (mt|mf)&sel == 0 && mt&c08selMCaseLit != 0 && mf&c08selMCaseLit == 0:
				role, reflectWhenTrue = "build", true
			case (mt|mf)&sel == 0 && mf&c08selMCaseLit != 0 && mt&c08selMCaseLit == 0:
				role, reflectWhenTrue = "build", false
			default:
				return nil, fmt.Errorf("%s (%s): the two ways of the decision are not {reflect.Select | receiveN} or {build reflect.SelectCase | do not} (markers %d / %d)",
					fd.Name.Name, types.ExprString(be), mt, mf)
			}
			lenSide := be.X
			if c08selIsMax(c08selUnparen(be.X)) {
				lenSide = be.Y
			}
			v, err := c.lenVar(lenSide, role, fd)
			if err != nil {
				return nil, fmt.Errorf("%s (%s): %v", fd.Name.Name, types.ExprString(be), err)
			}
			g := c08selCmpGallina(be, v)
			if !reflectWhenTrue {
				g = "negb (" + g + ")"
			}
			sites = append(sites, c08selSite{role: role, fn: fd.Name.Name, src: squash(types.ExprString(be)), gallina: g})
		}
	}
	nb, nr := 0, 0
	for _, s := range sites {
		if s.role == "build" {
			nb++
		} else {
			nr++
		}
	}
	if nb != 1 || nr != 1 {
		return nil, fmt.Errorf("expected one decision that builds the reflect cases and one that chooses reflect.Select / receiveN, found %d / %d", nb, nr)
	}
	return sites, nil
}
