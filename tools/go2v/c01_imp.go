package main

// c01_imp.go — property C01: a small compiler from the imperative Go fragment the engine's
// decision code is written in to Gallina, shared by the extractors "runlimit", "calcbranch"
// (c01_engine.go) and "chainlower" (c01_chain.go).
//
// Every local variable / parameter has a *kind* (nat, bool, key, keys = []string, kset =
// map[string]struct{} / map[string]bool used as a set, val, vals, an opaque record, ...).  A
// statement list becomes a chain of `let`s that rebind the variables it assigns; a block nested
// in an `if` or a loop hands on the tuple of the outer variables it assigns (its "muts"):
//
//   x := e   x = e   var x T                  let x := e in
//   x = append(x, y)   x = append(x, ys...)   let x := x ++ [y] in      let x := x ++ ys in
//   m[k] = struct{}{} / true   delete(m, k)   let m := s_add k m in     let m := s_del k m in
//   l[i] = e                                  let l := l_set i e l in
//   if c { A } [else { B }] ; rest            A, B without jumps:  let '(muts) := if c then A' else B' in rest
//                                             A always exits:      if c then A' else rest'
//                                             otherwise:           if c then (A ; rest)' else (B ; rest)'
//   if _, ok := m[k]; ok / !ok                s_has k m
//   for _, x := range L { B }                 let '(muts) := fold_left (fun st x => let '(muts) := st in B') L (muts) in
//   for i, x := range L                       ... over (indexed L)
//   break / continue                          the loop state carries a flag brk; once set the remaining
//                                             iterations hand the state on unchanged
//   x, err = f(a); if err != nil { return … } do x <- f' a;   (blocks with a return are in the error monad:
//                                             fold_res, `Ok (muts)`; a return in a nested block must be an
//                                             error return)
//   err := o.m(a); if err != nil { return … } do o <- m' o a;   (a call that changes the state of o)
//   return v, nil                             Ok (v, states…)        return nil, <new error>   Err (err_code n)
//
//   c.F  c.F = e                              fields of the record the method works on: (get c) / let c := set c e in
//   err := o.m(a)  /  if err := o.m(a); err != nil { … }     let '(o', err) := m' o a in …      (a call that changes
//                                             o and reports an error; errors are values of kind oerr = option N)
//   x := c.m(a)    c.m(a)                     let '(x, c) := m' c a in      let c := m' c a in     (translated methods)
//   if c1 { A } else if c2 { B } else { return … } ; rest       a join point:  let k_ := (fun muts => rest) in
//                                             if c1 then (A; k_ muts) else if c2 then (B; k_ muts) else …
//
// Anything else: "source shape not recognised" (translator tie unavailable).

import (
	"fmt"
	"go/ast"
	"go/token"
	"go/types"
	"strconv"
	"strings"
)

type c01Var struct{ name, kind string }

// a call the fragment makes into code that is not translated: it becomes an application of a
// Section variable (or of a vocabulary function)
type c01Call struct {
	sym    string // Gallina function
	state  string // Go variable whose state the call changes ("" none): sym takes and returns it
	recv   bool   // the receiver expression is the first argument
	result string // kind of the non-error result ("" none)
	fails  bool   // the last result is an error, checked by `if err != nil { return …, err }` (error monad)
	args   []int  // positions of the Go arguments handed on (nil = all except a leading ctx)
	// errVal: the call returns an error VALUE next to the changed state (sym : state -> args -> state * option N);
	// stateExpr is the Go expression of the state it changes (a field such as c.gg)
	errVal    bool
	stateExpr string
	// results: a failing call with several non-error results (result must be "")
	results []string
}

// a composite literal &T{f: e, …} that stands for an abstract constructor applied to some of its fields
type c01Lit struct {
	sym    string
	fields []string // the fields handed to the constructor, in order
	ignore []string // fields that may be present and are not looked at
	kind   string
}

// a field of the record a method works on
type c01Field struct{ rec, get, set, kind string }

// a Go map that the translated code uses through its keys: range (in the model's canonical order), index, len
type c01MapKind struct {
	keys, get, elem string
	has, set        string // "" = the map is only read
	pairs           bool   // the representation is the list of (key, element) pairs: `for k, v := range m`
}

type c01Tr struct {
	fn        string
	env       []c01Var
	sels      map[string]c01Var     // squashed selector expression -> (Gallina text, kind)
	consts    map[string]c01Var     // identifier -> (Gallina text, kind): package constants
	calls     map[string]c01Call    // "recv.method" by squashed text, or "<kind>.method" by kind of the receiver variable
	states    []string              // variables whose final value is part of the function result
	results   []string              // kinds of the declared non-error results
	hasErr    bool                  // the function's last result is an error
	nerr      int                   // error returns met so far
	elemOf    map[string]string     // kind of a collection -> kind of its elements
	zero      map[string]string     // kind -> Gallina text of the zero value
	types     map[string]string     // kind -> Gallina type (for the annotation of loop states)
	fields    map[string]c01Field   // squashed selector expression -> field of the record
	maps      map[string]c01MapKind // kind -> how a map of that kind is read
	retRecv   string                // methods that return their receiver (or nothing): its name ("" otherwise)
	unkOK     bool                  // an unrecognised boolean operand becomes (unk "<its text>"): recognised but different
	makeKinds map[string]string     // squashed map type -> kind of make(<type>)
	lits      map[string]c01Lit     // squashed type of a composite literal -> abstract constructor
	valueMode bool                  // no value is a stream: statements that only close stream readers are skipped
	njoin     int
}

// the Gallina type of the loop state made of the given variables (plus the break flag)
func (t *c01Tr) stateType(vs []string, brk bool, extra ...string) string {
	var ts []string
	for _, v := range vs {
		k, _ := t.kindOf(v)
		ty, ok := t.types[k]
		if !ok {
			ty = "_"
		}
		ts = append(ts, ty)
	}
	if brk {
		ts = append(ts, "bool")
	}
	ts = append(ts, extra...)
	switch len(ts) {
	case 0:
		return "unit"
	case 1:
		return ts[0]
	}
	return "(" + strings.Join(ts, " * ") + ")"
}

func c01NewTr(fn string) *c01Tr {
	return &c01Tr{fn: fn, sels: map[string]c01Var{}, consts: map[string]c01Var{}, calls: map[string]c01Call{},
		fields: map[string]c01Field{}, maps: map[string]c01MapKind{}, makeKinds: map[string]string{}, lits: map[string]c01Lit{},
		elemOf: map[string]string{"keys": "key", "kset": "key", "vals": "val", "nats": "nat"},
		zero:   map[string]string{"keys": "(@nil key)", "kset": "s_empty", "bool": "false", "nat": "0%nat", "key": "k_empty", "kmap": "km_empty"},
		types: map[string]string{"nat": "nat", "bool": "bool", "key": "key", "keys": "list key", "kset": "list key",
			"nats": "list nat", "val": "V", "vals": "list V", "unit": "unit", "oerr": "option N", "kmap": "list (key * key)"}}
}

func coqStrC01(s string) string { return "\"" + strings.ReplaceAll(s, "\"", "\"\"") + "\"%string" }

func c01Squash(e ast.Expr) string { return strings.Join(strings.Fields(types.ExprString(e)), "") }

func (t *c01Tr) errf(format string, a ...any) error {
	return fmt.Errorf("%s: %s", t.fn, fmt.Sprintf(format, a...))
}

func (t *c01Tr) kindOf(name string) (string, bool) {
	for i := len(t.env) - 1; i >= 0; i-- {
		if t.env[i].name == name {
			return t.env[i].kind, true
		}
	}
	return "", false
}

func (t *c01Tr) declare(name, kind string) error {
	if name == "_" {
		return nil
	}
	if _, ok := t.kindOf(name); ok {
		return t.errf("variable %s declared twice (shadowing is not translated)", name)
	}
	t.env = append(t.env, c01Var{name, kind})
	return nil
}

// ---------------------------------------------------------------- expressions

func (t *c01Tr) expr(e ast.Expr) (string, string, error) {
	if s, ok := t.sels[c01Squash(e)]; ok {
		return s.name, s.kind, nil
	}
	if f, ok := t.fields[c01Squash(e)]; ok {
		return "(" + f.get + " " + f.rec + ")", f.kind, nil
	}
	switch x := e.(type) {
	case *ast.ParenExpr:
		return t.expr(x.X)
	case *ast.StarExpr:
		return t.expr(x.X) // *p: the value
	case *ast.TypeAssertExpr:
		return t.expr(x.X) // v.(streamReader): the same value
	case *ast.BasicLit:
		if x.Kind == token.INT {
			return x.Value + "%nat", "nat", nil
		}
		if x.Kind == token.STRING && x.Value == `""` {
			return "k_empty", "key", nil
		}
	case *ast.Ident:
		switch x.Name {
		case "true", "false":
			return x.Name, "bool", nil
		}
		if k, ok := t.kindOf(x.Name); ok {
			return x.Name, k, nil
		}
		if c, ok := t.consts[x.Name]; ok {
			return c.name, c.kind, nil
		}
	case *ast.SelectorExpr:
		if s, ok := t.sels[c01Squash(x)]; ok {
			return s.name, s.kind, nil
		}
	case *ast.IndexExpr:
		if s, ok := t.sels[c01Squash(x)]; ok {
			return s.name, s.kind, nil
		}
		l, lk, err := t.expr(x.X)
		if err != nil {
			return "", "", err
		}
		i, ik, err := t.expr(x.Index)
		if err != nil {
			return "", "", err
		}
		if mk, ok := t.maps[lk]; ok && ik == "key" {
			return "(" + mk.get + " " + l + " " + i + ")", mk.elem, nil
		}
		ek, ok := t.elemOf[lk]
		if !ok || ik != "nat" || lk == "kset" {
			return "", "", t.errf("index expression %s", c01Squash(x))
		}
		return "(l_get " + t.zeroOf(ek) + " " + i + " " + l + ")", ek, nil
	case *ast.CompositeLit:
		// []T{a, b}
		if at, ok := x.Type.(*ast.ArrayType); ok && at.Len == nil {
			if k, ok := t.makeKinds[c01Squash(at)]; ok {
				var es []string
				for _, el := range x.Elts {
					s, ek, err := t.expr(el)
					if err != nil {
						return "", "", err
					}
					if ek != t.elemOf[k] {
						return "", "", t.errf("%s literal with an element of kind %s", c01Squash(at), ek)
					}
					es = append(es, s)
				}
				return "[" + strings.Join(es, "; ") + "]", k, nil
			}
		}
	case *ast.SliceExpr:
		// l[a:], l[:b], l[a:b]
		if x.Slice3 {
			break
		}
		l, lk, err := t.expr(x.X)
		if err != nil {
			return "", "", err
		}
		if _, ok := t.elemOf[lk]; !ok || lk == "kset" {
			return "", "", t.errf("slice of a %s", lk)
		}
		if x.Low != nil {
			a, ak, err := t.expr(x.Low)
			if err != nil {
				return "", "", err
			}
			if ak != "nat" {
				return "", "", t.errf("slice bound of kind %s", ak)
			}
			if x.High == nil {
				return "(l_from " + a + " " + l + ")", lk, nil
			}
			b, bk, err := t.expr(x.High)
			if err != nil {
				return "", "", err
			}
			if bk != "nat" {
				return "", "", t.errf("slice bound of kind %s", bk)
			}
			return "(l_from " + a + " (l_upto " + b + " " + l + "))", lk, nil
		}
		if x.High == nil {
			return l, lk, nil
		}
		b, bk, err := t.expr(x.High)
		if err != nil {
			return "", "", err
		}
		if bk != "nat" {
			return "", "", t.errf("slice bound of kind %s", bk)
		}
		return "(l_upto " + b + " " + l + ")", lk, nil
	case *ast.UnaryExpr:
		if x.Op == token.AND {
			if cl, ok := x.X.(*ast.CompositeLit); ok {
				if lt, ok := t.lits[c01Squash(cl.Type)]; ok {
					vals := map[string]string{}
					for _, el := range cl.Elts {
						kv, ok := el.(*ast.KeyValueExpr)
						if !ok {
							return "", "", t.errf("%s literal without field names", c01Squash(cl.Type))
						}
						f := c01Squash(kv.Key)
						used, ign := false, false
						for _, u := range lt.fields {
							used = used || u == f
						}
						for _, u := range lt.ignore {
							ign = ign || u == f
						}
						switch {
						case used:
							s, _, err := t.expr(kv.Value)
							if err != nil {
								return "", "", err
							}
							vals[f] = s
						case !ign:
							return "", "", t.errf("%s literal sets the field %s", c01Squash(cl.Type), f)
						}
					}
					parts := []string{lt.sym}
					for _, f := range lt.fields {
						v, ok := vals[f]
						if !ok {
							return "", "", t.errf("%s literal does not set the field %s", c01Squash(cl.Type), f)
						}
						parts = append(parts, v)
					}
					return "(" + strings.Join(parts, " ") + ")", lt.kind, nil
				}
			}
			return t.expr(x.X) // &v: the value
		}
		if x.Op == token.NOT {
			s, k, err := t.expr(x.X)
			if err != nil {
				return "", "", err
			}
			if k != "bool" {
				return "", "", t.errf("! applied to %s", k)
			}
			return "(negb " + s + ")", "bool", nil
		}
	case *ast.CallExpr:
		if id, ok := x.Fun.(*ast.Ident); ok && id.Name == "append" && len(x.Args) == 2 {
			if _, shadowed := t.kindOf("append"); !shadowed {
				b, bk, err := t.expr(x.Args[0])
				if err != nil {
					return "", "", err
				}
				a, ak, err := t.expr(x.Args[1])
				if err != nil {
					return "", "", err
				}
				ek, ok := t.elemOf[bk]
				if !ok || bk == "kset" {
					return "", "", t.errf("append to a %s", bk)
				}
				switch {
				case x.Ellipsis.IsValid() && (ak == bk || (ak == "kset" && bk == "keys")):
					return "(" + b + " ++ " + a + ")", bk, nil
				case !x.Ellipsis.IsValid() && ak == ek:
					return "(" + b + " ++ [" + a + "])", bk, nil
				}
				return "", "", t.errf("append of a %s to a %s", ak, bk)
			}
		}
		if id, ok := x.Fun.(*ast.Ident); ok && id.Name == "len" && len(x.Args) == 1 {
			s, k, err := t.expr(x.Args[0])
			if err != nil {
				return "", "", err
			}
			if _, ok := t.elemOf[k]; !ok {
				if _, ok := t.maps[k]; !ok {
					return "", "", t.errf("len of %s", k)
				}
			}
			return "(List.length " + s + ")", "nat", nil
		}
		if c, recv, ok := t.callOf(x); ok && !c.fails && !c.errVal && c.state == "" && c.result != "" {
			s, err := t.callText(c, recv, x)
			return s, c.result, err
		}
		switch c01Squash(x.Fun) {
		case "fmt.Errorf", "errors.New":
			// a new error value: which one is a matter of class
			t.nerr++
			return "(Some (err_code " + strconv.Itoa(t.nerr) + "%nat))", "oerr", nil
		case "fmt.Sprintf":
			if len(x.Args) >= 1 {
				if lit, ok := x.Args[0].(*ast.BasicLit); ok && lit.Kind == token.STRING {
					var as []string
					for _, a := range x.Args[1:] {
						s, k, err := t.expr(a)
						if err != nil {
							return "", "", err
						}
						switch k {
						case "key":
							as = append(as, "fa_key "+s)
						case "nat":
							as = append(as, "fa_nat "+s)
						default:
							return "", "", t.errf("Sprintf argument of kind %s", k)
						}
					}
					f, err := strconv.Unquote(lit.Value)
					if err != nil {
						return "", "", err
					}
					return "(auto_key \"" + strings.ReplaceAll(f, `"`, `""`) + "\"%string [" + strings.Join(as, "; ") + "])", "key", nil
				}
			}
		case "gmap.Values":
			if len(x.Args) == 1 {
				s, k, err := t.expr(x.Args[0])
				if err != nil {
					return "", "", err
				}
				if k == "kmap" {
					return "(km_values " + s + ")", "keys", nil
				}
			}
		}
	case *ast.BinaryExpr:
		if t.unkOK && (x.Op == token.LAND || x.Op == token.LOR) {
			l, err := t.boolExpr(x.X)
			if err != nil {
				return "", "", err
			}
			r, err := t.boolExpr(x.Y)
			if err != nil {
				return "", "", err
			}
			op := " && "
			if x.Op == token.LOR {
				op = " || "
			}
			return "(" + l + op + r + ")", "bool", nil
		}
		// b == true, b != false: b;  b == false, b != true: !b
		if x.Op == token.EQL || x.Op == token.NEQ {
			for _, sides := range [][2]ast.Expr{{x.X, x.Y}, {x.Y, x.X}} {
				if lit, ok := sides[1].(*ast.Ident); ok && (lit.Name == "true" || lit.Name == "false") {
					if _, shadowed := t.kindOf(lit.Name); shadowed {
						break
					}
					s, k, err := t.expr(sides[0])
					if err != nil {
						return "", "", err
					}
					if k != "bool" {
						return "", "", t.errf("comparison of a %s with %s", k, lit.Name)
					}
					if (lit.Name == "true") == (x.Op == token.EQL) {
						return s, "bool", nil
					}
					return "(negb " + s + ")", "bool", nil
				}
			}
		}
		if (x.Op == token.EQL || x.Op == token.NEQ) && (c01IsNilIdent(x.Y) || c01IsNilIdent(x.X)) {
			o := x.X
			if c01IsNilIdent(x.X) {
				o = x.Y
			}
			s, k, err := t.expr(o)
			if err != nil {
				return "", "", err
			}
			if k != "oerr" {
				return "", "", t.errf("comparison of a %s with nil", k)
			}
			if x.Op == token.EQL {
				return "(is_none " + s + ")", "bool", nil
			}
			return "(is_some " + s + ")", "bool", nil
		}
		l, lk, err := t.expr(x.X)
		if err != nil {
			return "", "", err
		}
		r, rk, err := t.expr(x.Y)
		if err != nil {
			return "", "", err
		}
		if lk != rk {
			return "", "", t.errf("operands of %s have kinds %s and %s", x.Op, lk, rk)
		}
		switch {
		case lk == "bool" && x.Op == token.LAND:
			return "(" + l + " && " + r + ")", "bool", nil
		case lk == "bool" && x.Op == token.LOR:
			return "(" + l + " || " + r + ")", "bool", nil
		case lk == "nat":
			switch x.Op {
			case token.ADD:
				return "(" + l + " + " + r + ")%nat", "nat", nil
			case token.SUB:
				// Go's int difference; on nat it is cut off at 0: a negative difference would make Go panic at the
				// index / slice it is used in, or is only compared with 0 (`> 0` means the same on both sides)
				return "(" + l + " - " + r + ")%nat", "nat", nil
			case token.MUL:
				return "(" + l + " * " + r + ")%nat", "nat", nil
			case token.LSS:
				return "(Nat.ltb " + l + " " + r + ")", "bool", nil
			case token.LEQ:
				return "(Nat.leb " + l + " " + r + ")", "bool", nil
			case token.GTR:
				return "(Nat.ltb " + r + " " + l + ")", "bool", nil
			case token.GEQ:
				return "(Nat.leb " + r + " " + l + ")", "bool", nil
			case token.EQL:
				return "(Nat.eqb " + l + " " + r + ")", "bool", nil
			case token.NEQ:
				return "(negb (Nat.eqb " + l + " " + r + "))", "bool", nil
			}
		case lk == "key":
			switch x.Op {
			case token.EQL:
				return "(key_eqb " + l + " " + r + ")", "bool", nil
			case token.NEQ:
				return "(negb (key_eqb " + l + " " + r + "))", "bool", nil
			}
		case lk == "bool":
			switch x.Op {
			case token.EQL:
				return "(Bool.eqb " + l + " " + r + ")", "bool", nil
			case token.NEQ:
				return "(negb (Bool.eqb " + l + " " + r + "))", "bool", nil
			}
		}
	}
	return "", "", t.errf("expression %s not recognised", c01Squash(e))
}

func (t *c01Tr) zeroOf(kind string) string {
	if z, ok := t.zero[kind]; ok {
		return z
	}
	return "zero_" + kind
}

func (t *c01Tr) boolExpr(e ast.Expr) (string, error) {
	s, k, err := t.expr(e)
	if err != nil && t.unkOK {
		return "(unk " + coqStrC01(c01Squash(e)) + ")", nil
	}
	if err != nil {
		return "", err
	}
	if k != "bool" {
		return "", t.errf("condition %s has kind %s", c01Squash(e), k)
	}
	return s, nil
}

// the call table entry of a call expression, and its receiver (nil for plain functions)
func (t *c01Tr) callOf(call *ast.CallExpr) (c01Call, ast.Expr, bool) {
	if c, ok := t.calls[c01Squash(call.Fun)]; ok {
		if sel, ok := call.Fun.(*ast.SelectorExpr); ok {
			return c, sel.X, true
		}
		return c, nil, true
	}
	if sel, ok := call.Fun.(*ast.SelectorExpr); ok {
		if _, k, err := t.expr(sel.X); err == nil {
			if c, ok := t.calls["<"+k+">."+sel.Sel.Name]; ok {
				return c, sel.X, true
			}
		}
	}
	return c01Call{}, nil, false
}

func (t *c01Tr) callText(c c01Call, recv ast.Expr, call *ast.CallExpr) (string, error) {
	parts := []string{c.sym}
	if c.state != "" {
		parts = append(parts, c.state)
	}
	if c.recv {
		s, _, err := t.expr(recv)
		if err != nil {
			return "", err
		}
		parts = append(parts, s)
	}
	pos := c.args
	if pos == nil {
		for i, a := range call.Args {
			if id, ok := a.(*ast.Ident); ok && id.Name == "ctx" && i == 0 {
				continue
			}
			pos = append(pos, i)
		}
	}
	for _, i := range pos {
		if i >= len(call.Args) {
			return "", t.errf("call %s has %d arguments", c01Squash(call.Fun), len(call.Args))
		}
		s, _, err := t.expr(call.Args[i])
		if err != nil {
			return "", err
		}
		parts = append(parts, s)
	}
	if len(parts) == 1 {
		return parts[0], nil
	}
	return "(" + strings.Join(parts, " ") + ")", nil
}

// ---------------------------------------------------------------- analysis of blocks

func c01Walk(l []ast.Stmt, f func(ast.Node) bool) {
	for _, s := range l {
		ast.Inspect(s, func(n ast.Node) bool {
			if _, ok := n.(*ast.FuncLit); ok {
				return false
			}
			return f(n)
		})
	}
}

func c01HasReturn(l []ast.Stmt) bool {
	found := false
	c01Walk(l, func(n ast.Node) bool {
		if _, ok := n.(*ast.ReturnStmt); ok {
			found = true
		}
		return !found
	})
	return found
}

// break / continue that belong to the enclosing loop (not to a loop nested in l)
func c01HasJump(l []ast.Stmt, tok token.Token) bool {
	found := false
	for _, s := range l {
		ast.Inspect(s, func(n ast.Node) bool {
			switch x := n.(type) {
			case *ast.FuncLit, *ast.RangeStmt, *ast.ForStmt, *ast.SwitchStmt, *ast.SelectStmt:
				return false
			case *ast.BranchStmt:
				if x.Tok == tok {
					found = true
				}
			}
			return !found
		})
	}
	return found
}

func c01HasAnyJump(l []ast.Stmt) bool {
	return c01HasReturn(l) || c01HasJump(l, token.BREAK) || c01HasJump(l, token.CONTINUE)
}

// every path through l ends in return / break / continue
func c01AlwaysExits(l []ast.Stmt) bool {
	if len(l) == 0 {
		return false
	}
	switch x := l[len(l)-1].(type) {
	case *ast.ReturnStmt:
		return true
	case *ast.BranchStmt:
		return x.Tok == token.BREAK || x.Tok == token.CONTINUE
	case *ast.IfStmt:
		if x.Else == nil {
			return false
		}
		eb, ok := x.Else.(*ast.BlockStmt)
		return ok && c01AlwaysExits(x.Body.List) && c01AlwaysExits(eb.List)
	}
	return false
}

// the variables of the environment that l assigns, in environment order
func (t *c01Tr) assigned(l []ast.Stmt) []string {
	set := map[string]bool{}
	base := func(e ast.Expr) {
		for {
			switch x := e.(type) {
			case *ast.IndexExpr:
				e = x.X
				continue
			case *ast.ParenExpr:
				e = x.X
				continue
			case *ast.Ident:
				set[x.Name] = true
			case *ast.SelectorExpr:
				if f, ok := t.fields[c01Squash(x)]; ok {
					set[f.rec] = true
				}
			}
			return
		}
	}
	c01Walk(l, func(n ast.Node) bool {
		switch x := n.(type) {
		case *ast.AssignStmt:
			for _, lh := range x.Lhs {
				base(lh)
			}
		case *ast.IncDecStmt:
			base(x.X)
		case *ast.CallExpr:
			if id, ok := x.Fun.(*ast.Ident); ok && id.Name == "delete" && len(x.Args) == 2 {
				base(x.Args[0])
			}
			if c, _, ok := t.callOf(x); ok {
				if c.state != "" {
					set[c.state] = true
				}
				if f, ok := t.fields[c.stateExpr]; ok {
					set[f.rec] = true
				}
			}
		}
		return true
	})
	var out []string
	for _, v := range t.env {
		if set[v.name] {
			out = append(out, v.name)
		}
	}
	return out
}

// ---------------------------------------------------------------- blocks

type c01Ctx struct {
	muts []string // what the block hands on at its normal exit
	brk  bool     // loop body whose state carries the break flag
	res  bool     // the value of the block is in the error monad
	top  bool     // function body
	// join: the block ends by calling the continuation `cont` on its muts; break / continue / return belong to
	// the enclosing block `outer` (the block is in tail position there)
	cont  string
	outer *c01Ctx
	// retf: loop body of a method that returns its receiver: the state also carries the flag ret_ (a `return`
	// inside the loop ends the loop and, after it, the method)
	retf bool
	// retv: the same for a function with one result: ret_ : option <result>, set to retVal by a `return`
	retv   bool
	retVal string
}

// the context a break / continue / return of this block belongs to
func (c *c01Ctx) jumpCtx() *c01Ctx {
	for c.cont != "" {
		c = c.outer
	}
	return c
}

func c01Tuple(vs []string, pattern bool) string {
	switch len(vs) {
	case 0:
		if pattern {
			return "_"
		}
		return "tt"
	case 1:
		return vs[0]
	}
	s := "(" + strings.Join(vs, ", ") + ")"
	if pattern {
		return "'" + s
	}
	return s
}

// the value of a block at its normal exit (jump = "" fall through | "break" | "continue")
func (t *c01Tr) finish(c *c01Ctx, jump string) (string, error) {
	if c.cont != "" {
		if jump == "" {
			return c.cont + " " + c01Paren(c01Tuple(c.muts, false)), nil
		}
		return t.finish(c.jumpCtx(), jump)
	}
	if c.top {
		if len(t.results) == 0 && !t.hasErr {
			return c01Tuple(t.states, false), nil // a function without result may fall off its end
		}
		return "", t.errf("control reaches the end of the function without a return")
	}
	vs := append([]string{}, c.muts...)
	if c.brk {
		if jump == "break" || jump == "return" {
			vs = append(vs, "true")
		} else {
			vs = append(vs, "brk")
		}
	} else if jump == "break" {
		return "", t.errf("break outside a loop")
	}
	if c.retf {
		if jump == "return" {
			vs = append(vs, "true")
		} else {
			vs = append(vs, "ret_")
		}
	} else if c.retv {
		if jump == "return" {
			vs = append(vs, c.retVal)
		} else {
			vs = append(vs, "ret_")
		}
	} else if jump == "return" {
		return "", t.errf("internal: return in a block without return flag")
	}
	s := c01Tuple(vs, false)
	if c.res {
		return "Ok " + c01Paren(s), nil
	}
	return s, nil
}

// the pattern of a `do` binder (the notation of Base/Util.v takes a pattern, without the quote of `let '`)
func c01DoPat(vs []string) string { return strings.TrimPrefix(c01Tuple(vs, true), "'") }

func c01Paren(s string) string {
	if strings.ContainsAny(s, " \n") && !(strings.HasPrefix(s, "(") && strings.HasSuffix(s, ")") && c01Balanced(s[1:len(s)-1])) {
		return "(" + s + ")"
	}
	return s
}

func c01Balanced(s string) bool {
	d := 0
	for _, r := range s {
		if r == '(' {
			d++
		} else if r == ')' {
			d--
			if d < 0 {
				return false
			}
		}
	}
	return d == 0
}

func c01IsNilIdent(e ast.Expr) bool {
	id, ok := e.(*ast.Ident)
	return ok && id.Name == "nil"
}

func c01IsErrIdent(e ast.Expr) bool {
	id, ok := e.(*ast.Ident)
	return ok && (id.Name == "err" || id.Name == "e")
}

func (t *c01Tr) ret(c *c01Ctx, r *ast.ReturnStmt) (string, error) {
	c = c.jumpCtx()
	if t.retRecv != "" {
		// `return` / `return c` of a method that works on its receiver
		if len(r.Results) > 1 || (len(r.Results) == 1 && c01Squash(r.Results[0]) != t.retRecv) {
			return "", t.errf("return %s in a method that returns its receiver", c01Squash(r.Results[0]))
		}
		if c.retf {
			return t.finish(c, "return")
		}
		if !c.top {
			return "", t.errf("a return inside a nested block of a method that returns its receiver")
		}
		return c01Tuple(t.states, false), nil
	}
	if t.hasErr {
		if len(r.Results) != len(t.results)+1 {
			return "", t.errf("return with %d results", len(r.Results))
		}
		last := r.Results[len(r.Results)-1]
		if !c01IsNilIdent(last) {
			// a new error (errors.New / fmt.Errorf / a named error value); which one is a matter of class
			t.nerr++
			return "Err (err_code " + strconv.Itoa(t.nerr) + "%nat)", nil
		}
	} else if len(r.Results) != len(t.results) {
		return "", t.errf("return with %d results", len(r.Results))
	}
	if !c.top && !c.retv {
		return "", t.errf("a return inside a nested block that is not an error return")
	}
	var vs []string
	for i, k := range t.results {
		if k == "oerr" && c01IsNilIdent(r.Results[i]) {
			vs = append(vs, "None")
			continue
		}
		if c01IsNilIdent(r.Results[i]) {
			if _, known := t.kindOf("nil"); !known {
				vs = append(vs, t.zeroOf(k)) // nil: the zero value of a slice / map / interface result
				continue
			}
		}
		s, ek, err := t.expr(r.Results[i])
		if err != nil {
			return "", err
		}
		if ek != k {
			return "", t.errf("result %d has kind %s, expected %s", i, ek, k)
		}
		vs = append(vs, s)
	}
	if c.retv {
		c.retVal = "(Some " + c01Paren(c01Tuple(vs, false)) + ")"
		return t.finish(c, "return")
	}
	vs = append(vs, t.states...)
	s := c01Tuple(vs, false)
	if t.hasErr {
		return "Ok " + c01Paren(s), nil
	}
	return s, nil
}

// every return in the statements hands back an error (its last result is not nil)
func c01OnlyErrorReturns(l []ast.Stmt) bool {
	good := true
	c01Walk(l, func(n ast.Node) bool {
		if r, ok := n.(*ast.ReturnStmt); ok {
			if len(r.Results) == 0 || c01IsNilIdent(r.Results[len(r.Results)-1]) {
				good = false
			}
		}
		return good
	})
	return good
}

// `if err != nil { return …, <error> }`
func (t *c01Tr) isErrCheck(s ast.Stmt) bool {
	is, ok := s.(*ast.IfStmt)
	if !ok || is.Init != nil || is.Else != nil || len(is.Body.List) != 1 {
		return false
	}
	be, ok := is.Cond.(*ast.BinaryExpr)
	if !ok || be.Op != token.NEQ || !c01IsErrIdent(be.X) || !c01IsNilIdent(be.Y) {
		return false
	}
	r, ok := is.Body.List[0].(*ast.ReturnStmt)
	if !ok || len(r.Results) == 0 {
		return false
	}
	return !c01IsNilIdent(r.Results[len(r.Results)-1])
}

// `_, ok := m[k]` -> s_has k m
func (t *c01Tr) okLookup(s ast.Stmt) (string, bool) {
	as, isAs := s.(*ast.AssignStmt)
	if !isAs || as.Tok != token.DEFINE || len(as.Lhs) != 2 || len(as.Rhs) != 1 {
		return "", false
	}
	if id, ok := as.Lhs[0].(*ast.Ident); !ok || id.Name != "_" {
		return "", false
	}
	if id, ok := as.Lhs[1].(*ast.Ident); !ok || id.Name == "_" {
		return "", false
	}
	ix, ok := as.Rhs[0].(*ast.IndexExpr)
	if !ok {
		return "", false
	}
	m, mk, err := t.expr(ix.X)
	if err != nil {
		return "", false
	}
	k, kk, err := t.expr(ix.Index)
	if err != nil || kk != "key" {
		return "", false
	}
	if mkd, ok := t.maps[mk]; ok && mkd.has != "" {
		return "(" + mkd.has + " " + k + " " + m + ")", true
	}
	if mk != "kset" {
		return "", false
	}
	return "(s_has " + k + " " + m + ")", true
}

// the init statement `_, <name> := …` of an if
func c01InitDefinesOK(init ast.Stmt, name string) bool {
	as, ok := init.(*ast.AssignStmt)
	return ok && len(as.Lhs) == 2 && c01IsIdentNamed(as.Lhs[1], name)
}

func (t *c01Tr) ifCond(is *ast.IfStmt) (string, error) {
	if is.Init != nil {
		neg, c := false, is.Cond
		if u, ok := c.(*ast.UnaryExpr); ok && u.Op == token.NOT {
			neg, c = true, u.X
		}
		if id, ok := c.(*ast.Ident); !ok || !c01InitDefinesOK(is.Init, id.Name) {
			return "", t.errf("if with an init statement whose condition is not ok / !ok")
		}
		s, ok := t.okLookup(is.Init)
		if !ok {
			return "", t.errf("if-init %s not recognised", "statement")
		}
		if neg {
			s = "(negb " + s + ")"
		}
		return s, nil
	}
	return t.boolExpr(is.Cond)
}

func (t *c01Tr) sub(l []ast.Stmt, c *c01Ctx, ind string) (string, error) {
	saved := len(t.env)
	s, err := t.block(l, c, ind)
	t.env = t.env[:saved]
	return s, err
}

// assignment of an already translated value to an lvalue; returns the `let … in` prefix
func (t *c01Tr) assignTo(lhs ast.Expr, define bool, val, kind string) (string, error) {
	switch x := lhs.(type) {
	case *ast.Ident:
		if x.Name == "_" {
			return "", nil
		}
		if k, ok := t.kindOf(x.Name); ok {
			if define {
				return "", t.errf("variable %s declared twice (shadowing is not translated)", x.Name)
			}
			if k != kind {
				return "", t.errf("assignment of a %s to %s of kind %s", kind, x.Name, k)
			}
		} else {
			if !define {
				return "", t.errf("assignment to unknown variable %s", x.Name)
			}
			if err := t.declare(x.Name, kind); err != nil {
				return "", err
			}
		}
		return "let " + x.Name + " := " + val + " in", nil
	case *ast.IndexExpr:
		// m[a][b] = v on a map of maps
		if inner, ok := x.X.(*ast.IndexExpr); ok {
			if id, ok := inner.X.(*ast.Ident); ok {
				if ok1, _ := t.kindOf(id.Name); ok1 != "" {
					outer, isMap := t.maps[ok1]
					in2, isMap2 := t.maps[outer.elem]
					if isMap && isMap2 && outer.set != "" && in2.set != "" && kind == in2.elem {
						a, ak, err := t.expr(inner.Index)
						if err != nil {
							return "", err
						}
						b, bk, err := t.expr(x.Index)
						if err != nil {
							return "", err
						}
						if ak != "key" || bk != "key" {
							return "", t.errf("assignment to an element of the map %s", id.Name)
						}
						return "let " + id.Name + " := " + outer.set + " " + a + " (" + in2.set + " " + b + " " + c01Paren(val) + " (" + outer.get + " " + id.Name + " " + a + ")) " + id.Name + " in", nil
					}
				}
			}
		}
		id, ok := x.X.(*ast.Ident)
		if !ok {
			break
		}
		lk, ok := t.kindOf(id.Name)
		if !ok {
			break
		}
		if mkd, isMap := t.maps[lk]; isMap && mkd.set != "" && kind == mkd.elem {
			k, kk, err := t.expr(x.Index)
			if err != nil {
				return "", err
			}
			if kk != "key" {
				return "", t.errf("assignment to an element of the map %s", id.Name)
			}
			return "let " + id.Name + " := " + mkd.set + " " + k + " " + c01Paren(val) + " " + id.Name + " in", nil
		}
		if lk == "kmap" && kind == "key" {
			k, kk, err := t.expr(x.Index)
			if err != nil {
				return "", err
			}
			if kk != "key" {
				return "", t.errf("assignment to an element of the map %s", id.Name)
			}
			return "let " + id.Name + " := km_set " + k + " " + val + " " + id.Name + " in", nil
		}
		if lk == "kset" {
			k, kk, err := t.expr(x.Index)
			if err != nil {
				return "", err
			}
			if kk != "key" || (kind != "unit" && kind != "bool") {
				return "", t.errf("assignment to an element of the set %s", id.Name)
			}
			if kind == "bool" && val != "true" {
				return "", t.errf("a set element of %s is given a value other than true", id.Name)
			}
			return "let " + id.Name + " := s_add " + k + " " + id.Name + " in", nil
		}
		if ek, ok := t.elemOf[lk]; ok && ek == kind {
			i, ik, err := t.expr(x.Index)
			if err != nil {
				return "", err
			}
			if ik != "nat" {
				break
			}
			return "let " + id.Name + " := l_set " + i + " " + val + " " + id.Name + " in", nil
		}
	case *ast.SelectorExpr:
		if f, ok := t.fields[c01Squash(x)]; ok {
			if f.kind != kind {
				return "", t.errf("assignment of a %s to %s of kind %s", kind, c01Squash(x), f.kind)
			}
			return "let " + f.rec + " := " + f.set + " " + f.rec + " " + c01Paren(val) + " in", nil
		}
	}
	return "", t.errf("assignment to %s not recognised", c01Squash(lhs))
}

func (t *c01Tr) block(l []ast.Stmt, c *c01Ctx, ind string) (string, error) {
	if len(l) == 0 {
		return t.finish(c, "")
	}
	rest := func() (string, error) { return t.block(l[1:], c, ind) }
	join := func(prefix string) (string, error) {
		r, err := rest()
		if err != nil {
			return "", err
		}
		if prefix == "" {
			return r, nil
		}
		return prefix + "\n" + ind + r, nil
	}
	switch x := l[0].(type) {
	case *ast.EmptyStmt:
		return rest()
	case *ast.BranchStmt:
		switch x.Tok {
		case token.BREAK:
			return t.finish(c, "break")
		case token.CONTINUE:
			return t.finish(c, "continue")
		}
	case *ast.ReturnStmt:
		return t.ret(c, x)
	case *ast.DeclStmt:
		gd, ok := x.Decl.(*ast.GenDecl)
		if !ok || gd.Tok != token.VAR {
			break
		}
		var pre []string
		for _, sp := range gd.Specs {
			vs := sp.(*ast.ValueSpec)
			if len(vs.Values) != 0 || vs.Type == nil {
				return "", t.errf("var declaration with initial values")
			}
			ty := c01Squash(vs.Type)
			for _, n := range vs.Names {
				switch ty {
				case "error":
					// assigned by the calls that follow; every use is an `if err != nil` that is translated with the call
				case "[]string":
					if err := t.declare(n.Name, "keys"); err != nil {
						return "", err
					}
					pre = append(pre, "let "+n.Name+" := "+t.zeroOf("keys")+" in")
				case "string":
					if err := t.declare(n.Name, "key"); err != nil {
						return "", err
					}
					pre = append(pre, "let "+n.Name+" := "+t.zeroOf("key")+" in")
				default:
					return "", t.errf("var %s of type %s", n.Name, ty)
				}
			}
		}
		return join(strings.Join(pre, "\n"+ind))
	case *ast.IncDecStmt:
		s, k, err := t.expr(x.X)
		if err != nil {
			return "", err
		}
		if k != "nat" || x.Tok != token.INC {
			break
		}
		pre, err := t.assignTo(x.X, false, "(S "+s+")", "nat")
		if err != nil {
			return "", err
		}
		return join(pre)
	case *ast.ExprStmt:
		call, ok := x.X.(*ast.CallExpr)
		if !ok {
			break
		}
		if id, ok := call.Fun.(*ast.Ident); ok && id.Name == "delete" && len(call.Args) == 2 {
			m, ok := call.Args[0].(*ast.Ident)
			if !ok {
				break
			}
			if mk, _ := t.kindOf(m.Name); mk != "kset" {
				break
			}
			k, kk, err := t.expr(call.Args[1])
			if err != nil {
				return "", err
			}
			if kk != "key" {
				break
			}
			return join("let " + m.Name + " := s_del " + k + " " + m.Name + " in")
		}
		if cl, recv, ok := t.callOf(call); ok && !cl.fails && !cl.errVal && cl.state != "" && cl.result == "" {
			s, err := t.callText(cl, recv, call)
			if err != nil {
				return "", err
			}
			return join("let " + cl.state + " := " + s + " in")
		}
	case *ast.AssignStmt:
		return t.assign(l, x, c, ind)
	case *ast.IfStmt:
		return t.ifStmt(l, x, c, ind)
	case *ast.RangeStmt:
		return t.rangeStmt(l, x, c, ind)
	}
	return "", t.errf("statement not recognised: %T", l[0])
}

func (t *c01Tr) assign(l []ast.Stmt, x *ast.AssignStmt, c *c01Ctx, ind string) (string, error) {
	join := func(prefix string, skip int) (string, error) {
		r, err := t.block(l[skip:], c, ind)
		if err != nil {
			return "", err
		}
		if prefix == "" {
			return r, nil
		}
		return prefix + "\n" + ind + r, nil
	}
	define := x.Tok == token.DEFINE
	if x.Tok != token.ASSIGN && x.Tok != token.DEFINE {
		return "", t.errf("assignment operator %s", x.Tok)
	}
	if len(x.Rhs) == 1 && len(x.Lhs) == 1 {
		if call, ok := x.Rhs[0].(*ast.CallExpr); ok {
			if cl, recv, ok := t.callOf(call); ok && cl.errVal {
				pre, err := t.errValCall(cl, recv, call, x.Lhs[0], define)
				if err != nil {
					return "", err
				}
				return join(pre, 1)
			}
			if cl, recv, ok := t.callOf(call); ok && !cl.fails && cl.state != "" && cl.result != "" {
				// x := c.m(a): a translated method that returns a value and changes its receiver
				id, ok := x.Lhs[0].(*ast.Ident)
				if !ok || !define {
					return "", t.errf("result of %s is not assigned to a new variable", cl.sym)
				}
				s, err := t.callText(cl, recv, call)
				if err != nil {
					return "", err
				}
				if err := t.declare(id.Name, cl.result); err != nil {
					return "", err
				}
				return join("let '("+id.Name+", "+cl.state+") := "+s+" in", 1)
			}
		}
	}
	// calls that can fail: x, err = f(…) / err = f(…), followed by `if err != nil { return … }`
	if len(x.Rhs) == 1 {
		if call, ok := x.Rhs[0].(*ast.CallExpr); ok {
			if cl, recv, ok := t.callOf(call); ok && cl.fails {
				if !c01IsErrIdent(x.Lhs[len(x.Lhs)-1]) || len(l) < 2 || !t.isErrCheck(l[1]) {
					return "", t.errf("a failing call whose error is not checked by the next statement")
				}
				if !c.res && !c.top {
					return "", t.errf("internal: failing call in a pure block")
				}
				s, err := t.callText(cl, recv, call)
				if err != nil {
					return "", err
				}
				want := 1
				if cl.result != "" {
					want = 2
				}
				if len(cl.results) > 0 {
					// v1, …, vn, err := f(…)
					if len(x.Lhs) != len(cl.results)+1 {
						return "", t.errf("call %s assigned to %d variables", cl.sym, len(x.Lhs))
					}
					var binds, pres []string
					for i, rk := range cl.results {
						id, ok := x.Lhs[i].(*ast.Ident)
						if !ok {
							return "", t.errf("result %d of %s is not assigned to a variable", i, cl.sym)
						}
						if id.Name == "_" {
							binds = append(binds, "_")
							continue
						}
						bind := "v_" + strconv.Itoa(len(t.env)) + "_" + strconv.Itoa(i)
						_, known := t.kindOf(id.Name)
						pre, err := t.assignTo(id, define && !known, bind, rk)
						if err != nil {
							return "", err
						}
						binds = append(binds, bind)
						pres = append(pres, pre)
					}
					if cl.state != "" {
						binds = append(binds, cl.state)
					}
					return join("do ("+strings.Join(binds, ", ")+") <- "+s+";\n"+ind+strings.Join(pres, "\n"+ind), 2)
				}
				if len(x.Lhs) != want {
					return "", t.errf("call %s assigned to %d variables", cl.sym, len(x.Lhs))
				}
				switch {
				case cl.result == "" && cl.state != "":
					return join("do "+cl.state+" <- "+s+";", 2)
				case cl.result == "":
					return join("do _ <- "+s+";", 2)
				}
				bind := "v_" + strconv.Itoa(len(t.env))
				var pre string
				if id, ok := x.Lhs[0].(*ast.Ident); ok && id.Name == "_" {
					bind = "_"
				} else {
					// errors are values of their own in Go: := may redeclare err next to a new variable
					isNew := false
					if id, ok := x.Lhs[0].(*ast.Ident); ok {
						_, known := t.kindOf(id.Name)
						isNew = define && !known
					}
					pre, err = t.assignTo(x.Lhs[0], isNew, bind, cl.result)
					if err != nil {
						return "", err
					}
				}
				if cl.state != "" {
					return join("do ("+bind+", "+cl.state+") <- "+s+";\n"+ind+pre, 2)
				}
				return join("do "+bind+" <- "+s+";\n"+ind+pre, 2)
			}
		}
	}
	// x, ok := m[k]; if !ok { … }: x := m[k], then the test on presence
	if define && len(x.Lhs) == 2 && len(x.Rhs) == 1 && len(l) >= 2 {
		if ix, isIx := x.Rhs[0].(*ast.IndexExpr); isIx {
			vid, ok1 := x.Lhs[0].(*ast.Ident)
			okid, ok2 := x.Lhs[1].(*ast.Ident)
			if is, isIf := l[1].(*ast.IfStmt); isIf && ok1 && ok2 && is.Init == nil && okid.Name != "_" {
				usesOK := c01IsIdentNamed(is.Cond, okid.Name)
				if u, isU := is.Cond.(*ast.UnaryExpr); isU && u.Op == token.NOT && c01IsIdentNamed(u.X, okid.Name) {
					usesOK = true
				}
				if usesOK && !c01ReadBeforeWrite(l[2:], okid.Name) && !c01Mentions(is.Body.List, okid.Name) {
					first := &ast.AssignStmt{Lhs: []ast.Expr{vid}, Tok: token.DEFINE, Rhs: []ast.Expr{ix}}
					test := &ast.IfStmt{Init: &ast.AssignStmt{Lhs: []ast.Expr{ast.NewIdent("_"), okid}, Tok: token.DEFINE, Rhs: []ast.Expr{ix}},
						Cond: is.Cond, Body: is.Body, Else: is.Else}
					nl := append([]ast.Stmt{first, test}, l[2:]...)
					if vid.Name == "_" {
						nl = nl[1:]
					}
					return t.block(nl, c, ind)
				}
			}
		}
	}
	if len(x.Lhs) != 1 || len(x.Rhs) != 1 {
		return "", t.errf("assignment with %d left-hand sides", len(x.Lhs))
	}
	lhs, rhs := x.Lhs[0], x.Rhs[0]
	// x = append(x, …)
	if call, ok := rhs.(*ast.CallExpr); ok {
		if id, ok := call.Fun.(*ast.Ident); ok && id.Name == "append" && len(call.Args) == 2 {
			b, bk, err := t.expr(call.Args[0])
			if err != nil {
				return "", err
			}
			a, ak, err := t.expr(call.Args[1])
			if err != nil {
				return "", err
			}
			ek, ok := t.elemOf[bk]
			if !ok || bk == "kset" {
				return "", t.errf("append to a %s", bk)
			}
			var val string
			switch {
			case call.Ellipsis.IsValid() && (ak == bk || (ak == "kset" && bk == "keys")):
				val = "(" + b + " ++ " + a + ")"
			case !call.Ellipsis.IsValid() && ak == ek:
				val = "(" + b + " ++ [" + a + "])"
			default:
				return "", t.errf("append of a %s to a %s", ak, bk)
			}
			pre, err := t.assignTo(lhs, define, val, bk)
			if err != nil {
				return "", err
			}
			return join(pre, 1)
		}
		if id, ok := call.Fun.(*ast.Ident); ok && id.Name == "make" && len(call.Args) >= 1 {
			kind := ""
			switch ty := call.Args[0].(type) {
			case *ast.ArrayType:
				if c01Squash(ty.Elt) == "string" && (len(call.Args) == 1 || c01Squash(call.Args[1]) == "0") {
					kind = "keys"
				}
				if k, ok := t.makeKinds[c01Squash(ty)]; ok && len(call.Args) == 2 {
					// make([]T, n): n zero values
					n, nk, err := t.expr(call.Args[1])
					if err != nil {
						return "", err
					}
					if nk != "nat" {
						return "", t.errf("make(%s, <%s>)", c01Squash(ty), nk)
					}
					ek := t.elemOf[k]
					pre, err := t.assignTo(lhs, define, "(repeat "+t.zeroOf(ek)+" "+n+")", k)
					if err != nil {
						return "", err
					}
					return join(pre, 1)
				}
			case *ast.MapType:
				if c01Squash(ty.Key) == "string" && (c01Squash(ty.Value) == "struct{}" || c01Squash(ty.Value) == "bool") {
					kind = "kset"
				}
				if c01Squash(ty.Key) == "string" && c01Squash(ty.Value) == "string" {
					kind = "kmap"
				}
				if k, ok := t.makeKinds[c01Squash(ty)]; ok {
					kind = k
				}
			}
			if kind == "" {
				return "", t.errf("make(%s)", c01Squash(call.Args[0]))
			}
			pre, err := t.assignTo(lhs, define, t.zeroOf(kind), kind)
			if err != nil {
				return "", err
			}
			return join(pre, 1)
		}
	}
	// m[k] = struct{}{}
	if cl, ok := rhs.(*ast.CompositeLit); ok && c01Squash(cl.Type) == "struct{}" && len(cl.Elts) == 0 {
		pre, err := t.assignTo(lhs, define, "tt", "unit")
		if err != nil {
			return "", err
		}
		return join(pre, 1)
	}
	// []string{a, b}
	if cl, ok := rhs.(*ast.CompositeLit); ok && c01Squash(cl.Type) == "[]string" {
		var es []string
		for _, el := range cl.Elts {
			s, k, err := t.expr(el)
			if err != nil {
				return "", err
			}
			if k != "key" {
				return "", t.errf("[]string literal with an element of kind %s", k)
			}
			es = append(es, s)
		}
		pre, err := t.assignTo(lhs, define, "["+strings.Join(es, "; ")+"]", "keys")
		if err != nil {
			return "", err
		}
		return join(pre, 1)
	}
	val, kind, err := t.expr(rhs)
	if err != nil {
		return "", err
	}
	pre, err := t.assignTo(lhs, define, val, kind)
	if err != nil {
		return "", err
	}
	return join(pre, 1)
}

func (t *c01Tr) ifStmt(l []ast.Stmt, x *ast.IfStmt, c *c01Ctx, ind string) (string, error) {
	// if err := o.m(a); err != nil { … }: the call, then the test; err is in scope of the if only
	if as, ok := x.Init.(*ast.AssignStmt); ok && len(as.Lhs) == 1 && len(as.Rhs) == 1 && as.Tok == token.DEFINE {
		if call, ok := as.Rhs[0].(*ast.CallExpr); ok {
			if cl, recv, ok := t.callOf(call); ok && cl.errVal {
				saved := len(t.env)
				pre, err := t.errValCall(cl, recv, call, as.Lhs[0], true)
				if err != nil {
					return "", err
				}
				if x.Else != nil || !c01AlwaysExits(x.Body.List) {
					return "", t.errf("if with a call in its init statement whose body does not leave the block")
				}
				cond, err := t.boolExpr(x.Cond)
				if err != nil {
					return "", err
				}
				th, err := t.sub(x.Body.List, c, ind+"  ")
				if err != nil {
					return "", err
				}
				t.env = t.env[:saved]
				r, err := t.block(l[1:], c, ind)
				if err != nil {
					return "", err
				}
				return pre + "\n" + ind + "if " + cond + " then " + c01Paren(th) + "\n" + ind + "else " + r, nil
			}
		}
	}
	// value mode: `if s, ok := x.(streamReader); ok { … }` — no value is a stream, the arm is never taken
	if t.valueMode && x.Else == nil {
		if as, ok := x.Init.(*ast.AssignStmt); ok && as.Tok == token.DEFINE && len(as.Lhs) == 2 && len(as.Rhs) == 1 {
			if ta, ok := as.Rhs[0].(*ast.TypeAssertExpr); ok && ta.Type != nil && c01Squash(ta.Type) == "streamReader" {
				if okv, ok := as.Lhs[1].(*ast.Ident); ok && c01IsIdentNamed(x.Cond, okv.Name) {
					if _, _, err := t.expr(ta.X); err != nil {
						return "", err
					}
					return t.block(l[1:], c, ind)
				}
			}
		}
	}
	// if v, ok := m[k]; ok / !ok { … }: v := m[k] (the zero value when k is absent, as in Go), then the test on presence
	if as, ok := x.Init.(*ast.AssignStmt); ok && as.Tok == token.DEFINE && len(as.Lhs) == 2 && len(as.Rhs) == 1 {
		if ix, ok := as.Rhs[0].(*ast.IndexExpr); ok {
			vid, ok1 := as.Lhs[0].(*ast.Ident)
			okid, ok2 := as.Lhs[1].(*ast.Ident)
			if ok1 && ok2 && vid.Name != "_" && okid.Name != "_" {
				if _, known := t.kindOf(vid.Name); !known && !c01Mentions(l[1:], vid.Name) {
					val, kind, err := t.expr(ix)
					if err != nil {
						return "", err
					}
					saved := len(t.env)
					if err := t.declare(vid.Name, kind); err != nil {
						return "", err
					}
					test := &ast.IfStmt{Init: &ast.AssignStmt{Lhs: []ast.Expr{ast.NewIdent("_"), okid}, Tok: token.DEFINE, Rhs: []ast.Expr{ix}},
						Cond: x.Cond, Body: x.Body, Else: x.Else}
					r, err := t.ifStmt(append([]ast.Stmt{test}, l[1:]...), test, c, ind)
					t.env = t.env[:saved]
					if err != nil {
						return "", err
					}
					return "let " + vid.Name + " := " + val + " in\n" + ind + r, nil
				}
			}
		}
	}
	// if v := e; cond { … }: v is a variable of the if statement only
	if as, ok := x.Init.(*ast.AssignStmt); ok && as.Tok == token.DEFINE && len(as.Lhs) == 1 && len(as.Rhs) == 1 {
		if id, ok := as.Lhs[0].(*ast.Ident); ok && id.Name != "_" {
			if _, isCall := as.Rhs[0].(*ast.CallExpr); !isCall {
				if _, known := t.kindOf(id.Name); !known {
					val, kind, err := t.expr(as.Rhs[0])
					if err != nil {
						return "", err
					}
					if c01Mentions(l[1:], id.Name) {
						return "", t.errf("the variable %s of an if statement is also a variable of the statements that follow", id.Name)
					}
					saved := len(t.env)
					if err := t.declare(id.Name, kind); err != nil {
						return "", err
					}
					plain := &ast.IfStmt{Cond: x.Cond, Body: x.Body, Else: x.Else}
					r, err := t.ifStmt(append([]ast.Stmt{plain}, l[1:]...), plain, c, ind)
					t.env = t.env[:saved]
					if err != nil {
						return "", err
					}
					return "let " + id.Name + " := " + val + " in\n" + ind + r, nil
				}
			}
		}
	}
	cond, err := t.ifCond(x)
	if err != nil {
		return "", err
	}
	var els []ast.Stmt
	if x.Else != nil {
		switch e := x.Else.(type) {
		case *ast.BlockStmt:
			els = e.List
		case *ast.IfStmt:
			els = []ast.Stmt{e}
		}
	}
	then := x.Body.List
	after := l[1:]
	in2 := ind + "  "
	switch {
	case !c01HasAnyJump(then) && !c01HasAnyJump(els):
		// both arms only change variables: hand on what they assign
		muts := t.assigned(append(append([]ast.Stmt{}, then...), els...))
		if len(muts) == 0 {
			return "", t.errf("an if statement without effect inside the translated fragment")
		}
		ic := &c01Ctx{muts: muts}
		th, err := t.sub(then, ic, in2)
		if err != nil {
			return "", err
		}
		el, err := t.sub(els, ic, in2)
		if err != nil {
			return "", err
		}
		r, err := t.block(after, c, ind)
		if err != nil {
			return "", err
		}
		return "let " + c01Tuple(muts, true) + " := (if " + cond + " then " + c01Paren(th) + " else " + c01Paren(el) + ") in\n" + ind + r, nil
	case c01AlwaysExits(then) && x.Else == nil:
		th, err := t.sub(then, c, in2)
		if err != nil {
			return "", err
		}
		r, err := t.block(after, c, ind)
		if err != nil {
			return "", err
		}
		return "if " + cond + " then " + c01Paren(th) + "\n" + ind + "else " + r, nil
	case x.Else != nil && c01AlwaysExits(then) && c01AlwaysExits(els):
		if len(after) != 0 {
			return "", t.errf("statements after an if-else both arms of which leave the block")
		}
		th, err := t.sub(then, c, in2)
		if err != nil {
			return "", err
		}
		el, err := t.sub(els, c, in2)
		if err != nil {
			return "", err
		}
		return "if " + cond + " then " + c01Paren(th) + "\n" + ind + "else " + c01Paren(el), nil
	}
	// an arm leaves the block on some paths only: each arm is continued by the statements that follow
	if t.hasErr && (c01HasReturn(then) || c01HasReturn(els)) && c01OnlyErrorReturns(then) && c01OnlyErrorReturns(els) {
		// arms with error returns and assignments (x, err = f(); if err != nil { return }): the arms are blocks
		// in the error monad that hand on what they assign
		if !c01HasJump(then, token.BREAK) && !c01HasJump(then, token.CONTINUE) && !c01HasJump(els, token.BREAK) && !c01HasJump(els, token.CONTINUE) {
			muts := t.assigned(append(append([]ast.Stmt{}, then...), els...))
			ic := &c01Ctx{muts: muts, res: true}
			th, err := t.sub(then, ic, in2)
			if err != nil {
				return "", err
			}
			el, err := t.sub(els, ic, in2)
			if err != nil {
				return "", err
			}
			r, err := t.block(after, c, ind)
			if err != nil {
				return "", err
			}
			return "do " + c01DoPat(muts) + " <- (if " + cond + " then " + c01Paren(th) + "\n" + ind + "  else " + c01Paren(el) + ");\n" + ind + r, nil
		}
	}
	if len(after) == 0 {
		th, err := t.sub(then, c, in2)
		if err != nil {
			return "", err
		}
		el, err := t.sub(els, c, in2)
		if err != nil {
			return "", err
		}
		return "if " + cond + " then " + c01Paren(th) + "\n" + ind + "else " + c01Paren(el), nil
	}
	// a join point: the statements that follow become a local function of the variables the arms assign
	muts := t.assigned(append(append([]ast.Stmt{}, then...), els...))
	t.njoin++
	k := "k_" + strconv.Itoa(t.njoin)
	ty := t.stateType(muts, false)
	jc := &c01Ctx{muts: muts, cont: k, outer: c, res: c.res}
	th, err := t.sub(then, jc, in2)
	if err != nil {
		return "", err
	}
	el, err := t.sub(els, jc, in2)
	if err != nil {
		return "", err
	}
	r, err := t.block(after, c, ind+"  ")
	if err != nil {
		return "", err
	}
	return "let " + k + " := (fun (st_ : " + ty + ") => let " + c01Tuple(muts, true) + " := st_ in\n" + ind + "  " + r + ") in\n" +
		ind + "if " + cond + " then " + c01Paren(th) + "\n" + ind + "else " + c01Paren(el), nil
}

// err := o.m(a) where m changes o and returns an error value: let '(o', err) := m' o a in <o := o'>
func (t *c01Tr) errValCall(cl c01Call, recv ast.Expr, call *ast.CallExpr, lhs ast.Expr, define bool) (string, error) {
	id, ok := lhs.(*ast.Ident)
	if !ok {
		return "", t.errf("the error of %s is not assigned to a variable", cl.sym)
	}
	f, ok := t.fields[cl.stateExpr]
	if !ok {
		return "", t.errf("internal: call %s without state field", cl.sym)
	}
	saveState := cl.state
	cl.state = "(" + f.get + " " + f.rec + ")"
	s, err := t.callText(cl, recv, call)
	cl.state = saveState
	if err != nil {
		return "", err
	}
	if _, known := t.kindOf(id.Name); !known {
		if !define {
			return "", t.errf("assignment to unknown variable %s", id.Name)
		}
		if err := t.declare(id.Name, "oerr"); err != nil {
			return "", err
		}
	} else if define {
		return "", t.errf("variable %s declared twice (shadowing is not translated)", id.Name)
	}
	return "let '(g_, " + id.Name + ") := " + s + " in\n    let " + f.rec + " := " + f.set + " " + f.rec + " g_ in", nil
}

// `for _, v := range L { if sr, ok := v.(streamReader); ok { sr.close() } }`: the loop assigns nothing and calls
// nothing but close on the stream readers among the values; where no value is a stream it has no effect
func c01OnlyClosesStreams(x *ast.RangeStmt) bool {
	if len(x.Body.List) != 1 {
		return false
	}
	is, ok := x.Body.List[0].(*ast.IfStmt)
	if !ok || is.Else != nil || len(is.Body.List) != 1 {
		return false
	}
	as, ok := is.Init.(*ast.AssignStmt)
	if !ok || as.Tok != token.DEFINE || len(as.Lhs) != 2 || len(as.Rhs) != 1 {
		return false
	}
	ta, ok := as.Rhs[0].(*ast.TypeAssertExpr)
	if !ok || ta.Type == nil || c01Squash(ta.Type) != "streamReader" {
		return false
	}
	sr, ok1 := as.Lhs[0].(*ast.Ident)
	okv, ok2 := as.Lhs[1].(*ast.Ident)
	if !ok1 || !ok2 || !c01IsIdentNamed(is.Cond, okv.Name) {
		return false
	}
	es, ok := is.Body.List[0].(*ast.ExprStmt)
	if !ok {
		return false
	}
	call, ok := es.X.(*ast.CallExpr)
	if !ok || len(call.Args) != 0 {
		return false
	}
	sel, ok := call.Fun.(*ast.SelectorExpr)
	return ok && sel.Sel.Name == "close" && c01IsIdentNamed(sel.X, sr.Name)
}

func (t *c01Tr) rangeStmt(l []ast.Stmt, x *ast.RangeStmt, c *c01Ctx, ind string) (string, error) {
	if t.valueMode && c01OnlyClosesStreams(x) {
		if _, _, err := t.expr(x.X); err != nil {
			return "", err
		}
		return t.block(l[1:], c, ind)
	}
	if x.Tok != token.DEFINE && x.Key != nil {
		return "", t.errf("range loop that assigns to existing variables")
	}
	coll, ck, err := t.expr(x.X)
	if err != nil {
		return "", err
	}
	ek, ok := t.elemOf[ck]
	mk, isMap := t.maps[ck]
	if isMap {
		ek, ok = "key", true
	}
	if !ok {
		return "", t.errf("range over a %s", ck)
	}
	name := func(e ast.Expr) string {
		if e == nil {
			return "_"
		}
		if id, ok := e.(*ast.Ident); ok {
			return id.Name
		}
		return "?"
	}
	kv, vv := name(x.Key), name(x.Value)
	if kv == "?" || vv == "?" {
		return "", t.errf("range variables are not identifiers")
	}
	saved := len(t.env)
	defer func() { t.env = t.env[:saved] }()
	var binder, over string
	switch {
	case isMap && mk.pairs && vv != "_":
		// for k, v := range m (Go's order is arbitrary; the model's list order stands for it)
		binder, over = "ix_", coll
		if err := t.declare(kv, "key"); err != nil {
			return "", err
		}
		if err := t.declare(vv, mk.elem); err != nil {
			return "", err
		}
	case isMap:
		if vv != "_" {
			return "", t.errf("range over a map with a value variable")
		}
		if mk.keys == "" {
			return "", t.errf("range over the keys of a %s", ck)
		}
		binder, over = kv, "("+mk.keys+" "+coll+")"
		if err := t.declare(kv, "key"); err != nil {
			return "", err
		}
	case ck == "kset":
		// for k := range set / for k, _ := range set
		if vv != "_" {
			return "", t.errf("range over a set with a value variable")
		}
		binder, over = kv, "(s_elems "+coll+")"
		if err := t.declare(kv, ek); err != nil {
			return "", err
		}
	case kv == "_":
		binder, over = vv, coll
		if err := t.declare(vv, ek); err != nil {
			return "", err
		}
	case vv == "_":
		// for i := range l
		binder, over = kv, "(seq 0 (List.length "+coll+"))"
		if err := t.declare(kv, "nat"); err != nil {
			return "", err
		}
	default:
		binder, over = "ix_", "(indexed "+coll+")"
		if err := t.declare(kv, "nat"); err != nil {
			return "", err
		}
		if err := t.declare(vv, ek); err != nil {
			return "", err
		}
	}
	body := x.Body.List
	muts := t.assignedBefore(body, saved)
	hasBrk := c01HasJump(body, token.BREAK)
	hasRet := c01HasReturn(body)
	retf := false
	if hasRet && t.retRecv != "" {
		// a method that returns its receiver: `return` inside the loop = leave the loop, then the method
		if !c.jumpCtx().top {
			return "", t.errf("a loop with a return nested in another loop")
		}
		retf, hasBrk, hasRet = true, true, false
	}
	retv := false
	if hasRet && t.retRecv == "" && !t.hasErr {
		// a function with one result: `return v` inside the loop = leave the loop, then return v
		if !c.jumpCtx().top || len(t.results) != 1 {
			return "", t.errf("a loop with a return in a function with %d results", len(t.results))
		}
		retv, hasBrk, hasRet = true, true, false
	}
	if hasRet && !c.res && !c.top {
		return "", t.errf("internal: loop with a return in a pure block")
	}
	bc := &c01Ctx{muts: muts, brk: hasBrk, res: hasRet, retf: retf, retv: retv}
	in2 := ind + "    "
	b, err := t.sub(body, bc, in2)
	if err != nil {
		return "", err
	}
	st := append([]string{}, muts...)
	if hasBrk {
		st = append(st, "brk")
	}
	if retf || retv {
		st = append(st, "ret_")
	}
	stTy := t.stateType(muts, hasBrk)
	if retf {
		stTy = t.stateType(muts, hasBrk, "bool")
	}
	if retv {
		rt, ok := t.types[t.results[0]]
		if !ok {
			rt = "_"
		}
		stTy = t.stateType(muts, hasBrk, "option ("+rt+")")
	}
	var fn strings.Builder
	fn.WriteString("(fun (st_ : " + stTy + ") " + binder + " => ")
	if binder == "ix_" {
		fn.WriteString("let " + kv + " := fst ix_ in let " + vv + " := snd ix_ in ")
	}
	fn.WriteString("let " + c01Tuple(st, true) + " := st_ in\n" + in2)
	if hasBrk {
		if hasRet {
			fn.WriteString("if brk then Ok st_ else\n" + in2)
		} else {
			fn.WriteString("if brk then st_ else\n" + in2)
		}
	}
	fn.WriteString(b + ")")
	init := append([]string{}, muts...)
	if hasBrk {
		init = append(init, "false")
	}
	after := append([]string{}, muts...)
	if hasBrk {
		after = append(after, "_")
	}
	if retf {
		init = append(init, "false")
		after = append(after, "ret_")
	}
	if retv {
		init = append(init, "None")
		after = append(after, "ret_")
	}
	t.env = t.env[:saved]
	r, err := t.block(l[1:], c, ind)
	if err != nil {
		return "", err
	}
	if retf {
		r = "if ret_ then " + c01Tuple(t.states, false) + "\n" + ind + "else " + r
	}
	if retv {
		r = "match ret_ with Some rv_ => " + c01Tuple(append([]string{"rv_"}, t.states...), false) + " | None =>\n" + ind + r + "\n" + ind + "end"
	}
	if hasRet {
		return "do " + c01DoPat(after) + " <- fold_res " + fn.String() + "\n" + ind + "  " + over + " " + c01Tuple(init, false) + ";\n" + ind + r, nil
	}
	if len(muts) == 0 {
		return "", t.errf("a loop without effect inside the translated fragment")
	}
	return "let " + c01Tuple(after, true) + " := fold_left " + fn.String() + "\n" + ind + "  " + over + " " + c01Tuple(init, false) + " in\n" + ind + r, nil
}

// the variables declared before position n of the environment that l assigns
func (t *c01Tr) assignedBefore(l []ast.Stmt, n int) []string {
	all := t.assigned(l)
	var out []string
	for _, v := range all {
		for i := 0; i < n; i++ {
			if t.env[i].name == v {
				out = append(out, v)
				break
			}
		}
	}
	return out
}

// translate a function body; params are already declared in t.env
func (t *c01Tr) function(body []ast.Stmt, ind string) (string, error) {
	return t.block(body, &c01Ctx{top: true, res: t.hasErr}, ind)
}
