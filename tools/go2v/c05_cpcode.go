package main

// Extractor "cpcode" (property C05): what a checkpoint persists and how a run is restored from it.
//
//   compose/checkpoint.go     type checkpoint struct                     -> checkpoint_fields
//                             forwardCheckPoint, clearCheckPoint         -> forward_checkpoint, clear_checkpoint
//   compose/dag.go            type dagChannel struct (exported = serialised, unexported = rebuilt by Compile)
//                             (*dagChannel).load                         -> dag_load
//   compose/pregel.go         type pregelChannel struct, (*pregelChannel).load   -> pregel_load
//   compose/graph_manager.go  (*channelManager).loadChannels             -> load_channels
//   compose/graph_run.go      (*runner).restoreTasks, (*runner).createTasks: the task literal, field by field
//                                                                        -> restore_task, create_task
//                             (*runner).run: the if / else-if chain that decides where a run starts from
//                             (checkpoint handed down by the parent graph, checkpoint read from the store, START)
//                             and the steps of the two restore blocks, in order
//                                                                        -> restore_source, restore_steps_ctx / _store
//
// Each piece is translated from the statements found (go/ast, no type checker): a field assignment of load
// becomes a record update, a return of forwardCheckPoint becomes what the task will find in its context, a
// field of the task literal becomes a component of the generated task.  Shapes outside the small fragment
// below are "not recognised" (tie unavailable); a recognised function that means something else makes
// Proofs/GenAgreeC05.v fail.
//
// Output: coq/Gen/CheckpointCode.v over the vocabulary of Model/CheckpointGenLib.v.

import (
	"fmt"
	"go/ast"
	"go/parser"
	"go/token"
	"go/types"
	"path/filepath"
	"strings"
)

func init() {
	register("cpcode", c05ExtractCpCode)
	registerFallback("cpcode", "CheckpointCode.v", "(* Gen/CheckpointCode.v — translator tie UNAVAILABLE: tools/go2v (extractor \"cpcode\") did not recognise the\n"+
		"   shape of compose/checkpoint.go / dag.go / pregel.go / graph_manager.go / graph_run.go; the model's own\n"+
		"   definitions are re-exported. *)\n"+
		"From Eino Require Import Base.Util Model.Graph Model.ChanGenLib Model.RunLoop Model.CheckpointGenLib Model.CheckpointTable.\n\n"+
		"Definition tie_available : bool := false.\n\n"+
		"Definition checkpoint_fields : list string := Model.CheckpointTable.checkpoint_fields.\n"+
		"Definition dag_channel_persisted : list string := Model.CheckpointTable.dag_channel_persisted.\n"+
		"Definition dag_channel_rebuilt : list string := Model.CheckpointTable.dag_channel_rebuilt.\n"+
		"Definition pregel_channel_persisted : list string := Model.CheckpointTable.pregel_channel_persisted.\n"+
		"Definition pregel_channel_rebuilt : list string := Model.CheckpointTable.pregel_channel_rebuilt.\n"+
		"Definition restore_steps_ctx : list string := Model.CheckpointTable.restore_steps_ctx.\n"+
		"Definition restore_steps_store : list string := Model.CheckpointTable.restore_steps_store.\n\n"+
		"Definition dag_load (V : Type) (ch dc : chan V) : chan V := model_load ch dc.\n"+
		"Definition pregel_load (V : Type) (ch dc : chan V) : chan V := model_load ch dc.\n"+
		"Definition load_channels (V : Type) (load : chan V -> chan V -> chan V) (own cp : chans V) : list (key * live_chan V) := model_load_channels own cp.\n"+
		"Definition forward_checkpoint (SCP : Type) (cp : option (list (N * SCP))) (nodeKey : N) : fwd SCP := model_forward cp nodeKey.\n"+
		"Definition clear_checkpoint (SCP : Type) (cp : option (list (N * SCP))) : fwd SCP := FNone.\n"+
		"Arguments forward_checkpoint {SCP}. Arguments clear_checkpoint {SCP}.\n"+
		"Definition restore_task (V SCP : Type) (cp : option (list (N * SCP))) (skipPreHandler : list N) (kv : N * V) : gtask V SCP :=\n"+
		"  model_restore_task cp skipPreHandler kv.\n"+
		"Definition create_task (V SCP : Type) (cp : option (list (N * SCP))) (kv : N * V) : gtask V SCP := model_create_task kv.\n"+
		"Definition restore_source (isSubGraph ctxCp hasID storeCp : bool) : rsrc := model_restore_source isSubGraph ctxCp hasID storeCp.\n")
}

// ---- helpers (copies, under this file's prefix, of small helpers of the original extractors)

func c05ParseGo(fset *token.FileSet, repo string, rel ...string) (*ast.File, error) {
	f, err := parser.ParseFile(fset, filepath.Join(append([]string{repo}, rel...)...), nil, 0)
	if err != nil {
		return nil, err
	}
	c05InlineHelpers(f) // private helpers called from a translated function are put back (c05_inline.go)
	c05NormalizeFile(f) // behaviour-preserving rewrites (c05_norm.go)
	return f, nil
}

func c05TopFunc(f *ast.File, name string) *ast.FuncDecl {
	for _, d := range f.Decls {
		if fn, ok := d.(*ast.FuncDecl); ok && fn.Recv == nil && fn.Name.Name == name {
			return fn
		}
	}
	return nil
}

func c05MethodOf(f *ast.File, recvType, name string) *ast.FuncDecl {
	for _, d := range f.Decls {
		fn, ok := d.(*ast.FuncDecl)
		if !ok || fn.Recv == nil || fn.Name.Name != name || len(fn.Recv.List) != 1 {
			continue
		}
		if st, ok := fn.Recv.List[0].Type.(*ast.StarExpr); ok {
			if id, ok := st.X.(*ast.Ident); ok && id.Name == recvType {
				return fn
			}
		}
	}
	return nil
}

func c05AlwaysReturns(l []ast.Stmt) bool {
	if len(l) == 0 {
		return false
	}
	switch x := l[len(l)-1].(type) {
	case *ast.ReturnStmt:
		return true
	case *ast.IfStmt:
		if x.Else == nil {
			return false
		}
		eb, ok := x.Else.(*ast.BlockStmt)
		return ok && c05AlwaysReturns(x.Body.List) && c05AlwaysReturns(eb.List)
	}
	return false
}

func c05IsNil(e ast.Expr) bool {
	id, ok := e.(*ast.Ident)
	return ok && id.Name == "nil"
}

func c05Squash(s string) string { return strings.Join(strings.Fields(s), "") }

func c05Err(where, format string, a ...any) error {
	return fmt.Errorf("%s: %s", where, fmt.Sprintf(format, a...))
}

// c05StructFields: the field names of `type name struct`, exported ones and the others, in order.
func c05StructFields(f *ast.File, name string) (exported, other []string, err error) {
	for _, d := range f.Decls {
		gd, ok := d.(*ast.GenDecl)
		if !ok || gd.Tok != token.TYPE {
			continue
		}
		for _, sp := range gd.Specs {
			ts := sp.(*ast.TypeSpec)
			if ts.Name.Name != name {
				continue
			}
			st, ok := ts.Type.(*ast.StructType)
			if !ok {
				return nil, nil, fmt.Errorf("type %s is not a struct", name)
			}
			for _, fl := range st.Fields.List {
				if len(fl.Names) == 0 {
					return nil, nil, fmt.Errorf("type %s has an embedded field", name)
				}
				for _, n := range fl.Names {
					if n.IsExported() {
						exported = append(exported, n.Name)
					} else {
						other = append(other, n.Name)
					}
				}
			}
			return exported, other, nil
		}
	}
	return nil, nil, fmt.Errorf("type %s not found", name)
}

func c05StrList(l []string) string {
	q := make([]string, len(l))
	for i, s := range l {
		q[i] = "\"" + s + "\""
	}
	return "[" + strings.Join(q, "; ") + "]"
}

func c05Ident(e ast.Expr) string {
	if id, ok := e.(*ast.Ident); ok {
		return id.Name
	}
	return ""
}

// sel: e = x.f with x an identifier
func c05Sel(e ast.Expr) (x, f string, ok bool) {
	s, ok := e.(*ast.SelectorExpr)
	if !ok {
		return "", "", false
	}
	id, ok := s.X.(*ast.Ident)
	if !ok {
		return "", "", false
	}
	return id.Name, s.Sel.Name, true
}

func c05Recv(fn *ast.FuncDecl) string {
	if fn.Recv != nil && len(fn.Recv.List) == 1 && len(fn.Recv.List[0].Names) == 1 {
		return fn.Recv.List[0].Names[0].Name
	}
	return ""
}

func c05ParamNames(fn *ast.FuncDecl) []string {
	var pn []string
	for _, fl := range fn.Type.Params.List {
		for _, n := range fl.Names {
			pn = append(pn, n.Name)
		}
	}
	return pn
}

// ---------------------------------------------------------------- load

// c05LoadMethod translates
//
//	dc, ok := c.(*T); if !ok { return <error> }; ch.F = dc.G ...; return nil
//
// into  let ch := ch_set_f ch (ch_g dc) in ... ch.
func c05LoadMethod(f *ast.File, typ string, fields map[string]string) (string, error) {
	where := "(*" + typ + ").load"
	fn := c05MethodOf(f, typ, "load")
	if fn == nil || fn.Body == nil {
		return "", c05Err(where, "not found")
	}
	recv := c05Recv(fn)
	pn := c05ParamNames(fn)
	if recv == "" || len(pn) != 1 {
		return "", c05Err(where, "receiver / parameters")
	}
	l := fn.Body.List
	if len(l) < 3 {
		return "", c05Err(where, "body too short")
	}
	// dc, ok := c.(*T)
	as, ok := l[0].(*ast.AssignStmt)
	if !ok || as.Tok != token.DEFINE || len(as.Lhs) != 2 || len(as.Rhs) != 1 {
		return "", c05Err(where, "first statement is not `dc, ok := c.(*%s)`", typ)
	}
	ta, ok := as.Rhs[0].(*ast.TypeAssertExpr)
	if !ok || c05Ident(ta.X) != pn[0] || types.ExprString(ta.Type) != "*"+typ {
		return "", c05Err(where, "first statement is not `dc, ok := c.(*%s)`", typ)
	}
	src, okv := c05Ident(as.Lhs[0]), c05Ident(as.Lhs[1])
	// if !ok { return ... }
	is, ok := l[1].(*ast.IfStmt)
	if !ok || is.Init != nil || is.Else != nil || types.ExprString(is.Cond) != "!"+okv || !c05AlwaysReturns(is.Body.List) {
		return "", c05Err(where, "second statement is not `if !ok { return ... }`")
	}
	// return nil
	ret, ok := l[len(l)-1].(*ast.ReturnStmt)
	if !ok || len(ret.Results) != 1 || !c05IsNil(ret.Results[0]) {
		return "", c05Err(where, "last statement is not `return nil`")
	}
	var b strings.Builder
	for _, s := range l[2 : len(l)-1] {
		a, ok := s.(*ast.AssignStmt)
		if !ok || a.Tok != token.ASSIGN || len(a.Lhs) != 1 || len(a.Rhs) != 1 {
			return "", c05Err(where, "statement is not a field assignment: %s", types.ExprString(c05ExprOfStmt(s)))
		}
		lx, lf, ok1 := c05Sel(a.Lhs[0])
		rx, rf, ok2 := c05Sel(a.Rhs[0])
		if !ok1 || !ok2 || lx != recv || rx != src {
			return "", c05Err(where, "assignment is not `%s.F = %s.G`", recv, src)
		}
		gl, ok1 := fields[lf]
		gr, ok2 := fields[rf]
		if !ok1 || !ok2 {
			return "", c05Err(where, "field %s / %s is not a field of the channel record", lf, rf)
		}
		fmt.Fprintf(&b, "let ch := ch_set_%s ch (ch_%s dc) in\n    ", gl, gr)
	}
	b.WriteString("ch")
	return b.String(), nil
}

func c05ExprOfStmt(s ast.Stmt) ast.Expr {
	switch x := s.(type) {
	case *ast.ExprStmt:
		return x.X
	case *ast.AssignStmt:
		if len(x.Lhs) > 0 {
			return x.Lhs[0]
		}
	}
	return ast.NewIdent("<statement>")
}

// loadChannels:
//
//	for key, ch := range c.channels { if nCh, ok := channels[key]; ok { if err := ch.load(nCh); err != nil { return ... } } }
//	return nil
func c05LoadChannels(f *ast.File) (string, error) {
	where := "(*channelManager).loadChannels"
	fn := c05MethodOf(f, "channelManager", "loadChannels")
	if fn == nil || fn.Body == nil {
		return "", c05Err(where, "not found")
	}
	recv := c05Recv(fn)
	pn := c05ParamNames(fn)
	l := fn.Body.List
	if recv == "" || len(pn) != 1 || len(l) != 2 {
		return "", c05Err(where, "receiver / parameters / body")
	}
	rs, ok := l[0].(*ast.RangeStmt)
	if !ok || rs.Tok != token.DEFINE {
		return "", c05Err(where, "first statement is not a range loop")
	}
	if x, fl, ok := c05Sel(rs.X); !ok || x != recv || fl != "channels" {
		return "", c05Err(where, "the loop does not range over %s.channels", recv)
	}
	kv, cv := c05Ident(rs.Key), c05Ident(rs.Value)
	if kv == "" || cv == "" || len(rs.Body.List) != 1 {
		return "", c05Err(where, "loop variables / body")
	}
	is, ok := rs.Body.List[0].(*ast.IfStmt)
	if !ok || is.Init == nil || is.Else != nil {
		return "", c05Err(where, "loop body is not `if nCh, ok := channels[key]; ok { ... }`")
	}
	as, ok := is.Init.(*ast.AssignStmt)
	if !ok || as.Tok != token.DEFINE || len(as.Lhs) != 2 || len(as.Rhs) != 1 {
		return "", c05Err(where, "loop body is not `if nCh, ok := channels[key]; ok { ... }`")
	}
	ix, ok := as.Rhs[0].(*ast.IndexExpr)
	if !ok || c05Ident(ix.X) != pn[0] || c05Ident(ix.Index) != kv || c05Ident(is.Cond) != c05Ident(as.Lhs[1]) {
		return "", c05Err(where, "the lookup is not %s[%s] tested by its ok", pn[0], kv)
	}
	nv := c05Ident(as.Lhs[0])
	// the checkpoint's object ADOPTED in place of the compiled one: [if <test> { return ... }]* ; c.channels[key] = nCh
	if n := len(is.Body.List); n >= 1 {
		if aa, ok := is.Body.List[n-1].(*ast.AssignStmt); ok && aa.Tok == token.ASSIGN && len(aa.Lhs) == 1 && len(aa.Rhs) == 1 && c05Ident(aa.Rhs[0]) == nv {
			if aix, ok := aa.Lhs[0].(*ast.IndexExpr); ok && c05Ident(aix.Index) == kv {
				if x, fl, ok := c05Sel(aix.X); ok && x == recv && fl == "channels" {
					guards := true
					for _, g := range is.Body.List[:n-1] {
						gi, ok := g.(*ast.IfStmt)
						guards = guards && ok && gi.Else == nil && c05AlwaysReturns(gi.Body.List)
					}
					if guards {
						if ret, ok := l[1].(*ast.ReturnStmt); ok && len(ret.Results) == 1 && c05IsNil(ret.Results[0]) {
							return "map (fun kc => let key := fst kc in let ch := snd kc in\n" +
								"      match m_get key cp with\n      | Some nCh => (key, decoded_object nCh)\n      | None => (key, compiled_object ch)\n      end) own", nil
						}
					}
				}
			}
		}
	}
	if len(is.Body.List) != 1 {
		return "", c05Err(where, "body of the lookup")
	}
	inner, ok := is.Body.List[0].(*ast.IfStmt)
	if !ok || inner.Init == nil || !c05AlwaysReturns(inner.Body.List) {
		return "", c05Err(where, "body of the lookup is not `if err := ch.load(nCh); err != nil { return ... }`")
	}
	ias, ok := inner.Init.(*ast.AssignStmt)
	if !ok || len(ias.Rhs) != 1 {
		return "", c05Err(where, "body of the lookup")
	}
	call, ok := ias.Rhs[0].(*ast.CallExpr)
	if !ok || len(call.Args) != 1 || c05Ident(call.Args[0]) != nv {
		return "", c05Err(where, "the call is not %s.load(%s)", cv, nv)
	}
	if x, m, ok := c05Sel(call.Fun); !ok || x != cv || m != "load" {
		return "", c05Err(where, "the call is not %s.load(%s)", cv, nv)
	}
	if ret, ok := l[1].(*ast.ReturnStmt); !ok || len(ret.Results) != 1 || !c05IsNil(ret.Results[0]) {
		return "", c05Err(where, "last statement is not `return nil`")
	}
	return "map (fun kc => let key := fst kc in let ch := snd kc in\n" +
		"      match m_get key cp with\n      | Some nCh => (key, compiled_object (load ch nCh))\n      | None => (key, compiled_object ch)\n      end) own", nil
}

// ---------------------------------------------------------------- forwardCheckPoint / clearCheckPoint

// c05CtxFunc translates a function from a context (and a node key) to a context, looking only at the checkpoint the
// context carries: the result says what a task given the returned context finds there.
//
//	cp := getCheckPointFromCtx(ctx)
//	if cp == nil { return ctx }      /  if getCheckPointFromCtx(ctx) == nil { return ctx }
//	if v, ok := cp.SubGraphs[key]; ok { return context.WithValue(ctx, checkPointKey{}, v) }
//	return context.WithValue(ctx, checkPointKey{}, (*checkpoint)(nil))
func c05CtxFunc(f *ast.File, name string, wantKey bool) (string, error) {
	fn := c05TopFunc(f, name)
	if fn == nil || fn.Body == nil {
		return "", c05Err(name, "not found")
	}
	pn := c05ParamNames(fn)
	if wantKey && len(pn) != 2 || !wantKey && len(pn) != 1 {
		return "", c05Err(name, "parameters %v", pn)
	}
	ctx := pn[0]
	keyP := ""
	if wantKey {
		keyP = pn[1]
	}
	cpVar := ""
	isGet := func(e ast.Expr) bool {
		c, ok := e.(*ast.CallExpr)
		return ok && c05Ident(c.Fun) == "getCheckPointFromCtx" && len(c.Args) == 1 && c05Ident(c.Args[0]) == ctx
	}
	// value a returned context carries
	retVal := func(r *ast.ReturnStmt, bound map[string]string) (string, error) {
		if len(r.Results) != 1 {
			return "", c05Err(name, "return with %d results", len(r.Results))
		}
		if c05Ident(r.Results[0]) == ctx {
			return "keep_ctx cp", nil
		}
		c, ok := r.Results[0].(*ast.CallExpr)
		if !ok || types.ExprString(c.Fun) != "context.WithValue" || len(c.Args) != 3 || c05Ident(c.Args[0]) != ctx ||
			types.ExprString(c.Args[1]) != "checkPointKey{}" {
			return "", c05Err(name, "return value is neither ctx nor context.WithValue(ctx, checkPointKey{}, v)")
		}
		v := c.Args[2]
		if s := types.ExprString(v); s == "(*checkpoint)(nil)" || s == "nil" {
			return "FNone", nil
		}
		if g, ok := bound[c05Ident(v)]; ok {
			return "FSub " + g, nil
		}
		if c05Ident(v) == cpVar && cpVar != "" {
			return "keep_ctx cp", nil
		}
		return "", c05Err(name, "stored value %s", types.ExprString(v))
	}
	var tr func(l []ast.Stmt, ind string) (string, error)
	tr = func(l []ast.Stmt, ind string) (string, error) {
		if len(l) == 0 {
			return "", c05Err(name, "a path does not end in a return")
		}
		switch s := l[0].(type) {
		case *ast.AssignStmt:
			if s.Tok == token.DEFINE && len(s.Lhs) == 1 && len(s.Rhs) == 1 && isGet(s.Rhs[0]) && cpVar == "" {
				cpVar = c05Ident(s.Lhs[0])
				return tr(l[1:], ind)
			}
		case *ast.ReturnStmt:
			return retVal(s, nil)
		case *ast.IfStmt:
			if s.Else != nil || !c05AlwaysReturns(s.Body.List) {
				return "", c05Err(name, "if statement with else or without return")
			}
			// cp == nil
			if s.Init == nil {
				if be, ok := s.Cond.(*ast.BinaryExpr); ok && c05IsNil(be.Y) && (be.Op == token.EQL || be.Op == token.NEQ) &&
					(cpVar != "" && c05Ident(be.X) == cpVar || isGet(be.X)) {
					th, err := tr(s.Body.List, ind+"  ")
					if err != nil {
						return "", err
					}
					el, err := tr(l[1:], ind+"  ")
					if err != nil {
						return "", err
					}
					test := "is_none cp"
					if be.Op == token.NEQ {
						test = "negb (is_none cp)"
					}
					return fmt.Sprintf("if %s then %s\n%selse %s", test, th, ind, el), nil
				}
				return "", c05Err(name, "condition %s", types.ExprString(s.Cond))
			}
			// v, ok := cp.SubGraphs[key]; ok
			as, ok := s.Init.(*ast.AssignStmt)
			if ok && as.Tok == token.DEFINE && len(as.Lhs) == 2 && len(as.Rhs) == 1 && c05Ident(s.Cond) == c05Ident(as.Lhs[1]) {
				if ix, ok := as.Rhs[0].(*ast.IndexExpr); ok && wantKey && c05Ident(ix.Index) == keyP {
					if x, fl, ok := c05Sel(ix.X); ok && x == cpVar && fl == "SubGraphs" {
						v := c05Ident(as.Lhs[0])
						rs, ok := s.Body.List[0].(*ast.ReturnStmt)
						if !ok || len(s.Body.List) != 1 {
							return "", c05Err(name, "body of the SubGraphs lookup")
						}
						th, err := retVal(rs, map[string]string{v: "subCP"})
						if err != nil {
							return "", err
						}
						el, err := tr(l[1:], ind+"  ")
						if err != nil {
							return "", err
						}
						return fmt.Sprintf("match sub_get nodeKey (subs_of cp) with\n%s| Some subCP => %s\n%s| None => %s\n%send", ind, th, ind, el, ind), nil
					}
				}
			}
			return "", c05Err(name, "if statement %s", types.ExprString(s.Cond))
		}
		return "", c05Err(name, "statement not recognised")
	}
	return tr(fn.Body.List, "    ")
}

// ---------------------------------------------------------------- the task literal of restoreTasks / createTasks

type c05TaskLit struct {
	where    string
	keyVar   string            // loop variable holding the node key
	inVar    string            // loop variable holding the input
	maps     map[string]string // parameter name -> "skipset"
	ctxParam string
}

// ctxExpr: what the task finds as checkpoint in the context built by e
func (t *c05TaskLit) ctxExpr(e ast.Expr) (string, error) {
	if c05Ident(e) == t.ctxParam {
		return "keep_ctx cp", nil
	}
	c, ok := e.(*ast.CallExpr)
	if !ok {
		return "", c05Err(t.where, "ctx expression %s", types.ExprString(e))
	}
	switch c05Ident(c.Fun) {
	case "setNodeKey":
		if len(c.Args) == 2 && c05Ident(c.Args[1]) == t.keyVar {
			return t.ctxExpr(c.Args[0])
		}
	case "forwardCheckPoint":
		if len(c.Args) == 2 && c05Ident(c.Args[1]) == t.keyVar {
			in, err := t.ctxExpr(c.Args[0])
			if err != nil {
				return "", err
			}
			if in != "keep_ctx cp" {
				return "", c05Err(t.where, "forwardCheckPoint applied to a context that was already changed")
			}
			return "forward_checkpoint cp key", nil
		}
	case "clearCheckPoint":
		if len(c.Args) == 1 {
			in, err := t.ctxExpr(c.Args[0])
			if err != nil {
				return "", err
			}
			if in != "keep_ctx cp" {
				return "", c05Err(t.where, "clearCheckPoint applied to a context that was already changed")
			}
			return "clear_checkpoint cp", nil
		}
	}
	return "", c05Err(t.where, "ctx expression %s", types.ExprString(e))
}

func (t *c05TaskLit) boolExpr(e ast.Expr) (string, error) {
	switch x := e.(type) {
	case *ast.Ident:
		if x.Name == "true" || x.Name == "false" {
			return x.Name, nil
		}
	case *ast.IndexExpr:
		if t.maps[c05Ident(x.X)] == "skipset" && c05Ident(x.Index) == t.keyVar {
			return "set_has key " + c05Ident(x.X), nil
		}
	case *ast.ParenExpr:
		return t.boolExpr(x.X)
	case *ast.UnaryExpr:
		if x.Op == token.NOT {
			s, err := t.boolExpr(x.X)
			return "negb (" + s + ")", err
		}
	case *ast.BinaryExpr:
		if x.Op == token.LAND || x.Op == token.LOR {
			a, err := t.boolExpr(x.X)
			if err != nil {
				return "", err
			}
			b, err := t.boolExpr(x.Y)
			if err != nil {
				return "", err
			}
			op := "&&"
			if x.Op == token.LOR {
				op = "||"
			}
			return "((" + a + ") " + op + " (" + b + "))", nil
		}
		// len(m) > 0 / len(m) != 0 / len(m) == 0
		if c, ok := x.X.(*ast.CallExpr); ok && c05Ident(c.Fun) == "len" && len(c.Args) == 1 && t.maps[c05Ident(c.Args[0])] == "skipset" {
			if bl, ok := x.Y.(*ast.BasicLit); ok && bl.Value == "0" {
				switch x.Op {
				case token.GTR, token.NEQ:
					return "negb (set_empty " + c05Ident(c.Args[0]) + ")", nil
				case token.EQL:
					return "set_empty " + c05Ident(c.Args[0]), nil
				}
			}
		}
	}
	return "", c05Err(t.where, "boolean expression %s", types.ExprString(e))
}

// lit translates &task{...}: (key, input, skip, ctx-checkpoint)
func (t *c05TaskLit) lit(e ast.Expr) (string, error) {
	u, ok := e.(*ast.UnaryExpr)
	if !ok || u.Op != token.AND {
		return "", c05Err(t.where, "the task is not built by &task{...}")
	}
	cl, ok := u.X.(*ast.CompositeLit)
	if !ok || c05Ident(cl.Type) != "task" {
		return "", c05Err(t.where, "the task is not built by &task{...}")
	}
	key, in, skip, cp := "", "", "false", "keep_ctx cp"
	seenCtx := false
	for _, el := range cl.Elts {
		kv, ok := el.(*ast.KeyValueExpr)
		if !ok {
			return "", c05Err(t.where, "positional task literal")
		}
		switch c05Ident(kv.Key) {
		case "nodeKey":
			if c05Ident(kv.Value) != t.keyVar {
				return "", c05Err(t.where, "nodeKey: %s", types.ExprString(kv.Value))
			}
			key = "key"
		case "input":
			if c05Ident(kv.Value) != t.inVar {
				return "", c05Err(t.where, "input: %s", types.ExprString(kv.Value))
			}
			in = "input"
		case "skipPreHandler":
			s, err := t.boolExpr(kv.Value)
			if err != nil {
				return "", err
			}
			skip = s
		case "ctx":
			s, err := t.ctxExpr(kv.Value)
			if err != nil {
				return "", err
			}
			cp = s
			seenCtx = true
		case "call", "option":
			// how the node is called and with which options: not part of what a checkpoint restores
		default:
			return "", c05Err(t.where, "task field %s", c05Ident(kv.Key))
		}
	}
	if key == "" || in == "" || !seenCtx {
		return "", c05Err(t.where, "task literal without nodeKey / input / ctx")
	}
	return fmt.Sprintf("(%s, %s, %s, %s)", key, in, skip, cp), nil
}

// c05TaskLoop finds `for k, v := range <param> { ... &task{...} ... }` in the method and translates the literal.
// The other statements of the loop may only touch the fields call / option of the new task.
func c05TaskLoop(f *ast.File, method, rangeParam string, maps map[string]string) (string, error) {
	where := "(*runner)." + method
	fn := c05MethodOf(f, "runner", method)
	if fn == nil || fn.Body == nil {
		return "", c05Err(where, "not found")
	}
	pn := c05ParamNames(fn)
	if len(pn) == 0 || pn[0] != "ctx" {
		return "", c05Err(where, "first parameter is not ctx")
	}
	found := false
	for _, p := range pn {
		found = found || p == rangeParam
	}
	for m := range maps {
		ok := false
		for _, p := range pn {
			ok = ok || p == m
		}
		found = found && ok
	}
	if !found {
		return "", c05Err(where, "parameters %v", pn)
	}
	var loop *ast.RangeStmt
	for _, s := range fn.Body.List {
		if rs, ok := s.(*ast.RangeStmt); ok {
			if loop != nil {
				return "", c05Err(where, "more than one loop")
			}
			loop = rs
		}
	}
	if loop == nil || c05Ident(loop.X) != rangeParam || loop.Tok != token.DEFINE || c05Ident(loop.Key) == "" || c05Ident(loop.Value) == "" {
		return "", c05Err(where, "no `for key, input := range %s` loop", rangeParam)
	}
	t := &c05TaskLit{where: where, keyVar: c05Ident(loop.Key), inVar: c05Ident(loop.Value), maps: maps, ctxParam: "ctx"}
	out, taskVar := "", ""
	var scan func(l []ast.Stmt) error
	scan = func(l []ast.Stmt) error {
		for _, s := range l {
			switch x := s.(type) {
			case *ast.AssignStmt:
				for i, lhs := range x.Lhs {
					// newTask := &task{...}
					if i < len(x.Rhs) {
						if u, ok := x.Rhs[i].(*ast.UnaryExpr); ok && u.Op == token.AND {
							if cl, ok := u.X.(*ast.CompositeLit); ok && c05Ident(cl.Type) == "task" {
								if out != "" {
									return c05Err(where, "two task literals")
								}
								var err error
								if out, err = t.lit(x.Rhs[i]); err != nil {
									return err
								}
								taskVar = c05Ident(lhs)
								continue
							}
						}
						// x = append(x, &task{...})
						if c, ok := x.Rhs[i].(*ast.CallExpr); ok && c05Ident(c.Fun) == "append" {
							for _, a := range c.Args[1:] {
								if u, ok := a.(*ast.UnaryExpr); ok && u.Op == token.AND {
									if out != "" {
										return c05Err(where, "two task literals")
									}
									var err error
									if out, err = t.lit(a); err != nil {
										return err
									}
								}
							}
							continue
						}
					}
					if xv, fl, ok := c05Sel(lhs); ok && xv == taskVar && taskVar != "" && fl != "call" && fl != "option" {
						return c05Err(where, "the loop assigns %s.%s after the literal", xv, fl)
					}
					if id := c05Ident(lhs); id == t.keyVar || id == t.inVar {
						return c05Err(where, "the loop assigns its variable %s", id)
					}
				}
			case *ast.IfStmt:
				if x.Init != nil {
					if err := scan([]ast.Stmt{x.Init}); err != nil {
						return err
					}
				}
				if err := scan(x.Body.List); err != nil {
					return err
				}
				if b, ok := x.Else.(*ast.BlockStmt); ok {
					if err := scan(b.List); err != nil {
						return err
					}
				} else if x.Else != nil {
					return c05Err(where, "else-if in the loop")
				}
			case *ast.ReturnStmt, *ast.ExprStmt:
			default:
				return c05Err(where, "statement in the loop not recognised")
			}
		}
		return nil
	}
	if err := scan(loop.Body.List); err != nil {
		return "", err
	}
	if out == "" {
		return "", c05Err(where, "no task literal in the loop")
	}
	return fmt.Sprintf("let key := fst kv in let input := snd kv in\n    %s", out), nil
}

// ---------------------------------------------------------------- where a run starts from

// c05RestoreDecision reads, in (*runner).run, the statement
//
//	if isSubGraph { if cp := getCheckPointFromCtx(ctx); cp != nil { A } } else if checkPointID != nil { cp, err := getCheckPointFromStore(...); ...; if cp != nil { B } }
//
// (a block counts as a restore when it sets initialized = true) and the steps of A and B in order.
func c05RestoreDecision(f *ast.File) (decision string, stepsCtx, stepsStore []string, err error) {
	where := "(*runner).run"
	fn := c05MethodOf(f, "runner", "run")
	if fn == nil || fn.Body == nil {
		return "", nil, nil, c05Err(where, "not found")
	}
	var top *ast.IfStmt
	for i, s := range fn.Body.List {
		is, ok := s.(*ast.IfStmt)
		if ok && is.Init == nil && c05Ident(is.Cond) == "isSubGraph" && i > 0 {
			if top != nil {
				return "", nil, nil, c05Err(where, "two `if isSubGraph` statements")
			}
			top = is
		}
	}
	if top == nil {
		return "", nil, nil, c05Err(where, "no `if isSubGraph {...} else if checkPointID != nil {...}`")
	}
	sets := func(l []ast.Stmt) bool {
		for _, s := range l {
			if a, ok := s.(*ast.AssignStmt); ok && len(a.Lhs) == 1 && c05Ident(a.Lhs[0]) == "initialized" && c05Ident(a.Rhs[0]) == "true" {
				return true
			}
		}
		return false
	}
	// steps of a restore block
	steps := func(l []ast.Stmt, cpVar string) ([]string, error) {
		var out []string
		callName := func(e ast.Expr) (string, []string) {
			c, ok := e.(*ast.CallExpr)
			if !ok {
				return "", nil
			}
			var args []string
			for _, a := range c.Args {
				args = append(args, c05Squash(types.ExprString(a)))
			}
			return c05Squash(types.ExprString(c.Fun)), args
		}
		for _, s := range l {
			switch x := s.(type) {
			case *ast.AssignStmt:
				if len(x.Lhs) == 1 && c05Ident(x.Lhs[0]) == "initialized" {
					continue
				}
				if len(x.Rhs) != 1 {
					return nil, c05Err(where, "assignment in a restore block")
				}
				name, args := callName(x.Rhs[0])
				switch name {
				case "r.checkPointer.restoreCheckPoint":
					out = append(out, "restoreCheckPoint("+strings.Join(args, ",")+")")
				case "cm.loadChannels":
					out = append(out, "loadChannels("+strings.Join(args, ",")+")")
				case "setStateModifier":
					out = append(out, "setStateModifier")
				case "setCheckPointToCtx":
					out = append(out, "setCheckPointToCtx("+strings.Join(args[1:], ",")+")")
				case "r.restoreTasks":
					if len(args) < 3 {
						return nil, c05Err(where, "restoreTasks arguments")
					}
					out = append(out, "restoreTasks("+strings.Join(args[1:3], ",")+")")
				default:
					return nil, c05Err(where, "call %s in a restore block", name)
				}
			case *ast.IfStmt:
				cond := c05Squash(types.ExprString(x.Cond))
				if x.Init != nil {
					cond = c05Squash(types.ExprString(c05ExprOfStmt(x.Init))) + ";" + cond
				}
				switch {
				case cond == "err!=nil":
					// error exit of the preceding step
				case strings.Contains(cond, cpVar+".State!=nil") && x.Else == nil && len(x.Body.List) >= 1:
					// the state modifier call, or handing the state to the run
					body := x.Body.List[0]
					if a, ok := body.(*ast.AssignStmt); ok && len(a.Rhs) == 1 {
						name, args := callName(a.Rhs[0])
						switch {
						case name == "context.WithValue" && len(args) == 3 && args[1] == "stateKey{}" && c05StateLit(a.Rhs[0].(*ast.CallExpr).Args[2], cpVar):
							out = append(out, "setState["+strings.ReplaceAll(cond, cpVar+".", "cp.")+"]")
							continue
						case (name == "sm" || name == "stateModifier") && len(args) == 3 && args[2] == cpVar+".State":
							c := strings.ReplaceAll(strings.ReplaceAll(cond, cpVar+".", "cp."), "stateModifier", "sm")
							if i := strings.Index(c, ";"); i >= 0 {
								c = c[i+1:]
							}
							out = append(out, "stateModifier["+c+"]")
							continue
						}
					}
					return nil, c05Err(where, "if %s in a restore block", cond)
				default:
					return nil, c05Err(where, "if %s in a restore block", cond)
				}
			default:
				return nil, c05Err(where, "statement in a restore block")
			}
		}
		return out, nil
	}
	// then-branch: if cp := getCheckPointFromCtx(ctx); cp != nil { A }
	var a, b []ast.Stmt
	aOK, bOK := false, false
	aVar, bVar := "", ""
	if len(top.Body.List) == 1 {
		if is, ok := top.Body.List[0].(*ast.IfStmt); ok && is.Init != nil && is.Else == nil {
			if as, ok := is.Init.(*ast.AssignStmt); ok && len(as.Lhs) == 1 && len(as.Rhs) == 1 {
				if c, ok := as.Rhs[0].(*ast.CallExpr); ok && c05Ident(c.Fun) == "getCheckPointFromCtx" {
					aVar = c05Ident(as.Lhs[0])
					if c05Squash(types.ExprString(is.Cond)) == aVar+"!=nil" {
						a, aOK = is.Body.List, true
					}
				}
			}
		}
	}
	if !aOK {
		return "", nil, nil, c05Err(where, "the isSubGraph branch is not `if cp := getCheckPointFromCtx(ctx); cp != nil {...}`")
	}
	el, ok := top.Else.(*ast.IfStmt)
	if !ok || el.Init != nil || el.Else != nil || c05Squash(types.ExprString(el.Cond)) != "checkPointID!=nil" {
		return "", nil, nil, c05Err(where, "the else branch is not `else if checkPointID != nil {...}`")
	}
	for i, s := range el.Body.List {
		switch x := s.(type) {
		case *ast.AssignStmt:
			if len(x.Rhs) == 1 {
				if c, ok := x.Rhs[0].(*ast.CallExpr); ok && c05Ident(c.Fun) == "getCheckPointFromStore" && len(x.Lhs) == 2 && i == 0 {
					bVar = c05Ident(x.Lhs[0])
					continue
				}
			}
			return "", nil, nil, c05Err(where, "statement in the checkPointID branch")
		case *ast.IfStmt:
			c := c05Squash(types.ExprString(x.Cond))
			if c == "err!=nil" && x.Init == nil {
				continue
			}
			if bVar != "" && c == bVar+"!=nil" && x.Init == nil && x.Else == nil && !bOK {
				b, bOK = x.Body.List, true
				continue
			}
			return "", nil, nil, c05Err(where, "if %s in the checkPointID branch", c)
		default:
			return "", nil, nil, c05Err(where, "statement in the checkPointID branch")
		}
	}
	if !bOK {
		return "", nil, nil, c05Err(where, "the checkPointID branch has no `if cp != nil {...}`")
	}
	src := func(restores bool, name string) string {
		if restores {
			return name
		}
		return "RFresh"
	}
	decision = fmt.Sprintf("if isSubGraph then (if ctxCp then %s else RFresh)\n    else if hasID then (if storeCp then %s else RFresh)\n    else RFresh",
		src(sets(a), "RFromCtx"), src(sets(b), "RFromStore"))
	if stepsCtx, err = steps(a, aVar); err != nil {
		return "", nil, nil, err
	}
	if stepsStore, err = steps(b, bVar); err != nil {
		return "", nil, nil, err
	}
	return decision, stepsCtx, stepsStore, nil
}

// c05StateLit: e = &internalState{state: <cpVar>.State}
func c05StateLit(e ast.Expr, cpVar string) bool {
	u, ok := e.(*ast.UnaryExpr)
	if !ok || u.Op != token.AND {
		return false
	}
	cl, ok := u.X.(*ast.CompositeLit)
	if !ok || c05Ident(cl.Type) != "internalState" || len(cl.Elts) != 1 {
		return false
	}
	kv, ok := cl.Elts[0].(*ast.KeyValueExpr)
	if !ok || c05Ident(kv.Key) != "state" {
		return false
	}
	x, f, ok := c05Sel(kv.Value)
	return ok && x == cpVar && f == "State"
}

// ---------------------------------------------------------------- the extractor

func c05ExtractCpCode(repo string) (string, string, error) {
	fset := token.NewFileSet()
	parse := func(name string) (*ast.File, error) { return c05ParseGo(fset, repo, "compose", name) }
	cpF, err := parse("checkpoint.go")
	if err != nil {
		return "", "", err
	}
	dagF, err := parse("dag.go")
	if err != nil {
		return "", "", err
	}
	preF, err := parse("pregel.go")
	if err != nil {
		return "", "", err
	}
	gmF, err := parse("graph_manager.go")
	if err != nil {
		return "", "", err
	}
	grF, err := parse("graph_run.go")
	if err != nil {
		return "", "", err
	}
	cpFields, cpOther, err := c05StructFields(cpF, "checkpoint")
	if err != nil {
		return "", "", err
	}
	if len(cpOther) > 0 {
		return "", "", fmt.Errorf("checkpoint has unexported fields %v", cpOther)
	}
	dagP, dagR, err := c05StructFields(dagF, "dagChannel")
	if err != nil {
		return "", "", err
	}
	preP, preR, err := c05StructFields(preF, "pregelChannel")
	if err != nil {
		return "", "", err
	}
	dagFields := map[string]string{"ControlPredecessors": "ctrl", "DataPredecessors": "data", "Skipped": "skipped", "Values": "vals"}
	preFields := map[string]string{"Values": "vals"}
	dagLoad, err := c05LoadMethod(dagF, "dagChannel", dagFields)
	if err != nil {
		return "", "", err
	}
	preLoad, err := c05LoadMethod(preF, "pregelChannel", preFields)
	if err != nil {
		return "", "", err
	}
	loadAll, err := c05LoadChannels(gmF)
	if err != nil {
		return "", "", err
	}
	fwd, err := c05CtxFunc(cpF, "forwardCheckPoint", true)
	if err != nil {
		return "", "", err
	}
	// clearCheckPoint is translated when the source has it; a source without it cannot call it from a task literal
	// (the package would not compile), and the generated definition is then the constant the model expects
	clr := "FNone (* clearCheckPoint: no such function in the source *)"
	if c05TopFunc(cpF, "clearCheckPoint") != nil {
		if clr, err = c05CtxFunc(cpF, "clearCheckPoint", false); err != nil {
			return "", "", err
		}
	}
	rt, err := c05TaskLoop(grF, "restoreTasks", "inputs", map[string]string{"skipPreHandler": "skipset"})
	if err != nil {
		return "", "", err
	}
	ct, err := c05TaskLoop(grF, "createTasks", "nodeMap", map[string]string{})
	if err != nil {
		return "", "", err
	}
	dec, sc, ss, err := c05RestoreDecision(grF)
	if err != nil {
		return "", "", err
	}
	var b strings.Builder
	b.WriteString("(* Gen/CheckpointCode.v — GENERATED by tools/go2v (extractor \"cpcode\") from compose/checkpoint.go, dag.go,\n")
	b.WriteString("   pregel.go, graph_manager.go (loadChannels) and graph_run.go (restoreTasks, createTasks, the restore\n   decision of run). Do not edit. *)\n")
	b.WriteString("From Eino Require Import Base.Util Model.Graph Model.ChanGenLib Model.RunLoop Model.CheckpointGenLib.\nLocal Open Scope string_scope.\n\n")
	b.WriteString("Definition tie_available : bool := true.\n\n")
	fmt.Fprintf(&b, "Definition checkpoint_fields : list string := %s.\n", c05StrList(cpFields))
	fmt.Fprintf(&b, "Definition dag_channel_persisted : list string := %s.\n", c05StrList(dagP))
	fmt.Fprintf(&b, "Definition dag_channel_rebuilt : list string := %s.\n", c05StrList(dagR))
	fmt.Fprintf(&b, "Definition pregel_channel_persisted : list string := %s.\n", c05StrList(preP))
	fmt.Fprintf(&b, "Definition pregel_channel_rebuilt : list string := %s.\n", c05StrList(preR))
	fmt.Fprintf(&b, "Definition restore_steps_ctx : list string := %s.\n", c05StrList(sc))
	fmt.Fprintf(&b, "Definition restore_steps_store : list string := %s.\n\n", c05StrList(ss))
	fmt.Fprintf(&b, "Definition dag_load (V : Type) (ch dc : chan V) : chan V :=\n    %s.\n\n", dagLoad)
	fmt.Fprintf(&b, "Definition pregel_load (V : Type) (ch dc : chan V) : chan V :=\n    %s.\n\n", preLoad)
	fmt.Fprintf(&b, "Definition load_channels (V : Type) (load : chan V -> chan V -> chan V) (own cp : chans V) : list (key * live_chan V) :=\n    %s.\n\n", loadAll)
	fmt.Fprintf(&b, "Definition forward_checkpoint (SCP : Type) (cp : option (list (N * SCP))) (nodeKey : N) : fwd SCP :=\n    %s.\n\n", fwd)
	fmt.Fprintf(&b, "Definition clear_checkpoint (SCP : Type) (cp : option (list (N * SCP))) : fwd SCP :=\n    %s.\n\n", clr)
	b.WriteString("Arguments forward_checkpoint {SCP}. Arguments clear_checkpoint {SCP}.\n\n")
	fmt.Fprintf(&b, "Definition restore_task (V SCP : Type) (cp : option (list (N * SCP))) (skipPreHandler : list N) (kv : N * V) : gtask V SCP :=\n    %s.\n\n", rt)
	fmt.Fprintf(&b, "Definition create_task (V SCP : Type) (cp : option (list (N * SCP))) (kv : N * V) : gtask V SCP :=\n    %s.\n\n", ct)
	fmt.Fprintf(&b, "Definition restore_source (isSubGraph ctxCp hasID storeCp : bool) : rsrc :=\n    %s.\n", dec)
	return "CheckpointCode.v", b.String(), nil
}
