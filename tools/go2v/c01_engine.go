package main

// Extractors "runlimit" and "calcbranch" (property C01): compose/graph_run.go.
//
// runlimit   runner.run: (1) the statements that compute the step limit of a run
//              maxSteps := r.options.maxRunSteps
//              if r.dag { for i := range opts { if opts[i].maxRunSteps > 0 { return error } } }
//              else { for i := range opts { if opts[i].maxRunSteps > 0 { maxSteps = opts[i].maxRunSteps } }
//                     if maxSteps < 1 { return error } }
//            translated statement by statement (c01_imp.go) into [run_max_steps dag compiled opts];
//            (2) the main loop `for step := 0; ; step++`: initial value, absence of a loop condition, post
//            statement; (3) the if statement of the loop body that returns ErrExceedMaxSteps: its condition as
//            [step_limit_hit dag step maxSteps], and whether it stands before the first use of the task manager
//            (tm.submit) in the loop body.
//            Output: coq/Gen/RunLimit.v; Proofs/GenAgreeRunLimit.v ties it to step_limit_hit / init_state / step
//            of Model/Graph.v and rt_graph of Model/PregelOpts.v.
//
// calcbranch runner.calculateBranch, translated statement by statement into [calculateBranch] over the
//            vocabulary of Model/ImpGenLib.v; the calls into untranslated code (the pre-branch handler, the
//            branch condition branch.invoke / branch.collect, cm.reportBranch) are Section variables.
//            Output: coq/Gen/CalcBranch.v; Proofs/GenAgreeCalcBranch.v proves it equal to eval_branches +
//            report_branch of Model/Graph.v.

import (
	"fmt"
	"go/ast"
	"go/parser"
	"go/token"
	"path/filepath"
	"strings"
)

func init() {
	register("runlimit", c01ExtractRunLimit)
	registerFallback("runlimit", "RunLimit.v", "(* Gen/RunLimit.v — translator tie UNAVAILABLE: tools/go2v (extractor \"runlimit\") did not recognise the\n"+
		"   shape of compose/graph_run.go:runner.run; the model's own definitions are re-exported. *)\n"+
		"From Eino Require Import Base.Util Model.Graph Model.ImpGenLib Model.RunLimitTable.\n\n"+
		"Definition tie_available : bool := false.\n"+
		"Definition loop_init : nat := Model.RunLimitTable.loop_init.\n"+
		"Definition loop_has_cond : bool := Model.RunLimitTable.loop_has_cond.\n"+
		"Definition loop_post (step : nat) : nat := Model.RunLimitTable.loop_post step.\n"+
		"Definition limit_test_before_submit : bool := Model.RunLimitTable.limit_test_before_submit.\n"+
		"Definition step_limit_hit (unk : string -> bool) (dag : bool) (step maxSteps : nat) : bool := Model.RunLimitTable.step_limit_hit dag step maxSteps.\n"+
		"Section Gen.\n  Variable err_code : nat -> N.\n"+
		"  Definition run_max_steps (dag : bool) (compiled : nat) (opts : list nat) : res nat :=\n"+
		"    Model.RunLimitTable.run_max_steps err_code dag compiled opts.\nEnd Gen.\n")
	register("calcbranch", c01ExtractCalcBranch)
	registerFallback("calcbranch", "CalcBranch.v", "(* Gen/CalcBranch.v — translator tie UNAVAILABLE: tools/go2v (extractor \"calcbranch\") did not recognise the\n"+
		"   shape of compose/graph_run.go:runner.calculateBranch; the model's own definition is re-exported. *)\n"+
		"From Eino Require Import Base.Util Model.Graph Model.ImpGenLib Model.CalcBranchSpec.\n\n"+
		"Definition tie_available : bool := false.\n"+
		"Definition calculateBranch := @Model.CalcBranchSpec.calculate_branch.\n")
}

func c01ParseGraphRun(repo string) (*ast.File, error) {
	return c01ParseGo(repo, "compose", "graph_run.go")
}

func c01ParseGo(repo string, rel ...string) (*ast.File, error) {
	return parser.ParseFile(token.NewFileSet(), filepath.Join(append([]string{repo}, rel...)...), nil, 0)
}

func c01Method(f *ast.File, recvType, name string) (*ast.FuncDecl, string) {
	for _, d := range f.Decls {
		fn, ok := d.(*ast.FuncDecl)
		if !ok || fn.Recv == nil || fn.Name.Name != name || len(fn.Recv.List) != 1 || fn.Body == nil {
			continue
		}
		if st, ok := fn.Recv.List[0].Type.(*ast.StarExpr); ok {
			if id, ok := st.X.(*ast.Ident); ok && id.Name == recvType {
				recv := ""
				if len(fn.Recv.List[0].Names) == 1 {
					recv = fn.Recv.List[0].Names[0].Name
				}
				return fn, recv
			}
		}
	}
	return nil, ""
}

func c01ParamNames(fn *ast.FuncDecl) []string {
	var pn []string
	for _, fl := range fn.Type.Params.List {
		for _, n := range fl.Names {
			pn = append(pn, n.Name)
		}
	}
	return pn
}

// ---------------------------------------------------------------- runlimit

func c01ExtractRunLimit(repo string) (string, string, error) {
	f, err := c01ParseGraphRun(repo)
	if err != nil {
		return "", "", err
	}
	fn, recv := c01Method(f, "runner", "run")
	if fn == nil {
		return "", "", fmt.Errorf("method (*runner).run not found")
	}
	if recv != "r" {
		return "", "", fmt.Errorf("runner.run: receiver is named %q", recv)
	}
	// (1) maxSteps := r.options.maxRunSteps ; if r.dag { … } else { … }
	var frag []ast.Stmt
	var loop *ast.ForStmt
	for i, s := range fn.Body.List {
		if as, ok := s.(*ast.AssignStmt); ok && as.Tok == token.DEFINE && len(as.Lhs) == 1 && c01Squash(as.Lhs[0]) == "maxSteps" {
			if frag != nil {
				return "", "", fmt.Errorf("runner.run: maxSteps is declared twice")
			}
			if i+1 >= len(fn.Body.List) {
				return "", "", fmt.Errorf("runner.run: nothing follows the declaration of maxSteps")
			}
			is, ok := fn.Body.List[i+1].(*ast.IfStmt)
			if !ok {
				return "", "", fmt.Errorf("runner.run: the declaration of maxSteps is not followed by an if statement")
			}
			frag = []ast.Stmt{as, is}
		}
		if fs, ok := s.(*ast.ForStmt); ok {
			if loop != nil {
				return "", "", fmt.Errorf("runner.run: more than one top-level for loop")
			}
			loop = fs
		}
	}
	if frag == nil || loop == nil {
		return "", "", fmt.Errorf("runner.run: maxSteps declaration or main loop not found")
	}
	// maxSteps must not be assigned anywhere else in the function
	n := 0
	ast.Inspect(fn.Body, func(nd ast.Node) bool {
		if as, ok := nd.(*ast.AssignStmt); ok {
			for _, lh := range as.Lhs {
				if c01Squash(lh) == "maxSteps" {
					n++
				}
			}
		}
		return true
	})
	inFrag := 0
	for _, s := range frag {
		ast.Inspect(s, func(nd ast.Node) bool {
			if as, ok := nd.(*ast.AssignStmt); ok {
				for _, lh := range as.Lhs {
					if c01Squash(lh) == "maxSteps" {
						inFrag++
					}
				}
			}
			return true
		})
	}
	if n != inFrag {
		return "", "", fmt.Errorf("runner.run: maxSteps is assigned outside the recognised fragment")
	}
	t := c01NewTr("runner.run (step limit)")
	t.results, t.hasErr = []string{"nat"}, true
	t.sels["r.options.maxRunSteps"] = c01Var{"compiled", "nat"}
	t.sels["r.dag"] = c01Var{"dag", "bool"}
	t.sels["opts[i].maxRunSteps"] = c01Var{"(l_get 0%nat i opts)", "nat"}
	t.env = []c01Var{{"opts", "nats"}}
	ret := &ast.ReturnStmt{Results: []ast.Expr{ast.NewIdent("maxSteps"), ast.NewIdent("nil")}}
	code, err := t.function(append(append([]ast.Stmt{}, frag...), ret), "    ")
	if err != nil {
		return "", "", err
	}
	// (2) for step := 0; ; step++
	if loop.Init == nil || loop.Post == nil {
		return "", "", fmt.Errorf("runner.run: main loop without init or post statement")
	}
	init, ok := loop.Init.(*ast.AssignStmt)
	if !ok || init.Tok != token.DEFINE || len(init.Lhs) != 1 || c01Squash(init.Lhs[0]) != "step" {
		return "", "", fmt.Errorf("runner.run: main loop does not declare step")
	}
	t2 := c01NewTr("runner.run (main loop)")
	t2.unkOK = true
	t2.sels["r.dag"] = c01Var{"dag", "bool"}
	initV, k, err := t2.expr(init.Rhs[0])
	if err != nil || k != "nat" {
		return "", "", fmt.Errorf("runner.run: initial value of step: %v", err)
	}
	t2.env = []c01Var{{"step", "nat"}, {"maxSteps", "nat"}}
	var post string
	switch p := loop.Post.(type) {
	case *ast.IncDecStmt:
		if c01Squash(p.X) != "step" || p.Tok != token.INC {
			return "", "", fmt.Errorf("runner.run: post statement of the main loop")
		}
		post = "(S step)"
	case *ast.AssignStmt:
		if len(p.Lhs) != 1 || len(p.Rhs) != 1 || c01Squash(p.Lhs[0]) != "step" || (p.Tok != token.ASSIGN && p.Tok != token.ADD_ASSIGN) {
			return "", "", fmt.Errorf("runner.run: post statement of the main loop")
		}
		post, k, err = t2.expr(p.Rhs[0])
		if err != nil || k != "nat" {
			return "", "", fmt.Errorf("runner.run: post statement of the main loop: %v", err)
		}
		if p.Tok == token.ADD_ASSIGN {
			post = "(step + " + post + ")%nat"
		}
	default:
		return "", "", fmt.Errorf("runner.run: post statement of the main loop")
	}
	hasCond := "false"
	var condStmts []ast.Stmt
	if loop.Cond != nil {
		hasCond = "true"
	}
	// (3) the statement of the loop body that returns ErrExceedMaxSteps, and its position
	limitAt, submitAt := -1, -1
	var limitCond string
	for i, s := range loop.Body.List {
		mentions := func(what string) bool {
			found := false
			ast.Inspect(s, func(nd ast.Node) bool {
				if sel, ok := nd.(*ast.SelectorExpr); ok && c01Squash(sel) == what {
					found = true
				}
				if id, ok := nd.(*ast.Ident); ok && id.Name == what {
					found = true
				}
				return !found
			})
			return found
		}
		if mentions("ErrExceedMaxSteps") {
			if limitAt >= 0 {
				return "", "", fmt.Errorf("runner.run: ErrExceedMaxSteps is returned at more than one place of the loop body")
			}
			is, ok := s.(*ast.IfStmt)
			if !ok || is.Init != nil || is.Else != nil || len(is.Body.List) != 1 {
				return "", "", fmt.Errorf("runner.run: the step limit test is not a plain if statement")
			}
			if _, ok := is.Body.List[0].(*ast.ReturnStmt); !ok {
				return "", "", fmt.Errorf("runner.run: the step limit test does not return")
			}
			limitAt = i
			limitCond, err = t2.boolExpr(is.Cond)
			if err != nil {
				return "", "", err
			}
		}
		if submitAt < 0 && (mentions("tm.submit") || mentions("tm.wait") || mentions("tm.waitAll")) {
			submitAt = i
		}
	}
	_ = condStmts
	if limitAt < 0 || submitAt < 0 {
		return "", "", fmt.Errorf("runner.run: step limit test or tm.submit not found in the main loop")
	}
	// ErrExceedMaxSteps may be returned nowhere else in the function
	cnt := 0
	ast.Inspect(fn.Body, func(nd ast.Node) bool {
		if id, ok := nd.(*ast.Ident); ok && id.Name == "ErrExceedMaxSteps" {
			cnt++
		}
		return true
	})
	if cnt != 1 {
		return "", "", fmt.Errorf("runner.run: ErrExceedMaxSteps is mentioned %d times", cnt)
	}
	before := "false"
	if limitAt < submitAt {
		before = "true"
	}
	var b strings.Builder
	b.WriteString("(* Gen/RunLimit.v — GENERATED by tools/go2v (extractor \"runlimit\") from compose/graph_run.go\n")
	b.WriteString("   (runner.run: the step limit of a run, the main loop's counter, the step limit test). Do not edit. *)\n")
	b.WriteString("From Eino Require Import Base.Util Model.Graph Model.ImpGenLib.\n\n")
	b.WriteString("Definition tie_available : bool := true.\n\n")
	b.WriteString("(* for step := <init>; <cond>; <post> *)\n")
	fmt.Fprintf(&b, "Definition loop_init : nat := %s.\n", initV)
	fmt.Fprintf(&b, "Definition loop_has_cond : bool := %s.\n", hasCond)
	fmt.Fprintf(&b, "Definition loop_post (step : nat) : nat := %s.\n\n", post)
	b.WriteString("(* the if statement of the loop body that returns ErrExceedMaxSteps; it stands before the first use of the task manager;\n   an operand of its condition that is not recognised appears as (unk \"<text>\") *)\n")
	fmt.Fprintf(&b, "Definition limit_test_before_submit : bool := %s.\n", before)
	fmt.Fprintf(&b, "Definition step_limit_hit (unk : string -> bool) (dag : bool) (step maxSteps : nat) : bool :=\n  %s.\n\n", limitCond)
	b.WriteString("Section Gen.\n  Variable err_code : nat -> N.\n\n")
	b.WriteString("  (* compiled = r.options.maxRunSteps; opts = the maxRunSteps field of every call option, in order *)\n")
	fmt.Fprintf(&b, "  Definition run_max_steps (dag : bool) (compiled : nat) (opts : list nat) : res nat :=\n    %s.\nEnd Gen.\n", code)
	return "RunLimit.v", b.String(), nil
}

// ---------------------------------------------------------------- calcbranch

func c01ExtractCalcBranch(repo string) (string, string, error) {
	f, err := c01ParseGraphRun(repo)
	if err != nil {
		return "", "", err
	}
	fn, recv := c01Method(f, "runner", "calculateBranch")
	if fn == nil {
		return "", "", fmt.Errorf("method (*runner).calculateBranch not found")
	}
	if recv != "r" {
		return "", "", fmt.Errorf("calculateBranch: receiver is named %q", recv)
	}
	want := []string{"ctx", "curNodeKey", "startChan", "input", "isStream", "cm"}
	got := c01ParamNames(fn)
	if strings.Join(got, ",") != strings.Join(want, ",") {
		return "", "", fmt.Errorf("calculateBranch: parameters %v", got)
	}
	if fn.Type.Results == nil || len(fn.Type.Results.List) != 2 || c01Squash(fn.Type.Results.List[0].Type) != "[]string" || c01Squash(fn.Type.Results.List[1].Type) != "error" {
		return "", "", fmt.Errorf("calculateBranch: result types")
	}
	t := c01NewTr("runner.calculateBranch")
	t.results, t.hasErr = []string{"keys"}, true
	t.states = []string{"cm"}
	t.elemOf["branches"] = "branch"
	t.types["branch"], t.types["branches"], t.types["state"] = "B", "list B", "CM"
	t.zero["val"] = "zero_value"
	t.env = []c01Var{{"curNodeKey", "key"}, {"input", "vals"}, {"isStream", "bool"}, {"cm", "state"}}
	t.sels["startChan.writeToBranches"] = c01Var{"writeToBranches", "branches"}
	t.sels["startChan.controls"] = c01Var{"controls", "keys"}
	t.sels["branch.endNodes"] = c01Var{"(end_nodes branch)", "kset"}
	t.calls["r.preBranchHandlerManager.handle"] = c01Call{sym: "pre_handle", result: "val", fails: true}
	t.calls["<branch>.invoke"] = c01Call{sym: "branch_invoke", recv: true, result: "keys", fails: true}
	t.calls["<branch>.collect"] = c01Call{sym: "branch_collect", recv: true, result: "keys", fails: true}
	t.calls["cm.reportBranch"] = c01Call{sym: "report_branch", state: "cm", fails: true}
	inl, err := c01NewInl(repo, []string{"compose", "graph_run.go"}, "runner", recv, fn, func(c *ast.CallExpr) bool { _, _, ok := t.callOf(c); return ok })
	if err != nil {
		return "", "", err
	}
	code, err := t.function(inl.body(fn.Body.List), "    ")
	if err != nil {
		return "", "", err
	}
	var b strings.Builder
	b.WriteString("(* Gen/CalcBranch.v — GENERATED by tools/go2v (extractor \"calcbranch\") from compose/graph_run.go\n")
	b.WriteString("   (runner.calculateBranch, translated statement by statement). Do not edit. *)\n")
	b.WriteString("From Eino Require Import Base.Util Model.Graph Model.ImpGenLib.\n\n")
	b.WriteString("Definition tie_available : bool := true.\n\n")
	b.WriteString("Section Gen.\n  Variables V B CM : Type.\n  Variable zero_value : V.\n  Variable err_code : nat -> N.\n")
	b.WriteString("  Variable end_nodes : B -> list key.                          (* branch.endNodes, as a set *)\n")
	b.WriteString("  Variable pre_handle : key -> nat -> V -> bool -> res V.      (* r.preBranchHandlerManager.handle *)\n")
	b.WriteString("  Variable branch_invoke : B -> V -> res (list key).           (* branch.invoke *)\n")
	b.WriteString("  Variable branch_collect : B -> V -> res (list key).          (* branch.collect *)\n")
	b.WriteString("  Variable report_branch : CM -> key -> list key -> res CM.    (* cm.reportBranch *)\n\n")
	fmt.Fprintf(&b, "  Definition calculateBranch (curNodeKey : key) (writeToBranches : list B) (controls : list key)\n      (input : list V) (isStream : bool) (cm : CM) : res (list key * CM) :=\n    %s.\nEnd Gen.\n", code)
	return "CalcBranch.v", b.String(), nil
}
