package main

// A small compiler from the imperative fragment in which the stream plumbing of eino's compose
// package is written (property C04) to Gallina.  Used by the extractors of c04_streamcode.go.
//
// The translation is statement by statement, in continuation-passing style with duplication of
// the continuation at every `if` (the functions are a dozen lines long), and with *static
// resolution* of the tests on the second results of multi-valued operations:
//
//   x, err := f(a)        becomes   match f a with Ok x => … | Err e => … | Panic => Panic end
//   x, ok  := m[k]        becomes   match go_get k m with Some x => … | None => … end
//   x, err := sr.Recv()   becomes   match sr with [] => … | Bad e :: sr' => … | Val x :: sr' => … end
//
// and in each branch the translator knows whether `err != nil`, `err == io.EOF`,
// `errors.Is(err, ErrNoValue)`, `ok` hold, so an `if err != nil { … }` that follows is resolved
// branch by branch instead of being translated as a test.  What remains as Gallina `if` are the
// tests on data (len(items) == 0, isStream, n < 2 …).
//
// Loops:
//   for _, v := range S { … }          fold_res over S; the state is the outer variables assigned in
//                                      the body; a `return _, err` in the body ends the function with
//                                      that error (Err of the fold), nothing else may return there
//   for { x, err := sr.Recv(); … }     a local `fix` by structural recursion on the reader; break /
//                                      falling off the end / continue as expected; `continue` after
//                                      io.EOF would never end and is rejected
// Statements whose effect lies outside the model (Close, defer Close) are skipped when the
// vocabulary of the function says so.  Everything else: "source shape not recognised".

import (
	"fmt"
	"go/ast"
	"go/token"
	"go/types"
	"sort"
	"strings"
)

type c04Env struct {
	vars  map[string]string // Go identifier -> Gallina expression
	facts map[string]string // error / ok variables: "nil" "eof" "novalue" "err:<class expr>" "true" "false"
	zero  map[string]bool   // declared by `var x T` and never assigned: only meaningful beside a non-nil error
}

func newC04Env() *c04Env {
	return &c04Env{vars: map[string]string{}, facts: map[string]string{}, zero: map[string]bool{}}
}

func (e *c04Env) clone() *c04Env {
	n := newC04Env()
	for k, v := range e.vars {
		n.vars[k] = v
	}
	for k, v := range e.facts {
		n.facts[k] = v
	}
	for k, v := range e.zero {
		n.zero[k] = v
	}
	return n
}

func (e *c04Env) set(name, g string) {
	if name == "_" || name == "" {
		return
	}
	e.vars[name] = g
	delete(e.zero, name)
	delete(e.facts, name)
}

// the Gallina name of a Go local (mangled: Go names may be Gallina keywords or clash with the vocabulary)
func c04Name(name string) string {
	if name == "_" || name == "" {
		return "_"
	}
	return name + "_"
}

func (e *c04Env) bind(name string) string {
	g := c04Name(name)
	e.set(name, g)
	return g
}

type c04Cont func(env *c04Env) (string, error)

// one outcome of a multi-valued operation
type c04Case struct {
	pat   string          // Gallina pattern
	apply func(e *c04Env) // bindings and facts of this outcome
	whole string          // non-empty: the whole function's result in this outcome (e.g. "Panic")
}

type c04Multi struct {
	pre   []string // monadic binds needed before the scrutinee
	scrut string
	cases []c04Case
}

type c04Tr struct {
	name string
	// vocabulary of the function being translated (any may be nil)
	exprHook  func(t *c04Tr, env *c04Env, e ast.Expr) (pre []string, g string, ok bool, err error)
	condHook  func(t *c04Tr, env *c04Env, e ast.Expr) (g string, ok bool, err error)
	multiHook func(t *c04Tr, env *c04Env, rhs ast.Expr, lhs []string) (*c04Multi, bool, error)
	ignore    func(call *ast.CallExpr) bool
	errClass  func(t *c04Tr, env *c04Env, e ast.Expr) (string, bool)
	ret       func(t *c04Tr, env *c04Env, results []ast.Expr) (string, error)
	readerOf  func(call *ast.CallExpr) (string, bool) // `x.Recv()` -> Go name (or selector text) of the reader
	varType   map[string]string                       // Gallina types of loop state variables / readers
	loopType  string                                  // result type of a recv loop that is followed by other statements: "res (%s)"
	boolVars  map[string]bool                         // parameters of type bool
	zeroOf    map[string]string                       // Gallina term for the zero value a variable holds beside a non-nil error
	// `x.M(args)` as a statement that updates the variable x: returns the variable and the Gallina term of its new value
	mutates func(t *c04Tr, env *c04Env, call *ast.CallExpr) (name string, pre []string, g string, ok bool, err error)
	// `for it.Next() { … }`: the Gallina list the iterator it runs over (set when `it := ….MapRange()` is met)
	iterOf   func(t *c04Tr, env *c04Env, e ast.Expr) (pre []string, g string, ok bool, err error)
	iters    map[string]string // iterator variable -> Gallina list
	iterElem map[string]string // iterator variable -> Gallina name of the current element inside its loop

	// the files in which a private helper called in tail position (`return helper(args)`) is looked up and
	// inlined (a behaviour-preserving extraction of the end of a function into a helper)
	files    []*ast.File
	recvName string // receiver variable of the method being translated (methods of the same receiver can be inlined)
	inlDepth int
	// `return f(args)` that the vocabulary of the function gives a meaning of its own (checked before inlining)
	tailCall func(t *c04Tr, env *c04Env, call *ast.CallExpr) (g string, ok bool, err error)
	// slices allocated with make([]T, n) and then filled index by index: variable -> Gallina length
	made map[string]string

	inLoop  int
	brk     []c04Cont
	cont    []c04Cont
	tmp     int
	lastRet bool // mode of the recv loop being translated: returns are function returns
}

func (t *c04Tr) errf(format string, a ...any) error {
	return fmt.Errorf("%s: %s", t.name, fmt.Sprintf(format, a...))
}

func (t *c04Tr) fresh(base string) string {
	t.tmp++
	return fmt.Sprintf("%s%d", base, t.tmp)
}

func c04Binds(pre []string, body string) string {
	return strings.Join(pre, "") + body
}

func c04IsIdent(e ast.Expr, name string) bool {
	id, ok := e.(*ast.Ident)
	return ok && id.Name == name
}

// ---------------------------------------------------------------- expressions

func (t *c04Tr) expr(env *c04Env, e ast.Expr) ([]string, string, error) {
	if t.exprHook != nil {
		pre, g, ok, err := t.exprHook(t, env, e)
		if err != nil {
			return nil, "", err
		}
		if ok {
			return pre, g, nil
		}
	}
	switch x := e.(type) {
	case *ast.ParenExpr:
		return t.expr(env, x.X)
	case *ast.Ident:
		switch x.Name {
		case "true", "false":
			return nil, x.Name, nil
		}
		if env.zero[x.Name] {
			if z, ok := t.zeroOf[x.Name]; ok {
				return nil, z, nil
			}
			return nil, "", t.errf("the zero value %s is used as data", x.Name)
		}
		if g, ok := env.vars[x.Name]; ok {
			return nil, g, nil
		}
		return nil, "", t.errf("unknown identifier %s", x.Name)
	case *ast.BasicLit:
		if x.Kind == token.INT {
			return nil, x.Value, nil
		}
	case *ast.CallExpr:
		if sel, ok := x.Fun.(*ast.SelectorExpr); ok && len(x.Args) == 0 {
			if id, ok := sel.X.(*ast.Ident); ok && t.iterElem[id.Name] != "" {
				switch sel.Sel.Name {
				case "Key":
					return nil, "(fst " + t.iterElem[id.Name] + ")", nil
				case "Value":
					return nil, "(snd " + t.iterElem[id.Name] + ")", nil
				}
			}
		}
		if id, ok := x.Fun.(*ast.Ident); ok {
			switch {
			case id.Name == "len" && len(x.Args) == 1:
				pre, g, err := t.expr(env, x.Args[0])
				return pre, "(List.length " + g + ")", err
			case id.Name == "append" && len(x.Args) == 2 && !x.Ellipsis.IsValid():
				p1, a, err := t.expr(env, x.Args[0])
				if err != nil {
					return nil, "", err
				}
				p2, b, err := t.expr(env, x.Args[1])
				if err != nil {
					return nil, "", err
				}
				return append(p1, p2...), "(" + a + " ++ [" + b + "])", nil
			}
		}
	case *ast.BinaryExpr:
		// natural-number arithmetic on lengths and indices (Go's int subtraction below zero has no
		// counterpart: the only subtraction accepted is len(x) - literal, which Gallina truncates at 0
		// exactly where Go's make([]T, -1) would panic; the translated functions document len >= literal)
		if x.Op == token.ADD || x.Op == token.SUB {
			if !c04Numeric(x.X, x.Y) {
				break
			}
			p1, a, err := t.expr(env, x.X)
			if err != nil {
				return nil, "", err
			}
			p2, b, err := t.expr(env, x.Y)
			if err != nil {
				return nil, "", err
			}
			op := " + "
			if x.Op == token.SUB {
				op = " - "
			}
			return append(p1, p2...), "(" + a + op + b + ")", nil
		}
	case *ast.IndexExpr:
		p1, a, err := t.expr(env, x.X)
		if err != nil {
			return nil, "", err
		}
		p2, i, err := t.expr(env, x.Index)
		if err != nil {
			return nil, "", err
		}
		v := t.fresh("x")
		pre := append(append(p1, p2...), fmt.Sprintf("do %s <- go_idx %s %s; ", v, a, i))
		return pre, v, nil
	}
	return nil, "", t.errf("expression %s is outside the translated fragment", types.ExprString(e))
}

// ---------------------------------------------------------------- conditions

// static: "true" / "false" / "" (dynamic, then g is the Gallina boolean)
func (t *c04Tr) cond(env *c04Env, e ast.Expr) (static string, g string, err error) {
	neg := func(s, g string) (string, string) {
		switch s {
		case "true":
			return "false", ""
		case "false":
			return "true", ""
		}
		return "", "(negb " + g + ")"
	}
	switch x := e.(type) {
	case *ast.ParenExpr:
		return t.cond(env, x.X)
	case *ast.Ident:
		if f, ok := env.facts[x.Name]; ok && (f == "true" || f == "false") {
			return f, "", nil
		}
		if t.boolVars[x.Name] {
			return "", env.vars[x.Name], nil
		}
	case *ast.UnaryExpr:
		if x.Op == token.NOT {
			s, g, err := t.cond(env, x.X)
			if err != nil {
				return "", "", err
			}
			s, g = neg(s, g)
			return s, g, nil
		}
	case *ast.CallExpr:
		// errors.Is(err, X)
		if types.ExprString(x.Fun) == "errors.Is" && len(x.Args) == 2 {
			if id, ok := x.Args[0].(*ast.Ident); ok {
				f, known := env.facts[id.Name]
				target := types.ExprString(x.Args[1])
				if known {
					switch {
					case strings.HasSuffix(target, "ErrNoValue"):
						if f == "novalue" {
							return "true", "", nil
						}
						if f == "nil" || f == "eof" || strings.HasPrefix(f, "err:") {
							return "false", "", nil
						}
					case target == "io.EOF":
						if f == "eof" {
							return "true", "", nil
						}
						if f == "nil" || f == "novalue" || strings.HasPrefix(f, "err:") {
							return "false", "", nil
						}
					}
				}
			}
		}
	case *ast.BinaryExpr:
		switch x.Op {
		case token.LAND, token.LOR:
			s1, g1, err := t.cond(env, x.X)
			if err != nil {
				return "", "", err
			}
			s2, g2, err := t.cond(env, x.Y)
			if err != nil {
				return "", "", err
			}
			and := x.Op == token.LAND
			switch {
			case s1 != "" && s2 != "":
				b := (s1 == "true" && s2 == "true")
				if !and {
					b = (s1 == "true" || s2 == "true")
				}
				return fmt.Sprint(b), "", nil
			case s1 != "":
				if (s1 == "true") == and {
					return "", g2, nil
				}
				return s1, "", nil
			case s2 != "":
				if (s2 == "true") == and {
					return "", g1, nil
				}
				// x && false: x is evaluated, but the translated conditions have no effects
				return s2, "", nil
			}
			op := "&&"
			if !and {
				op = "||"
			}
			return "", "(" + g1 + " " + op + " " + g2 + ")", nil
		case token.EQL, token.NEQ:
			// b == true, b == false, b != true, b != false (either side): the test b or its negation
			for _, pr := range [][2]ast.Expr{{x.X, x.Y}, {x.Y, x.X}} {
				lit, ok := pr[1].(*ast.Ident)
				if !ok || (lit.Name != "true" && lit.Name != "false") {
					continue
				}
				s, g, err := t.cond(env, pr[0])
				if err != nil {
					return "", "", err
				}
				if (lit.Name == "true") != (x.Op == token.EQL) {
					s, g = neg(s, g)
				}
				return s, g, nil
			}
			// err == nil, err != nil, err == io.EOF (either side)
			a, b := x.X, x.Y
			if _, ok := b.(*ast.Ident); ok && (c04IsIdent(a, "nil") || types.ExprString(a) == "io.EOF") {
				a, b = b, a
			}
			if id, ok := a.(*ast.Ident); ok {
				if f, known := env.facts[id.Name]; known && f != "true" && f != "false" {
					var s string
					switch {
					case c04IsIdent(b, "nil"):
						s = fmt.Sprint(f == "nil")
					case types.ExprString(b) == "io.EOF":
						s = fmt.Sprint(f == "eof")
					}
					if s != "" {
						if x.Op == token.NEQ {
							s, _ = neg(s, "")
						}
						return s, "", nil
					}
				}
			}
		}
		if t.condHook != nil {
			g, ok, err := t.condHook(t, env, e)
			if err != nil {
				return "", "", err
			}
			if ok {
				return "", g, nil
			}
		}
		// comparisons of numbers
		var op string
		switch x.Op {
		case token.EQL:
			op = "Nat.eqb %s %s"
		case token.NEQ:
			op = "negb (Nat.eqb %s %s)"
		case token.LSS:
			op = "Nat.ltb %s %s"
		case token.LEQ:
			op = "Nat.leb %s %s"
		case token.GTR:
			op = "Nat.ltb %[2]s %[1]s"
		case token.GEQ:
			op = "Nat.leb %[2]s %[1]s"
		}
		if op != "" {
			p1, a, err1 := t.expr(env, x.X)
			p2, b, err2 := t.expr(env, x.Y)
			if err1 == nil && err2 == nil && len(p1) == 0 && len(p2) == 0 && c04Numeric(x.X, x.Y) {
				return "", "(" + fmt.Sprintf(op, a, b) + ")", nil
			}
		}
	}
	if t.condHook != nil {
		g, ok, err := t.condHook(t, env, e)
		if err != nil {
			return "", "", err
		}
		if ok {
			return "", g, nil
		}
	}
	return "", "", t.errf("condition %s is outside the translated fragment", types.ExprString(e))
}

// one side is an integer literal or a len(...) call: the comparison is between numbers
func c04Numeric(a, b ast.Expr) bool {
	isNum := func(e ast.Expr) bool {
		if l, ok := e.(*ast.BasicLit); ok && l.Kind == token.INT {
			return true
		}
		if c, ok := e.(*ast.CallExpr); ok && c04IsIdent(c.Fun, "len") {
			return true
		}
		return false
	}
	return isNum(a) || isNum(b)
}

// ---------------------------------------------------------------- statements

func c04Terminates(l []ast.Stmt) bool {
	if len(l) == 0 {
		return false
	}
	switch s := l[len(l)-1].(type) {
	case *ast.ReturnStmt:
		return true
	case *ast.BranchStmt:
		return s.Tok == token.BREAK || s.Tok == token.CONTINUE
	}
	return false
}

func c04Cat(a, b []ast.Stmt) []ast.Stmt {
	if c04Terminates(a) {
		return a
	}
	r := make([]ast.Stmt, 0, len(a)+len(b))
	r = append(r, a...)
	return append(r, b...)
}

// the outer variables assigned (with =) in a loop body
func c04Assigned(env *c04Env, body *ast.BlockStmt) []string {
	seen := map[string]bool{}
	ast.Inspect(body, func(n ast.Node) bool {
		if es, ok := n.(*ast.ExprStmt); ok {
			// x.M(…) as a statement: x may be updated (the vocabulary decides; an ignored call on a
			// state variable just carries the variable through the loop unchanged)
			if call, ok := es.X.(*ast.CallExpr); ok {
				if sel, ok := call.Fun.(*ast.SelectorExpr); ok {
					if id, ok := sel.X.(*ast.Ident); ok {
						if _, outer := env.vars[id.Name]; outer {
							seen[id.Name] = true
						}
					}
				}
			}
		}
		as, ok := n.(*ast.AssignStmt)
		if !ok || as.Tok != token.ASSIGN {
			return true
		}
		for _, l := range as.Lhs {
			if id, ok := l.(*ast.Ident); ok && id.Name != "_" {
				if _, outer := env.vars[id.Name]; outer {
					seen[id.Name] = true
				}
			}
		}
		return true
	})
	var r []string
	for k := range seen {
		r = append(r, k)
	}
	sort.Strings(r)
	return r
}

func c04Names(st []string) []string {
	r := make([]string, len(st))
	for i, n := range st {
		r[i] = c04Name(n)
	}
	return r
}

func c04Tuple(names []string) string {
	switch len(names) {
	case 0:
		return "tt"
	case 1:
		return names[0]
	}
	return "(" + strings.Join(names, ", ") + ")"
}

func c04TuplePat(names []string) string {
	switch len(names) {
	case 0:
		return "_"
	case 1:
		return names[0]
	}
	return "'(" + strings.Join(names, ", ") + ")"
}

func (t *c04Tr) stateExpr(env *c04Env, st []string) (string, error) {
	vals := make([]string, len(st))
	for i, s := range st {
		vals[i] = env.vars[s]
		if env.zero[s] {
			z, ok := t.zeroOf[s]
			if !ok {
				return "", t.errf("the zero value %s is carried on as data", s)
			}
			vals[i] = z
		}
	}
	return c04Tuple(vals), nil
}

func (t *c04Tr) okState(env *c04Env, st []string) (string, error) {
	g, err := t.stateExpr(env, st)
	return "Ok " + g, err
}

func (t *c04Tr) stmts(env *c04Env, l []ast.Stmt, k c04Cont) (string, error) {
	if len(l) == 0 {
		return k(env)
	}
	rest := l[1:]
	switch s := l[0].(type) {
	case *ast.EmptyStmt:
		return t.stmts(env, rest, k)
	case *ast.BlockStmt:
		return t.stmts(env, c04Cat(s.List, rest), k)
	case *ast.ReturnStmt:
		if g, ok, err := t.inlineTail(env, s); ok || err != nil {
			return g, err
		}
		return t.ret(t, env, s.Results)
	case *ast.SwitchStmt:
		ifs, err := t.switchToIf(s)
		if err != nil {
			return "", err
		}
		return t.stmts(env, append(ifs, rest...), k)
	case *ast.DeferStmt:
		if t.ignore != nil && t.ignore(s.Call) {
			return t.stmts(env, rest, k)
		}
		return "", t.errf("defer %s is outside the translated fragment", types.ExprString(s.Call))
	case *ast.ExprStmt:
		if call, ok := s.X.(*ast.CallExpr); ok && t.ignore != nil && t.ignore(call) {
			return t.stmts(env, rest, k)
		}
		if call, ok := s.X.(*ast.CallExpr); ok && t.mutates != nil {
			name, pre, g, ok, err := t.mutates(t, env, call)
			if err != nil {
				return "", err
			}
			if ok {
				gn := env.bind(name)
				body, err := t.stmts(env, rest, k)
				if err != nil {
					return "", err
				}
				return c04Binds(pre, "let "+gn+" := "+g+" in\n "+body), nil
			}
		}
		return "", t.errf("statement %s is outside the translated fragment", types.ExprString(s.X))
	case *ast.DeclStmt:
		gd, ok := s.Decl.(*ast.GenDecl)
		if !ok || gd.Tok != token.VAR {
			return "", t.errf("declaration outside the translated fragment")
		}
		for _, sp := range gd.Specs {
			vs := sp.(*ast.ValueSpec)
			if len(vs.Values) != 0 {
				return "", t.errf("var with an initial value")
			}
			for _, n := range vs.Names {
				switch ty := vs.Type.(type) {
				case *ast.ArrayType:
					if ty.Len == nil {
						env.set(n.Name, "[]")
						continue
					}
				case *ast.Ident:
					if ty.Name == "error" {
						env.bind(n.Name)
						env.facts[n.Name] = "nil"
						continue
					}
				}
				env.bind(n.Name)
				env.zero[n.Name] = true
			}
		}
		return t.stmts(env, rest, k)
	case *ast.BranchStmt:
		switch s.Tok {
		case token.BREAK:
			if len(t.brk) == 0 || t.brk[len(t.brk)-1] == nil {
				return "", t.errf("break outside a translated loop")
			}
			return t.brk[len(t.brk)-1](env)
		case token.CONTINUE:
			if len(t.cont) == 0 || t.cont[len(t.cont)-1] == nil {
				return "", t.errf("continue outside a translated loop")
			}
			return t.cont[len(t.cont)-1](env)
		}
		return "", t.errf("branch statement outside the translated fragment")
	case *ast.AssignStmt:
		return t.assign(env, s, rest, k)
	case *ast.IfStmt:
		if s.Init != nil {
			bare := *s
			bare.Init = nil
			return t.stmts(env, append([]ast.Stmt{s.Init, &bare}, rest...), k)
		}
		static, g, err := t.cond(env, s.Cond)
		if err != nil {
			return "", err
		}
		thenL := c04Cat(s.Body.List, rest)
		var elseL []ast.Stmt
		switch e := s.Else.(type) {
		case nil:
			elseL = rest
		case *ast.BlockStmt:
			elseL = c04Cat(e.List, rest)
		default:
			elseL = append([]ast.Stmt{e}, rest...)
		}
		switch static {
		case "true":
			return t.stmts(env, thenL, k)
		case "false":
			return t.stmts(env, elseL, k)
		}
		a, err := t.stmts(env.clone(), thenL, k)
		if err != nil {
			return "", err
		}
		b, err := t.stmts(env.clone(), elseL, k)
		if err != nil {
			return "", err
		}
		return "(if " + g + "\n then " + a + "\n else " + b + ")", nil
	case *ast.RangeStmt:
		return t.rangeLoop(env, s, rest, k)
	case *ast.ForStmt:
		if s.Init == nil && s.Post == nil && s.Cond != nil {
			if call, ok := s.Cond.(*ast.CallExpr); ok && len(call.Args) == 0 {
				if sel, ok := call.Fun.(*ast.SelectorExpr); ok && sel.Sel.Name == "Next" {
					if id, ok := sel.X.(*ast.Ident); ok && t.iters[id.Name] != "" {
						return t.iterLoop(env, s, id.Name, rest, k)
					}
				}
			}
		}
		if g, ok, err := t.fillLoop(env, s, rest, k); ok || err != nil {
			return g, err
		}
		return t.recvLoop(env, s, rest, k)
	}
	return "", t.errf("statement outside the translated fragment")
}

// x := make([]T, n) … for i := 0; i < len(x); i++ { …; x[i] = e }   (the last statement of the body fills
// the slot; the statements before it may bind locals and leave the function with an error)
//
//	=  do x_ <- res_mapM (fun i_ => … Ok e) (seq 0 n); rest
func (t *c04Tr) fillLoop(env *c04Env, s *ast.ForStmt, rest []ast.Stmt, k c04Cont) (string, bool, error) {
	if s.Init == nil || s.Cond == nil || s.Post == nil || len(s.Body.List) == 0 {
		return "", false, nil
	}
	init, ok := s.Init.(*ast.AssignStmt)
	if !ok || init.Tok != token.DEFINE || len(init.Lhs) != 1 || len(init.Rhs) != 1 {
		return "", false, nil
	}
	iv, ok := init.Lhs[0].(*ast.Ident)
	if lit, isLit := init.Rhs[0].(*ast.BasicLit); !ok || !isLit || lit.Value != "0" {
		return "", false, nil
	}
	post, ok := s.Post.(*ast.IncDecStmt)
	if !ok || post.Tok != token.INC || !c04IsIdent(post.X, iv.Name) {
		return "", false, nil
	}
	cond, ok := s.Cond.(*ast.BinaryExpr)
	if !ok || cond.Op != token.LSS || !c04IsIdent(cond.X, iv.Name) {
		return "", false, nil
	}
	lenCall, ok := cond.Y.(*ast.CallExpr)
	if !ok || !c04IsIdent(lenCall.Fun, "len") || len(lenCall.Args) != 1 {
		return "", false, nil
	}
	xv, ok := lenCall.Args[0].(*ast.Ident)
	if !ok || t.made[xv.Name] == "" || !env.zero[xv.Name] {
		return "", false, nil
	}
	last, ok := s.Body.List[len(s.Body.List)-1].(*ast.AssignStmt)
	if !ok || last.Tok != token.ASSIGN || len(last.Lhs) != 1 || len(last.Rhs) != 1 {
		return "", false, t.errf("the loop over %s does not end with %s[%s] = …", xv.Name, xv.Name, iv.Name)
	}
	slot, ok := last.Lhs[0].(*ast.IndexExpr)
	if !ok || !c04IsIdent(slot.X, xv.Name) || !c04IsIdent(slot.Index, iv.Name) {
		return "", false, t.errf("the loop over %s does not end with %s[%s] = …", xv.Name, xv.Name, iv.Name)
	}
	// nothing else in the body may touch x or i, or assign an outer variable
	bad := false
	for _, st := range s.Body.List[:len(s.Body.List)-1] {
		ast.Inspect(st, func(n ast.Node) bool {
			switch y := n.(type) {
			case *ast.AssignStmt:
				for _, l := range y.Lhs {
					if id, ok := l.(*ast.Ident); ok {
						if _, outer := env.vars[id.Name]; outer && y.Tok == token.ASSIGN {
							bad = true
						}
						if id.Name == iv.Name {
							bad = true
						}
					} else {
						bad = true
					}
				}
			case *ast.IncDecStmt:
				bad = true
			case *ast.Ident:
				if y.Name == xv.Name {
					bad = true
				}
			}
			return true
		})
	}
	if bad {
		return "", false, t.errf("the loop over %s does more than fill it", xv.Name)
	}
	benv := env.clone()
	ig := benv.bind(iv.Name)
	t.inLoop++
	t.brk = append(t.brk, nil)
	t.cont = append(t.cont, nil)
	body, err := t.stmts(benv, s.Body.List[:len(s.Body.List)-1], func(e *c04Env) (string, error) {
		pre, g, err := t.expr(e, last.Rhs[0])
		if err != nil {
			return "", err
		}
		return c04Binds(pre, "Ok "+g), nil
	})
	t.inLoop--
	t.brk = t.brk[:len(t.brk)-1]
	t.cont = t.cont[:len(t.cont)-1]
	if err != nil {
		return "", false, err
	}
	aenv := env.clone()
	xg := aenv.bind(xv.Name)
	after, err := t.stmts(aenv, rest, k)
	if err != nil {
		return "", false, err
	}
	return fmt.Sprintf("do %s <- res_mapM (fun %s =>\n %s) (seq 0 %s);\n %s", xg, ig, body, t.made[xv.Name], after), true, nil
}

// switch { case c1: A; case c2: B; default: C }  =  if c1 { A } else if c2 { B } else { C };
// switch x { case a, b: A … } likewise with the tests x == a || x == b (x a plain variable).
// A `break` inside a case would leave the switch, not the enclosing loop, and `fallthrough` joins two
// cases: both are outside the fragment.
func (t *c04Tr) switchToIf(s *ast.SwitchStmt) ([]ast.Stmt, error) {
	var out []ast.Stmt
	if s.Init != nil {
		out = append(out, s.Init)
	}
	if s.Tag != nil {
		// the tag is evaluated once in Go and once per test here: only expressions without effects
		tag := s.Tag
		if c, ok := tag.(*ast.CallExpr); ok && c04IsIdent(c.Fun, "len") && len(c.Args) == 1 {
			tag = c.Args[0]
		}
		if _, ok := tag.(*ast.Ident); !ok {
			return nil, t.errf("switch on %s (not a plain variable or its length)", types.ExprString(s.Tag))
		}
	}
	bad := false
	ast.Inspect(s.Body, func(n ast.Node) bool {
		if b, ok := n.(*ast.BranchStmt); ok && (b.Tok == token.BREAK || b.Tok == token.FALLTHROUGH || b.Tok == token.GOTO) {
			bad = true
		}
		return true
	})
	if bad {
		return nil, t.errf("switch with break / fallthrough")
	}
	var dflt []ast.Stmt
	hasDflt := false
	type arm struct {
		cond ast.Expr
		body []ast.Stmt
	}
	var arms []arm
	for _, c := range s.Body.List {
		cc, ok := c.(*ast.CaseClause)
		if !ok {
			return nil, t.errf("switch body")
		}
		if cc.List == nil {
			dflt, hasDflt = cc.Body, true
			continue
		}
		var cond ast.Expr
		for _, e := range cc.List {
			one := e
			if s.Tag != nil {
				one = &ast.BinaryExpr{X: s.Tag, Op: token.EQL, Y: e}
			}
			if cond == nil {
				cond = one
			} else {
				cond = &ast.BinaryExpr{X: cond, Op: token.LOR, Y: one}
			}
		}
		arms = append(arms, arm{cond, cc.Body})
	}
	if len(arms) == 0 {
		return append(out, dflt...), nil
	}
	var tail ast.Stmt
	if hasDflt {
		tail = &ast.BlockStmt{List: dflt}
	}
	for i := len(arms) - 1; i >= 0; i-- {
		is := &ast.IfStmt{Cond: arms[i].cond, Body: &ast.BlockStmt{List: arms[i].body}}
		if tail != nil {
			is.Else = tail
		}
		tail = is
	}
	return append(out, tail), nil
}

// `return helper(args)` where helper is a private function of the translated files (or a method of the
// same receiver): the call is replaced by the helper's body, its parameters standing for the argument
// expressions (the arguments of the translated fragment have no effects; an argument whose evaluation can
// panic — an index — is evaluated before the body, as Go does).  Tail position only: nothing of the caller
// is needed afterwards, so the helper's locals may shadow the caller's.
func (t *c04Tr) inlineTail(env *c04Env, s *ast.ReturnStmt) (string, bool, error) {
	if len(s.Results) != 1 || len(t.files) == 0 {
		return "", false, nil
	}
	call, ok := s.Results[0].(*ast.CallExpr)
	if !ok || call.Ellipsis.IsValid() {
		return "", false, nil
	}
	if t.tailCall != nil {
		if g, ok, err := t.tailCall(t, env, call); ok || err != nil {
			return g, ok, err
		}
	}
	var fd *ast.FuncDecl
	fun := call.Fun
	switch ix := fun.(type) { // explicit type arguments: helper[T](…)
	case *ast.IndexExpr:
		fun = ix.X
	case *ast.IndexListExpr:
		fun = ix.X
	}
	switch f := fun.(type) {
	case *ast.Ident:
		for _, file := range t.files {
			if d := c04TopFunc(file, f.Name); d != nil {
				fd = d
			}
		}
	case *ast.SelectorExpr:
		if id, ok := f.X.(*ast.Ident); ok && t.recvName != "" && id.Name == t.recvName {
			for _, file := range t.files {
				for _, d := range file.Decls {
					if m, ok := d.(*ast.FuncDecl); ok && m.Recv != nil && m.Name.Name == f.Sel.Name && c04RecvName(m) == t.recvName {
						fd = m
					}
				}
			}
		}
	}
	if fd == nil || fd.Body == nil {
		return "", false, nil
	}
	if t.inlDepth >= 3 {
		return "", false, t.errf("helper calls nested too deep at %s", fd.Name.Name)
	}
	params := c04ParamNames(fd.Type)
	nparams := 0
	variadic := false
	if fd.Type.Params != nil {
		for _, f := range fd.Type.Params.List {
			n := len(f.Names)
			if n == 0 {
				n = 1
			}
			nparams += n
			if _, ok := f.Type.(*ast.Ellipsis); ok {
				variadic = true
			}
		}
	}
	if variadic || nparams != len(params) || len(params) != len(call.Args) {
		return "", false, t.errf("call of %s: parameters not recognised", fd.Name.Name)
	}
	// names the helper's body binds (their Gallina names must not capture the argument expressions)
	bound := map[string]bool{}
	ast.Inspect(fd.Body, func(n ast.Node) bool {
		switch x := n.(type) {
		case *ast.AssignStmt:
			for _, l := range x.Lhs {
				if id, ok := l.(*ast.Ident); ok {
					bound[c04Name(id.Name)] = true
				}
			}
		case *ast.ValueSpec:
			for _, id := range x.Names {
				bound[c04Name(id.Name)] = true
			}
		case *ast.RangeStmt:
			for _, e := range []ast.Expr{x.Key, x.Value} {
				if id, ok := e.(*ast.Ident); ok {
					bound[c04Name(id.Name)] = true
				}
			}
		}
		return true
	})
	captured := func(g string) bool {
		for _, tok := range strings.FieldsFunc(g, func(r rune) bool {
			return !(r == '_' || r == '\'' || r >= '0' && r <= '9' || r >= 'a' && r <= 'z' || r >= 'A' && r <= 'Z')
		}) {
			if bound[tok] {
				return true
			}
		}
		return false
	}
	cenv := newC04Env()
	for k, v := range env.vars {
		if strings.Contains(k, ".") { // fields of the receiver
			cenv.vars[k] = v
		}
	}
	if sel, ok := fun.(*ast.SelectorExpr); ok {
		if g, ok := env.vars[types.ExprString(sel.X)]; ok {
			cenv.vars[types.ExprString(sel.X)] = g
		}
	}
	saveBool, saveZero, saveType := t.boolVars, t.zeroOf, t.varType
	nb, nz, nt := map[string]bool{}, map[string]string{}, map[string]string{}
	for k, v := range saveType {
		if strings.Contains(k, ".") {
			nt[k] = v
		}
	}
	var pre []string
	var lets string
	i := 0
	for _, f := range fd.Type.Params.List {
		for _, pn := range f.Names {
			arg := call.Args[i]
			i++
			if types.ExprString(f.Type) == "bool" {
				s, g, err := t.cond(env, arg)
				if err != nil {
					return "", false, err
				}
				if s != "" {
					g = s
				}
				if captured(g) {
					v := t.fresh("arg")
					lets += "let " + v + " := " + g + " in\n "
					g = v
				}
				cenv.set(pn.Name, g)
				nb[pn.Name] = true
				continue
			}
			p, g, err := t.expr(env, arg)
			if err != nil {
				return "", false, err
			}
			pre = append(pre, p...)
			if captured(g) {
				v := t.fresh("arg")
				lets += "let " + v + " := " + g + " in\n "
				g = v
			}
			cenv.set(pn.Name, g)
			if id, ok := arg.(*ast.Ident); ok {
				if z, ok := saveZero[id.Name]; ok {
					nz[pn.Name] = z
				}
				if ty, ok := saveType[id.Name]; ok {
					nt[pn.Name] = ty
				}
				if f, ok := env.facts[id.Name]; ok {
					cenv.facts[pn.Name] = f
				}
			}
		}
	}
	t.boolVars, t.zeroOf, t.varType = nb, nz, nt
	t.inlDepth++
	saveName := t.name
	t.name = saveName + " -> " + fd.Name.Name
	body, err := t.stmts(cenv, fd.Body.List, func(*c04Env) (string, error) {
		return "", t.errf("control reaches the end without a return")
	})
	t.name = saveName
	t.inlDepth--
	t.boolVars, t.zeroOf, t.varType = saveBool, saveZero, saveType
	if err != nil {
		return "", false, err
	}
	return c04Binds(pre, lets+body), true, nil
}

func (t *c04Tr) lhsNames(as *ast.AssignStmt) ([]string, error) {
	var names []string
	for _, l := range as.Lhs {
		id, ok := l.(*ast.Ident)
		if !ok {
			return nil, t.errf("assignment to %s is outside the translated fragment", types.ExprString(l))
		}
		names = append(names, id.Name)
	}
	return names, nil
}

func (t *c04Tr) assign(env *c04Env, as *ast.AssignStmt, rest []ast.Stmt, k c04Cont) (string, error) {
	if as.Tok != token.ASSIGN && as.Tok != token.DEFINE {
		return "", t.errf("assignment operator %s", as.Tok)
	}
	names, err := t.lhsNames(as)
	if err != nil {
		return "", err
	}
	if len(as.Rhs) == len(names) && len(names) > 1 {
		// a, b := e1, e2 with expressions that do not mention a or b: two assignments
		for _, r := range as.Rhs {
			bad := false
			ast.Inspect(r, func(n ast.Node) bool {
				if id, ok := n.(*ast.Ident); ok {
					for _, nm := range names {
						bad = bad || (nm != "_" && id.Name == nm)
					}
				}
				return true
			})
			if bad {
				return "", t.errf("parallel assignment whose right-hand sides use the assigned variables")
			}
		}
		var seq []ast.Stmt
		for i := range names {
			seq = append(seq, &ast.AssignStmt{Lhs: []ast.Expr{as.Lhs[i]}, Tok: as.Tok, Rhs: []ast.Expr{as.Rhs[i]}})
		}
		return t.stmts(env, append(seq, rest...), k)
	}
	if len(as.Rhs) != 1 {
		return "", t.errf("parallel assignment")
	}
	if len(names) == 1 && as.Tok == token.DEFINE && t.made != nil {
		// x := make([]T, n): filled index by index by the loop that follows (fillLoop)
		if call, ok := as.Rhs[0].(*ast.CallExpr); ok && c04IsIdent(call.Fun, "make") && len(call.Args) == 2 {
			if _, isSlice := call.Args[0].(*ast.ArrayType); isSlice {
				pre, g, err := t.expr(env, call.Args[1])
				if err != nil {
					return "", err
				}
				t.made[names[0]] = g
				env.bind(names[0])
				env.zero[names[0]] = true // n zero values: never read before the loop has filled them
				body, err := t.stmts(env, rest, k)
				if err != nil {
					return "", err
				}
				return c04Binds(pre, body), nil
			}
		}
	}
	if len(names) == 1 && t.iterOf != nil && as.Tok == token.DEFINE {
		// it := reflect.ValueOf(x).MapRange()
		pre, g, ok, err := t.iterOf(t, env, as.Rhs[0])
		if err != nil {
			return "", err
		}
		if ok {
			if t.iters == nil {
				t.iters = map[string]string{}
			}
			v := t.fresh("range")
			t.iters[names[0]] = v
			body, err := t.stmts(env, rest, k)
			if err != nil {
				return "", err
			}
			return c04Binds(pre, "let "+v+" := "+g+" in\n "+body), nil
		}
	}
	if len(names) == 2 {
		if t.multiHook == nil {
			return "", t.errf("two-valued operation %s not in the vocabulary", types.ExprString(as.Rhs[0]))
		}
		m, ok, err := t.multiHook(t, env, as.Rhs[0], names)
		if err != nil {
			return "", err
		}
		if !ok {
			return "", t.errf("two-valued operation %s not in the vocabulary", types.ExprString(as.Rhs[0]))
		}
		return t.emitMulti(env, m, rest, k)
	}
	if len(names) != 1 {
		return "", t.errf("assignment with %d left-hand sides", len(names))
	}
	pre, g, err := t.expr(env, as.Rhs[0])
	if err != nil {
		return "", err
	}
	if names[0] == "_" {
		return t.stmts(env, rest, k)
	}
	gn := env.bind(names[0])
	body, err := t.stmts(env, rest, k)
	if err != nil {
		return "", err
	}
	return c04Binds(pre, "let "+gn+" := "+g+" in\n "+body), nil
}

func (t *c04Tr) emitMulti(env *c04Env, m *c04Multi, rest []ast.Stmt, k c04Cont) (string, error) {
	var b strings.Builder
	b.WriteString("match " + m.scrut + " with")
	for _, c := range m.cases {
		b.WriteString("\n | " + c.pat + " => ")
		if c.whole != "" {
			b.WriteString(c.whole)
			continue
		}
		e := env.clone()
		c.apply(e)
		body, err := t.stmts(e, rest, k)
		if err != nil {
			return "", err
		}
		b.WriteString(body)
	}
	b.WriteString("\n end")
	return c04Binds(m.pre, "("+b.String()+")"), nil
}

// ---------------------------------------------------------------- loops

func (t *c04Tr) rangeLoop(env *c04Env, s *ast.RangeStmt, rest []ast.Stmt, k c04Cont) (string, error) {
	if s.Key != nil && !c04IsIdent(s.Key, "_") {
		return "", t.errf("range loop that uses the index")
	}
	v, ok := s.Value.(*ast.Ident)
	if !ok || s.Tok != token.DEFINE {
		return "", t.errf("range loop without `_, v :=`")
	}
	pre, slice, err := t.expr(env, s.X)
	if err != nil {
		return "", err
	}
	st := c04Assigned(env, s.Body)
	benv := env.clone()
	for _, n := range st {
		benv.bind(n)
	}
	vg := benv.bind(v.Name)
	end := func(e *c04Env) (string, error) { return t.okState(e, st) }
	t.inLoop++
	t.brk = append(t.brk, nil)
	t.cont = append(t.cont, end)
	body, err := t.stmts(benv, s.Body.List, end)
	t.inLoop--
	t.brk = t.brk[:len(t.brk)-1]
	t.cont = t.cont[:len(t.cont)-1]
	if err != nil {
		return "", err
	}
	init, err := t.stateExpr(env, st)
	if err != nil {
		return "", err
	}
	gst := c04Names(st)
	aenv := env.clone()
	for _, n := range st {
		aenv.bind(n)
	}
	after, err := t.stmts(aenv, rest, k)
	if err != nil {
		return "", err
	}
	return c04Binds(pre, fmt.Sprintf("do %s <- fold_res (fun %s %s =>\n %s) %s %s;\n %s",
		c04TuplePat(gst), c04TuplePat(gst), vg, body, slice, init, after)), nil
}

// for it.Next() { … it.Key() … it.Value() … }: a fold over the entries the iterator runs over
func (t *c04Tr) iterLoop(env *c04Env, s *ast.ForStmt, it string, rest []ast.Stmt, k c04Cont) (string, error) {
	st := c04Assigned(env, s.Body)
	benv := env.clone()
	for _, n := range st {
		benv.bind(n)
	}
	elem := t.fresh("it")
	if t.iterElem == nil {
		t.iterElem = map[string]string{}
	}
	t.iterElem[it] = elem
	end := func(e *c04Env) (string, error) { return t.okState(e, st) }
	t.inLoop++
	t.brk = append(t.brk, nil)
	t.cont = append(t.cont, end)
	body, err := t.stmts(benv, s.Body.List, end)
	t.inLoop--
	t.brk = t.brk[:len(t.brk)-1]
	t.cont = t.cont[:len(t.cont)-1]
	delete(t.iterElem, it)
	if err != nil {
		return "", err
	}
	init, err := t.stateExpr(env, st)
	if err != nil {
		return "", err
	}
	gst := c04Names(st)
	aenv := env.clone()
	for _, n := range st {
		aenv.bind(n)
	}
	after, err := t.stmts(aenv, rest, k)
	if err != nil {
		return "", err
	}
	return fmt.Sprintf("do %s <- fold_res (fun %s %s =>\n %s) %s %s;\n %s",
		c04TuplePat(gst), c04TuplePat(gst), elem, body, t.iters[it], init, after), nil
}

func (t *c04Tr) recvLoop(env *c04Env, s *ast.ForStmt, rest []ast.Stmt, k c04Cont) (string, error) {
	if s.Init != nil || s.Cond != nil || s.Post != nil || len(s.Body.List) == 0 {
		return "", t.errf("for loop that is not `for { x, err := r.Recv(); … }`")
	}
	first, ok := s.Body.List[0].(*ast.AssignStmt)
	if !ok || len(first.Lhs) != 2 || len(first.Rhs) != 1 || first.Tok != token.DEFINE {
		return "", t.errf("for loop that does not start with `x, err := r.Recv()`")
	}
	call, ok := first.Rhs[0].(*ast.CallExpr)
	if !ok || t.readerOf == nil {
		return "", t.errf("for loop that does not start with `x, err := r.Recv()`")
	}
	reader, ok := t.readerOf(call)
	if !ok {
		return "", t.errf("for loop that does not start with a Recv of a known reader: %s", types.ExprString(call))
	}
	names, err := t.lhsNames(first)
	if err != nil {
		return "", err
	}
	chunk, errv := names[0], names[1]
	rg, ok := env.vars[reader]
	if !ok {
		return "", t.errf("unknown reader %s", reader)
	}
	rty := t.varType[reader]
	st := c04Assigned(env, s.Body)
	var params []string
	for _, n := range st {
		ty, ok := t.varType[n]
		if !ok {
			return "", t.errf("loop state variable %s has no declared model type", n)
		}
		params = append(params, fmt.Sprintf("(%s : %s)", c04Name(n), ty))
	}
	last := len(rest) == 0 && t.inLoop == 0
	loop := t.fresh("loop")
	rv, rv2 := "rd", "rd'"
	recur := func(e *c04Env) (string, error) {
		if e.vars[reader] == "[]" {
			return "", t.errf("the loop goes on after io.EOF: it would never end")
		}
		args := []string{loop, e.vars[reader]}
		for _, n := range st {
			g, err := t.stateExpr(e, []string{n})
			if err != nil {
				return "", err
			}
			args = append(args, g)
		}
		return "(" + strings.Join(args, " ") + ")", nil
	}
	var brk c04Cont
	var resTy string
	if last {
		resTy = t.loopType
	} else {
		tys := make([]string, len(st))
		for i, n := range st {
			tys[i] = t.varType[n]
		}
		switch len(tys) {
		case 0:
			resTy = "res unit"
		case 1:
			resTy = "res (" + tys[0] + ")"
		default:
			resTy = "res (" + strings.Join(tys, " * ") + ")"
		}
		brk = func(e *c04Env) (string, error) { return t.okState(e, st) }
	}
	benv := env.clone()
	for _, n := range st {
		benv.bind(n)
	}
	benv.set(reader, rv)
	t.inLoop++
	t.brk = append(t.brk, brk)
	t.cont = append(t.cont, recur)
	saveLast := t.lastRet
	t.lastRet = last
	body := s.Body.List[1:]
	type oc struct {
		pat  string
		prep func(e *c04Env)
	}
	ocs := []oc{
		{"[]", func(e *c04Env) {
			e.set(reader, "[]")
			e.bind(chunk)
			e.zero[chunk] = true
			e.bind(errv)
			e.facts[errv] = "eof"
		}},
		{"Bad ee :: " + rv2, func(e *c04Env) {
			e.set(reader, rv2)
			e.bind(chunk)
			e.zero[chunk] = true
			e.bind(errv)
			e.facts[errv] = "err:ee"
		}},
		{"Val " + c04Name(chunk) + " :: " + rv2, func(e *c04Env) { e.set(reader, rv2); e.bind(chunk); e.bind(errv); e.facts[errv] = "nil" }},
	}
	var b strings.Builder
	fmt.Fprintf(&b, "((fix %s (%s : %s) %s {struct %s} : %s :=\n match %s with", loop, rv, rty, strings.Join(params, " "), rv, resTy, rv)
	var ferr error
	for _, o := range ocs {
		e := benv.clone()
		o.prep(e)
		g, err := t.stmts(e, body, recur)
		if err != nil {
			ferr = err
			break
		}
		b.WriteString("\n | " + o.pat + " => " + g)
	}
	t.inLoop--
	t.brk = t.brk[:len(t.brk)-1]
	t.cont = t.cont[:len(t.cont)-1]
	t.lastRet = saveLast
	if ferr != nil {
		return "", ferr
	}
	args := []string{rg}
	for _, n := range st {
		args = append(args, env.vars[n])
	}
	fmt.Fprintf(&b, "\n end) %s)", strings.Join(args, " "))
	if last {
		return b.String(), nil
	}
	aenv := env.clone()
	for _, n := range st {
		aenv.bind(n)
	}
	after, err := t.stmts(aenv, rest, k)
	if err != nil {
		return "", err
	}
	return fmt.Sprintf("do %s <- %s;\n %s", c04TuplePat(c04Names(st)), b.String(), after), nil
}

// ---------------------------------------------------------------- shared vocabulary pieces

// (v, err) results as [res]: `return v, nil` = Ok v; `return _, e` = Err (class of e)
func c04RetRes(t *c04Tr, env *c04Env, results []ast.Expr) (string, error) {
	if len(results) != 2 {
		return "", t.errf("return with %d results", len(results))
	}
	isNil := c04IsIdent(results[1], "nil")
	if id, ok := results[1].(*ast.Ident); ok && env.facts[id.Name] == "nil" {
		isNil = true
	}
	if isNil {
		if t.inLoop > 0 && !t.lastRet {
			return "", t.errf("return without an error inside a loop")
		}
		pre, g, err := t.expr(env, results[0])
		if err != nil {
			return "", err
		}
		return c04Binds(pre, "Ok "+g), nil
	}
	cls, ok := c04ErrClass(t, env, results[1])
	if !ok {
		return "", t.errf("error value %s not classified", types.ExprString(results[1]))
	}
	return "Err " + cls, nil
}

func c04ErrClass(t *c04Tr, env *c04Env, e ast.Expr) (string, bool) {
	if id, ok := e.(*ast.Ident); ok {
		if f, known := env.facts[id.Name]; known && strings.HasPrefix(f, "err:") {
			return strings.TrimPrefix(f, "err:"), true
		}
	}
	if t.errClass != nil {
		return t.errClass(t, env, e)
	}
	return "", false
}

// an operation returning (x, err) whose model is a [res]
func c04ResMulti(scrut string, lhs []string, pre []string) *c04Multi {
	x, errv := lhs[0], lhs[1]
	bind := c04Name(x)
	return &c04Multi{pre: pre, scrut: scrut, cases: []c04Case{
		{pat: "Ok " + bind, apply: func(e *c04Env) { e.bind(x); e.bind(errv); e.facts[errv] = "nil" }},
		{pat: "Err ee", apply: func(e *c04Env) { e.bind(x); e.zero[x] = true; e.bind(errv); e.facts[errv] = "err:ee" }},
		{pat: "Panic", whole: "Panic"},
	}}
}

// an operation returning (x, ok) whose model is an [option]
func c04OptMulti(scrut string, lhs []string, pre []string) *c04Multi {
	x, okv := lhs[0], lhs[1]
	return &c04Multi{pre: pre, scrut: scrut, cases: []c04Case{
		{pat: "Some " + c04Name(x), apply: func(e *c04Env) { e.bind(x); e.bind(okv); e.facts[okv] = "true" }},
		{pat: "None", apply: func(e *c04Env) { e.bind(x); e.zero[x] = true; e.bind(okv); e.facts[okv] = "false" }},
	}}
}

// the method or function literal called name inside a file
func c04Method(f *ast.File, recvType, name string) *ast.FuncDecl {
	for _, d := range f.Decls {
		fd, ok := d.(*ast.FuncDecl)
		if !ok || fd.Name.Name != name || fd.Recv == nil || len(fd.Recv.List) != 1 {
			continue
		}
		ty := types.ExprString(fd.Recv.List[0].Type)
		ty = strings.TrimPrefix(ty, "*")
		if i := strings.Index(ty, "["); i >= 0 {
			ty = ty[:i]
		}
		if ty == recvType {
			return fd
		}
	}
	return nil
}

func c04RecvName(fd *ast.FuncDecl) string {
	if fd.Recv == nil || len(fd.Recv.List) != 1 || len(fd.Recv.List[0].Names) != 1 {
		return ""
	}
	return fd.Recv.List[0].Names[0].Name
}

// the function literal assigned to (or defined as) the variable name inside fn
func c04FuncLitOf(fn *ast.FuncDecl, name string) *ast.FuncLit {
	var found *ast.FuncLit
	ast.Inspect(fn.Body, func(n ast.Node) bool {
		as, ok := n.(*ast.AssignStmt)
		if !ok || len(as.Lhs) != 1 || len(as.Rhs) != 1 {
			return true
		}
		if types.ExprString(as.Lhs[0]) != name {
			return true
		}
		if fl, ok := as.Rhs[0].(*ast.FuncLit); ok && found == nil {
			found = fl
		}
		return true
	})
	return found
}

func c04ParamNames(ft *ast.FuncType) []string {
	var r []string
	if ft.Params == nil {
		return r
	}
	for _, f := range ft.Params.List {
		for _, n := range f.Names {
			r = append(r, n.Name)
		}
	}
	return r
}
